package main

// TREE POINTER MODE (`TreeMode` in whitelist.go): the pointer code of the balanced trees (trees/redblacktree,
// trees/avltree) and of their iterators.
//
//   - the struct named by `Cell` (Node) lives in a HEAP (coq/GoTreeHeap.v: association list + allocation counter); a
//     *Node is an address (option nat, nil = None); its record type is GENERATED from the Go struct declaration;
//   - every other struct (Tree, Iterator) is a record VALUE that is threaded through its methods (the receiver); a
//     pointer field to another such struct (Iterator.tree) is the CONTAINER: not a field but a parameter of the methods
//     that use it (read-only);
//   - every function is in the option monad (None = nil dereference / out of fuel) and takes the heap `h`; it returns
//     the state components it (or a callee) changes -- the comparator-call counter `ncmp`, the heap `h`, the receiver
//     record -- followed by its results, as one flat tuple.  Which components a function has is found by translating
//     it (not by a syntactic approximation);
//   - `tree.Comparator(a, b)` is GoCmp.call_cmp (sign from the model's comparator, arbitrary magnitude) and counts;
//   - `for cond { }` loops are Fixpoints on explicit fuel; recursive functions (also mutually recursive) are Fixpoints
//     on fuel; a function that needs fuel takes a leading `fuel` parameter and passes it on;
//   - tagless `switch { case c: ... }` is the chain of ifs; forward `goto L` to a label at the top level of the function
//     body is the code from L to the end of the function (which must return).
//
// See README.md.

import (
	"fmt"
	"go/ast"
	"go/token"
	"sort"
	"strconv"
	"strings"
)

type tkind int

const (
	tkInt tkind = iota
	tkBool
	tkElem
	tkPtr
	tkRec
	tkCmp
	tkFn
	tkArr2
	tkCnt
	tkHeap
	tkSlice // []K / []V made by the function itself: a list with Go's run-time checks (coq/GoHeap.v)
)

type tty struct {
	k tkind
	s string // tkRec: the struct
	n int    // tkFn: number of (element) parameters; the result is bool
}

func (x tty) eq(y tty) bool { return x.k == y.k && x.s == y.s && x.n == y.n }

type tfield struct {
	name      string
	ty        tty
	container bool
	coq       string // projection
}

type tstruct struct {
	name   string
	cell   bool
	fields []*tfield
	pos    token.Pos
}

func (s *tstruct) field(n string) *tfield {
	for _, f := range s.fields {
		if f.name == n {
			return f
		}
	}
	return nil
}
func (s *tstruct) containerField() *tfield {
	for _, f := range s.fields {
		if f.container {
			return f
		}
	}
	return nil
}

type tconst struct {
	coq string
	ty  tty
	val string
}

type tflags struct{ cnt, wh, wr, fuel, needs, root, wroot bool } // root / wroot: treelink.go

type tparam struct {
	name string
	ty   tty
}

type tfunc struct {
	name    string
	coq     string
	decl    *ast.FuncDecl
	recv    string
	recvSt  *tstruct
	params  []tparam
	results []tty
	named   []string
	fl      tflags
	rec     bool // member of a recursive group: Fixpoint on fuel
	scc     int
	done    bool
	aux     []string
	body    string
	binders string
	resTy   string
}

type tunit struct {
	t       *translator
	u       *unit
	structs map[string]*tstruct
	sorder  []*tstruct
	cell    *tstruct
	named   map[string]tty
	consts  map[string]*tconst
	corder  []string
	funcs   []*tfunc
	byKey   map[string]*tfunc
	tparams map[string]bool
	// discovery pass: every function is translated once only to find out which functions it really calls (the
	// callee of `x.M()` depends on the type of x), for the recursion analysis
	discover  bool
	edges     map[*tfunc][]*tfunc
	usesSlice bool       // some function makes a slice: GoHeap.v
	link      *tlinkInfo // treelink.go
}

func (x tty) coq(tu *tunit) string {
	if s, ok := linkCoqType(x); ok { // treelink.go
		return s
	}
	switch x.k {
	case tkInt, tkElem:
		return "Z"
	case tkBool:
		return "bool"
	case tkPtr:
		return "(option nat)"
	case tkRec:
		return mangle(x.s)
	case tkCmp:
		return "GoCmp.comparator"
	case tkFn:
		return "(" + strings.Repeat("Z -> ", x.n) + "bool)"
	case tkArr2:
		return "GoTreeHeap.arr2"
	case tkSlice:
		return "(Datatypes.list Z)"
	case tkCnt:
		return "nat"
	case tkHeap:
		return "(heap " + mangle(tu.cell.name) + ")"
	}
	return btCoq(x) // B-tree mode (btreeheap.go): slices and entries; "unit" otherwise
}

func tzero(x tty) string {
	switch x.k {
	case tkInt, tkElem:
		return "0"
	case tkBool:
		return "false"
	case tkPtr:
		return "(@None nat)"
	case tkArr2:
		return "(@None nat, @None nat)"
	}
	return btZero(x) // B-tree mode (btreeheap.go); "" otherwise
}

const tvCnt, tvHeap = "#c", "#h"

func tv(n string) string {
	switch n {
	case tvCnt:
		return "ncmp"
	case tvHeap:
		return "h"
	case tvRoot: // treelink.go
		return "root"
	}
	return vname(n)
}

type tvar struct {
	ty    tty
	depth int
	seq   int
}

type tenv struct {
	vars  map[string]tvar
	depth int
}

func (e tenv) with(n string, t tty) tenv {
	m := make(map[string]tvar, len(e.vars)+1)
	for k, v := range e.vars {
		m[k] = v
	}
	m[n] = tvar{ty: t, depth: e.depth, seq: len(e.vars)}
	return tenv{vars: m, depth: e.depth}
}
func (e tenv) deeper() tenv { return tenv{vars: e.vars, depth: e.depth + 1} }
func (e tenv) dropTo(depth int) tenv {
	m := map[string]tvar{}
	for k, v := range e.vars {
		if v.depth <= depth {
			m[k] = v
		}
	}
	return tenv{vars: m, depth: depth}
}
func (e tenv) ordered() []string {
	var ns []string
	for n := range e.vars {
		ns = append(ns, n)
	}
	sort.Slice(ns, func(i, j int) bool { return e.vars[ns[i]].seq < e.vars[ns[j]].seq })
	return ns
}

type tcont func(e tenv) string

type tfx struct {
	tu     *tunit
	fn     *tfunc
	used   tflags
	aux    []string
	nloop  int
	tmp    int
	logs   []map[string]bool
	logTh  []int
	resTy  string
	brk    []func(e tenv) string
	retk   []func(base string) string
	inLoop int
	labels map[string]int // label -> index in flat (top-level statements of the body)
	flat   []ast.Stmt
	topEnv int
	k0     tcont
	// locals: slices made by this function (the only ones that may be written) and iterator records built from the
	// receiver (`it := tree.Iterator()`: their container is the receiver)
	localSlice map[string]bool
	localRec   map[string]bool
}

func (h *tfx) usesSlice()                                       { h.tu.usesSlice = true }
func (h *tfx) bad(p token.Pos, format string, a ...interface{}) { h.tu.t.unsupported(p, format, a...) }
func (h *tfx) fresh(pfx string) string {
	h.tmp++
	return pfx + strconv.Itoa(h.tmp)
}

func (h *tfx) rebind(n string, e tenv) {
	switch n {
	case tvCnt:
		h.used.cnt = true
	case tvHeap:
		h.used.wh = true
	case tvRoot: // treelink.go
		h.used.wroot = true
	}
	if n == h.fn.recv && h.fn.recvSt != nil && !h.fn.recvSt.cell {
		h.used.wr = true
	}
	vi, ok := e.vars[n]
	if !ok {
		return
	}
	for i, l := range h.logs {
		if vi.depth <= h.logTh[i] {
			l[n] = true
		}
	}
}

func (h *tfx) assignedBy(e tenv, run func()) []string {
	l := map[string]bool{}
	h.logs = append(h.logs, l)
	h.logTh = append(h.logTh, e.depth)
	naux, nloop, ntmp := len(h.aux), h.nloop, h.tmp
	run()
	h.aux, h.nloop, h.tmp = h.aux[:naux], nloop, ntmp
	h.logs, h.logTh = h.logs[:len(h.logs)-1], h.logTh[:len(h.logTh)-1]
	var ns []string
	for n := range l {
		ns = append(ns, n)
	}
	sort.Slice(ns, func(i, j int) bool { return e.vars[ns[i]].seq < e.vars[ns[j]].seq })
	return ns
}

func ttuple(ns []string) string {
	if len(ns) == 0 {
		return "tt"
	}
	var p []string
	for _, n := range ns {
		p = append(p, tv(n))
	}
	if len(p) == 1 {
		return p[0]
	}
	return "(" + strings.Join(p, ", ") + ")"
}
func tpat(ns []string) string {
	if len(ns) == 0 {
		return "_"
	}
	return ttuple(ns)
}
func (h *tfx) tupleTy(e tenv, ns []string) string {
	if len(ns) == 0 {
		return "unit"
	}
	var p []string
	for _, n := range ns {
		p = append(p, e.vars[n].ty.coq(h.tu))
	}
	if len(p) == 1 {
		return p[0]
	}
	return "(" + strings.Join(p, " * ") + ")"
}

// ---------------------------------------------------------------- types

func (tu *tunit) structOf(x ast.Expr) *tstruct {
	switch n := x.(type) {
	case *ast.Ident:
		return tu.structs[n.Name]
	case *ast.IndexExpr:
		return tu.structOf(n.X)
	case *ast.IndexListExpr:
		return tu.structOf(n.X)
	}
	return nil
}

func (tu *tunit) typeOf(x ast.Expr) tty {
	switch n := x.(type) {
	case *ast.Ident:
		switch n.Name {
		case "int", "int8", "byte":
			return tty{k: tkInt}
		case "bool":
			return tty{k: tkBool}
		}
		if tu.tparams[n.Name] {
			return tty{k: tkElem}
		}
		if t, ok := tu.named[n.Name]; ok {
			return t
		}
	case *ast.StarExpr:
		if lt, ok := tu.linkTypeOf(n); ok { // **Node, *K: treelink.go
			return lt
		}
		if s := tu.structOf(n.X); s != nil {
			if s.cell {
				return tty{k: tkPtr}
			}
			return tty{k: tkRec, s: s.name}
		}
	case *ast.IndexExpr: // utils.Comparator[K]
		if sel, ok := n.X.(*ast.SelectorExpr); ok && sel.Sel.Name == "Comparator" {
			if id, ok := sel.X.(*ast.Ident); ok && id.Name == "utils" {
				return tty{k: tkCmp}
			}
		}
	case *ast.FuncType:
		if n.Results != nil && len(n.Results.List) == 1 && n.TypeParams == nil {
			if tu.typeOf(n.Results.List[0].Type).k == tkBool {
				ps := fieldList(n.Params)
				ok := len(ps) > 0
				for _, p := range ps {
					ok = ok && tu.typeOf(p.typ).k == tkElem
				}
				if ok {
					return tty{k: tkFn, n: len(ps)}
				}
			}
		}
	case *ast.ArrayType:
		if lit, ok := n.Len.(*ast.BasicLit); ok && lit.Value == "2" && tu.typeOf(n.Elt).k == tkPtr {
			return tty{k: tkArr2}
		}
		if n.Len == nil && tu.typeOf(n.Elt).k == tkElem {
			return tty{k: tkSlice}
		}
	}
	if t, ok := tu.btTypeOf(x); ok { // B-tree mode (btreeheap.go)
		return t
	}
	tu.t.unsupported(x.Pos(), "type %T in a tree pointer-mode file (int, int8, byte, bool, type parameters, named bool / byte types, *Node, *Tree, utils.Comparator[K], func(K, V) bool, [2]*Node only)", x)
	return tty{}
}

// ---------------------------------------------------------------- expressions: (binds, term, type)

func (h *tfx) isNil(x ast.Expr, e tenv) bool {
	id, ok := x.(*ast.Ident)
	_, shadow := e.vars["nil"]
	return ok && id.Name == "nil" && !shadow
}

func (h *tfx) expr(x ast.Expr, e tenv) (string, string, tty) {
	tu := h.tu
	switch n := x.(type) {
	case *ast.ParenExpr:
		return h.expr(n.X, e)
	case *ast.BasicLit:
		if n.Kind != token.INT {
			h.bad(n.Pos(), "literal %s", n.Value)
		}
		return "", n.Value, tty{k: tkInt}
	case *ast.Ident:
		if n.Name == "true" || n.Name == "false" {
			if _, sh := e.vars[n.Name]; !sh {
				return "", n.Name, tty{k: tkBool}
			}
		}
		if h.isNil(n, e) {
			return "", "(@None nat)", tty{k: tkPtr}
		}
		if vi, ok := e.vars[n.Name]; ok {
			return "", tv(n.Name), vi.ty
		}
		if c, ok := tu.consts[n.Name]; ok {
			return "", c.coq, c.ty
		}
		h.bad(n.Pos(), "identifier %s", n.Name)
	case *ast.UnaryExpr:
		if n.Op == token.AND {
			if b, s, t, ok := h.addrExpr(n, e); ok { // &tree.Root, &q.Children[a], &q.Key: treelink.go
				return b, s, t
			}
			return h.composite(n, e)
		}
		b, s, t := h.expr(n.X, e)
		switch {
		case n.Op == token.SUB && t.k == tkInt:
			return b, "(- " + s + ")", t
		case n.Op == token.NOT && t.k == tkBool:
			return b, "(negb " + s + ")", t
		}
		h.bad(n.Pos(), "unary operator %s", n.Op)
	case *ast.SelectorExpr:
		if id, ok := n.X.(*ast.Ident); ok && id.Name == "cmp" && n.Sel.Name == "Compare" {
			if _, sh := e.vars["cmp"]; !sh && tu.u.Imports["cmp"] == "<std>/cmp" {
				return "", "GoCmp.compare", tty{k: tkCmp}
			}
		}
		b, s, t := h.expr(n.X, e)
		switch t.k {
		case tkRec:
			st := tu.structs[t.s]
			f := st.field(n.Sel.Name)
			if f == nil {
				h.bad(n.Pos(), "field %s of %s", n.Sel.Name, t.s)
			}
			if f.container {
				id, ok := n.X.(*ast.Ident)
				if !ok || id.Name != h.fn.recv {
					h.bad(n.Pos(), "container field %s read through something that is not the receiver", f.name)
				}
				h.used.needs = true
				return b, vname(f.name), f.ty
			}
			return b, "(" + f.coq + " " + s + ")", f.ty
		case tkPtr: // p.field: through the heap; nil / unallocated = failure
			f := tu.cell.field(n.Sel.Name)
			if f == nil {
				h.bad(n.Pos(), "field %s of %s", n.Sel.Name, tu.cell.name)
			}
			c := h.fresh("c")
			return b + "do " + c + " <- deref h " + s + ";\n", "(" + f.coq + " " + c + ")", f.ty
		}
		if bb, ss, tt, ok := h.btSelect(n, b, s, t); ok { // B-tree mode: entry.Key / entry.Value
			return bb, ss, tt
		}
		h.bad(n.Pos(), "field selection .%s", n.Sel.Name)
	case *ast.IndexExpr:
		if ix, ok := n.X.(*ast.SelectorExpr); ok && ix.Sel.Name == "Compare" { // cmp.Compare[K]
			if id, ok := ix.X.(*ast.Ident); ok && id.Name == "cmp" && tu.u.Imports["cmp"] == "<std>/cmp" {
				return "", "GoCmp.compare", tty{k: tkCmp}
			}
		}
		b1, a, ta := h.expr(n.X, e)
		b2, i, ti := h.expr(n.Index, e)
		if bb, ss, tt, ok := h.btIndex(n, b1+b2, a, ta, i, ti); ok { // B-tree mode: s[i] on a slice
			return bb, ss, tt
		}
		if ta.k != tkArr2 || ti.k != tkInt {
			h.bad(n.Pos(), "index expression")
		}
		x := h.fresh("x") // an index outside 0..1 panics
		return b1 + b2 + "do " + x + " <- GoTreeHeap.arr2_get " + a + " " + i + ";\n", x, tty{k: tkPtr}
	case *ast.BinaryExpr:
		return h.binary(n, e)
	case *ast.StarExpr: // *qp: treelink.go
		return h.starExpr(n, e)
	case *ast.CallExpr:
		if b, s, t, ok := h.conversion(n, e); ok { // int8(e): treelink.go
			return b, s, t
		}
		b, rs, ts := h.call(n, e)
		if len(rs) != 1 {
			h.bad(n.Pos(), "call with %d results inside an expression", len(rs))
		}
		return b, rs[0], ts[0]
	}
	if bb, ss, tt, ok := h.btExpr(x, e); ok { // B-tree mode: s[a:b], []T{...}
		return bb, ss, tt
	}
	h.bad(x.Pos(), "expression %T", x)
	return "", "", tty{}
}

func (h *tfx) binary(n *ast.BinaryExpr, e tenv) (string, string, tty) {
	tBool := tty{k: tkBool}
	if n.Op == token.LAND || n.Op == token.LOR {
		b1, a, ta := h.expr(n.X, e)
		var b2, c string
		var tb tty
		eff := h.assignedBy(e, func() { b2, c, tb = h.expr(n.Y, e) })
		if len(eff) > 0 {
			h.bad(n.Y.Pos(), "right operand of %s with side effects", n.Op)
		}
		b2, c, tb = h.expr(n.Y, e)
		if ta.k != tkBool || tb.k != tkBool {
			h.bad(n.Pos(), "operands of %s", n.Op)
		}
		if b2 != "" {
			// short-circuit: the right operand (which reads through a pointer / calls a function) is evaluated
			// only when the left one does not decide
			r := h.fresh("r")
			if n.Op == token.LAND {
				return b1 + "do " + r + " <- (if " + a + " then (" + b2 + "Some " + c + ") else Some false);\n", r, tBool
			}
			return b1 + "do " + r + " <- (if " + a + " then Some true else (" + b2 + "Some " + c + "));\n", r, tBool
		}
		if n.Op == token.LAND {
			return b1, "(andb " + a + " " + c + ")", tBool
		}
		return b1, "(orb " + a + " " + c + ")", tBool
	}
	b1, a, ta := h.expr(n.X, e)
	b2, c, tb := h.expr(n.Y, e)
	b := b1 + b2
	if ta.k == tkPtr || tb.k == tkPtr {
		if ta.k != tb.k || (n.Op != token.EQL && n.Op != token.NEQ) {
			h.bad(n.Pos(), "pointer operands of %s", n.Op)
		}
		var s string
		switch {
		case h.isNil(n.Y, e):
			s = "(is_nil " + a + ")"
		case h.isNil(n.X, e):
			s = "(is_nil " + c + ")"
		default:
			s = "(ptr_eqb " + a + " " + c + ")"
		}
		if n.Op == token.NEQ {
			s = "(negb " + s + ")"
		}
		return b, s, tBool
	}
	ints := ta.k == tkInt && tb.k == tkInt
	switch n.Op {
	case token.ADD, token.SUB, token.MUL:
		if ints {
			return b, "(" + a + " " + n.Op.String() + " " + c + ")", ta
		}
	case token.QUO:
		if r, ok := h.btQuo(n, a, c, ints); ok { // B-tree mode: division by a non-zero literal
			return b, r, ta
		}
		if ints { // treelink.go
			return b, h.quoExpr(n, a, c), ta
		}
	case token.XOR:
		if ints { // on the non-negative ints these files use it for (a ^ 1)
			return b, "(Z.lxor " + a + " " + c + ")", ta
		}
	case token.LSS:
		if ints {
			return b, "(" + a + " <? " + c + ")", tBool
		}
	case token.LEQ:
		if ints {
			return b, "(" + a + " <=? " + c + ")", tBool
		}
	case token.GTR:
		if ints {
			return b, "(" + c + " <? " + a + ")", tBool
		}
	case token.GEQ:
		if ints {
			return b, "(" + c + " <=? " + a + ")", tBool
		}
	case token.EQL, token.NEQ:
		var s string
		switch {
		case ints || (ta.k == tkElem && tb.k == tkElem):
			s = "(" + a + " =? " + c + ")"
		case ta.k == tkBool && tb.k == tkBool:
			s = "(Bool.eqb " + a + " " + c + ")"
		default:
			h.bad(n.Pos(), "operands of %s", n.Op)
		}
		if n.Op == token.NEQ {
			s = "(negb " + s + ")"
		}
		return b, s, tBool
	}
	h.bad(n.Pos(), "binary operator %s on these operands", n.Op)
	return "", "", tty{}
}

// &Node[K, V]{...} (allocation in the heap) / &Tree[K, V]{...}, &Iterator[K, V]{...} (a record value)
func (h *tfx) composite(u *ast.UnaryExpr, e tenv) (string, string, tty) {
	tu := h.tu
	cl, ok := u.X.(*ast.CompositeLit)
	if !ok {
		h.bad(u.Pos(), "address of something that is not a composite literal")
	}
	st := tu.structOf(cl.Type)
	if st == nil {
		if bb, ss, tt, ok := h.btPairLit(cl, e); ok { // B-tree mode: &Entry{Key: k, Value: v}
			return bb, ss, tt
		}
		h.bad(u.Pos(), "composite literal of an unknown type")
	}
	vals := map[string]string{}
	binds := ""
	for _, el := range cl.Elts {
		kv, ok := el.(*ast.KeyValueExpr)
		if !ok {
			h.bad(el.Pos(), "positional composite literal")
		}
		key, ok := kv.Key.(*ast.Ident)
		f := (*tfield)(nil)
		if ok {
			f = st.field(key.Name)
		}
		if f == nil {
			h.bad(el.Pos(), "field of the composite literal")
		}
		b, v, tv := h.expr(kv.Value, e)
		if !tv.eq(f.ty) {
			h.bad(kv.Value.Pos(), "value of field %s has an unexpected type", f.name)
		}
		h.btLitField(kv.Value, tv, e) // B-tree mode: a slice stored in a node literal must be fresh (aliasing)
		if f.container {
			// the container an iterator walks: must be the receiver (it is a parameter of the iterator's methods)
			id, ok := kv.Value.(*ast.Ident)
			if !ok || id.Name != h.fn.recv {
				h.bad(kv.Value.Pos(), "container field %s set to something that is not the receiver", f.name)
			}
			vals[f.name] = ""
			continue
		}
		if _, dup := vals[f.name]; dup {
			h.bad(el.Pos(), "field %s set twice", f.name)
		}
		binds += b
		vals[f.name] = v
	}
	s := "(mk" + st.name
	for _, f := range st.fields {
		v, set := vals[f.name]
		if f.container {
			if !set {
				h.bad(u.Pos(), "container field %s left nil", f.name)
			}
			continue
		}
		if !set {
			v = tzero(f.ty)
			if v == "" {
				h.bad(u.Pos(), "field %s left to its zero value (a nil function / record)", f.name)
			}
		}
		s += " " + v
	}
	s += ")"
	if st.cell {
		a := h.fresh("a")
		h.rebind(tvHeap, e)
		return binds + "let '(h, " + a + ") := alloc h " + s + " in\n", a, tty{k: tkPtr}
	}
	return binds, s, tty{k: tkRec, s: st.name}
}

// a call: binds, result terms, result types
func (h *tfx) call(c *ast.CallExpr, e tenv) (string, []string, []tty) {
	tu := h.tu
	if bb, rs, ts, ok := h.btCall(c, e); ok { // B-tree mode: len, append, copy, panic, []T(nil)
		return bb, rs, ts
	}
	var fn *tfunc
	binds := ""
	recvTerm, recvOwn, viaContainer, localRec := "", false, false, ""
	fun := c.Fun
	if ix, ok := fun.(*ast.IndexExpr); ok {
		if _, isSel := ix.X.(*ast.SelectorExpr); !isSel {
			fun = ix.X
		}
	}
	if ix, ok := fun.(*ast.IndexListExpr); ok {
		fun = ix.X
	}
	if id, ok := c.Fun.(*ast.Ident); ok && id.Name == "make" && len(c.Args) == 2 { // make([]K, n): a fresh slice of zeros
		if _, sh := e.vars["make"]; !sh && tu.typeOf(c.Args[0]).k == tkSlice {
			b, l, tl := h.expr(c.Args[1], e)
			if tl.k != tkInt {
				h.bad(c.Pos(), "make with a non-int length")
			}
			r := h.fresh("s") // a negative length panics
			h.usesSlice()
			return b + "do " + r + " <- GoHeap.hs_make " + l + " " + l + ";\n", []string{r}, []tty{{k: tkSlice}}
		}
	}
	switch f := fun.(type) {
	case *ast.Ident:
		if vi, ok := e.vars[f.Name]; ok && vi.ty.k == tkFn { // a function-typed parameter
			if len(c.Args) != vi.ty.n {
				h.bad(c.Pos(), "call of %s with a wrong number of arguments", f.Name)
			}
			s := "(" + tv(f.Name)
			for _, a := range c.Args {
				b, as, ta := h.expr(a, e)
				if ta.k != tkElem {
					h.bad(a.Pos(), "argument of unexpected type")
				}
				binds += b
				s += " " + as
			}
			return binds, []string{s + ")"}, []tty{{k: tkBool}}
		}
		if _, sh := e.vars[f.Name]; sh {
			h.bad(c.Pos(), "call of the variable %s", f.Name)
		}
		fn = tu.byKey["."+f.Name]
		if fn == nil {
			h.bad(c.Pos(), "call of %s, which is not a translated function of this unit", f.Name)
		}
	case *ast.SelectorExpr:
		b, s, t := h.expr(f.X, e)
		binds += b
		switch t.k {
		case tkRec:
			st := tu.structs[t.s]
			if fl := st.field(f.Sel.Name); fl != nil && fl.ty.k == tkCmp { // tree.Comparator(a, b): a comparator CALL
				if len(c.Args) != 2 {
					h.bad(c.Pos(), "comparator call with %d arguments", len(c.Args))
				}
				var as []string
				for _, a := range c.Args {
					ba, sa, ta := h.expr(a, e)
					if ta.k != tkElem {
						h.bad(a.Pos(), "comparator argument of unexpected type")
					}
					binds += ba
					as = append(as, sa)
				}
				r := h.fresh("r")
				h.rebind(tvCnt, e)
				return binds + "let " + r + " := GoCmp.call_cmp cmp_mag (" + fl.coq + " " + s + ") " + as[0] + " " + as[1] + " in\nlet ncmp := S ncmp in\n", []string{r}, []tty{{k: tkInt}}
			}
			fn = tu.byKey[t.s+"."+f.Sel.Name]
			recvTerm = s
			if id, ok := f.X.(*ast.Ident); ok && id.Name == h.fn.recv {
				recvOwn = true
			} else if sel, ok := f.X.(*ast.SelectorExpr); ok {
				if id, ok := sel.X.(*ast.Ident); ok && id.Name == h.fn.recv {
					viaContainer = true
				}
			}
			if id, ok := f.X.(*ast.Ident); ok && h.localRec[id.Name] {
				localRec = id.Name
			}
			if !recvOwn && !viaContainer && localRec == "" {
				h.bad(c.Pos(), "method call on a record that is neither the receiver, its container, nor an iterator built from the receiver")
			}
		case tkPtr:
			fn = tu.byKey[tu.cell.name+"."+f.Sel.Name]
			recvTerm = s
		default:
			h.bad(c.Pos(), "method call on this expression")
		}
		if fn == nil {
			h.bad(c.Pos(), "call of %s, which is not a translated method of this unit", f.Sel.Name)
		}
	default:
		h.bad(c.Pos(), "call of %T", c.Fun)
	}
	if tu.discover {
		tu.edges[h.fn] = append(tu.edges[h.fn], fn)
	} else if !fn.done && fn.scc != h.fn.scc {
		h.bad(c.Pos(), "call of %s, which could not be translated", fn.name)
	}
	if len(c.Args) != len(fn.params) || c.Ellipsis != token.NoPos {
		h.bad(c.Pos(), "call of %s with a wrong number of arguments", fn.name)
	}
	s := fn.coq
	if fn.fl.fuel {
		h.used.fuel = true
		if fn.rec && fn.scc == h.fn.scc {
			if h.inLoop > 0 {
				h.bad(c.Pos(), "recursive call of %s inside a loop", fn.name)
			}
			s += " fuel'"
		} else {
			s += " fuel"
		}
	}
	if fn.fl.cnt {
		s += " ncmp"
	}
	s += " h"
	rootArg, rootPat, rootPost := h.callRoot(c, fn, e) // treelink.go
	s += rootArg
	if fn.fl.needs {
		cf := fn.recvSt.containerField()
		switch {
		case recvOwn:
			h.used.needs = true
			s += " " + vname(cf.name)
		case localRec != "": // the container of an iterator built from the receiver is the receiver
			s += " " + vname(h.fn.recv)
		default:
			h.bad(c.Pos(), "call of %s (which needs its container) on something that is not the receiver", fn.name)
		}
	}
	if fn.recvSt != nil {
		s += " " + recvTerm
	}
	for i, a := range c.Args {
		b, as, ta := h.expr(a, e)
		if !ta.eq(fn.params[i].ty) {
			h.bad(a.Pos(), "argument of unexpected type")
		}
		binds += b
		s += " " + as
	}
	var pat []string
	if fn.fl.cnt {
		h.rebind(tvCnt, e)
		pat = append(pat, "ncmp")
	}
	if fn.fl.wh {
		h.rebind(tvHeap, e)
		pat = append(pat, "h")
	}
	if rootPat != "" {
		pat = append(pat, rootPat)
	}
	if fn.fl.wr {
		switch {
		case recvOwn:
			h.rebind(h.fn.recv, e)
			pat = append(pat, vname(h.fn.recv))
		case localRec != "":
			h.rebind(localRec, e)
			pat = append(pat, vname(localRec))
		default:
			h.bad(c.Pos(), "call of %s, which modifies its receiver, on something that is not the receiver variable", fn.name)
		}
	}
	var rs []string
	for range fn.results {
		r := h.fresh("r")
		rs = append(rs, r)
		pat = append(pat, r)
	}
	p := "_"
	if len(pat) == 1 {
		p = pat[0]
	} else if len(pat) > 1 {
		p = "(" + strings.Join(pat, ", ") + ")"
	}
	return binds + "do " + p + " <- " + s + ";\n" + rootPost, rs, fn.results
}

// ---------------------------------------------------------------- statements

func (h *tfx) stateNames() []string {
	var st []string
	if h.fn.fl.cnt {
		st = append(st, "ncmp")
	}
	if h.fn.fl.wh {
		st = append(st, "h")
	}
	if h.fn.fl.wroot {
		st = append(st, tv(tvRoot))
	}
	if h.fn.fl.wr {
		st = append(st, vname(h.fn.recv))
	}
	return st
}

func (h *tfx) ret(vals []string) string {
	all := append(h.stateNames(), vals...)
	base := "tt"
	if len(all) == 1 {
		base = all[0]
	} else if len(all) > 1 {
		base = "(" + strings.Join(all, ", ") + ")"
	}
	return h.leave(base)
}

func (h *tfx) leave(base string) string {
	if len(h.retk) > 0 {
		return h.retk[len(h.retk)-1](base)
	}
	return "Some " + base
}

// `return` or `goto` (a goto runs the rest of the function from its label, which returns)
func tHasReturn(n ast.Node) bool {
	found := false
	ast.Inspect(n, func(x ast.Node) bool {
		switch y := x.(type) {
		case *ast.ReturnStmt:
			found = true
		case *ast.BranchStmt:
			if y.Tok == token.GOTO {
				found = true
			}
		}
		return !found
	})
	return found
}

func tHasBranch(n ast.Node) bool {
	found := false
	ast.Inspect(n, func(x ast.Node) bool {
		switch y := x.(type) {
		case *ast.BranchStmt:
			if y.Tok != token.GOTO {
				found = true
			}
		case *ast.ForStmt, *ast.RangeStmt, *ast.SwitchStmt:
			if x != n {
				return false
			}
		}
		return !found
	})
	return found
}

func tHasExit(n ast.Node) bool { return tHasReturn(n) || tHasBranch(n) }

func (h *tfx) assign(lhs ast.Expr, val string, tvl tty, define bool, e tenv) (string, tenv) {
	tu := h.tu
	h.btSliceGuard(lhs, val, tvl) // B-tree mode: slice values only through a checked single assignment (aliasing)
	switch l := lhs.(type) {
	case *ast.Ident:
		if l.Name == "_" {
			return "", e
		}
		vi, exists := e.vars[l.Name]
		if define && (!exists || (vi.depth != e.depth && !h.btSameScope(vi, e))) {
			if exists {
				h.bad(l.Pos(), "variable %s shadows an outer variable", l.Name)
			}
			if _, isConst := tu.consts[l.Name]; isConst {
				h.bad(l.Pos(), "variable %s shadows a constant", l.Name)
			}
			return "let " + tv(l.Name) + " := " + val + " in\n", e.with(l.Name, tvl)
		}
		if !exists || !vi.ty.eq(tvl) {
			h.bad(l.Pos(), "assignment to %s", l.Name)
		}
		if vi.ty.k == tkRec || vi.ty.k == tkSlice {
			h.bad(l.Pos(), "assignment to the record / slice variable %s", l.Name)
		}
		h.rebind(l.Name, e)
		return "let " + tv(l.Name) + " := " + val + " in\n", e
	case *ast.SelectorExpr:
		if id, ok := l.X.(*ast.Ident); ok {
			if vi, ok := e.vars[id.Name]; ok && vi.ty.k == tkRec { // recv.field = val
				if id.Name != h.fn.recv {
					h.bad(l.Pos(), "assignment to a field of a record that is not the receiver")
				}
				f := tu.structs[vi.ty.s].field(l.Sel.Name)
				if f == nil || f.container || !f.ty.eq(tvl) {
					h.bad(l.Pos(), "assignment to %s.%s", id.Name, l.Sel.Name)
				}
				h.rebind(id.Name, e)
				rv := vname(id.Name)
				return "let " + rv + " := " + vi.ty.s + "_set_" + f.name + " " + rv + " " + val + " in\n", e
			}
		}
		b, p, tp := h.expr(l.X, e)
		if tp.k != tkPtr {
			h.bad(l.Pos(), "assignment through this expression")
		}
		f := tu.cell.field(l.Sel.Name)
		if f == nil || !f.ty.eq(tvl) {
			h.bad(l.Pos(), "assignment to the node field %s", l.Sel.Name)
		}
		h.rebind(tvHeap, e)
		return b + "do h <- store h " + p + " (" + tu.cell.name + "_with_" + f.name + " " + val + ");\n", e
	case *ast.StarExpr: // *qp = val: treelink.go
		return h.starAssign(l, val, tvl, e)
	case *ast.IndexExpr: // p.Children[i] = val; keys[i] = val
		if out, ok := h.btIndexAssign(l, val, tvl, e); ok { // B-tree mode: p.Entries[i] = val on a slice field
			return out, e
		}
		if id, ok := l.X.(*ast.Ident); ok { // an element of a slice made by this function; out of range = panic
			vi, exists := e.vars[id.Name]
			bi, i, ti := h.expr(l.Index, e)
			if !exists || vi.ty.k != tkSlice || !h.localSlice[id.Name] || ti.k != tkInt || tvl.k != tkElem {
				h.bad(lhs.Pos(), "assignment to an element of something that is not a slice made by this function")
			}
			h.rebind(id.Name, e)
			h.usesSlice()
			return bi + "do " + tv(id.Name) + " <- GoHeap.hs_set " + tv(id.Name) + " " + i + " " + val + ";\n", e
		}
		sel, ok := l.X.(*ast.SelectorExpr)
		if !ok {
			h.bad(lhs.Pos(), "assignment target")
		}
		b, p, tp := h.expr(sel.X, e)
		f := tu.cell.field(sel.Sel.Name)
		bi, i, ti := h.expr(l.Index, e)
		if tp.k != tkPtr || f == nil || f.ty.k != tkArr2 || ti.k != tkInt || tvl.k != tkPtr {
			h.bad(lhs.Pos(), "assignment target")
		}
		c, a := h.fresh("c"), h.fresh("x")
		h.rebind(tvHeap, e)
		return b + bi + "do " + c + " <- deref h " + p + ";\ndo " + a + " <- GoTreeHeap.arr2_set (" + f.coq + " " + c + ") " + i + " " + val + ";\ndo h <- store h " + p + " (" + tu.cell.name + "_with_" + f.name + " " + a + ");\n", e
	}
	h.bad(lhs.Pos(), "assignment target")
	return "", e
}

func (h *tfx) stmts(ss []ast.Stmt, e tenv, k tcont) string {
	if len(ss) == 0 {
		return k(e)
	}
	s, rest := ss[0], ss[1:]
	next := func(e2 tenv) string { return h.stmts(rest, e2, k) }
	switch n := s.(type) {
	case *ast.EmptyStmt:
		return next(e)
	case *ast.LabeledStmt:
		if _, ok := h.labels[n.Label.Name]; !ok || e.depth != h.topEnv {
			h.bad(n.Pos(), "label %s that is not at the top level of the function body", n.Label.Name)
		}
		return h.stmts(append([]ast.Stmt{n.Stmt}, rest...), e, k)
	case *ast.DeclStmt:
		gd := n.Decl.(*ast.GenDecl)
		if gd.Tok != token.VAR {
			h.bad(n.Pos(), "local declaration")
		}
		out := ""
		for _, sp := range gd.Specs {
			vs := sp.(*ast.ValueSpec)
			if vs.Type == nil || len(vs.Values) != 0 {
				h.bad(vs.Pos(), "var declaration with initialiser")
			}
			t := h.tu.typeOf(vs.Type)
			z := tzero(t)
			if z == "" {
				h.bad(vs.Pos(), "var of this type")
			}
			for _, nm := range vs.Names {
				var p string
				p, e = h.assign(nm, z, t, true, e)
				out += p
			}
		}
		return out + next(e)
	case *ast.IncDecStmt:
		b, cur, t := h.expr(n.X, e)
		if t.k != tkInt {
			h.bad(n.Pos(), "++ / -- on a non-int")
		}
		op := " + 1"
		if n.Tok == token.DEC {
			op = " - 1"
		}
		p, e2 := h.assign(n.X, "("+cur+op+")", t, false, e)
		return b + p + next(e2)
	case *ast.ExprStmt:
		c, ok := n.X.(*ast.CallExpr)
		if !ok {
			h.bad(n.Pos(), "expression statement")
		}
		b, _, _ := h.call(c, e)
		return b + next(e)
	case *ast.AssignStmt:
		return h.assignStmt(n, e, next)
	case *ast.ReturnStmt:
		if len(n.Results) == 0 {
			var vals []string
			for _, nm := range h.fn.named {
				if nm == "" {
					h.bad(n.Pos(), "bare return with unnamed results")
				}
				vals = append(vals, vname(nm))
			}
			return h.ret(vals)
		}
		binds := ""
		var vals []string
		if len(n.Results) == 1 && len(h.fn.results) > 1 {
			if c, ok := n.Results[0].(*ast.CallExpr); ok { // return f(...)
				b, rs, ts := h.call(c, e)
				if len(ts) != len(h.fn.results) {
					h.bad(n.Pos(), "return of a call with %d results", len(ts))
				}
				for i := range ts {
					if !ts[i].eq(h.fn.results[i]) {
						h.bad(n.Pos(), "returned value of unexpected type")
					}
				}
				return b + h.ret(rs)
			}
		}
		if len(n.Results) != len(h.fn.results) {
			h.bad(n.Pos(), "return with %d values", len(n.Results))
		}
		for i, r := range n.Results {
			b, v, tvl := h.expr(r, e)
			v, tvl = h.btCoerce(r, v, tvl, h.fn.results[i], e) // B-tree mode: nil / a key as interface{}
			if !tvl.eq(h.fn.results[i]) {
				h.bad(r.Pos(), "returned value of unexpected type")
			}
			binds += b
			if b != "" && i+1 < len(n.Results) { // later operands may rebind the state: freeze this value
				t := h.fresh("t")
				binds += "let " + t + " := " + v + " in\n"
				v = t
			}
			vals = append(vals, v)
		}
		return binds + h.ret(vals)
	case *ast.IfStmt:
		if n.Init != nil {
			if !h.tu.u.Spec.BTree {
				h.bad(n.Pos(), "if with an initialiser")
			}
			// B-tree mode: if init; cond {..} = { init; if cond {..} }
			blk := &ast.BlockStmt{Lbrace: n.Pos(), List: []ast.Stmt{n.Init, &ast.IfStmt{If: n.If, Cond: n.Cond, Body: n.Body, Else: n.Else}}, Rbrace: n.End()}
			return h.stmts(append([]ast.Stmt{blk}, rest...), e, k)
		}
		b, c, tc := h.expr(n.Cond, e)
		if tc.k != tkBool {
			h.bad(n.Cond.Pos(), "condition")
		}
		branch := func(kk tcont) (string, string) {
			a := h.stmts(n.Body.List, e.deeper(), kk)
			bb := ""
			switch el := n.Else.(type) {
			case nil:
				bb = kk(e)
			case *ast.BlockStmt:
				bb = h.stmts(el.List, e.deeper(), kk)
			case *ast.IfStmt:
				bb = h.stmts([]ast.Stmt{el}, e.deeper(), kk)
			}
			return a, bb
		}
		if tHasExit(n.Body) || (n.Else != nil && tHasExit(n.Else)) {
			kk := func(e2 tenv) string { return next(e2.dropTo(e.depth)) }
			a, bb := branch(kk)
			return b + "if " + c + "\nthen (" + a + ")\nelse (" + bb + ")"
		}
		ms := h.assignedBy(e, func() { branch(func(tenv) string { return "" }) })
		a, bb := branch(func(tenv) string { return "Some " + ttuple(ms) })
		for _, m := range ms {
			h.rebind(m, e)
		}
		return b + "do " + tpat(ms) + " <- (if " + c + "\n  then (" + a + ")\n  else (" + bb + "));\n" + next(e)
	case *ast.ForStmt:
		return h.forStmt(n, e, next)
	case *ast.BranchStmt:
		if n.Tok == token.GOTO {
			idx, ok := h.labels[n.Label.Name]
			if !ok || h.tu.t.fset.Position(h.flat[idx].Pos()).Offset < h.tu.t.fset.Position(n.Pos()).Offset {
				h.bad(n.Pos(), "goto %s (only forward jumps to a label at the top level of the function body)", n.Label.Name)
			}
			// the rest of the function from the label on, with the variables of the function's top level
			saved := h.brk
			h.brk = append(append([]func(tenv) string(nil), saved...), nil)
			r := h.stmts(h.flat[idx:], e.dropTo(h.topEnv), h.k0)
			h.brk = saved
			return r
		}
		if n.Tok != token.BREAK || n.Label != nil || len(h.brk) == 0 || h.brk[len(h.brk)-1] == nil {
			h.bad(n.Pos(), "%s here (only a plain `break` of a `for` loop is translated)", n.Tok)
		}
		return h.brk[len(h.brk)-1](e)
	case *ast.SwitchStmt:
		return h.switchStmt(n, e, next)
	case *ast.BlockStmt:
		return h.stmts(n.List, e.deeper(), func(e2 tenv) string { return next(e2.dropTo(e.depth)) })
	}
	if r, ok := h.btStmt(s, e, next); ok { // B-tree mode: range over a slice
		return r
	}
	h.bad(s.Pos(), "statement %T", s)
	return ""
}

// the operand of the assignment target is not a plain variable: evaluating it reads the heap (or calls a function)
func (h *tfx) lhsReadsHeap(lhs ast.Expr, e tenv) bool {
	switch l := lhs.(type) {
	case *ast.Ident:
		return false
	case *ast.StarExpr: // *qp with qp a plain variable (a link value): evaluating the operand reads nothing
		_, plain := l.X.(*ast.Ident)
		return !plain
	case *ast.SelectorExpr:
		_, plain := l.X.(*ast.Ident)
		return !plain
	case *ast.IndexExpr:
		if sel, ok := l.X.(*ast.SelectorExpr); ok {
			if _, plain := sel.X.(*ast.Ident); plain {
				if _, lit := l.Index.(*ast.BasicLit); lit {
					return false
				}
				if _, id := l.Index.(*ast.Ident); id {
					return false
				}
			}
		}
	}
	return true
}

func (h *tfx) assignStmt(n *ast.AssignStmt, e tenv, next tcont) string {
	define := n.Tok == token.DEFINE
	if n.Tok != token.ASSIGN && !define {
		var op string
		switch n.Tok {
		case token.ADD_ASSIGN:
			op = " + "
		case token.SUB_ASSIGN:
			op = " - "
		default:
			h.bad(n.Pos(), "assignment operator %s", n.Tok)
		}
		b1, cur, t1 := h.expr(n.Lhs[0], e)
		b2, v, t2 := h.expr(n.Rhs[0], e)
		if t1.k != tkInt || t2.k != tkInt {
			h.bad(n.Pos(), "compound assignment on non-ints")
		}
		// the left operand is read before the right one is evaluated (the right one is a call here)
		t := h.fresh("t")
		p, e2 := h.assign(n.Lhs[0], "("+t+op+v+")", t1, false, e)
		return b1 + "let " + t + " := " + cur + " in\n" + b2 + p + next(e2)
	}
	if len(n.Lhs) != len(n.Rhs) {
		if c, ok := n.Rhs[0].(*ast.CallExpr); ok && len(n.Rhs) == 1 { // a, b := f(...)
			b, rs, ts := h.call(c, e)
			if len(rs) != len(n.Lhs) {
				h.bad(n.Pos(), "assignment with %d targets and %d values", len(n.Lhs), len(rs))
			}
			out := b
			for i, l := range n.Lhs {
				var p string
				p, e = h.assign(l, rs[i], ts[i], define, e)
				out += p
			}
			return out + next(e)
		}
		h.bad(n.Pos(), "assignment with %d targets and %d values", len(n.Lhs), len(n.Rhs))
	}
	if len(n.Lhs) == 1 {
		var b, v string
		var tvl tty
		eff := h.assignedBy(e, func() { h.expr(n.Rhs[0], e) })
		b, v, tvl = h.expr(n.Rhs[0], e)
		v, tvl = h.btNil(n.Lhs[0], n.Rhs[0], v, tvl, e) // B-tree mode: nil of an entry / slice / interface type
		if len(eff) > 0 && h.lhsReadsHeap(n.Lhs[0], e) {
			// Go evaluates the pointer operand of the left-hand side BEFORE the right-hand side; here it would be read
			// from the state AFTER the call
			h.bad(n.Pos(), "assignment whose target is reached through the heap while the right-hand side has side effects")
		}
		if tvl.k == tkRec || tvl.k == tkSlice { // only `x := make(..)` / `it := recv.Iterator()`
			id, isId := n.Lhs[0].(*ast.Ident)
			c, isCall := n.Rhs[0].(*ast.CallExpr)
			if !define || !isId || !isCall {
				h.bad(n.Pos(), "a record / slice value that is not bound by `x := make(...)` / `it := receiver.M()`")
			}
			if tvl.k == tkSlice {
				h.localSlice[id.Name] = true
			} else {
				sel, isSel := c.Fun.(*ast.SelectorExpr)
				cf := h.tu.structs[tvl.s].containerField()
				rid, _ := sel.X.(*ast.Ident)
				if !isSel || rid == nil || rid.Name != h.fn.recv || h.fn.recvSt == nil || cf == nil || cf.ty.s != h.fn.recvSt.name {
					h.bad(n.Pos(), "a record variable that is not an iterator built from the receiver")
				}
				h.localRec[id.Name] = true
			}
		}
		p, e2 := h.assign(n.Lhs[0], v, tvl, define, e)
		return b + p + next(e2)
	}
	// parallel assignment: all right-hand sides first
	out := ""
	var temps []string
	var tys []tty
	for _, r := range n.Rhs {
		r := r
		if eff := h.assignedBy(e, func() { h.expr(r, e) }); len(eff) > 0 {
			for _, l := range n.Lhs {
				if h.lhsReadsHeap(l, e) {
					h.bad(n.Pos(), "parallel assignment whose target is reached through the heap while a right-hand side has side effects")
				}
			}
		}
		b, v, tvl := h.expr(r, e)
		t := h.fresh("t")
		out += b + "let " + t + " := " + v + " in\n"
		temps = append(temps, t)
		tys = append(tys, tvl)
	}
	for i, l := range n.Lhs {
		var p string
		p, e = h.assign(l, temps[i], tys[i], define, e)
		out += p
	}
	return out + next(e)
}

// switch { case c1: ...; case c2, c3: ...; default: ... } (tagless, boolean cases) and switch tag { case a: ... } on
// an int tag without side effects: the chain of ifs.  `break` inside a switch and `fallthrough` are refused.
func (h *tfx) switchStmt(n *ast.SwitchStmt, e tenv, next tcont) string {
	if n.Init != nil {
		h.bad(n.Pos(), "switch with an initialiser")
	}
	if n.Tag != nil {
		if b, _, t := h.expr(n.Tag, e); b != "" || t.k != tkInt {
			h.bad(n.Tag.Pos(), "switch tag that is not a plain int expression")
		}
	}
	var chain, last *ast.IfStmt
	var deflt *ast.BlockStmt
	for _, c := range n.Body.List {
		cc := c.(*ast.CaseClause)
		for _, st := range cc.Body {
			if br, ok := st.(*ast.BranchStmt); ok && br.Tok == token.FALLTHROUGH {
				h.bad(br.Pos(), "fallthrough")
			}
		}
		blk := &ast.BlockStmt{Lbrace: cc.Colon, List: cc.Body, Rbrace: cc.End()}
		if cc.List == nil {
			if deflt != nil {
				h.bad(cc.Pos(), "two default clauses")
			}
			deflt = blk
			continue
		}
		var cond ast.Expr
		for _, v := range cc.List {
			var one ast.Expr = v
			if n.Tag != nil {
				if b, _, t := h.expr(v, e); b != "" || t.k != tkInt {
					h.bad(v.Pos(), "case value that is not a plain int expression")
				}
				one = &ast.BinaryExpr{X: n.Tag, OpPos: v.Pos(), Op: token.EQL, Y: v}
			}
			if cond == nil {
				cond = one
			} else {
				cond = &ast.BinaryExpr{X: cond, OpPos: v.Pos(), Op: token.LOR, Y: one}
			}
		}
		ifs := &ast.IfStmt{If: cc.Pos(), Cond: cond, Body: blk}
		if chain == nil {
			chain = ifs
		} else {
			last.Else = ifs
		}
		last = ifs
	}
	saved := h.brk
	h.brk = append(append([]func(tenv) string(nil), saved...), nil)
	after := func(e2 tenv) string {
		inner := h.brk
		h.brk = saved
		r := next(e2)
		h.brk = inner
		return r
	}
	var out string
	switch {
	case chain == nil && deflt == nil:
		out = after(e)
	case chain == nil:
		out = h.stmts(deflt.List, e.deeper(), func(e2 tenv) string { return after(e2.dropTo(e.depth)) })
	default:
		if deflt != nil {
			last.Else = deflt
		}
		out = h.stmts([]ast.Stmt{chain}, e, after)
	}
	h.brk = saved
	return out
}

// ---------------------------------------------------------------- loops (Fixpoints on fuel)

type tloop struct {
	h      *tfx
	e      tenv
	ms     []string
	hasRet bool
}

func (l *tloop) normal() string {
	if l.hasRet {
		if len(l.ms) == 0 {
			return "Some None"
		}
		return "Some (None, " + ttuple(l.ms) + ")"
	}
	return "Some " + ttuple(l.ms)
}
func (l *tloop) early(base string) string {
	if len(l.ms) == 0 {
		return "Some (Some " + base + ")"
	}
	return "Some (Some " + base + ", " + ttuple(l.ms) + ")"
}
func (l *tloop) resTy() string {
	if l.hasRet {
		if len(l.ms) == 0 {
			return "(option " + l.h.resTy + ")"
		}
		return "(option " + l.h.resTy + " * " + l.h.tupleTy(l.e, l.ms) + ")"
	}
	return l.h.tupleTy(l.e, l.ms)
}

func (l *tloop) call(app string, next tcont) string {
	h := l.h
	if !l.hasRet {
		return "do " + tpat(l.ms) + " <- " + app + ";\n" + next(l.e)
	}
	er := h.fresh("er")
	pat := er
	if len(l.ms) > 0 {
		pat = "(" + er + ", " + ttuple(l.ms) + ")"
	}
	r := h.fresh("r")
	return "do " + pat + " <- " + app + ";\nmatch " + er + " with\n| Some " + r + " => " + h.leave(r) + "\n| None => " + next(l.e) + "\nend"
}

// for [init]; cond; [post] { body }: a Fixpoint on explicit fuel over every variable in scope; it yields the outer
// variables (and state components) an iteration assigns; a `return` / `goto` in the body makes it yield
// (Some result, vars); `break` ends it with the current values.  The condition is evaluated inside the Fixpoint (it
// may dereference pointers and call methods).
func (h *tfx) forStmt(n *ast.ForStmt, e tenv, next tcont) string {
	if n.Cond == nil {
		if !h.tu.u.Spec.BTree {
			h.bad(n.Pos(), "loop without condition")
		}
		// B-tree mode: for { } = for true { }; without a `break` the code after the loop is unreachable
		n = &ast.ForStmt{For: n.For, Init: n.Init, Cond: &ast.Ident{NamePos: n.For, Name: "true"}, Post: n.Post, Body: n.Body}
		if _, sh := e.vars["true"]; sh {
			h.bad(n.Pos(), "loop without condition where `true` is shadowed")
		}
		if !tHasBranch(n.Body) {
			next = func(tenv) string { return "None (* unreachable: a loop without condition and without break *)" }
		}
	}
	if h.fn.rec {
		h.bad(n.Pos(), "loop inside a recursive function")
	}
	eL := e.deeper()
	init := ""
	if n.Init != nil {
		as, ok := n.Init.(*ast.AssignStmt)
		if !ok || as.Tok != token.DEFINE {
			h.bad(n.Pos(), "loop initialiser that is not `x := ...`")
		}
		init = h.assignStmt(as, eL, func(e2 tenv) string { eL = e2; return "" })
	}
	h.used.fuel = true
	h.nloop++
	fname := h.fn.coq + "_loop" + strconv.Itoa(h.nloop)
	eB := tenv{vars: eL.vars, depth: eL.depth + 1}
	var post []ast.Stmt
	if n.Post != nil {
		post = []ast.Stmt{n.Post}
	}
	var binders, args []string
	for _, v := range eL.ordered() {
		binders = append(binders, "("+tv(v)+" : "+eL.vars[v].ty.coq(h.tu)+")")
		args = append(args, tv(v))
	}
	l := &tloop{h: h, e: e, hasRet: tHasReturn(n.Body)}
	rec := "(" + fname + " fuel' " + strings.Join(args, " ") + ")"
	iter := func(kk tcont) string {
		bc, c, tc := h.expr(n.Cond, eL)
		if tc.k != tkBool {
			h.bad(n.Cond.Pos(), "loop condition")
		}
		b := h.stmts(n.Body.List, eB, func(e2 tenv) string {
			saved := h.brk // the post statement is outside the reach of `break`
			h.brk = append(append([]func(tenv) string(nil), saved...), nil)
			r := h.stmts(post, e2.dropTo(eB.depth), kk)
			h.brk = saved
			return r
		})
		return bc + "if " + c + "\nthen match fuel with\n  | O => None (* out of fuel *)\n  | S fuel' =>\n" + b + "\n  end\nelse " + l.normal()
	}
	h.brk = append(h.brk, func(tenv) string { return l.normal() })
	if l.hasRet {
		h.retk = append(h.retk, l.early)
	}
	h.inLoop++
	l.ms = h.assignedBy(e, func() { iter(func(tenv) string { return "" }) })
	body := iter(func(tenv) string { return rec })
	h.inLoop--
	h.brk = h.brk[:len(h.brk)-1]
	if l.hasRet {
		h.retk = h.retk[:len(h.retk)-1]
	}
	for _, m := range l.ms {
		h.rebind(m, e)
	}
	h.aux = append(h.aux, "Fixpoint "+fname+" (fuel : nat) "+strings.Join(binders, " ")+" {struct fuel} : option "+l.resTy()+" :=\n"+body+".\n")
	return init + l.call(fname+" fuel "+strings.Join(args, " "), next)
}

// ---------------------------------------------------------------- the unit

func (t *translator) treeUnit(u *unit) {
	tu := &tunit{t: t, u: u, structs: map[string]*tstruct{}, named: map[string]tty{}, consts: map[string]*tconst{}, byKey: map[string]*tfunc{}, tparams: map[string]bool{}}
	u.tree = tu
	if !t.guard(func() { tu.collectTypes() }) {
		return
	}
	var order []*tfunc
	for _, d := range u.allDecls() {
		fd, ok := d.(*ast.FuncDecl)
		if !ok {
			continue
		}
		name := fd.Name.Name
		if reason, skip := u.Spec.Skip[name]; skip {
			dup := false
			for _, s := range u.Skipped {
				dup = dup || s[0] == name
			}
			if !dup {
				u.Skipped = append(u.Skipped, [2]string{name, reason})
			}
			continue
		}
		fn := &tfunc{name: name, decl: fd}
		if !t.guard(func() { tu.signature(fn) }) {
			t.errs[len(t.errs)-1] += " [in function " + name + " of " + u.Spec.GoFile + "]"
			continue
		}
		key := "." + name
		if fn.recvSt != nil {
			key = fn.recvSt.name + "." + name
		}
		if tu.byKey[key] != nil {
			t.errs = append(t.errs, fmt.Sprintf("%s: duplicate function %s", u.Spec.GoFile, key))
			continue
		}
		tu.byKey[key] = fn
		order = append(order, fn)
	}
	for n := range u.Spec.Skip {
		found := false
		for _, s := range u.Skipped {
			found = found || s[0] == n
		}
		if !found {
			t.errs = append(t.errs, fmt.Sprintf("%s: explicitly skipped function %s has vanished from the file", u.Spec.GoFile, n))
		}
	}
	tu.funcs = order
	tu.names()
	// the call graph (found by a discovery pass of the translation itself), strongly connected components, callees first
	tu.discover, tu.edges = true, map[*tfunc][]*tfunc{}
	for _, fn := range order {
		fn := fn
		if !t.guard(func() { tu.translate(fn) }) {
			t.errs[len(t.errs)-1] += " [in function " + fn.name + " of " + u.Spec.GoFile + "]"
		}
	}
	tu.discover = false
	if len(t.errs) > 0 {
		return
	}
	callees := func(fn *tfunc) []*tfunc { return tu.edges[fn] }
	index, low, onStack := map[*tfunc]int{}, map[*tfunc]int{}, map[*tfunc]bool{}
	var stack []*tfunc
	var sccs [][]*tfunc
	counter := 0
	var strong func(v *tfunc)
	strong = func(v *tfunc) {
		counter++
		index[v], low[v] = counter, counter
		stack = append(stack, v)
		onStack[v] = true
		for _, w := range callees(v) {
			if index[w] == 0 {
				strong(w)
				if low[w] < low[v] {
					low[v] = low[w]
				}
			} else if onStack[w] && index[w] < low[v] {
				low[v] = index[w]
			}
		}
		if low[v] == index[v] {
			var comp []*tfunc
			for {
				w := stack[len(stack)-1]
				stack = stack[:len(stack)-1]
				onStack[w] = false
				comp = append(comp, w)
				if w == v {
					break
				}
			}
			sort.Slice(comp, func(i, j int) bool { return comp[i].decl.Pos() < comp[j].decl.Pos() })
			sccs = append(sccs, comp)
		}
	}
	for _, fn := range order {
		if index[fn] == 0 {
			strong(fn)
		}
	}
	for i, comp := range sccs {
		self := false
		for _, w := range callees(comp[0]) {
			self = self || w == comp[0]
		}
		for _, fn := range comp {
			fn.scc = i + 1
			fn.rec = len(comp) > 1 || self
			if fn.rec {
				fn.fl.fuel = true
			}
		}
		// translate until the effect flags are stable (they only grow)
		failed := false
		for round := 0; round < 8 && !failed; round++ {
			changed := false
			for _, fn := range comp {
				fn := fn
				var used tflags
				if !t.guard(func() { used = tu.translate(fn) }) {
					t.errs[len(t.errs)-1] += " [in function " + fn.name + " of " + u.Spec.GoFile + "]"
					failed = true
					break
				}
				nf := tflags{fn.fl.cnt || used.cnt, fn.fl.wh || used.wh, fn.fl.wr || used.wr, fn.fl.fuel || used.fuel, fn.fl.needs || used.needs, fn.fl.root || used.root, fn.fl.wroot || used.wroot}
				if nf != fn.fl {
					fn.fl, changed = nf, true
				}
			}
			if !changed {
				break
			}
		}
		if failed {
			continue
		}
		var text strings.Builder
		for k, fn := range comp {
			fn.done = true
			pos := t.fset.Position(fn.decl.Pos())
			if !fn.rec {
				fmt.Fprintf(&text, "(* %s:%d  func %s *)\n", relPath(t.repo, pos.Filename), pos.Line, fn.name)
				for _, a := range fn.aux {
					text.WriteString(a)
				}
				fmt.Fprintf(&text, "Definition %s %s : option %s :=\n%s.\n", fn.coq, fn.binders, fn.resTy, fn.body)
				continue
			}
			kw := "with"
			if k == 0 {
				kw = "Fixpoint"
			}
			fmt.Fprintf(&text, "(* %s:%d  func %s (recursive: fuel = maximal depth of the calls inside this group) *)\n", relPath(t.repo, pos.Filename), pos.Line, fn.name)
			fmt.Fprintf(&text, "%s %s %s {struct fuel} : option %s :=\nmatch fuel with\n| O => None (* out of fuel *)\n| S fuel' =>\n%s\nend", kw, fn.coq, fn.binders, fn.resTy, fn.body)
			if k == len(comp)-1 {
				text.WriteString(".\n")
			} else {
				text.WriteString("\n")
			}
		}
		for k, fn := range comp {
			fi := &funcInfo{Unit: u, Name: fn.name, Coq: fn.coq, Decl: fn.decl}
			if k == 0 {
				fi.text = text.String()
			}
			u.Funcs = append(u.Funcs, fi)
		}
	}
}

func relPath(repo, p string) string {
	if strings.HasPrefix(p, repo+"/") {
		return strings.TrimPrefix(p, repo+"/")
	}
	return p
}

// type declarations, constants; package-level variables are refused unless blank (`var _ I = (*T)(nil)`)
func (tu *tunit) collectTypes() {
	t, u := tu.t, tu.u
	type pend struct {
		s  *tstruct
		st *ast.StructType
	}
	var todo []pend
	for _, d := range u.allDecls() {
		gd, ok := d.(*ast.GenDecl)
		if !ok {
			continue
		}
		switch gd.Tok {
		case token.TYPE:
			for _, sp := range gd.Specs {
				ts := sp.(*ast.TypeSpec)
				if ts.TypeParams != nil {
					for _, f := range ts.TypeParams.List {
						for _, n := range f.Names {
							tu.tparams[n.Name] = true
						}
					}
				}
				switch x := ts.Type.(type) {
				case *ast.StructType:
					if tu.btPairDecl(ts, x) { // B-tree mode: Entry{Key, Value} is a pair value, not a record
						continue
					}
					s := &tstruct{name: ts.Name.Name, pos: ts.Pos(), cell: ts.Name.Name == u.Spec.Cell}
					tu.structs[s.name] = s
					tu.sorder = append(tu.sorder, s)
					if s.cell {
						tu.cell = s
					}
					todo = append(todo, pend{s, x})
				case *ast.Ident:
					switch x.Name {
					case "bool":
						tu.named[ts.Name.Name] = tty{k: tkBool}
					case "byte", "int", "int8":
						tu.named[ts.Name.Name] = tty{k: tkInt}
					default:
						t.unsupported(ts.Pos(), "named type %s", ts.Name.Name)
					}
				default:
					t.unsupported(ts.Pos(), "type declaration %s", ts.Name.Name)
				}
			}
		case token.VAR:
			for _, sp := range gd.Specs {
				for _, n := range sp.(*ast.ValueSpec).Names {
					if n.Name != "_" {
						t.unsupported(n.Pos(), "package-level variable %s", n.Name)
					}
				}
			}
		}
	}
	if tu.cell == nil {
		t.unsupported(u.File.Pos(), "the file does not declare the heap struct %s", u.Spec.Cell)
	}
	for _, p := range todo {
		for _, f := range fieldList(p.st.Fields) {
			if f.name == "" {
				t.unsupported(p.s.pos, "embedded field in struct %s", p.s.name)
			}
			ft := tu.typeOf(f.typ)
			tu.linkFieldCheck(f.typ.Pos(), ft, p.s.name, f.name) // treelink.go
			fl := &tfield{name: f.name, ty: ft, coq: p.s.name + "_" + f.name}
			if ft.k == tkRec {
				if p.s.cell || p.s.containerField() != nil {
					t.unsupported(f.typ.Pos(), "field %s.%s: pointer to a record", p.s.name, f.name)
				}
				fl.container = true
			}
			if ft.k == tkFn || (p.s.cell && ft.k == tkCmp) {
				t.unsupported(f.typ.Pos(), "field %s.%s of function type", p.s.name, f.name)
			}
			p.s.fields = append(p.s.fields, fl)
		}
	}
	// constants: const ( a, b T = v1, v2 ) with literal values
	for _, d := range u.allDecls() {
		gd, ok := d.(*ast.GenDecl)
		if !ok || gd.Tok != token.CONST {
			continue
		}
		for _, sp := range gd.Specs {
			vs := sp.(*ast.ValueSpec)
			if vs.Type == nil || len(vs.Names) != len(vs.Values) {
				t.unsupported(vs.Pos(), "constant declaration without type / values")
			}
			ct := tu.typeOf(vs.Type)
			for i, n := range vs.Names {
				val := ""
				switch v := vs.Values[i].(type) {
				case *ast.Ident:
					if ct.k == tkBool && (v.Name == "true" || v.Name == "false") {
						val = v.Name
					}
				case *ast.BasicLit:
					if ct.k == tkInt && v.Kind == token.INT {
						val = v.Value
					}
				}
				if val == "" {
					t.unsupported(vs.Values[i].Pos(), "value of the constant %s", n.Name)
				}
				tu.consts[n.Name] = &tconst{coq: mangle(n.Name), ty: ct, val: val}
				tu.corder = append(tu.corder, n.Name)
			}
		}
	}
}

func (tu *tunit) signature(fn *tfunc) {
	t := tu.t
	fd := fn.decl
	if fd.Body == nil {
		t.unsupported(fd.Pos(), "function %s without body", fn.name)
	}
	if fd.Recv != nil {
		rn, rt, _, ok := recvInfo(fd)
		st := tu.structs[rt]
		if _, isPtr := fd.Recv.List[0].Type.(*ast.StarExpr); !ok || st == nil || !isPtr || rn == "" {
			t.unsupported(fd.Pos(), "receiver of %s", fn.name)
		}
		fn.recv, fn.recvSt = rn, st
	} else if fd.Type.TypeParams != nil {
		for _, f := range fd.Type.TypeParams.List {
			for _, n := range f.Names {
				if !tu.tparams[n.Name] {
					t.unsupported(f.Pos(), "type parameter %s of %s (not a type parameter of the structs)", n.Name, fn.name)
				}
			}
		}
	}
	for _, p := range fieldList(fd.Type.Params) {
		if p.name == "" || p.name == "_" {
			t.unsupported(fd.Pos(), "unnamed parameter of %s", fn.name)
		}
		ty := tu.typeOf(p.typ)
		if ty.k == tkRec {
			t.unsupported(p.typ.Pos(), "record parameter of %s", fn.name)
		}
		fn.params = append(fn.params, tparam{p.name, ty})
	}
	for _, r := range fieldList(fd.Type.Results) {
		fn.results = append(fn.results, tu.typeOf(r.typ))
		fn.named = append(fn.named, r.name)
	}
}

// Coq names: the Go name when it is unique in the unit, else <Receiver>_<name>
func (tu *tunit) names() {
	taken := map[string]int{}
	for _, s := range tu.sorder {
		taken[mangle(s.name)]++
		taken["mk"+s.name]++
		for _, f := range s.fields {
			taken[f.coq]++
			taken[s.name+"_set_"+f.name]++
			taken[s.name+"_with_"+f.name]++
		}
	}
	for _, c := range tu.corder {
		taken[tu.consts[c].coq]++
	}
	for _, w := range []string{"heap", "deref", "store", "alloc", "ptr_eqb", "is_nil", "cmp_mag", "fuel", "ncmp", "h", "hread", "ptr", "root", "link"} {
		taken[w]++
	}
	for _, fn := range tu.funcs {
		taken[mangle(fn.name)]++
	}
	final := map[string]bool{}
	for _, fn := range tu.funcs {
		n := mangle(fn.name)
		if taken[n] > 1 {
			if fn.recvSt == nil {
				tu.t.errs = append(tu.t.errs, fmt.Sprintf("%s: no free Coq name for function %s", tu.u.Spec.GoFile, fn.name))
				continue
			}
			n = fn.recvSt.name + "_" + fn.name
		}
		if final[n] || (n != mangle(fn.name) && taken[n] > 0) {
			tu.t.errs = append(tu.t.errs, fmt.Sprintf("%s: no free Coq name for function %s", tu.u.Spec.GoFile, fn.name))
		}
		final[n] = true
		fn.coq = n
	}
}

// one translation pass with the current flags of fn and of its callees; returns the effects observed
func (tu *tunit) translate(fn *tfunc) tflags {
	t := tu.t
	h := &tfx{tu: tu, fn: fn, labels: map[string]int{}, localSlice: map[string]bool{}, localRec: map[string]bool{}}
	fd := fn.decl
	e := tenv{vars: map[string]tvar{}}
	var binders []string
	if fn.fl.fuel {
		binders = append(binders, "(fuel : nat)")
	}
	if fn.fl.cnt {
		e = e.with(tvCnt, tty{k: tkCnt})
		binders = append(binders, "(ncmp : nat)")
	}
	e = e.with(tvHeap, tty{k: tkHeap})
	binders = append(binders, "(h : "+tty{k: tkHeap}.coq(tu)+")")
	if fn.fl.root || fn.fl.wroot { // the content of the root slot: treelink.go
		e = e.with(tvRoot, tty{k: tkPtr})
		binders = append(binders, "("+tv(tvRoot)+" : "+tty{k: tkPtr}.coq(tu)+")")
	}
	if fn.recvSt != nil {
		if cf := fn.recvSt.containerField(); cf != nil && fn.fl.needs {
			e = e.with(cf.name, cf.ty)
			binders = append(binders, "("+vname(cf.name)+" : "+cf.ty.coq(tu)+")")
		}
		rt := tty{k: tkRec, s: fn.recvSt.name}
		if fn.recvSt.cell {
			rt = tty{k: tkPtr}
		}
		if _, dup := e.vars[fn.recv]; dup {
			t.unsupported(fd.Pos(), "receiver named like its container field")
		}
		e = e.with(fn.recv, rt)
		binders = append(binders, "("+vname(fn.recv)+" : "+rt.coq(tu)+")")
	}
	for _, p := range fn.params {
		if _, dup := e.vars[p.name]; dup {
			t.unsupported(fd.Pos(), "parameter %s declared twice / named like the container", p.name)
		}
		e = e.with(p.name, p.ty)
		binders = append(binders, "("+vname(p.name)+" : "+p.ty.coq(tu)+")")
	}
	pre := ""
	for i, r := range fn.results {
		if nm := fn.named[i]; nm != "" && nm != "_" {
			z := tzero(r)
			if z == "" {
				t.unsupported(fd.Pos(), "named result %s of this type", nm)
			}
			if _, dup := e.vars[nm]; dup {
				t.unsupported(fd.Pos(), "named result %s shadows a parameter", nm)
			}
			e = e.with(nm, r)
			pre += "let " + vname(nm) + " := " + z + " in\n"
		}
	}
	var rs []string
	if fn.fl.cnt {
		rs = append(rs, "nat")
	}
	if fn.fl.wh {
		rs = append(rs, tty{k: tkHeap}.coq(tu))
	}
	if fn.fl.wroot {
		rs = append(rs, tty{k: tkPtr}.coq(tu))
	}
	if fn.fl.wr {
		rs = append(rs, mangle(fn.recvSt.name))
	}
	for _, r := range fn.results {
		rs = append(rs, r.coq(tu))
	}
	resTy := "unit"
	if len(rs) == 1 {
		resTy = rs[0]
	} else if len(rs) > 1 {
		resTy = "(" + strings.Join(rs, " * ") + ")"
	}
	h.resTy = resTy
	// labels at the top level of the body
	for _, s := range fd.Body.List {
		for {
			ls, ok := s.(*ast.LabeledStmt)
			if !ok {
				break
			}
			if _, dup := h.labels[ls.Label.Name]; dup {
				t.unsupported(ls.Pos(), "label %s declared twice", ls.Label.Name)
			}
			h.labels[ls.Label.Name] = len(h.flat)
			s = ls.Stmt
		}
		h.flat = append(h.flat, s)
	}
	h.k0 = func(e2 tenv) string {
		if len(fn.results) == 0 {
			return h.ret(nil)
		}
		var vals []string
		for _, nm := range fn.named {
			if nm == "" {
				t.unsupported(fd.Body.Rbrace, "control reaches the end of a function with unnamed results")
			}
			vals = append(vals, vname(nm))
		}
		return h.ret(vals)
	}
	e = e.deeper()
	h.topEnv = e.depth
	body := h.stmts(fd.Body.List, e, h.k0)
	fn.aux, fn.body, fn.binders, fn.resTy = h.aux, pre+body, strings.Join(binders, " "), resTy
	return h.used
}

func (t *translator) emitTree(u *unit) string {
	tu := u.tree
	var b strings.Builder
	var names, skipped []string
	for _, fi := range u.Funcs {
		names = append(names, fi.Coq)
	}
	for _, s := range u.Skipped {
		skipped = append(skipped, s[0])
	}
	fmt.Fprintf(&b, "(* GENERATED by /verif/srcgen (srcgen -repo ... -out ...) -- DO NOT EDIT.\n")
	fmt.Fprintf(&b, "   source: %s  (sha256 %s, %d lines)\n", u.Spec.GoFile, u.Sha, u.SrcLines)
	for _, x := range u.ExtraSha {
		fmt.Fprintf(&b, "   and:    %s\n", x)
	}
	fmt.Fprintf(&b, "   TREE POINTER MODE: a *%s is an address (option nat, nil = None) into a heap of %s records (GoTreeHeap.v); the other\n   structs are record values threaded through their methods; every function is in the option monad (None = nil\n   dereference / out of fuel) and returns the state components it changes (ncmp = number of comparator calls, h = heap,\n   the receiver record) followed by its results; loops and recursive functions are Fixpoints on explicit fuel;\n   ints are Z (overflow is NOT modelled), the type parameters K and V are Z.\n", tu.cell.name, tu.cell.name)
	linkImport := ""
	if tu.link != nil && tu.link.used { // treelink.go
		linkImport = "From GodsGenProofs Require GoTreeLink. (* hand-written: pointers to pointers, /verif/srcgen/coq/GoTreeLink.v *)\n"
		fmt.Fprintf(&b, "   a **%s is a GoTreeLink.link (LRoot = the root slot of the tree header, LChild a i = child slot i of the node at a);\n   a plain function that works on links takes / returns the content of the root slot (`root`).\n", tu.cell.name)
	}
	fmt.Fprintf(&b, "   translated: %s\n", strings.Join(names, ", "))
	for _, s := range u.Skipped {
		fmt.Fprintf(&b, "   SKIPPED explicitly: %s -- %s\n", s[0], s[1])
	}
	sliceReq := ""
	if tu.usesSlice {
		sliceReq = "From GodsGenProofs Require GoHeap. (* hand-written: checked slice writes / make, /verif/srcgen/coq/GoHeap.v *)\n"
	}
	fmt.Fprintf(&b, "*)\nFrom Coq Require Import String.\nFrom Coq Require Import ZArith List Bool.\nFrom GodsGenProofs Require GoCmp. (* hand-written: comparators, /verif/srcgen/coq/GoCmp.v *)\nFrom GodsGenProofs Require Import GoTreeHeap. (* hand-written: heap of nodes, /verif/srcgen/coq/GoTreeHeap.v *)\n%s%sImport ListNotations.\nLocal Open Scope Z_scope.\n\n", sliceReq, linkImport)
	b.WriteString(tu.btRequire()) // B-tree mode: GoBTreeHeap.v
	for _, s := range tu.sorder {
		var fs []string
		for _, f := range s.fields {
			if !f.container {
				fs = append(fs, f.coq+" : "+f.ty.coq(tu))
			}
		}
		fmt.Fprintf(&b, "(* %s:%d  type %s", relPath(t.repo, t.fset.Position(s.pos).Filename), t.fset.Position(s.pos).Line, s.name)
		if s.cell {
			fmt.Fprintf(&b, " (lives in the heap)")
		}
		if cf := s.containerField(); cf != nil {
			fmt.Fprintf(&b, "; field %s (pointer to the container %s) is a PARAMETER of the methods, not a field", cf.name, cf.ty.s)
		}
		fmt.Fprintf(&b, " *)\nRecord %s := mk%s { %s }.\n", mangle(s.name), s.name, strings.Join(fs, "; "))
		for i, f := range s.fields {
			if f.container {
				continue
			}
			var args []string
			for j, g := range s.fields {
				if g.container {
					continue
				}
				if i == j {
					args = append(args, "x")
				} else {
					args = append(args, "("+g.coq+" s)")
				}
			}
			if s.cell {
				fmt.Fprintf(&b, "Definition %s_with_%s (x : %s) (s : %s) : %s := mk%s %s.\n", s.name, f.name, f.ty.coq(tu), mangle(s.name), mangle(s.name), s.name, strings.Join(args, " "))
			} else {
				fmt.Fprintf(&b, "Definition %s_set_%s (s : %s) (x : %s) : %s := mk%s %s.\n", s.name, f.name, mangle(s.name), f.ty.coq(tu), mangle(s.name), s.name, strings.Join(args, " "))
			}
		}
		b.WriteString("\n")
	}
	for _, c := range tu.corder {
		k := tu.consts[c]
		fmt.Fprintf(&b, "Definition %s : %s := %s.\n", k.coq, k.ty.coq(tu), k.val)
	}
	fmt.Fprintf(&b, "\n(* the magnitude of a comparator's answer is arbitrary: a parameter (GoCmp.call_cmp) *)\nSection Cmp.\nVariable cmp_mag : Z -> Z -> positive.\n\n")
	for _, fi := range u.Funcs {
		if fi.text != "" {
			b.WriteString(fi.text)
			b.WriteString("\n")
		}
	}
	fmt.Fprintf(&b, "End Cmp.\n\n")
	sorted := append([]string(nil), names...)
	sort.Strings(sorted)
	sort.Strings(skipped)
	fmt.Fprintf(&b, "Definition source_file : string := %s%%string.\n", strconv.Quote(u.Spec.GoFile))
	fmt.Fprintf(&b, "Definition translated : Datatypes.list string := %s.\n", coqStrings(sorted))
	fmt.Fprintf(&b, "Definition skipped : Datatypes.list string := %s.\n", coqStrings(skipped))
	fmt.Fprintf(&b, "Definition not_selected : Datatypes.list string := %s.\n", coqStrings(nil))
	return b.String()
}
