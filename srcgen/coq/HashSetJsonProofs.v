(* sets/hashset/serialization.go (in GodsGen.HashSetGen), json.Marshal / json.Unmarshal ABSTRACT (any functions):
   FromJSON decodes into a fresh temporary; on an error the receiver is returned unchanged (atomicity); on success
   the state is Machine.load_array (Clear, then Add(elements...)); ToJSON marshals exactly Values(); MarshalJSON =
   ToJSON and UnmarshalJSON = FromJSON. *)
From Coq Require Import ZArith List Lia Bool Arith Permutation.
From Gods Require Import Common.Cmp Common.ListAux Spec.SeqSpec Model.Ops Model.Machine.
From GodsGen Require HashSetGen.
From GodsGenProofs Require Import GenIterRun WrapCommon GoMap GoJson HashSetGenProofs.
Import ListNotations.
Local Open Scope Z_scope.

Section Json.
Variable um : bytes -> list Z -> list Z * bool.       (* json.Unmarshal into a []T *)
Variable ms : list Z -> bytes * bool.                 (* json.Marshal of a []T *)
Variable mo : gmap -> list (Z * Z).
Variable c : config.
Hypothesis Hk : ckind c = HashSet.

(* OBLIGATION *)
Theorem FromJSON_equiv : forall g l data, set_rel g l ->
  if snd (um data []) then S.FromJSON um g data = (g, true)
  else exists l', load_array c (fst (um data [])) = StHSet l' /\
         set_rel (fst (S.FromJSON um g data)) l' /\ snd (S.FromJSON um g data) = false.
Proof.
  intros g l data Hrel. unfold S.FromJSON. destruct (um data []) as [vs e]. destruct e; cbn [fst snd negb]; [reflexivity|].
  destruct (Clear_equiv c Hk g l) as [_ HC].
  destruct (Add_equiv c Hk (fst (S.Clear g)) [] vs HC) as (l' & Hs & Hr).
  exists l'. unfold load_array. rewrite Hk. unfold init. rewrite Hk.
  unfold step in Hs. rewrite Hk in Hs. injection Hs as Hs.
  destruct (S.Clear g) as [g1 u1]. cbn [fst] in *. destruct (S.Add g1 vs) as [g2 u2]. cbn [fst snd] in *.
  unfold add_values. rewrite Hs. auto.
Qed.

(* OBLIGATION: ToJSON marshals Values(); MarshalJSON / UnmarshalJSON delegate *)
Theorem ToJSON_equiv : forall g,
  S.ToJSON ms mo g = ms (S.Values mo g) /\ S.MarshalJSON ms mo g = S.ToJSON ms mo g /\
  (forall data, S.UnmarshalJSON um g data = S.FromJSON um g data).
Proof.
  intros g. unfold S.ToJSON, S.MarshalJSON, S.UnmarshalJSON. repeat split.
  - now destruct (ms (S.Values mo g)).
  - unfold S.ToJSON. now destruct (ms (S.Values mo g)).
  - intros data. now destruct (S.FromJSON um g data).
Qed.
End Json.

Print Assumptions FromJSON_equiv.
Print Assumptions ToJSON_equiv.
