(* sets/treeset/treeset.go regenerated over an ABSTRACT red-black tree (GodsGen.TreeSetGen), the interface
   instantiated with the machine's model of redblacktree.Tree (comparator + optional (tree, size); None = the Go
   code panicked), set.Iterator() with the abstract enumeration [indexed keys], and the reflect-based comparator
   identity test with an abstract boolean [same].  New(values...) is NewWith(GoCmp.compare, values...): the
   generated text mentions cmp.Compare literally.  Add / Remove / Clear = Machine.step on StRB (kind TreeSet),
   Contains = contains_of, Size / Values = size_of / values_of; Intersection / Union / Difference are EXACTLY the
   model's ts_inter / ts_union / ts_diff when the comparators are the same, and the empty set otherwise. *)
From Coq Require Import ZArith List Lia Bool Arith.
From Gods Require Import Common.Cmp Common.ListAux Spec.SeqSpec Model.Ops Model.Machine.
From Gods Require Model.RBTree.
From Gods Require Import Proofs.C05Proofs Proofs.IterLinear.
From GodsGen Require TreeSetGen.
From GodsGenProofs Require Import GenIterRun WrapCommon GoCmp.
From GodsGenProofs Require GoJson.
Import ListNotations.
Local Open Scope Z_scope.

Module T := TreeSetGen.
Module RB := RBTree.

Definition rbtree := (cmpf * option rbs)%type.
Definition on_tree {A} (s : rbtree) (d : A) (f : cmpf -> rbs -> A) : A := match snd s with Some r => f (fst s) r | None => d end.
Definition upd_tree (s : rbtree) (f : cmpf -> rbs -> option rbs) : rbtree * unit :=
  ((fst s, match snd s with Some r => f (fst s) r | None => None end), tt).
Definition node_res (n : node) : node * bool := (n, node_nonnil n).

Definition I : T.tree_iface := T.mk_tree_iface rbtree
  (fun s k => on_tree s (None, false) (fun cmp r => node_res (RB.ceiling cmp k (fst r))))   (* Ceiling(key) *)
  (fun s => upd_tree s (fun _ _ => Some rbs_empty))                                          (* Clear() *)
  (fun s => on_tree s true (fun _ r => snd r =? 0))                                          (* Empty() *)
  (fun s k => on_tree s (None, false) (fun cmp r => node_res (RB.floor cmp k (fst r))))     (* Floor(key) *)
  (fun s d => (s, true))   (* FromJSON(data): placeholder (always an error); the wrappers' delegation is proved for ANY interface *)
  (fun s k => on_tree s (0, false) (fun cmp r => opt_pair (rbs_get cmp k r)))               (* Get(key) *)
  (fun s => on_tree s [] (fun _ r => RB.keys (fst r)))                                      (* Keys() *)
  (fun s => on_tree s None (fun _ r => RB.leftmost (fst r)))                                (* Left() *)
  (fun s k v => upd_tree s (fun cmp r => rbs_put cmp k v r))                                (* Put(key, value) *)
  (fun s k => upd_tree s (fun cmp r => rbs_remove cmp k r))                                 (* Remove(key) *)
  (fun s => on_tree s None (fun _ r => RB.rightmost (fst r)))                               (* Right() *)
  (fun s => on_tree s 0 (fun _ r => snd r))                                                 (* Size() *)
  (fun s => (GoJson.nil_bytes, true))   (* ToJSON(): placeholder *)
  (fun s => on_tree s [] (fun _ r => RB.values (fst r)))                                    (* Values() *)
  (fun s => fst s)                                                                          (* the field Comparator *)
  (GoCmp.compare, Some rbs_empty)                                                           (* redblacktree.New() *)
  (fun cmp => (cmp, Some rbs_empty)).                                                       (* redblacktree.NewWith(cmp) *)

Definition st (s : rbtree) : state := match snd s with Some (t, n) => StRB t n | None => StCrash end.
(* set.Iterator(): index and element, in key order *)
Definition enum (g : T.Set_ I) : list (Z * Z) := on_tree (T.tree I g) [] (fun _ r => indexed (RB.keys (fst r))).

Module Names.
Import Coq.Strings.String.
(* OBLIGATION *)
Theorem translated_functions :
  T.translated = ["Add"; "All"; "Any"; "Clear"; "Contains"; "Difference"; "Empty"; "Find"; "FromJSON"; "Intersection"; "Map"; "MarshalJSON"; "New"; "NewWith"; "Remove"; "Select"; "Size"; "ToJSON"; "Union"; "UnmarshalJSON"; "Values"]%string
  /\ T.skipped = ["Each"; "String"]%string /\ T.not_selected = [].
Proof. repeat split. Qed.
Print Assumptions translated_functions.
End Names.

(* OBLIGATION: New(values...) = NewWith(cmp.Compare, values...), cmp.Compare being the natural order *)
Theorem New_equiv : forall vs, T.New I vs = T.NewWith I GoCmp.compare vs /\ GoCmp.compare = cmp_of CNat.
Proof. intros vs. split; reflexivity. Qed.
Print Assumptions New_equiv.

(* ---------- Add / Remove are folds of the tree's Put / Remove ---------- *)
Definition put1 (s : rbtree) (x : Z) : rbtree := fst (upd_tree s (fun cmp r => rbs_put cmp x 0 r)).
Definition del1 (s : rbtree) (x : Z) : rbtree := fst (upd_tree s (fun cmp r => rbs_remove cmp x r)).

Lemma Add_fold : forall g vs, T.tree I (fst (T.Add I g vs)) = fold_left put1 vs (T.tree I g).
Proof.
  intros g vs. unfold T.Add. cbn [fst].
  transitivity (T.tree I (fold_left (fun g x => T.set_tree I g (put1 (T.tree I g) x)) vs g)).
  - f_equal. rewrite <- (range_fold (T.Set_ I) (fun g x => T.set_tree I g (put1 (T.tree I g) x)) vs g).
    apply fold_left_ext_in. intros a i _. reflexivity.
  - revert g. induction vs as [|x vs IH]; intros g; cbn [fold_left]; [reflexivity|]. now rewrite IH.
Qed.
Lemma Remove_fold : forall g vs, T.tree I (fst (T.Remove I g vs)) = fold_left del1 vs (T.tree I g).
Proof.
  intros g vs. unfold T.Remove. cbn [fst].
  transitivity (T.tree I (fold_left (fun g x => T.set_tree I g (del1 (T.tree I g) x)) vs g)).
  - f_equal. rewrite <- (range_fold (T.Set_ I) (fun g x => T.set_tree I g (del1 (T.tree I g) x)) vs g).
    apply fold_left_ext_in. intros a i _. reflexivity.
  - revert g. induction vs as [|x vs IH]; intros g; cbn [fold_left]; [reflexivity|]. now rewrite IH.
Qed.

Definition st_opt (o : option rbs) : state := match o with Some (t, n) => StRB t n | None => StCrash end.

Lemma fold_put1 : forall vs cmp o,
  fold_left put1 vs (cmp, o) = (cmp, match o with Some r => rbs_puts cmp (map (fun x => (x, 0)) vs) r | None => None end).
Proof.
  induction vs as [|x vs IH]; intros cmp o; cbn [fold_left map rbs_puts]; [now destruct o|].
  unfold put1 at 2, upd_tree. cbn [fst snd]. rewrite IH. destruct o as [r|]; [|reflexivity].
  destruct (rbs_put cmp x 0 r); reflexivity.
Qed.
Lemma fold_del1 : forall vs cmp o,
  fold_left del1 vs (cmp, o) = (cmp, match o with Some r => rbs_removes cmp vs r | None => None end).
Proof.
  induction vs as [|x vs IH]; intros cmp o; cbn [fold_left rbs_removes]; [now destruct o|].
  unfold del1 at 2, upd_tree. cbn [fst snd]. rewrite IH. destruct o as [r|]; [|reflexivity].
  destruct (rbs_remove cmp x r); reflexivity.
Qed.

Section Equiv.
Variable c : config.
Hypothesis Hk : ckind c = TreeSet.

(* OBLIGATION *)
Theorem NewWith_equiv : T.tree I (T.NewWith I (kc c) []) = (kc c, Some rbs_empty) /\ init c = st (T.tree I (T.NewWith I (kc c) [])).
Proof. split; [reflexivity|]. unfold init. now rewrite Hk. Qed.

Variable g : T.Set_ I.
Hypothesis Hcmp : fst (T.tree I g) = kc c.
Ltac open_g := destruct g as [[cmp o]]; cbn [T.tree fst] in Hcmp; subst cmp.

(* OBLIGATION *)
Theorem Add_equiv : forall vs,
  st (T.tree I (fst (T.Add I g vs))) = fst (fst (step c (st (T.tree I g)) (Add vs))) /\ fst (T.tree I (fst (T.Add I g vs))) = kc c.
Proof.
  intros vs. rewrite Add_fold. open_g. cbn [T.tree]. rewrite fold_put1. split; [|reflexivity].
  unfold st. cbn [snd]. destruct o as [[t n]|]; [|reflexivity].
  unfold step, add_values. rewrite Hk. destruct (rbs_puts (kc c) _ (t, n)) as [[t' n']|]; reflexivity.
Qed.

(* OBLIGATION *)
Theorem Remove_equiv : forall vs,
  st (T.tree I (fst (T.Remove I g vs))) = fst (fst (step c (st (T.tree I g)) (RemoveVals vs))) /\ fst (T.tree I (fst (T.Remove I g vs))) = kc c.
Proof.
  intros vs. rewrite Remove_fold. open_g. cbn [T.tree]. rewrite fold_del1. split; [|reflexivity].
  unfold st. cbn [snd]. destruct o as [[t n]|]; [|reflexivity].
  unfold step. rewrite Hk. destruct (rbs_removes (kc c) vs (t, n)) as [[t' n']|]; reflexivity.
Qed.

(* OBLIGATION *)
Theorem Clear_equiv :
  st (T.tree I (fst (T.Clear I g))) = fst (fst (step c (st (T.tree I g)) Clear)) /\ fst (T.tree I (fst (T.Clear I g))) = kc c.
Proof. open_g. destruct o as [[t n]|]; unfold T.Clear, st, step, init; cbn; rewrite ?Hk; auto. Qed.

Variables (t : RB.tree) (n : Z).
Hypothesis Hst : snd (T.tree I g) = Some (t, n).
Ltac open_g' := destruct g as [[cmp o]]; cbn [T.tree fst snd] in Hcmp, Hst; subst cmp o.

Definition has (t : RB.tree) (x : Z) : bool := match RB.lookup (kc c) x t with Some _ => true | None => false end.

Lemma Contains_forallb : forall vs, T.Contains I g vs = forallb (has t) vs.
Proof.
  intros vs. open_g'. unfold T.Contains. rewrite Nat2Z.id.
  transitivity (forallb (has t) (map (fun i => nth i vs 0) (seq 0 (length vs)))); [|now rewrite map_nth_seq_].
  generalize (seq 0 (length vs)) as idx. induction idx as [|i idx IH]; cbn [map T.Contains_loop1 forallb]; [reflexivity|].
  rewrite Nat2Z.id. unfold get. cbn [T.tree T.tree_Get I on_tree fst snd]. unfold has, rbs_get. cbn [fst].
  destruct (RB.lookup (kc c) (nth i vs 0) t) as [[k' v']|]; cbn [opt_pair negb andb]; [exact IH|reflexivity].
Qed.

(* OBLIGATION *)
Theorem Contains_equiv : forall vs, contains_of c (StRB t n) vs = obool (T.Contains I g vs).
Proof. intros vs. rewrite Contains_forallb. unfold contains_of. now rewrite Hk. Qed.

(* OBLIGATION *)
Theorem Size_Values_equiv :
  T.Size I g = size_of c (StRB t n) /\ T.Empty I g = (size_of c (StRB t n) =? 0) /\ T.Values I g = values_of c (StRB t n).
Proof. open_g'. unfold values_of. rewrite Hk. repeat split. Qed.
End Equiv.

Print Assumptions NewWith_equiv.
Print Assumptions Add_equiv.
Print Assumptions Remove_equiv.
Print Assumptions Clear_equiv.
Print Assumptions Contains_equiv.
Print Assumptions Size_Values_equiv.

(* ====================== set algebra ====================== *)
Lemma Add_one : forall r x, T.tree I (fst (T.Add I r [x])) = put1 (T.tree I r) x.
Proof. intros r x. now rewrite Add_fold. Qed.

Lemma cond_fold : forall (P : Z -> bool) (es : list (Z * Z)) r,
  T.tree I (fold_left (fun r (kv : Z * Z) => if P (snd kv) then fst (T.Add I r [snd kv]) else r) es r)
  = fold_left put1 (filter P (map snd es)) (T.tree I r).
Proof.
  intros P es. induction es as [|[i x] es IH]; intros r; cbn [fold_left map filter snd]; [reflexivity|].
  rewrite IH. destruct (P x); cbn [fold_left]; [now rewrite Add_one|reflexivity].
Qed.

Lemma algebra_loop : forall (P : Z -> bool) (body : T.Set_ I -> Z * Z -> T.Set_ I) ks r,
  (forall r kv, body r kv = if P (snd kv) then fst (T.Add I r [snd kv]) else r) ->
  T.tree I (fold_left body (indexed ks) r) = fold_left put1 (filter P ks) (T.tree I r).
Proof.
  intros P body ks r Hbody.
  rewrite (fold_left_ext_in _ _ body (fun r kv => if P (snd kv) then fst (T.Add I r [snd kv]) else r)) by (intros; apply Hbody).
  now rewrite cond_fold, map_fst_indexed.
Qed.

Section Algebra.
Variable same : comparator -> comparator -> bool.
Variable c : config.
Hypothesis Hk : ckind c = TreeSet.

Lemma set_of_st : forall ks, st (fold_left put1 ks (kc c, Some rbs_empty)) = add_values c ks (init c).
Proof.
  intros ks. rewrite fold_put1. unfold st, add_values, init. cbn [snd]. rewrite Hk. unfold rbs_empty.
  destruct (rbs_puts (kc c) _ (RB.E, 0)) as [[t' n']|]; reflexivity.
Qed.

Lemma filter_true : forall (l : list Z), filter (fun _ => true) l = l.
Proof. induction l as [|x l IH]; cbn [filter]; [reflexivity|now rewrite IH]. Qed.

Variables (ta tb : RB.tree) (na nb : Z).
Notation ga := (T.mkSet I (kc c, Some (ta, na))).
Notation gb := (T.mkSet I (kc c, Some (tb, nb))).

Lemma contains_has : forall t n x, T.Contains I (T.mkSet I (kc c, Some (t, n))) [x] = has c t x.
Proof.
  intros t n x. rewrite (Contains_forallb c (T.mkSet I (kc c, Some (t, n))) eq_refl t n eq_refl). cbn [forallb]. apply andb_true_r.
Qed.

(* OBLIGATION: different comparators: the empty set (with the receiver's comparator) *)
Theorem algebra_other_comparator : same (kc c) (kc c) = false ->
  T.tree I (T.Intersection same I enum ga gb) = (kc c, Some rbs_empty) /\
  T.tree I (T.Union same I enum ga gb) = (kc c, Some rbs_empty) /\
  T.tree I (T.Difference same I enum ga gb) = (kc c, Some rbs_empty).
Proof.
  intros Hs. unfold T.Intersection, T.Union, T.Difference. cbn [T.tree T.tree_fld_Comparator I fst]. rewrite Hs. repeat split.
Qed.

Hypothesis Hsame : same (kc c) (kc c) = true.

(* OBLIGATION *)
Theorem Union_equiv : st (T.tree I (T.Union same I enum ga gb)) = ts_union c (ta, na) (tb, nb).
Proof.
  unfold T.Union. cbn [T.tree T.tree_fld_Comparator I fst]. rewrite Hsame. cbn [negb]. cbv zeta.
  unfold enum, on_tree. cbn [T.tree fst snd].
  match goal with |- context [fold_left ?B2 (indexed (RB.keys tb)) (fold_left ?B1 (indexed (RB.keys ta)) ?R)] =>
    rewrite (algebra_loop (fun _ => true) B2 (RB.keys tb) (fold_left B1 (indexed (RB.keys ta)) R)) by (intros r kv; reflexivity);
    rewrite (algebra_loop (fun _ => true) B1 (RB.keys ta) R) by (intros r kv; reflexivity) end.
  rewrite !filter_true, <- fold_left_app. unfold ts_union. cbn [fst]. apply set_of_st.
Qed.

(* OBLIGATION *)
Theorem Difference_equiv : st (T.tree I (T.Difference same I enum ga gb)) = ts_diff c (ta, na) (tb, nb).
Proof.
  unfold T.Difference. cbn [T.tree T.tree_fld_Comparator I fst]. rewrite Hsame. cbn [negb]. cbv zeta.
  unfold enum, on_tree. cbn [T.tree fst snd].
  match goal with |- context [fold_left ?B (indexed (RB.keys ta)) ?R] =>
    rewrite (algebra_loop (fun x => negb (has c tb x)) B (RB.keys ta) R) by (intros r kv; rewrite contains_has; reflexivity) end.
  unfold ts_diff. cbn [fst]. rewrite <- set_of_st. do 2 f_equal. apply filter_ext. intros x. unfold has.
  destruct (RB.lookup (kc c) x tb); reflexivity.
Qed.

(* OBLIGATION *)
Theorem Intersection_equiv : st (T.tree I (T.Intersection same I enum ga gb)) = ts_inter c (ta, na) (tb, nb).
Proof.
  unfold T.Intersection. cbn [T.tree T.tree_fld_Comparator I fst]. rewrite Hsame. cbn [negb]. cbv zeta.
  unfold ts_inter, enum, on_tree, T.Size. cbn [T.tree T.tree_Size I on_tree fst snd].
  destruct (na <=? nb).
  - match goal with |- context [fold_left ?B (indexed (RB.keys ta)) ?R] =>
      rewrite (algebra_loop (has c tb) B (RB.keys ta) R) by (intros r kv; rewrite contains_has; reflexivity) end.
    rewrite <- set_of_st. reflexivity.
  - match goal with |- context [fold_left ?B (indexed (RB.keys tb)) ?R] =>
      rewrite (algebra_loop (has c ta) B (RB.keys tb) R) by (intros r kv; rewrite contains_has; reflexivity) end.
    rewrite <- set_of_st. reflexivity.
Qed.
End Algebra.

Print Assumptions algebra_other_comparator.
Print Assumptions Union_equiv.
Print Assumptions Difference_equiv.
Print Assumptions Intersection_equiv.

(* ---------- runs ---------- *)
Inductive gop := GAdd (vs : list Z) | GRemove (vs : list Z) | GClear.
Definition gen_step (g : T.Set_ I) (o : gop) : T.Set_ I :=
  match o with GAdd vs => fst (T.Add I g vs) | GRemove vs => fst (T.Remove I g vs) | GClear => fst (T.Clear I g) end.
Definition gen_run (cmp : cmpf) (ops : list gop) : T.Set_ I := fold_left gen_step ops (T.NewWith I cmp []).
Definition to_op (o : gop) : op := match o with GAdd vs => Add vs | GRemove vs => RemoveVals vs | GClear => Clear end.

(* OBLIGATION *)
Theorem gen_run_simulates : forall c, ckind c = TreeSet -> forall ops,
  run c (map to_op ops) = st (T.tree I (gen_run (kc c) ops)) /\ fst (T.tree I (gen_run (kc c) ops)) = kc c.
Proof.
  intros c Hk ops. induction ops as [|o ops IH] using rev_ind.
  - split; [|reflexivity]. unfold run, run_from. cbn [map fold_left]. exact (proj2 (NewWith_equiv c Hk)).
  - destruct IH as [Hrun Hc]. rewrite map_app. cbn [map]. rewrite run_snoc, Hrun. unfold gen_run. rewrite fold_left_app. cbn [fold_left].
    fold (gen_run (kc c) ops). destruct o as [vs|vs|]; cbn [to_op gen_step].
    + destruct (Add_equiv c Hk _ Hc vs) as [H1 H2]. now rewrite H1.
    + destruct (Remove_equiv c Hk _ Hc vs) as [H1 H2]. now rewrite H1.
    + destruct (Clear_equiv c Hk _ Hc) as [H1 H2]. now rewrite H1.
Qed.
Print Assumptions gen_run_simulates.
