(* Common lemmas of the case files BTreeHeapReb{BL,BR,MR,ML}Proofs.v.
   DELETION path of trees/btree/btree.go, bottom-up pass: the GENERATED rebalance (with leftSibling, rightSibling, deleteEntry,
   deleteChild, appendChildren, prependChildren, setParent -- GodsGen.BTreeHeapGen) on a focus node inside a zipper context
   computes the model's upward pass [upz] (BTreeHeapRemoveModel.v = BTreeCost.del_c / rebalance_child_c): one lemma per
   case (borrow from the left / right sibling, merge with the right / left sibling), then [rebalance_correct]. *)
From Coq Require Import ZArith List Lia Bool Arith Permutation ZifyBool ZifyNat.
From Gods Require Import Common.Cmp Model.BTree Model.BTreeCost Proofs.BTreeInd Proofs.BTreeMap.
From GodsGenProofs Require Import GoCmp GoTreeHeap GoBTreeHeap BTreeHeapRep BTreeHeapReadProofs BTreeHeapInsertModel BTreeHeapRemoveModel
  BTreeHeapWriteLemmas BTreeHeapRemoveLemmas.
From GodsGen Require BTreeHeapGen.
Import ListNotations.
Local Open Scope Z_scope.

Lemma minEntries_Z : forall h (tr : G.Tree) (m : nat), G.Tree_m tr = Z.of_nat m -> (1 <= m)%nat ->
  G.minEntries h tr = Some (Z.of_nat (BT.minEntries m)).
Proof.
  intros h tr m Hm H1. unfold G.minEntries, G.minChildren, BT.minEntries. rewrite Hm. rewrite quot2 by lia.
  assert (E1 : (Z.of_nat m + 1) / 2 = Z.of_nat ((m + 1) / 2)) by (rewrite Nat2Z.inj_div; f_equal; lia).
  assert (E3 : (1 <= (m + 1) / 2)%nat) by (apply Nat.div_le_lower_bound; lia).
  rewrite E1. f_equal. lia.
Qed.

Lemma last_eptrs : forall es, BT.last_opt (eptrs es) = option_map (@Some (Z * Z)) (BT.last_opt es).
Proof. intros. unfold eptrs. apply last_opt_map. Qed.
Lemma last_cptrs : forall cs, BT.last_opt (cptrs cs) = option_map (fun c => Some (paddr c)) (BT.last_opt cs).
Proof. intros. unfold cptrs. apply last_opt_map. Qed.

Lemma perm_move : forall (X Y Z : list nat) a, Permutation (X ++ a :: Y ++ Z) ((X ++ Y) ++ a :: Z).
Proof.
  intros X Y Z a. rewrite <- app_assoc. apply Permutation_app_head.
  change (a :: Y ++ Z) with ([a] ++ Y ++ Z). change (a :: Z) with ([a] ++ Z). apply Permutation_app_swap_app.
Qed.

(* the pair of children lists after a child has moved from the left sibling to the node / from the right sibling *)
Definition pbl_pair (lcs ccs : list pnode) : list pnode * list pnode :=
  match lcs with
  | [] => (lcs, ccs)
  | _ => match BT.last_opt lcs with Some lc => (removelast lcs, lc :: ccs) | None => (lcs, ccs) end
  end.
Definition pbr_pair (rcs ccs : list pnode) : list pnode * list pnode :=
  match rcs with [] => (rcs, ccs) | rc :: rcs' => (rcs', ccs ++ [rc]) end.

Lemma removelast_map : forall (A B : Type) (g : A -> B) l, removelast (map g l) = map g (removelast l).
Proof. induction l as [|x [|y l] IH]; try reflexivity. cbn [map removelast] in *. now rewrite IH. Qed.

Lemma pbl_pair_erase : forall lcs ccs,
  BTreeInd.bl_pair (map erase lcs) (map erase ccs) = (map erase (fst (pbl_pair lcs ccs)), map erase (snd (pbl_pair lcs ccs))).
Proof.
  intros lcs ccs. unfold BTreeInd.bl_pair, pbl_pair. destruct lcs as [|c0 lcs0]; [reflexivity|].
  set (lcs := c0 :: lcs0). change (map erase lcs) with (erase c0 :: map erase lcs0) at 1. cbv iota.
  rewrite last_opt_map. destruct (BT.last_opt lcs) as [lc|]; cbn [option_map fst snd map]; [|reflexivity].
  now rewrite removelast_map.
Qed.
Lemma pbr_pair_erase : forall rcs ccs,
  BTreeInd.br_pair (map erase rcs) (map erase ccs) = (map erase (fst (pbr_pair rcs ccs)), map erase (snd (pbr_pair rcs ccs))).
Proof. intros [|rc rcs] ccs; cbn [BTreeInd.br_pair pbr_pair map fst snd]; [reflexivity|]. now rewrite map_app. Qed.


(* the left sibling is missing or has no spare entry *)
Definition pno_bl (m : nat) (ls : list pnode) : Prop :=
  ls = [] \/ exists ls' al les lcs, ls = ls' ++ [PN al les lcs] /\ (length les <= BT.minEntries m)%nat.

Lemma pno_bl_erase : forall m ls, pno_bl m ls -> BTreeHeapRemoveModel.no_bl m (map erase ls).
Proof.
  intros m ls [->|(ls' & al & les & lcs & -> & H)]; [now left|right].
  exists (map erase ls'), les, (map erase lcs). rewrite map_app. cbn [map erase]. split; [reflexivity|exact H].
Qed.

Lemma pbr_pair_cons : forall rc rcs0 ccs, pbr_pair (rc :: rcs0) ccs = (rcs0, ccs ++ [rc]).
Proof. reflexivity. Qed.

(* ---------- the end of rebalance after a merge ---------- *)
(* the merged node a is a child of the frame's node b; if b is the root and has lost its last entry, a becomes the root
   (Go: tree.Root = node; node.Parent = nil), else the pass goes on with b *)
Lemma zrep_collapse : forall hM tr b a mes mcs,
  zrep hM tr [] (PN b [] [PN a mes mcs]) ->
  zrep (hset hM a (G.mkNode None (eptrs mes) (cptrs mcs))) (G.Tree_set_Root tr (Some a)) [] (PN a mes mcs).
Proof.
  intros hM tr b a mes mcs (Hrep & _ & Hnd & Hok & _). cbn [caddrs cparent] in *. rewrite app_nil_r in Hnd.
  pose proof (rep_children _ _ _ _ _ Hrep) as Hch. inversion Hch as [|? ? HM _]; subst.
  pose proof (rep_deref _ _ _ _ _ HM) as Ha. unfold deref in Ha. pose proof (rep_children _ _ _ _ _ HM) as Hmch.
  cbn [addrs flat_map] in Hnd. rewrite app_nil_r in Hnd. apply NoDup_cons_iff in Hnd. destruct Hnd as [_ Hnd].
  assert (Hnd' := Hnd). apply NoDup_cons_iff in Hnd'. destruct Hnd' as [Hna _].
  unfold zrep. cbn [cparent crep caddrs croot paddr]. rewrite app_nil_r. split; [|split; [exact I|split; [exact Hnd|split; [|reflexivity]]]].
  - apply rep_unfold. split; [now rewrite hread_hset, Nat.eqb_refl|].
    eapply Forall_rep_frame; [|exact Hmch]. intros x Hx. rewrite hread_hset.
    destruct (Nat.eqb x a) eqn:E; [|reflexivity]. apply Nat.eqb_eq in E. subst x. contradiction.
  - apply heap_ok_hset; [exact Hok|congruence].
Qed.

Lemma merge_tail : forall mag hM (tr : G.Tree) a b ra f n' k',
  hread hM a = Some ra -> G.Node_Parent ra = Some b ->
  (do c73 <- deref hM (Some a);
   do r75 <- (if ptr_eqb (G.Node_Parent c73) (G.Tree_Root tr)
              then (do c74 <- deref hM (G.Tree_Root tr); Some (sl_len (G.Node_Entries c74) =? 0)) else Some false);
   if r75
   then (let v_tree := G.Tree_set_Root tr (Some a) in
         do h0 <- store hM (Some a) (G.Node_with_Parent None); Some (n', h0, v_tree))
   else (do c76 <- deref hM (Some a);
         do (ncmp, h0, v_tree) <- G.rebalance mag f n' hM tr (G.Node_Parent c76) k'; Some (ncmp, h0, v_tree))) =
  match (if ptr_eqb (Some b) (G.Tree_Root tr)
         then match hread hM b with Some rb => Some (sl_len (G.Node_Entries rb) =? 0) | None => None end
         else Some false) with
  | Some true => Some (n', hset hM a (G.Node_with_Parent None ra), G.Tree_set_Root tr (Some a))
  | Some false => match G.rebalance mag f n' hM tr (Some b) k' with Some (ncmp, h0, v_tree) => Some (ncmp, h0, v_tree) | None => None end
  | None => None
  end.
Proof.
  intros mag hM tr a b ra f n' k' Ha Hp. unfold deref. rewrite Ha, Hp.
  destruct (ptr_eqb (Some b) (G.Tree_Root tr)) eqn:E.
  - apply ptr_eqb_eq in E. rewrite <- E. destruct (hread hM b) as [rb|]; [|reflexivity].
    destruct (sl_len (G.Node_Entries rb) =? 0); [|reflexivity]. cbv zeta. now rewrite (store_hset _ _ _ _ Ha).
  - reflexivity.
Qed.
