(* Scripts of iterator calls executed by GENERATED iterator functions (any index iterator regenerated
   by /verif/srcgen), and the generic transfer theorem: if each generated function equals the model's
   ix_next / ix_prev / ix_begin / ix_end / ix_cur (Model/Iter.v) -- the per-function OBLIGATIONs of
   the *IterGenProofs.v files -- then the generated script runner computes exactly
   Model/Iter.run_script, i.e. what Machine.run_iter runs for that kind, for EVERY script. *)
From Coq Require Import ZArith List Bool Lia.
From Gods Require Import Common.Cmp Common.ListAux Spec.SeqSpec Model.Ops Model.Iter.
Import ListNotations.
Local Open Scope Z_scope.

Section GenIter.
Variable It : Type.                                   (* the generated iterator record *)
Variable gindex : It -> Z.                            (* its index field *)
(* the generated methods, container argument already applied *)
Variables gNext gPrev gFirst gLast : It -> It * bool.
Variables gBegin gEnd : It -> It * unit.
Variables gIndex gValue : It -> Z.
Variables gNextTo gPrevTo : nat -> It -> (Z -> Z -> bool) -> option (It * bool).

(* what the harness records after a moving call: Index() and Value() are read only after true *)
Definition gmoved (it : It) (b : bool) : obs :=
  if b then OL [OZ 1; OZ (gIndex it); OZ (gValue it)] else OL [OZ 0].

Definition gen_call (fuel : nat) (it : It) (c : icall) : option (It * obs) :=
  match c with
  | CNext => let '(it', b) := gNext it in Some (it', gmoved it' b)
  | CPrev => let '(it', b) := gPrev it in Some (it', gmoved it' b)
  | CBegin => Some (fst (gBegin it), ounit)
  | CEnd => Some (fst (gEnd it), ounit)
  | CFirst => let '(it', b) := gFirst it in Some (it', gmoved it' b)
  | CLast => let '(it', b) := gLast it in Some (it', gmoved it' b)
  | CNextTo p => match gNextTo fuel it (pred_eval p) with Some (it', b) => Some (it', gmoved it' b) | None => None end
  | CPrevTo p => match gPrevTo fuel it (pred_eval p) with Some (it', b) => Some (it', gmoved it' b) | None => None end
  end.

Fixpoint gen_script (fuel : nat) (it : It) (cs : list icall) : list obs :=
  match cs with
  | [] => []
  | c :: cs' =>
    match gen_call fuel it c with
    | None => [ocrash]
    | Some (it', o) => o :: gen_script fuel it' cs'
    end
  end.

(* ---------- the model side ---------- *)
Variable n : Z.
Variable value_at : Z -> option Z.

(* the shape of the per-function equivalences *)
Definition step_equiv (g : It -> It * bool) (m : Z -> option (Z * bool)) : Prop :=
  forall it, m (gindex it) = Some (gindex (fst (g it)), snd (g it)).
Definition jump_equiv (g : It -> It * unit) (m : Z -> Z) : Prop :=
  forall it, gindex (fst (g it)) = m (gindex it).
Definition cur_equiv : Prop :=
  forall it, inrange n (gindex it) = true -> ix_cur value_at (gindex it) = Some (gIndex it, gValue it).
(* the fuelled loops: same loop as Model/Iter.move_to *)
Definition loop_equiv (g : nat -> It -> (Z -> Z -> bool) -> option (It * bool)) (step : Z -> option (Z * bool)) : Prop :=
  forall fuel it p,
    match g fuel it (pred_eval p), move_to Z (ix_cur value_at) step p fuel (gindex it) with
    | Some (it', b), Some (i', b') => gindex it' = i' /\ b = b'
    | None, None => True
    | _, _ => False
    end.

(* a generated loop that unfolds like `for it.Step() { if f(it.Index(), it.Value()) { return true } } return false` *)
Definition loop_unfolds (g : nat -> It -> (Z -> Z -> bool) -> option (It * bool)) (gstep : It -> It * bool) : Prop :=
  (forall it f, g O it f = None) /\
  (forall fuel it f, g (S fuel) it f =
     let '(it', b) := gstep it in
     if b then (if f (gIndex it') (gValue it') then Some (it', true) else g fuel it' f) else Some (it', false)).

Lemma ix_next_inrange : forall i i' b, ix_next n i = Some (i', b) -> b = inrange n i'.
Proof. unfold ix_next. intros i i' b H. injection H as <- <-. reflexivity. Qed.
Lemma ix_prev_inrange : forall i i' b, ix_prev n i = Some (i', b) -> b = inrange n i'.
Proof. unfold ix_prev. intros i i' b H. injection H as <- <-. reflexivity. Qed.

Lemma loop_equiv_of_unfolds : forall g gstep step,
  (forall i i' b, step i = Some (i', b) -> b = inrange n i') ->
  step_equiv gstep step -> cur_equiv -> loop_unfolds g gstep -> loop_equiv g step.
Proof.
  intros g gstep step Hin Hstep Hcur [H0 HS] fuel.
  induction fuel as [|fuel IH]; intros it p.
  - rewrite H0. cbn [move_to]. exact I.
  - rewrite HS. cbn [move_to]. rewrite (Hstep it).
    pose proof (Hin _ _ _ (Hstep it)) as Hb.
    destruct (gstep it) as [it' b]. cbn [fst snd] in *.
    destruct b.
    + rewrite (Hcur it') by (symmetry; exact Hb).
      destruct (pred_eval p (gIndex it') (gValue it')).
      * split; reflexivity.
      * apply IH.
    + split; reflexivity.
Qed.

Hypothesis HNext : step_equiv gNext (ix_next n).
Hypothesis HPrev : step_equiv gPrev (ix_prev n).
Hypothesis HBegin : jump_equiv gBegin ix_begin.
Hypothesis HEnd : jump_equiv gEnd (ix_end n).
Hypothesis HFirst : forall it, ix_next n (ix_begin (gindex it)) = Some (gindex (fst (gFirst it)), snd (gFirst it)).
Hypothesis HLast : forall it, ix_prev n (ix_end n (gindex it)) = Some (gindex (fst (gLast it)), snd (gLast it)).
Hypothesis HCur : cur_equiv.
Hypothesis HNextTo : loop_equiv gNextTo (ix_next n).
Hypothesis HPrevTo : loop_equiv gPrevTo (ix_prev n).

Lemma gmoved_moved : forall it b, b = inrange n (gindex it) ->
  moved Z (ix_cur value_at) (gindex it) b = Some (gindex it, gmoved it b).
Proof.
  intros it b Hb. unfold moved, gmoved. destruct b; [|reflexivity].
  rewrite (HCur it) by (symmetry; exact Hb). reflexivity.
Qed.

Lemma move_to_inrange : forall step, (forall i i' b, step i = Some (i', b) -> b = inrange n i') ->
  forall p fuel i i' b, move_to Z (ix_cur value_at) step p fuel i = Some (i', b) -> b = inrange n i'.
Proof.
  intros step Hin p fuel. induction fuel as [|fuel IH]; intros i i' b H; cbn [move_to] in H; [discriminate|].
  destruct (step i) as [[s' [|]]|] eqn:E; try discriminate.
  - destruct (ix_cur value_at s') as [[j v]|]; try discriminate.
    destruct (pred_eval p j v).
    + injection H as <- <-. exact (Hin _ _ _ E).
    + exact (IH _ _ _ H).
  - injection H as <- <-. exact (Hin _ _ _ E).
Qed.

Lemma gen_call_sim : forall fuel it c,
  match gen_call fuel it c, run_call Z (ix_next n) (ix_prev n) ix_begin (ix_end n) (ix_cur value_at) true fuel (gindex it) c with
  | Some (it', o), Some (i', o') => gindex it' = i' /\ o = o'
  | None, None => True
  | _, _ => False
  end.
Proof.
  intros fuel it c. destruct c as [| | | | | |p|p]; cbn [gen_call run_call].
  - rewrite (HNext it). pose proof (ix_next_inrange _ _ _ (HNext it)) as Hb.
    destruct (gNext it) as [it' b]. cbn [fst snd] in *. rewrite (gmoved_moved it' b Hb). split; reflexivity.
  - rewrite (HPrev it). pose proof (ix_prev_inrange _ _ _ (HPrev it)) as Hb.
    destruct (gPrev it) as [it' b]. cbn [fst snd] in *. rewrite (gmoved_moved it' b Hb). split; reflexivity.
  - split; [apply HBegin|reflexivity].
  - split; [apply HEnd|reflexivity].
  - rewrite (HFirst it). pose proof (ix_next_inrange _ _ _ (HFirst it)) as Hb.
    destruct (gFirst it) as [it' b]. cbn [fst snd] in *. rewrite (gmoved_moved it' b Hb). split; reflexivity.
  - rewrite (HLast it). pose proof (ix_prev_inrange _ _ _ (HLast it)) as Hb.
    destruct (gLast it) as [it' b]. cbn [fst snd] in *. rewrite (gmoved_moved it' b Hb). split; reflexivity.
  - pose proof (HNextTo fuel it p) as H.
    destruct (gNextTo fuel it (pred_eval p)) as [[it' b]|];
      destruct (move_to Z (ix_cur value_at) (ix_next n) p fuel (gindex it)) as [[i' b']|] eqn:E; try contradiction; [|exact I].
    destruct H as [<- <-]. rewrite (gmoved_moved it' b (move_to_inrange _ ix_next_inrange _ _ _ _ _ E)). split; reflexivity.
  - pose proof (HPrevTo fuel it p) as H.
    destruct (gPrevTo fuel it (pred_eval p)) as [[it' b]|];
      destruct (move_to Z (ix_cur value_at) (ix_prev n) p fuel (gindex it)) as [[i' b']|] eqn:E; try contradiction; [|exact I].
    destruct H as [<- <-]. rewrite (gmoved_moved it' b (move_to_inrange _ ix_prev_inrange _ _ _ _ _ E)). split; reflexivity.
Qed.

Theorem gen_script_is_run_script : forall fuel cs it,
  gen_script fuel it cs =
  run_script Z (ix_next n) (ix_prev n) ix_begin (ix_end n) (ix_cur value_at) true fuel (gindex it) cs.
Proof.
  intros fuel cs. induction cs as [|c cs IH]; intros it; cbn [gen_script run_script]; [reflexivity|].
  pose proof (gen_call_sim fuel it c) as H.
  destruct (gen_call fuel it c) as [[it' o]|];
    destruct (run_call Z (ix_next n) (ix_prev n) ix_begin (ix_end n) (ix_cur value_at) true fuel (gindex it) c) as [[i' o']|];
    try contradiction; [|reflexivity].
  destruct H as [<- <-]. now rewrite IH.
Qed.
End GenIter.

(* ---------- array-backed containers: the model's al_get against the generated positional read ---------- *)
From Gods Require Import Model.Lists.

Definition opt_pair (o : option Z) : Z * bool := match o with Some v => (v, true) | None => (0, false) end.

Lemma within_inrange : forall (l : list Z) i, within i l = inrange (zlen l) i.
Proof. reflexivity. Qed.

Lemma al_get_get : forall (l : list Z) i, within i l = true -> al_get i l = Some (get l (Z.to_nat i)).
Proof.
  intros l i H. unfold al_get. rewrite H. cbn [negb]. unfold get.
  unfold within, zlen in H. apply andb_true_iff in H. destruct H as [H0 H1].
  apply Z.leb_le in H0. apply Z.ltb_lt in H1.
  apply nth_error_nth'. lia.
Qed.

Lemma al_get_none : forall (l : list Z) i, within i l = false -> al_get i l = None.
Proof. intros l i H. unfold al_get. now rewrite H. Qed.
