(* serialization.go of LinkedListQueue (in GodsGen.LinkedListQueueWrapGen): for ANY interface J of the wrapped container, ToJSON is the wrapped container's
   ToJSON, FromJSON its FromJSON (the new state stored back, the error passed on -- nothing else happens, no alternative
   path), MarshalJSON = ToJSON, UnmarshalJSON = FromJSON. *)
From Coq Require Import ZArith List Bool.
From GodsGen Require LinkedListQueueWrapGen.
From GodsGenProofs Require Import GoJson.
Import ListNotations.

Module LQ := LinkedListQueueWrapGen.

(* OBLIGATION *)
Theorem LinkedListQueue_json_delegates : forall J s d,
  LQ.ToJSON J s = LQ.list_ToJSON J (LQ.list_ J s) /\
  LQ.FromJSON J s d = (LQ.set_list J s (fst (LQ.list_FromJSON J (LQ.list_ J s) d)), snd (LQ.list_FromJSON J (LQ.list_ J s) d)) /\
  LQ.MarshalJSON J s = LQ.ToJSON J s /\ LQ.UnmarshalJSON J s d = LQ.FromJSON J s d.
Proof.
  intros J s d. unfold LQ.ToJSON, LQ.FromJSON, LQ.MarshalJSON, LQ.UnmarshalJSON, LQ.ToJSON, LQ.FromJSON.
  destruct (LQ.list_ToJSON J (LQ.list_ J s)), (LQ.list_FromJSON J (LQ.list_ J s) d). repeat split.
Qed.
Print Assumptions LinkedListQueue_json_delegates.
