(* Support for the proof of Remove (RedBlackTreeHeapRemoveProofs.v): lookup and maximumNode return the node at the model's
   path; what the predecessor copy does to the tree; replaceNode(D, child) on a represented tree drops D. *)
From Coq Require Import ZArith List Lia Bool Arith Permutation.
From Gods Require Import Common.Cmp Model.RBTree Proofs.RBInv.
From GodsGenProofs Require Import GoCmp GoTreeHeap RBTreeHeapRep RedBlackTreeHeapInsertModel RedBlackTreeHeapRotProofs
  RedBlackTreeHeapInsertProofs RedBlackTreeHeapRemoveModel.
From GodsGen Require RedBlackTreeHeapGen.
Import ListNotations.
Local Open Scope Z_scope.

(* ---------- lookup and maximumNode by paths ---------- *)
Lemma lookup_loop_path : forall mag (tr : G.Tree) key h T pp fuel n,
  rep h pp T -> (RB.height (erase T) < fuel)%nat ->
  let cmp := G.Tree_Comparator tr in let cost := RB.lookup_cost cmp key (erase T) in
  let p := root_ptr (pget T (dpath cmp key T)) in
  G.lookup_loop1 mag fuel n h tr key (root_ptr T) =
    Some (match p with Some _ => Some ((n + cost)%nat, p) | None => None end, ((n + cost)%nat, p)).
Proof.
  intros mag tr key h. induction T as [|a c l IHl k v r IHr]; intros pp fuel n Hrep Hf cmp cost p.
  - subst cost p. destruct fuel; cbn; now rewrite Nat.add_0_r.
  - destruct fuel as [|fuel]; [simpl in Hf; lia|].
    pose proof (rep_root_deref _ _ _ _ _ _ _ _ Hrep) as Hd. simpl in Hrep. destruct Hrep as (_ & Hl & Hr).
    subst cost p. cbn [G.lookup_loop1 root_ptr is_nil negb erase dpath RB.lookup_cost RB.height] in *. fold cmp.
    rewrite Hd. cbn [node_of G.Node_Key G.Node_Left G.Node_Right]. fold cmp.
    destruct (cmp key k) eqn:E.
    + rewrite (call_cmp_Eq mag _ _ _ E). cbn [pget root_ptr]. now rewrite Nat.add_1_r.
    + destruct (call_cmp_Lt mag _ _ _ E) as (E0 & E1 & E2). rewrite E0, E1.
      pose proof (IHl (Some a) fuel (S n) Hl ltac:(lia)) as IH. cbv zeta in IH. fold cmp in IH. rewrite IH.
      cbn [pget pchild]. rewrite <- Nat.add_succ_comm. reflexivity.
    + destruct (call_cmp_Gt mag _ _ _ E) as (E0 & E1 & E2). rewrite E0, E1, E2.
      pose proof (IHr (Some a) fuel (S n) Hr ltac:(lia)) as IH. cbv zeta in IH. fold cmp in IH. rewrite IH.
      cbn [pget pchild]. rewrite <- Nat.add_succ_comm. reflexivity.
Qed.

Lemma lookup_path : forall mag (tr : G.Tree) key h T fuel n,
  rep h None T -> G.Tree_Root tr = root_ptr T -> (RB.height (erase T) < fuel)%nat ->
  G.lookup mag fuel n h tr key =
    Some ((n + RB.lookup_cost (G.Tree_Comparator tr) key (erase T))%nat, root_ptr (pget T (dpath (G.Tree_Comparator tr) key T))).
Proof.
  intros mag tr key h T fuel n Hrep Hroot Hf. unfold G.lookup. rewrite Hroot.
  pose proof (lookup_loop_path mag tr key h T None fuel n Hrep Hf) as H. cbv zeta in H. rewrite H.
  destruct (root_ptr (pget T (dpath (G.Tree_Comparator tr) key T))); reflexivity.
Qed.

Lemma maximumNode_path : forall h l pp fuel, rep h pp l -> (RB.height (erase l) < fuel)%nat ->
  G.maximumNode fuel h (root_ptr l) = Some (root_ptr (pget l (prpath l))).
Proof.
  intros h l pp fuel Hrep Hf. unfold G.maximumNode. destruct l as [|a c ll k v r]; [reflexivity|]. cbn [root_ptr is_nil].
  assert (H : G.maximumNode_loop1 fuel h (Some a) = Some (root_ptr (pget (PT a c ll k v r) (prpath (PT a c ll k v r))))).
  { revert a c ll k v pp fuel Hrep Hf. induction r as [|ra rc rl _ rk rv rr IHr]; intros a c ll k v pp fuel Hrep Hf.
    - pose proof (rep_root_deref _ _ _ _ _ _ _ _ Hrep) as Hd. destruct fuel; cbn [G.maximumNode_loop1]; rewrite Hd; reflexivity.
    - destruct fuel as [|fuel]; [simpl in Hf; lia|].
      pose proof (rep_root_deref _ _ _ _ _ _ _ _ Hrep) as Hd. simpl in Hrep. destruct Hrep as (_ & _ & Hr).
      cbn [G.maximumNode_loop1]. rewrite Hd. cbn [node_of G.Node_Right root_ptr is_nil negb].
      change (prpath (PT a c ll k v (PT ra rc rl rk rv rr))) with (RB.R :: prpath (PT ra rc rl rk rv rr)). cbn [pget pchild].
      apply (IHr ra rc rl rk rv (Some a) fuel Hr). cbn [erase RB.height] in *. lia. }
  rewrite H. reflexivity.
Qed.

Lemma prpath_right : forall l, l <> PE -> exists d dc dl dk dv, pget l (prpath l) = PT d dc dl dk dv PE.
Proof.
  induction l as [|a c ll _ k v r IHr]; intros H; [congruence|]. destruct r as [|ra rc rl rk rv rr].
  - cbn. do 5 eexists. reflexivity.
  - change (prpath (PT a c ll k v (PT ra rc rl rk rv rr))) with (RB.R :: prpath (PT ra rc rl rk rv rr)). cbn [pget pchild].
    apply IHr. discriminate.
Qed.
Lemma prpath_length : forall l, (length (prpath l) <= RB.height (erase l))%nat.
Proof.
  induction l as [|a c ll _ k v r IHr]; [apply Nat.le_refl|]. destruct r as [|ra rc rl rk rv rr]; [cbn; lia|].
  change (prpath (PT a c ll k v (PT ra rc rl rk rv rr))) with (RB.R :: prpath (PT ra rc rl rk rv rr)).
  cbn [length erase RB.height] in *. lia.
Qed.

(* what gcopy / gpath are in terms of the node the descent ends in *)
Lemma gcopy_gpath_spec : forall cmp key T a c l k v r,
  pget T (dpath cmp key T) = PT a c l k v r ->
  match l, r with
  | PT _ _ _ _ _ _, PT _ _ _ _ _ _ =>
      exists d dc dl dk dv, pget l (prpath l) = PT d dc dl dk dv PE /\
        gcopy cmp key T = pupd T (dpath cmp key T) (PT a c l dk dv r) /\
        gpath cmp key T = dpath cmp key T ++ RB.L :: prpath l
  | _, _ => gcopy cmp key T = T /\ gpath cmp key T = dpath cmp key T
  end.
Proof.
  intros cmp key. induction T as [|a0 c0 l0 IHl k0 v0 r0 IHr]; intros a c l k v r Hg; [discriminate|].
  cbn [dpath gcopy gpath] in *. destruct (cmp key k0) eqn:E.
  - cbn [pget] in Hg. injection Hg as <- <- <- <- <- <-. cbn [app pupd].
    destruct l0 as [|la lc ll lk lv lr]; [split; reflexivity|]. destruct r0 as [|ra rc rl rk rv rr]; [split; reflexivity|].
    destruct (prpath_right (PT la lc ll lk lv lr) ltac:(discriminate)) as (d & dc & dl & dk & dv & Hp).
    exists d, dc, dl, dk, dv. rewrite Hp. repeat split.
  - cbn [pget pchild] in Hg. specialize (IHl _ _ _ _ _ _ Hg).
    destruct l as [|la lc ll lk lv lr]; [|destruct r as [|ra rc rl rk rv rr]].
    + destruct IHl as (-> & ->). split; reflexivity.
    + destruct IHl as (-> & ->). split; reflexivity.
    + destruct IHl as (d & dc & dl & dk & dv & Hp & -> & ->). exists d, dc, dl, dk, dv. repeat split. exact Hp.
  - cbn [pget pchild] in Hg. specialize (IHr _ _ _ _ _ _ Hg).
    destruct l as [|la lc ll lk lv lr]; [|destruct r as [|ra rc rl rk rv rr]].
    + destruct IHr as (-> & ->). split; reflexivity.
    + destruct IHr as (-> & ->). split; reflexivity.
    + destruct IHr as (d & dc & dl & dk & dv & Hp & -> & ->). exists d, dc, dl, dk, dv. repeat split. exact Hp.
Qed.

(* ---------- replaceNode(D, child): D leaves the tree ---------- *)
Lemma dchild_rep : forall h pp d dc dl dk dv dr, rep h pp (PT d dc dl dk dv dr) -> rep h (Some d) (dchild dl dr).
Proof. intros h pp d dc dl dk dv dr H. simpl in H. destruct H as (_ & Hl & Hr). destruct dr; [exact Hl|exact Hr]. Qed.
Lemma dchild_in : forall d dc dl dk dv dr z, NoDup (addrs (PT d dc dl dk dv dr)) -> In z (addrs (dchild dl dr)) ->
  In z (addrs dl ++ addrs dr) /\ z <> d.
Proof.
  intros d dc dl dk dv dr z Hnd Hz. assert (Hin : In z (addrs dl ++ addrs dr)) by (apply in_or_app; destruct dr; [left|right]; exact Hz).
  split; [exact Hin|]. cbn [addrs] in Hnd. inversion Hnd; subst. intros ->. contradiction.
Qed.
Lemma dchild_nodup : forall d dc dl dk dv dr, NoDup (addrs (PT d dc dl dk dv dr)) -> NoDup (addrs (dchild dl dr)).
Proof.
  intros d dc dl dk dv dr Hnd. cbn [addrs] in Hnd. inversion Hnd; subst.
  destruct dr; [eapply NoDup_app_l|eapply NoDup_app_r]; eassumption.
Qed.

Lemma replace_by_child : forall h tr T pD d dc dl dk dv dr,
  tree_inv h tr T -> pget T pD = PT d dc dl dk dv dr ->
  exists h' tr', G.replaceNode h tr (Some d) (root_ptr (dchild dl dr)) = Some (h', tr') /\
    upd_ok h tr T h' tr' (pupd T pD (dchild dl dr)) /\ hread h' d = hread h d.
Proof.
  intros h tr T pD d dc dl dk dv dr (Hrep & Hnd & Hroot) Hg.
  set (x := dchild dl dr).
  assert (Hs : psub T pD = Some (PT d dc dl dk dv dr)) by (rewrite <- Hg; apply pget_psub; rewrite Hg; discriminate).
  pose proof (psub_nodup _ _ _ Hnd Hs) as Hndd.
  pose proof (rep_sub pD h None T Hrep) as Hrd. rewrite Hg in Hrd.
  pose proof (rep_root_deref _ _ _ _ _ _ _ _ Hrd) as Hd. cbn [deref] in Hd.
  pose proof (dchild_rep _ _ _ _ _ _ _ _ Hrd) as Hrx. fold x in Hrx.
  pose proof (dchild_nodup _ _ _ _ _ _ Hndd) as Hndx. fold x in Hndx.
  assert (Hxin : forall z, In z (addrs x) -> In z (addrs (PT d dc dl dk dv dr)) /\ z <> d).
  { intros z Hz. destruct (dchild_in _ _ _ _ _ _ z Hndd Hz) as (A & B). split; [cbn [addrs]; now right|exact B]. }
  assert (Hnew : match root_ptr x with Some y => hread h y <> None | None => True end).
  { destruct x as [|y yc yl yk yv yr]; [exact I|]. simpl in Hrx. cbn [root_ptr]. destruct Hrx as (Hy & _). congruence. }
  destruct (path_cases pD) as [->|(q & e & ->)].
  - (* D is the root *)
    destruct T as [|? ? ? ? ? ?]; [discriminate|]. cbn [pget] in Hg. injection Hg as -> -> -> -> -> ->. cbn [pptr_from] in Hd.
    destruct (replaceNode_exec h tr d _ (root_ptr x) Hd I Hnew) as (h' & Hrun & Hnx & _ & Hnewp & Hfr).
    cbn [node_of G.Node_Parent] in *. rewrite Hrun. exists h', (G.Tree_set_Root tr (root_ptr x)). split; [reflexivity|]. cbn [pupd].
    assert (Hd' : hread h' d = hread h d).
    { apply Hfr; [|discriminate]. intro E. apply in_addrs_root in E. destruct (Hxin d E) as (_ & B). congruence. }
    split; [|exact Hd']. split; [split; [|split; [exact Hndx|reflexivity]]|].
    + destruct x as [|y yc yl yk yv yr] eqn:Ex; [exact I|]. pose proof Hrx as Hrx'. simpl in Hrx'. destruct Hrx' as (Hy & Hyl & Hyr).
      destruct (nodup_root_children _ _ _ _ _ _ Hndx) as (Dl & Dr).
      cbn [rep]. split; [rewrite (Hnewp y _ eq_refl Hy); reflexivity|]. split.
      * eapply rep_frame; [|exact Hyl]. intros z Hz. apply Hfr; [cbn [root_ptr]; intro E; injection E as E1; apply (Dl z Hz); congruence|discriminate].
      * eapply rep_frame; [|exact Hyr]. intros z Hz. apply Hfr; [cbn [root_ptr]; intro E; injection E as E1; apply (Dr z Hz); congruence|discriminate].
    + split; [reflexivity|]. split; [reflexivity|]. split; [|split; [exact Hnx|]].
      * intros z Hz. apply Hfr; [|discriminate]. intro E. apply in_addrs_root in E. apply Hz. apply (Hxin z E).
      * intros z Hz. apply (Hxin z Hz).
  - (* D has a parent *)
    destruct (psub_snoc _ _ _ _ Hs) as (b & bc & bl & bk & bv & br & Hsb & HD & _).
    pose proof (psub_nodup _ _ _ Hnd Hsb) as Hndb.
    pose proof (rep_sub q h None T Hrep) as Hrb. rewrite (psub_pget _ _ _ Hsb) in Hrb.
    pose proof (rep_root_deref _ _ _ _ _ _ _ _ Hrb) as Hdb. cbn [deref] in Hdb.
    assert (HPP : pptr_from None T (q ++ [e]) = Some b).
    { pose proof (rep_sub (q ++ [e]) h None T Hrep) as H1. rewrite Hg in H1. simpl in H1. destruct H1 as (H1 & _).
      assert (H2 : rep h (Some b) (PT d dc dl dk dv dr)) by (rewrite HD; simpl in Hrb; destruct e; cbn [pchild]; tauto).
      simpl in H2. destruct H2 as (H2 & _). rewrite H1 in H2. injection H2 as E. exact E. }
    rewrite HPP in Hd.
    assert (Hbd : ~ In b (addrs (PT d dc dl dk dv dr))).
    { cbn [addrs] in Hndb. inversion Hndb; subst. intro Hb. apply H1. apply in_or_app. rewrite HD in Hb. destruct e; cbn [pchild] in Hb; tauto. }
    destruct (replaceNode_exec h tr d _ (root_ptr x) Hd) as (h' & Hrun & Hnx & Hpar & Hnewp & Hfr).
    { cbn [node_of G.Node_Parent]. split; [intros ->; apply Hbd; now left|]. split; [congruence|].
      intro E. apply in_addrs_root in E. apply Hbd. apply (Hxin b E). }
    { exact Hnew. }
    cbn [node_of G.Node_Parent] in *. rewrite Hrun. exists h', tr. split; [reflexivity|].
    assert (Hd' : hread h' d = hread h d).
    { apply Hfr; [|intro E; injection E as ->; apply Hbd; now left]. intro E. apply in_addrs_root in E. destruct (Hxin d E) as (_ & B). congruence. }
    split; [|exact Hd'].
    set (B' := match e with RB.L => PT b bc x bk bv br | RB.R => PT b bc bl bk bv x end).
    assert (HB' : pupd T (q ++ [e]) x = pupd T q B').
    { rewrite pupd_app_get, (psub_pget _ _ _ Hsb). subst B'. destruct e; reflexivity. }
    rewrite HB'.
    assert (Hsibfr : forall z, In z (addrs bl ++ addrs br) -> ~ In z (addrs (PT d dc dl dk dv dr)) \/ In z (addrs x) -> root_ptr x <> Some z -> hread h' z = hread h z).
    { intros z Hz _ Hzx. apply Hfr; [exact Hzx|]. intro E. injection E as ->.
      cbn [addrs] in Hndb. inversion Hndb; subst. contradiction. }
    destruct (rep_pupd_same_root h h' (PT b bc bl bk bv br) B' q T None Hrep Hnd Hsb) as (R1 & R2 & R3 & R4).
    + subst B'. destruct e; reflexivity.
    + subst B'. intros z Hz. rewrite HD in Hxin. destruct e; cbn [pchild addrs] in *; (destruct Hz as [->|Hz]; [now left|]); right;
        apply in_app_or in Hz; apply in_or_app; destruct Hz as [Hz|Hz]; auto; destruct (Hxin z Hz) as (A & _); auto.
    + cbn [addrs] in Hndb. inversion Hndb as [|? ? Hnb Hnd2]; subst. rewrite HD in Hxin. subst B'.
      destruct e; cbn [pchild addrs] in *; constructor.
      * intro Hz. apply Hnb. apply in_app_or in Hz. apply in_or_app. destruct Hz as [Hz|Hz]; [left; apply (Hxin _ Hz)|now right].
      * apply NoDup_app_intro; [exact Hndx|eapply NoDup_app_r; eauto|]. intros z Hz1 Hz2.
        eapply (NoDup_app_disj _ _ _ z Hnd2); [apply (Hxin _ Hz1)|exact Hz2].
      * intro Hz. apply Hnb. apply in_app_or in Hz. apply in_or_app. destruct Hz as [Hz|Hz]; [now left|right; apply (Hxin _ Hz)].
      * apply NoDup_app_intro; [eapply NoDup_app_l; eauto|exact Hndx|]. intros z Hz1 Hz2.
        eapply (NoDup_app_disj _ _ _ z Hnd2); [exact Hz1|apply (Hxin _ Hz2)].
    + intros pps Hr0. pose proof (rep_root_deref _ _ _ _ _ _ _ _ Hr0) as Hd0. cbn [deref] in Hd0.
      pose proof (Hpar b _ eq_refl Hd0) as Hb'. cbn [node_of G.Node_Left] in Hb'.
      pose proof Hr0 as Hr0'. simpl in Hr0'. destruct Hr0' as (_ & Hlb & Hrb').
      cbn [addrs] in Hndb. inversion Hndb as [|? ? Hnb Hnd2]; subst.
      assert (Hxrep : rep h' (Some b) x).
      { destruct x as [|y yc yl yk yv yr] eqn:Ex; [exact I|]. pose proof Hrx as Hrx'. simpl in Hrx'. destruct Hrx' as (Hy & Hyl & Hyr).
        destruct (nodup_root_children _ _ _ _ _ _ Hndx) as (Dl & Dr).
        cbn [rep]. split; [rewrite (Hnewp y _ eq_refl Hy); reflexivity|]. split.
        - eapply rep_frame; [|exact Hyl]. intros z Hz. apply Hfr; [cbn [root_ptr]; intro E; injection E as E1; apply (Dl z Hz); congruence|].
          intro E. injection E as ->. apply Hbd. apply (Hxin z). cbn [addrs]. right. apply in_or_app. now left.
        - eapply rep_frame; [|exact Hyr]. intros z Hz. apply Hfr; [cbn [root_ptr]; intro E; injection E as E1; apply (Dr z Hz); congruence|].
          intro E. injection E as ->. apply Hbd. apply (Hxin z). cbn [addrs]. right. apply in_or_app. now right. }
      subst B'. destruct e; cbn [pchild] in *; cbn [rep].
      * subst bl. cbn [root_ptr] in Hb'. rewrite ptr_eqb_refl in Hb'. split; [exact Hb'|]. split; [exact Hxrep|].
        eapply rep_frame; [|exact Hrb']. intros z Hz. apply Hfr.
        -- intro E. apply in_addrs_root in E. eapply (NoDup_app_disj _ _ _ z Hnd2); [apply (Hxin _ E)|exact Hz].
        -- intro E. injection E as ->. apply Hnb. apply in_or_app. now right.
      * subst br. assert (E0 : ptr_eqb (Some d) (root_ptr bl) = false) by (apply (sib_r b bc bl bk bv (PT d dc dl dk dv dr) d); [exact Hndb|reflexivity]).
        rewrite E0 in Hb'. split; [exact Hb'|]. split; [|exact Hxrep].
        eapply rep_frame; [|exact Hlb]. intros z Hz. apply Hfr.
        -- intro E. apply in_addrs_root in E. eapply (NoDup_app_disj _ _ _ z Hnd2); [exact Hz|apply (Hxin _ E)].
        -- intro E. injection E as ->. apply Hnb. apply in_or_app. now left.
    + intros z Hz Hnz. apply Hfr.
      * intro E. apply in_addrs_root in E. apply Hnz. rewrite HD in Hxin. cbn [addrs]. right. apply in_or_app.
        destruct e; cbn [pchild] in Hxin; [left|right]; apply (Hxin _ E).
      * intro E. injection E as ->. apply Hnz. now left.
    + split; [split; [exact R1|split; [exact R2|now rewrite R4]]|]. split; [reflexivity|]. split; [reflexivity|]. split; [|split; [exact Hnx|exact R3]].
      intros z Hz. apply Hfr.
      * intro E. apply in_addrs_root in E. apply Hz. eapply psub_addrs; [exact Hs|]. apply (Hxin _ E).
      * intro E. injection E as ->. apply Hz. eapply psub_addrs; [exact Hsb|now left].
Qed.

