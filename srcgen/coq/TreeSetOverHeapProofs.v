(* COMPOSITION: sets/treeset/treeset.go regenerated over an abstract red-black tree (GodsGen.TreeSetGen, proved against the machine in
   TreeSetGenProofs.v with the interface instantiated by the MODEL of redblacktree.Tree) is here instantiated with the GENERATED
   POINTER CODE of trees/redblacktree/redblacktree.go (RBTreeHeapIface.v).  [treeset_over_heap_run]: a run of generated TreeSet
   operations (Add(items...) / Remove(items...) / Clear) over the generated red-black pointer code from NewWith(cmp) never crashes, its
   heap represents the tree of Machine.run for kind TreeSet, and Size / Empty / Values / Contains(items...) answer as the machine. *)
From Coq Require Import ZArith List Lia Bool Arith.
From Gods Require Import Common.Cmp Common.ListAux Spec.SeqSpec Model.Ops Model.Machine Model.RBTree Proofs.RBInv.
From GodsGen Require TreeSetGen RedBlackTreeHeapGen.
From GodsGenProofs Require Import GenIterRun WrapCommon GoCmp GoTreeHeap RBTreeHeapRep RBTreeHeapIface.
From GodsGenProofs Require GoJson TreeSetGenProofs.
Import ListNotations.
Local Open Scope Z_scope.

Module T := TreeSetGen.
Module TS := TreeSetGenProofs.

Definition Ip (mag : Z -> Z -> positive) : T.tree_iface := T.mk_tree_iface pstate
  (p_Ceiling mag) p_Clear p_Empty (p_Floor mag)
  (fun s d => (s, true))                      (* FromJSON: placeholder, as in TreeSetGenProofs.I *)
  (p_Get mag) p_Keys p_Left (p_Put mag) (p_Remove mag) p_Right p_Size
  (fun s => (GoJson.nil_bytes, true))         (* ToJSON: placeholder *)
  p_Values p_Comparator p_New p_NewWith.

Section Rel.
Variable mag : Z -> Z -> positive.
Notation I' := (Ip mag).
Definition put1p (s : pstate) (x : Z) : pstate := fst (p_Put mag s x 0).
Definition del1p (s : pstate) (x : Z) : pstate := fst (p_Remove mag s x).

Lemma Add_fold_p : forall g vs, T.tree I' (fst (T.Add I' g vs)) = fold_left put1p vs (T.tree I' g).
Proof.
  intros g vs. unfold T.Add. cbn [fst].
  transitivity (T.tree I' (fold_left (fun g x => T.set_tree I' g (put1p (T.tree I' g) x)) vs g)).
  - f_equal. rewrite <- (range_fold (T.Set_ I') (fun g x => T.set_tree I' g (put1p (T.tree I' g) x)) vs g).
    apply fold_left_ext_in. intros a i _. reflexivity.
  - revert g. induction vs as [|x vs IH]; intros g; cbn [fold_left]; [reflexivity|]. now rewrite IH.
Qed.
Lemma Remove_fold_p : forall g vs, T.tree I' (fst (T.Remove I' g vs)) = fold_left del1p vs (T.tree I' g).
Proof.
  intros g vs. unfold T.Remove. cbn [fst].
  transitivity (T.tree I' (fold_left (fun g x => T.set_tree I' g (del1p (T.tree I' g) x)) vs g)).
  - f_equal. rewrite <- (range_fold (T.Set_ I') (fun g x => T.set_tree I' g (del1p (T.tree I' g) x)) vs g).
    apply fold_left_ext_in. intros a i _. reflexivity.
  - revert g. induction vs as [|x vs IH]; intros g; cbn [fold_left]; [reflexivity|]. now rewrite IH.
Qed.

Lemma fold_put_rel : forall vs ps ms, R ps ms -> R (fold_left put1p vs ps) (fold_left TS.put1 vs ms).
Proof. induction vs as [|x vs IH]; intros ps ms H; cbn [fold_left]; [exact H|]. apply IH. exact (Put_rel mag _ _ H x 0). Qed.
Lemma fold_del_rel : forall vs ps ms, R ps ms -> R (fold_left del1p vs ps) (fold_left TS.del1 vs ms).
Proof. induction vs as [|x vs IH]; intros ps ms H; cbn [fold_left]; [exact H|]. apply IH. exact (Remove_rel mag _ _ H x). Qed.

Variables (gp : T.Set_ I') (gm : T.Set_ TS.I).
Hypothesis HR : R (T.tree I' gp) (T.tree TS.I gm).

Lemma Add_rel : forall vs, R (T.tree I' (fst (T.Add I' gp vs))) (T.tree TS.I (fst (T.Add TS.I gm vs))).
Proof. intros vs. rewrite Add_fold_p, TS.Add_fold. apply fold_put_rel, HR. Qed.
Lemma Remove_rel' : forall vs, R (T.tree I' (fst (T.Remove I' gp vs))) (T.tree TS.I (fst (T.Remove TS.I gm vs))).
Proof. intros vs. rewrite Remove_fold_p, TS.Remove_fold. apply fold_del_rel, HR. Qed.
Lemma Clear_rel' : R (T.tree I' (fst (T.Clear I' gp))) (T.tree TS.I (fst (T.Clear TS.I gm))).
Proof. destruct gp, gm. exact (Clear_rel _ _ HR). Qed.

Lemma observers_rel' : forall vs,
  T.Size I' gp = T.Size TS.I gm /\ T.Empty I' gp = T.Empty TS.I gm /\ T.Values I' gp = T.Values TS.I gm /\
  T.Contains I' gp vs = T.Contains TS.I gm vs.
Proof.
  intros vs. destruct gp as [sp], gm as [sm]. cbn [T.tree] in HR. destruct (observers_rel mag sp sm HR) as (t & n & Hm & Hobs).
  destruct (Hobs 0) as (_ & O2 & O3 & O4 & _). subst sm.
  unfold T.Size, T.Empty, T.Values, T.Contains.
  cbn [T.tree T.tree_Size T.tree_Keys Ip TS.I TS.on_tree fst snd] in *. rewrite O2, O4. repeat split.
  generalize (map Z.of_nat (seq 0 (Z.to_nat (Z.of_nat (length vs))))) as idx.
  induction idx as [|i idx IH]; cbn [T.Contains_loop1]; [reflexivity|].
  cbn [T.tree T.tree_Get Ip TS.I TS.on_tree fst snd]. destruct (Hobs (get vs (Z.to_nat i))) as (O1 & _). cbn [fst] in O1. rewrite O1, IH. reflexivity.
Qed.
End Rel.

(* ---------- runs ---------- *)
Definition gen_step_p (mag : Z -> Z -> positive) (g : T.Set_ (Ip mag)) (o : TS.gop) : T.Set_ (Ip mag) :=
  match o with
  | TS.GAdd vs => fst (T.Add (Ip mag) g vs)
  | TS.GRemove vs => fst (T.Remove (Ip mag) g vs)
  | TS.GClear => fst (T.Clear (Ip mag) g)
  end.
Definition gen_run_p (mag : Z -> Z -> positive) (cmp : cmpf) (ops : list TS.gop) : T.Set_ (Ip mag) :=
  fold_left (gen_step_p mag) ops (T.NewWith (Ip mag) cmp []).

Lemma gen_run_rel : forall mag cmp ops, R (T.tree (Ip mag) (gen_run_p mag cmp ops)) (T.tree TS.I (TS.gen_run cmp ops)).
Proof.
  intros mag cmp ops. induction ops as [|o ops IH] using rev_ind; [exact (NewWith_rel cmp)|].
  unfold gen_run_p, TS.gen_run. rewrite !fold_left_app. cbn [fold_left]. fold (gen_run_p mag cmp ops) (TS.gen_run cmp ops).
  destruct o as [vs|vs|]; cbn [gen_step_p TS.gen_step]; [apply Add_rel|apply Remove_rel'|apply Clear_rel']; exact IH.
Qed.

(* OBLIGATION *)
Theorem treeset_over_heap_run : forall mag c, ckind c = TreeSet -> forall ops,
  let gp := gen_run_p mag (kc c) ops in let s := run c (map TS.to_op ops) in
  exists n h tr t, T.tree (Ip mag) gp = Some (n, h, tr) /\ s = StRB t (G.Tree_size tr) /\
    tree_repr h tr t /\ heap_ok h /\ RBInv.rbt t /\ G.Tree_size tr = Z.of_nat (RB.count t) /\ G.Tree_Comparator tr = kc c /\
    T.Size (Ip mag) gp = size_of c s /\ T.Empty (Ip mag) gp = (size_of c s =? 0) /\ T.Values (Ip mag) gp = values_of c s /\
    (forall vs, obool (T.Contains (Ip mag) gp vs) = contains_of c s vs).
Proof.
  intros mag c Hk ops gp s. pose proof (gen_run_rel mag (kc c) ops) as HR. fold gp in HR.
  destruct (TS.gen_run_simulates c Hk ops) as (Hrun & Hcmp). fold s in Hrun.
  pose proof HR as (n & h & tr & t & Hp & Hm & Hrepr & Hok & Hrbt & Hsz).
  assert (Hc : G.Tree_Comparator tr = kc c) by (rewrite Hm in Hcmp; exact Hcmp).
  assert (Hs : s = StRB t (G.Tree_size tr)) by (rewrite Hrun; unfold TS.st; rewrite Hm; reflexivity).
  assert (Hst : snd (T.tree TS.I (TS.gen_run (kc c) ops)) = Some (t, G.Tree_size tr)) by (rewrite Hm; reflexivity).
  exists n, h, tr, t. split; [exact Hp|]. split; [exact Hs|]. split; [exact Hrepr|]. split; [exact Hok|]. split; [exact Hrbt|]. split; [exact Hsz|]. split; [exact Hc|].
  destruct (TS.Size_Values_equiv c Hk _ Hcmp t (G.Tree_size tr) Hst) as (E1 & E2 & E3).
  rewrite Hs. destruct (observers_rel' mag gp _ HR []) as (O1 & O2 & O3 & _). rewrite O1, O2, O3, E1, E2, E3.
  repeat split; try reflexivity.
  intro vs. destruct (observers_rel' mag gp _ HR vs) as (_ & _ & _ & O4). rewrite O4. symmetry. apply (TS.Contains_equiv c Hk _ Hcmp t (G.Tree_size tr) Hst).
Qed.
Print Assumptions treeset_over_heap_run.
