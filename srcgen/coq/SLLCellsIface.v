(* The GENERATED POINTER CODE of lists/singlylinkedlist/singlylinkedlist.go (GodsGen.SinglyLinkedListCellsGen: heap of cells, option
   monad) packaged as the functions the two containers built on a singly linked list (linkedliststack, linkedlistqueue) expect from
   their abstract list interface: the state is the generated llist, or None once a generated function has failed (nil dereference /
   out of fuel); every function runs the generated one.  [R] relates such a state to the sequence of the MODEL instantiation of
   LinkedListStackWrapProofs.v / LinkedListQueueWrapProofs.v: the heap represents the sequence (Proofs/LinkedCellsProofs.repr_sll).
   Every mutator preserves R (so it never fails) and every observer answers as Model/Lists.v.  NOT instantiable from this unit:
   FromJSON / ToJSON of the interface (lists/singlylinkedlist/serialization.go is translated over an opaque list, not over the
   cells): the compositions keep the placeholders of the model instantiation for these two fields, and no run uses them.
   No obligation here: the lemmas are used by LinkedListStackOverCellsProofs.v / LinkedListQueueOverCellsProofs.v. *)
From Coq Require Import ZArith List Lia Bool.
From Gods Require Import Common.ListAux Spec.SeqSpec Model.Lists Model.LinkedCells Proofs.LinkedCellsProofs.
From GodsGen Require SinglyLinkedListCellsGen.
From GodsGenProofs Require Import GenIterRun.
From GodsGenProofs Require SinglyLinkedListCellsProofs.
Import ListNotations.
Local Open Scope Z_scope.

Module S := SinglyLinkedListCellsGen.
Module SP := SinglyLinkedListCellsProofs.

Definition pstate := option llist.
Definition p_mut (f : llist -> option (llist * unit)) (s : pstate) : pstate * unit :=
  (match s with Some d => match f d with Some (d', _) => Some d' | None => None end | None => None end, tt).
Definition p_obs {A} (f : llist -> option A) (dflt : A) (s : pstate) : A :=
  match s with Some d => match f d with Some a => a | None => dflt end | None => dflt end.

Definition p_Add (s : pstate) (vs : list Z) := p_mut (fun d => S.Add d vs) s.
Definition p_Append (s : pstate) (vs : list Z) := p_mut (fun d => S.Append d vs) s.
Definition p_Prepend (s : pstate) (vs : list Z) := p_mut (fun d => S.Prepend d vs) s.
Definition p_Remove (s : pstate) (i : Z) := p_mut (fun d => S.Remove d i) s.
Definition p_Clear (s : pstate) := p_mut S.Clear s.
Definition p_Get (s : pstate) (i : Z) : Z * bool := p_obs (fun d => S.Get d i) (0, false) s.
Definition p_Size (s : pstate) : Z := p_obs S.Size 0 s.
Definition p_Empty (s : pstate) : bool := p_obs S.Empty true s.
Definition p_Values (s : pstate) : list Z := p_obs S.Values [] s.
Definition p_New (vs : list Z) : pstate := S.New vs.

Definition R (ps : pstate) (l : list Z) : Prop := exists d, ps = Some d /\ repr_sll d l.

Lemma mut_rel : forall (f : llist -> option (llist * unit)) (m : llist -> option llist) (g : list Z -> list Z),
  (forall d, f d = SP.lift (m d)) ->
  (forall d l, repr_sll d l -> exists d', m d = Some d' /\ repr_sll d' (g l)) ->
  forall ps l, R ps l -> R (fst (p_mut f ps)) (g l).
Proof.
  intros f m g Hf Hm ps l (d & -> & Hr). destruct (Hm d l Hr) as (d' & E & Hr'). unfold p_mut. cbn [fst].
  rewrite Hf, E. cbn [SP.lift]. exists d'. split; [reflexivity|exact Hr'].
Qed.

Lemma Add_rel : forall ps l vs, R ps l -> R (fst (p_Add ps vs)) (sll_add vs l).
Proof. intros ps l vs. apply (mut_rel _ (fun d => csll_add d vs)); [intros d; apply (proj1 (SP.Add_equiv d vs))|intros d l0; apply csll_add_ok]. Qed.
Lemma Append_rel : forall ps l vs, R ps l -> R (fst (p_Append ps vs)) (sll_add vs l).
Proof. intros ps l vs. apply (mut_rel _ (fun d => csll_append d vs)); [intros d; apply (proj2 (SP.Add_equiv d vs))|intros d l0; apply csll_add_ok]. Qed.
Lemma Prepend_rel : forall ps l vs, R ps l -> R (fst (p_Prepend ps vs)) (sll_prepend vs l).
Proof. intros ps l vs. apply (mut_rel _ (fun d => csll_prepend d vs)); [intros d; apply SP.Prepend_equiv|intros d l0; apply csll_prepend_ok]. Qed.
Lemma Remove_rel : forall ps l i, R ps l -> R (fst (p_Remove ps i)) (sll_remove i l).
Proof. intros ps l i. apply (mut_rel _ (fun d => csll_remove d i)); [intros d; apply SP.Remove_equiv|intros d l0; apply csll_remove_ok]. Qed.
Lemma Clear_rel : forall ps l, R ps l -> R (fst (p_Clear ps)) [].
Proof.
  intros ps l. apply (mut_rel _ csll_clear (fun _ => [])); [intros d; apply (SP.header_equiv d 0)|].
  intros d l0 _. exists (c_clear d). split; [reflexivity|apply repr_clear].
Qed.
Lemma New_rel : R (p_New []) [].
Proof. exists empty_llist. split; [reflexivity|apply repr_empty]. Qed.

Lemma observers_rel : forall ps l, R ps l -> forall i,
  p_Get ps i = opt_pair (sll_get i l) /\ p_Size ps = zlen l /\ p_Empty ps = (zlen l =? 0) /\ p_Values ps = l.
Proof.
  intros ps l (d & -> & Hr) i. pose proof Hr as (al & _ & _ & _ & _ & _ & Hs).
  unfold p_Get, p_Size, p_Empty, p_Values, p_obs.
  rewrite SP.Get_equiv, (csll_get_ok d l i Hr).
  destruct (SP.header_equiv d 0) as (_ & -> & -> & _). rewrite Hs.
  rewrite (SP.Values_equiv d (SP.repr_size_le_cells _ _ _ Hr)), (c_values_ok _ _ _ Hr).
  repeat split. destruct (sll_get i l); reflexivity.
Qed.
