(* NextTo / PrevTo of trees/btree/iterator.go in TREE POINTER MODE (GodsGen.BTreeHeapGen): on a represented, well-formed and
   ordered tree the GENERATED loops are the model's Iter.move_to over Iter.bt_next / Iter.bt_prev and BTreeIter.ientry
   (Model/Iter.v, Model/BTreeIter.v), for every predicate of the harness family; never None when the fuel exceeds the
   model's fuel by the height and the width of the tree (what one Next / Prev needs). *)
From Coq Require Import ZArith List Lia Bool Arith.
From Gods Require Import Common.Cmp Model.BTree Model.BTreeIter Model.Ops Model.Iter.
From Gods Require Proofs.IterTreeBT Proofs.BTreeMap.
From GodsGenProofs Require Import GoCmp GoTreeHeap GoBTreeHeap BTreeHeapRep BTreeHeapReadProofs BTreeHeapIterProofs.
From GodsGen Require BTreeHeapGen.
Import ListNotations.
Local Open Scope Z_scope.

(* the entry the iterator holds is the model's current entry *)
Lemma irep_ientry : forall cmp, SWO cmp -> forall h opt it path key,
  IterTreeBT.bt_good cmp (oerase opt) -> irep opt it (IBetween path key) ->
  exists v, ientry (oerase opt) (IBetween path key) = Some (key, v) /\ G.Key h it = Some key /\ G.Value h it = Some v.
Proof.
  intros cmp Hswo h opt it path key Hg (_ & pt & pn & e & v & -> & Hs & _ & He & Hent).
  cbn [oerase option_map IterTreeBT.bt_good] in *.
  assert (Ha : IterTreeBT.at_entry (erase pt) path key (erase pn) e).
  { split; [rewrite psub_erase, Hs; reflexivity|]. exists v. now rewrite erase_entries. }
  destruct (IterTreeBT.at_entry_facts cmp Hswo (erase pt) path key (erase pn) e Hg Ha) as (_ & _ & Hie).
  exists v. split.
  - rewrite Hie. destruct Hg as (Hwf & _ & _).
    apply (IterTreeBT.nth_brank path (erase pt) (erase pn) e (key, v) Hwf); [rewrite psub_erase, Hs; reflexivity|now rewrite erase_entries].
  - unfold G.Key, G.Value. rewrite Hent. split; reflexivity.
Qed.

Section To.
Variable mag : Z -> Z -> positive.
Variables (h : heap G.Node) (tr : G.Tree) (opt : option pnode) (p : pred).
Hypothesis Hswo : SWO (G.Tree_Comparator tr).
Hypothesis Hg : IterTreeBT.bt_good (G.Tree_Comparator tr) (oerase opt).
Hypothesis Hroot : orep h tr opt.
Hypothesis Hsz : osize_ok tr opt.

Lemma good_opne : opne opt.
Proof. destruct opt as [pt|]; [|exact I]. cbn [oerase option_map IterTreeBT.bt_good] in Hg. destruct Hg as (_ & Hn & _). now apply pne_erase. Qed.

Lemma NextTo_loop_spec : forall m it ip fuel n ip' b, irep opt it ip -> (m + omaxheight opt + owid opt <= fuel)%nat ->
  Iter.move_to ipos (ientry (oerase opt)) (Iter.bt_next (G.Tree_Comparator tr) (oerase opt)) p m ip = Some (ip', b) ->
  exists n' it', G.NextTo_loop1 mag fuel n h tr it (pred_eval p) = Some (if b then Some (n', it', true) else None, (n', it')) /\
                 irep opt it' ip' /\ (n <= n')%nat.
Proof.
  induction m as [|m IH]; intros it ip fuel n ip' b Hir Hf Hmod; [discriminate|].
  cbn [Iter.move_to] in Hmod. unfold Iter.bt_next in Hmod at 1.
  destruct (Next_correct mag h tr opt it ip fuel n Hroot Hsz good_opne Hir ltac:(lia)) as (n1 & it1 & Hrun & Hir1 & Hn1).
  destruct fuel as [|fuel]; [lia|]. cbn [G.NextTo_loop1]. rewrite Hrun.
  destruct (inext (G.Tree_Comparator tr) (oerase opt) ip) as [| |path key] eqn:Enext; cbn [is_between].
  - injection Hmod as <- <-. exists n1, it1. split; [reflexivity|]. split; [exact Hir1|exact Hn1].
  - injection Hmod as <- <-. exists n1, it1. split; [reflexivity|]. split; [exact Hir1|exact Hn1].
  - destruct (irep_ientry _ Hswo h opt it1 path key Hg Hir1) as (v & Hie & HK & HV). rewrite Hie in Hmod. rewrite HK, HV. cbv zeta.
    destruct (pred_eval p key v).
    + injection Hmod as <- <-. exists n1, it1. split; [reflexivity|]. split; [exact Hir1|exact Hn1].
    + destruct (IH it1 (IBetween path key) fuel n1 ip' b Hir1 ltac:(lia) Hmod) as (n' & it' & Hrun' & Hir' & Hn').
      exists n', it'. split; [exact Hrun'|]. split; [exact Hir'|lia].
Qed.

Lemma PrevTo_loop_spec : forall m it ip fuel n ip' b, irep opt it ip -> (m + omaxheight opt + owid opt <= fuel)%nat ->
  Iter.move_to ipos (ientry (oerase opt)) (Iter.bt_prev (G.Tree_Comparator tr) (oerase opt)) p m ip = Some (ip', b) ->
  exists n' it', G.PrevTo_loop1 mag fuel n h tr it (pred_eval p) = Some (if b then Some (n', it', true) else None, (n', it')) /\
                 irep opt it' ip' /\ (n <= n')%nat.
Proof.
  induction m as [|m IH]; intros it ip fuel n ip' b Hir Hf Hmod; [discriminate|].
  cbn [Iter.move_to] in Hmod. unfold Iter.bt_prev in Hmod at 1.
  destruct (Prev_correct mag h tr opt it ip fuel n Hroot Hsz good_opne Hir ltac:(lia)) as (n1 & it1 & Hrun & Hir1 & Hn1).
  destruct fuel as [|fuel]; [lia|]. cbn [G.PrevTo_loop1]. rewrite Hrun.
  destruct (iprev (G.Tree_Comparator tr) (oerase opt) ip) as [| |path key] eqn:Eprev; cbn [is_between].
  - injection Hmod as <- <-. exists n1, it1. split; [reflexivity|]. split; [exact Hir1|exact Hn1].
  - injection Hmod as <- <-. exists n1, it1. split; [reflexivity|]. split; [exact Hir1|exact Hn1].
  - destruct (irep_ientry _ Hswo h opt it1 path key Hg Hir1) as (v & Hie & HK & HV). rewrite Hie in Hmod. rewrite HK, HV. cbv zeta.
    destruct (pred_eval p key v).
    + injection Hmod as <- <-. exists n1, it1. split; [reflexivity|]. split; [exact Hir1|exact Hn1].
    + destruct (IH it1 (IBetween path key) fuel n1 ip' b Hir1 ltac:(lia) Hmod) as (n' & it' & Hrun' & Hir' & Hn').
      exists n', it'. split; [exact Hrun'|]. split; [exact Hir'|lia].
Qed.
End To.

(* OBLIGATION *)
Theorem NextTo_PrevTo_correct : forall mag h tr opt p it ip m fuel n ip' b,
  SWO (G.Tree_Comparator tr) -> IterTreeBT.bt_good (G.Tree_Comparator tr) (oerase opt) ->
  orep h tr opt -> osize_ok tr opt -> irep opt it ip ->
  (m + omaxheight opt + owid opt <= fuel)%nat ->
  (Iter.move_to ipos (ientry (oerase opt)) (Iter.bt_next (G.Tree_Comparator tr) (oerase opt)) p m ip = Some (ip', b) ->
   exists n' it', G.NextTo mag fuel n h tr it (pred_eval p) = Some (n', it', b) /\ irep opt it' ip' /\ (n <= n')%nat) /\
  (Iter.move_to ipos (ientry (oerase opt)) (Iter.bt_prev (G.Tree_Comparator tr) (oerase opt)) p m ip = Some (ip', b) ->
   exists n' it', G.PrevTo mag fuel n h tr it (pred_eval p) = Some (n', it', b) /\ irep opt it' ip' /\ (n <= n')%nat).
Proof.
  intros mag h tr opt p it ip m fuel n ip' b Hswo Hg Hroot Hsz Hir Hf. split; intro Hmod.
  - destruct (NextTo_loop_spec mag h tr opt p Hswo Hg Hroot Hsz m it ip fuel n ip' b Hir Hf Hmod) as (n' & it' & Hrun & Hir' & Hn').
    exists n', it'. unfold G.NextTo. rewrite Hrun. destruct b; (split; [reflexivity|split; [exact Hir'|exact Hn']]).
  - destruct (PrevTo_loop_spec mag h tr opt p Hswo Hg Hroot Hsz m it ip fuel n ip' b Hir Hf Hmod) as (n' & it' & Hrun & Hir' & Hn').
    exists n', it'. unfold G.PrevTo. rewrite Hrun. destruct b; (split; [reflexivity|split; [exact Hir'|exact Hn']]).
Qed.
Print Assumptions NextTo_PrevTo_correct.
