(* THE WRITE PATH Put -> put -> putFix of trees/avltree/avltree.go in TREE POINTER MODE (GodsGen.AVLTreeHeapGen; `qp **Node` is
   a GoTreeLink.link) against Model/AVLTree.v, under the representation predicate of AVLTreeHeapRep.v:
     putFix_correct  the generated putFix (balance update / singlerot / doublerot, result stored through the link) = AVL.putFix;
     put_correct     the generated recursive put on the subtree a link points to = AVL.put (one step = one comparator call);
     Put_correct     for every heap with heap_ok, every represented tree t with AVL.put cmp key val t = Some (t', fx, ins)
                     and fuel > AVL.height t: the generated Put returns a heap representing t' (keys, values, balance
                     factors, shape, Parent / Children links, distinct addresses), size + 1 iff a new key, exactly
                     AVL.put_cost comparator calls; never None;
     gen_puts_ok     runs of the generated Put from the generated NewWith on the empty heap. *)
From Coq Require Import ZArith List Lia Bool Arith ZifyBool ZifyNat.
From Gods Require Import Common.Cmp Model.AVLTree Proofs.AVLInv.
From Gods Require Proofs.AVLMap.
From GodsGenProofs Require Import GoCmp GoTreeHeap GoTreeLink AVLTreeHeapRep AVLTreeHeapWriteLemmas AVLTreeHeapRotProofs AVLTreeHeapDblRotProofs AVLTreeHeapStepLemmas.
From GodsGen Require AVLTreeHeapGen.
Import ListNotations.
Local Open Scope Z_scope.

(* OBLIGATION *)
Theorem putFix_correct : forall h root qp pp c s t' f,
  (c = 1 \/ c = -1) -> rep h pp s -> NoDup (addrs s) -> s <> PE -> link_ok h root qp pp (root_ptr s) ->
  (forall a, link_owner qp = Some a -> ~ In a (addrs s)) ->
  AVL.putFix c (erase s) = Some (t', f) ->
  exists h' s' root', G.putFix h root c qp = Some (h', root', f) /\ erase s' = t' /\
    link_post h h' root qp pp s s' root' /\ same_addrs s' s /\ hnext h' = hnext h /\
    (forall z, ~ In z (addrs s) -> link_owner qp <> Some z -> hread h' z = hread h z).
Proof.
  intros h root qp pp c s t' f Hc Hrep Hnd Hne Hlk Hown Hm.
  destruct s as [|sa sb sl sk sv sr]; [congruence|]. clear Hne.
  pose proof (link_get_ok _ _ _ _ _ Hlk) as Hget. cbn [root_ptr] in Hget, Hlk.
  destruct (rep_PT_inv _ _ _ _ _ _ _ _ Hrep) as (Hs & Hsl & Hsr).
  unfold AVL.putFix in Hm. cbn [erase AVL.bal] in Hm.
  assert (Hkeep : forall h1, (forall z, z <> sa -> hread h1 z = hread h z) ->
            new_root qp root (Some sa) = root /\ link_ok h1 root qp pp (Some sa) /\ owner_upd h h1 qp (Some sa)).
  { intros h1 Hfr1. apply link_keep; [exact Hlk|]. intros a Ha. apply Hfr1. intros ->. apply (Hown _ Ha). now left. }
  unfold G.putFix. rewrite Hget. csim.
  destruct (sb =? 0) eqn:E0; [|destruct (sb =? - c) eqn:E1].
  - injection Hm as <- <-. pose proof Hnd as Hnd0. nd_facts Hnd.
    assert (Hfr : forall z, z <> sa -> hread (hset h sa (node_of pp c sl sk sv sr)) z = hread h z) by (intros z Hz; rewrite hread_hset; eqb_simpl; reflexivity).
    destruct (Hkeep _ Hfr) as (K1 & K2 & K3).
    exists (hset h sa (node_of pp c sl sk sv sr)), (PT sa c sl sk sv sr), root. split; [reflexivity|]. split; [reflexivity|].
    split; [split; [cbn [root_ptr]; now rewrite K1|split; [rep_tac|split; assumption]]|].
    split; [same_addrs_tac|]. split; [reflexivity|]. intros z Hz _. apply Hfr. intros ->. apply Hz. now left.
  - injection Hm as <- <-. pose proof Hnd as Hnd0. nd_facts Hnd.
    assert (Hfr : forall z, z <> sa -> hread (hset h sa (node_of pp 0 sl sk sv sr)) z = hread h z) by (intros z Hz; rewrite hread_hset; eqb_simpl; reflexivity).
    destruct (Hkeep _ Hfr) as (K1 & K2 & K3).
    exists (hset h sa (node_of pp 0 sl sk sv sr)), (PT sa 0 sl sk sv sr), root. split; [reflexivity|]. split; [reflexivity|].
    split; [split; [cbn [root_ptr]; now rewrite K1|split; [rep_tac|split; assumption]]|].
    split; [same_addrs_tac|]. split; [reflexivity|]. intros z Hz _. apply Hfr. intros ->. apply Hz. now left.
  - (* a rotation; its result is stored through the link *)
    assert (Hrot : exists h1 s1 (b1 : bool), 
               (do c4 <- hread h sa; do x5 <- arr2_get (G.Node_Children c4) (Z.quot (c + 1) 2); do c6 <- deref h x5;
                if G.Node_b c6 =? c then (do (h, r7) <- G.singlerot h c (Some sa); Some (h, r7)) else (do (h, r8) <- G.doublerot h c (Some sa); Some (h, r8)))
               = Some (h1, root_ptr s1) /\ erase s1 = t' /\ f = false /\
               rep h1 pp s1 /\ same_addrs s1 (PT sa sb sl sk sv sr) /\ hnext h1 = hnext h /\
               (forall z, ~ In z (addrs (PT sa sb sl sk sv sr)) -> hread h1 z = hread h z)).
    { rewrite Hs. gproj.
      assert (Hchild : exists ca cb cl ck cv cr, (if c =? 1 then sr else sl) = PT ca cb cl ck cv cr).
      { destruct Hc as [-> | ->]; cbn [Z.eqb Pos.eqb AVL.child] in Hm |- *.
        - destruct sr as [|ca cb cl ck cv cr]; [|now eauto 7]. cbn [erase AVL.bal Z.eqb] in Hm. cbn [AVL.doublerot AVL.child AVL.rotate Z.eqb Pos.eqb] in Hm. discriminate.
        - destruct sl as [|ca cb cl ck cv cr]; [|now eauto 7]. cbn [erase AVL.bal Z.eqb] in Hm. cbn [AVL.doublerot AVL.child AVL.rotate Z.eqb Pos.eqb Z.opp] in Hm. discriminate. }
      destruct Hchild as (ca & cb & cl & ck & cv & cr & Hch).
      assert (Hx5 : arr2_get (root_ptr sl, root_ptr sr) (Z.quot (c + 1) 2) = Some (Some ca) /\ hread h ca = Some (node_of (Some sa) cb cl ck cv cr)
                    /\ AVL.bal (AVL.child c (AVL.T sb (erase sl) sk sv (erase sr))) = cb).
      { destruct Hc as [-> | ->]; cbn [Z.eqb Pos.eqb] in Hch; subst; cbn [AVL.child Z.eqb Pos.eqb erase AVL.bal root_ptr]; (split; [reflexivity|]); (split; [|reflexivity]).
        - simpl in Hsr. tauto.
        - simpl in Hsl. tauto. }
      destruct Hx5 as (-> & Hca & Hbal). rewrite Hbal in Hm. cbn [deref]. rewrite Hca. gproj.
      destruct (cb =? c).
      - destruct (AVL.singlerot c (AVL.T sb (erase sl) sk sv (erase sr))) as [t1|] eqn:Er; [|discriminate]. injection Hm as <- <-.
        destruct (singlerot_correct h pp c (PT sa sb sl sk sv sr) t1 Hc Hrep Hnd Er) as (h1 & s1 & Ex & He & Hr1 & Hsa & Hn1 & Hf1).
        cbn [root_ptr] in Ex. rewrite Ex. exists h1, s1, false. repeat split; auto; apply Hsa.
      - destruct (AVL.doublerot c (AVL.T sb (erase sl) sk sv (erase sr))) as [t1|] eqn:Er; [|discriminate]. injection Hm as <- <-.
        destruct (doublerot_correct h pp c (PT sa sb sl sk sv sr) t1 Hc Hrep Hnd Er) as (h1 & s1 & Ex & He & Hr1 & Hsa & Hn1 & Hf1).
        cbn [root_ptr] in Ex. rewrite Ex. exists h1, s1, false. repeat split; auto; apply Hsa. }
    destruct Hrot as (h1 & s1 & b1 & Ex & He & -> & Hr1 & Hsa & Hn1 & Hf1).
    assert (Hlk1 : link_ok h1 root qp pp (Some sa)).
    { eapply link_ok_frame; [exact Hlk|]. intros a Ha. apply Hf1. apply (Hown _ Ha). }
    destruct (link_set_ok h1 root qp pp (Some sa) (root_ptr s1) Hlk1) as (h2 & Es & Hn2 & Hlk2 & Hup2 & Hf2 & _).
    exists h2, s1, (new_root qp root (root_ptr s1)). split.
    { rewrite Hs in Ex. gproj. cbn [G.Node_Children node_of] in Ex.
      destruct (arr2_get (root_ptr sl, root_ptr sr) (Z.quot (c + 1) 2)) as [x5|]; [|discriminate].
      destruct (deref h x5) as [c6|]; [|discriminate]. rewrite Ex, Es. reflexivity. }
    split; [exact He|]. split; [|split; [exact Hsa|split; [congruence|]]].
    + split; [reflexivity|]. split; [|split; [exact Hlk2|]].
      * eapply rep_frame; [|exact Hr1]. intros x Hx. apply Hf2. intro E. apply (Hown _ E). now apply Hsa.
      * eapply owner_upd_frame; [exact Hup2|]. intros a Ha. apply Hf1. apply (Hown _ Ha).
    + intros z Hz Hzo. rewrite Hf2 by exact Hzo. apply Hf1. exact Hz.
Qed.
Print Assumptions putFix_correct.

(* ---------- put ---------- *)
(* OBLIGATION *)
Theorem put_correct : forall mag key val cmp pt h rt sz qp pp n fuel t' fx ins,
  heap_ok h -> rep h pp pt -> NoDup (addrs pt) -> link_ok h rt qp pp (root_ptr pt) ->
  (forall a, link_owner qp = Some a -> ~ In a (addrs pt)) ->
  AVL.put cmp key val (erase pt) = Some (t', fx, ins) -> (AVL.height (erase pt) < fuel)%nat ->
  exists h' pt' rt',
    G.put mag fuel n h (G.mkTree rt cmp sz) key val pp qp =
      Some ((n + AVL.put_cost cmp key (erase pt))%nat, h', G.mkTree rt' cmp (sz + bump ins), fx) /\
    erase pt' = t' /\ put_post h h' rt qp pp pt pt' rt' /\
    hnext h' = (if ins then S (hnext h) else hnext h).
Proof.
  intros mag key val cmp. induction pt as [|qa b l IHl k v r IHr]; intros h rt sz qp pp n fuel t' fx ins Hok Hrep Hnd Hlk Hown Hm Hf.
  - (* the empty subtree: allocate the node, store it through the link *)
    destruct fuel as [|fuel]; [simpl in Hf; lia|]. cbn [erase AVL.put] in Hm. injection Hm as <- <- <-.
    pose proof (link_get_ok _ _ _ _ _ Hlk) as Hget. cbn [root_ptr] in Hget.
    cbn [G.put]. cbn [G.Tree_Root G.Tree_Comparator G.Tree_size G.Tree_set_size G.Tree_set_Root]. rewrite Hget. cbn [is_nil].
    set (nd := G.mkNode key val pp (None, None) 0).
    assert (Hlk1 : link_ok (fst (alloc h nd)) rt qp pp None).
    { eapply link_ok_frame; [exact Hlk|]. intros a Ha. rewrite hread_alloc.
      pose proof (link_owner_lt _ _ _ _ _ _ Hok Hlk Ha). destruct (Nat.eqb a (hnext h)) eqn:E; [apply Nat.eqb_eq in E; lia|reflexivity]. }
    destruct (link_set_ok _ rt qp pp None (Some (hnext h)) Hlk1) as (h2 & Es & Hn2 & Hlk2 & Hup2 & Hf2 & Hok2).
    unfold alloc at 1. cbn [fst snd] in Es |- *. cbv beta iota zeta. 
    change (mkheap ((hnext h, nd) :: hcells h) (S (hnext h))) with (fst (alloc h nd)). rewrite Es.
    exists h2, (PT (hnext h) 0 PE key val PE), (new_root qp rt (Some (hnext h))).
    split; [cbn [erase AVL.put_cost AVL.lookup_cost bump]; rewrite Nat.add_0_r; reflexivity|]. split; [reflexivity|].
    assert (Hown_ne : forall a, link_owner qp = Some a -> a <> hnext h).
    { intros a Ha. pose proof (link_owner_lt _ _ _ _ _ _ Hok Hlk Ha). lia. }
    split; [|rewrite Hn2; reflexivity].
    split; [split; [reflexivity|split; [|split; [exact Hlk2|]]]|split; [|split; [|split]]].
    + apply rep_PT_intro; [|exact I|exact I]. rewrite Hf2 by (intro E; apply (Hown_ne _ E); reflexivity).
      rewrite hread_alloc, Nat.eqb_refl. reflexivity.
    + eapply owner_upd_frame; [exact Hup2|]. intros a Ha. rewrite hread_alloc.
      destruct (Nat.eqb a (hnext h)) eqn:E; [apply Nat.eqb_eq in E; elim (Hown_ne _ Ha E)|reflexivity].
    + cbn [addrs app]. constructor; [tauto|constructor].
    + intros x [<-|[]]. now right.
    + apply Hok2. apply heap_ok_alloc. exact Hok.
    + intros z _ Hz Hzo. rewrite Hf2 by exact Hzo. rewrite hread_alloc.
      destruct (Nat.eqb z (hnext h)) eqn:E; [apply Nat.eqb_eq in E; contradiction|reflexivity].
  - destruct fuel as [|fuel]; [simpl in Hf; lia|]. cbn [erase AVL.height] in Hf.
    pose proof (link_get_ok _ _ _ _ _ Hlk) as Hget. cbn [root_ptr] in Hget, Hlk.
    destruct (rep_PT_inv _ _ _ _ _ _ _ _ Hrep) as (Hq & Hl & Hr).
    cbn [erase AVL.put AVL.put_cost AVL.lookup_cost] in Hm |- *.
    cbn [G.put]. cbn [G.Tree_Root G.Tree_Comparator G.Tree_size G.Tree_set_size G.Tree_set_Root]. rewrite Hget. cbn [is_nil].
    change (deref h (Some qa)) with (hread h qa). rewrite Hq. cbn [node_of G.Node_Key].
    destruct (cmp key k) eqn:E.
    + (* equal keys: overwrite *)
      injection Hm as <- <- <-. rewrite (call_cmp_Eq mag _ _ _ E). pose proof Hnd as Hnd0. nd_facts Hnd. csim.
      assert (Hfr : forall z, z <> qa -> hread (hset (hset h qa (node_of pp b l key v r)) qa (node_of pp b l key val r)) z = hread h z)
        by (intros z Hz; repeat (rewrite hread_hset; eqb_simpl); reflexivity).
      assert (Hkeep : new_root qp rt (Some qa) = rt /\ link_ok (hset (hset h qa (node_of pp b l key v r)) qa (node_of pp b l key val r)) rt qp pp (Some qa) /\
                      owner_upd h (hset (hset h qa (node_of pp b l key v r)) qa (node_of pp b l key val r)) qp (Some qa)).
      { apply link_keep; [exact Hlk|]. intros a Ha. apply Hfr. intros ->. apply (Hown _ Ha). now left. }
      destruct Hkeep as (K1 & K2 & K3).
      eexists _, (PT qa b l key val r), rt. split; [unfold bump; rewrite Z.add_0_r, Nat.add_1_r; reflexivity|]. split; [reflexivity|].
      split; [|reflexivity].
      split; [split; [cbn [root_ptr]; now rewrite K1|split; [rep_tac|split; assumption]]|split; [|split; [|split]]].
      * autorewrite with nd. repeat split; assumption.
      * intros x Hx. left. exact Hx.
      * apply heap_ok_hset; [apply heap_ok_hset; [exact Hok|congruence]|]. rewrite hread_hset, Nat.eqb_refl. discriminate.
      * intros z Hz _ _. apply Hfr. intros ->. apply Hz. now left.
    + (* smaller: into the left subtree through &q.Children[0] *)
      destruct (call_cmp_Lt mag _ _ _ E) as (E0 & E1 & E2). rewrite E0, E1. csim. unfold link_child. rewrite Hq. gproj. rewrite arr2_get_0.
      destruct (AVL.put cmp key val (erase l)) as [[[l1 fx0] ins0]|] eqn:Hpl; [|discriminate].
      pose proof Hnd as Hnd0. nd_facts Hnd.
      assert (HlkL : link_ok h rt (LChild qa 0) (Some qa) (root_ptr l)).
      { split; [reflexivity|]. eexists. split; [exact Hq|]. reflexivity. }
      destruct (IHl h rt sz (LChild qa 0) (Some qa) (S n) fuel l1 fx0 ins0 Hok Hl ltac:(assumption) HlkL) as (h1 & l' & rt1 & Erun & Hel & Hpost & Hn1);
        [intros a Ha; injection Ha as <-; assumption|reflexivity|lia|].
      rewrite Erun. cbn [G.Tree_Root G.Tree_set_Root G.Tree_Comparator G.Tree_size].
      destruct (put_step h h1 rt qp pp qa b l k v r 0 l l' rt1 ltac:(now left) eq_refl Hok Hrep Hnd0 Hlk Hown Hpost)
        as (-> & Hrep1 & Hnd1 & Hlk1 & Hown1 & Hin1 & Hup1 & Hnr & Hfr1). cbn [Z.eqb] in Hrep1, Hnd1, Hown1, Hin1.
      destruct Hpost as (_ & _ & _ & Hok1 & _).
      rewrite <- Nat.add_succ_comm.
      destruct fx0.
      * destruct (AVL.putFix (-1) (AVL.T b l1 k v (erase r))) as [[t2 f2]|] eqn:Hfix; [|discriminate]. injection Hm as <- <- <-.
        rewrite to_int8_m1.
        destruct (putFix_correct h1 rt qp pp (-1) (PT qa b l' k v r) t2 f2 ltac:(now right) Hrep1 Hnd1 ltac:(discriminate) Hlk1 Hown1)
          as (h2 & s2 & rt2 & Efix & He2 & (Hrt2 & Hrep2 & Hlk2 & Hup2) & Hsa2 & Hn2 & Hfr2); [cbn [erase]; rewrite Hel; exact Hfix|].
        rewrite Efix. exists h2, s2, rt2. split; [reflexivity|]. split; [exact He2|]. split; [|rewrite Hn2; exact Hn1].
        split; [split; [exact Hrt2|split; [exact Hrep2|split; [exact Hlk2|]]]|split; [apply Hsa2|split; [|split]]].
        -- eapply owner_upd_frame; [exact Hup2|]. intros a Ha. apply Hfr1; [exact (Hown _ Ha)|]. pose proof (link_owner_lt _ _ _ _ _ _ Hok Hlk Ha). lia.
        -- intros x Hx. apply Hin1. now apply Hsa2.
        -- eapply heap_ok_post; [exact Hok1|exact Hrep1|exact Hlk1|exact Hn2|exact Hfr2].
        -- intros z Hz Hzn Hzo. rewrite Hfr2; [apply Hfr1; assumption| |exact Hzo].
           intro Hx. destruct (Hin1 _ Hx); contradiction.
      * injection Hm as <- <- <-. exists h1, (PT qa b l' k v r), rt. split; [reflexivity|]. split; [cbn [erase]; now rewrite Hel|].
        split; [|exact Hn1].
        split; [split; [cbn [root_ptr]; now rewrite Hnr|split; [exact Hrep1|split; [exact Hlk1|exact Hup1]]]|split; [exact Hnd1|split; [exact Hin1|split; [exact Hok1|]]]].
        intros z Hz Hzn _. apply Hfr1; assumption.
    + (* greater: into the right subtree through &q.Children[1] *)
      destruct (call_cmp_Gt mag _ _ _ E) as (E0 & E1 & E2). rewrite E0, E1. csim. unfold link_child. rewrite Hq. gproj. rewrite arr2_get_1.
      destruct (AVL.put cmp key val (erase r)) as [[[r1 fx0] ins0]|] eqn:Hpl; [|discriminate].
      pose proof Hnd as Hnd0. nd_facts Hnd.
      assert (HlkR : link_ok h rt (LChild qa 1) (Some qa) (root_ptr r)).
      { split; [reflexivity|]. eexists. split; [exact Hq|]. reflexivity. }
      destruct (IHr h rt sz (LChild qa 1) (Some qa) (S n) fuel r1 fx0 ins0 Hok Hr ltac:(assumption) HlkR) as (h1 & r' & rt1 & Erun & Hel & Hpost & Hn1);
        [intros a Ha; injection Ha as <-; assumption|reflexivity|lia|].
      rewrite Erun. cbn [G.Tree_Root G.Tree_set_Root G.Tree_Comparator G.Tree_size].
      destruct (put_step h h1 rt qp pp qa b l k v r 1 r r' rt1 ltac:(now right) eq_refl Hok Hrep Hnd0 Hlk Hown Hpost)
        as (-> & Hrep1 & Hnd1 & Hlk1 & Hown1 & Hin1 & Hup1 & Hnr & Hfr1). cbn [Z.eqb Pos.eqb] in Hrep1, Hnd1, Hown1, Hin1.
      destruct Hpost as (_ & _ & _ & Hok1 & _).
      rewrite <- Nat.add_succ_comm.
      destruct fx0.
      * destruct (AVL.putFix 1 (AVL.T b (erase l) k v r1)) as [[t2 f2]|] eqn:Hfix; [|discriminate]. injection Hm as <- <- <-.
        rewrite to_int8_1.
        destruct (putFix_correct h1 rt qp pp 1 (PT qa b l k v r') t2 f2 ltac:(now left) Hrep1 Hnd1 ltac:(discriminate) Hlk1 Hown1)
          as (h2 & s2 & rt2 & Efix & He2 & (Hrt2 & Hrep2 & Hlk2 & Hup2) & Hsa2 & Hn2 & Hfr2); [cbn [erase]; rewrite Hel; exact Hfix|].
        rewrite Efix. exists h2, s2, rt2. split; [reflexivity|]. split; [exact He2|]. split; [|rewrite Hn2; exact Hn1].
        split; [split; [exact Hrt2|split; [exact Hrep2|split; [exact Hlk2|]]]|split; [apply Hsa2|split; [|split]]].
        -- eapply owner_upd_frame; [exact Hup2|]. intros a Ha. apply Hfr1; [exact (Hown _ Ha)|]. pose proof (link_owner_lt _ _ _ _ _ _ Hok Hlk Ha). lia.
        -- intros x Hx. apply Hin1. now apply Hsa2.
        -- eapply heap_ok_post; [exact Hok1|exact Hrep1|exact Hlk1|exact Hn2|exact Hfr2].
        -- intros z Hz Hzn Hzo. rewrite Hfr2; [apply Hfr1; assumption| |exact Hzo].
           intro Hx. destruct (Hin1 _ Hx); contradiction.
      * injection Hm as <- <- <-. exists h1, (PT qa b l k v r'), rt. split; [reflexivity|]. split; [cbn [erase]; now rewrite Hel|].
        split; [|exact Hn1].
        split; [split; [cbn [root_ptr]; now rewrite Hnr|split; [exact Hrep1|split; [exact Hlk1|exact Hup1]]]|split; [exact Hnd1|split; [exact Hin1|split; [exact Hok1|]]]].
        intros z Hz Hzn _. apply Hfr1; assumption.
Qed.
Print Assumptions put_correct.

(* ---------- Put ---------- *)
(* OBLIGATION *)
Theorem Put_correct : forall mag h tr t key val n fuel t' fx ins,
  heap_ok h -> tree_repr h tr t -> AVL.put (G.Tree_Comparator tr) key val t = Some (t', fx, ins) ->
  (AVL.height t < fuel)%nat ->
  exists h' tr', G.Put mag fuel n h tr key val = Some ((n + AVL.put_cost (G.Tree_Comparator tr) key t)%nat, h', tr') /\
    tree_repr h' tr' t' /\ heap_ok h' /\ G.Tree_Comparator tr' = G.Tree_Comparator tr /\
    G.Tree_size tr' = G.Tree_size tr + (if ins then 1 else 0) /\
    hnext h' = (if ins then S (hnext h) else hnext h).
Proof.
  intros mag h [rt cmp sz] t key val n fuel t' fx ins Hok (pt & <- & Hroot & Hrep & Hnd) Hm Hf.
  cbn [G.Tree_Root G.Tree_Comparator G.Tree_size] in *.
  destruct (put_correct mag key val cmp pt h rt sz LRoot None n fuel t' fx ins Hok Hrep Hnd) as (h' & pt' & rt' & Erun & He & ((Hrt & Hrep' & _ & _) & Hnd' & _ & Hok' & _) & Hn);
    [split; [reflexivity|now symmetry]|discriminate|exact Hm|exact Hf|].
  unfold G.Put. rewrite Erun. exists h', (G.mkTree rt' cmp (sz + bump ins)). split; [reflexivity|].
  cbn [new_root] in Hrt. split; [exists pt'; cbn [G.Tree_Root]; auto|]. repeat split; auto.
Qed.
Print Assumptions Put_correct.

(* ---------- runs of Put from NewWith ---------- *)

Lemma putFix_count : forall c s t' f, AVL.putFix c s = Some (t', f) -> AVL.count t' = AVL.count s.
Proof. intros c s t' f H. rewrite !AVLMap.count_inorder. f_equal. eapply AVLMap.putFix_inorder; eauto. Qed.

Lemma put_count : forall cmp key val t t' fx ins, AVL.put cmp key val t = Some (t', fx, ins) ->
  AVL.count t' = (AVL.count t + (if ins then 1 else 0))%nat.
Proof.
  intros cmp key val. induction t as [|b l IHl k v r IHr]; intros t' fx ins H.
  - cbn in H. injection H as <- <- <-. reflexivity.
  - cbn [AVL.put] in H. destruct (cmp key k).
    + injection H as <- <- <-. cbn [AVL.count]. lia.
    + destruct (AVL.put cmp key val l) as [[[l' fx0] ins0]|] eqn:Hp; [|discriminate]. specialize (IHl _ _ _ eq_refl). destruct fx0.
      * destruct (AVL.putFix (-1) (AVL.T b l' k v r)) as [[t2 f2]|] eqn:Hfix; [|discriminate]. injection H as <- <- <-.
        rewrite (putFix_count _ _ _ _ Hfix). cbn [AVL.count]. lia.
      * injection H as <- <- <-. cbn [AVL.count]. lia.
    + destruct (AVL.put cmp key val r) as [[[r' fx0] ins0]|] eqn:Hp; [|discriminate]. specialize (IHr _ _ _ eq_refl). destruct fx0.
      * destruct (AVL.putFix 1 (AVL.T b l k v r')) as [[t2 f2]|] eqn:Hfix; [|discriminate]. injection H as <- <- <-.
        rewrite (putFix_count _ _ _ _ Hfix). cbn [AVL.count]. lia.
      * injection H as <- <- <-. cbn [AVL.count]. lia.
Qed.
Lemma height_le_count : forall t, (AVL.height t <= AVL.count t)%nat.
Proof. induction t; cbn; lia. Qed.

Fixpoint gen_puts (mag : Z -> Z -> positive) (fuel : nat) (kvs : list (Z * Z)) (st : nat * heap G.Node * G.Tree)
  : option (nat * heap G.Node * G.Tree) :=
  match kvs with
  | [] => Some st
  | (k, v) :: rest => let '(n, h, tr) := st in
                      match G.Put mag fuel n h tr k v with Some st' => gen_puts mag fuel rest st' | None => None end
  end.
Fixpoint model_puts (cmp : cmpf) (kvs : list (Z * Z)) (t : AVL.tree) : AVL.tree :=
  match kvs with
  | [] => t
  | (k, v) :: rest => match AVL.put cmp k v t with Some (t', _, _) => model_puts cmp rest t' | None => t end
  end.
Fixpoint model_cost (cmp : cmpf) (kvs : list (Z * Z)) (t : AVL.tree) : nat :=
  match kvs with
  | [] => 0%nat
  | (k, v) :: rest => (AVL.put_cost cmp k t + match AVL.put cmp k v t with Some (t', _, _) => model_cost cmp rest t' | None => 0 end)%nat
  end.

Lemma gen_puts_from : forall mag kvs fuel n h tr t,
  tree_repr h tr t -> heap_ok h -> avl t -> G.Tree_size tr = Z.of_nat (AVL.count t) ->
  (AVL.count t + length kvs < fuel)%nat ->
  let cmp := G.Tree_Comparator tr in
  exists h' tr', gen_puts mag fuel kvs (n, h, tr) = Some ((n + model_cost cmp kvs t)%nat, h', tr') /\
    tree_repr h' tr' (model_puts cmp kvs t) /\ heap_ok h' /\ avl (model_puts cmp kvs t) /\
    G.Tree_size tr' = Z.of_nat (AVL.count (model_puts cmp kvs t)) /\ G.Tree_Comparator tr' = cmp.
Proof.
  intros mag. induction kvs as [|[k v] rest IH]; intros fuel n h tr t Hrepr Hok Havl Hsz Hf cmp.
  - exists h, tr. cbn [gen_puts model_puts model_cost]. rewrite Nat.add_0_r.
    split; [reflexivity|]. split; [exact Hrepr|]. split; [exact Hok|]. split; [exact Havl|]. split; [exact Hsz|reflexivity].
  - cbn [gen_puts model_puts model_cost]. destruct (put_avl cmp k v t Havl) as (t' & fx & ins & Hput & Havl' & _).
    pose proof (height_le_count t) as Hh. cbn [length] in Hf.
    destruct (Put_correct mag h tr t k v n fuel t' fx ins Hok Hrepr Hput ltac:(lia)) as (h1 & tr1 & Hrun & Hrepr1 & Hok1 & Hcmp1 & Hsz1 & _).
    rewrite Hrun, Hput. pose proof (put_count _ _ _ _ _ _ _ Hput) as Hc.
    destruct (IH fuel (n + AVL.put_cost (G.Tree_Comparator tr) k t)%nat h1 tr1 t' Hrepr1 Hok1 Havl'
                ltac:(rewrite Hsz1, Hsz, Hc; destruct ins; lia) ltac:(rewrite Hc; destruct ins; lia)) as (h2 & tr2 & Hrun2 & R).
    rewrite Hcmp1 in Hrun2, R. fold cmp in Hrun2, R. exists h2, tr2. fold cmp. rewrite Hrun2. split; [f_equal; f_equal; f_equal; fold cmp; lia|exact R].
Qed.

(* OBLIGATION *)
Theorem gen_puts_ok : forall mag cmp kvs fuel, (length kvs < fuel)%nat ->
  exists tr0 h tr, G.NewWith empty_heap cmp = Some tr0 /\
    gen_puts mag fuel kvs (O, empty_heap, tr0) = Some (model_cost cmp kvs AVL.E, h, tr) /\
    tree_repr h tr (model_puts cmp kvs AVL.E) /\ avl (model_puts cmp kvs AVL.E) /\
    G.Tree_size tr = Z.of_nat (AVL.count (model_puts cmp kvs AVL.E)) /\ heap_ok h.
Proof.
  intros mag cmp kvs fuel Hf. eexists.
  destruct (gen_puts_from mag kvs fuel O empty_heap (G.mkTree None cmp 0) AVL.E) as (h & tr & Hrun & R1 & R2 & R3 & R4 & _).
  - exists PE. split; [reflexivity|]. split; [reflexivity|]. split; [exact I|constructor].
  - apply heap_ok_empty.
  - exact I.
  - reflexivity.
  - cbn [AVL.count]. lia.
  - exists h, tr. split; [reflexivity|]. cbn [G.Tree_Comparator] in *. split; [exact Hrun|]. split; [exact R1|]. split; [exact R3|]. split; [exact R4|exact R2].
Qed.
Print Assumptions gen_puts_ok.
