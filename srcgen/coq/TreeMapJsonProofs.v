(* serialization.go of TreeMap (in GodsGen.TreeMapGen): for ANY interface J of the wrapped container, ToJSON is the wrapped container's
   ToJSON, FromJSON its FromJSON (the new state stored back, the error passed on -- nothing else happens, no alternative
   path), MarshalJSON = ToJSON, UnmarshalJSON = FromJSON. *)
From Coq Require Import ZArith List Bool.
From GodsGen Require TreeMapGen.
From GodsGenProofs Require Import GoJson.
Import ListNotations.

Module TM := TreeMapGen.

(* OBLIGATION *)
Theorem TreeMap_json_delegates : forall J s d,
  TM.ToJSON J s = TM.tree_ToJSON J (TM.tree J s) /\
  TM.FromJSON J s d = (TM.set_tree J s (fst (TM.tree_FromJSON J (TM.tree J s) d)), snd (TM.tree_FromJSON J (TM.tree J s) d)) /\
  TM.MarshalJSON J s = TM.ToJSON J s /\ TM.UnmarshalJSON J s d = TM.FromJSON J s d.
Proof.
  intros J s d. unfold TM.ToJSON, TM.FromJSON, TM.MarshalJSON, TM.UnmarshalJSON, TM.ToJSON, TM.FromJSON.
  destruct (TM.tree_ToJSON J (TM.tree J s)), (TM.tree_FromJSON J (TM.tree J s) d). repeat split.
Qed.
Print Assumptions TreeMap_json_delegates.
