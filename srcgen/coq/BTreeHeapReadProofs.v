(* READ PATHS of trees/btree/btree.go in TREE POINTER MODE with the B-tree extensions (GodsGen.BTreeHeapGen: heap of Node
   records whose Entries / Children are lists, comparator CALLS counted in ncmp, loops and recursion on explicit fuel --
   see README.md) against the functional model Model/BTree.v and the cost model Model/BTreeCost.v, for EVERY heap h,
   tree header tr, model tree t represented in h (BTreeHeapRep.v), every key, every comparator (no order hypothesis: the
   binary search and the descent are the model's), every magnitude function of the comparator's answers:

     search                           = BT.search      with exactly BTreeCost.search_c comparator calls
     searchRecursively / Get / GetNode = BT.get         with exactly BTreeCost.get_c comparator calls
     Height                           = BT.height       Node.Size = BT.nodes
     Left / LeftKey / LeftValue       = BT.left_entry   Right / RightKey / RightValue = BT.right_entry
     isLeaf, shouldSplit, isFull, maxChildren, minChildren, maxEntries, minEntries, middle = the model's

   never None when the fuel covers the height of the tree (and, for the binary search inside a node, the number of
   its iterations: at most the number of entries of the widest node, [wid]).  The readers cannot change the heap: they
   do not return one ([readers_signature] pins their types). *)
From Coq Require Import ZArith List Lia Bool Arith ZifyBool ZifyNat.
From Gods Require Import Common.Cmp Model.BTree Model.BTreeCost.
From Gods Require Proofs.BTreeInd Proofs.BTreeMap Proofs.BTreeCostProofs.
From GodsGenProofs Require Import GoCmp GoTreeHeap GoBTreeHeap BTreeHeapRep.
From GodsGen Require BTreeHeapGen.
Import ListNotations.
Local Open Scope Z_scope.

Module Names.
Import Coq.Strings.String.
(* OBLIGATION *)
Theorem translated_functions :
  G.translated = ["Begin"; "Clear"; "Empty"; "End"; "First"; "Get"; "GetNode"; "Height"; "Iterator_Node"; "Key"; "Last"; "Left"; "LeftKey"; "LeftValue"; "New"; "NewWith"; "Next"; "NextTo"; "Node_Size"; "Prev"; "PrevTo"; "Put"; "Remove"; "Right"; "RightKey"; "RightValue"; "Tree_Iterator"; "Tree_Size"; "Value"; "appendChildren"; "delete"; "deleteChild"; "deleteEntry"; "height"; "insert"; "insertIntoInternal"; "insertIntoLeaf"; "isFull"; "isLeaf"; "left"; "leftSibling"; "maxChildren"; "maxEntries"; "middle"; "minChildren"; "minEntries"; "prependChildren"; "rebalance"; "right"; "rightSibling"; "search"; "searchRecursively"; "setParent"; "shouldSplit"; "split"; "splitNonRoot"; "splitRoot"]%string
  /\ G.skipped = ["Keys"; "String"; "Values"; "output"]%string.
Proof. repeat split. Qed.
Print Assumptions translated_functions.
End Names.

Definition is_some {A} (o : option A) : bool := match o with Some _ => true | None => false end.

(* OBLIGATION *)
Theorem readers_signature : forall mag : Z -> Z -> positive,
  (G.search mag : nat -> nat -> heap G.Node -> G.Tree -> ptr -> Z -> option (nat * Z * bool)) = G.search mag /\
  (G.searchRecursively mag : nat -> nat -> heap G.Node -> G.Tree -> ptr -> Z -> option (nat * ptr * Z * bool)) = G.searchRecursively mag /\
  (G.Get mag : nat -> nat -> heap G.Node -> G.Tree -> Z -> option (nat * Z * bool)) = G.Get mag /\
  (G.GetNode mag : nat -> nat -> heap G.Node -> G.Tree -> Z -> option (nat * ptr)) = G.GetNode mag /\
  (G.Height : nat -> heap G.Node -> G.Tree -> option Z) = G.Height /\
  (G.height : nat -> heap G.Node -> ptr -> option Z) = G.height /\
  (G.Left : nat -> heap G.Node -> G.Tree -> option ptr) = G.Left /\
  (G.Right : nat -> heap G.Node -> G.Tree -> option ptr) = G.Right /\
  (G.left : nat -> heap G.Node -> G.Tree -> ptr -> option ptr) = G.left /\
  (G.right : nat -> heap G.Node -> G.Tree -> ptr -> option ptr) = G.right /\
  (G.LeftKey : nat -> heap G.Node -> G.Tree -> option (option Z)) = G.LeftKey /\
  (G.LeftValue : nat -> heap G.Node -> G.Tree -> option (option Z)) = G.LeftValue /\
  (G.RightKey : nat -> heap G.Node -> G.Tree -> option (option Z)) = G.RightKey /\
  (G.RightValue : nat -> heap G.Node -> G.Tree -> option (option Z)) = G.RightValue /\
  (G.Node_Size : nat -> heap G.Node -> ptr -> option Z) = G.Node_Size /\
  (G.Tree_Size : heap G.Node -> G.Tree -> option Z) = G.Tree_Size /\
  (G.Empty : heap G.Node -> G.Tree -> option bool) = G.Empty /\
  (G.isLeaf : heap G.Node -> G.Tree -> ptr -> option bool) = G.isLeaf /\
  (G.shouldSplit : heap G.Node -> G.Tree -> ptr -> option bool) = G.shouldSplit /\
  (G.isFull : heap G.Node -> G.Tree -> ptr -> option bool) = G.isFull.
Proof. intros. repeat split. Qed.
Print Assumptions readers_signature.

(* ---------- search: the binary search inside one node ---------- *)
Lemma quot2 : forall a, 0 <= a -> Z.quot a 2 = a / 2.
Proof. intros. apply Z.quot_div_nonneg; lia. Qed.

Lemma sl_len_eptrs : forall es, sl_len (eptrs es) = Z.of_nat (length es).
Proof. intros. unfold sl_len. now rewrite len_eptrs. Qed.
Lemma sl_len_cptrs : forall cs, sl_len (cptrs cs) = Z.of_nat (length cs).
Proof. intros. unfold sl_len. now rewrite len_cptrs. Qed.

Lemma search_loop_spec : forall mag (tr : G.Tree) key h p nd es,
  deref h p = Some nd -> G.Node_Entries nd = eptrs es ->
  forall f fuel n idx fnd low high mid,
  0 <= low -> high < Z.of_nat (length es) -> high - low + 1 < Z.of_nat f ->
  (bsearch_c (G.Tree_Comparator tr) key es low high f <= fuel)%nat ->
  exists lo' hi' mid',
    G.search_loop1 mag fuel n h tr p key idx fnd low high mid =
      Some ((if snd (BT.bsearch (G.Tree_Comparator tr) key es low high f)
             then Some ((n + bsearch_c (G.Tree_Comparator tr) key es low high f)%nat,
                        Z.of_nat (fst (BT.bsearch (G.Tree_Comparator tr) key es low high f)), true)
             else None),
            ((n + bsearch_c (G.Tree_Comparator tr) key es low high f)%nat, lo', hi', mid')) /\
    (snd (BT.bsearch (G.Tree_Comparator tr) key es low high f) = false ->
     lo' = Z.of_nat (fst (BT.bsearch (G.Tree_Comparator tr) key es low high f))).
Proof.
  intros mag tr key h p nd es Hd He. induction f as [|f IH]; intros fuel n idx fnd low high mid Hl Hh Hf Hc.
  - assert (Hlt : (low <=? high) = false) by lia.
    exists low, high, mid. destruct fuel; cbn [G.search_loop1 BT.bsearch bsearch_c fst snd]; rewrite Hlt, Nat.add_0_r; (split; [reflexivity|intros _; lia]).
  - cbn [BT.bsearch bsearch_c] in *. destruct (low <=? high) eqn:Elh.
    + assert (Hm : 0 <= (high + low) / 2 < Z.of_nat (length es)).
      { split; [apply Z.div_pos; lia|]. apply Z.div_lt_upper_bound; lia. }
      assert (Hlm : low <= (high + low) / 2 <= high).
      { split; [apply Z.div_le_lower_bound; lia|]. apply Z.div_le_upper_bound; lia. }
      destruct (nth_error es (Z.to_nat ((high + low) / 2))) as [[k v]|] eqn:En.
      2:{ apply nth_error_None in En. lia. }
      destruct fuel as [|fuel].
      { exfalso. destruct (G.Tree_Comparator tr key k); lia. }
      cbn [G.search_loop1]. rewrite Elh, Hd. rewrite quot2 by lia.
      unfold sl_get. destruct (Z.ltb_spec ((high + low) / 2) 0); [lia|].
      rewrite He, nth_eptrs, En. cbn [option_map Entry_Key fst].
      destruct (G.Tree_Comparator tr key k) eqn:E.
      * rewrite (call_cmp_Eq mag _ _ _ E).
        assert (E2 : (0 <? call_cmp mag (G.Tree_Comparator tr) key k) = false) by (unfold call_cmp; now rewrite E).
        assert (E3 : (call_cmp mag (G.Tree_Comparator tr) key k <? 0) = false) by (unfold call_cmp; now rewrite E).
        rewrite E2, E3. cbn [fst snd]. exists low, high, ((high + low) / 2). rewrite Z2Nat.id by lia. rewrite Nat.add_1_r.
        split; [reflexivity|discriminate].
      * destruct (call_cmp_Lt mag _ _ _ E) as (E0 & E1 & E2). rewrite E2, E1.
        destruct (IH fuel (S n) idx fnd low ((high + low) / 2 - 1) ((high + low) / 2) ltac:(lia) ltac:(lia) ltac:(lia) ltac:(lia)) as (lo' & hi' & mid' & Hrun & Hlo).
        exists lo', hi', mid'. rewrite Hrun, <- Nat.add_succ_comm. split; [reflexivity|exact Hlo].
      * destruct (call_cmp_Gt mag _ _ _ E) as (E0 & E1 & E2). rewrite E2.
        destruct (IH fuel (S n) idx fnd ((high + low) / 2 + 1) high ((high + low) / 2) ltac:(lia) ltac:(lia) ltac:(lia) ltac:(lia)) as (lo' & hi' & mid' & Hrun & Hlo).
        exists lo', hi', mid'. rewrite Hrun, <- Nat.add_succ_comm. split; [reflexivity|exact Hlo].
    + exists low, high, mid. destruct fuel; cbn [G.search_loop1 fst snd]; rewrite Elh, Nat.add_0_r; (split; [reflexivity|intros _; lia]).
Qed.

(* for ANY node record at p whose entries are non-nil: position, found flag and the number of comparator calls *)
(* OBLIGATION *)
Theorem search_correct : forall mag h tr p nd es key fuel n,
  deref h p = Some nd -> G.Node_Entries nd = eptrs es ->
  (search_c (G.Tree_Comparator tr) key es <= fuel)%nat ->
  G.search mag fuel n h tr p key =
    Some ((n + search_c (G.Tree_Comparator tr) key es)%nat,
          Z.of_nat (fst (BT.search (G.Tree_Comparator tr) key es)), snd (BT.search (G.Tree_Comparator tr) key es)).
Proof.
  intros mag h tr p nd es key fuel n Hd He Hf. unfold G.search. rewrite Hd, He, sl_len_eptrs.
  destruct (search_loop_spec mag tr key h p nd es Hd He (S (length es)) fuel n 0 false 0 (Z.of_nat (length es) - 1) 0
              ltac:(lia) ltac:(lia) ltac:(lia) Hf) as (lo' & hi' & mid' & Hrun & Hlo).
  rewrite Hrun. unfold BT.search, search_c in *.
  destruct (snd (BT.bsearch (G.Tree_Comparator tr) key es 0 (Z.of_nat (length es) - 1) (S (length es)))); [reflexivity|].
  now rewrite (Hlo eq_refl).
Qed.
Print Assumptions search_correct.

(* the number of iterations of the binary search is at most the number of entries *)
Lemma lg_le : forall w, (BTreeCostProofs.lg w <= w)%nat.
Proof.
  intros [|w]; [reflexivity|]. unfold BTreeCostProofs.lg. pose proof (Nat.log2_lt_lin (S w) ltac:(lia)). lia.
Qed.
Lemma search_c_le_len : forall cmp key es, (search_c cmp key es <= length es)%nat.
Proof. intros. eapply Nat.le_trans; [apply BTreeCostProofs.search_c_lg|apply lg_le]. Qed.

(* the widest node of a tree *)
Fixpoint wid (t : BT.node) : nat :=
  match t with BT.N es cs => Nat.max (length es) (list_max (map wid cs)) end.

Lemma wid_entries : forall es cs, (length es <= wid (BT.N es cs))%nat.
Proof. intros. cbn [wid]. lia. Qed.
Lemma wid_child : forall es cs c, In c cs -> (wid c <= wid (BT.N es cs))%nat.
Proof.
  intros es cs c H. cbn [wid]. pose proof (BTreeMap.list_max_in (map wid cs) (wid c) (in_map wid cs c H)). lia.
Qed.

(* isLeaf on a represented node (whatever way the generated test is written) *)
Lemma isLeaf_rep : forall h (tr : G.Tree) pp a es cs, rep h pp (PN a es cs) ->
  G.isLeaf h tr (Some a) = Some (match cs with [] => true | _ => false end).
Proof.
  intros h tr pp a es cs Hrep. unfold G.isLeaf. rewrite (rep_deref _ _ _ _ _ Hrep). cbn [node_of G.Node_Children].
  rewrite sl_len_cptrs. f_equal. destruct cs; cbn [length]; lia.
Qed.

(* ---------- searchRecursively / Get / GetNode ---------- *)
(* the entry number i of the node at p *)
Definition entry_at (h : heap G.Node) (p : ptr) (i : Z) (kv : BT.entry) : Prop :=
  exists nd, deref h p = Some nd /\ sl_get (G.Node_Entries nd) i = Some (Some kv).

Lemma searchRecursively_loop_spec : forall mag (tr : G.Tree) key h pt,
  forall pp f fuel n start idx fnd,
  rep h pp pt -> BTreeMap.wf_shape (erase pt) ->
  (BT.maxheight (erase pt) <= f)%nat -> (BT.maxheight (erase pt) + wid (erase pt) <= fuel)%nat ->
  exists p i rest,
    G.searchRecursively_loop1 mag fuel n h tr start key (Some (paddr pt)) idx fnd =
      Some (Some ((n + get_c (G.Tree_Comparator tr) f key (erase pt))%nat, p, i,
                  is_some (BT.get (G.Tree_Comparator tr) f key (erase pt))), rest) /\
    match BT.get (G.Tree_Comparator tr) f key (erase pt) with
    | Some kv => entry_at h p i kv
    | None => p = None /\ i = -1
    end.
Proof.
  intros mag tr key h pt. induction pt as [a es cs IH] using pnode_ind2.
  intros pp f fuel n start idx fnd Hrep Hwf Hf Hfw.
  cbn [erase] in *. pose proof (BTreeCostProofs.mh_pos (BT.N es (map erase cs))) as Hpos.
  destruct f as [|f]; [lia|]. destruct fuel as [|fuel]; [lia|].
  pose proof (rep_deref _ _ _ _ _ Hrep) as Hd.
  cbn [G.searchRecursively_loop1 paddr].
  rewrite (search_correct mag h tr (Some a) _ es key (S fuel) n Hd eq_refl)
    by (pose proof (search_c_le_len (G.Tree_Comparator tr) key es); pose proof (wid_entries es (map erase cs)); lia).
  cbn [BT.get get_c]. destruct (BT.search (G.Tree_Comparator tr) key es) as [pos found] eqn:Es. cbn [fst snd].
  destruct (BTreeInd.search_bound _ _ _ _ _ Es) as [Hpos1 Hpos2].
  destruct found.
  - specialize (Hpos2 eq_refl). destruct (nth_error es pos) as [kv|] eqn:En; [|apply nth_error_None in En; lia].
    exists (Some a), (Z.of_nat pos). eexists. rewrite Nat.add_0_r. split; [reflexivity|].
    exists (node_of pp es cs). split; [exact Hd|]. cbn [node_of G.Node_Entries]. now rewrite sl_get_nat, nth_eptrs, En.
  - rewrite (isLeaf_rep h tr pp a es cs Hrep).
    apply BTreeMap.wf_shape_inv in Hwf. destruct Hwf as [Hl Hfa]. rewrite map_length in Hl.
    destruct Hl as [Hl|Hl].
    + assert (cs = []) by (destruct cs; [reflexivity|discriminate]). subst cs.
      cbn [map]. replace (nth_error (@nil BT.node) pos) with (@None BT.node) by (now destruct pos).
      exists None, (-1). eexists. rewrite Nat.add_0_r. split; [reflexivity|]. split; reflexivity.
    + assert (Hz : match cs with [] => true | _ => false end = false) by (destruct cs; [discriminate|reflexivity]). rewrite Hz.
      destruct (nth_error cs pos) as [c|] eqn:Ec; [|apply nth_error_None in Ec; lia].
      rewrite Hd. cbn [node_of G.Node_Children]. rewrite sl_get_nat, nth_cptrs, Ec. cbn [option_map].
      rewrite nth_erase, Ec. cbn [option_map].
      assert (Hin : In c cs) by (eapply nth_error_In; eauto).
      assert (Hine : In (erase c) (map erase cs)) by (now apply in_map).
      rewrite Forall_forall in IH, Hfa.
      pose proof (BTreeMap.maxheight_child es (map erase cs) (erase c) Hine) as Hmc.
      pose proof (wid_child es (map erase cs) (erase c) Hine) as Hwc.
      assert (T1 : (BT.maxheight (erase c) <= f)%nat) by (clear - Hmc Hf; lia).
      assert (T2 : (BT.maxheight (erase c) + wid (erase c) <= fuel)%nat) by (clear - Hmc Hwc Hfw; lia).
      destruct (IH c Hin (Some a) f fuel (n + search_c (G.Tree_Comparator tr) key es)%nat start (Z.of_nat pos) false
                  (rep_child _ _ _ _ _ _ _ Hrep Ec) (Hfa _ Hine) T1 T2) as (p & i & rest & Hrun & Hres).
      exists p, i, rest. rewrite Hrun, Nat.add_assoc. split; [reflexivity|exact Hres].
Qed.

Definition bmaxheight (ot : option BT.node) : nat := match ot with None => O | Some t => BT.maxheight t end.
Definition bwid (ot : option BT.node) : nat := match ot with None => O | Some t => wid t end.
Definition bwf (ot : option BT.node) : Prop := match ot with None => True | Some t => BTreeMap.wf_shape t end.
Definition bget (cmp : cmpf) (f : nat) (key : Z) (ot : option BT.node) : option BT.entry :=
  match ot with None => None | Some t => BT.get cmp f key t end.
Definition bget_c (cmp : cmpf) (f : nat) (key : Z) (ot : option BT.node) : nat :=
  match ot with None => O | Some t => get_c cmp f key t end.

(* the header's size field is 0 exactly for the empty tree (an entry-less root does not occur: Remove resets Root) *)
Definition size_ok (tr : G.Tree) (ot : option BT.node) : Prop :=
  (G.Tree_size tr =? 0) = match ot with None => true | Some _ => false end.

(* OBLIGATION *)
Theorem searchRecursively_correct : forall mag h tr ot key f fuel n,
  root_repr h tr ot -> size_ok tr ot -> bwf ot ->
  (bmaxheight ot <= f)%nat -> (bmaxheight ot + bwid ot <= fuel)%nat ->
  exists p i,
    G.searchRecursively mag fuel n h tr (G.Tree_Root tr) key =
      Some ((n + bget_c (G.Tree_Comparator tr) f key ot)%nat, p, i, is_some (bget (G.Tree_Comparator tr) f key ot)) /\
    match bget (G.Tree_Comparator tr) f key ot with
    | Some kv => entry_at h p i kv
    | None => p = None /\ i = -1
    end.
Proof.
  intros mag h tr ot key f fuel n Hroot Hsz Hwf Hf Hfw. unfold G.searchRecursively, G.Empty. rewrite Hsz.
  destruct ot as [t|]; cbn [bget bget_c is_some].
  - destruct Hroot as (pt & <- & Hp & Hrep & _). rewrite Hp.
    destruct (searchRecursively_loop_spec mag tr key h pt None f fuel n (Some (paddr pt)) 0 false Hrep Hwf Hf Hfw)
      as (p & i & rest & Hrun & Hres).
    exists p, i. rewrite Hrun. destruct rest as [[[? ?] ?] ?]. split; [reflexivity|exact Hres].
  - exists None, (-1). rewrite Nat.add_0_r. split; [reflexivity|]. split; reflexivity.
Qed.
Print Assumptions searchRecursively_correct.

(* OBLIGATION *)
Theorem Get_correct : forall mag h tr ot key f fuel n,
  root_repr h tr ot -> size_ok tr ot -> bwf ot ->
  (bmaxheight ot <= f)%nat -> (bmaxheight ot + bwid ot <= fuel)%nat ->
  G.Get mag fuel n h tr key =
    Some ((n + bget_c (G.Tree_Comparator tr) f key ot)%nat,
          match bget (G.Tree_Comparator tr) f key ot with Some (_, v) => v | None => 0 end,
          is_some (bget (G.Tree_Comparator tr) f key ot)).
Proof.
  intros mag h tr ot key f fuel n Hroot Hsz Hwf Hf Hfw.
  destruct (searchRecursively_correct mag h tr ot key f fuel n Hroot Hsz Hwf Hf Hfw) as (p & i & Hrun & Hres).
  unfold G.Get. rewrite Hrun. destruct (bget (G.Tree_Comparator tr) f key ot) as [[k v]|]; cbn [is_some].
  - destruct Hres as (nd & Hd & Hg). rewrite Hd, Hg. reflexivity.
  - reflexivity.
Qed.
Print Assumptions Get_correct.

(* OBLIGATION *)
Theorem GetNode_correct : forall mag h tr ot key f fuel n,
  root_repr h tr ot -> size_ok tr ot -> bwf ot ->
  (bmaxheight ot <= f)%nat -> (bmaxheight ot + bwid ot <= fuel)%nat ->
  exists p, G.GetNode mag fuel n h tr key = Some ((n + bget_c (G.Tree_Comparator tr) f key ot)%nat, p) /\
    match bget (G.Tree_Comparator tr) f key ot with
    | Some kv => exists i, entry_at h p i kv
    | None => p = None
    end.
Proof.
  intros mag h tr ot key f fuel n Hroot Hsz Hwf Hf Hfw.
  destruct (searchRecursively_correct mag h tr ot key f fuel n Hroot Hsz Hwf Hf Hfw) as (p & i & Hrun & Hres).
  exists p. unfold G.GetNode. rewrite Hrun. split; [reflexivity|].
  destruct (bget (G.Tree_Comparator tr) f key ot); [eauto|tauto].
Qed.
Print Assumptions GetNode_correct.

(* ---------- Height ---------- *)
Lemma height_loop_spec : forall h pt pp fuel ht, rep h pp pt -> (BT.height (erase pt) <= fuel)%nat ->
  exists q, G.height_loop1 fuel h (Some (paddr pt)) ht = Some (q, ht + Z.of_nat (BT.height (erase pt))).
Proof.
  intros h pt. induction pt as [a es cs IH] using pnode_ind2. intros pp fuel ht Hrep Hf.
  pose proof (rep_deref _ _ _ _ _ Hrep) as Hd. cbn [erase BT.height] in *.
  destruct fuel as [|fuel]; [lia|]. cbn [G.height_loop1 paddr is_nil negb]. rewrite Hd.
  cbn [node_of G.Node_Children]. rewrite sl_len_cptrs. destruct cs as [|c cs'].
  - cbn [length Z.of_nat Z.eqb map]. exists (Some a). f_equal; f_equal; lia.
  - assert (Hz : (Z.of_nat (length (c :: cs')) =? 0) = false) by (cbn [length]; lia). rewrite Hz.
    change 0 with (Z.of_nat 0). rewrite sl_get_nat. cbn [cptrs map nth_error].
    inversion IH as [|? ? IHc _]; subst. cbn [map] in Hf.
    destruct (IHc (Some a) fuel (ht + 1) (rep_child _ _ _ _ _ 0%nat c Hrep eq_refl) ltac:(lia)) as (q & Hq).
    exists q. rewrite Hq. cbn [map]. f_equal; f_equal; lia.
Qed.

Definition bheight (ot : option BT.node) : nat := match ot with None => O | Some t => BT.height t end.

(* OBLIGATION *)
Theorem Height_correct : forall h tr ot fuel,
  root_repr h tr ot -> (bheight ot <= fuel)%nat ->
  G.Height fuel h tr = Some (Z.of_nat (bheight ot)).
Proof.
  intros h tr ot fuel Hroot Hf. unfold G.Height, G.height. destruct ot as [t|]; cbn [root_repr bheight] in *.
  - destruct Hroot as (pt & <- & -> & Hrep & _). destruct (height_loop_spec h pt None fuel 0 Hrep Hf) as (q & ->). reflexivity.
  - rewrite Hroot. destruct fuel; reflexivity.
Qed.
Print Assumptions Height_correct.

(* ---------- Left / Right ---------- *)
(* q is a leaf whose entries are es *)
Definition leaf_with (h : heap G.Node) (q : ptr) (es : list BT.entry) : Prop :=
  exists nd, deref h q = Some nd /\ G.Node_Children nd = [] /\ G.Node_Entries nd = eptrs es.

Fixpoint left_node (t : BT.node) : BT.node :=
  match t with BT.N es cs => match cs with [] => t | c :: _ => left_node c end end.
Lemma left_entry_node : forall t, BT.left_entry t = hd_error (BT.entries (left_node t)).
Proof.
  induction t as [es cs IH] using BTreeInd.node_ind2. cbn [BT.left_entry left_node]. destruct cs as [|c cs']; [reflexivity|].
  inversion IH; subst. assumption.
Qed.

Lemma left_loop_spec : forall (tr : G.Tree) h pt pp fuel nd0, rep h pp pt -> (BT.height (erase pt) <= fuel)%nat ->
  exists q, G.left_loop1 fuel h tr nd0 (Some (paddr pt)) = Some (Some q, q) /\
            leaf_with h q (BT.entries (left_node (erase pt))).
Proof.
  intros tr h pt. induction pt as [a es cs IH] using pnode_ind2. intros pp fuel nd0 Hrep Hf.
  pose proof (rep_deref _ _ _ _ _ Hrep) as Hd. cbn [erase BT.height left_node] in *.
  destruct fuel as [|fuel]; [lia|]. cbn [G.left_loop1 paddr]. rewrite (isLeaf_rep h tr pp a es cs Hrep).
  destruct cs as [|c cs'].
  - cbn [map]. exists (Some a). split; [reflexivity|]. exists (node_of pp es []). repeat split. exact Hd.
  - rewrite Hd. cbn [node_of G.Node_Children].
    change 0 with (Z.of_nat 0). rewrite sl_get_nat. cbn [cptrs map nth_error].
    inversion IH as [|? ? IHc _]; subst. cbn [map] in Hf.
    destruct (IHc (Some a) fuel nd0 (rep_child _ _ _ _ _ 0%nat c Hrep eq_refl) ltac:(lia)) as (q & Hq & Hl).
    exists q. rewrite Hq. split; [reflexivity|exact Hl].
Qed.

Lemma last_opt_map : forall (A B : Type) (g : A -> B) l, BT.last_opt (map g l) = option_map g (BT.last_opt l).
Proof. intros. unfold BT.last_opt. now rewrite map_length, nth_error_map. Qed.

Lemma right_loop_spec : forall (tr : G.Tree) h pt pp f fuel nd0, rep h pp pt ->
  (BT.maxheight (erase pt) <= f)%nat -> (BT.maxheight (erase pt) <= fuel)%nat ->
  exists q, G.right_loop1 fuel h tr nd0 (Some (paddr pt)) = Some (Some q, q) /\
            leaf_with h q (BT.entries (BT.right_node f (erase pt))).
Proof.
  intros tr h pt. induction pt as [a es cs IH] using pnode_ind2. intros pp f fuel nd0 Hrep Hf Hfuel.
  pose proof (rep_deref _ _ _ _ _ Hrep) as Hd. cbn [erase] in *.
  pose proof (BTreeCostProofs.mh_pos (BT.N es (map erase cs))) as Hpos.
  destruct f as [|f]; [lia|]. destruct fuel as [|fuel]; [lia|].
  cbn [G.right_loop1 paddr BT.right_node]. rewrite (isLeaf_rep h tr pp a es cs Hrep), last_opt_map.
  destruct (BT.last_opt cs) as [c|] eqn:El; cbn [option_map].
  - unfold BT.last_opt in El. assert (Hlen : (length cs - 1 < length cs)%nat) by (apply nth_error_Some; congruence).
    assert (Hz : match cs with [] => true | _ => false end = false) by (destruct cs; [cbn [length] in Hlen; lia|reflexivity]). rewrite Hz.
    rewrite Hd. cbn [node_of G.Node_Children]. rewrite sl_len_cptrs.
    replace (Z.of_nat (length cs) - 1) with (Z.of_nat (length cs - 1)) by lia.
    rewrite sl_get_nat, nth_cptrs, El. cbn [option_map].
    assert (Hin : In c cs) by (eapply nth_error_In; eauto).
    pose proof (BTreeMap.maxheight_child es (map erase cs) (erase c) (in_map erase cs c Hin)) as Hmc.
    rewrite Forall_forall in IH.
    destruct (IH c Hin (Some a) f fuel nd0 (rep_child _ _ _ _ _ _ _ Hrep El) ltac:(lia) ltac:(lia)) as (q & Hq & Hl).
    exists q. rewrite Hq. split; [reflexivity|exact Hl].
  - unfold BT.last_opt in El. apply nth_error_None in El. assert (cs = []) by (destruct cs; [reflexivity|cbn [length] in El; lia]). subst cs.
    cbn [map]. exists (Some a). split; [reflexivity|]. exists (node_of pp es []). repeat split. exact Hd.
Qed.

Lemma right_entry_node : forall t, BT.right_entry t = BT.last_opt (BT.entries (BT.right_node (BT.maxheight t) t)).
Proof. reflexivity. Qed.

Lemma height_le_maxheight : forall t, (BT.height t <= BT.maxheight t)%nat.
Proof.
  induction t as [es cs IH] using BTreeInd.node_ind2. destruct cs as [|c cs']; [cbn; lia|]. inversion IH; subst.
  pose proof (BTreeMap.maxheight_child es (c :: cs') c (or_introl eq_refl)). cbn [BT.height]. lia.
Qed.

(* OBLIGATION *)
Theorem Left_Right_correct : forall h tr ot fuel,
  root_repr h tr ot -> size_ok tr ot -> (bmaxheight ot <= fuel)%nat ->
  match ot with
  | None => G.Left fuel h tr = Some None /\ G.Right fuel h tr = Some None
  | Some t =>
    (exists q, G.Left fuel h tr = Some q /\ leaf_with h q (BT.entries (left_node t))) /\
    (exists q, G.Right fuel h tr = Some q /\ leaf_with h q (BT.entries (BT.right_node (BT.maxheight t) t)))
  end.
Proof.
  intros h tr ot fuel Hroot Hsz Hf. unfold G.Left, G.Right, G.left, G.right, G.Empty. rewrite Hsz.
  destruct ot as [t|]; [|split; reflexivity]. destruct Hroot as (pt & <- & -> & Hrep & _). cbn [bmaxheight] in Hf. split.
  - assert (Hh : (BT.height (erase pt) <= fuel)%nat) by (pose proof (height_le_maxheight (erase pt)); lia).
    destruct (left_loop_spec tr h pt None fuel (Some (paddr pt)) Hrep Hh) as (q & -> & Hl). exists q. split; [reflexivity|exact Hl].
  - destruct (right_loop_spec tr h pt None (BT.maxheight (erase pt)) fuel (Some (paddr pt)) Hrep (le_n _) Hf) as (q & -> & Hl).
    exists q. split; [reflexivity|exact Hl].
Qed.
Print Assumptions Left_Right_correct.

Lemma hd_eptrs : forall es, hd_error (eptrs es) = option_map (@Some (Z * Z)) (hd_error es).
Proof. destruct es; reflexivity. Qed.
Lemma sl_get_0 : forall (A : Type) (l : list A), sl_get l 0 = hd_error l.
Proof. intros A l. change 0 with (Z.of_nat 0). rewrite sl_get_nat. now destruct l. Qed.
Lemma sl_get_last : forall (A : Type) (l : list A), sl_get l (sl_len l - 1) = BT.last_opt l.
Proof.
  intros A l. unfold sl_get, sl_len, BT.last_opt. destruct l as [|x l]; [reflexivity|].
  destruct (Z.ltb_spec (Z.of_nat (length (x :: l)) - 1) 0); [cbn [length] in *; lia|]. f_equal. lia.
Qed.

Lemma proj_entry : forall (g : Z * Z -> Z) (o : option (Z * Z)),
  (do x <- option_map (@Some (Z * Z)) o; do c <- x; Some (Some (g c))) = option_map (fun kv => Some (g kv)) o.
Proof. intros g [kv|]; reflexivity. Qed.

(* LeftKey / LeftValue / RightKey / RightValue: nil for the empty tree, else the key / value of the model's left_entry /
   right_entry -- and a PANIC (None) exactly when the model has no such entry (an entry-less leaf) *)
(* OBLIGATION *)
Theorem LeftKey_RightKey_correct : forall h tr ot fuel,
  root_repr h tr ot -> size_ok tr ot -> (bmaxheight ot <= fuel)%nat ->
  match ot with
  | None => G.LeftKey fuel h tr = Some None /\ G.LeftValue fuel h tr = Some None /\
            G.RightKey fuel h tr = Some None /\ G.RightValue fuel h tr = Some None
  | Some t =>
    G.LeftKey fuel h tr = option_map (fun kv => Some (fst kv)) (BT.left_entry t) /\
    G.LeftValue fuel h tr = option_map (fun kv => Some (snd kv)) (BT.left_entry t) /\
    G.RightKey fuel h tr = option_map (fun kv => Some (fst kv)) (BT.right_entry t) /\
    G.RightValue fuel h tr = option_map (fun kv => Some (snd kv)) (BT.right_entry t)
  end.
Proof.
  intros h tr ot fuel Hroot Hsz Hf. pose proof (Left_Right_correct h tr ot fuel Hroot Hsz Hf) as H.
  unfold G.LeftKey, G.LeftValue, G.RightKey, G.RightValue. destruct ot as [t|].
  - destruct H as [(ql & -> & (ndl & Hdl & _ & Hel)) (qr & -> & (ndr & Hdr & _ & Her))].
    rewrite left_entry_node, right_entry_node.
    assert (Hnl : is_nil ql = false) by (destruct ql; [reflexivity|discriminate]).
    assert (Hnr : is_nil qr = false) by (destruct qr; [reflexivity|discriminate]).
    rewrite Hnl, Hnr. cbn [negb]. rewrite Hdl, Hdr, sl_get_0, sl_get_last, Hel, Her, hd_eptrs.
    unfold eptrs. rewrite last_opt_map.
    repeat split; apply proj_entry.
  - destruct H as [-> ->]. repeat split; reflexivity.
Qed.
Print Assumptions LeftKey_RightKey_correct.

(* ---------- sizes ---------- *)
(* OBLIGATION *)
Theorem Node_Size_correct : forall h p pp t fuel,
  brepr h p pp t -> (BT.maxheight t <= fuel)%nat ->
  G.Node_Size fuel h p = Some (Z.of_nat (BT.nodes t)) /\
  (forall fuel', (1 <= fuel')%nat -> G.Node_Size fuel' h None = Some 0).
Proof.
  intros h p pp t fuel (pt & <- & -> & Hrep & _) Hf. split; [|intros [|f'] Hf'; [lia|reflexivity]].
  revert pp fuel Hrep Hf. induction pt as [a es cs IH] using pnode_ind2. intros pp fuel Hrep Hf.
  pose proof (rep_deref _ _ _ _ _ Hrep) as Hd. cbn [erase] in *.
  pose proof (BTreeCostProofs.mh_pos (BT.N es (map erase cs))) as Hpos. destruct fuel as [|fuel]; [lia|].
  cbn [G.Node_Size paddr is_nil]. rewrite Hd. cbn [node_of G.Node_Children BT.nodes].
  assert (Hall : Forall (fun c => G.Node_Size fuel h (Some (paddr c)) = Some (Z.of_nat (BT.nodes (erase c)))) cs).
  { rewrite Forall_forall in *. intros c Hin. destruct (In_nth_error _ _ Hin) as (i & Hi).
    pose proof (BTreeMap.maxheight_child es (map erase cs) (erase c) (in_map erase cs c Hin)) as Hmc.
    apply (IH c Hin (Some a)); [eapply rep_child; eauto|lia]. }
  clear - Hall.
  match goal with |- match ?F (cptrs cs) 1 with _ => _ end = _ =>
    assert (HF : forall l acc, Forall (fun c => G.Node_Size fuel h (Some (paddr c)) = Some (Z.of_nat (BT.nodes (erase c)))) l ->
                 F (cptrs l) acc = Some (acc + Z.of_nat (list_sum (map BT.nodes (map erase l)))))
  end.
  { induction l as [|c l IHl]; intros acc Hl.
    - cbn. f_equal. lia.
    - inversion Hl; subst. cbn [cptrs map]. rewrite H1. fold (cptrs l). rewrite (IHl _ H2). f_equal.
      change (list_sum (BT.nodes (erase c) :: map BT.nodes (map erase l))) with (BT.nodes (erase c) + list_sum (map BT.nodes (map erase l)))%nat. lia. }
  rewrite (HF cs 1 Hall). f_equal. lia.
Qed.
Print Assumptions Node_Size_correct.

(* the header: Size / Empty read the size field; the order-dependent limits are the model's *)
(* OBLIGATION *)
Theorem header_correct : forall h tr ot (m : nat),
  G.Tree_size tr = Z.of_nat (bcount ot) -> G.Tree_m tr = Z.of_nat m -> (1 <= m)%nat ->
  G.Tree_Size h tr = Some (Z.of_nat (bcount ot)) /\
  G.Empty h tr = Some (Nat.eqb (bcount ot) 0) /\
  G.maxChildren h tr = Some (Z.of_nat m) /\
  G.minChildren h tr = Some (Z.of_nat ((m + 1) / 2)) /\
  G.maxEntries h tr = Some (Z.of_nat (BT.maxEntries m)) /\
  G.minEntries h tr = Some (Z.of_nat (BT.minEntries m)) /\
  G.middle h tr = Some (Z.of_nat (BT.middle m)).
Proof.
  intros h tr ot m Hs Hm H1.
  unfold G.Tree_Size, G.Empty, G.maxChildren, G.minChildren, G.maxEntries, G.minEntries, G.middle, G.maxChildren, G.minChildren,
    BT.maxEntries, BT.minEntries, BT.middle.
  rewrite Hs, Hm. rewrite !quot2 by lia.
  assert (E1 : (Z.of_nat m + 1) / 2 = Z.of_nat ((m + 1) / 2)) by (rewrite Nat2Z.inj_div; f_equal; lia).
  assert (E2 : (Z.of_nat m - 1) / 2 = Z.of_nat ((m - 1) / 2)) by (rewrite Nat2Z.inj_div; f_equal; lia).
  assert (E3 : (1 <= (m + 1) / 2)%nat) by (apply Nat.div_le_lower_bound; lia).
  rewrite E1, E2. repeat split; f_equal; lia.
Qed.
Print Assumptions header_correct.

(* OBLIGATION *)
Theorem node_tests_correct : forall h tr p nd es (cs : list ptr) (m : nat),
  deref h p = Some nd -> G.Node_Entries nd = eptrs es -> G.Node_Children nd = cs ->
  G.Tree_m tr = Z.of_nat m -> (1 <= m)%nat ->
  G.isLeaf h tr p = Some (match cs with [] => true | _ => false end) /\
  G.shouldSplit h tr p = Some (BT.maxEntries m <? length es)%nat /\
  G.isFull h tr p = Some (length es =? BT.maxEntries m)%nat.
Proof.
  intros h tr p nd es cs m Hd He Hc Hm H1. unfold G.isLeaf, G.shouldSplit, G.isFull, G.maxEntries, G.maxChildren, BT.maxEntries.
  rewrite Hd, He, Hc, Hm, sl_len_eptrs. repeat split; f_equal.
  - destruct cs; unfold sl_len; cbn [length]; lia.
  - lia.
  - lia.
Qed.
Print Assumptions node_tests_correct.
