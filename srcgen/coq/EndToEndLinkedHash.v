(* END-TO-END COROLLARIES (property C09 of /verif/coq/theories/Properties/C09.v) stated directly about runs of GENERATED code: the
   generated LinkedHashSet / LinkedHashMap code over the generated pointer code of the doubly linked list (LinkedHashSetOverCellsProofs.v,
   LinkedHashMapOverCellsProofs.v), for ALL operation lists from the generated New(); the only hypothesis is the kind of the configuration.
   Values() of the set / Keys() of the map enumerate the current keys in the order in which each was inserted since it was last absent
   (order_spec of the key events of the history); adding / putting a present key never moves it, an absent one goes last, remove + insert
   goes last, removing never disturbs the relative order of the others -- each stated as an equation between two generated runs. *)
From Coq Require Import ZArith List Lia Bool Arith.
From Gods Require Import Common.Cmp Common.ListAux Spec.SeqSpec Spec.SetSpec Model.Ops Model.Lists Model.Machine.
From Gods Require Import Proofs.C05Proofs Proofs.SetsProofs Proofs.LinkedProofs.
From GodsGenProofs Require Import GenIterRun WrapCommon DLLCellsIface.
From GodsGenProofs Require LinkedHashSetOverCellsProofs LinkedHashMapOverCellsProofs.
Import ListNotations.
Local Open Scope Z_scope.

Module SO := LinkedHashSetOverCellsProofs.
Module MO := LinkedHashMapOverCellsProofs.

Definition set_values (ops : list SO.LP.gop) : list Z := SO.L.Values SO.Ip SO.enum_p (SO.gen_run_p ops).
Definition map_keys (ops : list MO.MP.gop) : list Z := MO.M.Keys MO.Ip (MO.gen_run_p ops).
Definition map_get (ops : list MO.MP.gop) (k : Z) : Z * bool := MO.M.Get MO.Ip (MO.gen_run_p ops) k.

Lemma set_values_machine : forall c ops, ckind c = LinkedHashSet -> set_values ops = values_of c (run c (map SO.LP.to_op ops)).
Proof. intros c ops K. destruct (SO.linkedhashset_over_cells_run c K ops) as (d & tbl & ord & _ & _ & _ & _ & _ & _ & OV & _). exact OV. Qed.
Lemma map_keys_machine : forall c ops, ckind c = LinkedHashMap ->
  map_keys ops = keys_of c (run c (map MO.MP.to_op ops)) /\ forall k, obs_pair (map_get ops k) = get_of c (run c (map MO.MP.to_op ops)) k.
Proof. intros c ops K. destruct (MO.linkedhashmap_over_cells_run c K ops) as (d & ord & _ & _ & _ & _ & _ & OK & _ & OG). split; [exact OK|exact OG]. Qed.

Lemma run_next : forall c ops o, run c (ops ++ [o]) = next c (run c ops) o.
Proof. intros c ops o. apply run_snoc. Qed.
Lemma run_next2 : forall c ops a b, run c (ops ++ [a; b]) = next c (next c (run c ops) a) b.
Proof. intros c ops a b. change [a; b] with ([a] ++ [b]). now rewrite app_assoc, !run_next. Qed.

(* OBLIGATION (C09, set) *)
Theorem gen_linkedhashset_order : forall c ops, ckind c = LinkedHashSet ->
  SO.L.ordering SO.Ip (SO.gen_run_p ops) <> None /\
  set_values ops = order_spec (events c (map SO.LP.to_op ops)) /\
  (forall vs, (forall x, In x vs -> In x (set_values ops)) -> set_values (ops ++ [SO.LP.GAdd vs]) = set_values ops) /\
  (forall k, ~ In k (set_values ops) -> set_values (ops ++ [SO.LP.GAdd [k]]) = set_values ops ++ [k]) /\
  (forall k, set_values (ops ++ [SO.LP.GRemove [k]; SO.LP.GAdd [k]]) = filter (fun x => negb (x =? k)) (set_values ops) ++ [k]) /\
  (forall vs, set_values (ops ++ [SO.LP.GRemove vs]) = filter (fun x => negb (existsb (Z.eqb x) vs)) (set_values ops)).
Proof.
  intros c ops K. split.
  { destruct (SO.linkedhashset_over_cells_run c K ops) as (d & tbl & ord & Hd & _). rewrite Hd. discriminate. }
  rewrite !(set_values_machine c _ K). split; [apply C09_order_set_proof, K|].
  split; [|split; [|split]].
  - intros vs H. rewrite (set_values_machine c _ K), map_app. cbn [map SO.LP.to_op]. rewrite run_next.
    apply (C09_add_present_keeps_place_set_proof c _ vs K). exact H.
  - intros k H. rewrite (set_values_machine c _ K), map_app. cbn [map SO.LP.to_op]. rewrite run_next.
    apply (C09_add_absent_goes_last_set_proof c _ k K). exact H.
  - intros k. rewrite (set_values_machine c _ K), map_app. cbn [map SO.LP.to_op]. rewrite run_next2.
    apply (C09_remove_then_insert_last_set_proof c _ k K).
  - intros vs. rewrite (set_values_machine c _ K), map_app. cbn [map SO.LP.to_op]. rewrite run_next.
    apply (C09_remove_preserves_relative_order_set_proof c _ vs K).
Qed.
Print Assumptions gen_linkedhashset_order.

(* OBLIGATION (C09, map) *)
Theorem gen_linkedhashmap_order : forall c ops, ckind c = LinkedHashMap ->
  MO.M.ordering MO.Ip (MO.gen_run_p ops) <> None /\
  map_keys ops = order_spec (events c (map MO.MP.to_op ops)) /\
  (forall k v, (In k (map_keys ops) -> map_keys (ops ++ [MO.MP.GPut k v]) = map_keys ops) /\
               (~ In k (map_keys ops) -> map_keys (ops ++ [MO.MP.GPut k v]) = map_keys ops ++ [k]) /\
               obs_pair (map_get (ops ++ [MO.MP.GPut k v]) k) = oopt (Some v) /\
               (forall k', k' <> k -> obs_pair (map_get (ops ++ [MO.MP.GPut k v]) k') = obs_pair (map_get ops k'))) /\
  (forall k v, map_keys (ops ++ [MO.MP.GRemove k; MO.MP.GPut k v]) = filter (fun x => negb (x =? k)) (map_keys ops) ++ [k]) /\
  (forall k, map_keys (ops ++ [MO.MP.GRemove k]) = filter (fun x => negb (x =? k)) (map_keys ops)).
Proof.
  intros c ops K. split.
  { destruct (MO.linkedhashmap_over_cells_run c K ops) as (d & ord & Hd & _). rewrite Hd. discriminate. }
  destruct (map_keys_machine c ops K) as (HK & HG). rewrite !HK. split; [apply C09_order_map_proof, K|].
  split; [|split].
  - intros k v. destruct (map_keys_machine c (ops ++ [MO.MP.GPut k v]) K) as (HK' & HG'). rewrite HK'.
    rewrite map_app in HK', HG' |- *. cbn [map MO.MP.to_op] in HK', HG' |- *. rewrite run_next in HG' |- *.
    destruct (C09_put_present_keeps_place_map_proof c (map MO.MP.to_op ops) k v K) as (P1 & P2 & P3 & P4).
    split; [exact P1|]. split; [exact P2|]. split; [rewrite HG'; exact P3|]. intros k' Hne. rewrite HG', HG. exact (P4 k' Hne).
  - intros k v. rewrite (proj1 (map_keys_machine c _ K)), map_app. cbn [map MO.MP.to_op]. rewrite run_next2.
    apply (C09_remove_then_insert_last_map_proof c _ k v K).
  - intros k. rewrite (proj1 (map_keys_machine c _ K)), map_app. cbn [map MO.MP.to_op]. rewrite run_next.
    apply (C09_remove_preserves_relative_order_map_proof c _ k K).
Qed.
Print Assumptions gen_linkedhashmap_order.

(* non-vacuity: the generated code (pointer mode list, Go map), run by the kernel *)
Lemma linkedhash_nonvacuous :
  set_values [SO.LP.GAdd [3; 1; 2]; SO.LP.GAdd [1]; SO.LP.GRemove [3]; SO.LP.GAdd [3]] = [1; 2; 3] /\
  map_keys [MO.MP.GPut 3 30; MO.MP.GPut 1 10; MO.MP.GPut 3 31; MO.MP.GRemove 1; MO.MP.GPut 1 11] = [3; 1] /\
  map_get [MO.MP.GPut 3 30; MO.MP.GPut 1 10; MO.MP.GPut 3 31] 3 = (31, true).
Proof. vm_compute. repeat split. Qed.
