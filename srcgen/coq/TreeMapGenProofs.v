(* maps/treemap/treemap.go regenerated over an ABSTRACT red-black tree (GodsGen.TreeMapGen).  The interface is
   instantiated with the machine's model of redblacktree.Tree: a comparator plus an optional (tree, size)
   (None = the Go code panicked; Model/Machine.v rbs_put / rbs_remove / rbs_get, Model/RBTree.v keys / values /
   leftmost / rightmost / floor / ceiling); rbt.New() installs GoCmp.compare.  Each wrapper method equals what
   Machine.step / get_of / keys_of / values_of / size_of do on the StRB state of kind TreeMap. *)
From Coq Require Import ZArith List Lia Bool Arith.
From Gods Require Import Common.Cmp Common.ListAux Spec.SeqSpec Model.Ops Model.Machine.
From Gods Require Model.RBTree.
From Gods Require Import Proofs.C05Proofs.
From GodsGen Require TreeMapGen.
From GodsGenProofs Require Import GenIterRun WrapCommon GoCmp.
From GodsGenProofs Require GoJson.
Import ListNotations.
Local Open Scope Z_scope.

Module M := TreeMapGen.
Module RB := RBTree.

(* the wrapped redblacktree.Tree: its comparator and its content *)
Definition rbtree := (cmpf * option rbs)%type.
Definition on_tree {A} (s : rbtree) (d : A) (f : cmpf -> rbs -> A) : A := match snd s with Some r => f (fst s) r | None => d end.
Definition upd_tree (s : rbtree) (f : cmpf -> rbs -> option rbs) : rbtree * unit :=
  ((fst s, match snd s with Some r => f (fst s) r | None => None end), tt).
Definition node_res (n : node) : node * bool := (n, node_nonnil n).

Definition I : M.tree_iface := M.mk_tree_iface rbtree
  (fun s k => on_tree s (None, false) (fun cmp r => node_res (RB.ceiling cmp k (fst r))))   (* Ceiling(key) *)
  (fun s => upd_tree s (fun _ _ => Some rbs_empty))                                          (* Clear() *)
  (fun s => on_tree s true (fun _ r => snd r =? 0))                                          (* Empty() *)
  (fun s k => on_tree s (None, false) (fun cmp r => node_res (RB.floor cmp k (fst r))))     (* Floor(key) *)
  (fun s d => (s, true))   (* FromJSON(data): placeholder (always an error); the wrappers' delegation is proved for ANY interface *)
  (fun s k => on_tree s (0, false) (fun cmp r => opt_pair (rbs_get cmp k r)))               (* Get(key) *)
  (fun s => on_tree s [] (fun _ r => RB.keys (fst r)))                                      (* Keys() *)
  (fun s => on_tree s None (fun _ r => RB.leftmost (fst r)))                                (* Left() *)
  (fun s k v => upd_tree s (fun cmp r => rbs_put cmp k v r))                                (* Put(key, value) *)
  (fun s k => upd_tree s (fun cmp r => rbs_remove cmp k r))                                 (* Remove(key) *)
  (fun s => on_tree s None (fun _ r => RB.rightmost (fst r)))                               (* Right() *)
  (fun s => on_tree s 0 (fun _ r => snd r))                                                 (* Size() *)
  (fun s => (GoJson.nil_bytes, true))   (* ToJSON(): placeholder *)
  (fun s => on_tree s [] (fun _ r => RB.values (fst r)))                                    (* Values() *)
  (fun s => fst s)                                                                          (* the field Comparator *)
  (GoCmp.compare, Some rbs_empty)                                                           (* redblacktree.New() *)
  (fun cmp => (cmp, Some rbs_empty)).                                                       (* redblacktree.NewWith(cmp) *)

(* the machine state a tree stands for *)
Definition st (s : rbtree) : state := match snd s with Some (t, n) => StRB t n | None => StCrash end.

Module Names.
Import Coq.Strings.String.
(* OBLIGATION *)
Theorem translated_functions :
  M.translated = ["All"; "Any"; "Ceiling"; "Clear"; "Empty"; "Find"; "Floor"; "FromJSON"; "Get"; "Keys"; "Map_Map"; "MarshalJSON"; "Max"; "Min"; "New"; "NewWith"; "Put"; "Remove"; "Select"; "Size"; "ToJSON"; "UnmarshalJSON"; "Values"]%string
  /\ M.skipped = ["Each"; "String"]%string /\ M.not_selected = [].
Proof. repeat split. Qed.
Print Assumptions translated_functions.
End Names.

(* OBLIGATION: New() is NewWith(cmp.Compare): the natural order of the keys *)
Theorem New_equiv : M.tree I (M.New I) = (GoCmp.compare, Some rbs_empty) /\ M.New I = M.NewWith I GoCmp.compare /\
  GoCmp.compare = cmp_of CNat.
Proof. repeat split. Qed.
Print Assumptions New_equiv.

Section Equiv.
Variable c : config.
Hypothesis Hk : ckind c = TreeMap.

(* OBLIGATION *)
Theorem NewWith_equiv : M.tree I (M.NewWith I (kc c)) = (kc c, Some rbs_empty) /\ init c = st (M.tree I (M.NewWith I (kc c))).
Proof. split; [reflexivity|]. unfold init. now rewrite Hk. Qed.

Variable g : M.Map I.
Hypothesis Hcmp : fst (M.tree I g) = kc c.      (* the map was built with the configuration's comparator *)

Ltac open_g := destruct g as [[cmp [[t n]|]]]; cbn [M.tree fst] in Hcmp; subst cmp.

(* OBLIGATION *)
Theorem Put_equiv : forall k v,
  st (M.tree I (fst (M.Put I g k v))) = fst (fst (step c (st (M.tree I g)) (Put k v))) /\
  fst (M.tree I (fst (M.Put I g k v))) = kc c.
Proof.
  intros k v. open_g; unfold M.Put, st, step; cbn; rewrite ?Hk; [|auto].
  destruct (rbs_put (kc c) k v (t, n)) as [[t' n']|]; auto.
Qed.

(* OBLIGATION *)
Theorem Remove_equiv : forall k,
  st (M.tree I (fst (M.Remove I g k))) = fst (fst (step c (st (M.tree I g)) (Remove k))) /\
  fst (M.tree I (fst (M.Remove I g k))) = kc c.
Proof.
  intros k. open_g; unfold M.Remove, st, step; cbn; rewrite ?Hk; [|auto].
  destruct (rbs_remove (kc c) k (t, n)) as [[t' n']|]; auto.
Qed.

(* OBLIGATION *)
Theorem Clear_equiv :
  st (M.tree I (fst (M.Clear I g))) = fst (fst (step c (st (M.tree I g)) Clear)) /\
  fst (M.tree I (fst (M.Clear I g))) = kc c.
Proof. open_g; unfold M.Clear, st, step, init; cbn; rewrite ?Hk; auto. Qed.

(* the observers, on a map that has not crashed *)
Variables (t : RB.tree) (n : Z).
Hypothesis Hst : snd (M.tree I g) = Some (t, n).
Ltac open_g' := destruct g as [[cmp o]]; cbn [M.tree fst snd] in Hcmp, Hst; subst cmp o.

(* OBLIGATION *)
Theorem Get_equiv : forall k, get_of c (StRB t n) k = obs_pair (M.Get I g k).
Proof. intros k. open_g'. unfold get_of, M.Get. cbn. destruct (rbs_get (kc c) k (t, 0)) eqn:E;
  unfold rbs_get in *; cbn [fst] in *; destruct (RB.lookup (kc c) k t) as [[k' v']|]; try discriminate; try reflexivity.
  injection E as <-. reflexivity. Qed.

(* OBLIGATION *)
Theorem Size_equiv : M.Size I g = size_of c (StRB t n) /\ M.Empty I g = (size_of c (StRB t n) =? 0).
Proof. open_g'. split; reflexivity. Qed.

(* OBLIGATION *)
Theorem Keys_Values_equiv : M.Keys I g = keys_of c (StRB t n) /\ M.Values I g = values_of c (StRB t n).
Proof. open_g'. unfold keys_of, entries_of, values_of. rewrite Hk. split; reflexivity. Qed.

Definition triple (o : option (Z * Z)) : Z * Z * bool := match o with Some (k, v) => (k, v, true) | None => (0, 0, false) end.

(* OBLIGATION: Min / Max / Floor / Ceiling are the tree's leftmost / rightmost / floor / ceiling entries *)
Theorem Order_equiv : forall k,
  M.Min I g = triple (RB.leftmost t) /\ M.Max I g = triple (RB.rightmost t) /\
  M.Floor I g k = triple (RB.floor (kc c) k t) /\ M.Ceiling I g k = triple (RB.ceiling (kc c) k t).
Proof.
  intros k. open_g'. unfold M.Min, M.Max, M.Floor, M.Ceiling. cbn -[RB.floor RB.ceiling RB.leftmost RB.rightmost].
  destruct (RB.leftmost t) as [[? ?]|], (RB.rightmost t) as [[? ?]|], (RB.floor (kc c) k t) as [[? ?]|], (RB.ceiling (kc c) k t) as [[? ?]|];
    repeat split; reflexivity.
Qed.
End Equiv.

Print Assumptions NewWith_equiv.
Print Assumptions Put_equiv.
Print Assumptions Remove_equiv.
Print Assumptions Clear_equiv.
Print Assumptions Get_equiv.
Print Assumptions Size_equiv.
Print Assumptions Keys_Values_equiv.
Print Assumptions Order_equiv.

(* ---------- runs ---------- *)
Inductive gop := GPut (k v : Z) | GRemove (k : Z) | GClear.
Definition gen_step (g : M.Map I) (o : gop) : M.Map I :=
  match o with GPut k v => fst (M.Put I g k v) | GRemove k => fst (M.Remove I g k) | GClear => fst (M.Clear I g) end.
Definition gen_run (cmp : cmpf) (ops : list gop) : M.Map I := fold_left gen_step ops (M.NewWith I cmp).
Definition to_op (o : gop) : op := match o with GPut k v => Put k v | GRemove k => Remove k | GClear => Clear end.

(* OBLIGATION *)
Theorem gen_run_simulates : forall c, ckind c = TreeMap -> forall ops,
  run c (map to_op ops) = st (M.tree I (gen_run (kc c) ops)) /\ fst (M.tree I (gen_run (kc c) ops)) = kc c.
Proof.
  intros c Hk ops. induction ops as [|o ops IH] using rev_ind.
  - split; [|reflexivity]. unfold run, run_from. cbn [map fold_left]. exact (proj2 (NewWith_equiv c Hk)).
  - destruct IH as [Hrun Hc]. rewrite map_app. cbn [map]. rewrite run_snoc, Hrun. unfold gen_run. rewrite fold_left_app. cbn [fold_left].
    fold (gen_run (kc c) ops). destruct o as [k v|k|]; cbn [to_op gen_step].
    + destruct (Put_equiv c Hk _ Hc k v) as [H1 H2]. now rewrite H1.
    + destruct (Remove_equiv c Hk _ Hc k) as [H1 H2]. now rewrite H1.
    + destruct (Clear_equiv c Hk _ Hc) as [H1 H2]. now rewrite H1.
Qed.
Print Assumptions gen_run_simulates.
