(* END-TO-END COROLLARIES, property C15 (Properties/C15.v) on the generated TreeMap / TreeSet / TreeBidiMap COMPOSED with the generated
   red-black pointer code (Tree*OverHeapProofs.v): after ANY run of generated operations (Clear included, at any point), Size() is
   not negative, Empty() = (Size() = 0), len(Keys()) = len(Values()) = Size(); after a generated Clear the pointer state represents the
   empty tree = the machine's [init c]; and a run (ops ++ Clear :: more) answers every observer exactly as the run (more) from the
   generated constructor (C15_clear_then_behaves). *)
From Coq Require Import ZArith List Lia Bool Arith.
From Gods Require Import Common.Cmp Model.Ops Model.Machine Model.RBTree.
From Gods Require Proofs.RBInv Proofs.MachineInv.
From GodsGen Require TreeMapGen TreeSetGen TreeBidiMapGen RedBlackTreeHeapGen.
From GodsGenProofs Require Import WrapCommon GoCmp GoTreeHeap RBTreeHeapRep.
From GodsGenProofs Require TreeMapGenProofs TreeSetGenProofs TreeBidiMapGenProofs TreeMapOverHeapProofs TreeSetOverHeapProofs TreeBidiMapOverHeapProofs.
Import ListNotations.
Local Open Scope Z_scope.

Module TMO := TreeMapOverHeapProofs. Module TM := TreeMapGenProofs. Module M := TreeMapGen.
Module TSO := TreeSetOverHeapProofs. Module TS := TreeSetGenProofs. Module T := TreeSetGen.
Module TBO := TreeBidiMapOverHeapProofs. Module TB := TreeBidiMapGenProofs. Module B := TreeBidiMapGen.
Module MI := MachineInv.

Lemma cfg_ok : forall c, ckind c <> BTree -> ckind c <> CircularBuffer -> MI.config_ok c.
Proof. intros c H1 H2. split; intros Q; contradiction. Qed.

(* OBLIGATION *)
Theorem gen_treemap_size_empty_clear : forall mag c ops more, ckind c = TreeMap ->
  let I := TMO.Ip mag in let run_p := TMO.gen_run_p mag (kc c) in
  (0 <= M.Size I (run_p ops) /\ M.Empty I (run_p ops) = (M.Size I (run_p ops) =? 0) /\
   Z.of_nat (length (M.Keys I (run_p ops))) = M.Size I (run_p ops) /\ Z.of_nat (length (M.Values I (run_p ops))) = M.Size I (run_p ops)) /\
  (exists n h tr, M.tree I (run_p (ops ++ [TM.GClear])) = Some (n, h, tr) /\ tree_repr h tr RB.E /\ G.Tree_Comparator tr = kc c /\
     run c (map TM.to_op (ops ++ [TM.GClear])) = init c /\ M.Size I (run_p (ops ++ [TM.GClear])) = 0 /\
     M.Keys I (run_p (ops ++ [TM.GClear])) = [] /\ M.Values I (run_p (ops ++ [TM.GClear])) = []) /\
  (let g1 := run_p (ops ++ TM.GClear :: more) in let g2 := run_p more in
   M.Size I g1 = M.Size I g2 /\ M.Empty I g1 = M.Empty I g2 /\ M.Keys I g1 = M.Keys I g2 /\ M.Values I g1 = M.Values I g2 /\
   forall k, obs_pair (M.Get I g1 k) = obs_pair (M.Get I g2 k)).
Proof.
  intros mag c ops more K I run_p.
  assert (Hc : MI.config_ok c) by (apply cfg_ok; rewrite K; discriminate).
  assert (Hkv : is_kv (ckind c) = true) by (rewrite K; reflexivity).
  split; [|split].
  - destruct (TMO.treemap_over_heap_run mag c K ops) as (n & h & tr & t & _ & _ & _ & _ & _ & _ & _ & O1 & O2 & O3 & O4 & _).
    fold I in O1, O2, O3, O4. fold run_p in O1, O2, O3, O4. rewrite O1, O2, O3, O4.
    split; [apply MI.C15_nonneg; exact Hc|]. split; [reflexivity|].
    split; [symmetry; apply MI.C15_len_keys; assumption|symmetry; apply MI.C15_len_values; exact Hc].
  - destruct (TMO.treemap_over_heap_run mag c K (ops ++ [TM.GClear])) as (n & h & tr & t & Hp & Hs & Hrepr & _ & _ & _ & Hcmp & O1 & _ & O3 & O4 & _).
    assert (E : run c (map TM.to_op (ops ++ [TM.GClear])) = init c).
    { rewrite map_app. cbn [map TM.to_op]. rewrite (MI.C15_clear_then c _ [] Hc). reflexivity. }
    assert (Hinit : init c = StRB RB.E 0) by (unfold init; rewrite K; reflexivity).
    rewrite E, Hinit in Hs. injection Hs as <- Hz. exists n, h, tr. fold I in Hp, O1, O3, O4. fold run_p in Hp, O1, O3, O4.
    split; [exact Hp|]. split; [exact Hrepr|]. split; [exact Hcmp|]. split; [exact E|]. rewrite O1, O3, O4, E, Hinit. cbn. try rewrite K. repeat split; reflexivity.
  - intros g1 g2.
    destruct (TMO.treemap_over_heap_run mag c K (ops ++ TM.GClear :: more)) as (n & h & tr & t & _ & _ & _ & _ & _ & _ & _ & O1 & O2 & O3 & O4 & O5 & _).
    destruct (TMO.treemap_over_heap_run mag c K more) as (n' & h' & tr' & t' & _ & _ & _ & _ & _ & _ & _ & P1 & P2 & P3 & P4 & P5 & _).
    rewrite map_app in O1, O2, O3, O4, O5. cbn [map TM.to_op] in O1, O2, O3, O4, O5. rewrite (MI.C15_clear_then c _ _ Hc) in O1, O2, O3, O4, O5.
    fold I in O1, O2, O3, O4, O5, P1, P2, P3, P4, P5. fold run_p in O1, O2, O3, O4, O5, P1, P2, P3, P4, P5. fold g1 in O1, O2, O3, O4, O5. fold g2 in P1, P2, P3, P4, P5.
    rewrite O1, O2, O3, O4, P1, P2, P3, P4. repeat split. intro k. rewrite O5, P5. reflexivity.
Qed.
Print Assumptions gen_treemap_size_empty_clear.

(* OBLIGATION *)
Theorem gen_treeset_size_empty_clear : forall mag c ops more, ckind c = TreeSet ->
  let I := TSO.Ip mag in let run_p := TSO.gen_run_p mag (kc c) in
  (0 <= T.Size I (run_p ops) /\ T.Empty I (run_p ops) = (T.Size I (run_p ops) =? 0) /\
   Z.of_nat (length (T.Values I (run_p ops))) = T.Size I (run_p ops)) /\
  (exists n h tr, T.tree I (run_p (ops ++ [TS.GClear])) = Some (n, h, tr) /\ tree_repr h tr RB.E /\ G.Tree_Comparator tr = kc c /\
     run c (map TS.to_op (ops ++ [TS.GClear])) = init c /\ T.Size I (run_p (ops ++ [TS.GClear])) = 0 /\ T.Values I (run_p (ops ++ [TS.GClear])) = []) /\
  (let g1 := run_p (ops ++ TS.GClear :: more) in let g2 := run_p more in
   T.Size I g1 = T.Size I g2 /\ T.Empty I g1 = T.Empty I g2 /\ T.Values I g1 = T.Values I g2 /\
   forall vs, T.Contains I g1 vs = T.Contains I g2 vs).
Proof.
  intros mag c ops more K I run_p.
  assert (Hc : MI.config_ok c) by (apply cfg_ok; rewrite K; discriminate).
  split; [|split].
  - destruct (TSO.treeset_over_heap_run mag c K ops) as (n & h & tr & t & _ & _ & _ & _ & _ & _ & _ & O1 & O2 & O3 & _).
    fold I in O1, O2, O3. fold run_p in O1, O2, O3. rewrite O1, O2, O3.
    split; [apply MI.C15_nonneg; exact Hc|]. split; [reflexivity|symmetry; apply MI.C15_len_values; exact Hc].
  - destruct (TSO.treeset_over_heap_run mag c K (ops ++ [TS.GClear])) as (n & h & tr & t & Hp & Hs & Hrepr & _ & _ & _ & Hcmp & O1 & _ & O3 & _).
    assert (E : run c (map TS.to_op (ops ++ [TS.GClear])) = init c).
    { rewrite map_app. cbn [map TS.to_op]. rewrite (MI.C15_clear_then c _ [] Hc). reflexivity. }
    assert (Hinit : init c = StRB RB.E 0) by (unfold init; rewrite K; reflexivity).
    rewrite E, Hinit in Hs. injection Hs as <- Hz. exists n, h, tr. fold I in Hp, O1, O3. fold run_p in Hp, O1, O3.
    split; [exact Hp|]. split; [exact Hrepr|]. split; [exact Hcmp|]. split; [exact E|]. rewrite O1, O3, E, Hinit. cbn [size_of values_of]. rewrite K. repeat split.
  - intros g1 g2.
    destruct (TSO.treeset_over_heap_run mag c K (ops ++ TS.GClear :: more)) as (n & h & tr & t & _ & _ & _ & _ & _ & _ & _ & O1 & O2 & O3 & O4).
    destruct (TSO.treeset_over_heap_run mag c K more) as (n' & h' & tr' & t' & _ & _ & _ & _ & _ & _ & _ & P1 & P2 & P3 & P4).
    rewrite map_app in O1, O2, O3, O4. cbn [map TS.to_op] in O1, O2, O3, O4. rewrite (MI.C15_clear_then c _ _ Hc) in O1, O2, O3, O4.
    fold I in O1, O2, O3, O4, P1, P2, P3, P4. fold run_p in O1, O2, O3, O4, P1, P2, P3, P4. fold g1 in O1, O2, O3, O4. fold g2 in P1, P2, P3, P4.
    rewrite O1, O2, O3, P1, P2, P3. repeat split. intro vs. specialize (O4 vs). specialize (P4 vs). rewrite <- P4 in O4.
    destruct (T.Contains I g1 vs), (T.Contains I g2 vs); try reflexivity; discriminate O4.
Qed.
Print Assumptions gen_treeset_size_empty_clear.

(* OBLIGATION *)
Theorem gen_treebidimap_size_empty_clear : forall mag c ops more, ckind c = TreeBidiMap ->
  let IF := TBO.IFp mag in let II := TBO.IIp mag in let run_p := TBO.gen_run_p mag (kc c) (vc c) in
  (0 <= B.Size IF II (run_p ops) /\ B.Empty IF II (run_p ops) = (B.Size IF II (run_p ops) =? 0) /\
   Z.of_nat (length (B.Keys IF II (run_p ops))) = B.Size IF II (run_p ops) /\ Z.of_nat (length (B.Values IF II (run_p ops))) = B.Size IF II (run_p ops)) /\
  (exists nf hf trf ni hi tri, B.forwardMap IF II (run_p (ops ++ [TB.GClear])) = Some (nf, hf, trf) /\ B.inverseMap IF II (run_p (ops ++ [TB.GClear])) = Some (ni, hi, tri) /\
     tree_repr hf trf RB.E /\ tree_repr hi tri RB.E /\ G.Tree_Comparator trf = kc c /\ G.Tree_Comparator tri = vc c /\
     run c (map TB.to_op (ops ++ [TB.GClear])) = init c /\ B.Size IF II (run_p (ops ++ [TB.GClear])) = 0 /\
     B.Keys IF II (run_p (ops ++ [TB.GClear])) = [] /\ B.Values IF II (run_p (ops ++ [TB.GClear])) = []) /\
  (let g1 := run_p (ops ++ TB.GClear :: more) in let g2 := run_p more in
   B.Size IF II g1 = B.Size IF II g2 /\ B.Empty IF II g1 = B.Empty IF II g2 /\ B.Keys IF II g1 = B.Keys IF II g2 /\ B.Values IF II g1 = B.Values IF II g2 /\
   forall k, obs_pair (B.Get IF II g1 k) = obs_pair (B.Get IF II g2 k) /\ obs_pair (B.GetKey IF II g1 k) = obs_pair (B.GetKey IF II g2 k)).
Proof.
  intros mag c ops more K IF II run_p.
  assert (Hc : MI.config_ok c) by (apply cfg_ok; rewrite K; discriminate).
  assert (Hkv : is_kv (ckind c) = true) by (rewrite K; reflexivity).
  split; [|split].
  - destruct (TBO.treebidimap_over_heap_run mag c K ops) as (nf & hf & trf & f & ni & hi & tri & i & _ & _ & _ & _ & _ & _ & _ & _ & _ & _ & _ & _ & _ & O1 & O2 & O3 & O4 & _).
    fold IF in O1, O2, O3, O4. fold II in O1, O2, O3, O4. fold run_p in O1, O2, O3, O4. rewrite O1, O2, O3, O4.
    split; [apply MI.C15_nonneg; exact Hc|]. split; [reflexivity|].
    split; [symmetry; apply MI.C15_len_keys; assumption|symmetry; apply MI.C15_len_values; exact Hc].
  - destruct (TBO.treebidimap_over_heap_run mag c K (ops ++ [TB.GClear])) as (nf & hf & trf & f & ni & hi & tri & i & Hpf & Hpi & Hs & Hrf & _ & _ & _ & Hcf & Hri & _ & _ & _ & Hci & O1 & _ & O3 & O4 & _).
    assert (E : run c (map TB.to_op (ops ++ [TB.GClear])) = init c).
    { rewrite map_app. cbn [map TB.to_op]. rewrite (MI.C15_clear_then c _ [] Hc). reflexivity. }
    assert (Hinit : init c = StTBidi RB.E 0 RB.E 0) by (unfold init; rewrite K; reflexivity).
    rewrite E, Hinit in Hs. injection Hs as <- Hz <- Hz'. exists nf, hf, trf, ni, hi, tri.
    fold IF in Hpf, Hpi, O1, O3, O4. fold II in Hpf, Hpi, O1, O3, O4. fold run_p in Hpf, Hpi, O1, O3, O4.
    split; [exact Hpf|]. split; [exact Hpi|]. split; [exact Hrf|]. split; [exact Hri|]. split; [exact Hcf|]. split; [exact Hci|]. split; [exact E|].
    rewrite O1, O3, O4, E, Hinit. cbn. try rewrite K. repeat split; reflexivity.
  - intros g1 g2.
    destruct (TBO.treebidimap_over_heap_run mag c K (ops ++ TB.GClear :: more)) as (nf & hf & trf & f & ni & hi & tri & i & _ & _ & _ & _ & _ & _ & _ & _ & _ & _ & _ & _ & _ & O1 & O2 & O3 & O4 & O5).
    destruct (TBO.treebidimap_over_heap_run mag c K more) as (nf' & hf' & trf' & f' & ni' & hi' & tri' & i' & _ & _ & _ & _ & _ & _ & _ & _ & _ & _ & _ & _ & _ & P1 & P2 & P3 & P4 & P5).
    rewrite map_app in O1, O2, O3, O4, O5. cbn [map TB.to_op] in O1, O2, O3, O4, O5. rewrite (MI.C15_clear_then c _ _ Hc) in O1, O2, O3, O4, O5.
    fold IF in O1, O2, O3, O4, O5, P1, P2, P3, P4, P5. fold II in O1, O2, O3, O4, O5, P1, P2, P3, P4, P5. fold run_p in O1, O2, O3, O4, O5, P1, P2, P3, P4, P5.
    fold g1 in O1, O2, O3, O4, O5. fold g2 in P1, P2, P3, P4, P5.
    rewrite O1, O2, O3, O4, P1, P2, P3, P4. repeat split; [rewrite (proj1 (O5 k)), (proj1 (P5 k))|rewrite (proj2 (O5 k)), (proj2 (P5 k))]; reflexivity.
Qed.
Print Assumptions gen_treebidimap_size_empty_clear.

(* a concrete run (an Example; keyword Lemma so that run.py can isolate it): a TreeSet over the pointer code, cleared in the middle *)
Definition c15_mag : Z -> Z -> positive := fun _ _ => 1%positive.
Definition c15_cfg : config := {| ckind := TreeSet; kcmp := CNat; vcmp := CNat; ccap := 0; corder := 3; cuni := 6 |}.
Lemma ex_treeset_c15_generated_run :
  let I := TSO.Ip c15_mag in let run_p := TSO.gen_run_p c15_mag (kc c15_cfg) in
  let ops := [TS.GAdd [5; 1; 3]; TS.GRemove [1]; TS.GAdd [9]] in let more := [TS.GAdd [4; 2; 4]] in
  (T.Size I (run_p ops), T.Empty I (run_p ops), T.Values I (run_p ops),
   T.Size I (run_p (ops ++ [TS.GClear])), T.Empty I (run_p (ops ++ [TS.GClear])),
   T.Values I (run_p (ops ++ TS.GClear :: more)), T.Values I (run_p more), T.Contains I (run_p (ops ++ TS.GClear :: more)) [5]) =
  (3, false, [3; 5; 9], 0, true, [2; 4], [2; 4], false).
Proof. vm_compute. reflexivity. Qed.
