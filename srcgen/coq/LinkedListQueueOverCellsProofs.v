(* COMPOSITION: queues/linkedlistqueue/linkedlistqueue.go regenerated over an abstract list (GodsGen.LinkedListQueueWrapGen, proved
   against the machine in LinkedListQueueWrapProofs.v with the interface instantiated by the sequence MODEL) is here instantiated with
   the GENERATED POINTER CODE of lists/singlylinkedlist/singlylinkedlist.go (SLLCellsIface.v); the initial state is computed by the
   GENERATED constructor (GodsGen.LinkedListQueueNewGen.New over the generated singlylinkedlist.New).
   [linkedlistqueue_over_cells_run]: after ANY run of generated Enqueue / Dequeue / Clear over the generated cell code the list state is not
   None (no nil dereference, no fuel exhaustion), its heap represents the sequence of Machine.run for kind LinkedListQueue, and
   Size / Empty / Values / Peek and the result of the next Dequeue are the machine's.  (FromJSON / ToJSON of the interface: placeholders,
   see SLLCellsIface.v; no run uses them.) *)
From Coq Require Import ZArith List Lia Bool Arith.
From Gods Require Import Common.Cmp Common.ListAux Spec.SeqSpec Model.Ops Model.Lists Model.Machine Model.LinkedCells Proofs.LinkedCellsProofs.
From GodsGen Require LinkedListQueueWrapGen LinkedListQueueNewGen.
From GodsGenProofs Require Import GenIterRun WrapCommon SLLCellsIface.
From GodsGenProofs Require GoJson LinkedListQueueWrapProofs.
Import ListNotations.
Local Open Scope Z_scope.

Module W := LinkedListQueueWrapGen.
Module WP := LinkedListQueueWrapProofs.
Module N := LinkedListQueueNewGen.

Definition Ip : W.list_iface := W.mk_list_iface pstate
  p_Add p_Append p_Clear p_Empty
  (fun s d => (s, true))                   (* FromJSON: placeholder (not in the generated cells unit) *)
  p_Get p_Prepend p_Remove p_Size
  (fun s => (GoJson.nil_bytes, true))      (* ToJSON: placeholder *)
  p_Values.
Definition Np : N.list_iface := N.mk_list_iface pstate p_New.
Definition new_p : W.Queue Ip := W.mkQueue Ip (N.list_ Np (N.New Np)).

Definition SR (gp : W.Queue Ip) (gm : W.Queue WP.I) : Prop := R (W.list_ Ip gp) (W.list_ WP.I gm).

Section Rel.
Variables (gp : W.Queue Ip) (gm : W.Queue WP.I).
Hypothesis HR : SR gp gm.

Lemma observers_rel' : W.Size Ip gp = W.Size WP.I gm /\ W.Empty Ip gp = W.Empty WP.I gm /\ W.Values Ip gp = W.Values WP.I gm /\
  W.Peek Ip gp = W.Peek WP.I gm.
Proof.
  destruct gp as [ps], gm as [l]. unfold SR in HR. cbn [W.list_] in HR. destruct (observers_rel ps l HR 0) as (O1 & O2 & O3 & O4).
  unfold W.Size, W.Empty, W.Values, W.Peek. cbn [W.list_ W.list_Size W.list_Empty W.list_Values W.list_Get Ip WP.I].
  rewrite O1, O2, O3, O4. repeat split.
Qed.
Lemma Enqueue_rel : forall v, SR (fst (W.Enqueue Ip gp v)) (fst (W.Enqueue WP.I gm v)).
Proof. intros v. destruct gp as [ps], gm as [l]. exact (Add_rel ps l [v] HR). Qed.
Lemma Clear_rel' : SR (fst (W.Clear Ip gp)) (fst (W.Clear WP.I gm)).
Proof. destruct gp as [ps], gm as [l]. exact (Clear_rel ps l HR). Qed.
Lemma Dequeue_rel : SR (fst (W.Dequeue Ip gp)) (fst (W.Dequeue WP.I gm)) /\ snd (W.Dequeue Ip gp) = snd (W.Dequeue WP.I gm).
Proof.
  destruct gp as [ps], gm as [l]. unfold SR in HR. cbn [W.list_] in HR. unfold W.Dequeue.
  cbn [W.list_ W.list_Get W.list_Remove Ip WP.I]. rewrite (proj1 (observers_rel ps l HR 0)).
  destruct (opt_pair (sll_get 0 l)) as [v ok]. pose proof (Remove_rel ps l 0 HR) as H.
  destruct (p_Remove ps 0) as [ps' u]. destruct ok; cbn [fst snd] in *; (split; [|reflexivity]); [exact H|exact HR].
Qed.
End Rel.

Definition gen_step_p (g : W.Queue Ip) (o : WP.gop) : W.Queue Ip :=
  match o with
  | WP.GEnqueue v => fst (W.Enqueue Ip g v)
  | WP.GDequeue => fst (W.Dequeue Ip g)
  | WP.GClear => fst (W.Clear Ip g)
  end.
Definition gen_run_p (ops : list WP.gop) : W.Queue Ip := fold_left gen_step_p ops new_p.

Lemma gen_run_rel : forall ops, SR (gen_run_p ops) (WP.gen_run (W.mkQueue WP.I []) ops).
Proof.
  intros ops. induction ops as [|o ops IH] using rev_ind; [exact New_rel|].
  unfold gen_run_p, WP.gen_run. rewrite !fold_left_app. cbn [fold_left]. fold (gen_run_p ops) (WP.gen_run (W.mkQueue WP.I []) ops).
  destruct o as [v| |]; cbn [gen_step_p WP.gen_step]; [apply Enqueue_rel|apply Dequeue_rel|apply Clear_rel']; exact IH.
Qed.

(* OBLIGATION *)
Theorem linkedlistqueue_over_cells_run : forall c, ckind c = LinkedListQueue -> forall ops,
  let gp := gen_run_p ops in
  let s := run c (map WP.to_op ops) in
  exists d l, W.list_ Ip gp = Some d /\ s = StSeq l /\ repr_sll d l /\
    W.Size Ip gp = size_of c s /\ W.Empty Ip gp = (size_of c s =? 0) /\ W.Values Ip gp = values_of c s /\
    obs_pair (W.Peek Ip gp) = peek_of c s /\ obs_pair (snd (W.Dequeue Ip gp)) = snd (fst (step c s Dequeue)).
Proof.
  intros c Hk ops gp s. pose proof (gen_run_rel ops) as HR. fold gp in HR.
  set (gm := WP.gen_run (W.mkQueue WP.I []) ops) in *.
  assert (Hrun : s = StSeq (W.list_ WP.I gm)) by (apply (WP.gen_run_simulates c _ Hk); reflexivity).
  pose proof HR as (d & Hd & Hrep). exists d, (W.list_ WP.I gm). split; [exact Hd|]. split; [exact Hrun|]. split; [exact Hrep|].
  destruct (observers_rel' _ _ HR) as (O1 & O2 & O3 & O4). rewrite Hrun, O1, O2, O3, O4, (proj2 (Dequeue_rel _ _ HR)).
  rewrite (WP.Dequeue_equiv c Hk). cbn [fst snd].
  split; [apply WP.Size_equiv|]. split; [apply WP.Empty_equiv|]. split; [apply (WP.Values_equiv c Hk)|].
  split; [symmetry; apply (WP.Peek_equiv c Hk)|reflexivity].
Qed.
Print Assumptions linkedlistqueue_over_cells_run.
