(* containers/containers.go regenerated (GodsGen.ContainersGen): GetSortedValues / GetSortedValuesFunc over an ABSTRACT
   container (the interface type Container[T]: only Values() is called) with slices.Sort / slices.SortFunc ABSTRACT
   (sort_slice, sort_slice_func: parameters of the generated functions).  For ANY container and ANY sorting functions:
   the result is Values() itself when there are fewer than two values, otherwise the sorted slice; if the sorting
   function returns a sorted permutation (all that Go promises of the unstable pdqsort), so does GetSortedValues*:
   the acceptance test sort_okb of the machine (op SortedValuesFunc); and with insertion sort as the witness the
   result is the machine's observation for op SortedValues.  The container is not changed (the functions return
   only the slice; that Values() hands out a fresh slice is the whitelisted assumption FreshValues). *)
From Coq Require Import ZArith List Lia Bool Sorted Permutation.
From Gods Require Import Common.Cmp Common.ListAux Spec.SeqSpec Model.Ops Model.Machine Proofs.ListsProofs Proofs.C06Proofs.
From GodsGen Require ContainersGen.
From GodsGenProofs Require GoCmp.
Import ListNotations.
Local Open Scope Z_scope.

Module C := ContainersGen.

Module Names.
Import Coq.Strings.String.
(* OBLIGATION *)
Theorem translated_functions :
  C.translated = ["GetSortedValues"; "GetSortedValuesFunc"]%string /\ C.skipped = [] /\ C.not_selected = [].
Proof. repeat split. Qed.
Print Assumptions translated_functions.
End Names.

Section AnyContainer.
Variable sort : list Z -> list Z.
Variable sortf : cmpf -> list Z -> list Z.
Variable J : C.Container_iface.
Notation vals x := (C.Container_Values J x).

(* OBLIGATION *)
Theorem GetSortedValues_equiv : forall x cmp,
  C.GetSortedValues sort J x = (if zlen (vals x) <? 2 then vals x else sort (vals x)) /\
  C.GetSortedValuesFunc sortf J x cmp = (if zlen (vals x) <? 2 then vals x else sortf cmp (vals x)).
Proof. intros x cmp. split; reflexivity. Qed.

Lemma short_sorted : forall cmp (l : list Z), zlen l < 2 -> sort_okb cmp l l = true.
Proof.
  intros cmp l H. apply sort_okb_complete; [|apply Permutation_refl].
  destruct l as [|a [|b l]]; [constructor|constructor; constructor|unfold zlen in H; cbn [length] in H; lia].
Qed.

(* OBLIGATION: a sorting function that returns a sorted permutation makes GetSortedValues* return one *)
Theorem GetSortedValues_sorted : forall x cmp,
  (forall l, sort_okb Z.compare l (sort l) = true) -> (forall l, sort_okb cmp l (sortf cmp l) = true) ->
  sort_okb Z.compare (vals x) (C.GetSortedValues sort J x) = true /\
  sort_okb cmp (vals x) (C.GetSortedValuesFunc sortf J x cmp) = true.
Proof.
  intros x cmp H1 H2. destruct (GetSortedValues_equiv x cmp) as [-> ->].
  destruct (Z.ltb_spec (zlen (vals x)) 2); split; try apply short_sorted; auto.
Qed.
End AnyContainer.
Print Assumptions GetSortedValues_equiv.
Print Assumptions GetSortedValues_sorted.

Lemma isort_short : forall cmp (l : list Z), zlen l < 2 -> isort cmp l = l.
Proof. intros cmp [|a [|b l]] H; [reflexivity|reflexivity|unfold zlen in H; cbn [length] in H; lia]. Qed.

(* OBLIGATION: with insertion sort as the sorting function, on the values of a machine state: the observations of the
   machine's ops SortedValues / SortedValuesFunc *)
Theorem GetSortedValues_machine : forall c s ci, s <> StCrash ->
  let J := C.mk_Container_iface state (values_of c) in
  snd (fst (step c s SortedValues)) = ozs (C.GetSortedValues (isort Z.compare) J s) /\
  snd (fst (step c s (SortedValuesFunc ci (C.GetSortedValuesFunc isort J s (cmp_of ci))))) = obool true.
Proof.
  intros c s ci Hs J. split.
  - unfold C.GetSortedValues. cbn [C.Container_Values J].
    destruct (Z.ltb_spec (Z.of_nat (length (values_of c s))) 2) as [H|H]; [|destruct s; try reflexivity; congruence].
    pose proof (isort_short Z.compare (values_of c s) H) as E. destruct s; try congruence; cbn [step fst snd pure]; rewrite E; reflexivity.
  - assert (E : sort_okb (cmp_of ci) (values_of c s) (C.GetSortedValuesFunc isort J s (cmp_of ci)) = true).
    { apply (proj2 (GetSortedValues_sorted (isort Z.compare) isort J s (cmp_of ci)
               (fun l => isort_ok Z.compare (c06_cmp_of_SWO CNat) l)
               (fun l => isort_ok (cmp_of ci) (c06_cmp_of_SWO ci) l))). }
    destruct s; try congruence; cbn [step fst snd pure]; rewrite E; reflexivity.
Qed.
Print Assumptions GetSortedValues_machine.
