(* The constructors of the five thin wrappers (arraystack, arrayqueue, linkedliststack, linkedlistqueue: New;
   priorityqueue: New, NewWith), regenerated over an interface that consists of the wrapped package's constructor
   (GodsGen.*NewGen).  For ANY such constructor: New() is the struct around <wrapped>.New() with no values (resp.
   binaryheap.NewWith(comparator), and New() = NewWith(cmp.Compare)); instantiated with the model's constructors
   (al_add vs [] / sll_add vs [] / the empty heap) the new container is the machine's initial state init c. *)
From Coq Require Import ZArith List Bool.
From Gods Require Import Common.Cmp Common.ListAux Spec.SeqSpec Model.Ops Model.Lists Model.Machine.
From GodsGen Require ArrayStackNewGen ArrayQueueNewGen LinkedListStackNewGen LinkedListQueueNewGen PriorityQueueNewGen.
From GodsGenProofs Require GoCmp.
Import ListNotations.
Local Open Scope Z_scope.

Module AS := ArrayStackNewGen.
Module AQ := ArrayQueueNewGen.
Module LS := LinkedListStackNewGen.
Module LQ := LinkedListQueueNewGen.
Module PQ := PriorityQueueNewGen.

Module Names.
Import Coq.Strings.String.
(* OBLIGATION *)
Theorem translated_functions :
  AS.translated = ["New"]%string /\ AQ.translated = ["New"]%string /\ LS.translated = ["New"]%string /\ LQ.translated = ["New"]%string /\
  PQ.translated = ["New"; "NewWith"]%string /\
  AS.skipped = [] /\ AQ.skipped = [] /\ LS.skipped = [] /\ LQ.skipped = [] /\ PQ.skipped = [].
Proof. repeat split. Qed.
Print Assumptions translated_functions.
End Names.

(* OBLIGATION: for any wrapped constructor *)
Theorem New_any : (forall I, AS.New I = AS.mkStack I (AS.list_pkg_New I [])) /\ (forall I, AQ.New I = AQ.mkQueue I (AQ.list_pkg_New I [])) /\
  (forall I, LS.New I = LS.mkStack I (LS.list_pkg_New I [])) /\ (forall I, LQ.New I = LQ.mkQueue I (LQ.list_pkg_New I [])) /\
  (forall I cmp, PQ.NewWith I cmp = PQ.mkQueue I (PQ.heap_pkg_NewWith I cmp) cmp) /\ (forall I, PQ.New I = PQ.NewWith I GoCmp.compare).
Proof. repeat split. Qed.
Print Assumptions New_any.

(* the wrapped constructors as the models have them *)
Definition IAS : AS.list_iface := AS.mk_list_iface (list Z) (fun vs => al_add vs []).
Definition IAQ : AQ.list_iface := AQ.mk_list_iface (list Z) (fun vs => al_add vs []).
Definition ILS : LS.list_iface := LS.mk_list_iface (list Z) (fun vs => sll_add vs []).
Definition ILQ : LQ.list_iface := LQ.mk_list_iface (list Z) (fun vs => sll_add vs []).
Definition IPQ : PQ.heap_iface := PQ.mk_heap_iface (list Z) (fun _ => []).

(* OBLIGATION: the new container is the machine's initial state *)
Theorem New_is_init : forall c,
  (ckind c = ArrayStack -> init c = StSeq (AS.list_ IAS (AS.New IAS))) /\
  (ckind c = ArrayQueue -> init c = StSeq (AQ.list_ IAQ (AQ.New IAQ))) /\
  (ckind c = LinkedListStack -> init c = StSeq (LS.list_ ILS (LS.New ILS))) /\
  (ckind c = LinkedListQueue -> init c = StSeq (LQ.list_ ILQ (LQ.New ILQ))) /\
  (ckind c = PriorityQueue -> init c = StHeap (PQ.heap IPQ (PQ.NewWith IPQ (kc c))) /\ PQ.Comparator IPQ (PQ.NewWith IPQ (kc c)) = kc c).
Proof.
  intros c. unfold init. split; [intros ->; reflexivity|]. split; [intros ->; reflexivity|]. split; [intros ->; reflexivity|].
  split; [intros ->; reflexivity|]. intros ->. split; reflexivity.
Qed.
Print Assumptions New_is_init.
