(* queues/circularbuffer/serialization.go (in GodsGen.RingGen), encoding/json abstract: FromJSON is atomic on a decode error
   and otherwise Clear, then Enqueue of every decoded value in document order (Machine.load_array: ring_enqs from the
   cleared ring); ToJSON marshals Values() (the live elements in FIFO order, not the raw slots). *)
From Coq Require Import ZArith List Lia Bool Arith.
From Gods Require Import Common.Cmp Common.ListAux Spec.SeqSpec Model.Ops Model.Ring Model.Machine.
From Gods Require Import Proofs.RingProofs Proofs.C05Proofs.
From GodsGen Require RingGen.
From GodsGenProofs Require Import GenIterRun WrapCommon GoJson RingGenProofs.
Import ListNotations.

Section Json.
Variable um : bytes -> list Z -> list Z * bool.
Variable ms : list Z -> bytes * bool.

Lemma enqueue_fold : forall vs g r, ring_rel g r -> ring_inv r ->
  ring_rel (fold_left (fun g v => fst (G.Enqueue g v)) vs g) (ring_enqs vs r) /\ ring_inv (ring_enqs vs r).
Proof.
  induction vs as [|v vs IH]; intros g r Hrel Hinv; cbn [fold_left ring_enqs]; [auto|].
  apply IH; [now apply Enqueue_equiv|now apply renq_inv].
Qed.

(* OBLIGATION *)
Theorem FromJSON_equiv : forall g r data, ring_rel g r -> ring_inv r ->
  if snd (um data []) then G.FromJSON um g data = (g, true)
  else ring_rel (fst (G.FromJSON um g data)) (ring_enqs (fst (um data [])) (rclear r)) /\ snd (G.FromJSON um g data) = false.
Proof.
  intros g r data Hrel Hinv. unfold G.FromJSON. destruct (um data []) as [vs e]. destruct e; cbn [fst snd negb]; [reflexivity|].
  split; [|reflexivity].
  pose proof (Clear_equiv g r Hrel) as HC. destruct (G.Clear g) as [g1 u1]. cbn [fst] in *.
  match goal with |- context [fold_left ?B _ g1] =>
    rewrite (fold_left_ext_in _ _ B (fun g i => (fun g v => fst (G.Enqueue g v)) g (get vs (Z.to_nat i))))
      by (intros a i _; destruct (G.Enqueue a (get vs (Z.to_nat i))); reflexivity) end.
  rewrite (range_fold G.Queue (fun g v => fst (G.Enqueue g v)) vs g1).
  apply enqueue_fold; [exact HC|now apply rclear_inv].
Qed.

(* the model loads from the initial ring of the same capacity *)
Lemma load_array_ring : forall c r vs, ckind c = CircularBuffer -> (1 <= ccap c)%Z -> rmax r = Z.to_nat (ccap c) ->
  load_array c vs = StRing (ring_enqs vs (rclear r)).
Proof.
  intros c r vs Hk Hcap Hm. unfold load_array, init. rewrite Hk.
  destruct (Z.ltb_spec (ccap c) 1); [lia|]. unfold rclear. now rewrite Hm.
Qed.

(* OBLIGATION *)
Theorem ToJSON_equiv : forall g r, ring_rel g r ->
  G.ToJSON ms g = ms (rvalues r) /\ G.MarshalJSON ms g = G.ToJSON ms g /\
  (forall data, G.UnmarshalJSON um g data = G.FromJSON um g data).
Proof.
  intros g r Hrel. unfold G.ToJSON, G.MarshalJSON, G.UnmarshalJSON. rewrite (Values_equiv g r Hrel). repeat split.
  - now destruct (ms (rvalues r)).
  - unfold G.ToJSON. rewrite (Values_equiv g r Hrel). now destruct (ms (rvalues r)).
  - intros data. now destruct (G.FromJSON um g data).
Qed.
End Json.

Print Assumptions FromJSON_equiv.
Print Assumptions ToJSON_equiv.
