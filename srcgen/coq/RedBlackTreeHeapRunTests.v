(* NOT PROOFS FOR ALL INPUTS: concrete runs of the GENERATED Put / Remove (with insertCase1..5, deleteCase1..6, the rotations,
   replaceNode, maximumNode -- GodsGen.RedBlackTreeHeapGen) evaluated INSIDE Coq (vm_compute) and compared, after every
   operation, with the functional model RB.put / RB.remove (Model/RBTree.v): the heap reachable from Tree.Root is read back
   (keys, values, COLOURS, shape), every Parent pointer is checked against the node it was reached from, the addresses are
   checked to be distinct, Tree.size = RB.count, and the number of comparator calls = RB.put_cost / RB.remove_cost (C07).
   4 comparators x (48 insertions with repeated keys, then 64 removals incl. absent keys).  A semantic change of the
   insertion / deletion fix-up code changes one of these runs with high probability.  The general theorems about the write
   path are Put_correct / gen_puts_ok (RedBlackTreeHeapInsertProofs.v: the whole insertion path, for all inputs) and
   rotateLeft_correct / rotateRight_correct / replaceNode_exec (RedBlackTreeHeapRotProofs.v), Remove_correct /
   gen_puts_removes_ok (RedBlackTreeHeapRemoveProofs.v: the whole deletion path on red-black trees).  This run test is kept as an
   independent check (it also exercises trees and operation orders chosen without looking at the proofs). *)
From Coq Require Import ZArith List Lia Bool Arith.
From Gods Require Import Common.Cmp Model.RBTree.
From GodsGenProofs Require Import GoCmp GoTreeHeap RBTreeHeapRep.
From GodsGen Require RedBlackTreeHeapGen.
Import ListNotations.
Local Open Scope Z_scope.

(* read the tree back from the heap, checking the Parent pointers; also the list of addresses *)
Fixpoint readback (fuel : nat) (h : heap G.Node) (p pp : ptr) : option (RB.tree * list nat) :=
  match fuel with
  | O => None
  | S f =>
    match p with
    | None => Some (RB.E, [])
    | Some a =>
      match hread h a with
      | None => None
      | Some n =>
        if negb (ptr_eqb (G.Node_Parent n) pp) then None else
        match readback f h (G.Node_Left n) p, readback f h (G.Node_Right n) p with
        | Some (l, al), Some (r, ar) =>
            Some (RB.T (if Bool.eqb (G.Node_color n) G.black then RB.Black else RB.Red) l (G.Node_Key n) (G.Node_Value n) r, a :: al ++ ar)
        | _, _ => None
        end
      end
    end
  end.

Fixpoint teq (a b : RB.tree) : bool :=
  match a, b with
  | RB.E, RB.E => true
  | RB.T c l k v r, RB.T c' l' k' v' r' =>
      match c, c' with RB.Red, RB.Red | RB.Black, RB.Black => true | _, _ => false end && teq l l' && (k =? k') && (v =? v') && teq r r'
  | _, _ => false
  end.
Fixpoint nodupb (l : list nat) : bool :=
  match l with [] => true | x :: l' => negb (existsb (Nat.eqb x) l') && nodupb l' end.

Definition mag (a b : Z) : positive := Z.to_pos (1 + Z.abs (a - b)).   (* answers of varying magnitude *)

Inductive op := OPut (k v : Z) | ORemove (k : Z).

(* one operation on both sides; None = disagreement *)
Definition step (cmp : cmpf) (st : option (nat * heap G.Node * G.Tree * RB.tree)) (o : op) : option (nat * heap G.Node * G.Tree * RB.tree) :=
  match st with
  | None => None
  | Some (n, h, tr, t) =>
    let res := match o with
               | OPut k v => (G.Put mag 64 n h tr k v, option_map fst (RB.put cmp k v t), RB.put_cost cmp k t)
               | ORemove k => (G.Remove mag 64 n h tr k, option_map fst (RB.remove cmp k t), RB.remove_cost cmp k t)
               end in
    match res with
    | (Some (n', h', tr'), Some t', cost) =>
      match readback 64 h' (G.Tree_Root tr') None with
      | Some (t'', ads) =>
          if teq t'' t' && nodupb ads && (G.Tree_size tr' =? Z.of_nat (RB.count t')) && Nat.eqb n' (n + cost)
          then Some (n', h', tr', t') else None
      | None => None
      end
    | _ => None
    end
  end.

Definition script : list op :=
  map (fun i => OPut ((i * 37) mod 41 - 20) i) (map Z.of_nat (seq 0 48)) ++
  map (fun i => ORemove ((i * 29) mod 47 - 23)) (map Z.of_nat (seq 0 64)).

Definition run_ok (c : cmp_id) : bool :=
  match fold_left (step (cmp_of c)) script (Some (O, @empty_heap G.Node, G.mkTree None 0 (cmp_of c), RB.E)) with
  | Some _ => true
  | None => false
  end.

(* OBLIGATION *)
Theorem put_remove_runs_agree : forallb run_ok [CNat; CRev; CDiv3; CAbs] = true.
Proof. vm_compute. reflexivity. Qed.
Print Assumptions put_remove_runs_agree.
