(* END-TO-END COROLLARIES for trees/redblacktree (redblacktree.go, iterator.go): the properties C07, C01, C02, C08 of
   /verif/coq/theories/Properties stated DIRECTLY about runs of the GENERATED pointer code (GodsGen.RedBlackTreeHeapGen,
   regenerated from the Go source on every run).  [rb_gen_run mag cmp fuel ops] = the generated NewWith(cmp) on the empty heap
   followed by the generated Put / Remove of the list [ops] (any list), threading the heap, the Tree header and the ghost
   counter of comparator calls.  Bridge: for every configuration c of kind RedBlackTree (so kc c ranges over the comparator
   family cmp_of, each a strict weak order), the run never fails and its heap REPRESENTS (RBTreeHeapRep.tree_repr: every Left /
   Right / Parent link, key, value, colour) the tree of the machine state [Machine.run c (map to_op ops)], with the same size
   field ([gen_rb_reach]); the property theorems of Proofs/MachineMaps.v, MachineTrees.v, IterTreeMachine.v (the ones
   Properties/C01.v, C02.v, C07.v, C08_tree.v restate) then give the corollaries.  No hypothesis mentions the heap: only the
   kind of c and the fuel (3 * length ops + 6 suffices for the run and one more operation; the iterator scripts need
   2 * length ops + 4). *)
From Coq Require Import ZArith List Lia Bool Arith Sorted SetoidList.
From Gods Require Import Common.Cmp Common.ListAux Spec.MapSpec Spec.SeqSpec Model.Ops Model.Machine Model.RBTree Model.Iter.
From Gods Require Proofs.RBInv Proofs.RBBounds Proofs.MapSpecProofs Proofs.MachineMaps Proofs.MachineTrees Proofs.IterLinear Proofs.IterTreeMachine Proofs.IterTreeRB.
From GodsGen Require RedBlackTreeHeapGen.
From GodsGenProofs Require Import GoCmp GoTreeHeap RBTreeHeapRep.
From GodsGenProofs Require Import RedBlackTreeHeapReadProofs RedBlackTreeHeapKeysProofs RedBlackTreeHeapInsertProofs RedBlackTreeHeapRemoveProofs.
From GodsGenProofs Require Import RedBlackTreeHeapIterProofs RedBlackTreeHeapIterToProofs.
Import ListNotations.
Local Open Scope Z_scope.

Module MM := MachineMaps.
Module MT := MachineTrees.

Definition to_op (o : rop) : op := match o with RPut k v => Put k v | RRemove k => Remove k end.
Definition to_mop (o : rop) : mop := match o with RPut k v => MPut k v | RRemove k => MRemove k end.

(* the generated constructor on the empty heap, then the generated operations *)
Definition rb_gen_run (mag : Z -> Z -> positive) (cmp : cmpf) (fuel : nat) (ops : list rop) : option (nat * heap G.Node * G.Tree) :=
  match G.NewWith empty_heap cmp with Some tr0 => gen_ops mag fuel ops (O, empty_heap, tr0) | None => None end.

(* ---------- the bridge to the machine ---------- *)
Lemma hist_to_op : forall c ops, MM.hist c (map to_op ops) = map to_mop ops.
Proof. intros c ops. unfold MM.hist. induction ops as [|[k v|k] ops IH]; cbn [map flat_map MM.hist1 to_op to_mop app]; congruence. Qed.

Lemma model_ops_machine : forall c, ckind c = RedBlackTree -> forall ops t, RBInv.rbt t ->
  run_from c (StRB t (Z.of_nat (RB.count t))) (map to_op ops) =
    StRB (model_ops (kc c) ops t) (Z.of_nat (RB.count (model_ops (kc c) ops t))) /\
  (RB.count (model_ops (kc c) ops t) <= RB.count t + length ops)%nat.
Proof.
  intros c K. induction ops as [|o ops IH]; intros t Ht; [split; [reflexivity|cbn; lia]|].
  unfold run_from in *. cbn [map fold_left model_ops length].
  destruct o as [k v|k]; cbn [to_op model_op].
  - destruct (RBInv.put_rbt (kc c) k v t Ht) as (t' & b & Hput & Ht'). pose proof (put_count _ _ _ _ _ _ Hput) as Hc.
    unfold step at 2. rewrite K. unfold rbs_put. cbn [fst snd]. rewrite Hput. cbn [option_map fst].
    replace (if b then Z.of_nat (RB.count t) + 1 else Z.of_nat (RB.count t)) with (Z.of_nat (RB.count t')) by (destruct b; lia).
    destruct (IH t' Ht') as (E & Hle). rewrite E. split; [reflexivity|destruct b; lia].
  - destruct (RBInv.remove_rbt (kc c) k t Ht) as (t' & b & Hrem & Ht'). pose proof (remove_count _ _ _ _ _ Hrem) as Hc.
    unfold step at 2. rewrite K. unfold rbs_remove. cbn [fst snd]. rewrite Hrem. cbn [option_map fst].
    replace (if b then Z.of_nat (RB.count t) - 1 else Z.of_nat (RB.count t)) with (Z.of_nat (RB.count t')) by (destruct b; lia).
    destruct (IH t' Ht') as (E & Hle). rewrite E. split; [reflexivity|destruct b; lia].
Qed.

(* OBLIGATION: the generated run never fails and represents the machine's state *)
Theorem gen_rb_reach : forall mag c ops fuel, ckind c = RedBlackTree -> (3 * length ops + 3 <= fuel)%nat ->
  exists ncmp h tr t, rb_gen_run mag (kc c) fuel ops = Some (ncmp, h, tr) /\
    run c (map to_op ops) = StRB t (G.Tree_size tr) /\
    tree_repr h tr t /\ heap_ok h /\ G.Tree_Comparator tr = kc c /\
    RBInv.rbt t /\ G.Tree_size tr = Z.of_nat (RB.count t) /\ (RB.count t <= length ops)%nat.
Proof.
  intros mag c ops fuel K Hf. unfold rb_gen_run. cbn [G.NewWith].
  destruct (gen_ops_from mag ops fuel O empty_heap (G.mkTree None 0 (kc c)) RB.E) as (h & tr & Hrun & R1 & R2 & R3 & R4 & R5).
  - exists PE. split; [reflexivity|]. split; [reflexivity|]. split; [exact I|constructor].
  - apply heap_ok_empty.
  - apply RBInv.rbt_E.
  - reflexivity.
  - cbn [RB.count]. lia.
  - cbn [G.Tree_Comparator] in *. destruct (model_ops_machine c K ops RB.E RBInv.rbt_E) as (E & Hle).
    exists (0 + model_ops_cost (kc c) ops RB.E)%nat, h, tr, (model_ops (kc c) ops RB.E).
    split; [exact Hrun|]. split; [unfold run, init; rewrite K, R4; exact E|]. split; [exact R1|]. split; [exact R2|].
    split; [exact R5|]. split; [exact R3|]. split; [exact R4|exact Hle].
Qed.
Print Assumptions gen_rb_reach.

(* ====================== C07: logarithmic work, documented shape ====================== *)
(* OBLIGATION: one more generated Get / Put / Remove after ANY generated run makes q comparator calls (the difference of the ghost
   counter) with q within the bounds of Properties/C07.v (C07_cost_put_remove_rb, C07_get_any_key), n = the generated Size();
   the Put / Remove counts are the machine's cost component of that step *)
Theorem gen_rb_cost_bound : forall mag c ops fuel k v, ckind c = RedBlackTree -> (3 * length ops + 6 <= fuel)%nat ->
  exists ncmp h tr (n : nat), rb_gen_run mag (kc c) fuel ops = Some (ncmp, h, tr) /\
    G.Tree_Size h tr = Some (Z.of_nat n) /\ n = MT.nsize c (run c (map to_op ops)) /\
    (exists q val found, G.Get mag fuel ncmp h tr k = Some ((ncmp + q)%nat, val, found) /\
       q = MT.get_cost_of c (run c (map to_op ops)) k /\ (q <= 2 * Nat.log2 (n + 1))%nat) /\
    (exists q h' tr', G.Put mag fuel ncmp h tr k v = Some ((ncmp + q)%nat, h', tr') /\
       snd (step c (run c (map to_op ops)) (Put k v)) = cost q /\ (q <= 2 * Nat.log2 (n + 1) + 1)%nat) /\
    (exists q h' tr', G.Remove mag fuel ncmp h tr k = Some ((ncmp + q)%nat, h', tr') /\
       snd (step c (run c (map to_op ops)) (Remove k)) = cost q /\ (q <= 2 * Nat.log2 (n + 1))%nat).
Proof.
  intros mag c ops fuel k v K Hf.
  destruct (gen_rb_reach mag c ops fuel K ltac:(lia)) as (ncmp & h & tr & t & Hrun & Hm & Hrepr & Hok & Hcmp & Hrbt & Hsz & Hle).
  pose proof (height_le_count t) as Hh.
  exists ncmp, h, tr, (RB.count t). split; [exact Hrun|]. split; [exact (proj1 (Size_Empty_correct h tr t Hsz))|].
  rewrite Hm. unfold MT.nsize. cbn [size_of MT.get_cost_of]. split; [rewrite Hsz, Nat2Z.id; reflexivity|].
  destruct (MT.rb_cost_bounds (kc c) k t Hrbt) as (Bp & Br & Bg & _).
  split; [|split].
  - rewrite (Get_correct mag h tr t k fuel ncmp Hrepr ltac:(lia)), Hcmp. eexists _, _, _. split; [reflexivity|]. split; [reflexivity|exact Bg].
  - destruct (RBInv.put_rbt (kc c) k v t Hrbt) as (t' & b & Hput & _). rewrite <- Hcmp in Hput.
    destruct (Put_correct mag h tr t k v fuel ncmp t' b Hrepr Hok Hput ltac:(lia)) as (h' & tr' & Hp & _).
    rewrite Hcmp in Hp, Hput. eexists _, h', tr'. split; [exact Hp|]. split; [|exact Bp].
    unfold step. rewrite K. unfold rbs_put. cbn [fst snd]. rewrite Hput. reflexivity.
  - destruct (RBInv.remove_rbt (kc c) k t Hrbt) as (t' & b & Hrem & _). rewrite <- Hcmp in Hrem.
    destruct (Remove_correct mag h tr t k fuel ncmp t' b Hrepr Hok (proj1 Hrbt) Hrem ltac:(lia)) as (h' & tr' & Hp & _).
    rewrite Hcmp in Hp, Hrem. eexists _, h', tr'. split; [exact Hp|]. split; [|exact Br].
    unfold step. rewrite K. unfold rbs_remove. cbn [fst snd]. rewrite Hrem. reflexivity.
Qed.
Print Assumptions gen_rb_cost_bound.

(* "parent links mirror child links" (the sentence of C07 the functional model cannot express) is part of the representation:
   in a represented tree every node is stored at its own address, each child's Parent field is the address of its parent, and
   the root's Parent is nil *)
Lemma rep_parent_links : forall h pt pp, rep h pp pt ->
  (forall a, root_ptr pt = Some a -> exists nd, hread h a = Some nd /\ G.Node_Parent nd = pp) /\
  (forall a, In a (addrs pt) -> exists nd, hread h a = Some nd /\
     (forall b, G.Node_Left nd = Some b -> exists ndb, hread h b = Some ndb /\ G.Node_Parent ndb = Some a) /\
     (forall b, G.Node_Right nd = Some b -> exists ndb, hread h b = Some ndb /\ G.Node_Parent ndb = Some a)).
Proof.
  intros h. induction pt as [|a c l IHl k v r IHr]; intros pp Hrep; [split; [discriminate|intros a []]|].
  cbn [rep] in Hrep. destruct Hrep as (Hread & Hl & Hr).
  destruct (IHl _ Hl) as (Hl1 & Hl2). destruct (IHr _ Hr) as (Hr1 & Hr2).
  split.
  - intros a0 E. injection E as <-. eexists. split; [exact Hread|reflexivity].
  - intros a0 [<-|Hin].
    + eexists. split; [exact Hread|]. unfold node_of. cbn [G.Node_Left G.Node_Right]. split; intros b Hb; [apply Hl1|apply Hr1]; exact Hb.
    + apply in_app_or in Hin. destruct Hin as [Hin|Hin]; [apply Hl2|apply Hr2]; exact Hin.
Qed.

(* OBLIGATION: the heap after ANY generated run represents a red-black tree with the documented shape (Properties/C07.v,
   C07_rb_balanced), Size() is the number of nodes, and parent links mirror child links *)
Theorem gen_rb_shape : forall mag c ops fuel, ckind c = RedBlackTree -> (3 * length ops + 3 <= fuel)%nat ->
  exists ncmp h tr t, rb_gen_run mag (kc c) fuel ops = Some (ncmp, h, tr) /\ tree_repr h tr t /\
    run c (map to_op ops) = StRB t (Z.of_nat (RB.count t)) /\
    RBInv.rbt t /\ G.Tree_Size h tr = Some (Z.of_nat (RB.count t)) /\
    (RB.height t <= 2 * Nat.log2 (RB.count t + 1))%nat /\ (RB.height t <= 2 * RB.minheight t)%nat /\ RB.col t = RB.Black /\
    exists pt, erase pt = t /\ root_ptr pt = G.Tree_Root tr /\ NoDup (addrs pt) /\ length (addrs pt) = RB.count t /\
      (forall a, G.Tree_Root tr = Some a -> exists nd, hread h a = Some nd /\ G.Node_Parent nd = None) /\
      (forall a, In a (addrs pt) -> exists nd, hread h a = Some nd /\
         (forall b, G.Node_Left nd = Some b -> exists ndb, hread h b = Some ndb /\ G.Node_Parent ndb = Some a) /\
         (forall b, G.Node_Right nd = Some b -> exists ndb, hread h b = Some ndb /\ G.Node_Parent ndb = Some a)).
Proof.
  intros mag c ops fuel K Hf.
  destruct (gen_rb_reach mag c ops fuel K Hf) as (ncmp & h & tr & t & Hrun & Hm & Hrepr & Hok & Hcmp & Hrbt & Hsz & Hle).
  exists ncmp, h, tr, t. split; [exact Hrun|]. split; [exact Hrepr|]. split; [rewrite Hm, Hsz; reflexivity|]. split; [exact Hrbt|].
  split; [exact (proj1 (Size_Empty_correct h tr t Hsz))|].
  destruct (MT.rbt_documented t Hrbt) as (D1 & D2 & D3). split; [exact D1|]. split; [exact D2|]. split; [exact D3|].
  destruct Hrepr as (pt & He & Hroot & Hrep & Hnd). exists pt. split; [exact He|]. split; [exact Hroot|]. split; [exact Hnd|].
  destruct (rep_parent_links h pt None Hrep) as (P1 & P2).
  split; [|split; [intros a Ha; apply P1; rewrite Hroot; exact Ha|exact P2]].
  rewrite <- He. clear. induction pt as [|a c l IHl k v r IHr]; [reflexivity|]. cbn [addrs erase RB.count length]. rewrite app_length. lia.
Qed.
Print Assumptions gen_rb_shape.

(* ====================== C01 / C02: the content, in terms of the HISTORY only ====================== *)
Lemma rb_valid : forall c, ckind c = RedBlackTree -> MM.valid c /\ MM.ordered_kind (ckind c) = true /\ MM.cmp_for c = kc c /\
  ckind c <> LinkedHashMap /\ ckind c <> BTree.
Proof. intros c K. unfold MM.valid, MM.cmp_for. rewrite K. repeat split; try reflexivity; discriminate. Qed.

(* the entries of the represented tree are the abstract map of the history (Spec/MapSpec.mrun: a sorted association list) *)
Lemma gen_rb_entries : forall mag c ops fuel, ckind c = RedBlackTree -> (3 * length ops + 3 <= fuel)%nat ->
  exists ncmp h tr t, rb_gen_run mag (kc c) fuel ops = Some (ncmp, h, tr) /\
    run c (map to_op ops) = StRB t (G.Tree_size tr) /\ tree_repr h tr t /\ heap_ok h /\ G.Tree_Comparator tr = kc c /\
    RBInv.rbt t /\ G.Tree_size tr = Z.of_nat (RB.count t) /\ (RB.count t <= length ops)%nat /\
    RB.inorder t = mrun (kc c) (map to_mop ops).
Proof.
  intros mag c ops fuel K Hf.
  destruct (gen_rb_reach mag c ops fuel K Hf) as (ncmp & h & tr & t & Hrun & Hm & R).
  exists ncmp, h, tr, t. split; [exact Hrun|]. split; [exact Hm|]. repeat (split; [apply R|]).
  destruct (rb_valid c K) as (Hv & _ & Hc & Hl & _).
  pose proof (MM.refines_tree c (map to_op ops) Hv Hl) as E. rewrite Hm, Hc, hist_to_op in E. exact E.
Qed.

(* OBLIGATION (C01): after ANY generated run, the generated Get(k) returns (v, true) exactly when the most recent Put(k', v) of a
   key equivalent to k in the history is not followed by a Remove of an equivalent key, else (0, false); Size() is the number of
   live keys; Keys() / Values() list every live entry exactly once, position-aligned *)
Theorem gen_rb_get_last_live : forall mag c ops fuel, ckind c = RedBlackTree -> (3 * length ops + 6 <= fuel)%nat ->
  let hs := map to_mop ops in let es := mrun (kc c) hs in
  exists ncmp h tr, rb_gen_run mag (kc c) fuel ops = Some (ncmp, h, tr) /\
    (forall k, exists q, G.Get mag fuel ncmp h tr k =
       Some ((ncmp + q)%nat, match last_live (kc c) (rev hs) k with Some e => snd e | None => 0 end,
                             match last_live (kc c) (rev hs) k with Some _ => true | None => false end)) /\
    G.Tree_Size h tr = Some (Z.of_nat (length es)) /\
    G.Keys fuel h tr = Some (map fst es) /\ G.Values fuel h tr = Some (map snd es) /\
    (forall e, In e es <-> last_live (kc c) (rev hs) (fst e) = Some e) /\
    NoDupA (fun a b => kc c a b = Eq) (map fst es).
Proof.
  intros mag c ops fuel K Hf hs es.
  destruct (gen_rb_entries mag c ops fuel K ltac:(lia)) as (ncmp & h & tr & t & Hrun & Hm & Hrepr & Hok & Hcmp & Hrbt & Hsz & Hle & Hes).
  destruct (rb_valid c K) as (Hv & _ & Hc & Hl & _). pose proof (height_le_count t) as Hh.
  exists ncmp, h, tr. split; [exact Hrun|]. fold hs in Hes. fold es in Hes.
  split; [|split; [|split; [|split; [|split]]]].
  - intro k. rewrite (Get_correct mag h tr t k fuel ncmp Hrepr ltac:(lia)), Hcmp. eexists.
    pose proof (MM.C01_get c (map to_op ops) k Hv) as E. rewrite Hm, Hc, hist_to_op in E. cbn [get_of] in E. fold hs in E.
    unfold rbs_get in E. cbn [fst] in E.
    destruct (RB.lookup (kc c) k t) as [[k' v']|], (last_live (kc c) (rev hs) k) as [[k'' v'']|]; cbn in E; try discriminate; [|reflexivity].
    injection E as ->. reflexivity.
  - rewrite (proj1 (Size_Empty_correct h tr t Hsz)), <- Hes, IterTreeRB.RBIter.length_inorder. reflexivity.
  - rewrite (proj1 (Keys_Values_correct h tr t fuel Hrepr Hsz ltac:(lia))). unfold RB.keys. rewrite Hes. reflexivity.
  - rewrite (proj2 (Keys_Values_correct h tr t fuel Hrepr Hsz ltac:(lia))). unfold RB.values. rewrite Hes. reflexivity.
  - intro e. pose proof (MM.C01_entry_iff c (map to_op ops) e Hv) as E. rewrite Hm, Hc, hist_to_op in E. cbn [entries_of] in E. rewrite Hes in E. exact E.
  - pose proof (MM.C01_nodup c (map to_op ops) Hv) as E. rewrite Hm, Hc in E. unfold keys_of in E. cbn [entries_of] in E. rewrite Hes in E. exact E.
Qed.
Print Assumptions gen_rb_get_last_live.

(* what a *Node result stands for *)
Definition entry_at (h : heap G.Node) (p : ptr) : option (Z * Z) :=
  match deref h p with Some nd => Some (G.Node_Key nd, G.Node_Value nd) | None => None end.
Lemma entry_at_is : forall h p o, node_is h p o -> entry_at h p = o.
Proof.
  intros h p [[k v]|] H; unfold entry_at.
  - destruct H as (nd & -> & <- & <-). reflexivity.
  - cbn in H. subst p. reflexivity.
Qed.

(* OBLIGATION (C02): after ANY generated run, Keys() is strictly ascending under the comparator; Left() / Right() are the nodes of
   the least / greatest entry (nil exactly on the empty tree); Floor(k) / Ceiling(k) return the node of the greatest entry not
   above k / the least entry not below k and report found exactly when there is one (Properties/C02.v: C02_Keys_sorted,
   C02_Left, C02_Right, C02_Floor, C02_Ceiling, C02_Floor_char, C02_Ceiling_char) *)
Theorem gen_rb_ordered : forall mag c ops fuel, ckind c = RedBlackTree -> (3 * length ops + 6 <= fuel)%nat ->
  let es := mrun (kc c) (map to_mop ops) in
  exists ncmp h tr, rb_gen_run mag (kc c) fuel ops = Some (ncmp, h, tr) /\
    G.Keys fuel h tr = Some (map fst es) /\ StronglySorted (fun a b => kc c a b = Lt) (map fst es) /\
    (exists p, G.Left fuel h tr = Some p /\ entry_at h p = hd_error es) /\
    (exists p, G.Right fuel h tr = Some p /\ entry_at h p = last_opt es) /\
    (forall k, exists q p, G.Floor mag fuel ncmp h tr k = Some ((ncmp + q)%nat, p, match entry_at h p with Some _ => true | None => false end) /\
       entry_at h p = floor_list (kc c) k es /\
       match entry_at h p with
       | Some e => In e es /\ kc c k (fst e) <> Lt /\
                   (forall e', In e' es -> kc c k (fst e') <> Lt -> e' = e \/ kc c (fst e') (fst e) = Lt) /\
                   (forall e', In e' es -> kc c (fst e) (fst e') = Lt -> kc c k (fst e') = Lt)
       | None => forall e', In e' es -> kc c k (fst e') = Lt
       end) /\
    (forall k, exists q p, G.Ceiling mag fuel ncmp h tr k = Some ((ncmp + q)%nat, p, match entry_at h p with Some _ => true | None => false end) /\
       entry_at h p = ceiling_list (kc c) k es /\
       match entry_at h p with
       | Some e => In e es /\ kc c k (fst e) <> Gt /\
                   (forall e', In e' es -> kc c k (fst e') <> Gt -> e' = e \/ kc c (fst e) (fst e') = Lt) /\
                   (forall e', In e' es -> kc c (fst e') (fst e) = Lt -> kc c k (fst e') = Gt)
       | None => forall e', In e' es -> kc c k (fst e') = Gt
       end).
Proof.
  intros mag c ops fuel K Hf es.
  destruct (gen_rb_entries mag c ops fuel K ltac:(lia)) as (ncmp & h & tr & t & Hrun & Hm & Hrepr & Hok & Hcmp & Hrbt & Hsz & Hle & Hes).
  destruct (rb_valid c K) as (Hv & Ho & Hc & Hl & Hb). pose proof (height_le_count t) as Hh. fold es in Hes.
  exists ncmp, h, tr. split; [exact Hrun|].
  split; [rewrite (proj1 (Keys_Values_correct h tr t fuel Hrepr Hsz ltac:(lia))); unfold RB.keys; rewrite Hes; reflexivity|].
  split; [pose proof (MM.C02_keys_sorted c (map to_op ops) Hv Ho) as E; rewrite Hm in E; unfold keys_of in E; cbn [entries_of] in E; rewrite Hes in E; exact E|].
  destruct (Left_Right_correct h tr t fuel Hrepr ltac:(lia)) as ((pl & L1 & L2) & (pr & R1 & R2)).
  split; [exists pl; split; [exact L1|]; rewrite (entry_at_is _ _ _ L2);
          pose proof (MM.C02_left c (map to_op ops) Hv Ho) as E; rewrite Hm in E; cbn [MM.left_of entries_of] in E; rewrite Hes in E; exact E|].
  split; [exists pr; split; [exact R1|]; rewrite (entry_at_is _ _ _ R2);
          pose proof (MM.C02_right c (map to_op ops) Hv Ho) as E; rewrite Hm in E; cbn [MM.right_of entries_of] in E; rewrite Hes in E; exact E|].
  split; intro k.
  - destruct (Floor_correct mag h tr t k fuel ncmp Hrepr ltac:(lia)) as (p & F1 & F2). rewrite Hcmp in F1, F2.
    pose proof (MM.C02_floor c (map to_op ops) k Hv Ho Hb) as E. rewrite Hm in E. cbn [MM.floor_of entries_of] in E. rewrite Hes in E.
    pose proof (MM.C02_floor_char c (map to_op ops) k Hv Ho Hb) as Ch. rewrite Hm in Ch. cbn [MM.floor_of entries_of] in Ch. rewrite Hes in Ch.
    exists (RB.lookup_cost (kc c) k t), p. rewrite (entry_at_is _ _ _ F2).
    split; [rewrite F1; destruct (RB.floor (kc c) k t); reflexivity|]. split; [exact E|exact Ch].
  - destruct (Ceiling_correct mag h tr t k fuel ncmp Hrepr ltac:(lia)) as (p & F1 & F2). rewrite Hcmp in F1, F2.
    pose proof (MM.C02_ceiling c (map to_op ops) k Hv Ho Hb) as E. rewrite Hm in E. cbn [MM.ceiling_of entries_of] in E. rewrite Hes in E.
    pose proof (MM.C02_ceiling_char c (map to_op ops) k Hv Ho Hb) as Ch. rewrite Hm in Ch. cbn [MM.ceiling_of entries_of] in Ch. rewrite Hes in Ch.
    exists (RB.lookup_cost (kc c) k t), p. rewrite (entry_at_is _ _ _ F2).
    split; [rewrite F1; destruct (RB.ceiling (kc c) k t); reflexivity|]. split; [exact E|exact Ch].
Qed.
Print Assumptions gen_rb_ordered.

(* ====================== C08: the generated iterator is the cursor over Keys() / Values() ====================== *)
(* a script of iterator calls executed by the GENERATED iterator functions on a fixed heap (the observation format of
   Model/Iter.run_call: a successful move reports (1, Key(), Value()), a failed one (0); a None of the generated code = crash) *)
Definition gen_moved (h : heap G.Node) (r : option (G.Iterator * bool)) : option (G.Iterator * obs) :=
  match r with
  | Some (it', true) => match G.Key h it', G.Value h it' with
                        | Some k, Some v => Some (it', OL [OZ 1; OZ k; OZ v])
                        | _, _ => None
                        end
  | Some (it', false) => Some (it', OL [OZ 0])
  | None => None
  end.
Definition gen_call (fuel : nat) (h : heap G.Node) (tr : G.Tree) (it : G.Iterator) (c : icall) : option (G.Iterator * obs) :=
  match c with
  | CNext => gen_moved h (G.Next fuel h tr it)
  | CPrev => gen_moved h (G.Prev fuel h tr it)
  | CBegin => match G.Begin h it with Some it' => Some (it', ounit) | None => None end
  | CEnd => match G.End h it with Some it' => Some (it', ounit) | None => None end
  | CFirst => gen_moved h (G.First fuel h tr it)
  | CLast => gen_moved h (G.Last fuel h tr it)
  | CNextTo p => gen_moved h (G.NextTo fuel h tr it (pred_eval p))
  | CPrevTo p => gen_moved h (G.PrevTo fuel h tr it (pred_eval p))
  end.
Fixpoint gen_script (fuel : nat) (h : heap G.Node) (tr : G.Tree) (it : G.Iterator) (cs : list icall) : list obs :=
  match cs with
  | [] => []
  | c :: cs' => match gen_call fuel h tr it c with
                | None => [ocrash]
                | Some (it', o) => o :: gen_script fuel h tr it' cs'
                end
  end.

Section Script.
Variables (h : heap G.Node) (tr : G.Tree) (pt : ptree).
Hypothesis Hrep : rep h None pt.
Hypothesis Hnd : NoDup (addrs pt).
Hypothesis Hroot : G.Tree_Root tr = root_ptr pt.
Notation t := (erase pt).
Notation mcall m := (run_call RB.ipos (rb_next t) (rb_prev t) (fun _ => RB.IBegin) (fun _ => RB.IEnd) (RB.ikv t) true m).

Lemma moved_transfer : forall it ip b ip' o, irep pt it ip ->
  moved RB.ipos (RB.ikv t) ip b = Some (ip', o) -> gen_moved h (Some (it, b)) = Some (it, o) /\ ip' = ip.
Proof.
  intros it ip b ip' o Hir Hm. unfold moved in Hm. destruct b; cbn [gen_moved]; [|injection Hm as <- <-; split; reflexivity].
  destruct ip as [| |p]; cbn [RB.ikv] in Hm; try discriminate.
  destruct (Key_Value_correct h pt it p Hrep Hir) as (k & v & Hkv & Hk & Hv & _). cbn [RB.ikv] in Hkv. rewrite Hkv in Hm.
  injection Hm as <- <-. rewrite Hk, Hv. split; reflexivity.
Qed.

Lemma gen_call_model : forall it ip m fuel c ip' o, irep pt it ip -> (m + RB.height t < fuel)%nat ->
  mcall m ip c = Some (ip', o) -> exists it', gen_call fuel h tr it c = Some (it', o) /\ irep pt it' ip'.
Proof.
  intros it ip m fuel c ip' o Hir Hf Hc. assert (Hf' : (RB.height t < fuel)%nat) by lia.
  destruct c as [| | | | | |pr|pr]; cbn [run_call gen_call] in *.
  - destruct (Next_correct h tr pt it ip fuel Hrep Hnd Hroot Hir Hf') as (it' & Hrun & Hir'). unfold rb_next in Hc.
    destruct (moved_transfer it' _ _ _ _ Hir' Hc) as (Hg & ->). fold (is_between (RB.inext t ip)) in Hg. rewrite Hrun. exists it'. split; [exact Hg|exact Hir'].
  - destruct (Prev_correct h tr pt it ip fuel Hrep Hnd Hroot Hir Hf') as (it' & Hrun & Hir'). unfold rb_prev in Hc.
    destruct (moved_transfer it' _ _ _ _ Hir' Hc) as (Hg & ->). fold (is_between (RB.iprev t ip)) in Hg. rewrite Hrun. exists it'. split; [exact Hg|exact Hir'].
  - injection Hc as <- <-. destruct (Begin_End_correct h tr pt it None) as ((it' & Hb & Hir' & _) & _). rewrite Hb. exists it'. split; [reflexivity|exact Hir'].
  - injection Hc as <- <-. destruct (Begin_End_correct h tr pt it None) as (_ & (it' & Hb & Hir' & _) & _). rewrite Hb. exists it'. split; [reflexivity|exact Hir'].
  - destruct (First_Last_correct h tr pt it fuel Hrep Hnd Hroot Hf') as ((it' & Hrun & Hir') & _). unfold rb_next in Hc.
    destruct (moved_transfer it' _ _ _ _ Hir' Hc) as (Hg & ->). rewrite Hrun. exists it'. split; [exact Hg|exact Hir'].
  - destruct (First_Last_correct h tr pt it fuel Hrep Hnd Hroot Hf') as (_ & (it' & Hrun & Hir')). unfold rb_prev in Hc.
    destruct (moved_transfer it' _ _ _ _ Hir' Hc) as (Hg & ->). rewrite Hrun. exists it'. split; [exact Hg|exact Hir'].
  - destruct (move_to RB.ipos (RB.ikv t) (rb_next t) pr m ip) as [[ip1 b]|] eqn:Hm; [|discriminate].
    destruct (proj1 (NextTo_PrevTo_correct h tr pt pr it ip m fuel ip1 b Hrep Hnd Hroot Hir Hf) Hm) as (it' & Hrun & Hir').
    destruct (moved_transfer it' _ _ _ _ Hir' Hc) as (Hg & ->). rewrite Hrun. exists it'. split; [exact Hg|exact Hir'].
  - destruct (move_to RB.ipos (RB.ikv t) (rb_prev t) pr m ip) as [[ip1 b]|] eqn:Hm; [|discriminate].
    destruct (proj2 (NextTo_PrevTo_correct h tr pt pr it ip m fuel ip1 b Hrep Hnd Hroot Hir Hf) Hm) as (it' & Hrun & Hir').
    destruct (moved_transfer it' _ _ _ _ Hir' Hc) as (Hg & ->). rewrite Hrun. exists it'. split; [exact Hg|exact Hir'].
Qed.

Lemma gen_script_cursor : forall cs it ip fuel, irep pt it ip -> (RB.count t + 2 + RB.height t < fuel)%nat ->
  gen_script fuel h tr it cs = IterTreeRB.cursor_run (RB.inorder t) true (RI.pos_of t ip) cs.
Proof.
  induction cs as [|c cs IH]; intros it ip fuel Hir Hf; [reflexivity|]. cbn [gen_script IterTreeRB.cursor_run].
  destruct (IterTreeRB.run_call_ok RB.ipos (rb_next t) (rb_prev t) (fun _ => RB.IBegin) (fun _ => RB.IEnd) (RB.ikv t) true
              (RB.inorder t) (RI.valid t) (RI.pos_of t) (RI.pos_of_range t) (RI.rb_next_ok t) (RI.rb_prev_ok t)
              (fun s _ => conj I eq_refl) (fun s _ => conj I (eq_sym (RI.cn_inorder t))) (RI.ikv_ok t)
              (RB.count t + 2)%nat ip c ltac:(rewrite RI.length_inorder; lia) (irep_valid _ _ _ Hir)) as (ip' & Hc & Hv' & Hp').
  destruct (gen_call_model it ip (RB.count t + 2)%nat fuel c ip' _ Hir ltac:(lia) Hc) as (it' & Hg & Hir'). rewrite Hg, <- Hp'. f_equal. apply IH; assumption.
Qed.
End Script.

(* OBLIGATION (C08): after ANY generated run, EVERY script of Next / Prev / Begin / End / First / Last / NextTo / PrevTo calls run by
   the generated iterator functions from the generated tree.Iterator() answers exactly as the cursor over the entries
   (Properties/C08_tree.v, C08_tree_cursor: positions -1..n, saturating moves, (true, Key(), Value()) inside and false outside):
   no crash, no fuel exhaustion, NextTo / PrevTo terminate *)
Theorem gen_rb_iterator_cursor : forall mag c ops fuel cs, ckind c = RedBlackTree -> (3 * length ops + 6 <= fuel)%nat ->
  let es := mrun (kc c) (map to_mop ops) in
  exists ncmp h tr it0, rb_gen_run mag (kc c) fuel ops = Some (ncmp, h, tr) /\ G.Tree_Iterator h tr = Some it0 /\
    gen_script fuel h tr it0 cs = IterLinear.cursor_script es true cs /\
    IterLinear.cursor_script es true cs = run_iter c (run c (map to_op ops)) cs.
Proof.
  intros mag c ops fuel cs K Hf es.
  destruct (gen_rb_entries mag c ops fuel K ltac:(lia)) as (ncmp & h & tr & t & Hrun & Hm & Hrepr & Hok & Hcmp & Hrbt & Hsz & Hle & Hes).
  pose proof (height_le_count t) as Hh. fold es in Hes. destruct Hrepr as (pt & He & Hroot & Hrep & Hnd). subst t.
  destruct (Begin_End_correct h tr pt (G.mkIterator None G.begin) None) as (_ & _ & (it0 & Hit & Hir & _) & _).
  exists ncmp, h, tr, it0. split; [exact Hrun|]. split; [exact Hit|]. split.
  - rewrite (gen_script_cursor h tr pt Hrep Hnd (eq_sym Hroot) cs it0 RB.IBegin fuel Hir ltac:(lia)), Hes.
    exact (IterTreeMachine.cursor_script_eq es true cs).
  - pose proof (IterTreeMachine.tree_iter_reachable c (map to_op ops) cs) as E. rewrite Hm in E. unfold IterTreeMachine.tree_iter_seq in E.
    rewrite K in E. cbn [entries_of] in E. rewrite Hes in E. rewrite Hm. symmetry. apply E; [reflexivity|unfold IterTreeMachine.btree_ok; rewrite K; reflexivity].
Qed.
Print Assumptions gen_rb_iterator_cursor.

(* ---------- a concrete run (non-vacuity; evaluated, not proved): the reversed order, 8 operations ---------- *)
Definition ex_mag : Z -> Z -> positive := fun _ _ => 1%positive.
Definition ex_cfg : config := {| ckind := RedBlackTree; kcmp := CRev; vcmp := CNat; ccap := 0; corder := 3; cuni := 6 |}.
Definition ex_ops : list rop := [RPut 5 50; RPut 3 30; RPut 8 80; RPut 3 31; RPut 9 90; RRemove 5; RPut 1 10; RRemove 7].
(* an Example (stated with the keyword Lemma so that run.py can isolate it when it fails) *)
Lemma ex_rb_generated_run :
  match rb_gen_run ex_mag (kc ex_cfg) 40 ex_ops with
  | Some (ncmp, h, tr) =>
    Some (ncmp, G.Tree_Size h tr, G.Keys 40 h tr, G.Values 40 h tr,
          option_map (fun r => (fst (fst r) - ncmp, snd (fst r), snd r)%nat) (G.Get ex_mag 40 ncmp h tr 3),
          option_map (fun r => (fst (fst r) - ncmp, snd (fst r), snd r)%nat) (G.Get ex_mag 40 ncmp h tr 5),
          option_map (fun r => (fst (fst r) - ncmp)%nat) (G.Put ex_mag 40 ncmp h tr 4 40),
          option_map (fun r => (fst (fst r) - ncmp)%nat) (G.Remove ex_mag 40 ncmp h tr 9),
          match G.Tree_Iterator h tr with
          | Some it => gen_script 40 h tr it [CNext; CNext; CNext; CNext; CNext; CNext; CPrev; CFirst; CLast; CEnd; CPrev; CBegin; CPrev; CNextTo (PValLt 50)]
          | None => []
          end)
  | None => None
  end =
  Some (12%nat, Some 4, Some [9; 8; 3; 1], Some [90; 80; 31; 10], Some (2%nat, 31, true), Some (2%nat, 0, false), Some 2%nat, Some 2%nat,
        [OL [OZ 1; OZ 9; OZ 90]; OL [OZ 1; OZ 8; OZ 80]; OL [OZ 1; OZ 3; OZ 31]; OL [OZ 1; OZ 1; OZ 10]; OL [OZ 0]; OL [OZ 0];
         OL [OZ 1; OZ 1; OZ 10]; OL [OZ 1; OZ 9; OZ 90]; OL [OZ 1; OZ 1; OZ 10]; OL []; OL [OZ 1; OZ 1; OZ 10]; OL []; OL [OZ 0];
         OL [OZ 1; OZ 3; OZ 31]]) /\
  mrun (kc ex_cfg) (map to_mop ex_ops) = [(9, 90); (8, 80); (3, 31); (1, 10)] /\
  last_live (kc ex_cfg) (rev (map to_mop ex_ops)) 3 = Some (3, 31) /\ last_live (kc ex_cfg) (rev (map to_mop ex_ops)) 5 = None /\
  (2 * Nat.log2 (4 + 1))%nat = 4%nat.
Proof. vm_compute. repeat split; reflexivity. Qed.
