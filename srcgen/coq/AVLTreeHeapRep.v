(* The REPRESENTATION of a functional AVL tree (Model/AVLTree.v) by a heap of GENERATED Node records
   (GodsGen.AVLTreeHeapGen, regenerated from trees/avltree/avltree.go on every run): Node{Key, Value, Parent, Children [2]*Node, b}.
   Same scheme as RBTreeHeapRep.v: [ptree] carries the addresses, [rep h pp pt] says every node is stored at its address
   with the model's key / value / balance factor, Children = (root of the left subtree, root of the right subtree) and
   Parent = the address of its parent; [repr] is the predicate on plain model trees (distinct addresses). *)
From Coq Require Import ZArith List Lia Bool Arith.
From Gods Require Import Common.Cmp Model.AVLTree.
From GodsGenProofs Require Import GoCmp GoTreeHeap.
From GodsGen Require AVLTreeHeapGen.
Import ListNotations.
Local Open Scope Z_scope.

Module G := AVLTreeHeapGen.
Module AVL := AVLTree.

Inductive ptree := PE | PT (a : nat) (b : Z) (l : ptree) (k v : Z) (r : ptree).

Fixpoint erase (t : ptree) : AVL.tree :=
  match t with PE => AVL.E | PT _ b l k v r => AVL.T b (erase l) k v (erase r) end.
Fixpoint addrs (t : ptree) : list nat :=
  match t with PE => [] | PT a _ l _ _ r => a :: addrs l ++ addrs r end.
Definition root_ptr (t : ptree) : ptr := match t with PE => None | PT a _ _ _ _ _ => Some a end.

Definition node_of (pp : ptr) (b : Z) (l : ptree) (k v : Z) (r : ptree) : G.Node :=
  G.mkNode k v pp (root_ptr l, root_ptr r) b.

Fixpoint rep (h : heap G.Node) (pp : ptr) (t : ptree) : Prop :=
  match t with
  | PE => True
  | PT a b l k v r => hread h a = Some (node_of pp b l k v r) /\ rep h (Some a) l /\ rep h (Some a) r
  end.

Definition repr (h : heap G.Node) (p pp : ptr) (t : AVL.tree) : Prop :=
  exists pt, erase pt = t /\ root_ptr pt = p /\ rep h pp pt /\ NoDup (addrs pt).
Definition tree_repr (h : heap G.Node) (tr : G.Tree) (t : AVL.tree) : Prop := repr h (G.Tree_Root tr) None t.

Definition node_is (h : heap G.Node) (p : ptr) (o : option (Z * Z)) : Prop :=
  match o with
  | None => p = None
  | Some (k, v) => exists nd, deref h p = Some nd /\ G.Node_Key nd = k /\ G.Node_Value nd = v
  end.

Lemma rep_root_deref : forall h pp a b l k v r, rep h pp (PT a b l k v r) ->
  deref h (Some a) = Some (node_of pp b l k v r).
Proof. intros. simpl in *. tauto. Qed.

Lemma arr2_get_0 : forall x y : ptr, arr2_get (x, y) 0 = Some x.
Proof. reflexivity. Qed.
Lemma arr2_get_1 : forall x y : ptr, arr2_get (x, y) 1 = Some y.
Proof. reflexivity. Qed.

(* ---------- paths ---------- *)
Definition pchild (d : AVL.side) (l r : ptree) : ptree := match d with AVL.L => l | AVL.R => r end.

Fixpoint psub (t : ptree) (p : list AVL.side) {struct p} : option ptree :=
  match p with
  | [] => match t with PE => None | _ => Some t end
  | d :: p' => match t with PE => None | PT _ _ l _ _ r => psub (pchild d l r) p' end
  end.

Lemma psub_erase : forall p t, AVL.subtree (erase t) p = option_map erase (psub t p).
Proof.
  induction p as [|d p IH]; intros [|a c l k v r]; cbn [psub AVL.subtree erase option_map]; try reflexivity.
  destruct d; apply IH.
Qed.

Lemma psub_not_PE : forall p t, psub t p <> Some PE.
Proof.
  induction p as [|d p IH]; intros [|a c l k v r]; cbn [psub]; try discriminate. apply IH.
Qed.

Lemma psub_app : forall p q t, psub t (p ++ q) = match psub t p with Some s => psub s q | None => None end.
Proof.
  induction p as [|d p IH]; intros q t; cbn [app psub].
  - destruct t; [destruct q; reflexivity|reflexivity].
  - destruct t as [|a c l k v r]; [reflexivity|]. apply IH.
Qed.

Lemma psub_snoc : forall t p d s, psub t (p ++ [d]) = Some s ->
  exists b c l k v r, psub t p = Some (PT b c l k v r) /\ s = pchild d l r /\ s <> PE.
Proof.
  intros t p d s H. rewrite psub_app in H. destruct (psub t p) as [[|b c l k v r]|] eqn:E; try discriminate.
  exists b, c, l, k, v, r. cbn [psub] in H. split; [reflexivity|].
  destruct (pchild d l r) eqn:Ec; [discriminate|]. injection H as <-. split; [reflexivity|discriminate].
Qed.

Lemma rep_psub : forall h p t pp s, rep h pp t -> psub t p = Some s -> exists pp', rep h pp' s.
Proof.
  intros h. induction p as [|d p IH]; intros t pp s Hrep H.
  - destruct t; [discriminate|]. injection H as <-. eauto.
  - destruct t as [|a c l k v r]; [discriminate|]. cbn [psub] in H. simpl in Hrep. destruct Hrep as (_ & Hl & Hr).
    destruct d; cbn [pchild] in H; eauto.
Qed.

Lemma rep_psub_root : forall h t s, rep h None t -> psub t [] = Some s -> rep h None s.
Proof. intros h t s Hrep H. destruct t; [discriminate|]. now injection H as <-. Qed.

Lemma NoDup_app_l : forall (A : Type) (l1 l2 : list A), NoDup (l1 ++ l2) -> NoDup l1.
Proof.
  intros A l1. induction l1 as [|x l1 IH]; intros l2 H; [constructor|].
  inversion H; subst. constructor; [intro Hx; apply H2; apply in_or_app; now left|eapply IH; eauto].
Qed.
Lemma NoDup_app_r : forall (A : Type) (l1 l2 : list A), NoDup (l1 ++ l2) -> NoDup l2.
Proof.
  intros A l1. induction l1 as [|x l1 IH]; intros l2 H; [exact H|]. inversion H; subst. eapply IH; eauto.
Qed.
Lemma NoDup_app_disj : forall (A : Type) (l1 l2 : list A) x, NoDup (l1 ++ l2) -> In x l1 -> In x l2 -> False.
Proof.
  intros A l1. induction l1 as [|y l1 IH]; intros l2 x H H1 H2; [contradiction|].
  inversion H; subst. destruct H1 as [->|H1]; [apply H4; apply in_or_app; now right|eapply IH; eauto].
Qed.

Lemma psub_nodup : forall p t s, NoDup (addrs t) -> psub t p = Some s -> NoDup (addrs s).
Proof.
  induction p as [|d p IH]; intros t s Hn H.
  - destruct t; [discriminate|]. now injection H as <-.
  - destruct t as [|a c l k v r]; [discriminate|]. cbn [psub] in H. cbn [addrs] in Hn. inversion Hn; subst.
    destruct d; cbn [pchild] in H; eapply IH; eauto; [eapply NoDup_app_l|eapply NoDup_app_r]; eauto.
Qed.

Lemma siblings_differ : forall a c l k v r x, NoDup (addrs (PT a c l k v r)) ->
  root_ptr r = Some x -> root_ptr l <> Some x.
Proof.
  intros a c l k v r x Hn Hr Hl. cbn [addrs] in Hn. inversion Hn; subst.
  destruct l as [|la ? ? ? ? ?]; [discriminate|]. destruct r as [|ra ? ? ? ? ?]; [discriminate|].
  cbn [root_ptr] in *. injection Hl as ->. injection Hr as ->.
  eapply (NoDup_app_disj _ _ _ x H2); cbn [addrs]; now left.
Qed.
Lemma siblings_differ' : forall a c l k v r x, NoDup (addrs (PT a c l k v r)) ->
  root_ptr l = Some x -> root_ptr r <> Some x.
Proof. intros a c l k v r x Hn Hl Hr. eapply siblings_differ; eauto. Qed.

Lemma psub_height : forall p t s, psub t p = Some s ->
  (length p + AVL.height (erase s) <= AVL.height (erase t))%nat.
Proof.
  induction p as [|d p IH]; intros t s H.
  - destruct t; [discriminate|]. injection H as <-. simpl. lia.
  - destruct t as [|a c l k v r]; [discriminate|]. cbn [psub] in H. specialize (IH _ _ H).
    cbn [erase AVL.height length]. destruct d; cbn [pchild] in IH; lia.
Qed.
