(* END-TO-END COROLLARY, property C13 (Properties/C13.v) about runs of the GENERATED sets/hashset code: for ANY two generated runs
   a = HashSetGenProofs.gen_run opsA, b = gen_run opsB (Add(items...) / Remove(items...) / Clear, any lists, from the generated New())
   and ANY iteration order [mo] of Go's map (a permutation of the entries), an element is in the generated Intersection(a, b) /
   Union(a, b) / Difference(a, b) -- i.e. is a key of the result's Go map, all of whose values are struct{}{} -- exactly when the
   generated Contains says it is in both / in either / in a and not in b.  The operands are values (the translation is purely
   functional: a and b are what they were, by construction; that the Go result shares no memory with them is the business of
   C16 / C18).  NOT stated: the size of the result and the TreeSet algebra over the pointer code (TreeSetGenProofs.Union_equiv etc.
   are exact but go through the abstract enumeration of the set's iterator, not the generated pointer iterator). *)
From Coq Require Import ZArith List Lia Bool Arith Permutation.
From Gods Require Import Common.Cmp Model.Ops Model.Machine.
From GodsGen Require HashSetGen.
From GodsGenProofs Require Import GenIterRun WrapCommon GoCmp GoMap.
From GodsGenProofs Require HashSetGenProofs.
Import ListNotations.
Local Open Scope Z_scope.

Module HS := HashSetGenProofs. Module S := HashSetGen.

Lemma obool_inj : forall a b, obool a = obool b -> a = b.
Proof. intros [|] [|] H; try reflexivity; discriminate H. Qed.

(* OBLIGATION *)
Theorem gen_hashset_algebra : forall (mo : gmap -> list (Z * Z)), (forall m, Permutation (mo m) m) ->
  forall c opsA opsB, ckind c = HashSet ->
  let a := HS.gen_run opsA in let b := HS.gen_run opsB in
  forall x,
  (hmem x (S.items (S.Intersection mo a b)) = S.Contains a [x] && S.Contains b [x]) /\
  (hmem x (S.items (S.Union mo a b)) = S.Contains a [x] || S.Contains b [x]) /\
  (hmem x (S.items (S.Difference mo a b)) = S.Contains a [x] && negb (S.Contains b [x])) /\
  HS.zero_vals (S.items (S.Intersection mo a b)) /\ HS.zero_vals (S.items (S.Union mo a b)) /\ HS.zero_vals (S.items (S.Difference mo a b)) /\
  (exists la lb, run c (map HS.to_op opsA) = StHSet la /\ run c (map HS.to_op opsB) = StHSet lb /\
     hmem x (S.items (S.Intersection mo a b)) = smem x (hs_inter la lb) /\
     hmem x (S.items (S.Union mo a b)) = smem x (hs_union la lb) /\
     hmem x (S.items (S.Difference mo a b)) = smem x (hs_diff la lb)).
Proof.
  intros mo Hmo c opsA opsB K a b x.
  destruct (HS.gen_run_simulates c K opsA) as (la & Ha & Ra). destruct (HS.gen_run_simulates c K opsB) as (lb & Hb & Rb). fold a in Ra. fold b in Rb.
  assert (Ca : S.Contains a [x] = smem x la).
  { apply obool_inj. rewrite <- (HS.Contains_equiv c a la [x] Ra). cbn. rewrite andb_true_r. reflexivity. }
  assert (Cb : S.Contains b [x] = smem x lb).
  { apply obool_inj. rewrite <- (HS.Contains_equiv c b lb [x] Rb). cbn. rewrite andb_true_r. reflexivity. }
  destruct (HS.Intersection_members mo Hmo a b la lb Ra Rb x) as (I1 & I2).
  destruct (HS.Union_members mo Hmo a b la lb Ra Rb x) as (U1 & U2).
  destruct (HS.Difference_members mo Hmo a b la lb Ra Rb x) as (D1 & D2).
  split; [rewrite I1, Ca, Cb; unfold hs_inter; apply HS.smem_filter|].
  split; [rewrite U1, Ca, Cb; unfold hs_union; rewrite HS.smem_fold_sadd; unfold smem at 1; cbn [existsb orb];
          unfold smem; rewrite existsb_app; reflexivity|].
  split; [rewrite D1, Ca, Cb; unfold hs_diff; apply HS.smem_filter|].
  split; [exact I2|]. split; [exact U2|]. split; [exact D2|].
  exists la, lb. repeat split; assumption.
Qed.
Print Assumptions gen_hashset_algebra.

(* a concrete run (an Example; keyword Lemma so that run.py can isolate it): the map enumerated in its stored order *)
Lemma ex_setalgebra_generated_run :
  let mo := fun m : gmap => m in
  let a := HS.gen_run [HS.GAdd [3; 1; 3; 2]; HS.GRemove [1]; HS.GAdd [5]] in
  let b := HS.gen_run [HS.GAdd [9; 2]; HS.GClear; HS.GAdd [5; 7; 3]] in
  (map fst (S.items (S.Intersection mo a b)), map fst (S.items (S.Union mo a b)), map fst (S.items (S.Difference mo a b)),
   map fst (S.items a), map fst (S.items b)) = ([3; 5], [2; 3; 5; 7], [2], [2; 3; 5], [3; 5; 7]).
Proof. vm_compute. reflexivity. Qed.
