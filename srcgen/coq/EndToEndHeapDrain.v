(* END-TO-END COROLLARY, property C06 (Properties/C06.v, C06_drain_sorted) about runs of the GENERATED binary heap over the generated
   ArrayList core (BinaryHeapOverArrayListProofs.gen_run_p: Push(values...) / Pop / Clear, any list, from the generated constructor):
   after ANY run whose content is l, popping until empty -- the runs ops ++ [Pop; ..; Pop] -- hands out, one by one, a sequence d
   that is sorted under the comparator and a permutation of l; every one of these generated Pops returns (x, true), and the
   heap ends empty. *)
From Coq Require Import ZArith List Lia Bool Arith Permutation Sorted.
From Gods Require Import Common.Cmp Common.ListAux Spec.SeqSpec Spec.BagSpec Model.Ops Model.Lists Model.Machine.
From Gods Require Model.Heap.
From Gods Require Import Proofs.HeapProofs Proofs.C06Proofs.
From GodsGenProofs Require Import GoSlice GenIterRun WrapCommon ArrayListIface BinaryHeapOverArrayListProofs.
Import ListNotations.
Local Open Scope Z_scope.

Module BO := BinaryHeapOverArrayListProofs.

Lemma pushed_pops : forall ops i, HP.pushed (ops ++ repeat HP.GPop i) = HP.pushed ops.
Proof.
  intros ops i. induction i as [|i IH]; [now rewrite app_nil_r|].
  replace (repeat HP.GPop (S i)) with (repeat HP.GPop i ++ [HP.GPop]) by (rewrite <- repeat_cons; reflexivity).
  rewrite app_assoc, HP.pushed_snoc, IH. lia.
Qed.

Lemma run_from_app : forall c s a b, run_from c s (a ++ b) = run_from c (run_from c s a) b.
Proof. intros c s a b. unfold run_from. apply fold_left_app. Qed.

Lemma results_nth : forall c n s i, (i < n)%nat ->
  nth_error (results_from c s (repeat Pop n)) i = Some (snd (fst (step c (run_from c s (repeat Pop i)) Pop))).
Proof.
  intros c. induction n as [|n IH]; intros s i Hi; [lia|]. unfold results_from in *. cbn [repeat trace_from map snd].
  destruct i as [|i]; [reflexivity|]. cbn [nth_error repeat]. rewrite (IH _ i ltac:(lia)). reflexivity.
Qed.

(* OBLIGATION *)
Theorem gen_heap_drain_sorted : forall c ops fuel, ckind c = BinaryHeap -> (HP.pushed ops + 2 <= fuel)%nat ->
  exists gp l d, BO.gen_run_p fuel (kc c) ops = Some gp /\ al_rel (W.list_ Ia gp) l /\ length d = length l /\
    (forall i x, nth_error d i = Some x ->
       exists gpi gp' r, BO.gen_run_p fuel (kc c) (ops ++ repeat HP.GPop i) = Some gpi /\
         W.Pop Ia fuel gpi = Some (gp', r) /\ obs_pair r = OL [OZ x]) /\
    (exists gpe, BO.gen_run_p fuel (kc c) (ops ++ repeat HP.GPop (length l)) = Some gpe /\ al_rel (W.list_ Ia gpe) [] /\ W.Size Ia gpe = 0) /\
    StronglySorted (fun a b => kc c a b <> Gt) d /\ Permutation d l.
Proof.
  intros c ops fuel K Hf. assert (HK : is_heap_kind (ckind c) = true) by now rewrite K.
  destruct (BO.binaryheap_over_arraylist_run c ops fuel K Hf) as (gp & l & Hg & Hs & Hl & _).
  destruct (C06Proofs.C06_drain_sorted c (map HP.to_op ops) l HK Hs) as (d & Hres & Hend & Hsort & Hperm).
  rewrite K in Hres, Hend. change (pop_op BinaryHeap) with Pop in Hres, Hend.
  assert (Hlen : length d = length l) by (apply Permutation_length; exact Hperm).
  assert (Hmap : forall i, map HP.to_op (ops ++ repeat HP.GPop i) = map HP.to_op ops ++ repeat Pop i).
  { intro i. rewrite map_app. f_equal. induction i as [|i IH]; [reflexivity|]. cbn [repeat map HP.to_op]. now rewrite IH. }
  exists gp, l, d. split; [exact Hg|]. split; [exact Hl|]. split; [exact Hlen|]. split; [|split; [|split; [exact Hsort|exact Hperm]]].
  - intros i x Hx. assert (Hi : (i < length l)%nat) by (rewrite <- Hlen; apply nth_error_Some; congruence).
    destruct (BO.binaryheap_over_arraylist_run c (ops ++ repeat HP.GPop i) fuel K ltac:(rewrite pushed_pops; exact Hf))
      as (gpi & li & Hgi & Hsi & _ & _ & _ & _ & _ & _ & gp' & r & HP1 & HP2).
    exists gpi, gp', r. split; [exact Hgi|]. split; [exact HP1|]. rewrite HP2, Hmap. unfold run. rewrite run_from_app. fold (run c (map HP.to_op ops)). rewrite Hs.
    pose proof (results_nth c (length l) (StHeap l) i Hi) as E. rewrite Hres, nth_error_map, Hx in E. cbn [option_map] in E. injection E as E. symmetry. exact E.
  - destruct (BO.binaryheap_over_arraylist_run c (ops ++ repeat HP.GPop (length l)) fuel K ltac:(rewrite pushed_pops; exact Hf))
      as (gpe & le & Hge & Hse & Hle & _ & OS & _).
    rewrite Hmap in Hse, OS. unfold run in Hse, OS. rewrite run_from_app in Hse, OS. fold (run c (map HP.to_op ops)) in Hse, OS. rewrite Hs, Hend in Hse, OS.
    injection Hse as <-. exists gpe. split; [exact Hge|]. split; [exact Hle|]. rewrite OS. reflexivity.
Qed.
Print Assumptions gen_heap_drain_sorted.

(* a concrete run (an Example; keyword Lemma so that run.py can isolate it): the reversed order (a max-heap); 9 was popped before *)
Definition popv (fuel : nat) (ops : list HP.gop) (i : nat) : option (Z * bool) :=
  match BO.gen_run_p fuel (cmp_of CRev) (ops ++ repeat HP.GPop i) with
  | Some g => match W.Pop Ia fuel g with Some (_, r) => Some r | None => None end
  | None => None
  end.
Lemma ex_heapdrain_generated_run :
  map (popv 12 [HP.GPush [5; 1; 9; 3]; HP.GPop; HP.GPush [7; 2]]) [0; 1; 2; 3; 4; 5]%nat =
  [Some (7, true); Some (5, true); Some (3, true); Some (2, true); Some (1, true); Some (0, false)].
Proof. vm_compute. reflexivity. Qed.
