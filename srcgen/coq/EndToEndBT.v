(* END-TO-END COROLLARIES for trees/btree (btree.go, iterator.go): the properties C07, C01, C02, C08 of
   /verif/coq/theories/Properties stated DIRECTLY about runs of the GENERATED pointer code (GodsGen.BTreeHeapGen), for every
   order m >= 3.  [bt_gen_run mag m cmp fuel ops] = the generated NewWith(m, cmp) on the empty heap followed by the generated
   Put / Remove of the list [ops] (any list).  Bridge ([gen_bt_reach]): for every configuration c of kind BTree with
   3 <= corder c the run never fails and its heap REPRESENTS (BTreeHeapRep.tree_repr: the Entries and Children slices and the
   Parent pointer of every node, size = number of entries) the tree of the machine state [Machine.run c (map to_op ops)].
   Same layout as EndToEndRB.v; Keys() / Values() of the B-tree are not translated (README, "Not translated"), and the gods
   B-tree has no Floor / Ceiling.  This file: the bridge; EndToEndBTCost.v (C07), EndToEndBTMap.v (C01), EndToEndBTOrd.v (C02), EndToEndBTIter.v (C08 and the
   concrete run) are compiled in parallel after it. *)
From Coq Require Import ZArith List Lia Bool Arith Sorted SetoidList.
From Gods Require Import Common.Cmp Common.ListAux Spec.MapSpec Spec.SeqSpec Model.Ops Model.Machine Model.BTree Model.BTreeCost Model.BTreeIter Model.Iter.
From Gods Require Proofs.BTreeInv Proofs.BTreeMap Proofs.BTreeBounds Proofs.BTreeCostProofs Proofs.MapSpecProofs Proofs.MachineMaps Proofs.MachineTrees
  Proofs.IterLinear Proofs.IterTreeMachine Proofs.IterTreeRB Proofs.IterTreeBT.
From GodsGen Require BTreeHeapGen.
From GodsGenProofs Require Import GoCmp GoTreeHeap GoBTreeHeap BTreeHeapRep BTreeHeapReadProofs BTreeHeapIterProofs BTreeHeapIterToProofs.
From GodsGenProofs Require Import BTreeHeapPutProofs BTreeHeapRemoveProofs.
Import ListNotations.
Local Open Scope Z_scope.

Module MM := MachineMaps.
Module MT := MachineTrees.

Definition to_op (o : bop) : op := match o with BPut k v => Put k v | BRemove k => Remove k end.
Definition to_mop (o : bop) : mop := match o with BPut k v => MPut k v | BRemove k => MRemove k end.

Definition bt_gen_run (mag : Z -> Z -> positive) (m : Z) (cmp : cmpf) (fuel : nat) (ops : list bop) : option (nat * heap G.Node * G.Tree) :=
  match G.NewWith (@empty_heap G.Node) m cmp with Some tr0 => gen_ops mag fuel 0 (@empty_heap G.Node) tr0 ops | None => None end.

Lemma hist_to_op : forall c ops, MM.hist c (map to_op ops) = map to_mop ops.
Proof. intros c ops. unfold MM.hist. induction ops as [|[k v|k] ops IH]; cbn [map flat_map MM.hist1 to_op to_mop app]; congruence. Qed.

Lemma fuel_eq : forall m ot, BTreeInv.btree_inv m ot -> S (BTreeInv.hroot ot) = bt_fuel ot /\ (bmaxheight ot <= S (BTreeInv.hroot ot))%nat.
Proof.
  intros m [t|] H; cbn [BTreeInv.hroot bt_fuel bmaxheight]; [|split; [reflexivity|lia]].
  rewrite (BTreeInv.btree_inv_height _ _ H). split; [reflexivity|lia].
Qed.

Lemma model_ops_machine : forall c, ckind c = BTree -> 3 <= corder c -> forall ops ot n ot' n',
  BTreeInv.btree_inv (bt_m c) ot -> BTreeInv.sorted_root (kc c) ot ->
  model_ops (bt_m c) (kc c) ot n ops = Some (ot', n') ->
  run_from c (StBT ot (Z.of_nat (bcount ot))) (map to_op ops) = StBT ot' (Z.of_nat (bcount ot')) /\
  (bmaxheight ot' <= bmaxheight ot + length ops)%nat /\ (bcount ot' <= bcount ot + length ops)%nat.
Proof.
  intros c K Ho. pose proof (MT.bt_valid_m c Ho) as H3. pose proof (MM.kc_SWO c) as Hswo.
  induction ops as [|o ops IH]; intros ot n ot' n' Hinv Hsort Hm; [injection Hm as <- <-; split; [reflexivity|cbn; lia]|].
  unfold run_from in *. cbn [map fold_left model_ops length] in *.
  destruct (fuel_eq _ _ Hinv) as (Hfe & Hfl).
  destruct o as [k v|k]; cbn [to_op model_op] in *.
  - destruct (BTreeInv.put_correct (bt_m c) (kc c) (k, v) ot H3 Hswo Hinv Hsort) as (ot1 & b & Hput & Hinv1 & Hsort1 & _).
    rewrite Hput in Hm. destruct (put_count _ _ _ _ ot ot1 b H3 Hswo (inv_owf _ _ _ Hinv Hsort) Hfl Hput) as (_ & Hc).
    pose proof (put_height _ _ _ _ ot ot1 b H3 Hinv Hfl Hput) as Hh.
    unfold step at 2. unfold bt_put. rewrite <- Hfe, Hput. cbn [fst].
    replace (if b then Z.of_nat (bcount ot) + 1 else Z.of_nat (bcount ot)) with (Z.of_nat (bcount ot1)) by (destruct b; lia).
    destruct (IH ot1 _ ot' n' Hinv1 Hsort1 Hm) as (E & Hle & Hlc). rewrite E. split; [reflexivity|destruct b; lia].
  - destruct (BTreeInv.remove_correct (bt_m c) (kc c) k ot H3 Hswo Hinv Hsort) as (ot1 & b & Hrem & Hinv1 & Hsort1 & _).
    rewrite Hrem in Hm. destruct (remove_facts _ _ _ k ot ot1 b H3 Hswo Hinv Hsort Hfl Hrem) as (_ & _ & Hc & Hh).
    unfold step at 2. unfold bt_remove. rewrite <- Hfe, Hrem. cbn [fst].
    replace (if b then Z.of_nat (bcount ot) - 1 else Z.of_nat (bcount ot)) with (Z.of_nat (bcount ot1)) by (destruct b; lia).
    destruct (IH ot1 _ ot' n' Hinv1 Hsort1 Hm) as (E & Hle & Hlc). rewrite E. split; [reflexivity|destruct b; lia].
Qed.

(* the generated run never fails and represents the machine's state (a lemma: restated with its consequences as the obligation
   EndToEndBTCost.gen_bt_shape, so that this file stays short: it is on the longest chain of the pipeline) *)
Lemma gen_bt_reach : forall mag c ops fuel, ckind c = BTree -> 3 <= corder c -> (4 * length ops + bt_m c + 3 <= fuel)%nat ->
  exists ncmp h tr ot, bt_gen_run mag (corder c) (kc c) fuel ops = Some (ncmp, h, tr) /\
    run c (map to_op ops) = StBT ot (G.Tree_size tr) /\
    tree_repr h tr ot /\ heap_ok h /\ G.Tree_Comparator tr = kc c /\ G.Tree_m tr = corder c /\
    BTreeInv.btree_inv (bt_m c) ot /\ BTreeInv.sorted_root (kc c) ot /\ (bmaxheight ot <= length ops)%nat /\ (bcount ot <= length ops)%nat.
Proof.
  intros mag c ops fuel K Ho Hf. pose proof (MT.bt_valid_m c Ho) as H3. pose proof (MM.kc_SWO c) as Hswo.
  assert (Hm : corder c = Z.of_nat (bt_m c)) by (unfold bt_m; lia).
  unfold bt_gen_run, G.NewWith. assert (E3 : (corder c <? 3) = false) by lia. rewrite E3. cbv iota.
  assert (Hrepr : tree_repr (@empty_heap G.Node) (G.mkTree None (kc c) 0 (corder c)) None) by (split; reflexivity).
  destruct (gen_ops_from mag (bt_m c) (kc c) H3 Hswo ops fuel 0%nat (@empty_heap G.Node) (G.mkTree None (kc c) 0 (corder c)) None 0%nat
              Hrepr (@heap_ok_empty G.Node) I I Hm eq_refl (Nat.le_refl _) ltac:(cbn [Nat.add]; lia))
    as (n & h & tr & ot & R1 & R2 & R3 & R4 & R5 & R6 & R7 & R8).
  destruct (model_ops_machine c K Ho ops None 0%nat ot n I I R2) as (E & Hle & Hlc).
  exists n, h, tr, ot. split; [exact R1|]. split; [|split; [exact R3|split; [exact R4|split; [exact R8|split; [rewrite R7; symmetry; exact Hm|split; [exact R5|split; [exact R6|split; [exact Hle|exact Hlc]]]]]]]].
  unfold run, init. rewrite K, E3. rewrite (proj2 R3). exact E.
Qed.


Lemma inv_size_ok : forall m h tr ot, tree_repr h tr ot -> BTreeInv.btree_inv m ot -> size_ok tr ot /\ bwf ot.
Proof.
  intros m h tr [t|] (_ & Hs) Hinv; unfold size_ok; rewrite Hs; cbn [bcount bwf]; [|split; [reflexivity|exact I]].
  split; [|eapply BTreeInv.btree_inv_wf; exact Hinv]. destruct Hinv as (hh & _ & Hc). destruct t as [es cs].
  apply BTreeInv.cnt_inv in Hc. cbn [BT.count]. apply Z.eqb_neq. lia.
Qed.

Lemma bt_valid : forall c, ckind c = BTree -> 3 <= corder c -> MM.valid c /\ MM.ordered_kind (ckind c) = true /\ MM.cmp_for c = kc c /\
  ckind c <> LinkedHashMap.
Proof. intros c K Ho. unfold MM.valid, MM.cmp_for. rewrite K. repeat split; try reflexivity; try discriminate. intros _. exact Ho. Qed.

