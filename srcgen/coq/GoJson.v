(* encoding/json for the generated serialization code (hand-written once): only the TYPES live here.
   [bytes] is a []byte (never inspected by translated code); an `error` is a bool (true = non-nil: only its
   nil-ness is modelled).  The functions json.Marshal / json.Unmarshal themselves are PARAMETERS of the
   generated definitions (Section Json of each generated file):
     unmarshal_slice data old = (new value of the target, error)      json.Unmarshal(data, &xs)
     unmarshal_map   data old = (new value of the target, error)      json.Unmarshal(data, &m)
     marshal_slice xs / marshal_map m = (bytes, error)                json.Marshal(xs) / json.Marshal(m)
   On an error the target may have been modified (encoding/json stores what it decoded before a type error):
   the theorems about FromJSON are stated for ARBITRARY decoders, so "the receiver is unchanged on an error"
   can only be proved when decoding goes into a fresh temporary. *)
From Coq Require Import ZArith List String Ascii.
Import ListNotations.

Definition bytes := list Z.
Definition nil_bytes : bytes := [].
Definition lit (s : string) : bytes := map (fun a => Z.of_N (N_of_ascii a)) (list_ascii_of_string s).

(* bytes.Buffer and byte-slice expressions (bytesbuf.go; the hand-written encoder of maps/linkedhashmap/serialization.go):
   a buffer is the list of the bytes written so far.  [sub b lo hi] is b[lo:hi]; Go panics when the bounds are not
   0 <= lo <= hi <= cap(b): NOT modelled (as for every slice access of the value mode).  Only ASCII runes are written. *)
Definition blen (b : bytes) : Z := Z.of_nat (List.length b).
Definition sub (b : bytes) (lo hi : Z) : bytes := List.skipn (Z.to_nat lo) (List.firstn (Z.to_nat hi) b).
Definition write (buf p : bytes) : bytes := (buf ++ p)%list.
Definition write_rune (buf : bytes) (r : Z) : bytes := (buf ++ [r])%list.
