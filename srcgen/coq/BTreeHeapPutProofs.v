(* WRITE PATH of trees/btree/btree.go: the GENERATED Put (GodsGen.BTreeHeapGen: Put, insert, insertIntoLeaf, insertIntoInternal and
   -- BTreeHeapSplitProofs.v -- split, splitNonRoot, splitRoot, setParent) against the functional model BT.put (Model/BTree.v) and
   the cost model BTreeCost.put_c, for EVERY heap with heap_ok, every represented tree that is well-shaped and ordered
   (wf_shape, bst: what btree_inv + sorted_root of Proofs/BTreeInv.v give, and what every reachable tree satisfies), every key
   and value, every order m >= 3, every strict weak order (needed because splitNonRoot searches the middle key in the parent
   again), every magnitude function: see [Put_correct] and [gen_puts_ok]. *)
From Coq Require Import ZArith List Lia Bool Arith ZifyBool ZifyNat.
From Gods Require Import Common.Cmp Model.BTree Model.BTreeCost Proofs.BTreeInd Proofs.BTreeMap.
From Gods Require Proofs.BTreeInv Proofs.IterTreeBT Proofs.BTreeCostProofs.
From GodsGenProofs Require Import GoCmp GoTreeHeap GoBTreeHeap BTreeHeapRep BTreeHeapReadProofs BTreeHeapInsertModel BTreeHeapWriteLemmas BTreeHeapSplitProofs.
From GodsGen Require BTreeHeapGen.
Import ListNotations.
Local Open Scope Z_scope.

Lemma wf_shape_child : forall es cs c, BTreeMap.wf_shape (BT.N es cs) -> In c cs -> BTreeMap.wf_shape c.
Proof. intros es cs c H Hc. apply BTreeMap.wf_shape_inv in H. destruct H as [_ Hf]. rewrite Forall_forall in Hf. now apply Hf. Qed.

(* the descent: insert / insertIntoInternal / insertIntoLeaf, then split *)
Lemma insert_spec : forall mag (m : nat), (3 <= m)%nat -> forall f ctx s fuel n h tr e r bb kk W,
  SWO (G.Tree_Comparator tr) ->
  zrep h tr ctx s -> cwf ctx -> BTreeMap.wf_shape (erase s) -> BTreeMap.bst (G.Tree_Comparator tr) (erase s) ->
  (BT.maxheight (erase s) <= f)%nat -> G.Tree_m tr = Z.of_nat m ->
  ins_c m (G.Tree_Comparator tr) f e (erase s) = Some (r, bb, kk) ->
  climb_ok m (G.Tree_Comparator tr) (map eframe ctx) r ->
  (cwid ctx <= W)%nat -> (wid (erase s) <= W)%nat ->
  (4 * BT.maxheight (erase s) + 2 * length ctx + W + 1 <= fuel)%nat ->
  exists h' tr',
    G.insert mag fuel n h tr (Some (paddr s)) (Some e) =
      Some ((n + kk + climb_cost m (G.Tree_Comparator tr) (map eframe ctx) r)%nat, h', tr', bb) /\
    brepr h' (G.Tree_Root tr') None (finish m (map eframe ctx) r) /\ heap_ok h' /\
    G.Tree_size tr' = G.Tree_size tr /\ G.Tree_m tr' = G.Tree_m tr /\ G.Tree_Comparator tr' = G.Tree_Comparator tr.
Proof.
  intros mag m H3. induction f as [|f IH]; intros ctx [a es cs] fuel n h tr e r bb kk W Hswo Hz Hcwf Hwf Hbst Hf Hm Hins Hclimb HW1 HW2 Hfuel;
    [discriminate|].
  cbn [erase paddr] in *. pose proof (BTreeCostProofs.mh_pos (BT.N es (map erase cs))) as Hmh.
  pose proof Hz as (Hrep & Hcr & Hnd & Hok & Hroot). pose proof (rep_deref _ _ _ _ _ Hrep) as Hd.
  pose proof (wid_entries es (map erase cs)) as Hwe.
  pose proof (search_c_le_len (G.Tree_Comparator tr) (fst e) es) as Hsc.
  destruct fuel as [|fuel]; [lia|]. cbn [G.insert]. fold (G.insertIntoInternal mag).
  rewrite (isLeaf_rep h tr _ a es cs Hrep).
  pose proof Hins as Hins0. cbn [ins_c] in Hins. destruct (BT.search (G.Tree_Comparator tr) (fst e) es) as [pos found] eqn:Es.
  destruct (BTreeInd.search_bound _ _ _ _ _ Es) as [Hpos Hposf].
  assert (Hsearch : forall F nn, (length es <= F)%nat ->
            G.search mag F nn h tr (Some a) (fst e) = Some ((nn + search_c (G.Tree_Comparator tr) (fst e) es)%nat, Z.of_nat pos, found)).
  { intros F nn HF. rewrite (search_correct mag h tr (Some a) _ es (fst e) F nn Hd eq_refl) by lia. now rewrite Es. }
  (* what the two "found" branches do: the entry is replaced in place *)
  assert (Hreplace : found = true ->
            exists h', (do c4 <- deref h (Some a); do x5 <- sl_set (G.Node_Entries c4) (Z.of_nat pos) (Some e);
                        do h0 <- store h (Some a) (G.Node_with_Entries x5);
                        Some ((n + search_c (G.Tree_Comparator tr) (fst e) es)%nat, h0, tr, false)) =
                       Some ((n + search_c (G.Tree_Comparator tr) (fst e) es)%nat, h', tr, false) /\
                       zrep h' tr ctx (PN a (replace_at pos e es) cs)).
  { intros ->. specialize (Hposf eq_refl). rewrite Hd. cbn [node_of G.Node_Entries].
    rewrite sl_set_nat by (rewrite len_eptrs; exact Hposf). rewrite eptrs_replace_at.
    unfold deref in Hd. rewrite (store_hset _ _ _ _ Hd). eexists. split; [reflexivity|].
    eapply zrep_set_entries; [exact Hz| | |].
    - rewrite hread_hset, Nat.eqb_refl. reflexivity.
    - intros x Hx. rewrite hread_hset. now rewrite (proj2 (Nat.eqb_neq x a) Hx).
    - apply heap_ok_hset; [exact Hok|congruence]. }
  assert (Hfin : forall h' es', zrep h' tr ctx (PN a es' cs) ->
            brepr h' (G.Tree_Root tr) None (finish m (map eframe ctx) (BT.IOk (BT.N es' (map erase cs)))) /\ heap_ok h').
  { intros h' es' Hz'. rewrite finish_IOk. destruct (zrep_close _ _ _ _ Hz') as (pt & He & Hr & Hrp & Hn & Hok').
    split; [|exact Hok']. exists pt. cbn [erase] in He. rewrite He. repeat split; assumption. }
  destruct found.
  - (* the key is in this node *)
    injection Hins as <- <- <-. destruct (Hreplace eq_refl) as (h' & Hrun & Hz'). rewrite climb_cost_IOk, Nat.add_0_r.
    destruct (Hfin h' _ Hz') as [Hb' Hok'].
    destruct cs as [|c0 cs0].
    + unfold G.insertIntoLeaf. unfold Entry_Key. rewrite Hsearch by lia. rewrite Hrun.
      exists h', tr. repeat split; assumption.
    + destruct fuel as [|fuel]; [lia|]. cbn [G.insertIntoInternal]. unfold Entry_Key. rewrite Hsearch by lia. rewrite Hrun.
      exists h', tr. repeat split; assumption.
  - destruct cs as [|c0 cs0].
    + (* a leaf: the entry is inserted, then the node may have to be split *)
      cbn [map] in *. injection Hins as <- <- <-.
      unfold G.insertIntoLeaf. unfold Entry_Key. rewrite Hsearch by lia.
      unfold deref in *. rewrite Hd. nsimp. cbn [node_of G.Node_Entries].
      erewrite store_hset by exact Hd. hs. cbn [node_of].
      change (@None (Z * Z) :: []) with [@None (Z * Z)].
      rewrite shift_slice by (rewrite len_eptrs; exact Hpos).
      rewrite shift_copy by (rewrite len_eptrs; exact Hpos).
      erewrite store_hset by (hsimp; reflexivity). hs.
      rewrite shift_set by (rewrite len_eptrs; exact Hpos).
      erewrite store_hset by (hsimp; reflexivity). hs. rewrite eptrs_insert_at.
      match goal with |- context [G.split mag _ _ ?H _ _] => set (hF := H) end.
      assert (Hz' : zrep hF tr ctx (PN a (insert_at pos e es) [])).
      { eapply zrep_set_entries; [exact Hz| | |].
        - unfold hF. rewrite hread_hset, Nat.eqb_refl. reflexivity.
        - intros x Hx. unfold hF. rewrite !hread_hset. now rewrite (proj2 (Nat.eqb_neq x a) Hx).
        - unfold hF. repeat (apply heap_ok_hset; [|rewrite ?hread_hset, ?Nat.eqb_refl; try discriminate]); [exact Hok|congruence]. }
      destruct (split_correct mag m H3 ctx (PN a (insert_at pos e es) []) (S fuel)
                  (n + search_c (G.Tree_Comparator tr) (fst e) es)%nat hF tr Hz' Hcwf (or_introl eq_refl) Hm Hclimb ltac:(lia))
        as (h' & tr' & Hrun & Hres).
      cbn [paddr erase map] in Hrun, Hres. rewrite Hrun. exists h', tr'. split; [reflexivity|exact Hres].
    + (* an internal node: down into the child *)
      set (cs := c0 :: cs0) in *.
      assert (Hne : map erase cs <> []) by discriminate.
      destruct (map erase cs) as [|ec0 ecs0] eqn:Emap; [congruence|]. rewrite <- Emap in *. clear Hne.
      rewrite nth_erase in Hins. destruct (nth_error cs pos) as [c|] eqn:Ec; [|discriminate]. cbn [option_map] in Hins.
      destruct (split_nth _ _ _ _ Ec) as (ls & rs & Ecs & Hlen). clearbody cs. subst cs. subst pos. clear Emap ec0 ecs0.
      assert (Hzc : zrep h tr (PF a es ls rs :: ctx) c) by (apply zrep_down; exact Hz).
      rewrite map_app in *. cbn [map] in *.
      assert (Hinc : In (erase c) (map erase ls ++ erase c :: map erase rs)) by (apply in_or_app; right; now left).
      pose proof (BTreeMap.maxheight_child es _ _ Hinc) as Hmc.
      pose proof (wid_child es _ _ Hinc) as Hwc.
      pose proof (wf_shape_child _ _ _ Hwf Hinc) as Hwfc.
      assert (Hnc : nth_error (map erase ls ++ erase c :: map erase rs) (length ls) = Some (erase c))
        by (rewrite <- (map_length erase ls); apply nth_error_app_mid).
      assert (Hbc : BTreeMap.bst (G.Tree_Comparator tr) (erase c)) by (eapply IterTreeBT.bst_child; eauto).
      destruct (ins_c m (G.Tree_Comparator tr) f e (erase c)) as [[[rc bc] kc]|] eqn:Eic; [|discriminate].
      assert (Hup : r = up m (es, map erase ls, map erase rs) rc /\ bb = bc /\
                    kk = (search_c (G.Tree_Comparator tr) (fst e) es + kc +
                          match rc with BT.ISplit _ mid _ => search_c (G.Tree_Comparator tr) (fst mid) es | BT.IOk _ => 0 end)%nat).
      { rewrite (proj2 (ins_internal m (G.Tree_Comparator tr) f e es (map erase ls) (erase c) (map erase rs)
                         ltac:(rewrite map_length; exact Es))) in Hins0.
        rewrite Eic in Hins0. injection Hins0 as <- <- <-. repeat split. }
      destruct Hup as (-> & -> & ->).
      assert (Hwfa : (length ls + length rs = length es)%nat).
      { apply BTreeMap.wf_shape_inv in Hwf. destruct Hwf as [[Hnil|Hl] _]; [destruct (map erase ls); discriminate|].
        rewrite app_length in Hl. cbn [length] in Hl. rewrite !map_length in Hl. lia. }
      destruct fuel as [|fuel]; [lia|]. cbn [G.insertIntoInternal]. fold (G.insert mag). unfold Entry_Key.
      rewrite Hsearch by lia. rewrite Hd. cbn [node_of G.Node_Children]. rewrite cptrs_app. cbn [cptrs map].
      rewrite sl_get_nat. rewrite <- (len_cptrs ls). rewrite nth_error_app_mid.
      destruct (IH (PF a es ls rs :: ctx) c fuel (n + search_c (G.Tree_Comparator tr) (fst e) es)%nat h tr e rc bc kc W Hswo Hzc)
        as (h' & tr' & Hrun & Hres).
      { constructor; [exact Hwfa|exact Hcwf]. }
      { exact Hwfc. }
      { exact Hbc. }
      { lia. }
      { exact Hm. }
      { exact Eic. }
      { cbn [map eframe climb_ok]. destruct rc as [c'|l0 mid0 r0]; [exact I|]. split; [|exact Hclimb].
        rewrite map_length. eapply (ins_split_key m (G.Tree_Comparator tr) Hswo H3 f e es); try eassumption.
        - lia.
        - rewrite ins_c_ins, Eic. reflexivity. }
      { cbn [cwid]. lia. }
      { lia. }
      { cbn [length]. lia. }
      rewrite Hrun. exists h', tr'. split; [|exact Hres].
      cbn [map eframe climb_cost]. destruct rc as [c'|l0 mid0 r0]; cbn [up]; rewrite ?climb_cost_IOk;
        match goal with |- Some (?X, _, _, _) = Some (?Y, _, _, _) => replace X with Y by lia end; reflexivity.
Qed.

(* ---------- Put ---------- *)
Definition owf (cmp : cmpf) (ot : option BT.node) : Prop := BTreeMap.wf_root cmp ot.

Lemma bcount_inorder : forall ot, bcount ot = length (BTreeMap.inorder' ot).
Proof. intros [t|]; [apply BTreeMap.count_inorder_gen|reflexivity]. Qed.

Lemma put_count : forall (m : nat) cmp f e ot ot' grew, (3 <= m)%nat -> SWO cmp -> owf cmp ot -> (bmaxheight ot <= f)%nat ->
  BT.put m cmp f e ot = Some (ot', grew) ->
  owf cmp ot' /\ bcount ot' = (bcount ot + if grew then 1 else 0)%nat.
Proof.
  intros m cmp f e ot ot' grew H3 Hswo Hwf Hf Hput.
  destruct (BTreeMap.put_inorder cmp Hswo m H3 f e ot ot' grew) as (Hin & Hwf' & Hb); [destruct ot; [exact Hf|exact I]|exact Hwf|exact Hput|].
  split; [exact Hwf'|]. rewrite !bcount_inorder, Hin. rewrite MapSpecProofs.ins_list_length.
  - rewrite Hb. destruct (MapSpec.mem_list cmp (fst e) (BTreeMap.inorder' ot)); cbn [negb]; [rewrite Nat.add_0_r|rewrite Nat.add_1_r]; reflexivity.
  - exact Hswo.
  - destruct ot as [t|]; [exact (proj2 Hwf)|apply BTreeMap.ksorted_nil].
Qed.

(* OBLIGATION *)
Theorem Put_correct : forall mag (m : nat) h tr ot key value f fuel n ot' grew,
  (3 <= m)%nat -> SWO (G.Tree_Comparator tr) -> heap_ok h -> tree_repr h tr ot -> G.Tree_m tr = Z.of_nat m ->
  owf (G.Tree_Comparator tr) ot -> (bmaxheight ot <= f)%nat ->
  BT.put m (G.Tree_Comparator tr) f (key, value) ot = Some (ot', grew) ->
  (4 * bmaxheight ot + bwid ot + 1 <= fuel)%nat ->
  exists h' tr',
    G.Put mag fuel n h tr key value = Some ((n + put_c m (G.Tree_Comparator tr) f (key, value) ot)%nat, h', tr') /\
    tree_repr h' tr' ot' /\ heap_ok h' /\
    G.Tree_size tr' = G.Tree_size tr + (if grew then 1 else 0) /\
    G.Tree_m tr' = G.Tree_m tr /\ G.Tree_Comparator tr' = G.Tree_Comparator tr.
Proof.
  intros mag m h tr ot key value f fuel n ot' grew H3 Hswo Hok [Hroot Hsize] Hm Hwf Hf Hput Hfuel.
  destruct (put_count m _ f _ ot ot' grew H3 Hswo Hwf Hf Hput) as [_ Hcnt].
  unfold G.Put. cbv zeta. destruct ot as [t|].
  - (* a non-empty tree *)
    destruct Hroot as (pt & <- & Hr & Hrep & Hnd). cbn [bmaxheight bwid] in *.
    destruct (put_is_finish m (G.Tree_Comparator tr) f (key, value) (erase pt)) as [Hp Hc]. rewrite Hp in Hput. rewrite Hc.
    destruct (ins_c m (G.Tree_Comparator tr) f (key, value) (erase pt)) as [[[r bb] kk]|] eqn:Ei; [|discriminate].
    injection Hput as <- <-. rewrite Hr. cbn [is_nil].
    assert (Hz : zrep h tr [] pt).
    { unfold zrep. cbn [cparent crep caddrs croot]. rewrite app_nil_r. repeat split; assumption. }
    destruct Hwf as [Hwfs Hbst].
    destruct (insert_spec mag m H3 f [] pt fuel n h tr (key, value) r bb kk (wid (erase pt)) Hswo Hz (Forall_nil _) Hwfs Hbst Hf Hm Ei I)
      as (h' & tr' & Hrun & Hb' & Hok' & Hs' & Hm' & Hc'); [cbn [cwid]; lia|lia|cbn [length]; lia|].
    cbn [map climb_cost finish] in *. rewrite Nat.add_0_r in Hrun. unfold BT.entry, BTree.entry in Hrun.
    destruct bb.
    + eexists. eexists. split; [rewrite Hrun; reflexivity|]. cbn [G.Tree_set_size G.Tree_Root G.Tree_size G.Tree_m G.Tree_Comparator].
      split; [|split; [exact Hok'|split; [lia|split; assumption]]].
      split; [exact Hb'|]. cbn [G.Tree_set_size G.Tree_size]. rewrite Hs', Hsize, Hcnt. cbn [bcount]. lia.
    + eexists. eexists. split; [rewrite Hrun; reflexivity|].
      split; [|split; [exact Hok'|split; [lia|split; assumption]]].
      split; [exact Hb'|]. rewrite Hs', Hsize, Hcnt. cbn [bcount]. lia.
  - (* the empty tree: a new root *)
    cbn [root_repr] in Hroot. rewrite Hroot. cbn [is_nil BT.put put_c] in *. injection Hput as <- <-.
    rewrite alloc_halloc. cbv beta iota. rewrite Nat.add_0_r. eexists. eexists. split; [reflexivity|].
    cbn [G.Tree_set_size G.Tree_set_Root G.Tree_Root G.Tree_size G.Tree_m G.Tree_Comparator].
    split; [|split; [now apply heap_ok_halloc|repeat split]].
    split.
    + exists (PN (hnext h) [(key, value)] []). cbn [G.Tree_Root erase map paddr addrs flat_map].
      split; [reflexivity|]. split; [reflexivity|]. split; [|constructor; [intros []|constructor]].
      apply rep_unfold. split; [|constructor]. rewrite hread_halloc, Nat.eqb_refl. reflexivity.
    + cbn [G.Tree_size G.Tree_set_size G.Tree_set_Root]. rewrite Hsize. reflexivity.
Qed.
Print Assumptions Put_correct.

(* ---------- runs of Puts from the constructor ---------- *)
Fixpoint gen_puts (mag : Z -> Z -> positive) (fuel n : nat) (h : heap G.Node) (tr : G.Tree) (kvs : list (Z * Z))
  : option (nat * heap G.Node * G.Tree) :=
  match kvs with
  | [] => Some (n, h, tr)
  | (k, v) :: rest => match G.Put mag fuel n h tr k v with Some (n', h', tr') => gen_puts mag fuel n' h' tr' rest | None => None end
  end.

(* the model's run with the fuel the machine uses, and the sum of the model's comparator-call counts *)
Fixpoint model_puts (m : nat) (cmp : cmpf) (ot : option BT.node) (cost : nat) (kvs : list (Z * Z)) : option (option BT.node * nat) :=
  match kvs with
  | [] => Some (ot, cost)
  | e :: rest =>
    match BT.put m cmp (S (BTreeInv.hroot ot)) e ot with
    | Some (ot', _) => model_puts m cmp ot' (cost + put_c m cmp (S (BTreeInv.hroot ot)) e ot) rest
    | None => None
    end
  end.

Lemma cnt_wid : forall m lo n, (lo <= BT.maxEntries m)%nat -> BTreeInv.cnt m lo n -> (wid n <= BT.maxEntries m)%nat.
Proof.
  intros m lo n Hlo. revert lo Hlo. induction n as [es cs IH] using BTreeInd.node_ind2. intros lo Hlo H.
  apply BTreeInv.cnt_inv in H. destruct H as [Hl Hf]. cbn [wid]. apply Nat.max_lub; [lia|].
  assert (Hall : Forall (fun k => (k <= BT.maxEntries m)%nat) (map wid cs)).
  { rewrite Forall_forall in *. intros k Hk. apply in_map_iff in Hk. destruct Hk as (c & <- & Hc).
    apply (IH c Hc (BT.minEntries m)); [|apply Hf; exact Hc]. specialize (Hf c Hc). destruct c. apply BTreeInv.cnt_inv in Hf. lia. }
  clear - Hall. induction Hall; cbn [list_max fold_right]; [lia|]. apply Nat.max_lub; assumption.
Qed.

Lemma put_height : forall (m : nat) cmp f e ot ot' b, (3 <= m)%nat -> BTreeInv.btree_inv m ot -> (bmaxheight ot <= f)%nat ->
  BT.put m cmp f e ot = Some (ot', b) -> (bmaxheight ot' <= S (bmaxheight ot))%nat.
Proof.
  intros m cmp f e [t|] ot' b H3 Hinv Hf Hput; cbn [BT.put] in Hput.
  - destruct Hinv as (hh & Hb & Hc). pose proof (BTreeMap.bal_maxheight _ _ Hb) as Hmh. cbn [bmaxheight] in *.
    destruct (BTreeInv.ins_inv m H3 cmp f hh 1 e t Hb Hc ltac:(lia)) as (r & b' & Ei & Hok). rewrite Ei in Hput.
    destruct r as [n'|l mid rr]; injection Hput as <- <-; cbn [BTreeInv.ins_ok bmaxheight] in *.
    + destruct Hok as [Hb' _]. rewrite (BTreeMap.bal_maxheight _ _ Hb'). lia.
    + destruct Hok as (Hbl & Hbr & _). cbn [BT.maxheight map list_max fold_right].
      rewrite (BTreeMap.bal_maxheight _ _ Hbl), (BTreeMap.bal_maxheight _ _ Hbr). lia.
  - injection Hput as <- <-. cbn. lia.
Qed.

Lemma inv_owf : forall m cmp ot, BTreeInv.btree_inv m ot -> BTreeInv.sorted_root cmp ot -> owf cmp ot.
Proof. intros m cmp [t|] Hi Hs; [|exact I]. split; [eapply BTreeInv.btree_inv_wf; exact Hi|exact Hs]. Qed.

Lemma inv_wid : forall m ot, (3 <= m)%nat -> BTreeInv.btree_inv m ot -> (bwid ot <= m - 1)%nat.
Proof.
  intros m [t|] H3 Hi; [|cbn; lia]. destruct Hi as (hh & _ & Hc). cbn [bwid].
  apply (cnt_wid m 1 t); [unfold BT.maxEntries; lia|exact Hc].
Qed.

Lemma gen_puts_from : forall mag (m : nat) cmp, (3 <= m)%nat -> SWO cmp -> forall kvs fuel n h tr ot k,
  tree_repr h tr ot -> heap_ok h -> BTreeInv.btree_inv m ot -> BTreeInv.sorted_root cmp ot ->
  G.Tree_m tr = Z.of_nat m -> G.Tree_Comparator tr = cmp -> (bmaxheight ot <= k)%nat ->
  (4 * (k + length kvs) + m + 1 <= fuel)%nat ->
  exists n' h' tr' ot',
    gen_puts mag fuel n h tr kvs = Some (n', h', tr') /\ model_puts m cmp ot n kvs = Some (ot', n') /\
    tree_repr h' tr' ot' /\ heap_ok h' /\ BTreeInv.btree_inv m ot' /\ BTreeInv.sorted_root cmp ot' /\
    G.Tree_m tr' = Z.of_nat m /\ G.Tree_Comparator tr' = cmp.
Proof.
  intros mag m cmp H3 Hswo. induction kvs as [|[key value] rest IH]; intros fuel n h tr ot k Hrepr Hok Hinv Hsort Hm Hc Hk Hfuel.
  - exists n, h, tr, ot. split; [reflexivity|]. split; [reflexivity|]. split; [exact Hrepr|]. split; [exact Hok|].
    split; [exact Hinv|]. split; [exact Hsort|]. split; assumption.
  - cbn [gen_puts model_puts length] in *.
    destruct (BTreeInv.put_correct m cmp (key, value) ot H3 Hswo Hinv Hsort) as (ot' & b & Hput & Hinv' & Hsort' & _).
    rewrite Hput.
    assert (Hf : (bmaxheight ot <= S (BTreeInv.hroot ot))%nat).
    { destruct ot as [t|]; [|cbn; lia]. cbn [bmaxheight BTreeInv.hroot]. rewrite (BTreeInv.btree_inv_height _ _ Hinv). lia. }
    pose proof (inv_wid m ot H3 Hinv) as Hw.
    subst cmp.
    destruct (Put_correct mag m h tr ot key value (S (BTreeInv.hroot ot)) fuel n ot' b H3 Hswo Hok Hrepr Hm
                (inv_owf _ _ _ Hinv Hsort) Hf Hput ltac:(lia)) as (h' & tr' & Hrun & Hrepr' & Hok' & _ & Hm' & Hc').
    rewrite Hrun.
    pose proof (put_height m _ _ _ ot ot' b H3 Hinv Hf Hput) as Hh.
    destruct (IH fuel (n + put_c m (G.Tree_Comparator tr) (S (BTreeInv.hroot ot)) (key, value) ot)%nat h' tr' ot' (S k)
                Hrepr' Hok' Hinv' Hsort' ltac:(rewrite Hm'; exact Hm) Hc' ltac:(lia) ltac:(lia))
      as (n2 & h2 & tr2 & ot2 & R1 & R2 & R).
    exists n2, h2, tr2, ot2. split; [exact R1|]. split; [exact R2|]. exact R.
Qed.

(* OBLIGATION *)
Theorem gen_puts_ok : forall mag (m : nat) cmp kvs fuel, (3 <= m)%nat -> SWO cmp -> (4 * length kvs + m + 1 <= fuel)%nat ->
  exists tr0 n h tr ot,
    G.NewWith (@empty_heap G.Node) (Z.of_nat m) cmp = Some tr0 /\
    gen_puts mag fuel 0 (@empty_heap G.Node) tr0 kvs = Some (n, h, tr) /\
    model_puts m cmp None 0 kvs = Some (ot, n) /\
    tree_repr h tr ot /\ heap_ok h /\ BTreeInv.btree_inv m ot /\ BTreeInv.sorted_root cmp ot.
Proof.
  intros mag m cmp kvs fuel H3 Hswo Hfuel.
  exists (G.mkTree None cmp 0 (Z.of_nat m)).
  assert (Hrepr : tree_repr (@empty_heap G.Node) (G.mkTree None cmp 0 (Z.of_nat m)) None) by (split; reflexivity).
  destruct (gen_puts_from mag m cmp H3 Hswo kvs fuel 0%nat (@empty_heap G.Node) (G.mkTree None cmp 0 (Z.of_nat m)) None 0%nat
              Hrepr (@heap_ok_empty G.Node) I I eq_refl eq_refl (Nat.le_refl _) ltac:(cbn [Nat.add]; lia))
    as (n & h & tr & ot & R1 & R2 & R3 & R4 & R5 & R6 & _).
  exists n, h, tr, ot. split; [|split; [exact R1|split; [exact R2|split; [exact R3|split; [exact R4|split; assumption]]]]].
    unfold G.NewWith. assert (E : (Z.of_nat m <? 3) = false) by lia. rewrite E. reflexivity.
Qed.
Print Assumptions gen_puts_ok.
