(* END-TO-END COROLLARIES for trees/btree, property C01 (see EndToEndBT.v) *)
From Coq Require Import ZArith List Lia Bool Arith Sorted SetoidList.
From Gods Require Import Common.Cmp Common.ListAux Spec.MapSpec Spec.SeqSpec Model.Ops Model.Machine Model.BTree Model.BTreeCost Model.BTreeIter Model.Iter.
From Gods Require Proofs.BTreeInv Proofs.BTreeMap Proofs.BTreeBounds Proofs.BTreeCostProofs Proofs.MapSpecProofs Proofs.MachineMaps Proofs.MachineTrees
  Proofs.IterLinear Proofs.IterTreeMachine Proofs.IterTreeRB Proofs.IterTreeBT.
From GodsGen Require BTreeHeapGen.
From GodsGenProofs Require Import GoCmp GoTreeHeap GoBTreeHeap BTreeHeapRep BTreeHeapReadProofs BTreeHeapIterProofs BTreeHeapIterToProofs.
From GodsGenProofs Require Import BTreeHeapPutProofs BTreeHeapRemoveProofs EndToEndBT.
Import ListNotations.
Local Open Scope Z_scope.


(* OBLIGATION (C01): after ANY generated run, the generated Get(k) returns (v, true) exactly when the most recent Put(k', v) of a
   key equivalent to k in the history is not followed by a Remove of an equivalent key, else (0, false); Size() is the number of
   live keys; the entries of the represented tree are exactly the live entries, each once, in key order.  (Keys() / Values() of
   the B-tree are not translated.) *)
Theorem gen_bt_get_last_live : forall mag c ops fuel, ckind c = BTree -> 3 <= corder c -> (4 * length ops + bt_m c + 3 <= fuel)%nat ->
  let hs := map to_mop ops in let es := mrun (kc c) hs in
  exists ncmp h tr ot, bt_gen_run mag (corder c) (kc c) fuel ops = Some (ncmp, h, tr) /\ tree_repr h tr ot /\
    (forall k, exists q, G.Get mag fuel ncmp h tr k =
       Some ((ncmp + q)%nat, match last_live (kc c) (rev hs) k with Some e => snd e | None => 0 end,
                             match last_live (kc c) (rev hs) k with Some _ => true | None => false end)) /\
    G.Tree_Size h tr = Some (Z.of_nat (length es)) /\
    bt_inorder ot = es /\
    (forall e, In e es <-> last_live (kc c) (rev hs) (fst e) = Some e) /\
    NoDupA (fun a b => kc c a b = Eq) (map fst es).
Proof.
  intros mag c ops fuel K Ho Hf hs es. pose proof (MT.bt_valid_m c Ho) as H3.
  destruct (gen_bt_reach mag c ops fuel K Ho Hf) as (ncmp & h & tr & ot & Hrun & Hm & Hrepr & Hok & Hcmp & Htm & Hinv & Hsort & Hmh & Hcnt).
  destruct (bt_valid c K Ho) as (Hv & _ & Hc & Hl).
  destruct (fuel_eq _ _ Hinv) as (Hfe & Hfl). pose proof (inv_wid _ ot H3 Hinv) as Hw. destruct (inv_size_ok _ _ _ _ Hrepr Hinv) as (Hso & Hwf).
  assert (Htm' : G.Tree_m tr = Z.of_nat (bt_m c)) by (rewrite Htm; unfold bt_m; lia).
  assert (Hes : bt_inorder ot = es).
  { pose proof (MM.refines_tree c (map to_op ops) Hv Hl) as E. rewrite Hm, Hc, hist_to_op in E. exact E. }
  exists ncmp, h, tr, ot. split; [exact Hrun|]. split; [exact Hrepr|].
  split; [|split; [|split; [exact Hes|split]]].
  - intro k. rewrite (Get_correct mag h tr ot k (bt_fuel ot) fuel ncmp (proj1 Hrepr) Hso Hwf ltac:(rewrite <- Hfe; exact Hfl) ltac:(lia)), Hcmp. eexists.
    pose proof (MM.C01_get c (map to_op ops) k Hv) as E. rewrite Hm, Hc, hist_to_op in E. cbn [get_of] in E. fold hs in E.
    unfold bt_get in E. change (bget (kc c) (bt_fuel ot) k ot) with (match ot with Some n => BT.get (kc c) (bt_fuel ot) k n | None => None end).
    destruct (match ot with Some n => BT.get (kc c) (bt_fuel ot) k n | None => None end) as [[k' v']|], (last_live (kc c) (rev hs) k) as [[k'' v'']|];
      cbn in E; try discriminate; [|reflexivity].
    injection E as ->. reflexivity.
  - rewrite (proj1 (header_correct h tr ot (bt_m c) (proj2 Hrepr) Htm' ltac:(lia))), <- Hes. do 2 f_equal. exact (MT.bt_count_inorder ot).
  - intro e. pose proof (MM.C01_entry_iff c (map to_op ops) e Hv) as E. rewrite Hm, Hc, hist_to_op in E. cbn [entries_of] in E. rewrite Hes in E. exact E.
  - pose proof (MM.C01_nodup c (map to_op ops) Hv) as E. rewrite Hm, Hc in E. unfold keys_of in E. cbn [entries_of] in E. rewrite Hes in E. exact E.
Qed.
Print Assumptions gen_bt_get_last_live.

