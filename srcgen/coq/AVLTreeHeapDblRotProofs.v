(* DOUBLE ROTATION of trees/avltree/avltree.go in TREE POINTER MODE: the GENERATED doublerot (rotate(-c) on the child, the
   child link, rotate(c), the three balance factors) transforms a represented subtree into the represented subtree that
   Model/AVLTree.v's doublerot computes; same guarantees as rotate_correct / singlerot_correct (AVLTreeHeapRotProofs.v). *)
From Coq Require Import ZArith List Lia Bool Arith ZifyBool ZifyNat.
From Gods Require Import Common.Cmp Model.AVLTree Proofs.AVLInv.
From GodsGenProofs Require Import GoCmp GoTreeHeap GoTreeLink AVLTreeHeapRep AVLTreeHeapWriteLemmas AVLTreeHeapRotProofs AVLTreeHeapDblRotLProofs AVLTreeHeapDblRotRProofs.
From GodsGen Require AVLTreeHeapGen.
Import ListNotations.
Local Open Scope Z_scope.

(* OBLIGATION *)
Theorem doublerot_correct : forall h pp c s t',
  (c = 1 \/ c = -1) -> rep h pp s -> NoDup (addrs s) -> AVL.doublerot c (erase s) = Some t' ->
  exists h' s', G.doublerot h c (root_ptr s) = Some (h', root_ptr s') /\ erase s' = t' /\
    rep h' pp s' /\ same_addrs s' s /\ hnext h' = hnext h /\
    (forall z, ~ In z (addrs s) -> hread h' z = hread h z).
Proof.
  intros h pp c s t' Hc Hrep Hnd Hm. destruct s as [|sa sb sl sk sv sr]; [discriminate|].
  destruct Hc as [-> | ->].
  - destruct sr as [|ra rb rl rk rv rr]; [discriminate|]. destruct rl as [|pa pb pl pk pv pr]; [discriminate|].
    destruct (doublerot_L _ _ _ _ _ _ _ _ _ _ _ _ _ _ _ _ _ _ Hrep Hnd) as (h' & E & Hrep' & Hn & Hfr).
    exists h', (PT pa 0 (PT sa (fst (dbl_bs 1 pb)) sl sk sv pl) pk pv (PT ra (snd (dbl_bs 1 pb)) pr rk rv rr)). split; [exact E|]. split; [|split; [exact Hrep'|split; [|split; [exact Hn|exact Hfr]]]].
    + cbn in Hm. unfold dbl_bs. change (- (1)) with (-1) in *.
      destruct (pb =? 1); [|destruct (pb =? -1)]; cbn in Hm; injection Hm as <-; reflexivity.
    + nd_facts Hnd. same_addrs_tac.
  - destruct sl as [|ra rb rl rk rv rr]; [discriminate|]. destruct rr as [|pa pb pl pk pv pr]; [discriminate|].
    destruct (doublerot_R _ _ _ _ _ _ _ _ _ _ _ _ _ _ _ _ _ _ Hrep Hnd) as (h' & E & Hrep' & Hn & Hfr).
    exists h', (PT pa 0 (PT ra (snd (dbl_bs (-1) pb)) rl rk rv pl) pk pv (PT sa (fst (dbl_bs (-1) pb)) pr sk sv sr)). split; [exact E|]. split; [|split; [exact Hrep'|split; [|split; [exact Hn|exact Hfr]]]].
    + cbn in Hm. unfold dbl_bs. change (- (-1)) with 1 in *.
      destruct (pb =? -1); [|destruct (pb =? 1)]; cbn in Hm; injection Hm as <-; reflexivity.
    + nd_facts Hnd. same_addrs_tac.
Qed.
Print Assumptions doublerot_correct.
