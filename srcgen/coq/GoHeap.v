(* Hand-written support for the POINTER MODE of srcgen (heap.go): Go slices of T as they are used by the pointer code
   of the linked lists (Values / Prepend): a plain list, with the run-time checks of Go made explicit in the option
   monad (None = the Go code panics): index out of range on a read or a write, make with a negative length or a
   capacity below the length.  Capacities and aliasing are not modelled (the slices here are fresh, local, and never
   appended to: any other use is refused by the translator). *)
From Coq Require Import ZArith List Bool Lia.
Import ListNotations.
Local Open Scope Z_scope.

Definition hs_len (s : list Z) : Z := Z.of_nat (length s).
Definition hs_in (s : list Z) (i : Z) : bool := (0 <=? i) && (i <? hs_len s).
Definition hs_get (s : list Z) (i : Z) : option Z := if hs_in s i then Some (nth (Z.to_nat i) s 0) else None.
Definition hs_set (s : list Z) (i v : Z) : option (list Z) :=
  if hs_in s i then Some (firstn (Z.to_nat i) s ++ v :: skipn (Z.to_nat (i + 1)) s) else None.
Definition hs_make (len cap : Z) : option (list Z) :=
  if (len <? 0) || (cap <? len) then None else Some (repeat 0 (Z.to_nat len)).

Lemma hs_get_in : forall s i, 0 <= i < hs_len s -> hs_get s i = Some (nth (Z.to_nat i) s 0).
Proof.
  intros s i H. unfold hs_get, hs_in.
  replace (0 <=? i) with true by (symmetry; apply Z.leb_le; lia).
  replace (i <? hs_len s) with true by (symmetry; apply Z.ltb_lt; lia). reflexivity.
Qed.
Lemma hs_set_length : forall s i v s', hs_set s i v = Some s' -> length s' = length s.
Proof.
  intros s i v s' H. unfold hs_set, hs_in in H. destruct ((0 <=? i) && (i <? hs_len s)) eqn:E; [|discriminate].
  injection H as <-. apply andb_true_iff in E. destruct E as [E0 E1]. apply Z.leb_le in E0. apply Z.ltb_lt in E1.
  unfold hs_len in E1. rewrite app_length, firstn_length.
  change (length (v :: skipn (Z.to_nat (i + 1)) s)) with (S (length (skipn (Z.to_nat (i + 1)) s))). rewrite skipn_length. lia.
Qed.
Print Assumptions hs_set_length.
