(* Lemmas for the DELETION path of the B-tree in tree pointer mode (no obligations): what the slice operations of deleteEntry /
   deleteChild compute (shift-and-shrink = remove_at), the GENERATED helpers deleteEntry, deleteChild, leftSibling,
   rightSibling, appendChildren, prependChildren as explicit heap updates, and [zrep_rebuild]: the state predicate of the
   bottom-up pass after the subtree of the frame's node has been rearranged in place (no allocation). *)
From Coq Require Import ZArith List Lia Bool Arith Permutation.
From Gods Require Import Common.Cmp Model.BTree Model.BTreeCost Proofs.BTreeInd.
From Gods Require Proofs.BTreeInv.
From GodsGenProofs Require Import GoCmp GoTreeHeap GoBTreeHeap BTreeHeapRep BTreeHeapReadProofs BTreeHeapWriteLemmas.
From GodsGenProofs Require BTreeHeapInsertModel BTreeHeapRemoveModel.
From GodsGen Require BTreeHeapGen.
Import ListNotations.
Local Open Scope Z_scope.

Ltac eqbs := repeat match goal with
  | |- context [Nat.eqb ?a ?a] => rewrite (Nat.eqb_refl a)
  | |- context [Nat.eqb ?a ?b] => rewrite (proj2 (Nat.eqb_neq a b)) by (first [assumption | apply not_eq_sym; assumption | lia])
  end.
Ltac hsimp := repeat first [rewrite hread_hset | rewrite hread_halloc | rewrite hnext_hset | rewrite hnext_halloc | rewrite hnext_setpar]; eqbs.
Ltac nsimp := cbn [G.Node_with_Entries G.Node_with_Children G.Node_with_Parent G.Node_Entries G.Node_Children G.Node_Parent].
Ltac hs := hsimp; nsimp.

(* ---------- copy(s[i:], s[i+1:]); s[len-1] = nil; s = s[:len-1] ---------- *)
Section Slices.
Context {A : Type}.
Implicit Types l : list A.

Lemma del_copy : forall l i, (i < length l)%nat ->
  sl_copy l (Z.of_nat i) (sl_len l) (skipn (S i) l) = Some (remove_at i l ++ skipn (length l - 1) l).
Proof.
  intros l i H. unfold sl_copy, sl_len.
  replace ((0 <=? Z.of_nat i) && (Z.of_nat i <=? Z.of_nat (length l)) && (Z.of_nat (length l) <=? Z.of_nat (length l)))
    with true by (symmetry; rewrite !andb_true_iff, !Z.leb_le; lia).
  rewrite Nat2Z.id. replace (Z.to_nat (Z.of_nat (length l) - Z.of_nat i)) with (length l - i)%nat by lia.
  rewrite skipn_length. replace (Nat.min (length l - i) (length l - S i)) with (length l - S i)%nat by lia.
  rewrite (firstn_all2 (skipn (S i) l)) by (rewrite skipn_length; lia). unfold remove_at. rewrite <- app_assoc.
  replace (i + (length l - S i))%nat with (length l - 1)%nat by lia. reflexivity.
Qed.

Lemma remove_at_len : forall l i, (i < length l)%nat -> length (remove_at i l) = (length l - 1)%nat.
Proof. intros. now apply remove_at_length. Qed.

Lemma skipn_last_len : forall l, (1 <= length l)%nat -> length (skipn (length l - 1) l) = 1%nat.
Proof. intros l H. rewrite skipn_length. lia. Qed.

(* replacing the single last element *)
Lemma replace_at_app' : forall l (t : list A) d, length t = 1%nat -> replace_at (length l) d (l ++ t) = l ++ [d].
Proof.
  intros l t d Ht. destruct t as [|x [|y t]]; try discriminate. apply replace_at_app.
Qed.

Lemma del_set : forall l i d, (i < length l)%nat ->
  sl_set (remove_at i l ++ skipn (length l - 1) l) (sl_len (remove_at i l ++ skipn (length l - 1) l) - 1) d =
  Some (remove_at i l ++ [d]).
Proof.
  intros l i d H. unfold sl_len. rewrite app_length, remove_at_len, skipn_last_len by lia.
  replace (Z.of_nat (length l - 1 + 1) - 1) with (Z.of_nat (length l - 1)) by lia.
  rewrite sl_set_nat by (rewrite app_length, remove_at_len, skipn_last_len by lia; lia). f_equal.
  rewrite <- (remove_at_len l i H) at 1. rewrite replace_at_app'. reflexivity.
  - rewrite skipn_last_len by lia. reflexivity.
Qed.

Lemma del_slice : forall l i d, (i < length l)%nat ->
  sl_slice (remove_at i l ++ [d]) 0 (sl_len (remove_at i l ++ [d]) - 1) = Some (remove_at i l).
Proof.
  intros l i d H. unfold sl_len. rewrite app_length. cbn [length].
  replace (Z.of_nat (length (remove_at i l) + 1) - 1) with (Z.of_nat (length (remove_at i l))) by lia.
  rewrite sl_slice_to by (rewrite app_length; lia). f_equal. apply firstn_app_exact.
Qed.
End Slices.

(* ---------- one node of the heap gets a new record ---------- *)
Definition hupd (h h' : heap G.Node) (a : nat) (r : G.Node) : Prop :=
  hread h' a = Some r /\ (forall x, x <> a -> hread h' x = hread h x) /\ hnext h' = hnext h.

Lemma hupd_hset : forall h a r, hupd h (hset h a r) a r.
Proof.
  intros h a r. split; [now rewrite hread_hset, Nat.eqb_refl|]. split; [|reflexivity].
  intros x Hx. rewrite hread_hset. now rewrite (proj2 (Nat.eqb_neq x a) Hx).
Qed.
Lemma hupd_trans : forall h h1 h2 a r1 r2, hupd h h1 a r1 -> hupd h1 h2 a r2 -> hupd h h2 a r2.
Proof.
  intros h h1 h2 a r1 r2 (_ & H1 & N1) (H2 & H3 & N2). split; [exact H2|]. split; [|congruence].
  intros x Hx. rewrite H3, H1 by exact Hx. reflexivity.
Qed.
Lemma hupd_ok : forall h h' a r, hupd h h' a r -> heap_ok h -> alloced h a -> heap_ok h'.
Proof.
  intros h h' a r (H1 & H2 & H3) Hok Ha x Hx. rewrite H3. destruct (Nat.eq_dec x a) as [->|Hne]; [now apply Hok|].
  apply Hok. now rewrite <- H2.
Qed.
Lemma hupd_alloced : forall h h' a r x, hupd h h' a r -> alloced h x -> alloced h' x.
Proof.
  intros h h' a r x (H1 & H2 & _) Hx. unfold alloced in *. destruct (Nat.eq_dec x a) as [->|Hne]; [congruence|]. now rewrite H2.
Qed.

Ltac neq := first [assumption | apply not_eq_sym; assumption | lia | congruence].
Ltac hup := repeat match goal with
  | H : hupd _ ?h' ?a _ |- context [hread ?h' ?a] => rewrite (proj1 H)
  | H : hupd _ ?h' ?a _ |- context [hread ?h' ?x] => rewrite (proj1 (proj2 H) x) by neq
  | H : hupd _ ?h' _ _ |- context [hnext ?h'] => rewrite (proj2 (proj2 H))
  end.
Ltac hh := repeat (progress (hsimp; hup)); nsimp.

(* ---------- deleteEntry / deleteChild ---------- *)
Lemma deleteEntry_spec : forall h tr a rec i, hread h a = Some rec -> (i < length (G.Node_Entries rec))%nat ->
  exists h', G.deleteEntry h tr (Some a) (Z.of_nat i) = Some h' /\
             hupd h h' a (G.mkNode (G.Node_Parent rec) (remove_at i (G.Node_Entries rec)) (G.Node_Children rec)).
Proof.
  intros h tr a [pp es cl] i Hr Hi. nsimp. cbn [G.Node_Entries] in Hi. unfold G.deleteEntry, deref. rewrite Hr. nsimp.
  replace (Z.of_nat i + 1) with (Z.of_nat (S i)) by lia.
  rewrite sl_slice_from by lia. rewrite del_copy by exact Hi.
  erewrite store_hset by exact Hr. hs.
  rewrite (del_set es i None Hi).
  erewrite store_hset by (hsimp; reflexivity). hs.
  rewrite (del_slice es i None Hi).
  erewrite store_hset by (hsimp; reflexivity). hs.
  eexists. split; [reflexivity|].
  eapply hupd_trans; [eapply hupd_trans; [apply hupd_hset|apply hupd_hset]|apply hupd_hset].
Qed.

Lemma deleteChild_spec : forall h tr a rec i, hread h a = Some rec -> (i < length (G.Node_Children rec))%nat ->
  exists h', G.deleteChild h tr (Some a) (Z.of_nat i) = Some h' /\
             hupd h h' a (G.mkNode (G.Node_Parent rec) (G.Node_Entries rec) (remove_at i (G.Node_Children rec))).
Proof.
  intros h tr a [pp es cl] i Hr Hi. nsimp. cbn [G.Node_Children] in Hi. unfold G.deleteChild, deref. rewrite Hr. nsimp.
  assert (Hz : (sl_len cl <=? Z.of_nat i) = false) by (unfold sl_len; lia). rewrite Hz.
  replace (Z.of_nat i + 1) with (Z.of_nat (S i)) by lia.
  rewrite sl_slice_from by lia. rewrite del_copy by exact Hi.
  erewrite store_hset by exact Hr. hs.
  rewrite (del_set cl i None Hi).
  erewrite store_hset by (hsimp; reflexivity). hs.
  rewrite (del_slice cl i None Hi).
  erewrite store_hset by (hsimp; reflexivity). hs.
  eexists. split; [reflexivity|].
  eapply hupd_trans; [eapply hupd_trans; [apply hupd_hset|apply hupd_hset]|apply hupd_hset].
Qed.

(* ---------- leftSibling / rightSibling ---------- *)
Lemma leftSibling_spec : forall mag h (tr : G.Tree) a ra b rb pes key fuel n,
  hread h a = Some ra -> G.Node_Parent ra = Some b -> hread h b = Some rb -> G.Node_Entries rb = eptrs pes ->
  (search_c (G.Tree_Comparator tr) key pes <= fuel)%nat ->
  G.leftSibling mag fuel n h tr (Some a) key =
    Some ((n + search_c (G.Tree_Comparator tr) key pes)%nat,
          match fst (BT.search (G.Tree_Comparator tr) key pes) with
          | O => None
          | S p => match nth_error (G.Node_Children rb) p with Some q => q | None => None end
          end,
          match fst (BT.search (G.Tree_Comparator tr) key pes) with
          | O => -1
          | S p => match nth_error (G.Node_Children rb) p with Some q => Z.of_nat p | None => -1 end
          end).
Proof.
  intros mag h tr a ra b rb pes key fuel n Ha Hp Hb He Hf. unfold G.leftSibling, deref. rewrite Ha, Hp. cbn [is_nil negb].
  rewrite (search_correct mag h tr (Some b) rb pes key fuel n Hb He Hf).
  destruct (fst (BT.search (G.Tree_Comparator tr) key pes)) as [|p].
  - cbn [Z.of_nat]. reflexivity.
  - replace (Z.of_nat (S p) - 1) with (Z.of_nat p) by lia.
    assert (Hz : (0 <=? Z.of_nat p) = true) by lia. rewrite Hz, Hb. unfold sl_len.
    destruct (nth_error (G.Node_Children rb) p) as [q|] eqn:En.
    + assert (Hlt : (Z.of_nat p <? Z.of_nat (length (G.Node_Children rb))) = true) by (assert (p < length (G.Node_Children rb))%nat by (apply nth_error_Some; congruence); lia).
      rewrite Hlt. rewrite sl_get_nat, En. reflexivity.
    + assert (Hlt : (Z.of_nat p <? Z.of_nat (length (G.Node_Children rb))) = false) by (apply nth_error_None in En; lia).
      rewrite Hlt. reflexivity.
Qed.

Lemma rightSibling_spec : forall mag h (tr : G.Tree) a ra b rb pes key fuel n,
  hread h a = Some ra -> G.Node_Parent ra = Some b -> hread h b = Some rb -> G.Node_Entries rb = eptrs pes ->
  (search_c (G.Tree_Comparator tr) key pes <= fuel)%nat ->
  G.rightSibling mag fuel n h tr (Some a) key =
    Some ((n + search_c (G.Tree_Comparator tr) key pes)%nat,
          match nth_error (G.Node_Children rb) (S (fst (BT.search (G.Tree_Comparator tr) key pes))) with Some q => q | None => None end,
          match nth_error (G.Node_Children rb) (S (fst (BT.search (G.Tree_Comparator tr) key pes))) with
          | Some q => Z.of_nat (S (fst (BT.search (G.Tree_Comparator tr) key pes))) | None => -1 end).
Proof.
  intros mag h tr a ra b rb pes key fuel n Ha Hp Hb He Hf. unfold G.rightSibling, deref. rewrite Ha, Hp. cbn [is_nil negb].
  rewrite (search_correct mag h tr (Some b) rb pes key fuel n Hb He Hf). rewrite Hb. unfold sl_len.
  set (p := fst (BT.search (G.Tree_Comparator tr) key pes)).
  replace (Z.of_nat p + 1) with (Z.of_nat (S p)) by lia.
  destruct (nth_error (G.Node_Children rb) (S p)) as [q|] eqn:En.
  - assert (Hlt : (Z.of_nat (S p) <? Z.of_nat (length (G.Node_Children rb))) = true) by (assert (S p < length (G.Node_Children rb))%nat by (apply nth_error_Some; congruence); lia).
    rewrite Hlt. rewrite sl_get_nat, En. reflexivity.
  - assert (Hlt : (Z.of_nat (S p) <? Z.of_nat (length (G.Node_Children rb))) = false) by (apply nth_error_None in En; lia).
    rewrite Hlt. reflexivity.
Qed.

Lemma siblings_root : forall mag h (tr : G.Tree) a ra key fuel n,
  hread h a = Some ra -> G.Node_Parent ra = None ->
  G.leftSibling mag fuel n h tr (Some a) key = Some (n, None, -1) /\
  G.rightSibling mag fuel n h tr (Some a) key = Some (n, None, -1).
Proof. intros. unfold G.leftSibling, G.rightSibling, deref. rewrite H, H0. split; reflexivity. Qed.

(* ---------- appendChildren / prependChildren ---------- *)
Lemma appendChildren_spec : forall h tr ar a ra rr qs, ar <> a ->
  hread h a = Some ra -> hread h ar = Some rr -> G.Node_Children rr = map (@Some nat) qs ->
  (forall q, In q qs -> alloced h q) ->
  G.appendChildren h tr (Some ar) (Some a) =
    Some (setpar (hset h a (G.mkNode (G.Node_Parent ra) (G.Node_Entries ra) (G.Node_Children ra ++ map (@Some nat) qs))) qs (Some a)).
Proof.
  intros h tr ar a ra rr qs Hne Ha Hr Hc Hal. unfold G.appendChildren, deref. rewrite Ha, Hr.
  erewrite store_hset by exact Ha. hs. rewrite Hr, Hc.
  rewrite setParent_setpar by (intros q Hq; apply alloced_hset, Hal, Hq). destruct ra. reflexivity.
Qed.

Lemma prependChildren_spec : forall h tr al a ra rl qs, al <> a ->
  hread h a = Some ra -> hread h al = Some rl -> G.Node_Children rl = map (@Some nat) qs ->
  (forall q, In q qs -> alloced h q) ->
  G.prependChildren h tr (Some al) (Some a) =
    Some (setpar (hset h a (G.mkNode (G.Node_Parent ra) (G.Node_Entries ra) (map (@Some nat) qs ++ G.Node_Children ra))) qs (Some a)).
Proof.
  intros h tr al a ra rl qs Hne Ha Hl Hc Hal. unfold G.prependChildren, deref. rewrite Hl, Ha. cbv zeta. cbn [app].
  erewrite store_hset by exact Ha. hs. rewrite Hl, Hc.
  rewrite setParent_setpar by (intros q Hq; apply alloced_hset, Hal, Hq). destruct ra. reflexivity.
Qed.

(* ---------- the subtree of the frame's node has been rearranged in place ---------- *)
Lemma zrep_rebuild : forall h hF tr b pes ls rs c s pes' cs',
  zrep h tr (PF b pes ls rs :: c) s -> heap_ok hF ->
  (forall x, In x (caddrs c) -> hread hF x = hread h x) ->
  hread hF b = Some (G.mkNode (cparent c) (eptrs pes') (cptrs cs')) ->
  Forall (rep hF (Some b)) cs' -> NoDup (flat_map addrs cs') ->
  (forall x, In x (flat_map addrs cs') -> In x (flat_map addrs (ls ++ s :: rs))) ->
  zrep hF tr c (PN b pes' cs').
Proof.
  intros h hF tr b pes ls rs c s pes' cs' Hz HokF Hfr Hb Hch Hnd Hsub.
  pose proof (zrep_up _ _ _ _ _ _ _ _ Hz) as (Hs & Hc & HndU & Hok & Hroot). cbn [paddr] in *.
  cbn [addrs app] in HndU. apply NoDup_cons_iff in HndU. destruct HndU as [Hnb HndU]. apply NoDup_app_iff in HndU.
  destruct HndU as (_ & Hndc & Hdisj).
  unfold zrep. cbn [paddr]. split; [|split; [|split; [|split; [exact HokF|exact Hroot]]]].
  - apply rep_unfold. split; [exact Hb|exact Hch].
  - eapply crep_frame; [exact Hfr|exact Hc].
  - cbn [addrs app]. constructor.
    + intro Hx. apply in_app_or in Hx. destruct Hx as [Hx|Hx]; apply Hnb; apply in_or_app; [left; now apply Hsub|now right].
    + apply NoDup_app_iff. split; [exact Hnd|]. split; [exact Hndc|]. intros x H1 H2. exact (Hdisj x (Hsub x H1) H2).
Qed.

Lemma upz_none : forall m cmp ctx n k, BTreeHeapRemoveModel.upz m cmp ctx (n, k, None) = Some (BTreeHeapInsertModel.eplug ctx n, k).
Proof.
  intros m cmp. induction ctx as [|[[es l] r] ctx IH]; intros n k; [reflexivity|].
  cbn [BTreeHeapRemoveModel.upz BTreeHeapRemoveModel.lift BTreeHeapInsertModel.eplug]. apply IH.
Qed.

(* ---------- a normaliser for the distinctness of addresses ---------- *)
Lemma NoDup_cons_iff' : forall (a : nat) l, NoDup (a :: l) <-> ~ In a l /\ NoDup l.
Proof. intros. apply NoDup_cons_iff. Qed.
Lemma NoDup_nil_iff : NoDup (@nil nat) <-> True.
Proof. split; [auto|constructor]. Qed.
Lemma notin_app_iff : forall (a : nat) l1 l2, ~ In a (l1 ++ l2) <-> ~ In a l1 /\ ~ In a l2.
Proof. intros. rewrite in_app_iff. tauto. Qed.
Lemma notin_cons_iff : forall (a b : nat) l, ~ In a (b :: l) <-> b <> a /\ ~ In a l.
Proof. intros. cbn [In]. tauto. Qed.
Lemma notin_nil_iff : forall a : nat, ~ In a [] <-> True.
Proof. intros. cbn. tauto. Qed.
Lemma disj_cons_l : forall a l1 l2, disj (a :: l1) l2 <-> ~ In a l2 /\ disj l1 l2.
Proof.
  intros. unfold disj. split.
  - intro H. split; [intro Ha; apply (H a); [now left|exact Ha]|]. intros x H1 H2. apply (H x); [now right|exact H2].
  - intros (H1 & H2) x [->|Hx] Hx2; [contradiction|eauto].
Qed.
Lemma disj_cons_r : forall a l1 l2, disj l1 (a :: l2) <-> ~ In a l1 /\ disj l1 l2.
Proof.
  intros. unfold disj. split.
  - intro H. split; [intro Ha; apply (H a); [exact Ha|now left]|]. intros x H1 H2. apply (H x); [exact H1|now right].
  - intros (H1 & H2) x Hx [->|Hx2]; [contradiction|eauto].
Qed.
Lemma disj_app_l : forall l1 l1' l2, disj (l1 ++ l1') l2 <-> disj l1 l2 /\ disj l1' l2.
Proof.
  intros. unfold disj. split.
  - intro H. split; intros x H1 H2; apply (H x); auto; apply in_or_app; auto.
  - intros (H1 & H2) x Hx Hx2. apply in_app_or in Hx. destruct Hx; eauto.
Qed.
Lemma disj_app_r : forall l1 l2 l2', disj l1 (l2 ++ l2') <-> disj l1 l2 /\ disj l1 l2'.
Proof.
  intros. unfold disj. split.
  - intro H. split; intros x H1 H2; apply (H x); auto; apply in_or_app; auto.
  - intros (H1 & H2) x Hx Hx2. apply in_app_or in Hx2. destruct Hx2; eauto.
Qed.
Lemma disj_nil_l : forall l, disj [] l <-> True.
Proof. unfold disj. intros. cbn. tauto. Qed.
Lemma disj_nil_r : forall l, disj l [] <-> True.
Proof. unfold disj. intros. cbn. firstorder. Qed.
Lemma and_True_l : forall P : Prop, True /\ P <-> P.
Proof. tauto. Qed.
Lemma and_True_r : forall P : Prop, P /\ True <-> P.
Proof. tauto. Qed.
Lemma addrs_PN : forall a es cs, addrs (PN a es cs) = a :: flat_map addrs cs.
Proof. reflexivity. Qed.
Lemma flat_cons : forall (c : pnode) cs, flat_map addrs (c :: cs) = addrs c ++ flat_map addrs cs.
Proof. reflexivity. Qed.
Lemma flat_nil : flat_map addrs (@nil pnode) = [].
Proof. reflexivity. Qed.

Global Hint Rewrite addrs_PN flat_cons flat_nil flat_map_app NoDup_app_iff NoDup_cons_iff' NoDup_nil_iff notin_app_iff notin_cons_iff notin_nil_iff
  disj_cons_l disj_cons_r disj_app_l disj_app_r disj_nil_l disj_nil_r and_True_l and_True_r : ndb.

(* H : NoDup (<explicit list of addresses>)  ~~>  atomic facts  a <> b, ~ In a l, disj l1 l2, NoDup l *)
Ltac nd_facts H := repeat (rewrite_strat (topdown (hints ndb)) in H); try (decompose [and] H; clear H).
Ltac nd_goal := repeat (rewrite_strat (topdown (hints ndb))); repeat split.
Lemma disj_sym : forall l1 l2, disj l1 l2 -> disj l2 l1.
Proof. intros l1 l2 H x H1 H2. exact (H x H2 H1). Qed.
Ltac nd_auto := first
  [ assumption
  | apply not_eq_sym; assumption
  | apply disj_sym; assumption
  | match goal with
    | D : disj ?l1 ?l2, H1 : In ?x ?l1 |- ~ In ?x ?l2 => exact (D x H1)
    | D : disj ?l1 ?l2, H2 : In ?x ?l2 |- ~ In ?x ?l1 => exact (fun H1 => D x H1 H2)
    end ].

Lemma remove_at_last : forall (A : Type) (l : list A), l <> [] -> remove_at (length l - 1) l = removelast l.
Proof.
  intros A l H. destruct (BTreeInv.list_rev_case _ l) as [->|(l' & x & ->)]; [congruence|].
  rewrite app_length. cbn [length]. replace (length l' + 1 - 1)%nat with (length l') by lia.
  rewrite remove_at_app, removelast_last. now rewrite app_nil_r.
Qed.
Lemma eptrs_remove_at : forall i es, remove_at i (eptrs es) = eptrs (remove_at i es).
Proof. intros. unfold remove_at. now rewrite firstn_eptrs, skipn_eptrs, eptrs_app. Qed.
Lemma cptrs_remove_at : forall i cs, remove_at i (cptrs cs) = cptrs (remove_at i cs).
Proof. intros. unfold remove_at. now rewrite firstn_cptrs, skipn_cptrs, cptrs_app. Qed.
