(* trees/binaryheap/binaryheap.go (and iterator.go: see BinaryHeapIterGenProofs.v) regenerated from the source
   (GodsGen.BinaryHeapGen: the heap algorithms themselves --
   bubbleUp, bubbleDownIndex with their `break`s and shifts, the heapify loop of Push, Pop -- as general loops on
   explicit fuel, comparator CALLS through GoCmpCall, the backing arraylist an abstract interface) against the
   hand-written model Model/Heap.v.  The list interface is instantiated with the sequence model of ArrayList
   (Model/Lists.v: al_add, al_get, al_swap, al_remove); a heap value is then (backing list, comparator).

   For EVERY list, comparator and fuel that is at least the length (+ 2 for Push): the generated loops equal
   Heap.bubble_up / Heap.bubble_down run with the same fuel, the generated bubbleUp / bubbleDownIndex / bubbleDown /
   Push / Pop / Peek / Size / Empty / Clear / Values / New / NewWith equal Heap.push / Heap.pop / ... with the fuel
   the model uses (the model's loops are fuel-independent above the bound: bubble_*_fuel), and never return None.
   Transferred: runs of the GENERATED Push / Pop / Clear from the generated NewWith are the machine's runs for kind
   BinaryHeap, keep the heap-order invariant, and the generated Pop returns a least element. *)
From Coq Require Import ZArith List Lia Bool Arith Permutation.
From Coq Require Import ZifyBool ZifyNat.
From Gods Require Import Common.Cmp Common.ListAux Spec.SeqSpec Model.Ops Model.Lists Model.Machine.
From Gods Require Model.Heap.
From Gods Require Import Proofs.HeapProofs Proofs.HeapValues Proofs.C06Proofs Proofs.IterLinear.
From GodsGen Require BinaryHeapGen.
From GodsGenProofs Require GoCmp GoCmpCall GoSlice.
From GodsGenProofs Require Import GenIterRun WrapCommon.
Import ListNotations.
Local Open Scope Z_scope.

Module W := BinaryHeapGen.

(* the wrapped arraylist.List as the sequence model has it *)
Definition LI : W.list_iface := W.mk_list_iface (list Z)
  (fun l vs => (al_add vs l, tt))                  (* Add(values...) *)
  (fun _ => ([], tt))                              (* Clear() *)
  (fun l => zlen l =? 0)                           (* Empty() *)
  (fun l i => opt_pair (al_get i l))               (* Get(i) *)
  (fun l i => (al_remove i l, tt))                 (* Remove(i) *)
  (fun l => zlen l)                                (* Size() *)
  (fun l i j => (al_swap i j l, tt))               (* Swap(i, j) *)
  (fun vs => al_add vs []).                        (* arraylist.New(values...) *)

Notation mk l c := (W.mkHeap LI l c).
Ltac wsimpl := unfold W.set_list; cbn [W.list_ W.Comparator W.list_T W.list_Add W.list_Clear W.list_Empty W.list_Get W.list_Remove W.list_Size W.list_Swap W.list_pkg_New LI W.set_list].
(* Iterator(): the enumeration of (index, Value()) -- what the heap iterator walks (IterLinear.iter_Heap) *)
Definition enum (g : W.Heap LI) : list (Z * Z) := indexed (Heap.values (W.Comparator LI g) (W.list_ LI g)).

Module Names.
Import Coq.Strings.String.
(* OBLIGATION *)
Theorem translated_functions :
  W.translated = ["Begin"; "Clear"; "Empty"; "End"; "First"; "Heap_Iterator"; "Index"; "Last"; "New"; "NewWith"; "Next"; "NextTo"; "Peek"; "Pop"; "Prev"; "PrevTo"; "Push"; "Size"; "Value"; "Values"; "bubbleDown"; "bubbleDownIndex"; "bubbleUp"; "evaluateRange"; "numOfBits"; "withinRange"]%string
  /\ W.skipped = ["String"]%string /\ W.not_selected = [].
Proof. repeat split. Qed.
Print Assumptions translated_functions.
End Names.

(* ---------- the list operations on nat indices ---------- *)
Lemma upd_set : forall (l : list Z) n v, (n < length l)%nat -> upd n v l = set l n v.
Proof.
  unfold upd. induction l as [|a l IH]; intros [|n] v H; cbn [length] in H; try lia; cbn [firstn skipn app set]; [reflexivity|].
  f_equal. apply IH. lia.
Qed.

Lemma within_nat : forall (l : list Z) (i : nat), within (Z.of_nat i) l = (i <? length l)%nat.
Proof. intros l i. unfold within, zlen. lia. Qed.

Lemma al_swap_swap : forall (l : list Z) (i j : nat), al_swap (Z.of_nat i) (Z.of_nat j) l = swap l i j.
Proof.
  intros l i j. unfold al_swap, swap. rewrite !within_nat, !Nat2Z.id.
  destruct (i <? length l)%nat eqn:Ei; [|reflexivity]. destruct (j <? length l)%nat eqn:Ej; [|reflexivity]. cbn [andb].
  rewrite (upd_set l i) by lia. rewrite upd_set by (rewrite length_set; lia). reflexivity.
Qed.

Lemma get_al_get : forall (l : list Z) (i : nat), opt_pair (al_get (Z.of_nat i) l) = (get l i, (i <? length l)%nat).
Proof.
  intros l i. unfold al_get. rewrite within_nat, Nat2Z.id. unfold get.
  destruct (i <? length l)%nat eqn:E; cbn [negb].
  - rewrite (nth_error_nth' l 0) by lia. reflexivity.
  - rewrite nth_overflow by lia. reflexivity.
Qed.

Lemma shiftr_parent : forall i : nat, (0 < i)%nat -> Z.shiftr (Z.of_nat i - 1) 1 = Z.of_nat ((i - 1) / 2).
Proof. intros i H. rewrite Z.shiftr_div_pow2 by lia. change (2 ^ 1) with 2. lia. Qed.
Lemma shiftl_1 : forall (i : nat), Z.shiftl (Z.of_nat i) 1 + 1 = Z.of_nat (2 * i + 1).
Proof. intros i. rewrite Z.shiftl_mul_pow2 by lia. lia. Qed.
Lemma shiftl_2 : forall (i : nat), Z.shiftl (Z.of_nat i) 1 + 2 = Z.of_nat (2 * i + 2).
Proof. intros i. rewrite Z.shiftl_mul_pow2 by lia. lia. Qed.

(* ---------- the model's loops do not depend on the fuel above the bound ---------- *)
Lemma bubble_up_fuel : forall cmp f f' l i, (i <= f)%nat -> (i <= f')%nat ->
  Heap.bubble_up cmp f l i = Heap.bubble_up cmp f' l i.
Proof.
  intros cmp f. induction f as [|f IH]; intros f' l i H H'.
  - assert (i = 0%nat) by lia. subst i. destruct f'; reflexivity.
  - destruct f' as [|f']; [assert (i = 0%nat) by lia; subst i; reflexivity|].
    rewrite !bubble_up_S. destruct (0 <? i)%nat eqn:E; [|reflexivity].
    destruct (Heap.gt cmp _ _); [|reflexivity]. apply IH; lia.
Qed.

Lemma bubble_down_fuel : forall cmp f f' l i, (length l - i <= f)%nat -> (length l - i <= f')%nat ->
  Heap.bubble_down cmp f l i = Heap.bubble_down cmp f' l i.
Proof.
  intros cmp f. induction f as [|f IH]; intros f' l i H H'.
  - destruct f' as [|f']; [reflexivity|]. rewrite bubble_down_S. cbn [Heap.bubble_down].
    destruct (2 * i + 1 <? length l)%nat eqn:E; [lia|reflexivity].
  - destruct f' as [|f']; [rewrite bubble_down_S; cbn [Heap.bubble_down]; destruct (2 * i + 1 <? length l)%nat eqn:E; [lia|reflexivity]|].
    rewrite !bubble_down_S. destruct (2 * i + 1 <? length l)%nat eqn:E; [|reflexivity]. cbv zeta.
    set (s := if ((2 * i + 2 <? length l)%nat && Heap.gt cmp (get l (2 * i + 1)) (get l (2 * i + 2)))%bool then (2 * i + 2)%nat else (2 * i + 1)%nat).
    assert (Hs : (2 * i + 1 <= s)%nat) by (unfold s; destruct (_ && _)%bool; lia).
    destruct (Heap.gt cmp (get l i) (get l s)); [|reflexivity].
    apply IH; rewrite length_swap; lia.
Qed.

(* ---------- bubbleUp ---------- *)
Lemma bubbleUp_loop_ok : forall cmp fuel gas (l : list Z) (i : nat) p, (i <= gas)%nat ->
  (i = 0%nat \/ p = Z.of_nat ((i - 1) / 2)) ->
  exists j, W.bubbleUp_loop1 LI fuel gas (mk l cmp) (Z.of_nat i) p = Some (mk (Heap.bubble_up cmp gas l i) cmp, j).
Proof.
  intros cmp fuel gas. induction gas as [|gas IH]; intros l i p Hi Hp.
  - assert (i = 0%nat) by lia. subst i. eexists. reflexivity.
  - cbn [W.bubbleUp_loop1]. rewrite bubble_up_S.
    destruct (0 <? i)%nat eqn:E.
    + replace (0 <? Z.of_nat i) with true by lia. destruct Hp as [Hp|Hp]; [lia|]. subst p.
      cbn [W.list_ W.Comparator W.list_Get W.list_Swap LI W.set_list]. rewrite !get_al_get.
      unfold GoCmpCall.le0. change (GoCmpCall.gt0 cmp) with (Heap.gt cmp).
      destruct (Heap.gt cmp (get l ((i - 1) / 2)) (get l i)); cbn [negb].
      * rewrite al_swap_swap. apply IH; [lia|].
        destruct ((i - 1) / 2)%nat as [|k] eqn:Ek; [left; reflexivity|right]. apply shiftr_parent. lia.
      * eexists. reflexivity.
    + replace (0 <? Z.of_nat i) with false by lia. eexists. reflexivity.
Qed.

(* OBLIGATION: the generated bubbleUp is Heap.bubble_up from the last index, for every fuel >= size - 1 *)
Theorem bubbleUp_equiv : forall cmp fuel l, (length l <= fuel + 1)%nat ->
  W.bubbleUp LI fuel (mk l cmp) = Some (mk (Heap.bubble_up cmp fuel l (length l - 1)) cmp, tt).
Proof.
  intros cmp fuel l H. unfold W.bubbleUp. cbn [W.list_ W.list_Size LI]. cbv zeta.
  destruct l as [|x l].
  - replace (Heap.bubble_up cmp fuel [] (length (@nil Z) - 1)) with (@nil Z) by (destruct fuel; reflexivity).
    destruct fuel; reflexivity.
  - replace (zlen (x :: l) - 1) with (Z.of_nat (length (x :: l) - 1)) by (unfold zlen; cbn [length]; lia).
    destruct (bubbleUp_loop_ok cmp fuel fuel (x :: l) (length (x :: l) - 1) (Z.shiftr (Z.of_nat (length (x :: l) - 1) - 1) 1)) as [j Hj].
    + cbn [length] in *. lia.
    + destruct (length (x :: l) - 1)%nat as [|k] eqn:Ek; [left; reflexivity|right]. apply shiftr_parent. lia.
    + rewrite Hj. reflexivity.
Qed.
Print Assumptions bubbleUp_equiv.

(* ---------- bubbleDownIndex ---------- *)
Lemma bubbleDown_loop_ok : forall cmp fuel gas (l : list Z) (i : nat), (length l - i <= gas)%nat ->
  exists j, W.bubbleDownIndex_loop1 LI fuel gas (mk l cmp) (Z.of_nat i) (zlen l) (Z.of_nat (2 * i + 1))
            = Some (mk (Heap.bubble_down cmp gas l i) cmp, j).
Proof.
  intros cmp fuel gas. induction gas as [|gas IH]; intros l i H.
  - cbn [W.bubbleDownIndex_loop1 Heap.bubble_down]. replace (Z.of_nat (2 * i + 1) <? zlen l) with false by (unfold zlen; lia).
    eexists. reflexivity.
  - cbn [W.bubbleDownIndex_loop1]. rewrite bubble_down_S.
    replace (Z.of_nat (2 * i + 1) <? zlen l) with (2 * i + 1 <? length l)%nat by (unfold zlen; lia).
    destruct (2 * i + 1 <? length l)%nat eqn:E; [|eexists; reflexivity].
    cbn [W.list_ W.Comparator W.list_Get W.list_Swap LI W.set_list]. cbv zeta.
    rewrite !shiftl_2, !get_al_get.
    change (GoCmpCall.gt0 cmp) with (Heap.gt cmp).
    replace (Z.of_nat (2 * i + 2) <? zlen l) with (2 * i + 2 <? length l)%nat by (unfold zlen; lia).
    set (c := ((2 * i + 2 <? length l)%nat && Heap.gt cmp (get l (2 * i + 1)) (get l (2 * i + 2)))%bool).
    replace (if c then Z.of_nat (2 * i + 2) else Z.of_nat (2 * i + 1)) with (Z.of_nat (if c then 2 * i + 2 else 2 * i + 1)%nat)
      by (destruct c; reflexivity).
    set (s := (if c then 2 * i + 2 else 2 * i + 1)%nat).
    assert (Hs : (2 * i + 1 <= s)%nat) by (unfold s; destruct c; lia).
    rewrite !get_al_get. unfold GoCmpCall.le0. change (GoCmpCall.gt0 cmp) with (Heap.gt cmp).
    destruct (Heap.gt cmp (get l i) (get l s)); cbn [negb]; [|eexists; reflexivity].
    rewrite al_swap_swap, shiftl_1.
    replace (zlen l) with (zlen (swap l i s)) by (unfold zlen; now rewrite length_swap).
    apply IH. rewrite length_swap. lia.
Qed.

(* OBLIGATION: the generated bubbleDownIndex is Heap.bubble_down, for every fuel >= size - index *)
Theorem bubbleDownIndex_equiv : forall cmp fuel l (i : nat), (length l - i <= fuel)%nat ->
  W.bubbleDownIndex LI fuel (mk l cmp) (Z.of_nat i) = Some (mk (Heap.bubble_down cmp fuel l i) cmp, tt).
Proof.
  intros cmp fuel l i H. unfold W.bubbleDownIndex. cbn [W.list_ W.list_Size LI]. cbv zeta.
  rewrite shiftl_1.
  destruct (bubbleDown_loop_ok cmp fuel fuel l i H) as [j Hj]. rewrite Hj. reflexivity.
Qed.
Print Assumptions bubbleDownIndex_equiv.

(* OBLIGATION *)
Theorem bubbleDown_equiv : forall cmp fuel l, (length l <= fuel)%nat ->
  W.bubbleDown LI fuel (mk l cmp) = Some (mk (Heap.bubble_down cmp (length l) l 0) cmp, tt).
Proof.
  intros cmp fuel l H. unfold W.bubbleDown.
  change (W.bubbleDownIndex LI fuel (mk l cmp) 0) with (W.bubbleDownIndex LI fuel (mk l cmp) (Z.of_nat 0)).
  rewrite (bubbleDownIndex_equiv cmp fuel l 0) by lia.
  rewrite (bubble_down_fuel cmp fuel (length l)) by lia. reflexivity.
Qed.
Print Assumptions bubbleDown_equiv.

(* ---------- Push ---------- *)
Lemma Push_loop_ok : forall cmp fuel vs sz (j : nat) gas (l : list Z), (j < gas)%nat -> (length l <= fuel)%nat ->
  W.Push_loop2 LI fuel gas (mk l cmp) vs sz (Z.of_nat j) = Some (mk (Heap.heapify_from cmp l j) cmp).
Proof.
  intros cmp fuel vs sz j. induction j as [|j IH]; intros gas l Hg Hf; (destruct gas as [|gas]; [lia|]).
  - cbn [W.Push_loop2]. change (0 <=? Z.of_nat 0) with true. cbv iota.
    rewrite (bubbleDownIndex_equiv cmp fuel l 0) by lia. rewrite (bubble_down_fuel cmp fuel (length l)) by lia.
    rewrite heapify_from_0. destruct gas; reflexivity.
  - cbn [W.Push_loop2]. replace (0 <=? Z.of_nat (S j)) with true by lia. cbv iota.
    rewrite (bubbleDownIndex_equiv cmp fuel l (S j)) by lia. rewrite (bubble_down_fuel cmp fuel (length l)) by lia.
    rewrite heapify_from_S. replace (Z.of_nat (S j) - 1) with (Z.of_nat j) by lia.
    apply IH; [lia|]. rewrite bubble_down_length. exact Hf.
Qed.

Definition F_add (g : W.Heap LI) (x : Z) : W.Heap LI := mk (W.list_ LI g ++ [x]) (W.Comparator LI g).
Lemma add_each : forall cmp (vs : list Z) l, fold_left F_add vs (mk l cmp) = mk (l ++ vs) cmp.
Proof.
  intros cmp vs. induction vs as [|v vs IH]; intros l; cbn [fold_left]; [now rewrite app_nil_r|].
  unfold F_add at 2. cbn [W.list_ W.Comparator]. rewrite IH, <- app_assoc. reflexivity.
Qed.

(* OBLIGATION: both branches of Push (one value: append + bubbleUp; otherwise: append all + Floyd's loop from
   size/2 + 1 down to 0) are Heap.push, for every fuel >= new size + 2; None is not returned *)
Theorem Push_equiv : forall cmp fuel l vs, (length l + length vs + 2 <= fuel)%nat ->
  W.Push LI fuel (mk l cmp) vs = Some (mk (Heap.push cmp vs l) cmp, tt).
Proof.
  intros cmp fuel l vs H. unfold W.Push, Heap.push.
  destruct vs as [|v [|w vs]].
  - change (Z.of_nat (length (@nil Z)) =? 1) with false. cbv iota. cbn [length Z.of_nat seq Z.to_nat map fold_left]. cbv zeta.
    cbn [W.list_ W.list_Size LI].
    replace (Z.quot (zlen l) 2 + 1) with (Z.of_nat (length (l ++ []) / 2 + 1)) by (rewrite app_nil_r, Z.quot_div_nonneg by (unfold zlen; lia); unfold zlen; lia).
    rewrite Push_loop_ok by (rewrite ?app_nil_r; cbn [length] in H; lia). rewrite app_nil_r. reflexivity.
  - change (Z.of_nat (length [v]) =? 1) with true. cbv iota. wsimpl.
    change (get [v] (Z.to_nat 0)) with v. unfold al_add. rewrite bubbleUp_equiv by (rewrite app_length; cbn [length] in *; lia).
    rewrite (bubble_up_fuel cmp fuel (length (l ++ [v]))) by (rewrite app_length; cbn [length] in *; lia). reflexivity.
  - replace (Z.of_nat (length (v :: w :: vs)) =? 1) with false by (cbn [length]; lia). cbv iota.
    match goal with |- context [fold_left ?f (map Z.of_nat (seq 0 (Z.to_nat (Z.of_nat (length ?xs))))) ?g0] =>
      change (fold_left f (map Z.of_nat (seq 0 (Z.to_nat (Z.of_nat (length xs))))) g0)
        with (fold_left (fun g (i : Z) => F_add g (get xs (Z.to_nat i))) (map Z.of_nat (seq 0 (Z.to_nat (Z.of_nat (length xs))))) g0)
    end.
    rewrite (range_fold (W.Heap LI) F_add), add_each. cbv zeta. cbn [W.list_ W.list_Size LI].
    replace (Z.quot (zlen (l ++ v :: w :: vs)) 2 + 1) with (Z.of_nat (length (l ++ v :: w :: vs) / 2 + 1))
      by (rewrite Z.quot_div_nonneg by (unfold zlen; lia); unfold zlen; lia).
    rewrite Push_loop_ok by (rewrite app_length; cbn [length] in *; lia). reflexivity.
Qed.
Print Assumptions Push_equiv.

(* ---------- Pop, Peek and the rest ---------- *)
Lemma al_remove_last : forall (l : list Z), l <> [] -> al_remove (zlen l - 1) l = removelast l.
Proof.
  intros l Hl. unfold al_remove. assert (0 < length l)%nat by (destruct l; [congruence|cbn [length]; lia]).
  replace (within (zlen l - 1) l) with true by (unfold within, zlen; lia). cbn [negb].
  replace (Z.to_nat (zlen l - 1)) with (length l - 1)%nat by (unfold zlen; lia).
  replace (S (length l - 1)) with (length l) by lia. rewrite skipn_all, app_nil_r.
  rewrite Nat.sub_1_r, <- (removelast_firstn_len l). reflexivity.
Qed.

(* OBLIGATION *)
Theorem Pop_equiv : forall cmp fuel l, (length l <= fuel)%nat ->
  W.Pop LI fuel (mk l cmp) = Some (mk (fst (Heap.pop cmp l)) cmp, opt_pair (snd (Heap.pop cmp l))).
Proof.
  intros cmp fuel l H. unfold W.Pop. wsimpl. cbv zeta.
  destruct l as [|x t]; [reflexivity|].
  rewrite pop_cons. cbn [fst snd opt_pair]. change (al_get 0 (x :: t)) with (Some x). cbn [opt_pair negb].
  replace (zlen (x :: t) - 1) with (Z.of_nat (length (x :: t) - 1)) by (unfold zlen; cbn [length]; lia).
  change (al_swap 0) with (al_swap (Z.of_nat 0)). rewrite al_swap_swap.
  replace (Z.of_nat (length (x :: t) - 1)) with (zlen (swap (x :: t) 0 (length (x :: t) - 1)) - 1)
    by (unfold zlen; rewrite length_swap; cbn [length]; lia).
  rewrite al_remove_last by (intros C; apply (f_equal (@length Z)) in C; rewrite length_swap in C; discriminate C).
  rewrite bubbleDown_equiv by (rewrite length_removelast, length_swap; cbn [length] in *; lia).
  reflexivity.
Qed.
Print Assumptions Pop_equiv.

(* OBLIGATION *)
Theorem Peek_equiv : forall cmp l, W.Peek LI (mk l cmp) = opt_pair (hd_error l).
Proof.
  intros cmp l. unfold W.Peek. cbn [W.list_ W.list_Get LI]. destruct l as [|x t]; reflexivity.
Qed.
Print Assumptions Peek_equiv.

(* OBLIGATION *)
Theorem header_equiv : forall cmp l i,
  W.Size LI (mk l cmp) = zlen l /\ W.Empty LI (mk l cmp) = (zlen l =? 0) /\ W.Clear LI (mk l cmp) = (mk [] cmp, tt) /\
  W.withinRange LI (mk l cmp) i = within i l /\ W.NewWith LI cmp = mk [] cmp /\ W.New LI = mk [] GoCmp.compare.
Proof. intros cmp l i. repeat split. Qed.
Print Assumptions header_equiv.

(* Values(): values[it.Index()] = it.Value() over the enumeration *)
Lemma indexed_fill : forall (l2 pre rest : list Z), (length l2 <= length rest)%nat ->
  fold_left (fun a (kv : Z * Z) => set a (Z.to_nat (fst kv)) (snd kv)) (combine (zrange (Z.of_nat (length pre)) (length l2)) l2) (pre ++ rest)
  = pre ++ l2 ++ skipn (length l2) rest.
Proof.
  induction l2 as [|x l2 IH]; intros pre rest H; cbn [length zrange combine fold_left fst snd app skipn]; [reflexivity|].
  destruct rest as [|r rest]; cbn [length] in H; [lia|].
  rewrite Nat2Z.id. rewrite <- (Nat.add_0_r (length pre)) at 2. rewrite GoSlice.set_app_r. cbn [set].
  replace (pre ++ x :: rest) with ((pre ++ [x]) ++ rest) by (now rewrite <- app_assoc).
  replace (Z.of_nat (length pre) + 1) with (Z.of_nat (length (pre ++ [x]))) by (rewrite app_length; cbn [length]; lia).
  rewrite IH by lia. rewrite <- app_assoc. reflexivity.
Qed.

(* OBLIGATION: with the iterator enumerating (index, Value()), Values() is Heap.values *)
Theorem Values_equiv : forall cmp l, W.Values LI enum (mk l cmp) = Heap.values cmp l.
Proof.
  intros cmp l. unfold W.Values, enum, indexed. cbn [W.list_ W.Comparator W.list_Size LI]. cbv zeta.
  rewrite values_length. unfold zlen. rewrite Nat2Z.id.
  pose proof (indexed_fill (Heap.values cmp l) [] (repeat 0 (length l))) as H. cbn [app length Z.of_nat] in H.
  rewrite values_length in H. rewrite H by (rewrite repeat_length; lia).
  rewrite skipn_all2 by (rewrite repeat_length; lia). apply app_nil_r.
Qed.
Print Assumptions Values_equiv.

(* ---------- runs of the generated methods ---------- *)
Inductive gop := GPush (vs : list Z) | GPop | GClear.
Definition gen_step (fuel : nat) (s : option (W.Heap LI)) (o : gop) : option (W.Heap LI) :=
  match s with
  | None => None
  | Some g =>
    match o with
    | GPush vs => match W.Push LI fuel g vs with Some (g', _) => Some g' | None => None end
    | GPop => match W.Pop LI fuel g with Some (g', _) => Some g' | None => None end
    | GClear => Some (fst (W.Clear LI g))
    end
  end.
Definition gen_run (fuel : nat) (cmp : cmpf) (ops : list gop) : option (W.Heap LI) :=
  fold_left (gen_step fuel) ops (Some (W.NewWith LI cmp)).
Definition to_op (o : gop) : op := match o with GPush vs => PushAll vs | GPop => Pop | GClear => Clear end.
(* more than any size reached: every pushed value, + 2 *)
Definition pushed (ops : list gop) : nat := fold_left (fun n o => match o with GPush vs => n + length vs | _ => n end)%nat ops 0%nat.

Lemma pushed_snoc : forall ops o, pushed (ops ++ [o]) = (pushed ops + match o with GPush vs => length vs | _ => 0 end)%nat.
Proof. intros ops o. unfold pushed. rewrite fold_left_app. cbn [fold_left]. destruct o; lia. Qed.

Lemma gen_run_fuel_irrelevant_aux : forall c ops fuel, ckind c = BinaryHeap -> (pushed ops + 2 <= fuel)%nat ->
  exists l, gen_run fuel (kc c) ops = Some (mk l (kc c)) /\ run c (map to_op ops) = StHeap l /\ (length l <= pushed ops)%nat.
Proof.
  intros c ops. induction ops as [|o ops IH] using rev_ind; intros fuel Hk Hf.
  - exists []. repeat split; [|cbn; lia]. unfold run, run_from, init. cbn [map fold_left]. now rewrite Hk.
  - rewrite pushed_snoc in Hf. destruct (IH fuel Hk ltac:(lia)) as (l & Hg & Hr & Hl).
    unfold gen_run in *. rewrite fold_left_app, Hg. cbn [fold_left gen_step]. rewrite map_app. cbn [map]. rewrite run_snoc, Hr.
    rewrite pushed_snoc. destruct o as [vs| |]; cbn [to_op]; unfold step; try unfold init; rewrite Hk.
    + rewrite Push_equiv by lia. eexists. repeat split.
      rewrite (Permutation_length (push_perm (kc c) vs l)), app_length. lia.
    + rewrite Pop_equiv by lia. destruct (Heap.pop (kc c) l) as [l' r] eqn:E. cbn [fst snd]. eexists. repeat split.
      rewrite (pop_length (kc c) _ _ _ E). lia.
    + exists []. repeat split. cbn [length]. lia.
Qed.

(* OBLIGATION: runs of the GENERATED Push / Pop / Clear from the generated NewWith(cmp), with any fuel above the
   number of pushed values + 2, never fail and are the machine's runs for kind BinaryHeap *)
Theorem gen_run_simulates : forall c ops fuel, ckind c = BinaryHeap -> (pushed ops + 2 <= fuel)%nat ->
  exists l, gen_run fuel (kc c) ops = Some (mk l (kc c)) /\ run c (map to_op ops) = StHeap l.
Proof.
  intros c ops fuel Hk Hf. destruct (gen_run_fuel_irrelevant_aux c ops fuel Hk Hf) as (l & H1 & H2 & _). exists l. split; assumption.
Qed.
Print Assumptions gen_run_simulates.

(* OBLIGATION: the heap-order invariant of the model (HeapProofs / property C06) holds of the backing list after
   every run of the generated methods, the generated Pop then returns a least element (w.r.t. the comparator) and
   removes exactly it; Peek shows that element *)
Theorem gen_heap_invariant_and_pop_min : forall c ops fuel, ckind c = BinaryHeap -> (pushed ops + 2 <= fuel)%nat ->
  exists g, gen_run fuel (kc c) ops = Some g /\
    heap_ok (kc c) (W.list_ LI g) /\
    match W.Pop LI fuel g with
    | None => False
    | Some (g', (x, ok)) =>
      heap_ok (kc c) (W.list_ LI g') /\
      (ok = false -> W.list_ LI g = [] /\ W.list_ LI g' = []) /\
      (ok = true -> W.Peek LI g = (x, true) /\ Permutation (W.list_ LI g) (x :: W.list_ LI g') /\
                    forall y, In y (W.list_ LI g) -> kc c x y <> Gt)
    end.
Proof.
  intros c ops fuel Hk Hf. destruct (gen_run_fuel_irrelevant_aux c ops fuel Hk Hf) as (l & Hg & Hr & Hl).
  exists (mk l (kc c)). split; [exact Hg|]. cbn [W.list_].
  assert (Hok : heap_ok (kc c) l).
  { pose proof (C06_heap_inv c (map to_op ops)) as H. rewrite Hk in H. specialize (H eq_refl). rewrite Hr in H. destruct H as (l0 & E0 & H). injection E0 as ->. exact H. }
  split; [exact Hok|]. rewrite Pop_equiv by lia.
  destruct (Heap.pop (kc c) l) as [l' r] eqn:E. cbn [fst snd W.list_].
  pose proof (pop_heap_ok (kc c) (c06_kc_SWO c) l l' r Hok E) as Hok'.
  destruct r as [x|]; cbn [opt_pair]; (split; [exact Hok'|]); (split; [intros C|intros C]); try discriminate C.
  - rewrite Peek_equiv. destruct l as [|a t]; [cbn in E; discriminate E|].
    assert (a = x) by (rewrite pop_cons in E; now injection E). subst a.
    split; [reflexivity|]. split.
    + exact (pop_perm (kc c) (x :: t) l' x E).
    + exact (heap_min (kc c) (c06_kc_SWO c) (x :: t) x Hok eq_refl).
  - exact (pop_none (kc c) l l' E).
Qed.
Print Assumptions gen_heap_invariant_and_pop_min.
