(* COMPOSITION: sets/linkedhashset/linkedhashset.go regenerated over a Go map and an abstract `ordering` list (GodsGen.LinkedHashSetGen,
   proved against the machine in LinkedHashSetGenProofs.v with the list instantiated by the sequence MODEL) is here instantiated with
   the GENERATED POINTER CODE of lists/doublylinkedlist/doublylinkedlist.go (DLLCellsIface.v; the interface is instantiated as is,
   including the constructor doublylinkedlist.New).  The generated set code is first shown to respect the relation between the two
   instantiations (same table, the heap represents the model's ordering list).  [linkedhashset_over_cells_run]: after ANY run of
   generated Add(items...) / Remove(items...) / Clear from the generated New() the ordering list is not None (no nil dereference, no
   fuel exhaustion), its heap represents -- with correct prev links -- the ordering of Machine.run for kind LinkedHashSet, the table is
   the machine's, and Size / Empty / Contains(items...) / Values answer as the machine; Values() loops over the enumeration
   (index, element) of what the generated list Values() walk reads (DoublyLinkedListIterGenProofs.gen_iter_is_cursor: the generated
   list iterator is the cursor over exactly that sequence; sets/linkedhashset/iterator.go itself is not translated). *)
From Coq Require Import ZArith List Lia Bool Arith.
From Gods Require Import Common.Cmp Common.ListAux Spec.SeqSpec Spec.MapSpec Model.Ops Model.Lists Model.Machine Model.LinkedCells.
From Gods Require Import Proofs.LinkedCellsProofs Proofs.IterLinear.
From GodsGen Require LinkedHashSetGen.
From GodsGenProofs Require Import GenIterRun WrapCommon GoMap DLLCellsIface.
From GodsGenProofs Require HashSetGenProofs LinkedHashSetGenProofs.
Import ListNotations.
Local Open Scope Z_scope.

Module L := LinkedHashSetGen.
Module LP := LinkedHashSetGenProofs.

Definition Ip : L.ordering_iface := L.mk_ordering_iface pstate
  p_Add p_Append p_Clear p_Get p_IndexOf p_Prepend p_Remove p_Size p_Values p_New.
(* set.Iterator(): index and value of what the generated Values() of the ordering list reads *)
Definition enum_p (g : L.Set_ Ip) : list (Z * Z) := indexed (p_Values (L.ordering Ip g)).

Definition SR (gp : L.Set_ Ip) (gm : L.Set_ LP.I) : Prop :=
  L.table Ip gp = L.table LP.I gm /\ R (L.ordering Ip gp) (L.ordering LP.I gm).

Lemma fold_rel2 : forall (X Y C : Type) (Q : X -> Y -> Prop) (f : X -> C -> X) (g : Y -> C -> Y) (l : list C),
  (forall a b c, Q a b -> Q (f a c) (g b c)) -> forall a b, Q a b -> Q (fold_left f l a) (fold_left g l b).
Proof. intros X Y C Q f g l H. induction l as [|c l IH]; intros a b Hab; cbn [fold_left]; [exact Hab|]. apply IH, H, Hab. Qed.

Lemma Add_rel' : forall gp gm vs, SR gp gm -> SR (fst (L.Add Ip gp vs)) (fst (L.Add LP.I gm vs)).
Proof.
  intros gp gm vs H. unfold L.Add. cbn [fst]. apply fold_rel2; [|exact H]. clear gp gm H.
  intros [tp op] [tm om] i [Ht Ho]. cbn [L.table L.ordering] in Ht, Ho. subst tm. cbv zeta.
  unfold L.set_table, L.set_ordering. cbn [L.table L.ordering L.ordering_Append Ip LP.I].
  destruct (gm_lookup tp (get vs (Z.to_nat i))) as [t4 t5]. destruct (negb t5); [|split; [reflexivity|exact Ho]].
  pose proof (Append_rel op om [get vs (Z.to_nat i)] Ho) as HA. destruct (p_Append op [get vs (Z.to_nat i)]) as [o' u]. cbn [fst] in HA.
  split; [reflexivity|exact HA].
Qed.

Lemma Remove_rel' : forall gp gm vs, SR gp gm -> SR (fst (L.Remove Ip gp vs)) (fst (L.Remove LP.I gm vs)).
Proof.
  intros gp gm vs H. unfold L.Remove. cbn [fst]. apply fold_rel2; [|exact H]. clear gp gm H.
  intros [tp op] [tm om] i [Ht Ho]. cbn [L.table L.ordering] in Ht, Ho. subst tm. cbv zeta.
  unfold L.set_table, L.set_ordering. cbn [L.table L.ordering L.ordering_IndexOf L.ordering_Remove Ip LP.I].
  destruct (gm_lookup tp (get vs (Z.to_nat i))) as [t4 t5]. destruct t5; [|split; [reflexivity|exact Ho]].
  destruct (observers_rel op om Ho (get vs (Z.to_nat i))) as (_ & _ & _ & _ & OI). rewrite OI.
  pose proof (Remove_rel op om (dll_index_of (get vs (Z.to_nat i)) om) Ho) as HA.
  destruct (p_Remove op _) as [o' u]. cbn [fst] in HA. split; [reflexivity|exact HA].
Qed.

Lemma Clear_rel' : forall gp gm, SR gp gm -> SR (fst (L.Clear Ip gp)) (fst (L.Clear LP.I gm)).
Proof.
  intros [tp op] [tm om] [Ht Ho]. cbn [L.table L.ordering] in Ht, Ho. unfold L.Clear, L.set_table, L.set_ordering.
  cbn [L.table L.ordering L.ordering_Clear Ip LP.I]. pose proof (Clear_rel op om Ho) as HC. destruct (p_Clear op) as [o' u]. cbn [fst] in *.
  split; [reflexivity|exact HC].
Qed.

Lemma New_rel' : SR (L.New Ip []) (L.New LP.I []).
Proof. split; [reflexivity|exact New_rel]. Qed.

Lemma observers_rel' : forall gp gm vs, SR gp gm ->
  L.Size Ip gp = L.Size LP.I gm /\ L.Empty Ip gp = L.Empty LP.I gm /\ L.Contains Ip gp vs = L.Contains LP.I gm vs /\
  L.Values Ip enum_p gp = L.Values LP.I LP.enum gm.
Proof.
  intros [tp op] [tm om] vs [Ht Ho]. cbn [L.table L.ordering] in Ht, Ho. subst tm.
  destruct (observers_rel op om Ho 0) as (_ & OS & _ & OV & _).
  assert (HS : L.Size Ip (L.mkSet Ip tp op) = L.Size LP.I (L.mkSet LP.I tp om)) by (unfold L.Size; cbn [L.ordering L.ordering_Size Ip LP.I]; exact OS).
  split; [exact HS|]. split; [unfold L.Empty; now rewrite HS|]. split.
  - unfold L.Contains. generalize (map Z.of_nat (seq 0 (Z.to_nat (Z.of_nat (length vs))))) as idx.
    induction idx as [|i idx IH]; cbn [L.Contains_loop1 L.table]; [reflexivity|]. now rewrite IH.
  - unfold L.Values. rewrite HS. unfold enum_p, LP.enum. cbn [L.ordering]. rewrite OV. reflexivity.
Qed.

(* ---------- runs ---------- *)
Definition gen_step_p (g : L.Set_ Ip) (o : LP.gop) : L.Set_ Ip :=
  match o with LP.GAdd vs => fst (L.Add Ip g vs) | LP.GRemove vs => fst (L.Remove Ip g vs) | LP.GClear => fst (L.Clear Ip g) end.
Definition gen_run_p (ops : list LP.gop) : L.Set_ Ip := fold_left gen_step_p ops (L.New Ip []).

Lemma gen_run_rel : forall ops, SR (gen_run_p ops) (LP.gen_run ops).
Proof.
  intros ops. induction ops as [|o ops IH] using rev_ind; [exact New_rel'|].
  unfold gen_run_p, LP.gen_run. rewrite !fold_left_app. cbn [fold_left]. fold (gen_run_p ops) (LP.gen_run ops).
  destruct o as [vs|vs|]; cbn [gen_step_p LP.gen_step]; [apply Add_rel'|apply Remove_rel'|apply Clear_rel']; exact IH.
Qed.

(* OBLIGATION *)
Theorem linkedhashset_over_cells_run : forall c, ckind c = LinkedHashSet -> forall ops,
  let gp := gen_run_p ops in
  let s := run c (map LP.to_op ops) in
  exists d tbl ord, L.ordering Ip gp = Some d /\ s = StLSet tbl ord /\ L.table Ip gp = HashSetGenProofs.zp tbl /\ repr_dll d ord /\
    L.Size Ip gp = size_of c s /\ L.Empty Ip gp = (size_of c s =? 0) /\ L.Values Ip enum_p gp = values_of c s /\
    (forall vs, obool (L.Contains Ip gp vs) = contains_of c s vs).
Proof.
  intros c Hk ops gp s. pose proof (gen_run_rel ops) as HR. fold gp in HR.
  destruct (LP.gen_run_simulates c Hk ops) as (tbl & ord & Hrun & Hrel). fold s in Hrun.
  pose proof HR as [Ht (d & Hd & Hrep)]. pose proof Hrel as [Ht' Ho']. exists d, tbl, ord.
  split; [exact Hd|]. split; [exact Hrun|]. split; [now rewrite Ht|]. split; [now rewrite <- Ho'|].
  destruct (observers_rel' gp _ [] HR) as (OS & OE & _ & OV). rewrite Hrun, OS, OE, OV.
  split; [exact (LP.Size_equiv c _ tbl ord Hrel)|]. split; [exact (LP.Empty_equiv c _ tbl ord Hrel)|].
  split; [exact (LP.Values_equiv c _ tbl ord Hrel)|].
  intros vs. destruct (observers_rel' gp _ vs HR) as (_ & _ & OC & _). rewrite OC. symmetry. exact (LP.Contains_equiv c _ tbl ord vs Hrel).
Qed.
Print Assumptions linkedhashset_over_cells_run.
