(* END-TO-END COROLLARIES, property C04 (Properties/C04.v, Proofs/SetsProofs.v) about runs of GENERATED code:
   - sets/treeset COMPOSED with the generated red-black pointer code (TreeSetOverHeapProofs.gen_run_p: generated Add(items...) /
     Remove(items...) / Clear, any list, from the generated NewWith(cmp)), every configuration of kind TreeSet;
   - sets/hashset (HashSetGenProofs.gen_run: the generated code over Go's map).
   Membership (the generated Contains(x)) is the scan of the HISTORY (MapSpec-style [live]: the last Add / Remove of an element
   equivalent to x decides, Clear forgets), Contains(xs...) holds exactly when every x is a member (true for no arguments), and for
   the TreeSet Values() lists every member exactly once in strictly ascending comparator order and Size() is their number. *)
From Coq Require Import ZArith List Lia Bool Arith Sorted SetoidList.
From Gods Require Import Common.Cmp Spec.SeqSpec Spec.MapSpec Model.Ops Model.Machine.
From Gods Require Spec.SetSpec.
From Gods Require Proofs.MachineMaps Proofs.SetsProofs.
From GodsGen Require TreeSetGen HashSetGen.
From GodsGenProofs Require Import WrapCommon GoCmp.
From GodsGenProofs Require TreeSetGenProofs TreeSetOverHeapProofs HashSetGenProofs.
Import ListNotations.
Local Open Scope Z_scope.

Module TSO := TreeSetOverHeapProofs. Module TS := TreeSetGenProofs. Module T := TreeSetGen.
Module HS := HashSetGenProofs. Module S := HashSetGen.
Module SP := SetsProofs.

Lemma forallb_ext' : forall (A : Type) (f g : A -> bool) l, (forall x, f x = g x) -> forallb f l = forallb g l.
Proof. intros A f g l H. induction l as [|a l IH]; [reflexivity|]. cbn. rewrite H, IH. reflexivity. Qed.

Lemma obool_inj : forall a b, obool a = obool b -> a = b.
Proof. intros [|] [|] H; try reflexivity; discriminate H. Qed.

(* OBLIGATION (C04 for the generated TreeSet over the generated red-black pointer code) *)
Theorem gen_treeset_membership : forall mag c ops, ckind c = TreeSet ->
  let I := TSO.Ip mag in let g := TSO.gen_run_p mag (kc c) ops in let hist := rev (SetSpec.set_hist c (map TS.to_op ops)) in
  (forall x, T.Contains I g [x] = SetSpec.live (kc c) hist x) /\
  (forall xs, T.Contains I g xs = forallb (fun x => T.Contains I g [x]) xs) /\ T.Contains I g [] = true /\
  NoDupA (fun a b => kc c a b = Eq) (T.Values I g) /\ T.Size I g = Z.of_nat (length (T.Values I g)) /\
  (forall x, InA (fun a b => kc c a b = Eq) x (T.Values I g) <-> T.Contains I g [x] = true) /\
  StronglySorted (fun a b => kc c a b = Lt) (T.Values I g).
Proof.
  intros mag c ops K I g hist.
  destruct (TSO.treeset_over_heap_run mag c K ops) as (n & h & tr & t & _ & _ & _ & _ & _ & _ & _ & O1 & _ & O3 & O4).
  fold I in O1, O3, O4. fold g in O1, O3, O4.
  assert (Hk : SP.is_set_kind (ckind c) = true) by (rewrite K; reflexivity).
  assert (Hcmp : SP.set_cmp c = kc c) by (unfold SP.set_cmp; rewrite K; reflexivity).
  assert (Hmem : forall x, T.Contains I g [x] = SetSpec.live (kc c) hist x).
  { intro x. apply obool_inj. rewrite (O4 [x]). exact (SP.C04_member_tree_proof c _ x K). }
  split; [exact Hmem|]. split.
  { intro xs. apply obool_inj. rewrite (O4 xs). destruct (SP.C04_contains_all_proof c (map TS.to_op ops) xs Hk) as (_ & E & _). rewrite E, Hcmp. f_equal.
    apply forallb_ext'. intro x. symmetry. apply Hmem. }
  split; [apply obool_inj; rewrite (O4 []); apply (SP.C04_contains_all_proof c _ [] Hk)|].
  destruct (SP.C04_values_obs_proof c (map TS.to_op ops) Hk) as (V1 & V2 & V3). rewrite Hcmp in V1, V3. rewrite O1, O3.
  split; [exact V1|]. split; [exact V2|]. split.
  { intro x. rewrite (V3 x), <- (O4 [x]). split; intro E; [apply obool_inj in E; exact E|rewrite E; reflexivity]. }
  exact (SP.C04_treeset_ascending_proof c _ K).
Qed.
Print Assumptions gen_treeset_membership.

(* OBLIGATION (C04 for the generated HashSet) *)
Theorem gen_hashset_membership : forall c ops, ckind c = HashSet ->
  let g := HS.gen_run ops in let hist := rev (SetSpec.set_hist c (map HS.to_op ops)) in
  (forall x, S.Contains g [x] = SetSpec.live Z.compare hist x) /\
  (forall xs, S.Contains g xs = forallb (fun x => S.Contains g [x]) xs) /\ S.Contains g [] = true /\
  S.Size g = size_of c (run c (map HS.to_op ops)) /\ 0 <= S.Size g /\ S.Empty g = (S.Size g =? 0) /\
  S.Size g = Z.of_nat (length (values_of c (run c (map HS.to_op ops)))).
Proof.
  intros c ops K g hist. destruct (HS.gen_run_simulates c K ops) as (l & Hrun & Hrel). fold g in Hrel.
  assert (Hk : SP.is_set_kind (ckind c) = true) by (rewrite K; reflexivity).
  assert (Hcmp : SP.set_cmp c = Z.compare) by (unfold SP.set_cmp; rewrite K; reflexivity).
  assert (O4 : forall vs, obool (S.Contains g vs) = contains_of c (run c (map HS.to_op ops)) vs) by (intro vs; rewrite Hrun; symmetry; apply HS.Contains_equiv; exact Hrel).
  assert (Hmem : forall x, S.Contains g [x] = SetSpec.live Z.compare hist x).
  { intro x. apply obool_inj. rewrite (O4 [x]). apply SP.C04_member_hash_proof. left; exact K. }
  split; [exact Hmem|]. split.
  { intro xs. apply obool_inj. rewrite (O4 xs). destruct (SP.C04_contains_all_proof c (map HS.to_op ops) xs Hk) as (_ & E & _). rewrite E, Hcmp. f_equal.
    apply forallb_ext'. intro x. symmetry. apply Hmem. }
  split; [apply obool_inj; rewrite (O4 []); apply (SP.C04_contains_all_proof c _ [] Hk)|].
  pose proof (HS.Size_equiv c g l Hrel) as Es. rewrite <- Hrun in Es.
  destruct (SP.C04_values_obs_proof c (map HS.to_op ops) Hk) as (_ & V2 & _).
  split; [exact Es|]. split; [rewrite Es, V2; lia|]. split; [rewrite (HS.Empty_equiv c g l Hrel), Es, Hrun; reflexivity|rewrite Es; exact V2].
Qed.
Print Assumptions gen_hashset_membership.

(* a concrete run (an Example; keyword Lemma so that run.py can isolate it): x / 3 identifies 3, 4, 5 *)
Definition sets_mag : Z -> Z -> positive := fun _ _ => 1%positive.
Definition sets_cfg : config := {| ckind := TreeSet; kcmp := CDiv3; vcmp := CNat; ccap := 0; corder := 3; cuni := 8 |}.
Lemma ex_sets_generated_run :
  let I := TSO.Ip sets_mag in
  let g := TSO.gen_run_p sets_mag (kc sets_cfg) [TS.GAdd [3; 4; 0]; TS.GAdd [5; 10]; TS.GRemove [2]; TS.GAdd [11; 7]] in
  let gh := HS.gen_run [HS.GAdd [3; 1; 3; 2]; HS.GRemove [1; 7; 1]; HS.GAdd [5; 1]; HS.GRemove [3; 5; 5]; HS.GAdd [9; 2; 2]] in
  (T.Values I g, T.Size I g, T.Contains I g [4; 9], T.Contains I g [0], S.Size gh, S.Contains gh [2; 9; 2], S.Contains gh [2; 3]) =
  ([5; 7; 11], 3, true, false, 3, true, false).
Proof. vm_compute. reflexivity. Qed.
