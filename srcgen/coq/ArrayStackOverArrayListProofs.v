(* COMPOSITION: stacks/arraystack/arraystack.go regenerated over an abstract list (GodsGen.ArrayStackWrapGen, proved against the machine
   in ArrayStackWrapProofs.v with the interface instantiated by the sequence MODEL of arraylist.List) is here instantiated with the
   GENERATED capacity-aware ArrayList core (GodsGen.ArrayListCoreGen through ArrayListIface.v), and the initial state is computed by the
   GENERATED constructor (GodsGen.ArrayStackNewGen.New over the generated arraylist.New).  [arraystack_over_arraylist_run]: for EVERY
   allocation policy of the runtime and every json codec, after ANY run of generated Push / Pop / Clear over the generated list code
   the backing slice is well-formed and its live prefix is the sequence of Machine.run for kind ArrayStack, and Size / Empty / Values
   / Peek and the result of the next Pop are the machine's.  (All the generated functions involved are total: nothing can fail.) *)
From Coq Require Import ZArith List Lia Bool Arith.
From Gods Require Import Common.Cmp Common.ListAux Spec.SeqSpec Model.Ops Model.Lists Model.Machine.
From GodsGen Require ArrayStackWrapGen ArrayStackNewGen ArrayListCoreGen.
From GodsGenProofs Require Import GoSlice GenIterRun WrapCommon ArrayListIface.
From GodsGenProofs Require GoJson ArrayStackWrapProofs.
Import ListNotations.
Local Open Scope Z_scope.

Module W := ArrayStackWrapGen.
Module WP := ArrayStackWrapProofs.
Module N := ArrayStackNewGen.

Section Comp.
Variable alloc : Z -> Z.
Variable marshal_slice : list Z -> GoJson.bytes * bool.
Variable unmarshal_cslice : GoJson.bytes -> slice -> slice * bool.
Variable slice_is_nil : slice -> bool.

(* the wrapped list: the generated ArrayList core *)
Definition Ip : W.list_iface := W.mk_list_iface A.List
  c_Add A.Clear A.Empty (c_FromJSON unmarshal_cslice) A.Get A.Remove A.Size (c_ToJSON marshal_slice slice_is_nil) (c_Values alloc).
(* the wrapped constructor: the generated arraylist.New; the struct of ArrayStackNewGen is re-wrapped (two generated modules declare it) *)
Definition Np : N.list_iface := N.mk_list_iface A.List c_New.
Definition new_p : W.Stack Ip := W.mkStack Ip (N.list_ Np (N.New Np)).

Definition SR (gp : W.Stack Ip) (gm : W.Stack WP.I) : Prop := al_rel (W.list_ Ip gp) (W.list_ WP.I gm).

Lemma new_rel : forall gm, W.list_ WP.I gm = [] -> SR new_p gm.
Proof. intros [l] H. cbn in H. subst l. exact (c_New_rel []). Qed.

Section Rel.
Variables (gp : W.Stack Ip) (gm : W.Stack WP.I).
Hypothesis HR : SR gp gm.

Lemma Size_rel : W.Size Ip gp = W.Size WP.I gm.
Proof. destruct gp as [g], gm as [l]. exact (c_Size_rel g l HR). Qed.
Lemma Empty_rel : W.Empty Ip gp = W.Empty WP.I gm.
Proof. destruct gp as [g], gm as [l]. exact (c_Empty_rel g l HR). Qed.
Lemma Peek_rel : W.Peek Ip gp = W.Peek WP.I gm.
Proof.
  destruct gp as [g], gm as [l]. unfold W.Peek. cbn [W.list_ W.list_Get W.list_Size Ip WP.I]. unfold SR in HR. cbn [W.list_] in HR.
  rewrite (c_Size_rel g l HR), (c_Get_rel g l HR). now destruct (opt_pair (al_get (zlen l - 1) l)).
Qed.
Lemma Push_rel : forall v, SR (fst (W.Push Ip gp v)) (fst (W.Push WP.I gm v)).
Proof. intros v. destruct gp as [g], gm as [l]. exact (c_Add_rel g l [v] HR). Qed.
Lemma Clear_rel : SR (fst (W.Clear Ip gp)) (fst (W.Clear WP.I gm)).
Proof. destruct gp as [g], gm as [l]. exact (c_Clear_rel g l HR). Qed.
Lemma Pop_rel : SR (fst (W.Pop Ip gp)) (fst (W.Pop WP.I gm)) /\ snd (W.Pop Ip gp) = snd (W.Pop WP.I gm).
Proof.
  destruct gp as [g], gm as [l]. unfold SR in HR. cbn [W.list_] in HR. unfold W.Pop.
  cbn [W.list_ W.list_Get W.list_Size W.list_Remove Ip WP.I]. rewrite (c_Size_rel g l HR), (c_Get_rel g l HR).
  destruct (opt_pair (al_get (zlen l - 1) l)) as [v ok]. pose proof (c_Remove_rel g l (zlen l - 1) HR) as H.
  destruct (A.Remove g (zlen l - 1)) as [g' u]. cbn [fst snd] in *. split; [exact H|reflexivity].
Qed.
Lemma Values_rel : W.Values Ip gp = W.Values WP.I gm.
Proof.
  destruct gp as [g], gm as [l]. unfold SR in HR. cbn [W.list_] in HR. unfold W.Values.
  cbn [W.list_ W.list_Get W.list_Size Ip WP.I]. rewrite (c_Size_rel g l HR). cbv zeta.
  apply fold_left_ext_in. intros acc i _. rewrite (c_Get_rel g l HR). reflexivity.
Qed.
End Rel.

Definition gen_step_p (g : W.Stack Ip) (o : WP.gop) : W.Stack Ip :=
  match o with
  | WP.GPush v => fst (W.Push Ip g v)
  | WP.GPop => fst (W.Pop Ip g)
  | WP.GClear => fst (W.Clear Ip g)
  end.
Definition gen_run_p (ops : list WP.gop) : W.Stack Ip := fold_left gen_step_p ops new_p.

Lemma gen_run_rel : forall ops, SR (gen_run_p ops) (WP.gen_run (W.mkStack WP.I []) ops).
Proof.
  intros ops. induction ops as [|o ops IH] using rev_ind; [apply new_rel; reflexivity|].
  unfold gen_run_p, WP.gen_run. rewrite !fold_left_app. cbn [fold_left]. fold (gen_run_p ops) (WP.gen_run (W.mkStack WP.I []) ops).
  destruct o as [v| |]; cbn [gen_step_p WP.gen_step]; [apply Push_rel|apply Pop_rel|apply Clear_rel]; exact IH.
Qed.
End Comp.

(* OBLIGATION *)
Theorem arraystack_over_arraylist_run : forall alloc marshal_slice unmarshal_cslice slice_is_nil c, ckind c = ArrayStack -> forall ops,
  let J := Ip alloc marshal_slice unmarshal_cslice slice_is_nil in
  let gp := gen_run_p alloc marshal_slice unmarshal_cslice slice_is_nil ops in
  let s := run c (map WP.to_op ops) in
  exists l, s = StSeq l /\ al_rel (W.list_ J gp) l /\
    W.Size J gp = size_of c s /\ W.Empty J gp = (size_of c s =? 0) /\ W.Values J gp = values_of c s /\
    obs_pair (W.Peek J gp) = peek_of c s /\ obs_pair (snd (W.Pop J gp)) = snd (fst (step c s Pop)).
Proof.
  intros alloc ms us isn c Hk ops J gp s. subst J.
  pose proof (gen_run_rel alloc ms us isn ops) as HR. fold gp in HR.
  set (gm := WP.gen_run (W.mkStack WP.I []) ops) in *.
  assert (Hrun : s = StSeq (W.list_ WP.I gm)) by (apply (WP.gen_run_simulates c _ Hk); reflexivity).
  exists (W.list_ WP.I gm). split; [exact Hrun|]. split; [exact HR|].
  rewrite Hrun, (Size_rel _ _ _ _ _ _ HR), (Empty_rel _ _ _ _ _ _ HR), (Values_rel _ _ _ _ _ _ HR), (Peek_rel _ _ _ _ _ _ HR),
    (proj2 (Pop_rel _ _ _ _ _ _ HR)).
  rewrite (WP.Pop_equiv c Hk). cbn [fst snd].
  split; [apply WP.Size_equiv|]. split; [apply WP.Empty_equiv|]. split; [apply (WP.Values_equiv c Hk)|].
  split; [symmetry; apply (WP.Peek_equiv c Hk)|reflexivity].
Qed.
Print Assumptions arraystack_over_arraylist_run.
