(* serialization.go of LinkedListStack (in GodsGen.LinkedListStackWrapGen): for ANY interface J of the wrapped container, ToJSON is the wrapped container's
   ToJSON, FromJSON its FromJSON (the new state stored back, the error passed on -- nothing else happens, no alternative
   path), MarshalJSON = ToJSON, UnmarshalJSON = FromJSON. *)
From Coq Require Import ZArith List Bool.
From GodsGen Require LinkedListStackWrapGen.
From GodsGenProofs Require Import GoJson.
Import ListNotations.

Module LS := LinkedListStackWrapGen.

(* OBLIGATION *)
Theorem LinkedListStack_json_delegates : forall J s d,
  LS.ToJSON J s = LS.list_ToJSON J (LS.list_ J s) /\
  LS.FromJSON J s d = (LS.set_list J s (fst (LS.list_FromJSON J (LS.list_ J s) d)), snd (LS.list_FromJSON J (LS.list_ J s) d)) /\
  LS.MarshalJSON J s = LS.ToJSON J s /\ LS.UnmarshalJSON J s d = LS.FromJSON J s d.
Proof.
  intros J s d. unfold LS.ToJSON, LS.FromJSON, LS.MarshalJSON, LS.UnmarshalJSON, LS.ToJSON, LS.FromJSON.
  destruct (LS.list_ToJSON J (LS.list_ J s)), (LS.list_FromJSON J (LS.list_ J s) d). repeat split.
Qed.
Print Assumptions LinkedListStack_json_delegates.
