(* maps/hashmap/serialization.go (in GodsGen.HashMapGen), encoding/json abstract: FromJSON decodes into a fresh map; on an
   error the receiver is unchanged; on success Clear, then Put of every decoded entry (in the order `range` visits
   them: the parameter map_order) = Machine.put_entries of that enumeration from init; ToJSON marshals the map. *)
From Coq Require Import ZArith List Lia Bool Arith.
From Gods Require Import Common.Cmp Common.ListAux Spec.SeqSpec Model.Ops Model.Machine.
From GodsGen Require HashMapGen.
From GodsGenProofs Require Import GenIterRun WrapCommon GoMap GoJson HashMapGenProofs.
Import ListNotations.
Local Open Scope Z_scope.

Section Json.
Variable umm : bytes -> gmap -> gmap * bool.          (* json.Unmarshal into a map *)
Variable mm : gmap -> bytes * bool.                   (* json.Marshal of a map *)
Variable mo : gmap -> list (Z * Z).
Variable c : config.
Hypothesis Hk : ckind c = HashMap.

Lemma fold_put : forall es g, H.m (fold_left (fun g (kv : Z * Z) => fst (H.Put g (fst kv) (snd kv))) es g)
  = fold_left (fun acc e => hput (fst e) (snd e) acc) es (H.m g).
Proof. induction es as [|e es IH]; intros g; cbn [fold_left]; [reflexivity|]. now rewrite IH. Qed.

(* OBLIGATION *)
Theorem FromJSON_equiv : forall g data,
  if snd (umm data gm_empty) then H.FromJSON umm mo g data = (g, true)
  else StHMap (H.m (fst (H.FromJSON umm mo g data))) = put_entries c (mo (fst (umm data gm_empty))) (init c) /\
       snd (H.FromJSON umm mo g data) = false.
Proof.
  intros g data. unfold H.FromJSON. destruct (umm data gm_empty) as [m' e]. destruct e; cbn [fst snd negb]; [reflexivity|].
  destruct g as [m0]. unfold H.Clear. cbn [H.set_m fst snd]. cbv zeta. cbn [fst snd]. split; [|reflexivity].
  match goal with |- context [fold_left ?B (mo m') ?R] =>
    rewrite (fold_left_ext_in _ _ B (fun g kv => fst (H.Put g (fst kv) (snd kv)))) by (intros; reflexivity) end.
  rewrite fold_put. unfold put_entries, init. rewrite Hk. reflexivity.
Qed.

(* OBLIGATION *)
Theorem ToJSON_equiv : forall g,
  H.ToJSON mm g = mm (H.m g) /\ H.MarshalJSON mm g = H.ToJSON mm g /\
  (forall data, H.UnmarshalJSON umm mo g data = H.FromJSON umm mo g data).
Proof.
  intros g. unfold H.ToJSON, H.MarshalJSON, H.UnmarshalJSON. repeat split.
  - now destruct (mm (H.m g)).
  - unfold H.ToJSON. now destruct (mm (H.m g)).
  - intros data. now destruct (H.FromJSON umm mo g data).
Qed.
End Json.

Print Assumptions FromJSON_equiv.
Print Assumptions ToJSON_equiv.
