(* The ENCODER half of maps/linkedhashmap/serialization.go regenerated (GodsGen.LinkedHashMapGen, bytesbuf.go): ToJSON writes the
   members itself into a bytes.Buffer -- `{`, then for every entry of the iterator (insertion order) the single-entry object
   json.Marshal(map[K]V{key: value}) without its first and last byte, a `,` after every entry but the last, `}` -- and
   MarshalJSON = ToJSON.  json.Marshal is ABSTRACT (any function marshal_map; GoJson.v), the buffer is the list of the bytes
   written.  [ToJSON_equiv]: for every marshal function and every map that satisfies the machine's invariant lmI (which
   every reachable state has), the generated ToJSON emits EXACTLY the members of the model's to_json (Model/Machine.v:
   lmap_entries table ordering = the insertion order), each through marshal_map, separated by commas between braces; the
   first entry whose marshalling fails makes it return (nil, that error).  The DECODER half (FromJSON: json.NewDecoder /
   Token / More / RawMessage) is NOT translated. *)
From Coq Require Import ZArith List Lia Bool Arith Permutation.
From Gods Require Import Common.Cmp Common.ListAux Spec.SeqSpec Spec.MapSpec Model.Ops Model.Lists Model.Machine.
From Gods Require Import Proofs.MachineMaps.
From GodsGen Require LinkedHashMapGen.
From GodsGenProofs Require Import GenIterRun WrapCommon GoMap LinkedHashMapGenProofs.
From GodsGenProofs Require GoJson.
Import ListNotations.
Local Open Scope Z_scope.

(* one member: the single-entry object without its braces *)
Definition member (mm : gmap -> GoJson.bytes * bool) (k v : Z) : GoJson.bytes :=
  let p := fst (mm (gm_put gm_empty k v)) in GoJson.sub p 1 (GoJson.blen p - 1).
Definition comma : Z := 44.
Definition lbrace : Z := 123.
Definition rbrace : Z := 125.

(* the members of es separated by commas; None = marshalling some entry failed *)
Fixpoint members (mm : gmap -> GoJson.bytes * bool) (es : list (Z * Z)) : option GoJson.bytes :=
  match es with
  | [] => Some []
  | (k, v) :: r =>
    if snd (mm (gm_put gm_empty k v)) then None
    else match members mm r with
         | None => None
         | Some b => Some (member mm k v ++ match r with [] => [] | _ => [comma] end ++ b)
         end
  end.

Lemma ToJSON_loop_spec : forall mm g b lastIndex rest buf index,
  index + zlen rest = lastIndex + 1 ->
  M.ToJSON_loop1 mm I rest g b buf lastIndex index =
    match members mm rest with
    | Some bs => (buf ++ bs ++ [rbrace], false)
    | None => (GoJson.nil_bytes, true)
    end.
Proof.
  intros mm g b lastIndex. induction rest as [|[k v] rest IH]; intros buf index Hi.
  - reflexivity.
  - cbn [M.ToJSON_loop1 members fst snd]. unfold member.
    destruct (mm (gm_put gm_empty k v)) as [p err] eqn:Em. cbn [fst snd]. destruct err; [reflexivity|].
    unfold zlen in Hi. cbn [length] in Hi.
    rewrite IH by (unfold zlen; destruct (index =? lastIndex); lia).
    destruct (members mm rest) as [bs|]; [|reflexivity].
    unfold GoJson.write, GoJson.write_rune, comma. f_equal.
    destruct rest as [|e rest'].
    + replace (index =? lastIndex) with true by (symmetry; apply Z.eqb_eq; cbn [length] in Hi; lia). cbn [negb app]. now rewrite <- !app_assoc.
    + replace (index =? lastIndex) with false by (symmetry; apply Z.eqb_neq; cbn [length] in Hi; lia). cbn [negb]. now rewrite <- !app_assoc.
Qed.

(* OBLIGATION *)
Theorem ToJSON_equiv : forall (c : config) mm g, ckind c = LinkedHashMap -> lmI (M.table I g, M.ordering I g) ->
  to_json c (st g) = OL [OZ 1; opairs (enum g)] /\
  M.ToJSON mm I enum g =
    match members mm (enum g) with
    | Some bs => (lbrace :: bs ++ [rbrace], false)
    | None => (GoJson.nil_bytes, true)
    end /\
  M.MarshalJSON mm I enum g = M.ToJSON mm I enum g.
Proof.
  intros c mm g Hk Hinv. split; [unfold to_json; rewrite Hk; reflexivity|]. split.
  - unfold M.ToJSON. rewrite ToJSON_loop_spec.
    + destruct (members mm (enum g)); reflexivity.
    + rewrite (Size_equiv c g Hinv). destruct g as [t o]. unfold enum, lmap_entries, zlen. cbn [size_of M.table M.ordering]. rewrite map_length. unfold zlen. lia.
  - unfold M.MarshalJSON. destruct (M.ToJSON mm I enum g); reflexivity.
Qed.
Print Assumptions ToJSON_equiv.
