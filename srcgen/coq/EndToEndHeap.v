(* END-TO-END COROLLARIES (property C06 of /verif/coq/theories/Properties/C06.v) stated directly about runs of GENERATED code: the
   generated binary heap over the generated capacity-aware ArrayList core (BinaryHeapOverArrayListProofs.v) and the generated priority
   queue over that heap (PriorityQueueOverHeapProofs.v), for ALL operation lists from the generated constructors and the framework's
   comparators; hypotheses: the kind of the configuration and, for the heap whose generated functions take fuel, fuel >= pushed values + 2
   (the priority queue computes its fuel itself).  l is the live prefix of the backing slice of the generated list (al_rel). *)
From Coq Require Import ZArith List Lia Bool Arith Permutation Sorted.
From Gods Require Import Common.Cmp Common.ListAux Spec.SeqSpec Spec.BagSpec Model.Ops Model.Lists Model.Machine.
From Gods Require Model.Heap.
From Gods Require Import Proofs.HeapProofs Proofs.C06Proofs.
From GodsGenProofs Require Import GoSlice GenIterRun WrapCommon ArrayListIface BinaryHeapOverArrayListProofs PriorityQueueOverHeapProofs.
Import ListNotations.
Local Open Scope Z_scope.

Module BO := BinaryHeapOverArrayListProofs.
Module PO := PriorityQueueOverHeapProofs.

(* OBLIGATION (C06): the generated heap keeps the heap order; Peek and the next Pop show / return a least element *)
Theorem gen_heap_pop_min : forall c ops fuel, ckind c = BinaryHeap -> (HP.pushed ops + 2 <= fuel)%nat ->
  exists gp l, BO.gen_run_p fuel (kc c) ops = Some gp /\ al_rel (W.list_ Ia gp) l /\ heap_ok (kc c) l /\
    obs_pair (W.Peek Ia gp) = oopt (hd_error l) /\
    (forall x, hd_error l = Some x -> forall y, In y l -> kc c x y <> Gt) /\
    exists gp' r, W.Pop Ia fuel gp = Some (gp', r) /\
      (l = [] -> obs_pair r = OL []) /\
      (l <> [] -> exists x, obs_pair r = OL [OZ x] /\ obs_pair (W.Peek Ia gp) = OL [OZ x] /\ In x l /\ forall y, In y l -> kc c x y <> Gt).
Proof.
  intros c ops fuel K Hf. assert (HK : is_heap_kind (ckind c) = true) by now rewrite K.
  destruct (BO.binaryheap_over_arraylist_run c ops fuel K Hf) as (gp & l & Hg & Hs & Hl & _ & _ & _ & OP & _ & gp' & r & HP1 & HP2).
  destruct (C06_heap_inv c (map HP.to_op ops) HK) as (l0 & E0 & Hok). rewrite Hs in E0. injection E0 as <-.
  destruct (C06_peek c _ l HK Hs) as (P1 & P2). rewrite Hs in OP, HP2.
  exists gp, l. split; [exact Hg|]. split; [exact Hl|]. split; [exact Hok|]. split; [now rewrite OP|]. split; [exact P2|].
  exists gp', r. split; [exact HP1|]. change Pop with (pop_op BinaryHeap) in HP2. rewrite <- K in HP2. split.
  - intros ->. rewrite HP2, (C06_pop_empty c _ HK Hs). reflexivity.
  - intros Hne. destruct (C06_pop_nonempty c _ l HK Hs Hne) as (x & l' & St & _ & Hperm & Hmin & Hpk). exists x.
    rewrite HP2, St, OP, Hpk. repeat split; [|exact Hmin]. apply (Permutation_in _ (Permutation_sym Hperm)). now left.
Qed.
Print Assumptions gen_heap_pop_min.

(* OBLIGATION (C06): nothing is lost or invented: content + popped = pushed (since the last Clear); Values() is a permutation of the
   content with the root (= Peek) first, and has Size() elements *)
Theorem gen_heap_bag : forall c ops fuel, ckind c = BinaryHeap -> (HP.pushed ops + 2 <= fuel)%nat ->
  let mops := map HP.to_op ops in
  exists gp l, BO.gen_run_p fuel (kc c) ops = Some gp /\ al_rel (W.list_ Ia gp) l /\
    Permutation (l ++ popped c mops) (pushed c mops) /\ W.Size Ia gp = zlen l /\
    (Z.of_nat (HP.pushed ops) < 2 ^ 62 ->
       let vs := W.Values Ia (BO.iter_enum fuel Ia) gp in
       Permutation vs l /\ hd_error vs = hd_error l /\ Z.of_nat (length vs) = W.Size Ia gp).
Proof.
  intros c ops fuel K Hf mops. assert (HK : is_heap_kind (ckind c) = true) by now rewrite K.
  destruct (BO.binaryheap_over_arraylist_run c ops fuel K Hf) as (gp & l & Hg & Hs & Hl & _ & OS & _ & _ & OV & _).
  destruct (C06_history_bag c mops HK) as (l0 & E0 & Hbag). unfold mops in E0. rewrite Hs in E0. injection E0 as <-.
  exists gp, l. split; [exact Hg|]. split; [exact Hl|]. split; [exact Hbag|]. rewrite Hs in OS, OV. split; [exact OS|].
  intros Hb vs. unfold vs. rewrite (OV Hb), OS. exact (C06_values c _ l HK Hs).
Qed.
Print Assumptions gen_heap_bag.

(* OBLIGATION (C06, priority queue): the same for the generated priority queue over the generated heap over the generated list *)
Theorem gen_pq_dequeue_min : forall c ops, ckind c = PriorityQueue ->
  let gp := PO.gen_run_q (kc c) ops in let mops := map PO.QP.to_op ops in
  exists g l, PO.Q.heap PO.Hq gp = Some g /\ al_rel (W.list_ Ia g) l /\ heap_ok (kc c) l /\
    Permutation (l ++ popped c mops) (pushed c mops) /\ PO.Q.Size PO.Hq gp = zlen l /\
    obs_pair (PO.Q.Peek PO.Hq gp) = oopt (hd_error l) /\
    (l = [] -> obs_pair (snd (PO.Q.Dequeue PO.Hq gp)) = OL []) /\
    (l <> [] -> exists x, obs_pair (snd (PO.Q.Dequeue PO.Hq gp)) = OL [OZ x] /\ obs_pair (PO.Q.Peek PO.Hq gp) = OL [OZ x] /\ In x l /\
                forall y, In y l -> kc c x y <> Gt) /\
    (zlen l < 2 ^ 62 -> let vs := PO.Q.Values PO.Hq gp in Permutation vs l /\ hd_error vs = hd_error l /\ Z.of_nat (length vs) = zlen l).
Proof.
  intros c ops K gp mops. assert (HK : is_heap_kind (ckind c) = true) by now rewrite K.
  destruct (PO.priorityqueue_over_heap_run c K ops) as (g & l & Hg & Hs & Hl & _ & OS & _ & OP & OV & OD). fold gp in Hg, OS, OP, OV, OD.
  destruct (C06_history_bag c mops HK) as (l0 & E0 & Hbag). unfold mops in E0. rewrite Hs in E0. injection E0 as <-.
  destruct (C06_heap_inv c mops HK) as (l0 & E0 & Hok). unfold mops in E0. rewrite Hs in E0. injection E0 as <-.
  destruct (C06_peek c _ l HK Hs) as (P1 & _). rewrite Hs in OS, OP, OV, OD.
  exists g, l. split; [exact Hg|]. split; [exact Hl|]. split; [exact Hok|]. split; [exact Hbag|]. split; [exact OS|]. split; [now rewrite OP|].
  change Dequeue with (pop_op PriorityQueue) in OD. rewrite <- K in OD. split; [|split].
  - intros ->. rewrite OD, (C06_pop_empty c _ HK Hs). reflexivity.
  - intros Hne. destruct (C06_pop_nonempty c _ l HK Hs Hne) as (x & l' & St & _ & Hperm & Hmin & Hpk). exists x.
    rewrite OD, St, OP, Hpk. repeat split; [|exact Hmin]. apply (Permutation_in _ (Permutation_sym Hperm)). now left.
  - intros Hb vs. unfold vs. rewrite (OV Hb). exact (C06_values c _ l HK Hs).
Qed.
Print Assumptions gen_pq_dequeue_min.

(* non-vacuity: the generated code, run by the kernel (comparator: the natural order) *)
Lemma heap_nonvacuous :
  match BO.gen_run_p 10 Z.compare [HP.GPush [5; 3; 8]; HP.GPush [1]; HP.GPop] with
  | Some g => sl_list (A.elements (W.list_ Ia g)) = [3; 5; 8] /\ W.Peek Ia g = (3, true)
  | None => False
  end.
Proof. vm_compute. split; reflexivity. Qed.
