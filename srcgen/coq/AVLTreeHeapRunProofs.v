(* RUNS of the generated Put / Remove of the AVL tree (tree pointer mode) from the generated NewWith on the empty heap:
   gen_ops_ok -- any sequence of operations, with fuel > its length, NEVER fails (no nil dereference, no fuel exhaustion),
   ends in a heap that represents the model's tree (which satisfies the AVL invariant of Proofs/AVLInv.v), size = AVL.count,
   and has made exactly the model's number of comparator calls (C07). *)
From Coq Require Import ZArith List Lia Bool Arith ZifyBool ZifyNat.
From Gods Require Import Common.Cmp Model.AVLTree Proofs.AVLInv.
From GodsGenProofs Require Import GoCmp GoTreeHeap GoTreeLink AVLTreeHeapRep AVLTreeHeapWriteLemmas AVLTreeHeapPutProofs AVLTreeHeapRemoveProofs.
From GodsGen Require AVLTreeHeapGen.
Import ListNotations.
Local Open Scope Z_scope.

Inductive op := OPut (k v : Z) | ORemove (k : Z).

Fixpoint gen_ops (mag : Z -> Z -> positive) (fuel : nat) (ops : list op) (st : nat * heap G.Node * G.Tree)
  : option (nat * heap G.Node * G.Tree) :=
  match ops with
  | [] => Some st
  | o :: rest => let '(n, h, tr) := st in
                 match (match o with OPut k v => G.Put mag fuel n h tr k v | ORemove k => G.Remove mag fuel n h tr k end) with
                 | Some st' => gen_ops mag fuel rest st'
                 | None => None
                 end
  end.
Definition model_op (cmp : cmpf) (o : op) (t : AVL.tree) : AVL.tree :=
  match o with
  | OPut k v => match AVL.put cmp k v t with Some (t', _, _) => t' | None => t end
  | ORemove k => match AVL.remove cmp k t with Some (t', _, _) => t' | None => t end
  end.
Definition op_cost (cmp : cmpf) (o : op) (t : AVL.tree) : nat :=
  match o with OPut k _ => AVL.put_cost cmp k t | ORemove k => AVL.remove_cost cmp k t end.
Fixpoint model_ops (cmp : cmpf) (ops : list op) (t : AVL.tree) : AVL.tree :=
  match ops with [] => t | o :: rest => model_ops cmp rest (model_op cmp o t) end.
Fixpoint model_cost (cmp : cmpf) (ops : list op) (t : AVL.tree) : nat :=
  match ops with [] => 0%nat | o :: rest => (op_cost cmp o t + model_cost cmp rest (model_op cmp o t))%nat end.

Lemma gen_ops_from : forall mag ops fuel n h tr t,
  tree_repr h tr t -> heap_ok h -> avl t -> G.Tree_size tr = Z.of_nat (AVL.count t) ->
  (AVL.count t + length ops < fuel)%nat ->
  let cmp := G.Tree_Comparator tr in
  exists h' tr', gen_ops mag fuel ops (n, h, tr) = Some ((n + model_cost cmp ops t)%nat, h', tr') /\
    tree_repr h' tr' (model_ops cmp ops t) /\ heap_ok h' /\ avl (model_ops cmp ops t) /\
    G.Tree_size tr' = Z.of_nat (AVL.count (model_ops cmp ops t)) /\ G.Tree_Comparator tr' = cmp.
Proof.
  intros mag. induction ops as [|o rest IH]; intros fuel n h tr t Hrepr Hok Havl Hsz Hf cmp.
  - exists h, tr. cbn [gen_ops model_ops model_cost]. rewrite Nat.add_0_r.
    split; [reflexivity|]. split; [exact Hrepr|]. split; [exact Hok|]. split; [exact Havl|]. split; [exact Hsz|reflexivity].
  - cbn [gen_ops model_ops model_cost]. pose proof (height_le_count t) as Hh. cbn [length] in Hf. destruct o as [k v|k]; cbn [model_op op_cost].
    + destruct (put_avl cmp k v t Havl) as (t' & fx & ins & Hput & Havl' & _).
      destruct (Put_correct mag h tr t k v n fuel t' fx ins Hok Hrepr Hput ltac:(lia)) as (h1 & tr1 & Hrun & Hrepr1 & Hok1 & Hcmp1 & Hsz1 & _).
      rewrite Hrun. fold cmp. rewrite Hput. pose proof (put_count _ _ _ _ _ _ _ Hput) as Hc.
      destruct (IH fuel (n + AVL.put_cost (G.Tree_Comparator tr) k t)%nat h1 tr1 t' Hrepr1 Hok1 Havl'
                  ltac:(rewrite Hsz1, Hsz, Hc; destruct ins; lia) ltac:(rewrite Hc; destruct ins; lia)) as (h2 & tr2 & Hrun2 & R).
      rewrite Hcmp1 in Hrun2, R. fold cmp in Hrun2, R. exists h2, tr2. rewrite Hrun2. split; [f_equal; f_equal; f_equal; lia|exact R].
    + destruct (remove_avl cmp k t Havl) as (t' & fx & rem & Hrem & Havl' & _).
      destruct (Remove_correct mag h tr t k n fuel t' fx rem Hok Hrepr Hrem ltac:(lia)) as (h1 & tr1 & Hrun & Hrepr1 & Hok1 & Hcmp1 & Hsz1 & _).
      rewrite Hrun. fold cmp. rewrite Hrem. pose proof (remove_count _ _ _ _ _ _ Hrem) as Hc.
      destruct (IH fuel (n + AVL.remove_cost (G.Tree_Comparator tr) k t)%nat h1 tr1 t' Hrepr1 Hok1 Havl'
                  ltac:(rewrite Hsz1, Hsz, Hc; destruct rem; lia) ltac:(rewrite Hc in Hf; destruct rem; lia)) as (h2 & tr2 & Hrun2 & R).
      rewrite Hcmp1 in Hrun2, R. fold cmp in Hrun2, R. exists h2, tr2. rewrite Hrun2. split; [f_equal; f_equal; f_equal; lia|exact R].
Qed.

(* OBLIGATION *)
Theorem gen_ops_ok : forall mag cmp ops fuel, (length ops < fuel)%nat ->
  exists tr0 h tr, G.NewWith empty_heap cmp = Some tr0 /\
    gen_ops mag fuel ops (O, empty_heap, tr0) = Some (model_cost cmp ops AVL.E, h, tr) /\
    tree_repr h tr (model_ops cmp ops AVL.E) /\ avl (model_ops cmp ops AVL.E) /\
    G.Tree_size tr = Z.of_nat (AVL.count (model_ops cmp ops AVL.E)) /\ heap_ok h.
Proof.
  intros mag cmp ops fuel Hf. eexists.
  destruct (gen_ops_from mag ops fuel O empty_heap (G.mkTree None cmp 0) AVL.E) as (h & tr & Hrun & R1 & R2 & R3 & R4 & _).
  - exists PE. split; [reflexivity|]. split; [reflexivity|]. split; [exact I|constructor].
  - apply heap_ok_empty.
  - exact I.
  - reflexivity.
  - cbn [AVL.count]. lia.
  - exists h, tr. split; [reflexivity|]. cbn [G.Tree_Comparator] in *. split; [exact Hrun|]. split; [exact R1|]. split; [exact R3|]. split; [exact R4|exact R2].
Qed.
Print Assumptions gen_ops_ok.
