(* COMPOSITION: maps/treebidimap/treebidimap.go regenerated over two abstract red-black trees (GodsGen.TreeBidiMapGen, proved against
   the machine in TreeBidiMapGenProofs.v with both interfaces instantiated by the MODEL of redblacktree.Tree) is here instantiated
   with the GENERATED POINTER CODE of trees/redblacktree/redblacktree.go (RBTreeHeapIface.v) for BOTH trees.  Each tree has its own
   heap (in Go the two trees allocate from the one runtime heap but never share a node; the pointer model gives every tree
   its private address space, which is an abstraction of that disjointness, not a proved fact about Go's allocator).
   [treebidimap_over_heap_run]: a run of generated TreeBidiMap operations (Put / Remove / Clear) over the generated pointer code
   from NewWith(kc, vc) never crashes, the two heaps represent the forward and inverse trees of Machine.run for kind TreeBidiMap,
   and Get / GetKey / Size / Empty / Keys / Values answer as the machine. *)
From Coq Require Import ZArith List Lia Bool Arith.
From Gods Require Import Common.Cmp Common.ListAux Spec.SeqSpec Model.Ops Model.Machine Model.RBTree Proofs.RBInv.
From GodsGen Require TreeBidiMapGen RedBlackTreeHeapGen.
From GodsGenProofs Require Import GenIterRun WrapCommon GoCmp GoTreeHeap RBTreeHeapRep RBTreeHeapIface.
From GodsGenProofs Require GoJson TreeBidiMapGenProofs.
Import ListNotations.
Local Open Scope Z_scope.

Module B := TreeBidiMapGen.
Module TB := TreeBidiMapGenProofs.

Definition IFp (mag : Z -> Z -> positive) : B.forwardMap_iface := B.mk_forwardMap_iface pstate
  (p_Ceiling mag) p_Clear p_Empty (p_Floor mag) (fun s d => (s, true))
  (p_Get mag) p_Keys p_Left (p_Put mag) (p_Remove mag) p_Right p_Size (fun s => (GoJson.nil_bytes, true))
  p_Values p_Comparator p_New p_NewWith.
Definition IIp (mag : Z -> Z -> positive) : B.inverseMap_iface := B.mk_inverseMap_iface pstate
  (p_Ceiling mag) p_Clear p_Empty (p_Floor mag) (fun s d => (s, true))
  (p_Get mag) p_Keys p_Left (p_Put mag) (p_Remove mag) p_Right p_Size (fun s => (GoJson.nil_bytes, true))
  p_Values p_Comparator p_New p_NewWith.

(* Put and Remove of the wrapper as compositions of single tree calls, for ANY two interfaces *)
Section Steps.
Variables (IF : B.forwardMap_iface) (II : B.inverseMap_iface).
Notation Map := (B.Map IF II).
Definition unlinkV (g : Map) (k : Z) : Map :=
  let '(v0, ok) := B.forwardMap_Get IF (B.forwardMap _ _ g) k in
  if ok then B.set_inverseMap _ _ g (fst (B.inverseMap_Remove II (B.inverseMap _ _ g) v0)) else g.
Definition unlinkK (g : Map) (v : Z) : Map :=
  let '(k0, ok) := B.inverseMap_Get II (B.inverseMap _ _ g) v in
  if ok then B.set_forwardMap _ _ g (fst (B.forwardMap_Remove IF (B.forwardMap _ _ g) k0)) else g.
Definition link (g : Map) (k v : Z) : Map :=
  let g := B.set_forwardMap _ _ g (fst (B.forwardMap_Put IF (B.forwardMap _ _ g) k v)) in
  B.set_inverseMap _ _ g (fst (B.inverseMap_Put II (B.inverseMap _ _ g) v k)).
Definition removeKV (g : Map) (k : Z) : Map :=
  let '(v0, ok) := B.forwardMap_Get IF (B.forwardMap _ _ g) k in
  if ok then let g := B.set_forwardMap _ _ g (fst (B.forwardMap_Remove IF (B.forwardMap _ _ g) k)) in
             B.set_inverseMap _ _ g (fst (B.inverseMap_Remove II (B.inverseMap _ _ g) v0)) else g.
Ltac open_lets := repeat match goal with |- context [let '(a, b) := ?X in _] => destruct X as [? ?] end.
Lemma Put_steps : forall g k v, fst (B.Put IF II g k v) = link (unlinkK (unlinkV g k) v) k v.
Proof.
  intros g k v. unfold B.Put, link, unlinkK, unlinkV.
  destruct (B.forwardMap_Get IF (B.forwardMap IF II g) k) as [v0 [|]].
  - destruct (B.inverseMap_Remove II (B.inverseMap IF II g) v0) as [t3 u3]. cbn [fst].
    destruct (B.inverseMap_Get II _ v) as [k0 [|]].
    + destruct (B.forwardMap_Remove IF _ k0) as [t6 u6]. cbn [fst]. destruct (B.forwardMap_Put IF _ k v) as [t7 u7]. cbn [fst].
      destruct (B.inverseMap_Put II _ v k) as [t8 u8]. reflexivity.
    + destruct (B.forwardMap_Put IF _ k v) as [t7 u7]. cbn [fst]. destruct (B.inverseMap_Put II _ v k) as [t8 u8]. reflexivity.
  - destruct (B.inverseMap_Get II _ v) as [k0 [|]].
    + destruct (B.forwardMap_Remove IF _ k0) as [t6 u6]. cbn [fst]. destruct (B.forwardMap_Put IF _ k v) as [t7 u7]. cbn [fst].
      destruct (B.inverseMap_Put II _ v k) as [t8 u8]. reflexivity.
    + destruct (B.forwardMap_Put IF _ k v) as [t7 u7]. cbn [fst]. destruct (B.inverseMap_Put II _ v k) as [t8 u8]. reflexivity.
Qed.
Lemma Remove_steps : forall g k, fst (B.Remove IF II g k) = removeKV g k.
Proof.
  intros g k. unfold B.Remove, removeKV. destruct (B.forwardMap_Get IF (B.forwardMap IF II g) k) as [v0 [|]]; [|reflexivity].
  destruct (B.forwardMap_Remove IF _ k) as [t3 u3]. cbn [fst]. destruct (B.inverseMap_Remove II _ v0) as [t4 u4]. reflexivity.
Qed.
Lemma Clear_steps : forall g, fst (B.Clear IF II g) =
  B.mkMap IF II (fst (B.forwardMap_Clear IF (B.forwardMap _ _ g))) (fst (B.inverseMap_Clear II (B.inverseMap _ _ g))).
Proof. intros g. unfold B.Clear. destruct (B.forwardMap_Clear IF _) as [t1 u1]. cbn. destruct (B.inverseMap_Clear II _) as [t2 u2]. reflexivity. Qed.
End Steps.

Definition R2 mag (gp : B.Map (IFp mag) (IIp mag)) (gm : B.Map TB.IF TB.II) : Prop :=
  R (B.forwardMap _ _ gp) (B.forwardMap _ _ gm) /\ R (B.inverseMap _ _ gp) (B.inverseMap _ _ gm).

Section Rel.
Variable mag : Z -> Z -> positive.

Lemma Get_F : forall ps ms k, R ps ms -> p_Get mag ps k = B.forwardMap_Get TB.IF ms k.
Proof. intros ps ms k H. destruct (observers_rel mag ps ms H) as (t & n & -> & Hobs). destruct (Hobs k) as (O1 & _). exact O1. Qed.
Lemma Get_I : forall ps ms k, R ps ms -> p_Get mag ps k = B.inverseMap_Get TB.II ms k.
Proof. intros ps ms k H. destruct (observers_rel mag ps ms H) as (t & n & -> & Hobs). destruct (Hobs k) as (O1 & _). exact O1. Qed.

Notation IF' := (IFp mag). Notation II' := (IIp mag).
Lemma unlinkV_rel : forall gp gm k, R2 mag gp gm -> R2 mag (unlinkV IF' II' gp k) (unlinkV TB.IF TB.II gm k).
Proof.
  intros [pf pi] [mf mi] k [Hf Hi]. cbn [B.forwardMap B.inverseMap] in Hf, Hi. unfold unlinkV. cbn [B.forwardMap B.inverseMap B.forwardMap_Get IFp].
  rewrite (Get_F pf mf k Hf). destruct (B.forwardMap_Get TB.IF mf k) as [v0 [|]]; [|split; assumption].
  split; [exact Hf|]. exact (Remove_rel mag _ _ Hi v0).
Qed.
Lemma unlinkK_rel : forall gp gm v, R2 mag gp gm -> R2 mag (unlinkK IF' II' gp v) (unlinkK TB.IF TB.II gm v).
Proof.
  intros [pf pi] [mf mi] v [Hf Hi]. cbn [B.forwardMap B.inverseMap] in Hf, Hi. unfold unlinkK. cbn [B.forwardMap B.inverseMap B.inverseMap_Get IIp].
  rewrite (Get_I pi mi v Hi). destruct (B.inverseMap_Get TB.II mi v) as [k0 [|]]; [|split; assumption].
  split; [|exact Hi]. exact (Remove_rel mag _ _ Hf k0).
Qed.
Lemma link_rel : forall gp gm k v, R2 mag gp gm -> R2 mag (link IF' II' gp k v) (link TB.IF TB.II gm k v).
Proof.
  intros [pf pi] [mf mi] k v [Hf Hi]. cbn [B.forwardMap B.inverseMap] in Hf, Hi. unfold link.
  split; [exact (Put_rel mag _ _ Hf k v)|exact (Put_rel mag _ _ Hi v k)].
Qed.
Lemma Put_rel2 : forall gp gm k v, R2 mag gp gm -> R2 mag (fst (B.Put _ _ gp k v)) (fst (B.Put _ _ gm k v)).
Proof. intros gp gm k v H. rewrite !Put_steps. apply link_rel, unlinkK_rel, unlinkV_rel, H. Qed.
Lemma Remove_rel2 : forall gp gm k, R2 mag gp gm -> R2 mag (fst (B.Remove _ _ gp k)) (fst (B.Remove _ _ gm k)).
Proof.
  intros [pf pi] [mf mi] k [Hf Hi]. cbn [B.forwardMap B.inverseMap] in Hf, Hi. rewrite !Remove_steps. unfold removeKV.
  cbn [B.forwardMap B.inverseMap B.forwardMap_Get IFp]. rewrite (Get_F pf mf k Hf). destruct (B.forwardMap_Get TB.IF mf k) as [v0 [|]]; [|split; assumption].
  split; [exact (Remove_rel mag _ _ Hf k)|exact (Remove_rel mag _ _ Hi v0)].
Qed.
Lemma Clear_rel2 : forall gp gm, R2 mag gp gm -> R2 mag (fst (B.Clear _ _ gp)) (fst (B.Clear _ _ gm)).
Proof. intros [pf pi] [mf mi] [Hf Hi]. rewrite !Clear_steps. split; [exact (Clear_rel _ _ Hf)|exact (Clear_rel _ _ Hi)]. Qed.
End Rel.

Lemma observers_rel2 : forall mag gp gm k, R2 mag gp gm ->
  B.Get _ _ gp k = B.Get _ _ gm k /\ B.GetKey _ _ gp k = B.GetKey _ _ gm k /\ B.Size _ _ gp = B.Size _ _ gm /\
  B.Empty _ _ gp = B.Empty _ _ gm /\ B.Keys _ _ gp = B.Keys _ _ gm /\ B.Values _ _ gp = B.Values _ _ gm.
Proof.
  intros mag [pf pi] [mf mi] k [Hf Hi]. cbn [B.forwardMap B.inverseMap] in Hf, Hi.
  unfold B.Get, B.GetKey, B.Empty, B.Size, B.Keys, B.Values.
  cbn [B.forwardMap B.inverseMap B.forwardMap_Get B.inverseMap_Get B.forwardMap_Size B.forwardMap_Keys B.inverseMap_Keys IFp IIp].
  rewrite (Get_F mag pf mf k Hf), (Get_I mag pi mi k Hi).
  destruct (observers_rel mag pf mf Hf) as (t & n & -> & Hobs). destruct (Hobs 0) as (_ & O2 & _ & O4 & _).
  destruct (observers_rel mag pi mi Hi) as (t' & n' & -> & Hobs'). destruct (Hobs' 0) as (_ & _ & _ & O4' & _).
  rewrite O2, O4, O4'. repeat split.
Qed.

(* ---------- runs ---------- *)
Definition gen_step_p (mag : Z -> Z -> positive) (g : B.Map (IFp mag) (IIp mag)) (o : TB.gop) : B.Map (IFp mag) (IIp mag) :=
  match o with
  | TB.GPut k v => fst (B.Put _ _ g k v)
  | TB.GRemove k => fst (B.Remove _ _ g k)
  | TB.GClear => fst (B.Clear _ _ g)
  end.
Definition gen_run_p (mag : Z -> Z -> positive) (kcmp vcmp : cmpf) (ops : list TB.gop) : B.Map (IFp mag) (IIp mag) :=
  fold_left (gen_step_p mag) ops (B.NewWith _ _ kcmp vcmp).

Lemma gen_run_rel : forall mag kcmp vcmp ops, R2 mag (gen_run_p mag kcmp vcmp ops) (TB.gen_run kcmp vcmp ops).
Proof.
  intros mag kcmp vcmp ops. induction ops as [|o ops IH] using rev_ind; [split; [exact (NewWith_rel kcmp)|exact (NewWith_rel vcmp)]|].
  unfold gen_run_p, TB.gen_run. rewrite !fold_left_app. cbn [fold_left]. fold (gen_run_p mag kcmp vcmp ops) (TB.gen_run kcmp vcmp ops).
  destruct o as [k v|k|]; cbn [gen_step_p TB.gen_step]; [apply Put_rel2|apply Remove_rel2|apply Clear_rel2]; exact IH.
Qed.

(* OBLIGATION *)
Theorem treebidimap_over_heap_run : forall mag c, ckind c = TreeBidiMap -> forall ops,
  let gp := gen_run_p mag (kc c) (vc c) ops in let s := run c (map TB.to_op ops) in
  exists nf hf trf f ni hi tri i,
    B.forwardMap _ _ gp = Some (nf, hf, trf) /\ B.inverseMap _ _ gp = Some (ni, hi, tri) /\
    s = StTBidi f (G.Tree_size trf) i (G.Tree_size tri) /\
    tree_repr hf trf f /\ heap_ok hf /\ RBInv.rbt f /\ G.Tree_size trf = Z.of_nat (RB.count f) /\ G.Tree_Comparator trf = kc c /\
    tree_repr hi tri i /\ heap_ok hi /\ RBInv.rbt i /\ G.Tree_size tri = Z.of_nat (RB.count i) /\ G.Tree_Comparator tri = vc c /\
    B.Size _ _ gp = size_of c s /\ B.Empty _ _ gp = (size_of c s =? 0) /\
    B.Keys _ _ gp = keys_of c s /\ B.Values _ _ gp = values_of c s /\
    (forall k, obs_pair (B.Get _ _ gp k) = get_of c s k /\ obs_pair (B.GetKey _ _ gp k) = getkey_of c s k).
Proof.
  intros mag c Hk ops gp s. pose proof (gen_run_rel mag (kc c) (vc c) ops) as HR. fold gp in HR.
  destruct (TB.gen_run_simulates c Hk ops) as (Hrun & Hcmp). fold s in Hrun.
  remember (TB.gen_run (kc c) (vc c) ops) as gm eqn:Egm. clear Egm.
  pose proof HR as ((nf & hf & trf & f & Hpf & Hmf & Hreprf & Hokf & Hrbtf & Hszf) & (ni & hi & tri & i & Hpi & Hmi & Hrepri & Hoki & Hrbti & Hszi)).
  destruct gm as [mf mi]. cbn [B.forwardMap B.inverseMap] in Hmf, Hmi. subst mf mi.
  unfold TB.cmps in Hcmp. cbn in Hcmp. injection Hcmp as Hcf Hci.
  exists nf, hf, trf, f, ni, hi, tri, i. split; [exact Hpf|]. split; [exact Hpi|].
  assert (Hs : s = StTBidi f (G.Tree_size trf) i (G.Tree_size tri)) by (rewrite Hrun; reflexivity).
  split; [exact Hs|]. repeat (split; [assumption|]).
  pose proof (fun k => observers_rel2 mag gp _ k HR) as Hobs.
  rewrite Hcf, Hci in Hobs. 
  destruct (Hobs 0) as (_ & _ & O3 & O4 & O5 & O6). rewrite O3, O4, O5, O6.
  destruct (TB.observers_equiv c f (G.Tree_size trf) i (G.Tree_size tri) 0) as (_ & _ & E3 & E4 & E5 & E6).
  rewrite Hs. split; [exact E3|]. split; [exact E4|]. split; [exact E5|]. split; [exact E6|].
  intro k. destruct (Hobs k) as (O1 & O2 & _). rewrite O1, O2.
  destruct (TB.observers_equiv c f (G.Tree_size trf) i (G.Tree_size tri) k) as (E1 & E2 & _). split; symmetry; [exact E1|exact E2].
Qed.
Print Assumptions treebidimap_over_heap_run.
