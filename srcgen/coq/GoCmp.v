(* Comparator values and tree-node results for the generated units that wrap an ordered tree (hand-written once).
   - [comparator]: a utils.Comparator[T] value, at T = Z the model's [cmpf].  Translated code never CALLS a
     comparator; it stores it, passes it on, and compares two of them for identity through reflect (that
     comparison is a parameter [same_comparator] of the generated functions).
   - [compare]: the standard library's cmp.Compare[T], an opaque named constant: a constructor that installs
     it mentions it LITERALLY in the generated text, so replacing it by any other function changes the text.
   - [node]: a *Node[K, V] returned by Left / Right / Floor / Ceiling: nil or (key, value).  Dereferencing
     nil panics in Go and is not modelled ([node_key] / [node_value] answer 0). *)
From Coq Require Import ZArith.
From Gods Require Import Common.Cmp.

Definition comparator := cmpf.
Definition compare : comparator := Z.compare.
Definition node := option (Z * Z).
Definition node_nonnil (n : node) : bool := match n with Some _ => true | None => false end.
Definition node_key (n : node) : Z := match n with Some (k, _) => k | None => 0%Z end.
Definition node_value (n : node) : Z := match n with Some (_, v) => v | None => 0%Z end.

(* CALLS of a comparator (pointer mode of the trees, treeheap.go): `tree.Comparator(a, b)` is an int of which Go code may
   only use the SIGN.  The sign is the model's three-way answer [c a b]; the magnitude is ARBITRARY: a parameter
   [mag] of the generated definitions (Section variable cmp_mag), so that code comparing the result with anything but
   0 (`compare == -1`) is not provably equivalent to code testing the sign.  The generated code counts the calls in a
   ghost counter (ncmp) that is threaded through every function that reaches a comparator. *)
Definition call_cmp (mag : Z -> Z -> positive) (c : comparator) (a b : Z) : Z :=
  match c a b with Eq => 0%Z | Lt => Zneg (mag a b) | Gt => Zpos (mag a b) end.

Lemma call_cmp_Eq : forall mag c a b, c a b = Eq ->
  (call_cmp mag c a b =? 0)%Z = true.
Proof. intros mag c a b H. unfold call_cmp. now rewrite H. Qed.
Lemma call_cmp_Lt : forall mag c a b, c a b = Lt ->
  (call_cmp mag c a b =? 0)%Z = false /\ (call_cmp mag c a b <? 0)%Z = true /\ (0 <? call_cmp mag c a b)%Z = false.
Proof. intros mag c a b H. unfold call_cmp. rewrite H. repeat split. Qed.
Lemma call_cmp_Gt : forall mag c a b, c a b = Gt ->
  (call_cmp mag c a b =? 0)%Z = false /\ (call_cmp mag c a b <? 0)%Z = false /\ (0 <? call_cmp mag c a b)%Z = true.
Proof. intros mag c a b H. unfold call_cmp. rewrite H. repeat split. Qed.
