(* Comparator values and tree-node results for the generated units that wrap an ordered tree (hand-written once).
   - [comparator]: a utils.Comparator[T] value, at T = Z the model's [cmpf].  Translated code never CALLS a
     comparator; it stores it, passes it on, and compares two of them for identity through reflect (that
     comparison is a parameter [same_comparator] of the generated functions).
   - [compare]: the standard library's cmp.Compare[T], an opaque named constant: a constructor that installs
     it mentions it LITERALLY in the generated text, so replacing it by any other function changes the text.
   - [node]: a *Node[K, V] returned by Left / Right / Floor / Ceiling: nil or (key, value).  Dereferencing
     nil panics in Go and is not modelled ([node_key] / [node_value] answer 0). *)
From Coq Require Import ZArith.
From Gods Require Import Common.Cmp.

Definition comparator := cmpf.
Definition compare : comparator := Z.compare.
Definition node := option (Z * Z).
Definition node_nonnil (n : node) : bool := match n with Some _ => true | None => false end.
Definition node_key (n : node) : Z := match n with Some (k, _) => k | None => 0%Z end.
Definition node_value (n : node) : Z := match n with Some (_, v) => v | None => 0%Z end.
