(* PURE (no heap): the B-tree deletion of Model/BTree.v / Model/BTreeCost.v -- RECURSIVE functions [del_c] / [delmax_c] that
   rebalance a child after the recursive call returned, and hand a reference key upwards as long as nodes were merged --
   rephrased the way the Go code works: a descent along a ZIPPER of frames, the deletion at a leaf, then a BOTTOM-UP pass
   ([lift] one frame, [upz] all frames) that is Go's rebalance(node, deletedKey).

     [del_c_lift]: one level of del_c / delmax_c is [lift] of the result for the child (three shapes of levels)
     [RC_ok] .. [RC_ml]: what rebalance_child_c computes on a frame, case by case (enough entries, borrow from the left /
       right sibling, merge with the right / left sibling), in the list shapes the heap proofs use
     [dpos] / [dmax_pos]: the positions the upward pass of a whole deletion relies on (derived from the order of the tree in
       BTreeHeapRemoveOrder.v, which also shows that del_c computes the tree and flag of BT.del) *)
From Coq Require Import ZArith List Lia Bool Arith.
From Gods Require Import Common.Cmp Spec.MapSpec Model.BTree Model.BTreeCost Proofs.BTreeInd Proofs.BTreeMap.
From Gods Require Proofs.IterTreeBT Proofs.BTreeInv.
From GodsGenProofs Require Import BTreeHeapInsertModel.
Import ListNotations.

Section M.
Variable m : nat.
Variable cmp : cmpf.

(* the result of a level: the node, the comparator calls so far, the reference key (None: the pass is over) *)
Definition rres := (node * nat * option Z)%type.

Definition lift (f : mframe) (x : rres) : option rres :=
  let '(es, l, r) := f in
  let '(c', k, ok) := x in
  match ok with
  | None => Some (N es (l ++ c' :: r), k, None)
  | Some rk =>
    match rebalance_child_c m cmp es (l ++ c' :: r) (length l) rk false with
    | Some (n', k2, ok') => Some (n', (k + k2)%nat, ok')
    | None => None
    end
  end.

Fixpoint upz (ctx : list mframe) (x : rres) : option (node * nat) :=
  match ctx with
  | [] => Some (fst (fst x), snd (fst x))
  | f :: ctx' => match lift f x with Some y => upz ctx' y | None => None end
  end.

(* the positions the upward pass relies on: whenever a node is too small, the search of the reference key in the frame above
   finds the frame's position *)
Fixpoint rpos_ok (ctx : list mframe) (x : rres) : Prop :=
  match ctx with
  | [] => True
  | (es, l, r) :: ctx' =>
    match x with
    | (N ces ccs, k, Some key) =>
      ((length ces < minEntries m)%nat -> fst (search cmp key es) = length l) /\
      match lift (es, l, r) x with Some y => rpos_ok ctx' y | None => True end
    | _ => True
    end
  end.

(* the root that has lost its last entry is replaced by its only child (BT.remove) *)
Definition collapse (t : node) : node := match t with N [] (c :: _) => c | _ => t end.
(* what BT.remove makes of the result of del *)
Definition mfin (t : node) : option node := match t with N [] [] => None | N [] (c :: _) => Some c | _ => Some t end.
Lemma mfin_children : forall t, children t <> [] -> mfin t = Some (collapse t).
Proof. intros [[|e es] [|c cs]] H; cbn in *; congruence. Qed.

Lemma eplug_top : forall ctx n, ctx <> [] -> Forall (fun f => fst (fst f) <> []) ctx -> collapse (eplug ctx n) = eplug ctx n.
Proof.
  induction ctx as [|[[es l] r] ctx IH]; intros n Hne Hf; [congruence|]. cbn [eplug].
  inversion Hf as [|? ? He Hf']; subst. cbn [fst] in He. destruct ctx as [|f ctx'].
  - cbn [eplug collapse]. destruct es; [congruence|reflexivity].
  - apply IH; [discriminate|exact Hf'].
Qed.

Lemma replace_at_mid : forall (A : Type) (l r : list A) x y, replace_at (length l) y (l ++ x :: r) = l ++ y :: r.
Proof. intros. apply replace_at_app. Qed.

Lemma app_cons_ne : forall (A : Type) (l r : list A) x, exists c0 cs0, l ++ x :: r = c0 :: cs0.
Proof. intros A l r x. destruct l; cbn; eauto. Qed.

(* OBLIGATION *)
Theorem del_c_lift : forall f key es l c r,
  (* the key is not in this node: down into the child, then rebalance it *)
  (search cmp key es = (length l, false) ->
   del_c m cmp (S f) key (N es (l ++ c :: r)) =
     match del_c m cmp f key c with
     | None => None
     | Some (c', b, k, ok) =>
       if b then match lift (es, l, r) (c', (search_c cmp key es + k)%nat, ok) with
                 | Some (n', kk, ok') => Some (n', true, kk, ok')
                 | None => None
                 end
       else Some (N es (l ++ c :: r), false, (search_c cmp key es + k)%nat, None)
     end) /\
  (* the key is in this (internal) node: its predecessor comes up from the left child *)
  (search cmp key es = (length l, true) ->
   del_c m cmp (S f) key (N es (l ++ c :: r)) =
     match delmax_c m cmp f c with
     | None => None
     | Some (c', pred, k, ok) =>
       match lift (replace_at (length l) pred es, l, r) (c', (search_c cmp key es + k)%nat, ok) with
       | Some (n', kk, ok') => Some (n', true, kk, ok')
       | None => None
       end
     end) /\
  (* the largest entry below an internal node is below its last child *)
  (delmax_c m cmp (S f) (N es (l ++ [c])) =
     match delmax_c m cmp f c with
     | None => None
     | Some (c', e, k, ok) =>
       match lift (es, l, []) (c', k, ok) with
       | Some (n', kk, ok') => Some (n', e, kk, ok')
       | None => None
       end
     end).
Proof.
  intros f key es l c r. split; [|split].
  - intros Hs. cbn [del_c]. rewrite Hs. destruct (app_cons_ne _ l r c) as (c0 & cs0 & E). rewrite E. cbv beta iota. rewrite <- E. clear E c0 cs0.
    rewrite nth_error_app_mid. destruct (del_c m cmp f key c) as [[[[c' b] k] ok]|]; [|reflexivity].
    destruct b; [|reflexivity]. cbn [lift]. rewrite replace_at_mid. destruct ok as [rk|]; [|reflexivity].
    destruct (rebalance_child_c m cmp es (l ++ c' :: r) (length l) rk false) as [[[n' k2] ok']|]; [|reflexivity].
    reflexivity.
  - intros Hs. cbn [del_c]. rewrite Hs. destruct (app_cons_ne _ l r c) as (c0 & cs0 & E). rewrite E. cbv beta iota. rewrite <- E. clear E c0 cs0.
    rewrite nth_error_app_mid. destruct (delmax_c m cmp f c) as [[[[c' pred] k] ok]|]; [|reflexivity].
    cbn [lift]. rewrite replace_at_mid. destruct ok as [rk|]; [|reflexivity].
    destruct (rebalance_child_c m cmp (replace_at (length l) pred es) (l ++ c' :: r) (length l) rk false) as [[[n' k2] ok']|]; [|reflexivity].
    reflexivity.
  - cbn [delmax_c]. destruct (app_cons_ne _ l [] c) as (c0 & cs0 & E). rewrite E. cbv beta iota. rewrite <- E. clear E c0 cs0.
    rewrite app_length. cbn [length]. replace (length l + 1 - 1)%nat with (length l) by lia.
    rewrite nth_error_app_mid. destruct (delmax_c m cmp f c) as [[[[c' e] k] ok]|]; [|reflexivity].
    cbn [lift]. rewrite replace_at_mid. destruct ok as [rk|]; [|reflexivity].
    destruct (rebalance_child_c m cmp es (l ++ [c']) (length l) rk false) as [[[n' k2] ok']|]; reflexivity.
Qed.

(* ---------- rebalance_child_c on a frame, case by case ---------- *)
Lemma RC_ok : forall es l ces ccs r key b, (minEntries m <= length ces)%nat ->
  rebalance_child_c m cmp es (l ++ N ces ccs :: r) (length l) key b = Some (N es (l ++ N ces ccs :: r), O, None).
Proof.
  intros es l ces ccs r key b H. unfold rebalance_child_c. rewrite nth_error_app_mid.
  now rewrite (proj2 (Nat.leb_le _ _) H).
Qed.

Lemma left_sib_snoc : forall (l' : list node) L n r, left_sib (l' ++ L :: n :: r) (S (length l')) = Some L.
Proof. intros. unfold left_sib. cbn [Nat.leb]. replace (S (length l') - 1)%nat with (length l') by lia. apply nth_error_app_mid. Qed.

Lemma nth_S_mid : forall (A : Type) (l r : list A) x y, nth_error (l ++ x :: y :: r) (S (length l)) = Some y.
Proof.
  intros A l r x y. replace (l ++ x :: y :: r) with ((l ++ [x]) ++ y :: r) by (rewrite <- app_assoc; reflexivity).
  replace (S (length l)) with (length (l ++ [x])) by (rewrite app_length; cbn; lia). apply nth_error_app_mid.
Qed.
Lemma nth_S_end : forall (A : Type) (l : list A) x, nth_error (l ++ [x]) (S (length l)) = None.
Proof. intros. apply nth_error_None. rewrite app_length. cbn. lia. Qed.

(* borrow from the left sibling *)
Lemma RC_bl : forall es l' les lcs ces ccs r key b sep le,
  (length ces < minEntries m)%nat -> (minEntries m < length les)%nat ->
  nth_error es (length l') = Some sep -> last_opt les = Some le ->
  rebalance_child_c m cmp es ((l' ++ [N les lcs]) ++ N ces ccs :: r) (length (l' ++ [N les lcs])) key b =
    Some (N (replace_at (length l') le es)
            (l' ++ N (removelast les) (fst (bl_pair lcs ccs)) :: N (sep :: ces) (snd (bl_pair lcs ccs)) :: r),
          search_c cmp key es, None).
Proof.
  intros es l' les lcs ces ccs r key b sep le Hu Hl Hsep Hle.
  rewrite <- app_assoc, app_length. cbn [app length]. replace (length l' + 1)%nat with (S (length l')) by lia.
  unfold rebalance_child_c. rewrite nth_S_mid. rewrite (proj2 (Nat.leb_gt _ _) Hu).
  cbn [Nat.leb]. replace (S (length l') - 1)%nat with (length l') by lia. rewrite nth_error_app_mid.
  rewrite (proj2 (Nat.ltb_lt _ _) Hl). rewrite rebalance_child_eq. rewrite nth_S_mid. rewrite (proj2 (Nat.leb_gt _ _) Hu).
  unfold borrow_left_f. rewrite left_sib_snoc. rewrite (proj2 (Nat.ltb_lt _ _) Hl).
  replace (S (length l') - 1)%nat with (length l') by lia. rewrite Hsep, Hle.
  destruct (bl_pair lcs ccs) as [lcs' ccs']. cbn [fst snd].
  rewrite replace_at_adj_lo, replace_at_adj_hi. reflexivity.
Qed.

(* no left sibling to borrow from: there is none, or it has no spare entry *)
Definition no_bl (l : list node) : Prop :=
  l = [] \/ exists l' les lcs, l = l' ++ [N les lcs] /\ (length les <= minEntries m)%nat.

Lemma no_bl_flag : forall l n r,
  no_bl l ->
  (match (if (1 <=? length l)%nat then nth_error (l ++ n :: r) (length l - 1) else None) with
   | Some (N les _) => (minEntries m <? length les)%nat | None => false end) = false /\
  forall es ces ccs, n = N ces ccs -> borrow_left_f m es (l ++ n :: r) (length l) ces ccs = None.
Proof.
  intros l n r [->|(l' & les & lcs & -> & Hle)].
  - cbn [length Nat.leb]. split; [reflexivity|]. intros. reflexivity.
  - rewrite app_length. cbn [length]. replace (length l' + 1)%nat with (S (length l')) by lia. cbn [Nat.leb].
    replace (S (length l') - 1)%nat with (length l') by lia. rewrite <- app_assoc. cbn [app]. rewrite nth_error_app_mid.
    split; [apply Nat.ltb_ge; exact Hle|]. intros es ces ccs ->. unfold borrow_left_f. rewrite left_sib_snoc.
    now rewrite (proj2 (Nat.ltb_ge _ _) Hle).
Qed.

(* borrow from the right sibling *)
Lemma RC_br : forall es l ces ccs res rcs r' key b sep re res',
  (length ces < minEntries m)%nat -> no_bl l -> (minEntries m < length res)%nat ->
  nth_error es (length l) = Some sep -> res = re :: res' ->
  rebalance_child_c m cmp es (l ++ N ces ccs :: N res rcs :: r') (length l) key b =
    Some (N (replace_at (length l) re es)
            (l ++ N (ces ++ [sep]) (snd (br_pair rcs ccs)) :: N res' (fst (br_pair rcs ccs)) :: r'),
          (search_c cmp key es + search_c cmp key es)%nat, None).
Proof.
  intros es l ces ccs res rcs r' key b sep re res' Hu Hnl Hr Hsep ->.
  destruct (no_bl_flag l (N ces ccs) (N (re :: res') rcs :: r') Hnl) as [Hfl Hbl].
  unfold rebalance_child_c. rewrite nth_error_app_mid. rewrite (proj2 (Nat.leb_gt _ _) Hu). rewrite Hfl.
  rewrite nth_S_mid. rewrite (proj2 (Nat.ltb_lt _ _) Hr). rewrite rebalance_child_eq. rewrite nth_error_app_mid.
  rewrite (proj2 (Nat.leb_gt _ _) Hu). rewrite (Hbl es ces ccs eq_refl).
  unfold borrow_right_f. rewrite nth_S_mid. rewrite (proj2 (Nat.ltb_lt _ _) Hr). rewrite Hsep.
  destruct (br_pair rcs ccs) as [rcs' ccs']. cbn [fst snd].
  rewrite replace_at_adj_lo, replace_at_adj_hi. reflexivity.
Qed.

(* merge with the right sibling *)
Lemma RC_mr : forall es l ces ccs res rcs r' key b sep,
  (length ces < minEntries m)%nat -> no_bl l -> (length res <= minEntries m)%nat ->
  nth_error es (length l) = Some sep ->
  rebalance_child_c m cmp es (l ++ N ces ccs :: N res rcs :: r') (length l) key b =
    Some (N (remove_at (length l) es) (l ++ N (ces ++ sep :: res) (ccs ++ rcs) :: r'),
          (search_c cmp key es + search_c cmp key es)%nat, Some (fst sep)).
Proof.
  intros es l ces ccs res rcs r' key b sep Hu Hnl Hr Hsep.
  destruct (no_bl_flag l (N ces ccs) (N res rcs :: r') Hnl) as [Hfl Hbl].
  unfold rebalance_child_c. rewrite nth_error_app_mid. rewrite (proj2 (Nat.leb_gt _ _) Hu). rewrite Hfl.
  rewrite nth_S_mid. rewrite (proj2 (Nat.ltb_ge _ _) Hr). rewrite rebalance_child_eq. rewrite nth_error_app_mid.
  rewrite (proj2 (Nat.leb_gt _ _) Hu). rewrite (Hbl es ces ccs eq_refl).
  unfold borrow_right_f. rewrite nth_S_mid. rewrite (proj2 (Nat.ltb_ge _ _) Hr).
  unfold merge_f. rewrite nth_S_mid. rewrite Hsep.
  rewrite replace_at_adj_lo, remove_at_adj_hi. destruct sep as [k v]. reflexivity.
Qed.

(* merge with the left sibling (there is no right sibling) *)
Lemma RC_ml : forall es l' les lcs ces ccs key b sep,
  (length ces < minEntries m)%nat -> (length les <= minEntries m)%nat ->
  nth_error es (length l') = Some sep ->
  rebalance_child_c m cmp es ((l' ++ [N les lcs]) ++ [N ces ccs]) (length (l' ++ [N les lcs])) key b =
    Some (N (remove_at (length l') es) (l' ++ [N (les ++ sep :: ces) (lcs ++ ccs)]),
          (search_c cmp key es + search_c cmp key es)%nat, Some (fst sep)).
Proof.
  intros es l' les lcs ces ccs key b sep Hu Hl Hsep.
  rewrite <- app_assoc, app_length. cbn [app length]. replace (length l' + 1)%nat with (S (length l')) by lia.
  unfold rebalance_child_c. rewrite nth_S_mid. rewrite (proj2 (Nat.leb_gt _ _) Hu).
  cbn [Nat.leb]. replace (S (length l') - 1)%nat with (length l') by lia. rewrite nth_error_app_mid.
  rewrite (proj2 (Nat.ltb_ge _ _) Hl).
  assert (Hn : nth_error (l' ++ [N les lcs; N ces ccs]) (S (S (length l'))) = None).
  { apply nth_error_None. rewrite app_length. cbn [length]. lia. }
  rewrite Hn. rewrite rebalance_child_eq. rewrite nth_S_mid. rewrite (proj2 (Nat.leb_gt _ _) Hu).
  unfold borrow_left_f. rewrite left_sib_snoc. rewrite (proj2 (Nat.ltb_ge _ _) Hl).
  unfold borrow_right_f. rewrite Hn. unfold merge_f. rewrite Hn, left_sib_snoc.
  replace (S (length l') - 1)%nat with (length l') by lia. rewrite Hsep.
  rewrite replace_at_adj_hi, remove_at_adj_lo. destruct sep as [k v]. reflexivity.
Qed.

(* ---------- lift / upz are additive in the count ---------- *)
Lemma lift_add : forall f c k ok n' kk ok' a, lift f (c, k, ok) = Some (n', kk, ok') -> lift f (c, (a + k)%nat, ok) = Some (n', (a + kk)%nat, ok').
Proof.
  intros [[es l] r] c k ok n' kk ok' a H. cbn [lift] in *. destruct ok as [rk|].
  - destruct (rebalance_child_c m cmp es (l ++ c :: r) (length l) rk false) as [[[p k2] o]|]; [|discriminate].
    injection H as <- <- <-. now rewrite Nat.add_assoc.
  - injection H as <- <- <-. reflexivity.
Qed.

(* ---------- the reference key only matters up to the comparator's equivalence ---------- *)
Section Congr.
Hypothesis Hswo : SWO cmp.

Lemma bsearch_congr : forall k k' es, cmp k k' = Eq -> forall f lo hi,
  bsearch cmp k es lo hi f = bsearch cmp k' es lo hi f /\ bsearch_c cmp k es lo hi f = bsearch_c cmp k' es lo hi f.
Proof.
  intros k k' es He. induction f as [|f IH]; intros lo hi; [split; reflexivity|]. cbn [bsearch bsearch_c].
  destruct (lo <=? hi)%Z; [|split; reflexivity].
  destruct (nth_error es (Z.to_nat ((hi + lo) / 2))) as [[k0 v0]|]; [|split; reflexivity].
  rewrite (swo_eq_l cmp Hswo k k' k0 He). destruct (cmp k' k0); [split; reflexivity| |].
  - destruct (IH lo ((hi + lo) / 2 - 1)%Z) as [-> ->]. split; reflexivity.
  - destruct (IH ((hi + lo) / 2 + 1)%Z hi) as [-> ->]. split; reflexivity.
Qed.

Lemma search_congr : forall k k' es, cmp k k' = Eq -> search cmp k es = search cmp k' es /\ search_c cmp k es = search_c cmp k' es.
Proof. intros k k' es He. unfold search, search_c. apply bsearch_congr. exact He. Qed.

Lemma rebalance_child_c_congr : forall k k' es cs i b, cmp k k' = Eq ->
  rebalance_child_c m cmp es cs i k b = rebalance_child_c m cmp es cs i k' b.
Proof. intros k k' es cs i b He. unfold rebalance_child_c. now rewrite (proj2 (search_congr k k' es He)). Qed.

Lemma lift_congr : forall f c kk k k', cmp k k' = Eq -> lift f (c, kk, Some k) = lift f (c, kk, Some k').
Proof. intros [[es l] r] c kk k k' He. cbn [lift]. now rewrite (rebalance_child_c_congr k k' _ _ _ _ He). Qed.

Lemma upz_congr : forall ctx c kk k k', cmp k k' = Eq -> upz ctx (c, kk, Some k) = upz ctx (c, kk, Some k').
Proof. intros [|f ctx] c kk k k' He; [reflexivity|]. cbn [upz]. now rewrite (lift_congr f c kk k k' He). Qed.

Lemma rpos_congr : forall ctx c kk k k', cmp k k' = Eq -> rpos_ok ctx (c, kk, Some k) -> rpos_ok ctx (c, kk, Some k').
Proof.
  intros [|[[es l] r] ctx] [ces ccs] kk k k' He H; [exact I|]. cbn [rpos_ok] in *.
  rewrite <- (lift_congr (es, l, r) (N ces ccs) kk k k' He). rewrite <- (proj1 (search_congr k k' es He)). exact H.
Qed.
End Congr.

(* ---------- the positions the upward pass of a whole deletion relies on ---------- *)
Definition underfull (n : node) : Prop := (length (entries n) < minEntries m)%nat.

Fixpoint dmax_pos (f : nat) (n : node) : Prop :=
  match f with
  | O => True
  | S f' =>
    match n with N es cs =>
      match cs with
      | [] => True
      | _ => match nth_error cs (length cs - 1) with
             | None => True
             | Some c =>
               dmax_pos f' c /\
               match delmax_c m cmp f' c with
               | Some (c', _, _, Some rk) => underfull c' -> fst (search cmp rk es) = (length cs - 1)%nat
               | _ => True
               end
             end
      end
    end
  end.

Fixpoint dpos (f : nat) (key : Z) (n : node) : Prop :=
  match f with
  | O => True
  | S f' =>
    match n with N es cs =>
      match cs with
      | [] => True
      | _ =>
        match nth_error cs (fst (search cmp key es)) with
        | None => True
        | Some c =>
          if snd (search cmp key es)
          then dmax_pos f' c /\
               match delmax_c m cmp f' c with
               | Some (c', pred, _, Some rk) =>
                   underfull c' -> fst (search cmp rk (replace_at (fst (search cmp key es)) pred es)) = fst (search cmp key es)
               | _ => True
               end
          else dpos f' key c /\
               match del_c m cmp f' key c with
               | Some (c', true, _, Some rk) => underfull c' -> fst (search cmp rk es) = fst (search cmp key es)
               | _ => True
               end
        end
      end
    end
  end.
End M.
Print Assumptions del_c_lift.
