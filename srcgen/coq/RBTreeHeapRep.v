(* The REPRESENTATION of a functional red-black tree (Model/RBTree.v) by a heap of GENERATED Node records
   (GodsGen.RedBlackTreeHeapGen, regenerated from trees/redblacktree/redblacktree.go on every run).

   [ptree] is a functional tree whose nodes carry their ADDRESS; [rep h pp pt] says that every node of pt is stored at
   its address with the key / value / colour of the model, Left / Right = the addresses of its subtrees' roots (nil for
   E) and Parent = the address of its parent (pp for the root).  [repr h p pp t] is the predicate on plain model
   trees: some address assignment with DISTINCT addresses represents t at pointer p. *)
From Coq Require Import ZArith List Lia Bool Arith.
From Gods Require Import Common.Cmp Model.RBTree.
From GodsGenProofs Require Import GoCmp GoTreeHeap.
From GodsGen Require RedBlackTreeHeapGen.
Import ListNotations.
Local Open Scope Z_scope.

Module G := RedBlackTreeHeapGen.
Module RB := RBTree.

Inductive ptree := PE | PT (a : nat) (c : RB.color) (l : ptree) (k v : Z) (r : ptree).

Fixpoint erase (t : ptree) : RB.tree :=
  match t with PE => RB.E | PT _ c l k v r => RB.T c (erase l) k v (erase r) end.
Fixpoint addrs (t : ptree) : list nat :=
  match t with PE => [] | PT a _ l _ _ r => a :: addrs l ++ addrs r end.
Definition root_ptr (t : ptree) : ptr := match t with PE => None | PT a _ _ _ _ _ => Some a end.
(* Go: black, red color = true, false -- the GENERATED constants *)
Definition colb (c : RB.color) : bool := match c with RB.Black => G.black | RB.Red => G.red end.

Definition node_of (pp : ptr) (c : RB.color) (l : ptree) (k v : Z) (r : ptree) : G.Node :=
  G.mkNode k v (colb c) (root_ptr l) (root_ptr r) pp.

Fixpoint rep (h : heap G.Node) (pp : ptr) (t : ptree) : Prop :=
  match t with
  | PE => True
  | PT a c l k v r => hread h a = Some (node_of pp c l k v r) /\ rep h (Some a) l /\ rep h (Some a) r
  end.

Definition repr (h : heap G.Node) (p pp : ptr) (t : RB.tree) : Prop :=
  exists pt, erase pt = t /\ root_ptr pt = p /\ rep h pp pt /\ NoDup (addrs pt).

(* the tree header represents t *)
Definition tree_repr (h : heap G.Node) (tr : G.Tree) (t : RB.tree) : Prop := repr h (G.Tree_Root tr) None t.

(* a pointer result against the model's optional (key, value): nil iff None, else the node's key and value *)
Definition node_is (h : heap G.Node) (p : ptr) (o : option (Z * Z)) : Prop :=
  match o with
  | None => p = None
  | Some (k, v) => exists nd, deref h p = Some nd /\ G.Node_Key nd = k /\ G.Node_Value nd = v
  end.

Lemma rep_root_deref : forall h pp a c l k v r, rep h pp (PT a c l k v r) ->
  deref h (Some a) = Some (node_of pp c l k v r).
Proof. intros. simpl in *. tauto. Qed.

Lemma erase_E : forall pt, erase pt = RB.E -> pt = PE.
Proof. destruct pt; [reflexivity|discriminate]. Qed.

Lemma root_ptr_nil : forall pt, is_nil (root_ptr pt) = match pt with PE => true | _ => false end.
Proof. destruct pt; reflexivity. Qed.

(* frame: rep only reads the addresses of the tree *)
Lemma rep_frame : forall h h' pt pp, (forall a, In a (addrs pt) -> hread h' a = hread h a) -> rep h pp pt -> rep h' pp pt.
Proof.
  induction pt as [|a c l IHl k v r IHr]; intros pp Hf H; [exact I|].
  simpl in H. destruct H as (Ha & Hl & Hr). simpl. repeat split.
  - rewrite Hf; [exact Ha|]. simpl. now left.
  - apply IHl; [|exact Hl]. intros x Hx. apply Hf. simpl. right. apply in_or_app. now left.
  - apply IHr; [|exact Hr]. intros x Hx. apply Hf. simpl. right. apply in_or_app. now right.
Qed.

(* re-parenting the root *)
Lemma rep_reparent : forall h pt pp pp', rep h pp pt ->
  match pt with PE => True | PT a c l k v r => hread h a = Some (node_of pp' c l k v r) end -> rep h pp' pt.
Proof. destruct pt; simpl; intros; tauto. Qed.

Lemma count_addrs : forall pt, length (addrs pt) = RB.count (erase pt).
Proof.
  induction pt as [|a c l IHl k v r IHr]; [reflexivity|]. simpl. rewrite app_length, IHl, IHr. reflexivity.
Qed.

(* ---------- paths (the model's iterator locates a node by its path from the root) ---------- *)
Definition pchild (d : RB.side) (l r : ptree) : ptree := match d with RB.L => l | RB.R => r end.

Fixpoint psub (t : ptree) (p : list RB.side) {struct p} : option ptree :=
  match p with
  | [] => match t with PE => None | _ => Some t end
  | d :: p' => match t with PE => None | PT _ _ l _ _ r => psub (pchild d l r) p' end
  end.

Lemma psub_erase : forall p t, RB.subtree (erase t) p = option_map erase (psub t p).
Proof.
  induction p as [|d p IH]; intros [|a c l k v r]; cbn [psub RB.subtree erase option_map]; try reflexivity.
  destruct d; apply IH.
Qed.

Lemma psub_not_PE : forall p t, psub t p <> Some PE.
Proof.
  induction p as [|d p IH]; intros [|a c l k v r]; cbn [psub]; try discriminate. apply IH.
Qed.

Lemma psub_app : forall p q t, psub t (p ++ q) = match psub t p with Some s => psub s q | None => None end.
Proof.
  induction p as [|d p IH]; intros q t; cbn [app psub].
  - destruct t; [destruct q; reflexivity|reflexivity].
  - destruct t as [|a c l k v r]; [reflexivity|]. apply IH.
Qed.

Lemma psub_snoc : forall t p d s, psub t (p ++ [d]) = Some s ->
  exists b c l k v r, psub t p = Some (PT b c l k v r) /\ s = pchild d l r /\ s <> PE.
Proof.
  intros t p d s H. rewrite psub_app in H. destruct (psub t p) as [[|b c l k v r]|] eqn:E; try discriminate.
  exists b, c, l, k, v, r. cbn [psub] in H. split; [reflexivity|].
    destruct (pchild d l r) eqn:Ec; [discriminate|]. injection H as <-. split; [reflexivity|discriminate].
Qed.

Lemma rep_psub : forall h p t pp s, rep h pp t -> psub t p = Some s -> exists pp', rep h pp' s.
Proof.
  intros h. induction p as [|d p IH]; intros t pp s Hrep H.
  - destruct t; [discriminate|]. injection H as <-. eauto.
  - destruct t as [|a c l k v r]; [discriminate|]. cbn [psub] in H. simpl in Hrep. destruct Hrep as (_ & Hl & Hr).
    destruct d; cbn [pchild] in H; eauto.
Qed.

Lemma rep_psub_root : forall h t s, rep h None t -> psub t [] = Some s -> rep h None s.
Proof. intros h t s Hrep H. destruct t; [discriminate|]. now injection H as <-. Qed.

Lemma psub_addrs : forall p t s x, psub t p = Some s -> In x (addrs s) -> In x (addrs t).
Proof.
  induction p as [|d p IH]; intros t s x H Hx.
  - destruct t; [discriminate|]. now injection H as <-.
  - destruct t as [|a c l k v r]; [discriminate|]. cbn [psub] in H. cbn [addrs]. right. apply in_or_app.
    destruct d; cbn [pchild] in H; [left|right]; eapply IH; eauto.
Qed.

Lemma NoDup_app_l : forall (A : Type) (l1 l2 : list A), NoDup (l1 ++ l2) -> NoDup l1.
Proof.
  intros A l1. induction l1 as [|x l1 IH]; intros l2 H; [constructor|].
  inversion H; subst. constructor; [intro Hx; apply H2; apply in_or_app; now left|eapply IH; eauto].
Qed.
Lemma NoDup_app_r : forall (A : Type) (l1 l2 : list A), NoDup (l1 ++ l2) -> NoDup l2.
Proof.
  intros A l1. induction l1 as [|x l1 IH]; intros l2 H; [exact H|]. inversion H; subst. eapply IH; eauto.
Qed.
Lemma NoDup_app_disj : forall (A : Type) (l1 l2 : list A) x, NoDup (l1 ++ l2) -> In x l1 -> In x l2 -> False.
Proof.
  intros A l1. induction l1 as [|y l1 IH]; intros l2 x H H1 H2; [contradiction|].
  inversion H; subst. destruct H1 as [->|H1]; [apply H4; apply in_or_app; now right|eapply IH; eauto].
Qed.

Lemma psub_nodup : forall p t s, NoDup (addrs t) -> psub t p = Some s -> NoDup (addrs s).
Proof.
  induction p as [|d p IH]; intros t s Hn H.
  - destruct t; [discriminate|]. now injection H as <-.
  - destruct t as [|a c l k v r]; [discriminate|]. cbn [psub] in H. cbn [addrs] in Hn. inversion Hn; subst.
    destruct d; cbn [pchild] in H; eapply IH; eauto; [eapply NoDup_app_l|eapply NoDup_app_r]; eauto.
Qed.

(* the two children of a node have different roots (unless both are nil), and differ from the node *)
Lemma siblings_differ : forall a c l k v r x, NoDup (addrs (PT a c l k v r)) ->
  root_ptr r = Some x -> root_ptr l <> Some x.
Proof.
  intros a c l k v r x Hn Hr Hl. cbn [addrs] in Hn. inversion Hn; subst.
  destruct l as [|la ? ? ? ? ?]; [discriminate|]. destruct r as [|ra ? ? ? ? ?]; [discriminate|].
  cbn [root_ptr] in *. injection Hl as ->. injection Hr as ->.
  eapply (NoDup_app_disj _ _ _ x H2); cbn [addrs]; now left.
Qed.
Lemma siblings_differ' : forall a c l k v r x, NoDup (addrs (PT a c l k v r)) ->
  root_ptr l = Some x -> root_ptr r <> Some x.
Proof.
  intros a c l k v r x Hn Hl Hr. eapply siblings_differ; eauto.
Qed.

Lemma psub_height : forall p t s, psub t p = Some s ->
  (length p + RB.height (erase s) <= RB.height (erase t))%nat.
Proof.
  induction p as [|d p IH]; intros t s H.
  - destruct t; [discriminate|]. injection H as <-. simpl. lia.
  - destruct t as [|a c l k v r]; [discriminate|]. cbn [psub] in H. specialize (IH _ _ H).
    cbn [erase RB.height length]. destruct d; cbn [pchild] in IH; lia.
Qed.

(* ---------- writes: explicit heap updates, replacing a subtree ---------- *)
Definition hset (h : heap G.Node) (a : nat) (n : G.Node) : heap G.Node := mkheap ((a, n) :: hcells h) (hnext h).

Lemma hread_hset : forall h a n x, hread (hset h a n) x = if Nat.eqb x a then Some n else hread h x.
Proof. reflexivity. Qed.
Lemma store_hset : forall h a c f, hread h a = Some c -> store h (Some a) f = Some (hset h a (f c)).
Proof. intros h a c f H. unfold store. now rewrite H. Qed.
Lemma hnext_hset : forall h a n, hnext (hset h a n) = hnext h.
Proof. reflexivity. Qed.

Ltac eqb_simpl := repeat match goal with
  | |- context [Nat.eqb ?a ?a] => rewrite (Nat.eqb_refl a)
  | H : ?a <> ?b |- context [Nat.eqb ?a ?b] => rewrite (proj2 (Nat.eqb_neq a b) H)
  | H : ?b <> ?a |- context [Nat.eqb ?a ?b] => rewrite (proj2 (Nat.eqb_neq a b) (not_eq_sym H))
  end.

Fixpoint pupd (t : ptree) (p : list RB.side) (s' : ptree) {struct p} : ptree :=
  match p with
  | [] => s'
  | d :: p' =>
    match t with
    | PE => PE
    | PT a c l k v r => match d with RB.L => PT a c (pupd l p' s') k v r | RB.R => PT a c l k v (pupd r p' s') end
    end
  end.

Lemma NoDup_app_intro : forall (A : Type) (l1 l2 : list A),
  NoDup l1 -> NoDup l2 -> (forall x, In x l1 -> In x l2 -> False) -> NoDup (l1 ++ l2).
Proof.
  intros A l1. induction l1 as [|y l1 IH]; intros l2 H1 H2 Hd; [exact H2|].
  inversion H1; subst. cbn [app]. constructor.
  - intro Hy. apply in_app_or in Hy. destruct Hy as [Hy|Hy]; [contradiction|]. apply (Hd y); [now left|exact Hy].
  - apply IH; [assumption|assumption|]. intros x Hx1 Hx2. apply (Hd x); [now right|exact Hx2].
Qed.

(* replacing the subtree at path p by one with the SAME root address whose addresses are among the old ones *)
Lemma rep_pupd_same_root : forall h h' s s' p t pp,
  rep h pp t -> NoDup (addrs t) -> psub t p = Some s ->
  root_ptr s' = root_ptr s -> (forall x, In x (addrs s') -> In x (addrs s)) -> NoDup (addrs s') ->
  (forall pps, rep h pps s -> rep h' pps s') ->
  (forall y, In y (addrs t) -> ~ In y (addrs s) -> hread h' y = hread h y) ->
  rep h' pp (pupd t p s') /\ NoDup (addrs (pupd t p s')) /\ (forall x, In x (addrs (pupd t p s')) -> In x (addrs t)) /\
  root_ptr (pupd t p s') = root_ptr t.
Proof.
  intros h h' s s'. induction p as [|d p IH]; intros t pp Hrep Hnd Hs Hroot Hsub Hnd' Hs' Hfr.
  - destruct t; [discriminate|]. injection Hs as <-. cbn [pupd]. repeat split; auto.
  - destruct t as [|a c l k v r]; [discriminate|]. cbn [psub] in Hs. simpl in Hrep. destruct Hrep as (Ha & Hl & Hr).
    cbn [addrs] in Hnd. inversion Hnd as [|? ? Hna Hnd2]; subst.
    pose proof (NoDup_app_l _ _ _ Hnd2) as Hndl. pose proof (NoDup_app_r _ _ _ Hnd2) as Hndr.
    assert (Has : ~ In a (addrs s)).
    { intro Hx. apply Hna. apply in_or_app. destruct d; cbn [pchild] in Hs; [left|right]; eapply psub_addrs; eauto. }
    destruct d; cbn [pchild] in Hs; cbn [pupd].
    + destruct (IH l (Some a) Hl Hndl Hs Hroot Hsub Hnd' Hs') as (R1 & R2 & R3 & R4).
      { intros y Hy Hny. apply Hfr; [|exact Hny]. cbn [addrs]. right. apply in_or_app. now left. }
      split; [|split; [|split; [|reflexivity]]].
      * cbn [rep]. split; [|split; [exact R1|]].
        -- rewrite Hfr; [|cbn [addrs]; now left|exact Has]. unfold node_of. rewrite R4. exact Ha.
        -- eapply rep_frame; [|exact Hr]. intros y Hy. apply Hfr; [cbn [addrs]; right; apply in_or_app; now right|].
           intro Hys. eapply (NoDup_app_disj _ _ _ y Hnd2); [eapply psub_addrs; eauto|exact Hy].
      * cbn [addrs]. constructor.
        -- intro Hx. apply Hna. apply in_app_or in Hx. apply in_or_app. destruct Hx as [Hx|Hx]; [left; now apply R3|now right].
        -- apply NoDup_app_intro; [exact R2|exact Hndr|]. intros x Hx1 Hx2. eapply (NoDup_app_disj _ _ _ x Hnd2); [now apply R3|exact Hx2].
      * intros x Hx. cbn [addrs] in *. destruct Hx as [->|Hx]; [now left|]. right. apply in_app_or in Hx. apply in_or_app.
        destruct Hx as [Hx|Hx]; [left; now apply R3|now right].
    + destruct (IH r (Some a) Hr Hndr Hs Hroot Hsub Hnd' Hs') as (R1 & R2 & R3 & R4).
      { intros y Hy Hny. apply Hfr; [|exact Hny]. cbn [addrs]. right. apply in_or_app. now right. }
      split; [|split; [|split; [|reflexivity]]].
      * cbn [rep]. split; [|split; [|exact R1]].
        -- rewrite Hfr; [|cbn [addrs]; now left|exact Has]. unfold node_of. rewrite R4. exact Ha.
        -- eapply rep_frame; [|exact Hl]. intros y Hy. apply Hfr; [cbn [addrs]; right; apply in_or_app; now left|].
           intro Hys. eapply (NoDup_app_disj _ _ _ y Hnd2); [exact Hy|eapply psub_addrs; eauto].
      * cbn [addrs]. constructor.
        -- intro Hx. apply Hna. apply in_app_or in Hx. apply in_or_app. destruct Hx as [Hx|Hx]; [now left|right; now apply R3].
        -- apply NoDup_app_intro; [exact Hndl|exact R2|]. intros x Hx1 Hx2. eapply (NoDup_app_disj _ _ _ x Hnd2); [exact Hx1|now apply R3].
      * intros x Hx. cbn [addrs] in *. destruct Hx as [->|Hx]; [now left|]. right. apply in_app_or in Hx. apply in_or_app.
        destruct Hx as [Hx|Hx]; [now left|right; now apply R3].
Qed.

Lemma pupd_app : forall p q t s s', psub t p = Some s -> pupd t (p ++ q) s' = pupd t p (pupd s q s').
Proof.
  induction p as [|d p IH]; intros q t s s' Hs.
  - destruct t; [discriminate|]. now injection Hs as <-.
  - destruct t as [|a c l k v r]; [discriminate|]. cbn [psub] in Hs. cbn [app pupd].
    destruct d; cbn [pchild] in Hs; now rewrite (IH q _ _ s' Hs).
Qed.

Lemma inorder_pupd : forall p t s s', psub t p = Some s ->
  RB.inorder (erase s') = RB.inorder (erase s) -> RB.inorder (erase (pupd t p s')) = RB.inorder (erase t).
Proof.
  induction p as [|d p IH]; intros t s s' Hs He.
  - destruct t; [discriminate|]. injection Hs as <-. exact He.
  - destruct t as [|a c l k v r]; [discriminate|]. cbn [psub] in Hs. cbn [pupd].
    destruct d; cbn [pchild] in Hs; cbn [erase RB.inorder]; now rewrite (IH _ _ _ Hs He).
Qed.

Lemma path_cases : forall (p : list RB.side), p = [] \/ exists q d, p = q ++ [d].
Proof. intros p. destruct p using rev_ind; [now left|right; eauto]. Qed.
