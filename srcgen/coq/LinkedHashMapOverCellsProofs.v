(* COMPOSITION: maps/linkedhashmap/linkedhashmap.go regenerated over a Go map and an abstract `ordering` list (GodsGen.LinkedHashMapGen,
   proved against the machine in LinkedHashMapGenProofs.v with the list instantiated by the sequence MODEL) is here instantiated with
   the GENERATED POINTER CODE of lists/doublylinkedlist/doublylinkedlist.go (DLLCellsIface.v; the interface is instantiated as is,
   including the constructor doublylinkedlist.New).  [linkedhashmap_over_cells_run]: after ANY run of generated Put / Remove / Clear from
   the generated New() the ordering list is not None (no nil dereference, no fuel exhaustion), its heap represents -- with correct prev
   links -- the key order of Machine.run for kind LinkedHashMap, the table is the machine's, and Get / Size / Empty / Keys / Values answer
   as the machine; Values() loops over the keys that the generated list Values() walk reads, paired with their table entries
   (maps/linkedhashmap/iterator.go itself is not translated). *)
From Coq Require Import ZArith List Lia Bool Arith.
From Gods Require Import Common.Cmp Common.ListAux Spec.SeqSpec Spec.MapSpec Model.Ops Model.Lists Model.Machine Model.LinkedCells.
From Gods Require Import Proofs.LinkedCellsProofs.
From GodsGen Require LinkedHashMapGen.
From GodsGenProofs Require Import GenIterRun WrapCommon GoMap DLLCellsIface.
From GodsGenProofs Require LinkedHashMapGenProofs.
Import ListNotations.
Local Open Scope Z_scope.

Module M := LinkedHashMapGen.
Module MP := LinkedHashMapGenProofs.

Definition Ip : M.ordering_iface := M.mk_ordering_iface pstate
  p_Add p_Append p_Clear p_Get p_IndexOf p_Prepend p_Remove p_Size p_Values p_New.
(* m.Iterator(): the keys that the generated Values() of the ordering list reads, with their values in the table *)
Definition enum_p (g : M.Map Ip) : list (Z * Z) := lmap_entries (M.table Ip g) (p_Values (M.ordering Ip g)).

Definition SR (gp : M.Map Ip) (gm : M.Map MP.I) : Prop :=
  M.table Ip gp = M.table MP.I gm /\ R (M.ordering Ip gp) (M.ordering MP.I gm).

Lemma Put_rel : forall gp gm k v, SR gp gm -> SR (fst (M.Put Ip gp k v)) (fst (M.Put MP.I gm k v)).
Proof.
  intros [tp op] [tm om] k v [Ht Ho]. cbn [M.table M.ordering] in Ht, Ho. subst tm. unfold M.Put, M.set_table, M.set_ordering.
  cbn [M.table M.ordering M.ordering_Append Ip MP.I]. destruct (gm_lookup tp k) as [t1 t2]. destruct (negb t2); [|split; [reflexivity|exact Ho]].
  pose proof (Append_rel op om [k] Ho) as HA. destruct (p_Append op [k]) as [o' u]. cbn [fst M.table M.ordering] in *. split; [reflexivity|exact HA].
Qed.

Lemma Remove_rel' : forall gp gm k, SR gp gm -> SR (fst (M.Remove Ip gp k)) (fst (M.Remove MP.I gm k)).
Proof.
  intros [tp op] [tm om] k [Ht Ho]. cbn [M.table M.ordering] in Ht, Ho. subst tm. unfold M.Remove, M.set_table, M.set_ordering.
  cbn [M.table M.ordering M.ordering_IndexOf M.ordering_Remove Ip MP.I]. destruct (gm_lookup tp k) as [t1 t2]. destruct t2; [|split; [reflexivity|exact Ho]].
  destruct (observers_rel op om Ho k) as (_ & _ & _ & _ & OI). rewrite OI.
  pose proof (Remove_rel op om (dll_index_of k om) Ho) as HA. destruct (p_Remove op _) as [o' u]. cbn [fst M.table M.ordering] in *. split; [reflexivity|exact HA].
Qed.

Lemma Clear_rel' : forall gp gm, SR gp gm -> SR (fst (M.Clear Ip gp)) (fst (M.Clear MP.I gm)).
Proof.
  intros [tp op] [tm om] [Ht Ho]. cbn [M.table M.ordering] in Ht, Ho. unfold M.Clear, M.set_table, M.set_ordering.
  cbn [M.table M.ordering M.ordering_Clear Ip MP.I]. pose proof (Clear_rel op om Ho) as HC. destruct (p_Clear op) as [o' u]. cbn [fst] in *.
  split; [reflexivity|exact HC].
Qed.

Lemma New_rel' : SR (M.New Ip) (M.New MP.I).
Proof. split; [reflexivity|exact New_rel]. Qed.

Lemma observers_rel' : forall gp gm k, SR gp gm ->
  M.Get Ip gp k = M.Get MP.I gm k /\ M.Size Ip gp = M.Size MP.I gm /\ M.Empty Ip gp = M.Empty MP.I gm /\
  M.Keys Ip gp = M.Keys MP.I gm /\ M.Values Ip enum_p gp = M.Values MP.I MP.enum gm.
Proof.
  intros [tp op] [tm om] k [Ht Ho]. cbn [M.table M.ordering] in Ht, Ho. subst tm.
  destruct (observers_rel op om Ho 0) as (_ & OS & _ & OV & _).
  assert (HS : M.Size Ip (M.mkMap Ip tp op) = M.Size MP.I (M.mkMap MP.I tp om)) by (unfold M.Size; cbn [M.ordering M.ordering_Size Ip MP.I]; exact OS).
  split; [reflexivity|]. split; [exact HS|]. split; [unfold M.Empty; now rewrite HS|]. split; [exact OV|].
  unfold M.Values. rewrite HS. unfold enum_p, MP.enum. cbn [M.table M.ordering]. rewrite OV. reflexivity.
Qed.

(* ---------- runs ---------- *)
Definition gen_step_p (g : M.Map Ip) (o : MP.gop) : M.Map Ip :=
  match o with MP.GPut k v => fst (M.Put Ip g k v) | MP.GRemove k => fst (M.Remove Ip g k) | MP.GClear => fst (M.Clear Ip g) end.
Definition gen_run_p (ops : list MP.gop) : M.Map Ip := fold_left gen_step_p ops (M.New Ip).

Lemma gen_run_rel : forall ops, SR (gen_run_p ops) (MP.gen_run ops).
Proof.
  intros ops. induction ops as [|o ops IH] using rev_ind; [exact New_rel'|].
  unfold gen_run_p, MP.gen_run. rewrite !fold_left_app. cbn [fold_left]. fold (gen_run_p ops) (MP.gen_run ops).
  destruct o as [k v|k|]; cbn [gen_step_p MP.gen_step]; [apply Put_rel|apply Remove_rel'|apply Clear_rel']; exact IH.
Qed.

(* OBLIGATION *)
Theorem linkedhashmap_over_cells_run : forall c, ckind c = LinkedHashMap -> forall ops,
  let gp := gen_run_p ops in
  let s := run c (map MP.to_op ops) in
  exists d ord, M.ordering Ip gp = Some d /\ s = StLMap (M.table Ip gp) ord /\ repr_dll d ord /\
    M.Size Ip gp = size_of c s /\ M.Empty Ip gp = (size_of c s =? 0) /\ M.Keys Ip gp = keys_of c s /\
    M.Values Ip enum_p gp = values_of c s /\ (forall k, obs_pair (M.Get Ip gp k) = get_of c s k).
Proof.
  intros c Hk ops gp s. pose proof (gen_run_rel ops) as HR. fold gp in HR.
  destruct (MP.gen_run_simulates c Hk ops) as (Hrun & Hinv & HS & HV & HK). fold s in Hrun.
  pose proof HR as [Ht (d & Hd & Hrep)]. exists d, (M.ordering MP.I (MP.gen_run ops)).
  split; [exact Hd|]. split; [now rewrite Ht|]. split; [exact Hrep|].
  destruct (observers_rel' gp _ 0 HR) as (_ & OS & OE & OK & OV). rewrite Hrun, OS, OE, OK, OV.
  split; [exact HS|]. split; [exact (MP.Empty_equiv c _ Hinv)|]. split; [exact HK|]. split; [exact HV|].
  intros k. destruct (observers_rel' gp _ k HR) as (OG & _). rewrite OG. symmetry. apply MP.Get_equiv.
Qed.
Print Assumptions linkedhashmap_over_cells_run.
