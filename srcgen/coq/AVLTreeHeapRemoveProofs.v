(* THE WRITE PATH Remove -> remove -> removeMin -> removeFix of trees/avltree/avltree.go in TREE POINTER MODE
   (GodsGen.AVLTreeHeapGen; `qp **Node` is a GoTreeLink.link, `minKey *K` / `minVal *V` the address of the node whose Key /
   Value they point to) against Model/AVLTree.v, under the representation predicate of AVLTreeHeapRep.v:
     removeFix_correct  = AVL.removeFix (balance update / rotate / singlerot / doublerot, result stored through the link);
     removeMin_correct  = AVL.removeMin: the minimum is unlinked, its key and value are written into the node *minKey;
     remove_correct     the generated recursive remove on the subtree a link points to = AVL.remove;
     Remove_correct     for every heap, every represented tree t with AVL.remove cmp key t = Some (t', fx, rem) and
                        fuel > AVL.height t: the generated Remove returns a heap representing t', size - 1 iff the key was
                        there, exactly AVL.remove_cost comparator calls, no allocation; never None;
   Runs of the generated Put / Remove: AVLTreeHeapRunProofs.v. *)
From Coq Require Import ZArith List Lia Bool Arith ZifyBool ZifyNat.
From Gods Require Import Common.Cmp Model.AVLTree Proofs.AVLInv.
From Gods Require Proofs.AVLMap.
From GodsGenProofs Require Import GoCmp GoTreeHeap GoTreeLink AVLTreeHeapRep AVLTreeHeapWriteLemmas AVLTreeHeapRotProofs AVLTreeHeapDblRotProofs AVLTreeHeapStepLemmas.
From GodsGen Require AVLTreeHeapGen.
Import ListNotations.
Local Open Scope Z_scope.

(* OBLIGATION *)
Theorem removeFix_correct : forall h root qp pp c s t' f,
  (c = 1 \/ c = -1) -> rep h pp s -> NoDup (addrs s) -> s <> PE -> link_ok h root qp pp (root_ptr s) ->
  (forall a, link_owner qp = Some a -> ~ In a (addrs s)) ->
  AVL.removeFix c (erase s) = Some (t', f) ->
  exists h' s' root', G.removeFix h root c qp = Some (h', root', f) /\ erase s' = t' /\
    link_post h h' root qp pp s s' root' /\ same_addrs s' s /\ hnext h' = hnext h /\
    (forall z, ~ In z (addrs s) -> link_owner qp <> Some z -> hread h' z = hread h z).
Proof.
  intros h root qp pp c s t' f Hc Hrep Hnd Hne Hlk Hown Hm.
  destruct s as [|sa sb sl sk sv sr]; [congruence|]. clear Hne.
  pose proof (link_get_ok _ _ _ _ _ Hlk) as Hget. cbn [root_ptr] in Hget, Hlk.
  destruct (rep_PT_inv _ _ _ _ _ _ _ _ Hrep) as (Hs & Hsl & Hsr).
  unfold AVL.removeFix in Hm. cbn [erase AVL.bal] in Hm.
  assert (Hkeep : forall h1, (forall z, z <> sa -> hread h1 z = hread h z) ->
            new_root qp root (Some sa) = root /\ link_ok h1 root qp pp (Some sa) /\ owner_upd h h1 qp (Some sa)).
  { intros h1 Hfr1. apply link_keep; [exact Hlk|]. intros a Ha. apply Hfr1. intros ->. apply (Hown _ Ha). now left. }
  unfold G.removeFix. rewrite Hget. csim.
  destruct (sb =? 0) eqn:E0; [|destruct (sb =? - c) eqn:E1].
  - injection Hm as <- <-. pose proof Hnd as Hnd0. nd_facts Hnd.
    assert (Hfr : forall z, z <> sa -> hread (hset h sa (node_of pp c sl sk sv sr)) z = hread h z) by (intros z Hz; rewrite hread_hset; eqb_simpl; reflexivity).
    destruct (Hkeep _ Hfr) as (K1 & K2 & K3).
    exists (hset h sa (node_of pp c sl sk sv sr)), (PT sa c sl sk sv sr), root. split; [reflexivity|]. split; [reflexivity|].
    split; [split; [cbn [root_ptr]; now rewrite K1|split; [rep_tac|split; assumption]]|].
    split; [same_addrs_tac|]. split; [reflexivity|]. intros z Hz _. apply Hfr. intros ->. apply Hz. now left.
  - injection Hm as <- <-. pose proof Hnd as Hnd0. nd_facts Hnd.
    assert (Hfr : forall z, z <> sa -> hread (hset h sa (node_of pp 0 sl sk sv sr)) z = hread h z) by (intros z Hz; rewrite hread_hset; eqb_simpl; reflexivity).
    destruct (Hkeep _ Hfr) as (K1 & K2 & K3).
    exists (hset h sa (node_of pp 0 sl sk sv sr)), (PT sa 0 sl sk sv sr), root. split; [reflexivity|]. split; [reflexivity|].
    split; [split; [cbn [root_ptr]; now rewrite K1|split; [rep_tac|split; assumption]]|].
    split; [same_addrs_tac|]. split; [reflexivity|]. intros z Hz _. apply Hfr. intros ->. apply Hz. now left.
  - (* a rotation; its result is stored through the link *)
    assert (Hchild : exists ca cb cl ck cv cr, (if c =? 1 then sr else sl) = PT ca cb cl ck cv cr).
    { destruct Hc as [-> | ->]; cbn [Z.eqb Pos.eqb AVL.child] in Hm |- *.
      - destruct sr as [|ca cb cl ck cv cr]; [|now eauto 7]. cbn [erase AVL.bal Z.eqb AVL.rotate Pos.eqb] in Hm. discriminate.
      - destruct sl as [|ca cb cl ck cv cr]; [|now eauto 7]. cbn [erase AVL.bal Z.eqb AVL.rotate Pos.eqb] in Hm. discriminate. }
    destruct Hchild as (ca & cb & cl & ck & cv & cr & Hch).
    assert (Hx5 : arr2_get (root_ptr sl, root_ptr sr) (Z.quot (c + 1) 2) = Some (Some ca) /\ hread h ca = Some (node_of (Some sa) cb cl ck cv cr)
                  /\ AVL.bal (AVL.child c (AVL.T sb (erase sl) sk sv (erase sr))) = cb).
    { destruct Hc as [-> | ->]; cbn [Z.eqb Pos.eqb] in Hch; subst; cbn [AVL.child Z.eqb Pos.eqb erase AVL.bal root_ptr]; (split; [reflexivity|]); (split; [|reflexivity]).
      - simpl in Hsr. tauto.
      - simpl in Hsl. tauto. }
    destruct Hx5 as (Hx5 & Hca & Hbal). rewrite Hbal in Hm. rewrite !Hx5. cbn [deref]. rewrite Hca. gproj.
    assert (Hrot : exists h1 s1, 
               (if cb =? 0 then (do (h1, r7) <- G.rotate h c (Some sa); do h2 <- store h1 r7 (G.Node_with_b (- c)); Some (h2, r7))
                else if cb =? c then G.singlerot h c (Some sa) else G.doublerot h c (Some sa))
               = Some (h1, root_ptr s1) /\ erase s1 = t' /\ f = negb (cb =? 0) /\
               rep h1 pp s1 /\ same_addrs s1 (PT sa sb sl sk sv sr) /\ hnext h1 = hnext h /\
               (forall z, ~ In z (addrs (PT sa sb sl sk sv sr)) -> hread h1 z = hread h z)).
    { destruct (cb =? 0); [|destruct (cb =? c)].
      - destruct (AVL.rotate c (AVL.T sb (erase sl) sk sv (erase sr))) as [t1|] eqn:Er; [|discriminate]. injection Hm as <- <-.
        destruct (rotate_correct h pp c (PT sa sb sl sk sv sr) t1 Hc Hrep Hnd Er) as (h1 & s1 & Ex & He & Hr1 & Hsa & Hn1 & Hf1).
        destruct s1 as [|a2 b2 l2 k2 v2 r2]; [exfalso; apply (rotate_not_E _ _ _ Er); now rewrite <- He|].
        destruct (store_b_root h1 pp a2 b2 l2 k2 v2 r2 (- c) Hr1 (proj1 Hsa)) as (h2 & E2 & Hr2 & Hn2 & Hf2).
        cbn [root_ptr] in Ex. rewrite Ex. cbn [root_ptr] in E2 |- *. rewrite E2. exists h2, (PT a2 (- c) l2 k2 v2 r2).
        split; [reflexivity|]. split; [rewrite <- He; reflexivity|]. split; [reflexivity|]. split; [exact Hr2|]. split; [exact Hsa|]. split; [congruence|].
        intros z Hz. rewrite Hf2; [apply Hf1; exact Hz|]. intros ->. apply Hz. apply Hsa. now left.
      - destruct (AVL.singlerot c (AVL.T sb (erase sl) sk sv (erase sr))) as [t1|] eqn:Er; [|discriminate]. injection Hm as <- <-.
        destruct (singlerot_correct h pp c (PT sa sb sl sk sv sr) t1 Hc Hrep Hnd Er) as (h1 & s1 & Ex & He & Hr1 & Hsa & Hn1 & Hf1).
        cbn [root_ptr] in Ex. exists h1, s1. repeat split; auto; apply Hsa.
      - destruct (AVL.doublerot c (AVL.T sb (erase sl) sk sv (erase sr))) as [t1|] eqn:Er; [|discriminate]. injection Hm as <- <-.
        destruct (doublerot_correct h pp c (PT sa sb sl sk sv sr) t1 Hc Hrep Hnd Er) as (h1 & s1 & Ex & He & Hr1 & Hsa & Hn1 & Hf1).
        cbn [root_ptr] in Ex. exists h1, s1. repeat split; auto; apply Hsa. }
    destruct Hrot as (h1 & s1 & Ex & He & -> & Hr1 & Hsa & Hn1 & Hf1).
    destruct (store_through_link h h1 root qp pp (PT sa sb sl sk sv sr) s1 Hlk Hown Hr1 ltac:(apply Hsa) Hn1 Hf1) as (h2 & Es & Hpost & Hn2 & Hf2).
    exists h2, s1, (new_root qp root (root_ptr s1)). split; [|split; [exact He|split; [exact Hpost|split; [exact Hsa|split; [exact Hn2|exact Hf2]]]]].
    destruct (cb =? 0); cbn [negb].
    + destruct (G.rotate h c (Some sa)) as [[h0 r7]|]; [|discriminate]. destruct (store h0 r7 (G.Node_with_b (- c))) as [h3|]; [|discriminate].
      injection Ex as -> ->. rewrite Es. reflexivity.
    + destruct (cb =? c); rewrite Ex, Es; reflexivity.
Qed.
Print Assumptions removeFix_correct.

(* ---------- removeMin ---------- *)
(* OBLIGATION *)
Theorem removeMin_correct : forall s h root qp pp m fuel t' mk mv fx,
  rep h pp s -> NoDup (addrs s) -> link_ok h root qp pp (root_ptr s) ->
  (forall a, link_owner qp = Some a -> ~ In a (addrs s)) ->
  ~ In m (addrs s) -> hread h m <> None ->
  AVL.removeMin (erase s) = Some (t', mk, mv, fx) -> (AVL.height (erase s) <= fuel)%nat ->
  exists h' s' root', G.removeMin fuel h root qp m m = Some (h', root', fx) /\ erase s' = t' /\
    root' = new_root qp root (root_ptr s') /\ rep h' pp s' /\ NoDup (addrs s') /\
    (forall x, In x (addrs s') -> In x (addrs s)) /\ hnext h' = hnext h /\
    (forall z, ~ In z (addrs s) -> hread h' z = option_map (fun nd => slotupd qp (root_ptr s') z (kvupd m mk mv z nd)) (hread h z)).
Proof.
  induction s as [|qa b l IHl k v r _]; intros h root qp pp m fuel t' mk mv fx Hrep Hnd Hlk Hown Hm Hmr Hmod Hf; [discriminate|].
  destruct fuel as [|fuel]; [simpl in Hf; lia|]. cbn [erase AVL.height] in Hf.
  pose proof (link_get_ok _ _ _ _ _ Hlk) as Hget. cbn [root_ptr] in Hget, Hlk.
  destruct (rep_PT_inv _ _ _ _ _ _ _ _ Hrep) as (Hq & Hl & Hr).
  destruct (hread h m) as [ndm|] eqn:Hmm; [clear Hmr|congruence].
  pose proof Hnd as Hnd0. nd_facts Hnd. pose proof Hm as Hm0. nd_facts Hm.
  cbn [G.removeMin]. rewrite Hget. csim.
  destruct l as [|la lb ll lk lv lr].
  - (* the minimum: copy key and value out, unlink *)
    cbn [erase AVL.removeMin] in Hmod. injection Hmod as <- <- <- <-. csim.
    destruct r as [|ra rb rl rk rv rr].
    + csim. set (h3 := hset _ m _).
      assert (Hfr3 : forall z, ~ In z (addrs (PT qa b PE k v PE)) -> hread h3 z = option_map (kvupd m k v z) (hread h z)).
      { intros z Hz. subst h3. unfold kvupd. rewrite !hread_hset. destruct (Nat.eqb z m) eqn:E; [apply Nat.eqb_eq in E; subst; rewrite Hmm; reflexivity|destruct (hread h z); reflexivity]. }
      destruct (link_store_eff h h3 root qp pp (PT qa b PE k v PE) None (kvupd m k v) Hlk Hown (kvupd_children m k v) Hfr3) as (h4 & Es & Hn4 & Hf4 & He4).
      rewrite Es. exists h4, PE, (new_root qp root None). split; [reflexivity|]. split; [reflexivity|]. split; [reflexivity|]. split; [exact I|].
      split; [constructor|]. split; [intros x []|]. split; [rewrite Hn4; reflexivity|exact He4].
    + destruct (rep_PT_inv _ _ _ _ _ _ _ _ Hr) as (Hra & Hrl & Hrr).
      pose proof Hnd0 as Hnd1. nd_facts Hnd1. pose proof Hm0 as Hm1. nd_facts Hm1. csim. set (h3 := hset _ ra _).
      assert (Hfr3 : forall z, ~ In z (addrs (PT qa b PE k v (PT ra rb rl rk rv rr))) -> hread h3 z = option_map (kvupd m k v z) (hread h z)).
      { intros z Hz. nd_facts Hz. subst h3. unfold kvupd. rewrite hread_hset. eqb_simpl. rewrite !hread_hset.
        destruct (Nat.eqb z m) eqn:E; [apply Nat.eqb_eq in E; subst; rewrite Hmm; reflexivity|destruct (hread h z); reflexivity]. }
      destruct (link_store_eff h h3 root qp pp (PT qa b PE k v (PT ra rb rl rk rv rr)) (Some ra) (kvupd m k v) Hlk Hown (kvupd_children m k v) Hfr3) as (h4 & Es & Hn4 & Hf4 & He4).
      rewrite Es. exists h4, (PT ra rb rl rk rv rr), (new_root qp root (Some ra)). split; [reflexivity|]. split; [reflexivity|]. split; [reflexivity|].
      split; [|split; [autorewrite with nd; repeat split; assumption|split; [intros x Hx; cbn [addrs app]; right; exact Hx|split; [rewrite Hn4; reflexivity|exact He4]]]].
      assert (Hown' : forall z, In z (addrs (PT ra rb rl rk rv rr)) -> link_owner qp <> Some z).
      { intros z Hz E. apply (Hown _ E). cbn [addrs app]. right. exact Hz. }
      apply rep_PT_intro.
      * rewrite Hf4 by (apply Hown'; now left). subst h3. rewrite hread_hset, Nat.eqb_refl. reflexivity.
      * eapply rep_frame; [|exact Hrl]. intros x Hx. rewrite Hf4 by (apply Hown'; cbn [addrs]; right; apply in_or_app; now left).
        subst h3. repeat (rewrite hread_hset; eqb_simpl). reflexivity.
      * eapply rep_frame; [|exact Hrr]. intros x Hx. rewrite Hf4 by (apply Hown'; cbn [addrs]; right; apply in_or_app; now right).
        subst h3. repeat (rewrite hread_hset; eqb_simpl). reflexivity.
  - cbn [root_ptr is_nil]. unfold link_child. rewrite Hq. gproj. rewrite arr2_get_0.
    cbn [erase] in Hmod. rewrite AVLMap.removeMin_T in Hmod by discriminate.
    destruct (AVL.removeMin (AVL.T lb (erase ll) lk lv (erase lr))) as [[[[l1 mk0] mv0] fx0]|] eqn:Hml; [|discriminate].
    set (L := PT la lb ll lk lv lr) in *.
    assert (HlkL : link_ok h root (LChild qa 0) (Some qa) (root_ptr L)) by (split; [reflexivity|]; eexists; split; [exact Hq|reflexivity]).
    destruct (IHl h root (LChild qa 0) (Some qa) m fuel l1 mk0 mv0 fx0 Hl ltac:(assumption) HlkL) as (h1 & l' & root1 & Erun & Hel & Hroot1 & Hrep1 & Hnd1 & Hin1 & Hn1 & Hfr1);
      [intros a Ha; injection Ha as <-; assumption|assumption|congruence|exact Hml|cbn [erase AVL.height] in Hf |- *; lia|].
    rewrite Erun. cbn [new_root] in Hroot1. subst root1.
    assert (Hfr1' : forall z, ~ In z (addrs (PT qa b L k v r)) -> hread h1 z = option_map (kvupd m mk0 mv0 z) (hread h z)).
    { intros z Hz. nd_facts Hz. rewrite Hfr1 by assumption. cbn [slotupd]. rewrite (proj2 (Nat.eqb_neq z qa)) by congruence. reflexivity. }
    assert (Hq1 : hread h1 qa = Some (node_of pp b l' k v r)).
    { rewrite Hfr1 by assumption. rewrite Hq. cbn [option_map slotupd]. rewrite Nat.eqb_refl, kvupd_other by assumption. reflexivity. }
    assert (Hr1 : rep h1 (Some qa) r).
    { eapply rep_frame; [|exact Hr]. intros x Hx. rewrite Hfr1 by nd_auto. cbn [slotupd].
      rewrite (proj2 (Nat.eqb_neq x qa)) by nd_auto. apply option_map_id'. intros nd. apply kvupd_other. nd_auto. }
    assert (HrepS1 : rep h1 pp (PT qa b l' k v r)) by (apply rep_PT_intro; assumption).
    assert (HndS1 : NoDup (addrs (PT qa b l' k v r))).
    { autorewrite with nd. repeat split; try assumption.
      - intro Hx. apply Hin1 in Hx. contradiction.
      - intros x Hx1 Hx2. apply Hin1 in Hx1. nd_auto. }
    assert (HinS1 : forall x, In x (addrs (PT qa b l' k v r)) -> In x (addrs (PT qa b L k v r))).
    { intros x Hx. cbn [addrs In] in Hx |- *. rewrite in_app_iff in Hx |- *. destruct Hx as [->|[Hx|Hx]]; [tauto| |tauto]. apply Hin1 in Hx. tauto. }
    assert (Hlk1 : link_ok h1 root qp pp (Some qa)).
    { eapply link_ok_eff; [exact Hlk|exact (kvupd_children m mk0 mv0)|]. intros a Ha. apply Hfr1'. exact (Hown _ Ha). }
    assert (Hown1 : forall a, link_owner qp = Some a -> ~ In a (addrs (PT qa b l' k v r))).
    { intros a Ha Hx. apply (Hown _ Ha). now apply HinS1. }
    destruct fx0.
    + destruct (AVL.removeFix 1 (AVL.T b l1 k v (erase r))) as [[t2 f2]|] eqn:Hfix; [|discriminate]. injection Hmod as <- <- <- <-.
      destruct (removeFix_correct h1 root qp pp 1 (PT qa b l' k v r) t2 f2 ltac:(now left) HrepS1 HndS1 ltac:(discriminate) Hlk1 Hown1)
        as (h2 & s2 & root2 & Efix & He2 & (Hrt2 & Hrep2 & Hlk2 & Hup2) & Hsa2 & Hn2 & Hfr2); [cbn [erase]; rewrite Hel; exact Hfix|].
      rewrite Efix. exists h2, s2, root2. split; [reflexivity|]. split; [exact He2|]. split; [exact Hrt2|]. split; [exact Hrep2|].
      split; [apply Hsa2|]. split; [intros x Hx; apply HinS1; now apply Hsa2|]. split; [congruence|].
      intros z Hz. destruct qp as [|a i]; cbn [slotupd].
      * rewrite Hfr2; [apply Hfr1'; exact Hz| |discriminate]. intro Hx. apply Hz. now apply HinS1.
      * destruct (Nat.eqb z a) eqn:E.
        -- apply Nat.eqb_eq in E. subst z. cbn [owner_upd] in Hup2. destruct Hup2 as (nd1 & H1a & H2a). rewrite H2a.
           rewrite (Hfr1' a Hz) in H1a. destruct (hread h a) as [nd|]; [|discriminate]. cbn [option_map] in *. injection H1a as <-. reflexivity.
        -- apply Nat.eqb_neq in E. rewrite Hfr2; [apply Hfr1'; exact Hz| |cbn [link_owner]; congruence]. intro Hx. apply Hz. now apply HinS1.
    + injection Hmod as <- <- <- <-. exists h1, (PT qa b l' k v r), root. split; [reflexivity|]. split; [cbn [erase]; now rewrite Hel|].
      split; [cbn [root_ptr]; symmetry; eapply new_root_same; exact Hlk|]. split; [exact HrepS1|]. split; [exact HndS1|]. split; [exact HinS1|]. split; [exact Hn1|].
      intros z Hz. rewrite (Hfr1' z Hz). destruct qp as [|a i]; cbn [slotupd root_ptr]; [reflexivity|].
      destruct (Nat.eqb z a) eqn:E; [|reflexivity]. apply Nat.eqb_eq in E. subst z.
      cbn [link_ok] in Hlk. destruct Hlk as (_ & nd & Ha & Hg). rewrite Ha. cbn [option_map]. f_equal. symmetry. apply set_slot_same.
      rewrite kvupd_children. exact Hg.
Qed.
Print Assumptions removeMin_correct.

(* ---------- remove ---------- *)
(* OBLIGATION *)
Theorem remove_correct : forall mag key cmp pt h rt sz qp pp n fuel t' fx rem,
  heap_ok h -> rep h pp pt -> NoDup (addrs pt) -> link_ok h rt qp pp (root_ptr pt) ->
  (forall a, link_owner qp = Some a -> ~ In a (addrs pt)) ->
  AVL.remove cmp key (erase pt) = Some (t', fx, rem) -> (AVL.height (erase pt) < fuel)%nat ->
  exists h' pt' rt',
    G.remove mag fuel n h (G.mkTree rt cmp sz) key qp =
      Some ((n + AVL.remove_cost cmp key (erase pt))%nat, h', G.mkTree rt' cmp (sz - bump rem), fx) /\
    erase pt' = t' /\ remove_post h h' rt qp pp pt pt' rt'.
Proof.
  intros mag key cmp. induction pt as [|qa b l IHl k v r IHr]; intros h rt sz qp pp n fuel t' fx rem Hok Hrep Hnd Hlk Hown Hm Hf.
  - destruct fuel as [|fuel]; [simpl in Hf; lia|]. cbn [erase AVL.remove] in Hm. injection Hm as <- <- <-.
    pose proof (link_get_ok _ _ _ _ _ Hlk) as Hget. cbn [root_ptr] in Hget.
    cbn [G.remove]. cbn [G.Tree_Root]. rewrite Hget. cbn [is_nil].
    destruct (link_keep h h rt qp pp None Hlk ltac:(reflexivity)) as (K1 & K2 & K3).
    exists h, PE, rt. split; [cbn [erase AVL.remove_cost AVL.lookup_cost bump]; rewrite Nat.add_0_r, Z.sub_0_r; reflexivity|]. split; [reflexivity|].
    split; [split; [cbn [root_ptr]; now rewrite K1|split; [exact I|split; assumption]]|]. split; [constructor|]. split; [tauto|]. split; [reflexivity|reflexivity].
  - destruct fuel as [|fuel]; [simpl in Hf; lia|]. cbn [erase AVL.height] in Hf.
    pose proof (link_get_ok _ _ _ _ _ Hlk) as Hget. cbn [root_ptr] in Hget, Hlk.
    destruct (rep_PT_inv _ _ _ _ _ _ _ _ Hrep) as (Hq & Hl & Hr).
    cbn [erase AVL.remove AVL.remove_cost AVL.lookup_cost] in Hm |- *.
    cbn [G.remove]. cbn [G.Tree_Root G.Tree_Comparator G.Tree_size G.Tree_set_size G.Tree_set_Root]. rewrite Hget. cbn [is_nil].
    change (deref h (Some qa)) with (hread h qa). rewrite Hq. cbn [node_of G.Node_Key].
    destruct (cmp key k) eqn:E.
    + (* found *)
      rewrite (call_cmp_Eq mag _ _ _ E). rewrite Nat.add_1_r. csim.
      destruct r as [|ra rb rl rk rv rr].
      * (* no right subtree: the left subtree takes the place *)
        cbn [erase] in Hm. injection Hm as <- <- <-. csim.
        assert (H1 : exists h1, (if negb (is_nil (root_ptr l)) then (do h0 <- store h (root_ptr l) (G.Node_with_Parent pp); Some h0) else Some h) = Some h1 /\
                       rep h1 pp l /\ hnext h1 = hnext h /\ hread h1 qa = hread h qa /\ (forall z, ~ In z (addrs (PT qa b l k v PE)) -> hread h1 z = hread h z)).
        { destruct l as [|la lb ll lk lv lr].
          - exists h. cbn [root_ptr is_nil negb]. repeat split; auto.
          - destruct (rep_PT_inv _ _ _ _ _ _ _ _ Hl) as (Hla & Hll & Hlr). pose proof Hnd as Hnd0. nd_facts Hnd. cbn [root_ptr is_nil negb]. csim.
            eexists. split; [reflexivity|]. split; [rep_tac|]. split; [reflexivity|]. split; [rewrite hread_hset; eqb_simpl; first [reflexivity|exact Hq]|].
            intros z Hz. nd_facts Hz. rewrite hread_hset. eqb_simpl. reflexivity. }
        destruct H1 as (h1 & E1 & Hrep1 & Hn1 & Hq1 & Hfr1). rewrite E1.
        change (deref h1 (Some qa)) with (hread h1 qa). rewrite Hq1, Hq. gproj. rewrite arr2_get_0.
        destruct (store_through_link h h1 rt qp pp (PT qa b l k v PE) l Hlk Hown Hrep1) as (h2 & Es & Hpost & Hn2 & Hf2);
          [intros x Hx; cbn [addrs]; right; apply in_or_app; now left|exact Hn1|exact Hfr1|].
        rewrite Es. exists h2, l, (new_root qp rt (root_ptr l)). split; [reflexivity|]. split; [reflexivity|].
        split; [exact Hpost|]. split; [nd_facts Hnd; assumption|]. split; [intros x Hx; cbn [addrs]; right; apply in_or_app; now left|]. split; [exact Hn2|exact Hf2].
      * (* the minimum of the right subtree replaces the node *)
        set (R := PT ra rb rl rk rv rr) in *. cbn [root_ptr is_nil] in *. subst R. cbn [root_ptr is_nil]. set (R := PT ra rb rl rk rv rr) in *.
        unfold link_child, field_addr. cbn [deref]. rewrite Hq. gproj. rewrite arr2_get_1.
        assert (HmR : exists r1 mk mv fx0, AVL.removeMin (erase R) = Some (r1, mk, mv, fx0)).
        { subst R. cbn [erase] in Hm |- *. destruct (AVL.removeMin (AVL.T rb (erase rl) rk rv (erase rr))) as [[[[r1 mk] mv] fx0]|]; [eauto|discriminate]. }
        destruct HmR as (r1 & mk & mv & fx0 & HmR).
        assert (Hm' : (if fx0 then match AVL.removeFix (-1) (AVL.T b (erase l) mk mv r1) with Some (t2, f) => Some (t2, f, true) | None => None end
                       else Some (AVL.T b (erase l) mk mv r1, false, true)) = Some (t', fx, rem)).
        { subst R. cbn [erase] in Hm, HmR. rewrite HmR in Hm. exact Hm. }
        clear Hm. pose proof Hnd as Hnd0. nd_facts Hnd.
        assert (HlkR : link_ok h rt (LChild qa 1) (Some qa) (root_ptr R)) by (split; [reflexivity|]; eexists; split; [exact Hq|reflexivity]).
        destruct (removeMin_correct R h rt (LChild qa 1) (Some qa) qa (S fuel) r1 mk mv fx0 Hr ltac:(assumption) HlkR)
          as (h1 & r' & root1 & Erun & Her & Hroot1 & Hrep1 & Hnd1 & Hin1 & Hn1 & Hfr1);
          [intros a Ha; injection Ha as <-; assumption|assumption|congruence|exact HmR|lia|].
        rewrite Erun. cbn [new_root] in Hroot1. subst root1.
        assert (Hq1 : hread h1 qa = Some (node_of pp b l mk mv r')).
        { rewrite Hfr1 by assumption. rewrite Hq. cbn [option_map slotupd]. unfold kvupd. rewrite Nat.eqb_refl. reflexivity. }
        assert (Hfr1' : forall z, ~ In z (addrs (PT qa b l k v R)) -> hread h1 z = hread h z).
        { intros z Hz. nd_facts Hz. rewrite Hfr1 by assumption. cbn [slotupd]. rewrite (proj2 (Nat.eqb_neq z qa)) by congruence.
          apply option_map_id'. intros nd. apply kvupd_other. congruence. }
        assert (Hl1 : rep h1 (Some qa) l).
        { eapply rep_frame; [|exact Hl]. intros x Hx. rewrite Hfr1 by nd_auto. cbn [slotupd].
          rewrite (proj2 (Nat.eqb_neq x qa)) by nd_auto. apply option_map_id'. intros nd. apply kvupd_other. nd_auto. }
        assert (HrepS1 : rep h1 pp (PT qa b l mk mv r')) by (apply rep_PT_intro; assumption).
        assert (HndS1 : NoDup (addrs (PT qa b l mk mv r'))).
        { autorewrite with nd. repeat split; try assumption.
          - intro Hx. apply Hin1 in Hx. contradiction.
          - intros x Hx1 Hx2. apply Hin1 in Hx2. nd_auto. }
        assert (HinS1 : forall x, In x (addrs (PT qa b l mk mv r')) -> In x (addrs (PT qa b l k v R))).
        { intros x Hx. cbn [addrs In] in Hx |- *. rewrite in_app_iff in Hx |- *. destruct Hx as [->|[Hx|Hx]]; [tauto|tauto|]. apply Hin1 in Hx. tauto. }
        assert (Hlk1 : link_ok h1 rt qp pp (Some qa)).
        { eapply link_ok_frame; [exact Hlk|]. intros a Ha. apply Hfr1'. exact (Hown _ Ha). }
        assert (Hown1 : forall a, link_owner qp = Some a -> ~ In a (addrs (PT qa b l mk mv r'))).
        { intros a Ha Hx. apply (Hown _ Ha). now apply HinS1. }
        cbn [G.Tree_Root G.Tree_set_Root G.Tree_Comparator G.Tree_size].
        destruct fx0.
        -- destruct (AVL.removeFix (-1) (AVL.T b (erase l) mk mv r1)) as [[t2 f2]|] eqn:Hfix; [|discriminate]. injection Hm' as <- <- <-.
           destruct (removeFix_correct h1 rt qp pp (-1) (PT qa b l mk mv r') t2 f2 ltac:(now right) HrepS1 HndS1 ltac:(discriminate) Hlk1 Hown1)
             as (h2 & s2 & root2 & Efix & He2 & (Hrt2 & Hrep2 & Hlk2 & Hup2) & Hsa2 & Hn2 & Hfr2); [cbn [erase]; rewrite Her; exact Hfix|].
           rewrite Efix. exists h2, s2, root2. split; [reflexivity|]. split; [exact He2|].
           split; [split; [exact Hrt2|split; [exact Hrep2|split; [exact Hlk2|]]]|split; [apply Hsa2|split; [|split; [congruence|]]]].
           ++ eapply owner_upd_frame; [exact Hup2|]. intros a Ha. apply Hfr1'. exact (Hown _ Ha).
           ++ intros x Hx. apply HinS1. now apply Hsa2.
           ++ intros z Hz Hzo. rewrite Hfr2; [apply Hfr1'; exact Hz| |exact Hzo]. intro Hx. apply Hz. now apply HinS1.
        -- injection Hm' as <- <- <-.
           destruct (link_keep h h1 rt qp pp (Some qa) Hlk) as (K1 & K2 & K3); [intros a Ha; apply Hfr1'; exact (Hown _ Ha)|].
           exists h1, (PT qa b l mk mv r'), rt. split; [reflexivity|]. split; [cbn [erase]; now rewrite Her|].
           split; [split; [cbn [root_ptr]; now rewrite K1|split; [exact HrepS1|split; assumption]]|split; [exact HndS1|split; [exact HinS1|split; [exact Hn1|]]]].
           intros z Hz _. apply Hfr1'. exact Hz.
    + destruct (call_cmp_Lt mag _ _ _ E) as (E0 & E1 & E2). rewrite E0, E1. csim. unfold link_child. rewrite Hq. gproj. rewrite arr2_get_0.
      destruct (AVL.remove cmp key (erase l)) as [[[l1 fx0] rem0]|] eqn:Hpl; [|discriminate].
      pose proof Hnd as Hnd0. nd_facts Hnd.
      assert (HlkL : link_ok h rt (LChild qa 0) (Some qa) (root_ptr l)).
      { split; [reflexivity|]. eexists. split; [exact Hq|]. reflexivity. }
      destruct (IHl h rt sz (LChild qa 0) (Some qa) (S n) fuel l1 fx0 rem0 Hok Hl ltac:(assumption) HlkL) as (h1 & l' & rt1 & Erun & Hel & Hpost);
        [intros a Ha; injection Ha as <-; assumption|reflexivity|lia|].
      rewrite Erun. cbn [G.Tree_Root G.Tree_set_Root G.Tree_Comparator G.Tree_size].
      destruct (remove_step h h1 rt qp pp qa b l k v r 0 l l' rt1 ltac:(now left) eq_refl Hok Hrep Hnd0 Hlk Hown Hpost)
        as (-> & Hrep1 & Hnd1 & Hlk1 & Hown1 & Hin1 & Hup1 & Hnr & Hfr1 & Hok1). cbn [Z.eqb Pos.eqb] in Hrep1, Hnd1, Hown1, Hin1.
      destruct Hpost as (_ & _ & _ & Hn1 & _).
      rewrite <- Nat.add_succ_comm.
      destruct fx0.
      * destruct (AVL.removeFix 1 (AVL.T b l1 k v (erase r))) as [[t2 f2]|] eqn:Hfix; [|discriminate]. injection Hm as <- <- <-.
        rewrite ?to_int8_m1, ?to_int8_1.
        destruct (removeFix_correct h1 rt qp pp 1 (PT qa b l' k v r) t2 f2 ltac:(now left) Hrep1 Hnd1 ltac:(discriminate) Hlk1 Hown1)
          as (h2 & s2 & rt2 & Efix & He2 & (Hrt2 & Hrep2 & Hlk2 & Hup2) & Hsa2 & Hn2 & Hfr2); [cbn [erase]; rewrite Hel; exact Hfix|].
        rewrite Efix. exists h2, s2, rt2. split; [reflexivity|]. split; [exact He2|].
        split; [split; [exact Hrt2|split; [exact Hrep2|split; [exact Hlk2|]]]|split; [apply Hsa2|split; [|split; [congruence|]]]].
        -- eapply owner_upd_frame; [exact Hup2|]. intros a Ha. apply Hfr1. exact (Hown _ Ha).
        -- intros x Hx. apply Hin1. now apply Hsa2.
        -- intros z Hz Hzo. rewrite Hfr2; [apply Hfr1; assumption| |exact Hzo]. intro Hx. apply Hz. now apply Hin1.
      * injection Hm as <- <- <-. exists h1, (PT qa b l' k v r), rt. split; [reflexivity|]. split; [cbn [erase]; now rewrite Hel|].
        split; [split; [cbn [root_ptr]; now rewrite Hnr|split; [exact Hrep1|split; [exact Hlk1|exact Hup1]]]|split; [exact Hnd1|split; [exact Hin1|split; [exact Hn1|]]]].
        intros z Hz _. apply Hfr1; assumption.
    + destruct (call_cmp_Gt mag _ _ _ E) as (E0 & E1 & E2). rewrite E0, E1. csim. unfold link_child. rewrite Hq. gproj. rewrite arr2_get_1.
      destruct (AVL.remove cmp key (erase r)) as [[[l1 fx0] rem0]|] eqn:Hpl; [|discriminate].
      pose proof Hnd as Hnd0. nd_facts Hnd.
      assert (HlkL : link_ok h rt (LChild qa 1) (Some qa) (root_ptr r)).
      { split; [reflexivity|]. eexists. split; [exact Hq|]. reflexivity. }
      destruct (IHr h rt sz (LChild qa 1) (Some qa) (S n) fuel l1 fx0 rem0 Hok Hr ltac:(assumption) HlkL) as (h1 & r' & rt1 & Erun & Hel & Hpost);
        [intros a Ha; injection Ha as <-; assumption|reflexivity|lia|].
      rewrite Erun. cbn [G.Tree_Root G.Tree_set_Root G.Tree_Comparator G.Tree_size].
      destruct (remove_step h h1 rt qp pp qa b l k v r 1 r r' rt1 ltac:(now right) eq_refl Hok Hrep Hnd0 Hlk Hown Hpost)
        as (-> & Hrep1 & Hnd1 & Hlk1 & Hown1 & Hin1 & Hup1 & Hnr & Hfr1 & Hok1). cbn [Z.eqb Pos.eqb] in Hrep1, Hnd1, Hown1, Hin1.
      destruct Hpost as (_ & _ & _ & Hn1 & _).
      rewrite <- Nat.add_succ_comm.
      destruct fx0.
      * destruct (AVL.removeFix (-1) (AVL.T b (erase l) k v l1)) as [[t2 f2]|] eqn:Hfix; [|discriminate]. injection Hm as <- <- <-.
        rewrite ?to_int8_m1, ?to_int8_1.
        destruct (removeFix_correct h1 rt qp pp (-1) (PT qa b l k v r') t2 f2 ltac:(now right) Hrep1 Hnd1 ltac:(discriminate) Hlk1 Hown1)
          as (h2 & s2 & rt2 & Efix & He2 & (Hrt2 & Hrep2 & Hlk2 & Hup2) & Hsa2 & Hn2 & Hfr2); [cbn [erase]; rewrite Hel; exact Hfix|].
        rewrite Efix. exists h2, s2, rt2. split; [reflexivity|]. split; [exact He2|].
        split; [split; [exact Hrt2|split; [exact Hrep2|split; [exact Hlk2|]]]|split; [apply Hsa2|split; [|split; [congruence|]]]].
        -- eapply owner_upd_frame; [exact Hup2|]. intros a Ha. apply Hfr1. exact (Hown _ Ha).
        -- intros x Hx. apply Hin1. now apply Hsa2.
        -- intros z Hz Hzo. rewrite Hfr2; [apply Hfr1; assumption| |exact Hzo]. intro Hx. apply Hz. now apply Hin1.
      * injection Hm as <- <- <-. exists h1, (PT qa b l k v r'), rt. split; [reflexivity|]. split; [cbn [erase]; now rewrite Hel|].
        split; [split; [cbn [root_ptr]; now rewrite Hnr|split; [exact Hrep1|split; [exact Hlk1|exact Hup1]]]|split; [exact Hnd1|split; [exact Hin1|split; [exact Hn1|]]]].
        intros z Hz _. apply Hfr1; assumption.
Qed.
Print Assumptions remove_correct.

(* ---------- Remove ---------- *)
(* OBLIGATION *)
Theorem Remove_correct : forall mag h tr t key n fuel t' fx rem,
  heap_ok h -> tree_repr h tr t -> AVL.remove (G.Tree_Comparator tr) key t = Some (t', fx, rem) ->
  (AVL.height t < fuel)%nat ->
  exists h' tr', G.Remove mag fuel n h tr key = Some ((n + AVL.remove_cost (G.Tree_Comparator tr) key t)%nat, h', tr') /\
    tree_repr h' tr' t' /\ heap_ok h' /\ G.Tree_Comparator tr' = G.Tree_Comparator tr /\
    G.Tree_size tr' = G.Tree_size tr - (if rem then 1 else 0) /\ hnext h' = hnext h.
Proof.
  intros mag h [rt cmp sz] t key n fuel t' fx rem Hok (pt & <- & Hroot & Hrep & Hnd) Hm Hf.
  cbn [G.Tree_Root G.Tree_Comparator G.Tree_size] in *.
  assert (Hlk : link_ok h rt LRoot None (root_ptr pt)) by (split; [reflexivity|now symmetry]).
  destruct (remove_correct mag key cmp pt h rt sz LRoot None n fuel t' fx rem Hok Hrep Hnd Hlk) as (h' & pt' & rt' & Erun & He & ((Hrt & Hrep' & _ & _) & Hnd' & _ & Hn & Hfr));
    [discriminate|exact Hm|exact Hf|].
  unfold G.Remove. rewrite Erun. exists h', (G.mkTree rt' cmp (sz - bump rem)). split; [reflexivity|].
  cbn [new_root] in Hrt. split; [exists pt'; cbn [G.Tree_Root]; auto|]. split; [|repeat split; auto].
  eapply heap_ok_post; [exact Hok|exact Hrep|exact Hlk|exact Hn|exact Hfr].
Qed.
Print Assumptions Remove_correct.

(* ---------- runs of Put / Remove from NewWith ---------- *)

Lemma removeFix_count : forall c s t' f, AVL.removeFix c s = Some (t', f) -> AVL.count t' = AVL.count s.
Proof. intros c s t' f H. rewrite !AVLMap.count_inorder. f_equal. eapply AVLMap.removeFix_inorder; eauto. Qed.
Lemma removeMin_count : forall t t' mk mv fx, AVL.removeMin t = Some (t', mk, mv, fx) -> AVL.count t = S (AVL.count t').
Proof. intros t t' mk mv fx H. rewrite !AVLMap.count_inorder. rewrite (AVLMap.removeMin_inorder _ _ _ _ _ H). reflexivity. Qed.

Lemma remove_count : forall cmp key t t' fx rem, AVL.remove cmp key t = Some (t', fx, rem) ->
  AVL.count t = (AVL.count t' + (if rem then 1 else 0))%nat.
Proof.
  intros cmp key. induction t as [|b l IHl k v r IHr]; intros t' fx rem H.
  - cbn in H. injection H as <- <- <-. reflexivity.
  - cbn [AVL.remove] in H. destruct (cmp key k).
    + destruct r as [|rb rl rk rv rr]; [injection H as <- <- <-; cbn [AVL.count]; lia|].
      destruct (AVL.removeMin (AVL.T rb rl rk rv rr)) as [[[[r' mk] mv] fx0]|] eqn:Hr; [|discriminate].
      pose proof (removeMin_count _ _ _ _ _ Hr) as Hc. destruct fx0.
      * destruct (AVL.removeFix (-1) (AVL.T b l mk mv r')) as [[t2 f2]|] eqn:Hfix; [|discriminate]. injection H as <- <- <-.
        rewrite (removeFix_count _ _ _ _ Hfix). cbn [AVL.count] in *. lia.
      * injection H as <- <- <-. cbn [AVL.count] in *. lia.
    + destruct (AVL.remove cmp key l) as [[[l' fx0] rem0]|] eqn:Hp; [|discriminate]. specialize (IHl _ _ _ eq_refl). destruct fx0.
      * destruct (AVL.removeFix 1 (AVL.T b l' k v r)) as [[t2 f2]|] eqn:Hfix; [|discriminate]. injection H as <- <- <-.
        rewrite (removeFix_count _ _ _ _ Hfix). cbn [AVL.count]. lia.
      * injection H as <- <- <-. cbn [AVL.count]. lia.
    + destruct (AVL.remove cmp key r) as [[[r' fx0] rem0]|] eqn:Hp; [|discriminate]. specialize (IHr _ _ _ eq_refl). destruct fx0.
      * destruct (AVL.removeFix (-1) (AVL.T b l k v r')) as [[t2 f2]|] eqn:Hfix; [|discriminate]. injection H as <- <- <-.
        rewrite (removeFix_count _ _ _ _ Hfix). cbn [AVL.count]. lia.
      * injection H as <- <- <-. cbn [AVL.count]. lia.
Qed.

