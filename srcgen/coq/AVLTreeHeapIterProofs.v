(* Node.Next / Node.Prev (walk1) of trees/avltree/avltree.go and trees/avltree/iterator.go in TREE POINTER MODE
   (GodsGen.AVLTreeHeapGen): on a represented tree (AVLTreeHeapRep.v: rep h None pt, distinct addresses) the GENERATED
   walk1 -- the descent along Children[a^1] and the climb along the PARENT pointers with `p.Children[a] == n` -- moves
   exactly like the model's AVL.node_next / AVL.node_prev (Model/AVLTree.v), and the iterator's Next / Prev like
   AVL.inext / AVL.iprev; Key / Value read AVL.ikv.  With Proofs/IterTreeAVL.v: Next moves to the in-order successor.
   Never None with fuel S (AVL.height t). *)
From Coq Require Import ZArith List Lia Bool Arith ZifyBool ZifyNat.
From Gods Require Import Common.Cmp Model.AVLTree Proofs.IterTreeRB Proofs.IterTreeAVL.
From GodsGenProofs Require Import GoCmp GoTreeHeap AVLTreeHeapRep.
From GodsGen Require AVLTreeHeapGen.
Import ListNotations.
Local Open Scope Z_scope.

Module AI := IterTreeAVL.AVLIter.

Lemma node_of_inj_parent : forall pp pp' b l k v r, node_of pp b l k v r = node_of pp' b l k v r -> pp = pp'.
Proof. intros. unfold node_of in H. congruence. Qed.

(* a pointer against an optional path *)
Definition at_path (pt : ptree) (q : ptr) (o : option (list AVL.side)) : Prop :=
  match o with
  | Some p => exists s, psub pt p = Some s /\ q = root_ptr s
  | None => q = None
  end.

(* ---------- descents ---------- *)
(* walk1(1): leftmost of the right subtree: the loop follows Children[1^1] = Children[0] *)
Lemma walk1_loop1_left : forall h s pp fuel, rep h pp s -> s <> PE -> (AVL.height (erase s) <= fuel)%nat ->
  exists s', psub s (AVL.leftmost_path (erase s)) = Some s' /\
             G.walk1_loop1 fuel h (root_ptr s) 1 = Some (root_ptr s').
Proof.
  intros h. induction s as [|a c l IHl k v r _]; intros pp fuel Hrep Hne Hf; [congruence|].
  pose proof (rep_root_deref _ _ _ _ _ _ _ _ Hrep) as Hd. simpl in Hrep. destruct Hrep as (_ & Hl & _).
  cbn [erase]. rewrite AI.leftmost_path_T. destruct l as [|la lc ll lk lv lr].
  - exists (PT a c PE k v r). split; [reflexivity|].
    destruct fuel; cbn [G.walk1_loop1 root_ptr]; rewrite Hd; reflexivity.
  - destruct fuel as [|fuel]; [cbn [erase AVL.height] in Hf; lia|].
    destruct (IHl (Some a) fuel Hl ltac:(discriminate) ltac:(cbn [erase AVL.height] in *; lia)) as (s' & Hs' & Hrun).
    exists s'. split; [exact Hs'|].
    cbn [G.walk1_loop1 root_ptr]. rewrite Hd. cbn [node_of G.Node_Children]. change (Z.lxor 1 1) with 0. rewrite arr2_get_0.
    cbn [root_ptr is_nil negb]. exact Hrun.
Qed.
Lemma walk1_loop1_right : forall h s pp fuel, rep h pp s -> s <> PE -> (AVL.height (erase s) <= fuel)%nat ->
  exists s', psub s (AVL.rightmost_path (erase s)) = Some s' /\
             G.walk1_loop1 fuel h (root_ptr s) 0 = Some (root_ptr s').
Proof.
  intros h. induction s as [|a c l _ k v r IHr]; intros pp fuel Hrep Hne Hf; [congruence|].
  pose proof (rep_root_deref _ _ _ _ _ _ _ _ Hrep) as Hd. simpl in Hrep. destruct Hrep as (_ & _ & Hr).
  cbn [erase]. rewrite AI.rightmost_path_T. destruct r as [|ra rc rl rk rv rr].
  - exists (PT a c l k v PE). split; [reflexivity|].
    destruct fuel; cbn [G.walk1_loop1 root_ptr]; rewrite Hd; reflexivity.
  - destruct fuel as [|fuel]; [cbn [erase AVL.height] in Hf; lia|].
    destruct (IHr (Some a) fuel Hr ltac:(discriminate) ltac:(cbn [erase AVL.height] in *; lia)) as (s' & Hs' & Hrun).
    exists s'. split; [exact Hs'|].
    cbn [G.walk1_loop1 root_ptr]. rewrite Hd. cbn [node_of G.Node_Children]. change (Z.lxor 0 1) with 1. rewrite arr2_get_1.
    cbn [root_ptr is_nil negb]. exact Hrun.
Qed.

(* ---------- the climbs ---------- *)
Lemma walk1_loop2_next : forall h pt, rep h None pt -> NoDup (addrs pt) ->
  forall rp s pps fuel, psub pt (rev rp) = Some s -> rep h pps s -> (length rp < fuel)%nat ->
  exists n' q, G.walk1_loop2 fuel h (root_ptr s) 1 pps = Some (n', q) /\ at_path pt q (AVL.climb_next rp).
Proof.
  intros h pt Hrep Hnd. induction rp as [|d rest IH]; intros s pps fuel Hs Hrs Hf.
  - cbn [rev] in Hs. pose proof (rep_psub_root _ _ _ Hrep Hs) as Hr. destruct s as [|a c l k v r]; [exfalso; eapply psub_not_PE; eauto|].
    simpl in Hr, Hrs. destruct Hr as (Hr & _). destruct Hrs as (Hrs & _). rewrite Hr in Hrs. injection Hrs as E; subst pps.
    eexists _, _. split; [destruct fuel; reflexivity|reflexivity].
  - cbn [rev] in Hs. destruct (psub_snoc _ _ _ _ Hs) as (b & cb & lb & kb & vb & rb & Hsp & -> & Hne).
    destruct (rep_psub _ _ _ _ _ Hrep Hsp) as (ppb & Hrb0).
    pose proof (rep_root_deref _ _ _ _ _ _ _ _ Hrb0) as Hdb. pose proof Hrb0 as Hrb1. simpl in Hrb1. destruct Hrb1 as (_ & Hlb & Hrb).
    pose proof (psub_nodup _ _ _ Hnd Hsp) as Hndb.
    destruct fuel as [|fuel]; [cbn [length] in Hf; lia|]. cbn [length] in Hf.
    destruct d; cbn [pchild] in *.
    + destruct lb as [|a c l k v r]; [congruence|].
      simpl in Hlb, Hrs. destruct Hlb as (Hlb & _). destruct Hrs as (Hrs & _). rewrite Hlb in Hrs. injection Hrs as E; subst pps.
      assert (Hneq : ptr_eqb (root_ptr rb) (Some a) = false).
      { apply ptr_eqb_neq. eapply siblings_differ'; [exact Hndb|reflexivity]. }
      eexists _, _. split.
      * cbn [G.walk1_loop2 is_nil negb root_ptr]. rewrite Hdb. cbn [node_of G.Node_Children]. rewrite arr2_get_1. rewrite Hneq. reflexivity.
      * cbn [AVL.climb_next at_path]. eexists. split; [exact Hsp|reflexivity].
    + destruct rb as [|a c l k v r]; [congruence|].
      simpl in Hrb, Hrs. destruct Hrb as (Hrb & _). destruct Hrs as (Hrs & _). rewrite Hrb in Hrs. injection Hrs as E; subst pps.
      destruct (IH (PT b cb lb kb vb (PT a c l k v r)) ppb fuel Hsp Hrb0 ltac:(lia)) as (n' & q & Hrun & Hres).
      exists n', q. split; [|exact Hres].
      cbn [G.walk1_loop2 is_nil negb root_ptr]. rewrite Hdb. cbn [node_of G.Node_Children G.Node_Parent]. rewrite arr2_get_1. cbn [root_ptr]. rewrite ptr_eqb_refl.
      exact Hrun.
Qed.

Lemma walk1_loop2_prev : forall h pt, rep h None pt -> NoDup (addrs pt) ->
  forall rp s pps fuel, psub pt (rev rp) = Some s -> rep h pps s -> (length rp < fuel)%nat ->
  exists n' q, G.walk1_loop2 fuel h (root_ptr s) 0 pps = Some (n', q) /\ at_path pt q (AVL.climb_prev rp).
Proof.
  intros h pt Hrep Hnd. induction rp as [|d rest IH]; intros s pps fuel Hs Hrs Hf.
  - cbn [rev] in Hs. pose proof (rep_psub_root _ _ _ Hrep Hs) as Hr. destruct s as [|a c l k v r]; [exfalso; eapply psub_not_PE; eauto|].
    simpl in Hr, Hrs. destruct Hr as (Hr & _). destruct Hrs as (Hrs & _). rewrite Hr in Hrs. injection Hrs as E; subst pps.
    eexists _, _. split; [destruct fuel; reflexivity|reflexivity].
  - cbn [rev] in Hs. destruct (psub_snoc _ _ _ _ Hs) as (b & cb & lb & kb & vb & rb & Hsp & -> & Hne).
    destruct (rep_psub _ _ _ _ _ Hrep Hsp) as (ppb & Hrb0).
    pose proof (rep_root_deref _ _ _ _ _ _ _ _ Hrb0) as Hdb. pose proof Hrb0 as Hrb1. simpl in Hrb1. destruct Hrb1 as (_ & Hlb & Hrb).
    pose proof (psub_nodup _ _ _ Hnd Hsp) as Hndb.
    destruct fuel as [|fuel]; [cbn [length] in Hf; lia|]. cbn [length] in Hf.
    destruct d; cbn [pchild] in *.
    + destruct lb as [|a c l k v r]; [congruence|].
      simpl in Hlb, Hrs. destruct Hlb as (Hlb & _). destruct Hrs as (Hrs & _). rewrite Hlb in Hrs. injection Hrs as E; subst pps.
      destruct (IH (PT b cb (PT a c l k v r) kb vb rb) ppb fuel Hsp Hrb0 ltac:(lia)) as (n' & q & Hrun & Hres).
      exists n', q. split; [|exact Hres].
      cbn [G.walk1_loop2 is_nil negb root_ptr]. rewrite Hdb. cbn [node_of G.Node_Children G.Node_Parent]. rewrite arr2_get_0. cbn [root_ptr]. rewrite ptr_eqb_refl.
      exact Hrun.
    + destruct rb as [|a c l k v r]; [congruence|].
      simpl in Hrb, Hrs. destruct Hrb as (Hrb & _). destruct Hrs as (Hrs & _). rewrite Hrb in Hrs. injection Hrs as E; subst pps.
      assert (Hneq : ptr_eqb (root_ptr lb) (Some a) = false).
      { apply ptr_eqb_neq. eapply siblings_differ; [exact Hndb|reflexivity]. }
      eexists _, _. split.
      * cbn [G.walk1_loop2 is_nil negb root_ptr]. rewrite Hdb. cbn [node_of G.Node_Children]. rewrite arr2_get_0. rewrite Hneq. reflexivity.
      * cbn [AVL.climb_prev at_path]. eexists. split; [exact Hsp|reflexivity].
Qed.

(* ---------- Node.Next / Node.Prev ---------- *)
(* OBLIGATION *)
Theorem Node_Next_Prev_correct : forall h pt p s fuel,
  rep h None pt -> NoDup (addrs pt) -> psub pt p = Some s -> (AVL.height (erase pt) < fuel)%nat ->
  (exists q, G.Node_Next fuel h (root_ptr s) = Some q /\ at_path pt q (AVL.node_next (erase pt) p)) /\
  (exists q, G.Node_Prev fuel h (root_ptr s) = Some q /\ at_path pt q (AVL.node_prev (erase pt) p)).
Proof.
  intros h pt p s fuel Hrep Hnd Hs Hf.
  destruct (rep_psub _ _ _ _ _ Hrep Hs) as (pps & Hrs).
  destruct s as [|a c l k v r]; [exfalso; eapply psub_not_PE; eauto|].
  pose proof (rep_root_deref _ _ _ _ _ _ _ _ Hrs) as Hd.
  pose proof (psub_height _ _ _ Hs) as Hh. cbn [erase AVL.height] in Hh.
  unfold G.Node_Next, G.Node_Prev, G.walk1, AVL.node_next, AVL.node_prev. rewrite psub_erase, Hs. cbn [option_map erase root_ptr is_nil].
  rewrite Hd. cbn [node_of G.Node_Children G.Node_Parent]. rewrite arr2_get_0, arr2_get_1. split.
  - destruct r as [|ra rc rl rk rv rr].
    + cbn [root_ptr is_nil negb erase].
      destruct (walk1_loop2_next h pt Hrep Hnd (rev p) (PT a c l k v PE) pps fuel ltac:(now rewrite rev_involutive) Hrs ltac:(rewrite rev_length; lia)) as (n' & q & Hrun & Hres).
      cbn [root_ptr] in Hrun. rewrite Hrun. exists q. split; [reflexivity|exact Hres].
    + pose proof Hrs as Hrs'. simpl in Hrs'. destruct Hrs' as (_ & _ & Hrr).
      cbn [root_ptr is_nil negb].
      destruct (walk1_loop1_left h (PT ra rc rl rk rv rr) (Some a) fuel Hrr ltac:(discriminate) ltac:(cbn [erase AVL.height] in *; lia)) as (s' & Hs' & Hrun).
      cbn [root_ptr] in Hrun. rewrite Hrun. eexists. split; [reflexivity|]. cbn [erase at_path].
      exists s'. split; [|reflexivity]. rewrite psub_app, Hs. cbn [psub pchild]. exact Hs'.
  - destruct l as [|la lc ll lk lv lr].
    + cbn [root_ptr is_nil negb erase].
      destruct (walk1_loop2_prev h pt Hrep Hnd (rev p) (PT a c PE k v r) pps fuel ltac:(now rewrite rev_involutive) Hrs ltac:(rewrite rev_length; lia)) as (n' & q & Hrun & Hres).
      cbn [root_ptr] in Hrun. rewrite Hrun. exists q. split; [reflexivity|exact Hres].
    + pose proof Hrs as Hrs'. simpl in Hrs'. destruct Hrs' as (_ & Hll & _).
      cbn [root_ptr is_nil negb].
      destruct (walk1_loop1_right h (PT la lc ll lk lv lr) (Some a) fuel Hll ltac:(discriminate) ltac:(cbn [erase AVL.height] in *; lia)) as (s' & Hs' & Hrun).
      cbn [root_ptr] in Hrun. rewrite Hrun. eexists. split; [reflexivity|]. cbn [erase at_path].
      exists s'. split; [|reflexivity]. rewrite psub_app, Hs. cbn [psub pchild]. exact Hs'.
Qed.
Print Assumptions Node_Next_Prev_correct.

(* ---------- bottom(d) by paths ---------- *)
Lemma bottom0_loop_path : forall (tr : G.Tree) h l a b k v r pp fuel,
  rep h pp (PT a b l k v r) -> (AVL.height (erase l) < fuel)%nat ->
  exists s', psub (PT a b l k v r) (AVL.leftmost_path (erase (PT a b l k v r))) = Some s' /\
             G.bottom_loop1 fuel h tr 0 (Some a) (root_ptr l) = Some (root_ptr s').
Proof.
  intros tr h. induction l as [|a' b' l' IHl k' v' r' _]; intros a b k v r pp fuel Hrep Hf.
  - exists (PT a b PE k v r). split; [reflexivity|destruct fuel; reflexivity].
  - destruct fuel as [|fuel]; [simpl in Hf; lia|].
    simpl in Hrep. destruct Hrep as (_ & Hl & _). pose proof (rep_root_deref _ _ _ _ _ _ _ _ Hl) as Hd'.
    cbn [G.bottom_loop1 root_ptr is_nil negb]. rewrite Hd'. cbn [node_of G.Node_Children]. rewrite arr2_get_0.
    cbn [erase AVL.height] in Hf.
    destruct (IHl a' b' k' v' r' (Some a) fuel Hl ltac:(cbn [erase]; lia)) as (s' & Hs' & Hrun). exists s'. split; [|exact Hrun].
    cbn [erase]. rewrite AI.leftmost_path_T. cbn [psub pchild]. exact Hs'.
Qed.
Lemma bottom1_loop_path : forall (tr : G.Tree) h r a b l k v pp fuel,
  rep h pp (PT a b l k v r) -> (AVL.height (erase r) < fuel)%nat ->
  exists s', psub (PT a b l k v r) (AVL.rightmost_path (erase (PT a b l k v r))) = Some s' /\
             G.bottom_loop1 fuel h tr 1 (Some a) (root_ptr r) = Some (root_ptr s').
Proof.
  intros tr h. induction r as [|a' b' l' _ k' v' r' IHr]; intros a b l k v pp fuel Hrep Hf.
  - exists (PT a b l k v PE). split; [reflexivity|destruct fuel; reflexivity].
  - destruct fuel as [|fuel]; [simpl in Hf; lia|].
    simpl in Hrep. destruct Hrep as (_ & _ & Hr). pose proof (rep_root_deref _ _ _ _ _ _ _ _ Hr) as Hd'.
    cbn [G.bottom_loop1 root_ptr is_nil negb]. rewrite Hd'. cbn [node_of G.Node_Children]. rewrite arr2_get_1.
    cbn [erase AVL.height] in Hf.
    destruct (IHr a' b' l' k' v' (Some a) fuel Hr ltac:(cbn [erase]; lia)) as (s' & Hs' & Hrun). exists s'. split; [|exact Hrun].
    cbn [erase]. rewrite AI.rightmost_path_T. cbn [psub pchild]. exact Hs'.
Qed.

Lemma Left_Right_path : forall h tr pt fuel,
  rep h None pt -> G.Tree_Root tr = root_ptr pt -> (AVL.height (erase pt) < fuel)%nat ->
  (exists q, G.Left fuel h tr = Some q /\
     at_path pt q (match pt with PE => None | _ => Some (AVL.leftmost_path (erase pt)) end)) /\
  (exists q, G.Right fuel h tr = Some q /\
     at_path pt q (match pt with PE => None | _ => Some (AVL.rightmost_path (erase pt)) end)).
Proof.
  intros h tr pt fuel Hrep Hroot Hf. unfold G.Left, G.Right, G.bottom. rewrite Hroot.
  destruct pt as [|a b l k v r]; [split; exists None; split; reflexivity|].
  pose proof (rep_root_deref _ _ _ _ _ _ _ _ Hrep) as Hd. cbn [root_ptr is_nil]. rewrite Hd. cbn [node_of G.Node_Children].
  rewrite arr2_get_0, arr2_get_1. cbn [erase AVL.height] in Hf. split.
  - destruct (bottom0_loop_path tr h l a b k v r None fuel Hrep ltac:(lia)) as (s' & Hs' & ->). eexists. split; [reflexivity|].
    cbn [at_path]. eauto.
  - destruct (bottom1_loop_path tr h r a b l k v None fuel Hrep ltac:(lia)) as (s' & Hs' & ->). eexists. split; [reflexivity|].
    cbn [at_path]. eauto.
Qed.

(* ---------- the iterator ---------- *)
Definition irep (pt : ptree) (it : G.Iterator) (ip : AVL.ipos) : Prop :=
  match ip with
  | AVL.IBegin => G.Iterator_position it = G.begin /\ G.Iterator_node it = None
  | AVL.IEnd => G.Iterator_position it = G.end_ /\ G.Iterator_node it = None
  | AVL.IBetween p => G.Iterator_position it = G.between /\
                      exists s, psub pt p = Some s /\ G.Iterator_node it = root_ptr s
  end.
Definition is_between (ip : AVL.ipos) : bool := match ip with AVL.IBetween _ => true | _ => false end.

Lemma at_path_nil : forall pt q p, at_path pt q (Some p) -> is_nil q = false.
Proof.
  intros pt q p (s & Hs & ->). destruct s; [exfalso; eapply psub_not_PE; eauto|reflexivity].
Qed.

(* OBLIGATION *)
Theorem Iterator_Next_correct : forall h tr pt it ip fuel,
  rep h None pt -> NoDup (addrs pt) -> G.Tree_Root tr = root_ptr pt -> irep pt it ip ->
  (AVL.height (erase pt) < fuel)%nat ->
  exists it', G.Iterator_Next fuel h tr it = Some (it', is_between (AVL.inext (erase pt) ip)) /\
              irep pt it' (AVL.inext (erase pt) ip).
Proof.
  intros h tr pt [nd ps] ip fuel Hrep Hnd Hroot Hir Hf. destruct ip as [| |p]; cbn [irep G.Iterator_position G.Iterator_node] in Hir.
  - destruct Hir as (-> & ->). unfold G.Iterator_Next. cbn [G.Iterator_position]. change (G.begin =? G.begin) with true. cbv iota.
    destruct (Left_Right_path h tr pt fuel Hrep Hroot Hf) as ((q & -> & Hq) & _).
    unfold G.Iterator_set_node, G.Iterator_set_position. cbn [G.Iterator_node G.Iterator_position].
    destruct pt as [|a b l k v r].
    + cbn [at_path] in Hq. subst q. cbn [is_nil]. eexists. split; [reflexivity|]. split; reflexivity.
    + rewrite (at_path_nil _ _ _ Hq). eexists. split; [reflexivity|]. cbn [AVL.inext erase irep G.Iterator_position G.Iterator_node].
      split; [reflexivity|exact Hq].
  - destruct Hir as (-> & ->). unfold G.Iterator_Next. cbn [G.Iterator_position G.Iterator_node].
    change (G.end_ =? G.begin) with false. change (G.end_ =? G.between) with false. cbv iota. cbn [is_nil].
    eexists. split; [reflexivity|]. split; reflexivity.
  - destruct Hir as (-> & s & Hs & Hn). cbn [G.Iterator_node] in Hn. subst nd.
    unfold G.Iterator_Next. cbn [G.Iterator_position G.Iterator_node].
    change (G.between =? G.begin) with false. change (G.between =? G.between) with true. cbv iota.
    destruct (Node_Next_Prev_correct h pt p s fuel Hrep Hnd Hs Hf) as ((q & -> & Hq) & _).
    unfold G.Iterator_set_node, G.Iterator_set_position. cbn [G.Iterator_node G.Iterator_position AVL.inext].
    destruct (AVL.node_next (erase pt) p) as [p'|].
    + rewrite (at_path_nil _ _ _ Hq). eexists. split; [reflexivity|]. split; [reflexivity|exact Hq].
    + cbn [at_path] in Hq. subst q. cbn [is_nil]. eexists. split; [reflexivity|]. split; reflexivity.
Qed.
Print Assumptions Iterator_Next_correct.

(* OBLIGATION *)
Theorem Iterator_Prev_correct : forall h tr pt it ip fuel,
  rep h None pt -> NoDup (addrs pt) -> G.Tree_Root tr = root_ptr pt -> irep pt it ip ->
  (AVL.height (erase pt) < fuel)%nat ->
  exists it', G.Iterator_Prev fuel h tr it = Some (it', is_between (AVL.iprev (erase pt) ip)) /\
              irep pt it' (AVL.iprev (erase pt) ip).
Proof.
  intros h tr pt [nd ps] ip fuel Hrep Hnd Hroot Hir Hf. destruct ip as [| |p]; cbn [irep G.Iterator_position G.Iterator_node] in Hir.
  - destruct Hir as (-> & ->). unfold G.Iterator_Prev. cbn [G.Iterator_position G.Iterator_node].
    change (G.begin =? G.end_) with false. change (G.begin =? G.between) with false. cbv iota. cbn [is_nil].
    eexists. split; [reflexivity|]. split; reflexivity.
  - destruct Hir as (-> & ->). unfold G.Iterator_Prev. cbn [G.Iterator_position]. change (G.end_ =? G.end_) with true. cbv iota.
    destruct (Left_Right_path h tr pt fuel Hrep Hroot Hf) as (_ & (q & -> & Hq)).
    unfold G.Iterator_set_node, G.Iterator_set_position. cbn [G.Iterator_node G.Iterator_position].
    destruct pt as [|a b l k v r].
    + cbn [at_path] in Hq. subst q. cbn [is_nil]. eexists. split; [reflexivity|]. split; reflexivity.
    + rewrite (at_path_nil _ _ _ Hq). eexists. split; [reflexivity|]. cbn [AVL.iprev erase irep G.Iterator_position G.Iterator_node].
      split; [reflexivity|exact Hq].
  - destruct Hir as (-> & s & Hs & Hn). cbn [G.Iterator_node] in Hn. subst nd.
    unfold G.Iterator_Prev. cbn [G.Iterator_position G.Iterator_node].
    change (G.between =? G.end_) with false. change (G.between =? G.between) with true. cbv iota.
    destruct (Node_Next_Prev_correct h pt p s fuel Hrep Hnd Hs Hf) as (_ & (q & -> & Hq)).
    unfold G.Iterator_set_node, G.Iterator_set_position. cbn [G.Iterator_node G.Iterator_position AVL.iprev].
    destruct (AVL.node_prev (erase pt) p) as [p'|].
    + rewrite (at_path_nil _ _ _ Hq). eexists. split; [reflexivity|]. split; [reflexivity|exact Hq].
    + cbn [at_path] in Hq. subst q. cbn [is_nil]. eexists. split; [reflexivity|]. split; reflexivity.
Qed.
Print Assumptions Iterator_Prev_correct.

(* OBLIGATION *)
Theorem Key_Value_correct : forall h pt it ip, rep h None pt -> irep pt it ip ->
  match AVL.ikv (erase pt) ip with
  | Some (k, v) => G.Key h it = Some k /\ G.Value h it = Some v
  | None => G.Key h it = Some 0 /\ G.Value h it = Some 0      (* nil node: the zero values, no panic *)
  end.
Proof.
  intros h pt it ip Hrep Hir. destruct ip as [| |p]; cbn [irep] in Hir.
  - destruct Hir as (_ & Hn). unfold G.Key, G.Value. rewrite Hn. split; reflexivity.
  - destruct Hir as (_ & Hn). unfold G.Key, G.Value. rewrite Hn. split; reflexivity.
  - destruct Hir as (_ & s & Hs & Hn). destruct (rep_psub _ _ _ _ _ Hrep Hs) as (pps & Hrs).
    destruct s as [|a c l k v r]; [exfalso; eapply psub_not_PE; eauto|].
    pose proof (rep_root_deref _ _ _ _ _ _ _ _ Hrs) as Hd. cbn [root_ptr] in Hn.
    cbn [AVL.ikv]. rewrite psub_erase, Hs. cbn [option_map erase]. unfold G.Key, G.Value. rewrite Hn, Hd. split; reflexivity.
Qed.
Print Assumptions Key_Value_correct.

(* ---------- in-order successor (through Proofs/IterTreeAVL.v) ---------- *)
Lemma irep_valid : forall pt it ip, irep pt it ip -> AI.valid (erase pt) ip.
Proof.
  intros pt it [| |p] H; cbn [AI.valid]; try exact I. destruct H as (_ & s & Hs & _).
  rewrite psub_erase, Hs. discriminate.
Qed.

(* OBLIGATION *)
Theorem Next_Prev_inorder : forall h tr pt it ip fuel,
  rep h None pt -> NoDup (addrs pt) -> G.Tree_Root tr = root_ptr pt -> irep pt it ip ->
  (AVL.height (erase pt) < fuel)%nat ->
  let t := erase pt in
  (exists it' ip', G.Iterator_Next fuel h tr it = Some (it', c_in (AVL.inorder t) (c_next (AVL.inorder t) (AI.pos_of t ip))) /\
     irep pt it' ip' /\ AI.pos_of t ip' = c_next (AVL.inorder t) (AI.pos_of t ip)) /\
  (exists it' ip', G.Iterator_Prev fuel h tr it = Some (it', c_in (AVL.inorder t) (c_prev (AI.pos_of t ip))) /\
     irep pt it' ip' /\ AI.pos_of t ip' = c_prev (AI.pos_of t ip)).
Proof.
  intros h tr pt it ip fuel Hrep Hnd Hroot Hir Hf t. pose proof (irep_valid _ _ _ Hir) as Hv. split.
  - destruct (Iterator_Next_correct h tr pt it ip fuel Hrep Hnd Hroot Hir Hf) as (it' & Hrun & Hir').
    destruct (AI.inext_pos t ip Hv) as (Hv' & Hpos). exists it', (AVL.inext t ip). fold t in Hrun, Hir'.
    change (is_between (AVL.inext t ip)) with (AI.is_between (AVL.inext t ip)) in Hrun.
    rewrite (AI.is_between_in t _ Hv'), Hpos in Hrun. repeat split; assumption.
  - destruct (Iterator_Prev_correct h tr pt it ip fuel Hrep Hnd Hroot Hir Hf) as (it' & Hrun & Hir').
    destruct (AI.iprev_pos t ip Hv) as (Hv' & Hpos). exists it', (AVL.iprev t ip). fold t in Hrun, Hir'.
    change (is_between (AVL.iprev t ip)) with (AI.is_between (AVL.iprev t ip)) in Hrun.
    rewrite (AI.is_between_in t _ Hv'), Hpos in Hrun. repeat split; assumption.
Qed.
Print Assumptions Next_Prev_inorder.
