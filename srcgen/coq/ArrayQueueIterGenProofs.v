(* queues/arrayqueue/iterator.go (GodsGen.ArrayQueueIterGen) and the two methods of
   queues/arrayqueue/arrayqueue.go it calls (GodsGen.ArrayQueueGen: Size, withinRange), regenerated from the
   source, against the index iterator of Model/Iter.v that Machine.run_iter runs for kind ArrayQueue.
   (The backing list's Size / withinRange / Get are proved in ArrayListIterGenProofs.v.) *)
From Coq Require Import ZArith List Lia Bool Arith.
From Gods Require Import Common.Cmp Common.ListAux Spec.SeqSpec Model.Ops Model.Lists Model.Iter Model.Machine.
From Gods Require Import Proofs.IterLinear.
From GodsGen Require ArrayListGen ArrayQueueGen ArrayQueueIterGen.
From GodsGenProofs Require Import GenIterRun.
From GodsGenProofs Require ArrayListIterGenProofs.
Import ListNotations.
Local Open Scope Z_scope.

Module L := ArrayListGen.
Module C := ArrayQueueGen.
Module I := ArrayQueueIterGen.
Notation List_Size_equiv := ArrayListIterGenProofs.List_Size_equiv.
Notation List_withinRange_equiv := ArrayListIterGenProofs.List_withinRange_equiv.
Notation List_Get_equiv := ArrayListIterGenProofs.List_Get_equiv.

Module Names.
Import Coq.Strings.String.
(* OBLIGATION *)
Theorem translated_functions :
  I.translated = ["Begin"; "End"; "First"; "Index"; "Last"; "Next"; "NextTo"; "Prev"; "PrevTo"; "Queue_Iterator"; "Value"]%string
  /\ I.skipped = [] /\ I.not_selected = []
  /\ C.translated = ["Size"; "withinRange"]%string /\ C.skipped = [].
Proof. repeat split. Qed.
Print Assumptions translated_functions.
End Names.

(* ---------- the container methods the iterator calls ---------- *)
(* OBLIGATION *)
Theorem Container_Size_equiv : forall g, C.Size g = zlen (L.elements (C.list_ g)).
Proof. reflexivity. Qed.
Print Assumptions Container_Size_equiv.

(* OBLIGATION *)
Theorem Container_withinRange_equiv : forall g i, C.withinRange g i = within i (L.elements (C.list_ g)).
Proof. reflexivity. Qed.
Print Assumptions Container_withinRange_equiv.

Lemma run_iter_kind : forall c l cs, ckind c = ArrayQueue ->
  run_iter c (StSeq l) cs =
  run_script Z (ix_next (zlen l)) (ix_prev (zlen l)) ix_begin (ix_end (zlen l)) (ix_cur (fun i => al_get i l)) true
    (S (S (Z.to_nat (zlen l)))) (-1) cs.
Proof. intros c l cs Hk. unfold run_iter. rewrite Hk. reflexivity. Qed.

Section WithContainer.
Variable g : C.Queue.
Let l := L.elements (C.list_ g).
Let n := zlen l.

(* OBLIGATION *)
Theorem Iterator_equiv : I.index (I.Queue_Iterator g) = -1.
Proof. reflexivity. Qed.

(* OBLIGATION *)
Theorem Next_equiv : step_equiv I.Iterator I.index (fun it => I.Next it g) (ix_next n).
Proof.
  intros [i]. unfold I.Next, ix_next. rewrite Container_Size_equiv. fold l n. cbn [I.index I.set_index].
  destruct (Z.ltb_spec i n); cbn [I.index fst snd]; now rewrite Container_withinRange_equiv.
Qed.

(* OBLIGATION *)
Theorem Prev_equiv : step_equiv I.Iterator I.index (fun it => I.Prev it g) (ix_prev n).
Proof.
  intros [i]. unfold I.Prev, ix_prev. cbn [I.index I.set_index].
  destruct (Z.leb_spec 0 i); cbn [I.index fst snd]; now rewrite Container_withinRange_equiv.
Qed.

(* OBLIGATION *)
Theorem Begin_equiv : jump_equiv I.Iterator I.index I.Begin ix_begin.
Proof. intros [i]. reflexivity. Qed.

(* OBLIGATION *)
Theorem End_equiv : jump_equiv I.Iterator I.index (fun it => I.End it g) (ix_end n).
Proof. intros [i]. reflexivity. Qed.

(* OBLIGATION *)
Theorem First_equiv : forall it,
  ix_next n (ix_begin (I.index it)) = Some (I.index (fst (I.First it g)), snd (I.First it g)).
Proof.
  intros it. unfold I.First.
  pose proof (Begin_equiv it) as HB. destruct (I.Begin it) as [it1 u]. cbn [fst] in HB. rewrite <- HB.
  pose proof (Next_equiv it1) as HN. cbn beta in HN. destruct (I.Next it1 g) as [it2 b]. exact HN.
Qed.

(* OBLIGATION *)
Theorem Last_equiv : forall it,
  ix_prev n (ix_end n (I.index it)) = Some (I.index (fst (I.Last it g)), snd (I.Last it g)).
Proof.
  intros it. unfold I.Last.
  pose proof (End_equiv it) as HE. cbn beta in HE. destruct (I.End it g) as [it1 u]. cbn [fst] in HE. rewrite <- HE.
  pose proof (Prev_equiv it1) as HP. cbn beta in HP. destruct (I.Prev it1 g) as [it2 b]. exact HP.
Qed.

(* OBLIGATION *)
Theorem Index_equiv : forall it, I.Index it = I.index it.
Proof. reflexivity. Qed.

(* OBLIGATION *)
Theorem Value_equiv : cur_equiv I.Iterator I.index I.Index (fun it => I.Value it g) n (fun i => al_get i l).
Proof.
  intros [i] Hin. unfold ix_cur. cbn [I.index] in *.
  unfold I.Value, I.Index. cbn [I.index]. rewrite List_Get_equiv. fold l.
  rewrite (al_get_get l i) by exact Hin. reflexivity.
Qed.

Lemma NextTo_unfolds : loop_unfolds I.Iterator I.Index (fun it => I.Value it g)
  (fun fuel it f => I.NextTo fuel it g f) (fun it => I.Next it g).
Proof.
  split; [reflexivity|]. intros fuel it f. unfold I.NextTo. cbn [I.NextTo_loop1].
  destruct (I.Next it g) as [it' [|]]; reflexivity.
Qed.

Lemma PrevTo_unfolds : loop_unfolds I.Iterator I.Index (fun it => I.Value it g)
  (fun fuel it f => I.PrevTo fuel it g f) (fun it => I.Prev it g).
Proof.
  split; [reflexivity|]. intros fuel it f. unfold I.PrevTo. cbn [I.PrevTo_loop1].
  destruct (I.Prev it g) as [it' [|]]; reflexivity.
Qed.

(* OBLIGATION *)
Theorem NextTo_equiv :
  loop_equiv I.Iterator I.index (fun i => al_get i l) (fun fuel it f => I.NextTo fuel it g f) (ix_next n).
Proof.
  eapply loop_equiv_of_unfolds;
    [apply ix_next_inrange | exact Next_equiv | exact Value_equiv | exact NextTo_unfolds].
Qed.

(* OBLIGATION *)
Theorem PrevTo_equiv :
  loop_equiv I.Iterator I.index (fun i => al_get i l) (fun fuel it f => I.PrevTo fuel it g f) (ix_prev n).
Proof.
  eapply loop_equiv_of_unfolds;
    [apply ix_prev_inrange | exact Prev_equiv | exact Value_equiv | exact PrevTo_unfolds].
Qed.

Definition gen_iter_script (fuel : nat) (it : I.Iterator) (cs : list icall) : list obs :=
  gen_script I.Iterator (fun it => I.Next it g) (fun it => I.Prev it g) (fun it => I.First it g) (fun it => I.Last it g)
    I.Begin (fun it => I.End it g) I.Index (fun it => I.Value it g)
    (fun fuel it f => I.NextTo fuel it g f) (fun fuel it f => I.PrevTo fuel it g f) fuel it cs.

(* OBLIGATION: every script, run by the generated functions on a fresh iterator = the machine's
   run_iter = the C08 cursor over the elements *)
Theorem gen_iter_is_cursor : forall c cs, ckind c = ArrayQueue ->
  gen_iter_script (S (S (Z.to_nat (C.Size g)))) (I.Queue_Iterator g) cs = run_iter c (StSeq l) cs /\
  gen_iter_script (S (S (Z.to_nat (C.Size g)))) (I.Queue_Iterator g) cs = cursor_script (indexed (l)) true cs.
Proof.
  intros c cs Hk.
  assert (E : gen_iter_script (S (S (Z.to_nat (C.Size g)))) (I.Queue_Iterator g) cs = run_iter c (StSeq l) cs).
  { rewrite (run_iter_kind c l cs Hk). unfold gen_iter_script.
    rewrite (gen_script_is_run_script I.Iterator I.index _ _ _ _ _ _ _ _ _ _ n (fun i => al_get i l)
               Next_equiv Prev_equiv Begin_equiv End_equiv First_equiv Last_equiv Value_equiv NextTo_equiv PrevTo_equiv).
    reflexivity. }
  split; [exact E|].
  rewrite E, (iter_ArrayList c l cs (or_intror Hk)). unfold values_of. now rewrite Hk.
Qed.
End WithContainer.

Print Assumptions Iterator_equiv.
Print Assumptions Next_equiv.
Print Assumptions Prev_equiv.
Print Assumptions Begin_equiv.
Print Assumptions End_equiv.
Print Assumptions First_equiv.
Print Assumptions Last_equiv.
Print Assumptions Index_equiv.
Print Assumptions Value_equiv.
Print Assumptions NextTo_equiv.
Print Assumptions PrevTo_equiv.
Print Assumptions gen_iter_is_cursor.
