(* trees/redblacktree/iterator.go in TREE POINTER MODE (GodsGen.RedBlackTreeHeapGen): the GENERATED Next / Prev -- the
   descent along Left / Right and the climb along the PARENT pointers with the pointer comparison `node == iterator.node.Left`,
   the three-state position, the `goto`s -- on a represented tree (RBTreeHeapRep.v: rep h None pt, distinct addresses)
   move exactly like the model's path iterator RB.inext / RB.iprev (Model/RBTree.v); Key / Value read RB.ikv; Begin / End /
   First / Last / Tree.Iterator / IteratorAt.  With Proofs/IterTreeRB.v this gives: Next moves to the in-order successor
   (position + 1 in RB.inorder), Prev to the predecessor, and Key / Value return that element ([Next_inorder], [Prev_inorder]).
   Never None (no nil dereference) with fuel S (RB.height t).  The heap is not returned, hence not changed. *)
From Coq Require Import ZArith List Lia Bool Arith ZifyBool ZifyNat.
From Gods Require Import Common.Cmp Model.RBTree Proofs.IterTreeRB.
From GodsGenProofs Require Import GoCmp GoTreeHeap RBTreeHeapRep.
From GodsGen Require RedBlackTreeHeapGen.
Import ListNotations.
Local Open Scope Z_scope.

Module RI := IterTreeRB.RBIter.

(* the iterator record against a model position *)
Definition irep (pt : ptree) (it : G.Iterator) (ip : RB.ipos) : Prop :=
  match ip with
  | RB.IBegin => G.Iterator_position it = G.begin
  | RB.IEnd => G.Iterator_position it = G.end_
  | RB.IBetween p => G.Iterator_position it = G.between /\
                     exists s, psub pt p = Some s /\ G.Iterator_node it = root_ptr s
  end.

Definition is_between (ip : RB.ipos) : bool := match ip with RB.IBetween _ => true | _ => false end.

(* ---------- descents ---------- *)
Lemma Next_loop1_spec : forall h tr s pp fuel pos, rep h pp s -> s <> PE -> (RB.height (erase s) <= fuel)%nat ->
  exists s', psub s (RB.leftmost_path (erase s)) = Some s' /\
             G.Next_loop1 fuel h tr (G.mkIterator (root_ptr s) pos) = Some (G.mkIterator (root_ptr s') pos).
Proof.
  intros h tr. induction s as [|a c l IHl k v r _]; intros pp fuel pos Hrep Hne Hf; [congruence|].
  pose proof (rep_root_deref _ _ _ _ _ _ _ _ Hrep) as Hd. simpl in Hrep. destruct Hrep as (_ & Hl & _).
  cbn [erase]. rewrite RI.leftmost_path_T. destruct l as [|la lc ll lk lv lr].
  - exists (PT a c PE k v r). split; [reflexivity|].
    destruct fuel; cbn [G.Next_loop1 G.Iterator_node root_ptr]; rewrite Hd; reflexivity.
  - destruct fuel as [|fuel]; [cbn [erase RB.height] in Hf; lia|].
    destruct (IHl (Some a) fuel pos Hl ltac:(discriminate) ltac:(cbn [erase RB.height] in *; lia)) as (s' & Hs' & Hrun).
    exists s'. split; [exact Hs'|].
    cbn [G.Next_loop1 G.Iterator_node root_ptr]. rewrite Hd. cbn [node_of G.Node_Left root_ptr is_nil negb G.Iterator_set_node G.Iterator_position].
    exact Hrun.
Qed.

Lemma Prev_loop1_spec : forall h tr s pp fuel pos, rep h pp s -> s <> PE -> (RB.height (erase s) <= fuel)%nat ->
  exists s', psub s (RB.rightmost_path (erase s)) = Some s' /\
             G.Prev_loop1 fuel h tr (G.mkIterator (root_ptr s) pos) = Some (G.mkIterator (root_ptr s') pos).
Proof.
  intros h tr. induction s as [|a c l _ k v r IHr]; intros pp fuel pos Hrep Hne Hf; [congruence|].
  pose proof (rep_root_deref _ _ _ _ _ _ _ _ Hrep) as Hd. simpl in Hrep. destruct Hrep as (_ & _ & Hr).
  cbn [erase]. rewrite RI.rightmost_path_T. destruct r as [|ra rc rl rk rv rr].
  - exists (PT a c l k v PE). split; [reflexivity|].
    destruct fuel; cbn [G.Prev_loop1 G.Iterator_node root_ptr]; rewrite Hd; reflexivity.
  - destruct fuel as [|fuel]; [cbn [erase RB.height] in Hf; lia|].
    destruct (IHr (Some a) fuel pos Hr ltac:(discriminate) ltac:(cbn [erase RB.height] in *; lia)) as (s' & Hs' & Hrun).
    exists s'. split; [exact Hs'|].
    cbn [G.Prev_loop1 G.Iterator_node root_ptr]. rewrite Hd. cbn [node_of G.Node_Right root_ptr is_nil negb G.Iterator_set_node G.Iterator_position].
    exact Hrun.
Qed.

Lemma Left_loop_path : forall h tr s pp fuel par, rep h pp s -> s <> PE -> (RB.height (erase s) < fuel)%nat ->
  exists s', psub s (RB.leftmost_path (erase s)) = Some s' /\
             G.Left_loop1 fuel h tr par (root_ptr s) = Some (root_ptr s', None).
Proof.
  intros h tr. induction s as [|a c l IHl k v r _]; intros pp fuel par Hrep Hne Hf; [congruence|].
  pose proof (rep_root_deref _ _ _ _ _ _ _ _ Hrep) as Hd. simpl in Hrep. destruct Hrep as (_ & Hl & _).
  destruct fuel as [|fuel]; [lia|]. cbn [erase RB.height] in Hf.
  cbn [erase]. rewrite RI.leftmost_path_T. cbn [G.Left_loop1 root_ptr is_nil negb]. rewrite Hd. cbn [node_of G.Node_Left].
  destruct l as [|la lc ll lk lv lr].
  - exists (PT a c PE k v r). split; [reflexivity|]. destruct fuel; reflexivity.
  - destruct (IHl (Some a) fuel (Some a) Hl ltac:(discriminate) ltac:(cbn [erase RB.height] in *; lia)) as (s' & Hs' & Hrun).
    exists s'. split; [exact Hs'|exact Hrun].
Qed.

Lemma Right_loop_path : forall h tr s pp fuel par, rep h pp s -> s <> PE -> (RB.height (erase s) < fuel)%nat ->
  exists s', psub s (RB.rightmost_path (erase s)) = Some s' /\
             G.Right_loop1 fuel h tr par (root_ptr s) = Some (root_ptr s', None).
Proof.
  intros h tr. induction s as [|a c l _ k v r IHr]; intros pp fuel par Hrep Hne Hf; [congruence|].
  pose proof (rep_root_deref _ _ _ _ _ _ _ _ Hrep) as Hd. simpl in Hrep. destruct Hrep as (_ & _ & Hr).
  destruct fuel as [|fuel]; [lia|]. cbn [erase RB.height] in Hf.
  cbn [erase]. rewrite RI.rightmost_path_T. cbn [G.Right_loop1 root_ptr is_nil negb]. rewrite Hd. cbn [node_of G.Node_Right].
  destruct r as [|ra rc rl rk rv rr].
  - exists (PT a c l k v PE). split; [reflexivity|]. destruct fuel; reflexivity.
  - destruct (IHr (Some a) fuel (Some a) Hr ltac:(discriminate) ltac:(cbn [erase RB.height] in *; lia)) as (s' & Hs' & Hrun).
    exists s'. split; [exact Hs'|exact Hrun].
Qed.

(* ---------- the climbs along the Parent pointers ---------- *)
Lemma Next_loop2_spec : forall h tr pt, rep h None pt -> NoDup (addrs pt) ->
  forall rp s pos fuel, psub pt (rev rp) = Some s -> (length rp < fuel)%nat ->
  exists er itf, G.Next_loop2 fuel h tr (G.mkIterator (root_ptr s) pos) = Some (er, itf) /\
    match RB.climb_next rp with
    | RB.IBetween q => exists sq, psub pt q = Some sq /\ er = Some (G.mkIterator (root_ptr sq) G.between, true)
    | _ => er = None
    end.
Proof.
  intros h tr pt Hrep Hnd. induction rp as [|d rest IH]; intros s pos fuel Hs Hf.
  - cbn [rev] in Hs. pose proof (rep_psub_root _ _ _ Hrep Hs) as Hr. destruct s as [|a c l k v r]; [exfalso; eapply psub_not_PE; eauto|].
    pose proof (rep_root_deref _ _ _ _ _ _ _ _ Hr) as Hd.
    eexists _, _. split; [|reflexivity].
    destruct fuel; cbn [G.Next_loop2 G.Iterator_node root_ptr]; rewrite Hd; reflexivity.
  - cbn [rev] in Hs. destruct (psub_snoc _ _ _ _ Hs) as (b & cb & lb & kb & vb & rb & Hsp & -> & Hne).
    destruct (rep_psub _ _ _ _ _ Hrep Hsp) as (ppb & Hrb).
    pose proof (rep_root_deref _ _ _ _ _ _ _ _ Hrb) as Hdb. simpl in Hrb. destruct Hrb as (_ & Hlb & Hrb).
    pose proof (psub_nodup _ _ _ Hnd Hsp) as Hndb.
    destruct fuel as [|fuel]; [cbn [length] in Hf; lia|]. cbn [length] in Hf.
    destruct d; cbn [pchild] in *.
    + destruct lb as [|a c l k v r]; [congruence|].
      pose proof (rep_root_deref _ _ _ _ _ _ _ _ Hlb) as Hd.
      eexists _, _. split.
      * cbn [G.Next_loop2 G.Iterator_node root_ptr]. rewrite Hd.
        cbn [node_of G.Node_Parent is_nil negb G.Iterator_set_node G.Iterator_node G.Iterator_position]. rewrite Hdb.
        cbn [node_of G.Node_Left root_ptr]. rewrite ptr_eqb_refl. reflexivity.
      * cbn [RB.climb_next]. exists (PT b cb (PT a c l k v r) kb vb rb). split; [exact Hsp|reflexivity].
    + destruct rb as [|a c l k v r]; [congruence|].
      pose proof (rep_root_deref _ _ _ _ _ _ _ _ Hrb) as Hd.
      assert (Hneq : ptr_eqb (Some a) (root_ptr lb) = false).
      { apply ptr_eqb_neq. intro E. symmetry in E. revert E. eapply siblings_differ; [exact Hndb|reflexivity]. }
      destruct (IH (PT b cb lb kb vb (PT a c l k v r)) pos fuel Hsp ltac:(lia)) as (er & itf & Hrun & Hres).
      exists er, itf. split; [|exact Hres].
      cbn [G.Next_loop2 G.Iterator_node root_ptr]. rewrite Hd.
      cbn [node_of G.Node_Parent is_nil negb G.Iterator_set_node G.Iterator_node G.Iterator_position]. rewrite Hdb.
      cbn [node_of G.Node_Left]. rewrite Hneq. exact Hrun.
Qed.

Lemma Prev_loop2_spec : forall h tr pt, rep h None pt -> NoDup (addrs pt) ->
  forall rp s pos fuel, psub pt (rev rp) = Some s -> (length rp < fuel)%nat ->
  exists er itf, G.Prev_loop2 fuel h tr (G.mkIterator (root_ptr s) pos) = Some (er, itf) /\
    match RB.climb_prev rp with
    | RB.IBetween q => exists sq, psub pt q = Some sq /\ er = Some (G.mkIterator (root_ptr sq) G.between, true)
    | _ => er = None
    end.
Proof.
  intros h tr pt Hrep Hnd. induction rp as [|d rest IH]; intros s pos fuel Hs Hf.
  - cbn [rev] in Hs. pose proof (rep_psub_root _ _ _ Hrep Hs) as Hr. destruct s as [|a c l k v r]; [exfalso; eapply psub_not_PE; eauto|].
    pose proof (rep_root_deref _ _ _ _ _ _ _ _ Hr) as Hd.
    eexists _, _. split; [|reflexivity].
    destruct fuel; cbn [G.Prev_loop2 G.Iterator_node root_ptr]; rewrite Hd; reflexivity.
  - cbn [rev] in Hs. destruct (psub_snoc _ _ _ _ Hs) as (b & cb & lb & kb & vb & rb & Hsp & -> & Hne).
    destruct (rep_psub _ _ _ _ _ Hrep Hsp) as (ppb & Hrb).
    pose proof (rep_root_deref _ _ _ _ _ _ _ _ Hrb) as Hdb. simpl in Hrb. destruct Hrb as (_ & Hlb & Hrb).
    pose proof (psub_nodup _ _ _ Hnd Hsp) as Hndb.
    destruct fuel as [|fuel]; [cbn [length] in Hf; lia|]. cbn [length] in Hf.
    destruct d; cbn [pchild] in *.
    + destruct lb as [|a c l k v r]; [congruence|].
      pose proof (rep_root_deref _ _ _ _ _ _ _ _ Hlb) as Hd.
      assert (Hneq : ptr_eqb (Some a) (root_ptr rb) = false).
      { apply ptr_eqb_neq. intro E. symmetry in E. revert E. eapply siblings_differ'; [exact Hndb|reflexivity]. }
      destruct (IH (PT b cb (PT a c l k v r) kb vb rb) pos fuel Hsp ltac:(lia)) as (er & itf & Hrun & Hres).
      exists er, itf. split; [|exact Hres].
      cbn [G.Prev_loop2 G.Iterator_node root_ptr]. rewrite Hd.
      cbn [node_of G.Node_Parent is_nil negb G.Iterator_set_node G.Iterator_node G.Iterator_position]. rewrite Hdb.
      cbn [node_of G.Node_Right]. rewrite Hneq. exact Hrun.
    + destruct rb as [|a c l k v r]; [congruence|].
      pose proof (rep_root_deref _ _ _ _ _ _ _ _ Hrb) as Hd.
      eexists _, _. split.
      * cbn [G.Prev_loop2 G.Iterator_node root_ptr]. rewrite Hd.
        cbn [node_of G.Node_Parent is_nil negb G.Iterator_set_node G.Iterator_node G.Iterator_position]. rewrite Hdb.
        cbn [node_of G.Node_Right root_ptr]. rewrite ptr_eqb_refl. reflexivity.
      * cbn [RB.climb_prev]. exists (PT b cb lb kb vb (PT a c l k v r)). split; [exact Hsp|reflexivity].
Qed.

Lemma climb_next_not_begin : forall rp, RB.climb_next rp <> RB.IBegin.
Proof. induction rp as [|[|] rp IH]; cbn [RB.climb_next]; congruence. Qed.
Lemma climb_prev_not_end : forall rp, RB.climb_prev rp <> RB.IEnd.
Proof. induction rp as [|[|] rp IH]; cbn [RB.climb_prev]; congruence. Qed.

Lemma erase_PE : forall s, s <> PE -> erase s <> RB.E.
Proof. destruct s; [congruence|discriminate]. Qed.

(* ---------- Next / Prev ---------- *)
(* OBLIGATION *)
Theorem Next_correct : forall h tr pt it ip fuel,
  rep h None pt -> NoDup (addrs pt) -> G.Tree_Root tr = root_ptr pt -> irep pt it ip ->
  (RB.height (erase pt) < fuel)%nat ->
  exists it', G.Next fuel h tr it = Some (it', is_between (RB.inext (erase pt) ip)) /\
              irep pt it' (RB.inext (erase pt) ip).
Proof.
  intros h tr pt [nd ps] ip fuel Hrep Hnd Hroot Hir Hf. destruct ip as [| |p]; cbn [irep G.Iterator_position G.Iterator_node] in Hir.
  - (* begin: Left() *)
    subst ps. unfold G.Next. cbn [G.Iterator_position]. change (G.begin =? G.end_) with false. change (G.begin =? G.begin) with true. cbv iota.
    unfold G.Left. rewrite Hroot. destruct pt as [|a c l k v r].
    + destruct fuel; cbn [G.Left_loop1 root_ptr is_nil negb]; eexists; (split; [reflexivity|reflexivity]).
    + destruct (Left_loop_path h tr (PT a c l k v r) None fuel None Hrep ltac:(discriminate) Hf) as (s' & Hs' & ->).
      assert (Hne : s' <> PE) by (intros ->; eapply psub_not_PE; eauto).
      destruct s' as [|a' c' l' k' v' r']; [congruence|]. cbn [root_ptr is_nil].
      eexists. split; [reflexivity|]. cbn [RB.inext erase irep G.Iterator_position G.Iterator_node G.Iterator_set_node G.Iterator_set_position].
      split; [reflexivity|]. eexists. split; [exact Hs'|reflexivity].
  - (* end *)
    subst ps. unfold G.Next. cbn [G.Iterator_position]. change (G.end_ =? G.end_) with true. cbv iota.
    eexists. split; reflexivity.
  - destruct Hir as (-> & s & Hs & Hn). cbn [G.Iterator_node] in Hn. subst nd.
    unfold G.Next. cbn [G.Iterator_position]. change (G.between =? G.end_) with false. change (G.between =? G.begin) with false. cbv iota.
    destruct (rep_psub _ _ _ _ _ Hrep Hs) as (pps & Hrs).
    destruct s as [|a c l k v r]; [exfalso; eapply psub_not_PE; eauto|].
    pose proof (rep_root_deref _ _ _ _ _ _ _ _ Hrs) as Hd. cbn [G.Iterator_node root_ptr]. rewrite Hd. cbn [node_of G.Node_Right].
    pose proof (psub_height _ _ _ Hs) as Hh. cbn [erase RB.height] in Hh.
    unfold RB.inext. rewrite psub_erase, Hs. cbn [option_map erase].
    destruct r as [|ra rc rl rk rv rr].
    + (* climb *)
      cbn [root_ptr is_nil negb erase].
      destruct (Next_loop2_spec h tr pt Hrep Hnd (rev p) (PT a c l k v PE) G.between fuel ltac:(now rewrite rev_involutive) ltac:(rewrite rev_length; lia)) as (er & itf & Hrun & Hres).
      cbn [root_ptr] in Hrun. rewrite Hrun.
      pose proof (climb_next_not_begin (rev p)) as Hnb.
      destruct (RB.climb_next (rev p)) as [| |q].
      * congruence.
      * subst er. eexists. split; reflexivity.
      * destruct Hres as (sq & Hsq & ->). eexists. split; [reflexivity|]. cbn [irep G.Iterator_position G.Iterator_node].
        split; [reflexivity|]. eexists. split; [exact Hsq|reflexivity].
    + (* descend into the right subtree *)
      simpl in Hrs. destruct Hrs as (_ & _ & Hrr).
      cbn [root_ptr is_nil negb G.Iterator_set_node G.Iterator_position].
      destruct (Next_loop1_spec h tr (PT ra rc rl rk rv rr) (Some a) fuel G.between Hrr ltac:(discriminate) ltac:(cbn [erase RB.height] in *; lia)) as (s' & Hs' & Hrun).
      cbn [root_ptr] in Hrun. unfold G.Iterator_set_node at 1. cbn [G.Iterator_position]. rewrite Hrun. eexists. split; [reflexivity|].
      cbn [irep G.Iterator_position G.Iterator_node G.Iterator_set_position]. split; [reflexivity|].
      exists s'. split; [|reflexivity]. rewrite psub_app, Hs. cbn [psub pchild]. exact Hs'.
Qed.
Print Assumptions Next_correct.

(* OBLIGATION *)
Theorem Prev_correct : forall h tr pt it ip fuel,
  rep h None pt -> NoDup (addrs pt) -> G.Tree_Root tr = root_ptr pt -> irep pt it ip ->
  (RB.height (erase pt) < fuel)%nat ->
  exists it', G.Prev fuel h tr it = Some (it', is_between (RB.iprev (erase pt) ip)) /\
              irep pt it' (RB.iprev (erase pt) ip).
Proof.
  intros h tr pt [nd ps] ip fuel Hrep Hnd Hroot Hir Hf. destruct ip as [| |p]; cbn [irep G.Iterator_position G.Iterator_node] in Hir.
  - (* begin *)
    subst ps. unfold G.Prev. cbn [G.Iterator_position]. change (G.begin =? G.begin) with true. cbv iota.
    eexists. split; reflexivity.
  - (* end: Right() *)
    subst ps. unfold G.Prev. cbn [G.Iterator_position]. change (G.end_ =? G.begin) with false. change (G.end_ =? G.end_) with true. cbv iota.
    unfold G.Right. rewrite Hroot. destruct pt as [|a c l k v r].
    + destruct fuel; cbn [G.Right_loop1 root_ptr is_nil negb]; eexists; (split; [reflexivity|reflexivity]).
    + destruct (Right_loop_path h tr (PT a c l k v r) None fuel None Hrep ltac:(discriminate) Hf) as (s' & Hs' & ->).
      assert (Hne : s' <> PE) by (intros ->; eapply psub_not_PE; eauto).
      destruct s' as [|a' c' l' k' v' r']; [congruence|]. cbn [root_ptr is_nil].
      eexists. split; [reflexivity|]. cbn [RB.iprev erase irep G.Iterator_position G.Iterator_node G.Iterator_set_node G.Iterator_set_position].
      split; [reflexivity|]. eexists. split; [exact Hs'|reflexivity].
  - destruct Hir as (-> & s & Hs & Hn). cbn [G.Iterator_node] in Hn. subst nd.
    unfold G.Prev. cbn [G.Iterator_position]. change (G.between =? G.end_) with false. change (G.between =? G.begin) with false. cbv iota.
    destruct (rep_psub _ _ _ _ _ Hrep Hs) as (pps & Hrs).
    destruct s as [|a c l k v r]; [exfalso; eapply psub_not_PE; eauto|].
    pose proof (rep_root_deref _ _ _ _ _ _ _ _ Hrs) as Hd. cbn [G.Iterator_node root_ptr]. rewrite Hd. cbn [node_of G.Node_Left].
    pose proof (psub_height _ _ _ Hs) as Hh. cbn [erase RB.height] in Hh.
    unfold RB.iprev. rewrite psub_erase, Hs. cbn [option_map erase].
    destruct l as [|la lc ll lk lv lr].
    + (* climb *)
      cbn [root_ptr is_nil negb erase].
      destruct (Prev_loop2_spec h tr pt Hrep Hnd (rev p) (PT a c PE k v r) G.between fuel ltac:(now rewrite rev_involutive) ltac:(rewrite rev_length; lia)) as (er & itf & Hrun & Hres).
      cbn [root_ptr] in Hrun. rewrite Hrun.
      pose proof (climb_prev_not_end (rev p)) as Hnb.
      destruct (RB.climb_prev (rev p)) as [| |q].
      * subst er. eexists. split; reflexivity.
      * congruence.
      * destruct Hres as (sq & Hsq & ->). eexists. split; [reflexivity|]. cbn [irep G.Iterator_position G.Iterator_node].
        split; [reflexivity|]. eexists. split; [exact Hsq|reflexivity].
    + (* descend into the left subtree *)
      simpl in Hrs. destruct Hrs as (_ & Hll & _).
      cbn [root_ptr is_nil negb G.Iterator_set_node G.Iterator_position].
      destruct (Prev_loop1_spec h tr (PT la lc ll lk lv lr) (Some a) fuel G.between Hll ltac:(discriminate) ltac:(cbn [erase RB.height] in *; lia)) as (s' & Hs' & Hrun).
      cbn [root_ptr] in Hrun. unfold G.Iterator_set_node at 1. cbn [G.Iterator_position]. rewrite Hrun. eexists. split; [reflexivity|].
      cbn [irep G.Iterator_position G.Iterator_node G.Iterator_set_position]. split; [reflexivity|].
      exists s'. split; [|reflexivity]. rewrite psub_app, Hs. cbn [psub pchild]. exact Hs'.
Qed.
Print Assumptions Prev_correct.

(* ---------- Key / Value / Node, Begin / End / First / Last, the constructors ---------- *)
(* OBLIGATION *)
Theorem Key_Value_correct : forall h pt it p, rep h None pt -> irep pt it (RB.IBetween p) ->
  exists k v, RB.ikv (erase pt) (RB.IBetween p) = Some (k, v) /\
              G.Key h it = Some k /\ G.Value h it = Some v /\
              exists nd, deref h (G.Iterator_node it) = Some nd /\ G.Iterator_Node h it = Some (G.Iterator_node it) /\
                         G.Node_Key nd = k /\ G.Node_Value nd = v.
Proof.
  intros h pt it p Hrep (_ & s & Hs & Hn). destruct (rep_psub _ _ _ _ _ Hrep Hs) as (pps & Hrs).
  destruct s as [|a c l k v r]; [exfalso; eapply psub_not_PE; eauto|].
  pose proof (rep_root_deref _ _ _ _ _ _ _ _ Hrs) as Hd. cbn [root_ptr] in Hn.
  exists k, v. cbn [RB.ikv]. rewrite psub_erase, Hs. cbn [option_map erase]. split; [reflexivity|].
  unfold G.Key, G.Value, G.Iterator_Node. rewrite Hn, Hd. repeat split. eexists. repeat split.
Qed.
Print Assumptions Key_Value_correct.

(* OBLIGATION *)
Theorem Begin_End_correct : forall h (tr : G.Tree) pt it nd,
  (exists it', G.Begin h it = Some it' /\ irep pt it' RB.IBegin /\ G.Iterator_node it' = None) /\
  (exists it', G.End h it = Some it' /\ irep pt it' RB.IEnd /\ G.Iterator_node it' = None) /\
  (exists it', G.Tree_Iterator h tr = Some it' /\ irep pt it' RB.IBegin /\ G.Iterator_node it' = None) /\
  G.IteratorAt h tr nd = Some (G.mkIterator nd G.between).
Proof. intros. repeat split; eexists; repeat split. Qed.
Print Assumptions Begin_End_correct.

(* OBLIGATION *)
Theorem First_Last_correct : forall h tr pt it fuel,
  rep h None pt -> NoDup (addrs pt) -> G.Tree_Root tr = root_ptr pt -> (RB.height (erase pt) < fuel)%nat ->
  (exists it', G.First fuel h tr it = Some (it', is_between (RB.inext (erase pt) RB.IBegin)) /\
               irep pt it' (RB.inext (erase pt) RB.IBegin)) /\
  (exists it', G.Last fuel h tr it = Some (it', is_between (RB.iprev (erase pt) RB.IEnd)) /\
               irep pt it' (RB.iprev (erase pt) RB.IEnd)).
Proof.
  intros h tr pt it fuel Hrep Hnd Hroot Hf. split.
  - unfold G.First. cbn [G.Begin].
    destruct (Next_correct h tr pt (G.Iterator_set_position (G.Iterator_set_node it None) G.begin) RB.IBegin fuel Hrep Hnd Hroot eq_refl Hf) as (it' & -> & Hi).
    exists it'. split; [reflexivity|exact Hi].
  - unfold G.Last. cbn [G.End].
    destruct (Prev_correct h tr pt (G.Iterator_set_position (G.Iterator_set_node it None) G.end_) RB.IEnd fuel Hrep Hnd Hroot eq_refl Hf) as (it' & -> & Hi).
    exists it'. split; [reflexivity|exact Hi].
Qed.
Print Assumptions First_Last_correct.

(* ---------- in-order successor / predecessor (through Proofs/IterTreeRB.v) ---------- *)
Lemma irep_valid : forall pt it ip, irep pt it ip -> RI.valid (erase pt) ip.
Proof.
  intros pt it [| |p] H; cbn [RI.valid]; try exact I. destruct H as (_ & s & Hs & _).
  rewrite psub_erase, Hs. discriminate.
Qed.

(* OBLIGATION *)
Theorem Next_inorder : forall h tr pt it ip fuel,
  rep h None pt -> NoDup (addrs pt) -> G.Tree_Root tr = root_ptr pt -> irep pt it ip ->
  (RB.height (erase pt) < fuel)%nat ->
  let t := erase pt in let q := c_next (RB.inorder t) (RI.pos_of t ip) in
  exists it' ip', G.Next fuel h tr it = Some (it', c_in (RB.inorder t) q) /\ irep pt it' ip' /\ RI.pos_of t ip' = q /\
    (c_in (RB.inorder t) q = true ->
     exists k v, nth_error (RB.inorder t) (Z.to_nat q) = Some (k, v) /\ G.Key h it' = Some k /\ G.Value h it' = Some v).
Proof.
  intros h tr pt it ip fuel Hrep Hnd Hroot Hir Hf t q.
  destruct (Next_correct h tr pt it ip fuel Hrep Hnd Hroot Hir Hf) as (it' & Hrun & Hir').
  pose proof (irep_valid _ _ _ Hir) as Hv. destruct (RI.inext_pos t ip Hv) as (Hv' & Hpos).
  exists it', (RB.inext t ip). fold t in Hrun, Hir'. fold q in Hpos.
  change (is_between (RB.inext t ip)) with (RI.is_between (RB.inext t ip)) in Hrun.
  rewrite (RI.is_between_in t _ Hv'), Hpos in Hrun. repeat split; [exact Hrun|exact Hir'|exact Hpos|].
  intros Hin. rewrite <- Hpos in Hin. pose proof (RI.ikv_ok t _ Hv' Hin) as Hkv. rewrite Hpos in Hkv.
  rewrite <- (RI.is_between_in t _ Hv') in Hin. destruct (RB.inext t ip) as [| |p'] eqn:E; try discriminate.
  destruct (Key_Value_correct h pt it' p' Hrep Hir') as (k & v & Hikv & HK & HV & _).
  exists k, v. fold t in Hikv. rewrite <- Hkv, Hikv. repeat split; assumption.
Qed.
Print Assumptions Next_inorder.

(* OBLIGATION *)
Theorem Prev_inorder : forall h tr pt it ip fuel,
  rep h None pt -> NoDup (addrs pt) -> G.Tree_Root tr = root_ptr pt -> irep pt it ip ->
  (RB.height (erase pt) < fuel)%nat ->
  let t := erase pt in let q := c_prev (RI.pos_of t ip) in
  exists it' ip', G.Prev fuel h tr it = Some (it', c_in (RB.inorder t) q) /\ irep pt it' ip' /\ RI.pos_of t ip' = q /\
    (c_in (RB.inorder t) q = true ->
     exists k v, nth_error (RB.inorder t) (Z.to_nat q) = Some (k, v) /\ G.Key h it' = Some k /\ G.Value h it' = Some v).
Proof.
  intros h tr pt it ip fuel Hrep Hnd Hroot Hir Hf t q.
  destruct (Prev_correct h tr pt it ip fuel Hrep Hnd Hroot Hir Hf) as (it' & Hrun & Hir').
  pose proof (irep_valid _ _ _ Hir) as Hv. destruct (RI.iprev_pos t ip Hv) as (Hv' & Hpos).
  exists it', (RB.iprev t ip). fold t in Hrun, Hir'. fold q in Hpos.
  change (is_between (RB.iprev t ip)) with (RI.is_between (RB.iprev t ip)) in Hrun.
  rewrite (RI.is_between_in t _ Hv'), Hpos in Hrun. repeat split; [exact Hrun|exact Hir'|exact Hpos|].
  intros Hin. rewrite <- Hpos in Hin. pose proof (RI.ikv_ok t _ Hv' Hin) as Hkv. rewrite Hpos in Hkv.
  rewrite <- (RI.is_between_in t _ Hv') in Hin. destruct (RB.iprev t ip) as [| |p'] eqn:E; try discriminate.
  destruct (Key_Value_correct h pt it' p' Hrep Hir') as (k & v & Hikv & HK & HV & _).
  exists k, v. fold t in Hikv. rewrite <- Hkv, Hikv. repeat split; assumption.
Qed.
Print Assumptions Prev_inorder.
