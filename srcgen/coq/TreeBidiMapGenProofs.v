(* maps/treebidimap/treebidimap.go regenerated over two ABSTRACT redblacktree.Tree values (GodsGen.TreeBidiMapGen),
   both instantiated with the machine's model of the tree (comparator + optional (tree, size); None = panicked):
   New() installs GoCmp.compare in both trees, NewWith(kc, vc) the given ones; Put = tbidi_put, Remove =
   tbidi_remove (a panic of any step = StCrash), Clear = init; Get / GetKey / Size / Keys / Values = the observers. *)
From Coq Require Import ZArith List Lia Bool Arith.
From Gods Require Import Common.Cmp Common.ListAux Spec.SeqSpec Model.Ops Model.Machine.
From Gods Require Model.RBTree.
From Gods Require Import Proofs.C05Proofs.
From GodsGen Require TreeBidiMapGen.
From GodsGenProofs Require Import GenIterRun WrapCommon GoCmp.
From GodsGenProofs Require GoJson.
Import ListNotations.
Local Open Scope Z_scope.

Module B := TreeBidiMapGen.
Module RB := RBTree.

Definition rbtree := (cmpf * option rbs)%type.
Definition on_tree {A} (s : rbtree) (d : A) (f : cmpf -> rbs -> A) : A := match snd s with Some r => f (fst s) r | None => d end.
Definition upd_tree (s : rbtree) (f : cmpf -> rbs -> option rbs) : rbtree * unit :=
  ((fst s, match snd s with Some r => f (fst s) r | None => None end), tt).
Definition node_res (n : node) : node * bool := (n, node_nonnil n).

Definition IF : B.forwardMap_iface := B.mk_forwardMap_iface rbtree
  (fun s k => on_tree s (None, false) (fun cmp r => node_res (RB.ceiling cmp k (fst r))))
  (fun s => upd_tree s (fun _ _ => Some rbs_empty))
  (fun s => on_tree s true (fun _ r => snd r =? 0))
  (fun s k => on_tree s (None, false) (fun cmp r => node_res (RB.floor cmp k (fst r))))
  (fun s d => (s, true))   (* FromJSON(data): placeholder (always an error); the wrappers' delegation is proved for ANY interface *)
  (fun s k => on_tree s (0, false) (fun cmp r => opt_pair (rbs_get cmp k r)))
  (fun s => on_tree s [] (fun _ r => RB.keys (fst r)))
  (fun s => on_tree s None (fun _ r => RB.leftmost (fst r)))
  (fun s k v => upd_tree s (fun cmp r => rbs_put cmp k v r))
  (fun s k => upd_tree s (fun cmp r => rbs_remove cmp k r))
  (fun s => on_tree s None (fun _ r => RB.rightmost (fst r)))
  (fun s => on_tree s 0 (fun _ r => snd r))
  (fun s => (GoJson.nil_bytes, true))   (* ToJSON(): placeholder *)
  (fun s => on_tree s [] (fun _ r => RB.values (fst r)))
  (fun s => fst s)
  (GoCmp.compare, Some rbs_empty)
  (fun cmp => (cmp, Some rbs_empty)).
Definition II : B.inverseMap_iface := B.mk_inverseMap_iface rbtree
  (fun s k => on_tree s (None, false) (fun cmp r => node_res (RB.ceiling cmp k (fst r))))
  (fun s => upd_tree s (fun _ _ => Some rbs_empty))
  (fun s => on_tree s true (fun _ r => snd r =? 0))
  (fun s k => on_tree s (None, false) (fun cmp r => node_res (RB.floor cmp k (fst r))))
  (fun s d => (s, true))   (* FromJSON(data): placeholder (always an error); the wrappers' delegation is proved for ANY interface *)
  (fun s k => on_tree s (0, false) (fun cmp r => opt_pair (rbs_get cmp k r)))
  (fun s => on_tree s [] (fun _ r => RB.keys (fst r)))
  (fun s => on_tree s None (fun _ r => RB.leftmost (fst r)))
  (fun s k v => upd_tree s (fun cmp r => rbs_put cmp k v r))
  (fun s k => upd_tree s (fun cmp r => rbs_remove cmp k r))
  (fun s => on_tree s None (fun _ r => RB.rightmost (fst r)))
  (fun s => on_tree s 0 (fun _ r => snd r))
  (fun s => (GoJson.nil_bytes, true))   (* ToJSON(): placeholder *)
  (fun s => on_tree s [] (fun _ r => RB.values (fst r)))
  (fun s => fst s)
  (GoCmp.compare, Some rbs_empty)
  (fun cmp => (cmp, Some rbs_empty)).

Definition st2 (g : B.Map IF II) : state :=
  match snd (B.forwardMap IF II g), snd (B.inverseMap IF II g) with
  | Some (f, fn), Some (i, inn) => StTBidi f fn i inn
  | _, _ => StCrash
  end.
Definition cmps (g : B.Map IF II) : cmpf * cmpf := (fst (B.forwardMap IF II g), fst (B.inverseMap IF II g)).

Module Names.
Import Coq.Strings.String.
(* OBLIGATION *)
Theorem translated_functions :
  B.translated = ["All"; "Any"; "Clear"; "Empty"; "Find"; "FromJSON"; "Get"; "GetKey"; "Keys"; "Map_Map"; "MarshalJSON"; "New"; "NewWith"; "Put"; "Remove"; "Select"; "Size"; "ToJSON"; "UnmarshalJSON"; "Values"]%string
  /\ B.skipped = ["Each"; "String"]%string /\ B.not_selected = [].
Proof. repeat split. Qed.
Print Assumptions translated_functions.
End Names.

(* OBLIGATION: New() = NewWith(cmp.Compare, cmp.Compare) *)
Theorem New_equiv : B.New IF II = B.NewWith IF II GoCmp.compare GoCmp.compare /\ GoCmp.compare = cmp_of CNat.
Proof. split; reflexivity. Qed.
Print Assumptions New_equiv.

Section Equiv.
Variable c : config.
Hypothesis Hk : ckind c = TreeBidiMap.

(* OBLIGATION *)
Theorem NewWith_equiv : cmps (B.NewWith IF II (kc c) (vc c)) = (kc c, vc c) /\ init c = st2 (B.NewWith IF II (kc c) (vc c)).
Proof. split; [reflexivity|]. unfold init. now rewrite Hk. Qed.

Ltac step1 :=
  match goal with
  | |- context [rbs_get ?a ?b ?r] => is_var r; destruct (rbs_get a b r) eqn:?
  | |- context [rbs_remove ?a ?b ?r] => is_var r; destruct (rbs_remove a b r) eqn:?
  | |- context [rbs_put ?a ?b ?v ?r] => is_var r; destruct (rbs_put a b v r) eqn:?
  end; cbn -[rbs_get rbs_remove rbs_put].
Ltac abstract_pairs :=
  repeat match goal with
  | |- context [@pair RB.tree Z ?a ?b] => is_var a; is_var b; let P := fresh "P" in remember (a, b) as P
  end.
Ltac finish := subst; repeat match goal with r : rbs |- _ => destruct r | p : (RB.tree * Z)%type |- _ => destruct p end; try reflexivity.

(* OBLIGATION *)
Theorem Put_equiv : forall g k v, cmps g = (kc c, vc c) ->
  st2 (fst (B.Put IF II g k v)) = fst (fst (step c (st2 g) (Put k v))) /\ cmps (fst (B.Put IF II g k v)) = (kc c, vc c).
Proof.
  intros [[cf of] [ci oi]] k v Hc. unfold cmps in Hc. cbn in Hc. injection Hc as -> ->.
  destruct of as [[f fn]|], oi as [[i inn]|]; unfold B.Put, st2, cmps, step, tbidi_put; cbn -[rbs_get rbs_remove rbs_put];
    abstract_pairs; repeat step1; finish; split; finish.
Qed.

(* OBLIGATION *)
Theorem Remove_equiv : forall g k, cmps g = (kc c, vc c) ->
  st2 (fst (B.Remove IF II g k)) = fst (fst (step c (st2 g) (Remove k))) /\ cmps (fst (B.Remove IF II g k)) = (kc c, vc c).
Proof.
  intros [[cf of] [ci oi]] k Hc. unfold cmps in Hc. cbn in Hc. injection Hc as -> ->.
  destruct of as [[f fn]|], oi as [[i inn]|]; unfold B.Remove, st2, cmps, step, tbidi_remove; cbn -[rbs_get rbs_remove rbs_put];
    abstract_pairs; repeat step1; finish; split; finish.
Qed.

(* OBLIGATION *)
Theorem Clear_equiv : forall g, cmps g = (kc c, vc c) ->
  st2 (fst (B.Clear IF II g)) = fst (fst (step c (st2 g) Clear)) /\ cmps (fst (B.Clear IF II g)) = (kc c, vc c).
Proof.
  intros [[cf of] [ci oi]] Hc. unfold cmps in Hc. cbn in Hc. injection Hc as -> ->. split; [|reflexivity].
  destruct of as [[f fn]|], oi as [[i inn]|]; unfold B.Clear, st2, step, init; cbn; rewrite ?Hk; reflexivity.
Qed.

(* OBLIGATION *)
Theorem observers_equiv : forall f fn i inn k,
  let g := B.mkMap IF II (kc c, Some (f, fn)) (vc c, Some (i, inn)) in
  get_of c (st2 g) k = obs_pair (B.Get IF II g k) /\ getkey_of c (st2 g) k = obs_pair (B.GetKey IF II g k) /\
  B.Size IF II g = size_of c (st2 g) /\ B.Empty IF II g = (size_of c (st2 g) =? 0) /\
  B.Keys IF II g = keys_of c (st2 g) /\ B.Values IF II g = values_of c (st2 g).
Proof.
  intros f fn i inn k g. subst g. unfold get_of, getkey_of, B.Get, B.GetKey, keys_of, entries_of, values_of. cbn.
  unfold rbs_get. cbn [fst].
  destruct (RB.lookup (kc c) k f) as [[? ?]|], (RB.lookup (vc c) k i) as [[? ?]|]; repeat split.
Qed.
End Equiv.

Print Assumptions NewWith_equiv.
Print Assumptions Put_equiv.
Print Assumptions Remove_equiv.
Print Assumptions Clear_equiv.
Print Assumptions observers_equiv.

Inductive gop := GPut (k v : Z) | GRemove (k : Z) | GClear.
Definition gen_step (g : B.Map IF II) (o : gop) : B.Map IF II :=
  match o with GPut k v => fst (B.Put IF II g k v) | GRemove k => fst (B.Remove IF II g k) | GClear => fst (B.Clear IF II g) end.
Definition gen_run (kcmp vcmp : cmpf) (ops : list gop) : B.Map IF II := fold_left gen_step ops (B.NewWith IF II kcmp vcmp).
Definition to_op (o : gop) : op := match o with GPut k v => Put k v | GRemove k => Remove k | GClear => Clear end.

(* OBLIGATION *)
Theorem gen_run_simulates : forall c, ckind c = TreeBidiMap -> forall ops,
  run c (map to_op ops) = st2 (gen_run (kc c) (vc c) ops) /\ cmps (gen_run (kc c) (vc c) ops) = (kc c, vc c).
Proof.
  intros c Hk ops. induction ops as [|o ops IH] using rev_ind.
  - split; [|reflexivity]. unfold run, run_from. cbn [map fold_left]. exact (proj2 (NewWith_equiv c Hk)).
  - destruct IH as [Hrun Hc]. rewrite map_app. cbn [map]. rewrite run_snoc, Hrun. unfold gen_run. rewrite fold_left_app. cbn [fold_left].
    fold (gen_run (kc c) (vc c) ops). destruct o as [k v|k|]; cbn [to_op gen_step].
    + destruct (Put_equiv c _ k v Hc) as [H1 H2]. now rewrite H1.
    + destruct (Remove_equiv c _ k Hc) as [H1 H2]. now rewrite H1.
    + destruct (Clear_equiv c Hk _ Hc) as [H1 H2]. now rewrite H1.
Qed.
Print Assumptions gen_run_simulates.
