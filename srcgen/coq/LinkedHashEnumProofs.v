(* sets/linkedhashset/enumerable.go and maps/linkedhashmap/enumerable.go (in GodsGen.LinkedHashSetGen / LinkedHashMapGen):
   loops over Iterator(), the abstract enumerations [indexed ordering] / [lmap_entries table ordering], against
   Model/Machine.v existsb / forallb / find_first / select_of / map_of (results built by Add / Put on New()). *)
From Coq Require Import ZArith List Lia Bool Arith.
From Gods Require Import Common.Cmp Common.ListAux Spec.SeqSpec Model.Ops Model.Lists Model.Machine.
From GodsGen Require LinkedHashSetGen LinkedHashMapGen.
From GodsGenProofs Require Import GenIterRun WrapCommon GoMap HashSetGenProofs.
From GodsGenProofs Require LinkedHashSetGenProofs LinkedHashMapGenProofs.
Import ListNotations.
Local Open Scope Z_scope.

Module LS := LinkedHashSetGenProofs.
Module LM := LinkedHashMapGenProofs.
Module L := LS.L.
Module M := LM.M.

(* ====================== LinkedHashSet ====================== *)
Section SetEnum.
Variable c : config.
Hypothesis Hk : ckind c = LinkedHashSet.
Variable g : L.Set_ LS.I.
Notation es := (LS.enum g).

(* OBLIGATION *)
Theorem Set_Any_All_equiv : forall f,
  L.Any LS.I LS.enum g f = existsb (fun e => f (fst e) (snd e)) es /\ L.All LS.I LS.enum g f = forallb (fun e => f (fst e) (snd e)) es.
Proof.
  intros f. unfold L.Any, L.All. cbv zeta. generalize es as l. split.
  - induction l as [|e l IH]; cbn [L.Any_loop1 existsb]; [reflexivity|]. destruct (f (fst e) (snd e)); cbn [orb]; auto.
  - induction l as [|e l IH]; cbn [L.All_loop1 forallb]; [reflexivity|]. destruct (f (fst e) (snd e)); cbn [negb andb]; auto.
Qed.

(* OBLIGATION *)
Theorem Set_Find_equiv : forall p,
  L.Find LS.I LS.enum g (pred_eval p) = match find_first p es with Some (i, v) => (i, v) | None => (-1, 0) end.
Proof.
  intros p. unfold L.Find, find_first. cbv zeta. generalize es as l.
  induction l as [|[i v] l IH]; cbn [L.Find_loop1 find fst snd]; [reflexivity|]. destruct (pred_eval p i v); auto.
Qed.

Lemma set_fold_add : forall (P : Z * Z -> bool) (F : Z * Z -> Z) (body : L.Set_ LS.I -> Z * Z -> L.Set_ LS.I) l r,
  (forall r kv, body r kv = if P kv then fst (L.Add LS.I r [F kv]) else r) ->
  fold_left body l r = fold_left LS.add1 (map F (filter P l)) r.
Proof.
  intros P F body l r Hbody. revert r. induction l as [|kv l IH]; intros r; cbn [fold_left filter map]; [reflexivity|].
  rewrite IH, Hbody. destruct (P kv); cbn [map fold_left]; [now rewrite LS.Add_one|reflexivity].
Qed.

Lemma set_of_rel : forall vs, exists t o,
  add_values c vs (init c) = StLSet t o /\ LS.lset_rel (fold_left LS.add1 vs (L.New LS.I [])) t o.
Proof.
  intros vs. unfold add_values, init. rewrite Hk.
  pose proof (LS.fold_rel LS.add1 lset_add1 LS.add1_rel vs (L.New LS.I []) [] [] (conj eq_refl eq_refl)) as H.
  destruct (fold_left (fun acc x => lset_add1 x acc) vs ([], [])) as [t o]. exists t, o. split; [reflexivity|exact H].
Qed.

(* OBLIGATION *)
Theorem Set_Select_equiv : forall p, exists t o,
  select_of c p es = StLSet t o /\ LS.lset_rel (L.Select LS.I LS.enum g (pred_eval p)) t o.
Proof.
  intros p. unfold L.Select, select_of. rewrite Hk. cbn [is_kv]. cbv zeta.
  match goal with |- context [fold_left ?B es ?R] =>
    rewrite (set_fold_add (fun e => pred_eval p (fst e) (snd e)) snd B es R)
      by (intros r kv; destruct (pred_eval p (fst kv) (snd kv)); reflexivity) end.
  apply set_of_rel.
Qed.

(* OBLIGATION *)
Theorem Set_Map_equiv : forall mf, exists t o,
  map_of c mf es = StLSet t o /\ LS.lset_rel (L.Map LS.I LS.enum g (fun i v => snd (mapf_eval mf i v))) t o.
Proof.
  intros mf. unfold L.Map, map_of. rewrite Hk. cbn [is_kv]. cbv zeta.
  match goal with |- context [fold_left ?B es ?R] =>
    rewrite (set_fold_add (fun _ => true) (fun e => snd (mapf_eval mf (fst e) (snd e))) B es R) by (intros r kv; reflexivity) end.
  rewrite filter_true_pairs. rewrite <- (map_map (fun e => mapf_eval mf (fst e) (snd e)) snd). apply set_of_rel.
Qed.
End SetEnum.

Print Assumptions Set_Any_All_equiv.
Print Assumptions Set_Find_equiv.
Print Assumptions Set_Select_equiv.
Print Assumptions Set_Map_equiv.

(* ====================== LinkedHashMap ====================== *)
Section MapEnum.
Variable c : config.
Hypothesis Hk : ckind c = LinkedHashMap.
Variable g : M.Map LM.I.
Notation es := (LM.enum g).
Notation st x := (StLMap (M.table LM.I x) (M.ordering LM.I x)).

(* OBLIGATION *)
Theorem Map_Any_All_equiv : forall f,
  M.Any LM.I LM.enum g f = existsb (fun e => f (fst e) (snd e)) es /\ M.All LM.I LM.enum g f = forallb (fun e => f (fst e) (snd e)) es.
Proof.
  intros f. unfold M.Any, M.All. cbv zeta. generalize es as l. split.
  - induction l as [|e l IH]; cbn [M.Any_loop1 existsb]; [reflexivity|]. destruct (f (fst e) (snd e)); cbn [orb]; auto.
  - induction l as [|e l IH]; cbn [M.All_loop1 forallb]; [reflexivity|]. destruct (f (fst e) (snd e)); cbn [negb andb]; auto.
Qed.

(* OBLIGATION *)
Theorem Map_Find_equiv : forall p,
  M.Find LM.I LM.enum g (pred_eval p) = match find_first p es with Some (i, v) => (i, v) | None => (0, 0) end.
Proof.
  intros p. unfold M.Find, find_first. cbv zeta. generalize es as l.
  induction l as [|[i v] l IH]; cbn [M.Find_loop1 find fst snd]; [reflexivity|]. destruct (pred_eval p i v); auto.
Qed.

Definition put1 (r : M.Map LM.I) (e : Z * Z) : M.Map LM.I := fst (M.Put LM.I r (fst e) (snd e)).

Lemma map_fold_put : forall (P : Z * Z -> bool) (F : Z * Z -> Z * Z) (body : M.Map LM.I -> Z * Z -> M.Map LM.I) l r,
  (forall r kv, body r kv = if P kv then put1 r (F kv) else r) ->
  fold_left body l r = fold_left put1 (map F (filter P l)) r.
Proof.
  intros P F body l r Hbody. revert r. induction l as [|kv l IH]; intros r; cbn [fold_left filter map]; [reflexivity|].
  rewrite IH, Hbody. destruct (P kv); reflexivity.
Qed.

Lemma put_entries_st : forall l r, put_entries c l (st r) = st (fold_left put1 l r).
Proof.
  intros l r. unfold put_entries.
  assert (H : forall l r, fold_left (fun acc e => lmap_put (fst e) (snd e) acc) l (@pair (list (Z * Z)) (list Z) (M.table LM.I r) (M.ordering LM.I r))
              = @pair (list (Z * Z)) (list Z) (M.table LM.I (fold_left put1 l r)) (M.ordering LM.I (fold_left put1 l r))).
  { clear l r. induction l as [|e l IH]; intros r; cbn [fold_left]; [reflexivity|].
    pose proof (LM.Put_equiv c r (fst e) (snd e)) as HP. unfold step in HP.
    destruct (lmap_put (fst e) (snd e) (@pair (list (Z * Z)) (list Z) (M.table LM.I r) (M.ordering LM.I r))) as [t o] eqn:E.
    injection HP as Ht Ho. rewrite <- (IH (put1 r e)). unfold put1. now rewrite <- Ht, <- Ho. }
  rewrite H. reflexivity.
Qed.

Lemma init_new : init c = st (M.New LM.I).
Proof. exact (LM.New_equiv c Hk). Qed.

(* OBLIGATION *)
Theorem Map_Select_equiv : forall p, select_of c p es = st (M.Select LM.I LM.enum g (pred_eval p)).
Proof.
  intros p. unfold M.Select, select_of. rewrite Hk. cbn [is_kv]. cbv zeta.
  match goal with |- context [fold_left ?B es ?R] =>
    rewrite (map_fold_put (fun e => pred_eval p (fst e) (snd e)) (fun e => e) B es R)
      by (intros r kv; unfold put1; destruct (pred_eval p (fst kv) (snd kv)); reflexivity) end.
  rewrite map_id, init_new. apply put_entries_st.
Qed.

(* OBLIGATION *)
Theorem Map_Map_equiv : forall mf, map_of c mf es = st (M.Map_Map LM.I LM.enum g (mapf_eval mf)).
Proof.
  intros mf. unfold M.Map_Map, map_of. rewrite Hk. cbn [is_kv]. cbv zeta.
  match goal with |- context [fold_left ?B es ?R] =>
    rewrite (map_fold_put (fun _ => true) (fun e => mapf_eval mf (fst e) (snd e)) B es R)
      by (intros r kv; unfold put1; destruct (mapf_eval mf (fst kv) (snd kv)); reflexivity) end.
  rewrite filter_true_pairs, init_new. apply put_entries_st.
Qed.
End MapEnum.

Print Assumptions Map_Any_All_equiv.
Print Assumptions Map_Find_equiv.
Print Assumptions Map_Select_equiv.
Print Assumptions Map_Map_equiv.
