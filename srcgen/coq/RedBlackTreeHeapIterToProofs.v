(* NextTo / PrevTo of trees/redblacktree/iterator.go in TREE POINTER MODE (GodsGen.RedBlackTreeHeapGen): on a represented tree
   the GENERATED loops `for iterator.Next() { if f(Key(), Value()) { return true } } return false` are the model's
   Iter.move_to over Iter.rb_next / Iter.rb_prev and RB.ikv (Model/Iter.v: what Proofs/IterTreeRB.v proves to be the cursor
   scan c_next_to / c_prev_to over RB.inorder), for every predicate of the harness family (pred_eval p as the callback);
   never None when the fuel exceeds the model's fuel by S (RB.height t). *)
From Coq Require Import ZArith List Lia Bool Arith.
From Gods Require Import Common.Cmp Model.RBTree Model.Ops Model.Iter.
From GodsGenProofs Require Import GoCmp GoTreeHeap RBTreeHeapRep RedBlackTreeHeapIterProofs.
From GodsGen Require RedBlackTreeHeapGen.
Import ListNotations.
Local Open Scope Z_scope.

Lemma NextTo_loop_spec : forall h tr pt p, rep h None pt -> NoDup (addrs pt) -> G.Tree_Root tr = root_ptr pt ->
  forall m it ip fuel ip' b, irep pt it ip -> (m + RB.height (erase pt) < fuel)%nat ->
  Iter.move_to RB.ipos (RB.ikv (erase pt)) (Iter.rb_next (erase pt)) p m ip = Some (ip', b) ->
  exists it', G.NextTo_loop1 fuel h tr it (pred_eval p) = Some (if b then Some (it', true) else None, it') /\ irep pt it' ip'.
Proof.
  intros h tr pt p Hrep Hnd Hroot. induction m as [|m IH]; intros it ip fuel ip' b Hir Hf Hmod; [discriminate|].
  cbn [Iter.move_to] in Hmod. unfold Iter.rb_next in Hmod at 1.
  destruct (Next_correct h tr pt it ip fuel Hrep Hnd Hroot Hir ltac:(lia)) as (it1 & Hrun & Hir1).
  destruct fuel as [|fuel]; [lia|]. cbn [G.NextTo_loop1]. rewrite Hrun.
  destruct (RB.inext (erase pt) ip) as [| |p1] eqn:Enext; cbn [is_between].
  - injection Hmod as <- <-. exists it1. split; [reflexivity|exact Hir1].
  - injection Hmod as <- <-. exists it1. split; [reflexivity|exact Hir1].
  - destruct (Key_Value_correct h pt it1 p1 Hrep Hir1) as (k & v & Hkv & HK & HV & _). rewrite Hkv in Hmod. rewrite HK, HV. cbv zeta.
    destruct (pred_eval p k v).
    + injection Hmod as <- <-. exists it1. split; [reflexivity|exact Hir1].
    + destruct (IH it1 (RB.IBetween p1) fuel ip' b Hir1 ltac:(lia) Hmod) as (it' & Hrun' & Hir'). exists it'. split; [exact Hrun'|exact Hir'].
Qed.

Lemma PrevTo_loop_spec : forall h tr pt p, rep h None pt -> NoDup (addrs pt) -> G.Tree_Root tr = root_ptr pt ->
  forall m it ip fuel ip' b, irep pt it ip -> (m + RB.height (erase pt) < fuel)%nat ->
  Iter.move_to RB.ipos (RB.ikv (erase pt)) (Iter.rb_prev (erase pt)) p m ip = Some (ip', b) ->
  exists it', G.PrevTo_loop1 fuel h tr it (pred_eval p) = Some (if b then Some (it', true) else None, it') /\ irep pt it' ip'.
Proof.
  intros h tr pt p Hrep Hnd Hroot. induction m as [|m IH]; intros it ip fuel ip' b Hir Hf Hmod; [discriminate|].
  cbn [Iter.move_to] in Hmod. unfold Iter.rb_prev in Hmod at 1.
  destruct (Prev_correct h tr pt it ip fuel Hrep Hnd Hroot Hir ltac:(lia)) as (it1 & Hrun & Hir1).
  destruct fuel as [|fuel]; [lia|]. cbn [G.PrevTo_loop1]. rewrite Hrun.
  destruct (RB.iprev (erase pt) ip) as [| |p1] eqn:Eprev; cbn [is_between].
  - injection Hmod as <- <-. exists it1. split; [reflexivity|exact Hir1].
  - injection Hmod as <- <-. exists it1. split; [reflexivity|exact Hir1].
  - destruct (Key_Value_correct h pt it1 p1 Hrep Hir1) as (k & v & Hkv & HK & HV & _). rewrite Hkv in Hmod. rewrite HK, HV. cbv zeta.
    destruct (pred_eval p k v).
    + injection Hmod as <- <-. exists it1. split; [reflexivity|exact Hir1].
    + destruct (IH it1 (RB.IBetween p1) fuel ip' b Hir1 ltac:(lia) Hmod) as (it' & Hrun' & Hir'). exists it'. split; [exact Hrun'|exact Hir'].
Qed.

(* OBLIGATION *)
Theorem NextTo_PrevTo_correct : forall h tr pt p it ip m fuel ip' b,
  rep h None pt -> NoDup (addrs pt) -> G.Tree_Root tr = root_ptr pt -> irep pt it ip ->
  (m + RB.height (erase pt) < fuel)%nat ->
  (Iter.move_to RB.ipos (RB.ikv (erase pt)) (Iter.rb_next (erase pt)) p m ip = Some (ip', b) ->
   exists it', G.NextTo fuel h tr it (pred_eval p) = Some (it', b) /\ irep pt it' ip') /\
  (Iter.move_to RB.ipos (RB.ikv (erase pt)) (Iter.rb_prev (erase pt)) p m ip = Some (ip', b) ->
   exists it', G.PrevTo fuel h tr it (pred_eval p) = Some (it', b) /\ irep pt it' ip').
Proof.
  intros h tr pt p it ip m fuel ip' b Hrep Hnd Hroot Hir Hf. split; intro Hmod.
  - destruct (NextTo_loop_spec h tr pt p Hrep Hnd Hroot m it ip fuel ip' b Hir Hf Hmod) as (it' & Hrun & Hir').
    exists it'. unfold G.NextTo. rewrite Hrun. destruct b; split; try reflexivity; exact Hir'.
  - destruct (PrevTo_loop_spec h tr pt p Hrep Hnd Hroot m it ip fuel ip' b Hir Hf Hmod) as (it' & Hrun & Hir').
    exists it'. unfold G.PrevTo. rewrite Hrun. destruct b; split; try reflexivity; exact Hir'.
Qed.
Print Assumptions NextTo_PrevTo_correct.
