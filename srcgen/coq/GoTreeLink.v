(* Hand-written support for POINTERS TO POINTERS in the tree pointer mode of srcgen (treelink.go): Go's `qp **Node` is
   the address of a LINK -- the root slot of the tree header (`&tree.Root`) or a child slot of a node
   (`&q.Children[a]`).  The heap struct is arbitrary (N); [get] / [set] are the generated projection / updater of its
   `[2]*Node` field.  The content of the root slot is passed explicitly ([root]): in a method of the tree header it is
   the receiver's field, in a plain function a parameter.  Everything that can panic in Go is None. *)
From Coq Require Import ZArith List Bool Arith Lia.
From GodsGenProofs Require Import GoTreeHeap.
Import ListNotations.

Inductive link := LRoot | LChild (a : nat) (i : Z).

Section Link.
Context {N : Type}.
Variable get : N -> arr2.
Variable set : arr2 -> N -> N.

(* &p.Children[i]: nil / unallocated p and an index outside 0..1 panic *)
Definition link_child (h : heap N) (p : ptr) (i : Z) : option link :=
  match p with
  | None => None
  | Some a => match hread h a with
              | None => None
              | Some c => match arr2_get (get c) i with None => None | Some _ => Some (LChild a i) end
              end
  end.

(* *qp *)
Definition link_get (h : heap N) (root : ptr) (l : link) : option ptr :=
  match l with
  | LRoot => Some root
  | LChild a i => match hread h a with None => None | Some c => arr2_get (get c) i end
  end.

(* *qp = x: the new heap and the new content of the root slot *)
Definition link_set (h : heap N) (root : ptr) (l : link) (x : ptr) : option (heap N * ptr) :=
  match l with
  | LRoot => Some (h, x)
  | LChild a i =>
    match hread h a with
    | None => None
    | Some c => match arr2_set (get c) i x with
                | None => None
                | Some ar => match store h (Some a) (set ar) with None => None | Some h' => Some (h', root) end
                end
    end
  end.

(* &p.Key: the node's address; nil / unallocated p panics *)
Definition field_addr (h : heap N) (p : ptr) : option nat :=
  match p with
  | None => None
  | Some a => match hread h a with None => None | Some _ => Some a end
  end.
End Link.

(* int8(e): wrap-around to -128 .. 127 *)
Definition to_int8 (z : Z) : Z := ((z + 128) mod 256 - 128)%Z.
Lemma to_int8_id : forall z, (-128 <= z < 128)%Z -> to_int8 z = z.
Proof. intros z H. unfold to_int8. rewrite Z.mod_small; lia. Qed.
