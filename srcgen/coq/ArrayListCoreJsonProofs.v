(* lists/arraylist/serialization.go (in GodsGen.ArrayListCoreGen), encoding/json abstract: FromJSON decodes into a FRESH
   nil slice -- never into the receiver's storage --, on an error the receiver is unchanged, on success the decoded
   slice becomes the backing list (Machine.load_array: StSeq vs); ToJSON marshals the live elements ("[]" for a nil
   slice, which is empty); MarshalJSON / UnmarshalJSON delegate. *)
From Coq Require Import String.
From Coq Require Import ZArith List Lia Bool Arith.
From Gods Require Import Common.Cmp Common.ListAux Spec.SeqSpec Model.Ops Model.Lists Model.Machine.
From GodsGen Require ArrayListCoreGen.
From GodsGenProofs Require Import GenIterRun GoSlice GoJson ArrayListCoreProofs.
Import ListNotations.
Local Open Scope Z_scope.

Section Json.
Variable umc : bytes -> slice -> slice * bool.        (* json.Unmarshal into a []T *)
Variable ms : list Z -> bytes * bool.
Variable nilp : slice -> bool.                        (* s == nil *)
Variable c : config.
Hypothesis Hk : ckind c = ArrayList.

(* OBLIGATION *)
Theorem FromJSON_equiv : forall g data, sl_wf (fst (umc data sl_nil)) ->
  if snd (umc data sl_nil) then A.FromJSON umc g data = (g, true)
  else al_rel (fst (A.FromJSON umc g data)) (sl_list (fst (umc data sl_nil))) /\
       load_array c (sl_list (fst (umc data sl_nil))) = StSeq (sl_list (fst (umc data sl_nil))) /\
       snd (A.FromJSON umc g data) = false.
Proof.
  intros g data Hw. unfold A.FromJSON. destruct (umc data sl_nil) as [s e]. destruct e; cbn [fst snd negb]; [reflexivity|].
  cbn [A.set_elements]. unfold load_array. rewrite Hk. repeat split. exact Hw.
Qed.

(* OBLIGATION *)
Theorem ToJSON_equiv : forall g l, al_rel g l ->
  A.ToJSON ms nilp g = (if nilp (A.elements g) then (lit "[]"%string, false) else ms l) /\
  A.MarshalJSON ms nilp g = A.ToJSON ms nilp g /\
  (forall data, A.UnmarshalJSON umc g data = A.FromJSON umc g data).
Proof.
  intros g l [Hw Hl]. unfold A.ToJSON, A.MarshalJSON, A.UnmarshalJSON. rewrite Hl. repeat split.
  - destruct (nilp (A.elements g)); [reflexivity|now destruct (ms l)].
  - unfold A.ToJSON. rewrite Hl. destruct (nilp (A.elements g)); [reflexivity|now destruct (ms l)].
  - intros data. now destruct (A.FromJSON umc g data).
Qed.
End Json.

Print Assumptions FromJSON_equiv.
Print Assumptions ToJSON_equiv.
