(* queues/priorityqueue/priorityqueue.go regenerated over an ABSTRACT heap interface
   (GodsGen.PriorityQueueWrapGen), instantiated with the hand-written binary-heap model (Model/Heap.v:
   push, pop, values, with the configuration's comparator), equals what Model/Machine.v does for kind
   PriorityQueue: step (Enqueue, Dequeue, Clear), peek_of, size_of, values_of; runs of the generated
   methods are the machine's runs (so the heap / priority-queue properties proved of the machine hold of
   the generated wrapper). *)
From Coq Require Import ZArith List Lia Bool Arith.
From Gods Require Import Common.Cmp Common.ListAux Spec.SeqSpec Model.Ops Model.Lists Model.Machine.
From Gods Require Model.Heap.
From Gods Require Import Proofs.C05Proofs.
From GodsGen Require PriorityQueueWrapGen.
From GodsGenProofs Require Import GenIterRun WrapCommon.
Import ListNotations.
Local Open Scope Z_scope.

Module W := PriorityQueueWrapGen.

(* the wrapped binaryheap.Heap, as the model has it: the backing array, ordered by cmp *)
Definition I (cmp : cmpf) : W.heap_iface := W.mk_heap_iface (list Z)
  (fun _ => ([], tt))                                            (* Clear() *)
  (fun h => zlen h =? 0)                                         (* Empty() *)
  (fun _ d => (Heap.heapify_from cmp d (length d / 2 + 1), false)) (* FromJSON(data): placeholder codec (bytes = the element list) *)
  (fun h => opt_pair (hd_error h))                               (* Peek() *)
  (fun h => let '(h', r) := Heap.pop cmp h in (h', opt_pair r))  (* Pop() *)
  (fun h vs => (Heap.push cmp vs h, tt))                         (* Push(values...) *)
  (fun h => zlen h)                                              (* Size() *)
  (fun h => (h, false))                                          (* ToJSON(): placeholder codec *)
  (fun h => Heap.values cmp h).                                  (* Values() *)

Module Names.
Import Coq.Strings.String.
(* OBLIGATION *)
Theorem translated_functions :
  W.translated = ["Clear"; "Dequeue"; "Empty"; "Enqueue"; "FromJSON"; "MarshalJSON"; "Peek"; "Size"; "ToJSON"; "UnmarshalJSON"; "Values"]%string
  /\ W.skipped = ["New"; "NewWith"; "String"]%string /\ W.not_selected = [].
Proof. repeat split. Qed.
Print Assumptions translated_functions.
End Names.

Section Equiv.
Variable c : config.
Hypothesis Hk : ckind c = PriorityQueue.
Notation J := (I (kc c)).
Notation content s := (W.heap J s).

(* OBLIGATION *)
Theorem Enqueue_equiv : forall s v,
  step c (StHeap (content s)) (Enqueue v) = (StHeap (content (fst (W.Enqueue J s v))), ounit, onone).
Proof. intros [h] v. unfold step. rewrite Hk. reflexivity. Qed.

(* OBLIGATION *)
Theorem Dequeue_equiv : forall s,
  step c (StHeap (content s)) Dequeue = (StHeap (content (fst (W.Dequeue J s))), obs_pair (snd (W.Dequeue J s)), onone).
Proof.
  intros [h]. unfold step. rewrite Hk. unfold W.Dequeue. cbn [W.heap W.heap_Pop I W.set_heap].
  destruct (Heap.pop (kc c) h) as [h' r]. destruct r as [v|]; reflexivity.
Qed.

(* OBLIGATION *)
Theorem Peek_equiv : forall s, peek_of c (StHeap (content s)) = obs_pair (W.Peek J s).
Proof.
  intros [h]. unfold peek_of, W.Peek. cbn [W.heap W.heap_Peek I].
  destruct (hd_error h) as [v|]; reflexivity.
Qed.

(* OBLIGATION *)
Theorem Size_equiv : forall s, W.Size J s = size_of c (StHeap (content s)).
Proof. intros [h]. reflexivity. Qed.

(* OBLIGATION *)
Theorem Empty_equiv : forall s, W.Empty J s = (size_of c (StHeap (content s)) =? 0).
Proof. intros [h]. reflexivity. Qed.

(* OBLIGATION *)
Theorem Clear_equiv : forall s,
  step c (StHeap (content s)) Clear = (StHeap (content (fst (W.Clear J s))), ounit, onone).
Proof. intros [h]. unfold step, init. rewrite Hk. reflexivity. Qed.

(* OBLIGATION *)
Theorem Values_equiv : forall s, W.Values J s = values_of c (StHeap (content s)).
Proof. intros [h]. reflexivity. Qed.
End Equiv.

Print Assumptions Enqueue_equiv.
Print Assumptions Dequeue_equiv.
Print Assumptions Peek_equiv.
Print Assumptions Size_equiv.
Print Assumptions Empty_equiv.
Print Assumptions Clear_equiv.
Print Assumptions Values_equiv.

(* ---------- runs of the generated methods ---------- *)
Inductive gop := GEnqueue (v : Z) | GDequeue | GClear.
Definition gen_step (cmp : cmpf) (s : W.Queue (I cmp)) (o : gop) : W.Queue (I cmp) :=
  match o with
  | GEnqueue v => fst (W.Enqueue (I cmp) s v)
  | GDequeue => fst (W.Dequeue (I cmp) s)
  | GClear => fst (W.Clear (I cmp) s)
  end.
Definition gen_run (cmp : cmpf) (s : W.Queue (I cmp)) (ops : list gop) : W.Queue (I cmp) := fold_left (gen_step cmp) ops s.
Definition to_op (o : gop) : op := match o with GEnqueue v => Enqueue v | GDequeue => Dequeue | GClear => Clear end.

(* OBLIGATION: lock-step with the machine from the empty queue; Values() / Size() / Peek() of the generated
   wrapper are the machine's observations *)
Theorem gen_run_simulates : forall c s0, ckind c = PriorityQueue -> W.heap (I (kc c)) s0 = [] ->
  forall ops,
    let s := gen_run (kc c) s0 ops in
    run c (map to_op ops) = StHeap (W.heap (I (kc c)) s) /\
    W.Values (I (kc c)) s = values_of c (run c (map to_op ops)) /\
    W.Size (I (kc c)) s = size_of c (run c (map to_op ops)) /\
    obs_pair (W.Peek (I (kc c)) s) = peek_of c (run c (map to_op ops)).
Proof.
  intros c s0 Hk H0 ops s.
  assert (Hrun : run c (map to_op ops) = StHeap (W.heap (I (kc c)) s)).
  { subst s. induction ops as [|o ops IH] using rev_ind.
    - cbn. unfold run, run_from, init. cbn [fold_left]. rewrite Hk, H0. reflexivity.
    - rewrite map_app. cbn [map]. rewrite run_snoc, IH. unfold gen_run. rewrite fold_left_app. cbn [fold_left].
      fold (gen_run (kc c) s0 ops).
      destruct o as [v| |]; cbn [to_op gen_step].
      + now rewrite (Enqueue_equiv c Hk).
      + now rewrite (Dequeue_equiv c Hk).
      + now rewrite (Clear_equiv c Hk). }
  rewrite Hrun. refine (conj eq_refl (conj _ (conj _ _))).
  - apply Values_equiv.
  - apply Size_equiv.
  - symmetry. apply Peek_equiv.
Qed.
Print Assumptions gen_run_simulates.
