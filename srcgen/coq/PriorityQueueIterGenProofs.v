(* queues/priorityqueue/iterator.go regenerated over an ABSTRACT heap-iterator interface (GodsGen.PriorityQueueIterGen;
   the struct Queue is read from priorityqueue.go): for ANY implementation of the wrapped *binaryheap.Iterator, every
   method of the priority queue's iterator is exactly the wrapped iterator's method on the wrapped state (nothing
   else is read or changed).  The wrapped iterator itself is trees/binaryheap/iterator.go: BinaryHeapIterGenProofs.v.
   The constructor Queue.Iterator() (it wraps heap.Iterator()) is skipped by name. *)
From Coq Require Import ZArith List Bool.
From GodsGen Require PriorityQueueIterGen.
Import ListNotations.
Local Open Scope Z_scope.

Module P := PriorityQueueIterGen.

Module Names.
Import Coq.Strings.String.
(* OBLIGATION *)
Theorem translated_functions :
  P.translated = ["Begin"; "End"; "First"; "Index"; "Last"; "Next"; "NextTo"; "Prev"; "PrevTo"; "Value"]%string
  /\ P.skipped = ["Iterator"]%string /\ P.not_selected = [].
Proof. repeat split. Qed.
Print Assumptions translated_functions.
End Names.

Section AnyIterator.
Variable J : P.iterator_iface.
Notation mkI x := (P.mkIterator J x).
Notation st it := (P.iterator J it).

Definition lift2 {B} (r : P.iterator_T J * B) : P.Iterator J * B := (mkI (fst r), snd r).

(* OBLIGATION: pure delegation, for any wrapped iterator *)
Theorem delegation : forall it f,
  P.Next J it = lift2 (P.iterator_Next J (st it)) /\ P.Prev J it = lift2 (P.iterator_Prev J (st it)) /\
  P.First J it = lift2 (P.iterator_First J (st it)) /\ P.Last J it = lift2 (P.iterator_Last J (st it)) /\
  P.Begin J it = lift2 (P.iterator_Begin J (st it)) /\ P.End J it = lift2 (P.iterator_End J (st it)) /\
  P.NextTo J it f = lift2 (P.iterator_NextTo J (st it) f) /\ P.PrevTo J it f = lift2 (P.iterator_PrevTo J (st it) f) /\
  P.Value J it = P.iterator_Value J (st it) /\ P.Index J it = P.iterator_Index J (st it).
Proof.
  intros [x] f. unfold P.Next, P.Prev, P.First, P.Last, P.Begin, P.End, P.NextTo, P.PrevTo, P.Value, P.Index, lift2, P.set_iterator.
  cbn [P.iterator].
  destruct (P.iterator_Next J x), (P.iterator_Prev J x), (P.iterator_First J x), (P.iterator_Last J x),
    (P.iterator_Begin J x) as [? []], (P.iterator_End J x) as [? []], (P.iterator_NextTo J x f), (P.iterator_PrevTo J x f).
  repeat split.
Qed.
End AnyIterator.
Print Assumptions delegation.
