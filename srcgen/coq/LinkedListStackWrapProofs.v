(* stacks/linkedliststack/linkedliststack.go regenerated over an ABSTRACT list interface (GodsGen.LinkedListStackWrapGen),
   instantiated with the hand-written SinglyLinkedList model (Model/Lists.v: sll_prepend, sll_get, sll_remove; zlen),
   equals what Model/Machine.v does for kind LinkedListStack: step (Push, Pop, Clear), peek_of, size_of,
   values_of.  Corollary: runs of the generated Push / Pop / Clear are the machine's runs, so C05 (LIFO,
   Values() in removal order) holds of the generated wrapper. *)
From Coq Require Import ZArith List Lia Bool Arith.
From Gods Require Import Common.Cmp Common.ListAux Spec.SeqSpec Spec.FifoSpec Model.Ops Model.Lists Model.Machine.
From Gods Require Import Proofs.C05Proofs.
From GodsGen Require LinkedListStackWrapGen.
From GodsGenProofs Require Import GenIterRun WrapCommon.
Import ListNotations.
Local Open Scope Z_scope.

Module W := LinkedListStackWrapGen.

(* the wrapped arraylist.List, as the model has it: a sequence *)
Definition I : W.list_iface := W.mk_list_iface (list Z)
  (fun l vs => (sll_add vs l, tt))         (* Add(values...) *)
  (fun l vs => (sll_add vs l, tt))         (* Append(values...) = Add *)
  (fun _ => ([], tt))                      (* Clear() *)
  (fun l => zlen l =? 0)                   (* Empty() *)
  (fun _ d => (sll_add d [], false))       (* FromJSON(data): placeholder codec (bytes = the element list) *)
  (fun l i => opt_pair (sll_get i l))      (* Get(i) *)
  (fun l vs => (sll_prepend vs l, tt))     (* Prepend(values...) *)
  (fun l i => (sll_remove i l, tt))        (* Remove(i) *)
  (fun l => zlen l)                        (* Size() *)
  (fun l => (l, false))                    (* ToJSON(): placeholder codec *)
  (fun l => l).                            (* Values() *)

Notation content s := (W.list_ I s).

Module Names.
Import Coq.Strings.String.
(* OBLIGATION *)
Theorem translated_functions :
  W.translated = ["Clear"; "Empty"; "FromJSON"; "MarshalJSON"; "Peek"; "Pop"; "Push"; "Size"; "ToJSON"; "UnmarshalJSON"; "Values"; "withinRange"]%string
  /\ W.skipped = ["New"; "String"]%string /\ W.not_selected = [].
Proof. repeat split. Qed.
Print Assumptions translated_functions.
End Names.

Section Equiv.
Variable c : config.
Hypothesis Hk : ckind c = LinkedListStack.

(* OBLIGATION *)
Theorem Push_equiv : forall s v,
  step c (StSeq (content s)) (Push v) = (StSeq (content (fst (W.Push I s v))), ounit, onone).
Proof. intros [l] v. unfold step. rewrite Hk. reflexivity. Qed.

(* OBLIGATION *)
Theorem Pop_equiv : forall s,
  step c (StSeq (content s)) Pop = (StSeq (content (fst (W.Pop I s))), obs_pair (snd (W.Pop I s)), onone).
Proof.
  intros [l]. unfold step. rewrite Hk. unfold W.Pop. cbn [W.list_ W.list_Get W.list_Remove I W.set_list].
  destruct (opt_pair (sll_get 0 l)) as [v ok] eqn:E. cbn [fst snd W.list_].
  rewrite <- E, obs_pair_opt. reflexivity.
Qed.

(* OBLIGATION *)
Theorem Peek_equiv : forall s, peek_of c (StSeq (content s)) = obs_pair (W.Peek I s).
Proof.
  intros [l]. unfold peek_of. rewrite Hk. unfold W.Peek. cbn [W.list_ W.list_Get I].
  destruct (opt_pair (sll_get 0 l)) as [v ok] eqn:E. rewrite <- E, obs_pair_opt. reflexivity.
Qed.

(* OBLIGATION *)
Theorem Size_equiv : forall s, W.Size I s = size_of c (StSeq (content s)).
Proof. intros [l]. reflexivity. Qed.

(* OBLIGATION *)
Theorem Empty_equiv : forall s, W.Empty I s = (size_of c (StSeq (content s)) =? 0).
Proof. intros [l]. reflexivity. Qed.

(* OBLIGATION *)
Theorem Clear_equiv : forall s,
  step c (StSeq (content s)) Clear = (StSeq (content (fst (W.Clear I s))), ounit, onone).
Proof. intros [l]. unfold step, init. rewrite Hk. reflexivity. Qed.

(* OBLIGATION *)
Theorem withinRange_equiv : forall s i, W.withinRange I s i = within i (content s).
Proof. intros [l] i. reflexivity. Qed.

(* OBLIGATION *)
Theorem Values_equiv : forall s, W.Values I s = values_of c (StSeq (content s)).
Proof. intros [l]. unfold values_of. rewrite Hk. reflexivity. Qed.
End Equiv.

Print Assumptions Push_equiv.
Print Assumptions Pop_equiv.
Print Assumptions Peek_equiv.
Print Assumptions Size_equiv.
Print Assumptions Empty_equiv.
Print Assumptions Clear_equiv.
Print Assumptions withinRange_equiv.
Print Assumptions Values_equiv.

(* ---------- runs of the generated methods ---------- *)
Inductive gop := GPush (v : Z) | GPop | GClear.
Definition gen_step (s : W.Stack I) (o : gop) : W.Stack I :=
  match o with
  | GPush v => fst (W.Push I s v)
  | GPop => fst (W.Pop I s)
  | GClear => fst (W.Clear I s)
  end.
Definition gen_run (s : W.Stack I) (ops : list gop) : W.Stack I := fold_left gen_step ops s.
Definition to_op (o : gop) : op := match o with GPush v => Push v | GPop => Pop | GClear => Clear end.

(* OBLIGATION: lock-step with the machine from the empty stack *)
Theorem gen_run_simulates : forall c s0, ckind c = LinkedListStack -> content s0 = [] ->
  forall ops, run c (map to_op ops) = StSeq (content (gen_run s0 ops)).
Proof.
  intros c s0 Hk H0 ops. induction ops as [|o ops IH] using rev_ind.
  - cbn. unfold run, run_from, init. cbn [fold_left]. rewrite Hk, H0. reflexivity.
  - rewrite map_app. cbn [map]. rewrite run_snoc, IH. unfold gen_run. rewrite fold_left_app. cbn [fold_left].
    fold (gen_run s0 ops).
    destruct o as [v| |]; cbn [to_op gen_step].
    + now rewrite (Push_equiv c Hk).
    + now rewrite (Pop_equiv c Hk).
    + now rewrite (Clear_equiv c Hk).
Qed.
Print Assumptions gen_run_simulates.

(* OBLIGATION: C05 for the generated wrapper: Values() is the abstract LIFO content (top first), Size its
   length, Pop / Peek its head *)
Theorem gen_C05 : forall c s0, ckind c = LinkedListStack -> content s0 = [] -> forall ops,
  let s := gen_run s0 ops in
  let q := abs_run c (map to_op ops) in
  W.Values I s = q /\ W.Size I s = Z.of_nat (length q) /\
  obs_pair (snd (W.Pop I s)) = oopt (hd_error q) /\ obs_pair (W.Peek I s) = oopt (hd_error q) /\
  W.Values I (fst (W.Pop I s)) = tl q /\ (forall v, W.Values I (fst (W.Push I s v)) = v :: q).
Proof.
  intros c s0 Hk H0 ops s q. subst s q.
  assert (Hc : c05_config c) by (unfold c05_config; now rewrite Hk).
  assert (Hs : is_stack (ckind c) = true) by now rewrite Hk.
  pose proof (gen_run_simulates c s0 Hk H0 ops) as Hrun.
  pose proof (C05_refines c Hc (map to_op ops)) as HV. rewrite Hrun in HV.
  pose proof (C05_size c Hc (map to_op ops)) as HS. rewrite Hrun in HS.
  pose proof (C05_peek c Hc (map to_op ops)) as HP. rewrite Hrun in HP.
  pose proof (C05_pop c Hs (map to_op ops)) as [HPop1 HPop2].
  rewrite run_snoc, Hrun in HPop2. rewrite HV in HPop2. rewrite Hrun in HPop1. rewrite HV in HPop1.
  rewrite (Pop_equiv c Hk) in HPop1, HPop2. cbn [fst snd] in HPop1, HPop2.
  refine (conj _ (conj _ (conj _ (conj _ (conj _ _))))).
  - rewrite (Values_equiv c Hk). exact HV.
  - rewrite (Size_equiv c). exact HS.
  - exact HPop1.
  - rewrite <- (Peek_equiv c Hk). exact HP.
  - rewrite (Values_equiv c Hk). exact HPop2.
  - intros v. rewrite (Values_equiv c Hk).
    pose proof (C05_push c Hs (map to_op ops) v) as HPush. rewrite run_snoc, Hrun, (Push_equiv c Hk) in HPush.
    cbn [fst] in HPush. rewrite HPush, HV. reflexivity.
Qed.
Print Assumptions gen_C05.
