(* PURE (no heap): what the heap-level proof of Remove (BTreeHeapDeleteProofs.v) assumes about the model's deletion,
   derived here from the invariants every reachable B-tree has (Proofs/BTreeInv.v: bal, cnt; the order bst):

     [del_c_del] / [delmax_c_delmax]: the tree and the flag computed by BTreeCost.del_c / delmax_c (which stop the upward pass
       where the Go code stops) are those of BT.del / BT.delmax (which go on to the root, and change nothing there)
     [dpos_bst] / [dmax_pos_bst]: whenever a node has become too small, the search of the reference key (the deleted key, or
       the separator that went down in a merge) in the node above finds the position of that node -- the positions the
       Go code recomputes in leftSibling / rightSibling *)
From Coq Require Import ZArith List Lia Bool Arith.
From Gods Require Import Common.Cmp Spec.MapSpec Model.BTree Model.BTreeCost Proofs.BTreeInd Proofs.BTreeMap.
From Gods Require Proofs.IterTreeBT Proofs.BTreeInv.
From GodsGenProofs Require Import BTreeHeapInsertModel BTreeHeapRemoveModel.
Import ListNotations.

Lemma bal_kids : forall hh es cs, bal hh (N es cs) -> cs <> [] ->
  exists hh', hh = S (S hh') /\ length cs = S (length es) /\ Forall (bal (S hh')) cs.
Proof.
  intros hh es cs Hb Hne. destruct hh as [|[|hh']]; [contradiction|apply bal_1 in Hb; congruence|].
  apply bal_SS in Hb. exists hh'. split; [reflexivity|exact Hb].
Qed.

Lemma nth_replace_at : forall (A : Type) (l : list A) i x, (i < length l)%nat -> nth_error (replace_at i x l) i = Some x.
Proof.
  intros A l i x Hi. destruct (nth_error l i) as [y|] eqn:E; [|apply nth_error_None in E; lia].
  destruct (split_nth _ _ _ _ E) as (l1 & l2 & -> & <-). rewrite replace_at_mid. apply nth_error_app_mid.
Qed.

Lemma in_replace_at : forall (A : Type) (l : list A) i x y, In y (replace_at i x l) -> y = x \/ In y l.
Proof.
  intros A l i x y H. unfold replace_at in H. apply in_app_or in H. destruct H as [H|[H|H]].
  - right. rewrite <- (firstn_skipn i l). apply in_or_app. now left.
  - left. now symmetry.
  - right. rewrite <- (firstn_skipn (S i) l). apply in_or_app. now right.
Qed.

Section M.
Variable m : nat.
Variable cmp : cmpf.
Hypothesis H3 : (3 <= m)%nat.
Hypothesis Hswo : SWO cmp.

(* ---------- rebalance_child_c against rebalance_child ---------- *)
Lemma rc_enough : forall es cs i ces ccs, nth_error cs i = Some (N ces ccs) -> (minEntries m <= length ces)%nat ->
  rebalance_child m es cs i = Some (N es cs).
Proof.
  intros es cs i ces ccs Hc Hl. rewrite rebalance_child_eq, Hc. apply Nat.leb_le in Hl. now rewrite Hl.
Qed.

Lemma rcc_rc : forall es cs i key b n' k ok, rebalance_child_c m cmp es cs i key b = Some (n', k, ok) ->
  rebalance_child m es cs i = Some n'.
Proof.
  intros es cs i key b n' k ok H. unfold rebalance_child_c in H.
  destruct (nth_error cs i) as [[ces ccs]|] eqn:Ec; [|discriminate].
  destruct (minEntries m <=? length ces)%nat eqn:Emin.
  - injection H as <- _ _. apply Nat.leb_le in Emin. eapply rc_enough; eauto.
  - cbv zeta in H. destruct (rebalance_child m es cs i) as [n1|]; [|discriminate].
    repeat match type of H with (if ?c then _ else _) = _ => destruct c end; congruence.
Qed.

(* the reference key that goes up after a merge is the key of an entry of the node *)
Lemma rcc_key : forall es cs i key b n' k rk, rebalance_child_c m cmp es cs i key b = Some (n', k, Some rk) ->
  exists e, In e es /\ fst e = rk.
Proof.
  intros es cs i key b n' k rk H. unfold rebalance_child_c in H.
  destruct (nth_error cs i) as [[ces ccs]|] eqn:Ec; [|discriminate].
  destruct (minEntries m <=? length ces)%nat; [discriminate|].
  cbv zeta in H. destruct (rebalance_child m es cs i) as [n1|]; [|discriminate].
  repeat match type of H with (if ?c then _ else _) = _ => destruct c; [discriminate|] end.
  injection H as _ _ H.
  match type of H with match ?s with _ => _ end = _ => destruct s as [[k0 v0]|] eqn:E end; [|discriminate].
  injection H as <-. exists (k0, v0). split; [|reflexivity].
  repeat match type of E with match ?s with _ => _ end = _ => destruct s end; try discriminate; eapply nth_error_In; exact E.
Qed.

(* when no reference key goes up the node has as many entries as before *)
Lemma rcc_none_len : forall es cs i key b n' k, length cs = S (length es) ->
  rebalance_child_c m cmp es cs i key b = Some (n', k, None) -> length (entries n') = length es.
Proof.
  intros es cs i key b n' k Hl H. unfold rebalance_child_c in H.
  destruct (nth_error cs i) as [[ces ccs]|] eqn:Ec; [|discriminate].
  assert (Hi : (i < length cs)%nat) by (apply nth_error_Some; congruence).
  destruct (minEntries m <=? length ces)%nat eqn:Emin; [injection H as <- _; reflexivity|].
  rewrite rebalance_child_eq, Ec, Emin in H.
  unfold borrow_left_f, borrow_right_f, merge_f, left_sib in H.
  assert (HR : forall (A : Type) j (x : A) l, (j < length l)%nat -> length (replace_at j x l) = length l) by (intros; now apply replace_at_length).
  (* what happens once borrowing from the left is off *)
  assert (Hright : forall lefts : option node,
            (match lefts with Some _ => (1 <= i)%nat | None => True end) ->
            match
              match
                match nth_error cs (S i) with
                | Some (N res rcs) =>
                    if (minEntries m <? length res)%nat
                    then match nth_error es i, res with
                         | Some sep, re :: res' =>
                             let '(rcs', ccs') := br_pair rcs ccs in
                             Some (N (replace_at i re es) (replace_at (S i) (N res' rcs') (replace_at i (N (ces ++ [sep]) ccs') cs)))
                         | _, _ => None
                         end
                    else None
                | None => None
                end
              with
              | Some r => Some r
              | None =>
                  match nth_error cs (S i), lefts with
                  | Some (N res rcs), _ =>
                      match nth_error es i with
                      | Some sep => Some (N (remove_at i es) (remove_at (S i) (replace_at i (N (ces ++ sep :: res) (ccs ++ rcs)) cs)))
                      | None => None
                      end
                  | None, Some (N les lcs) =>
                      match nth_error es (i - 1) with
                      | Some sep => Some (N (remove_at (i - 1) es) (remove_at (i - 1) (replace_at i (N (les ++ sep :: ces) (lcs ++ ccs)) cs)))
                      | None => None
                      end
                  | None, None => Some (N es cs)
                  end
              end
            with
            | Some n1 =>
                if match nth_error cs (S i) with Some (N res _) => (minEntries m <? length res)%nat | None => false end
                then Some (n1, (search_c cmp key es + search_c cmp key es)%nat, @None Z)
                else Some (n1, (search_c cmp key es + search_c cmp key es)%nat,
                           match match nth_error cs (S i), lefts with
                                 | Some _, _ => nth_error es i
                                 | None, Some _ => nth_error es (i - 1)
                                 | None, None => None
                                 end with Some (k0, _) => Some k0 | None => None end)
            | None => None
            end = Some (n', k, None) -> length (entries n') = length es).
  { intros lefts Hlf HH.
    destruct (nth_error cs (S i)) as [[res rcs]|] eqn:Er.
    - assert (HSi : (S i < length cs)%nat) by (apply nth_error_Some; congruence).
      destruct (nth_error es i) as [sep|] eqn:Es; [|apply nth_error_None in Es; lia].
      destruct (minEntries m <? length res)%nat eqn:Ebr.
      + apply Nat.ltb_lt in Ebr. destruct res as [|re res']; [cbn in Ebr; lia|].
        destruct (br_pair rcs ccs). injection HH as <- _. cbn [entries]. apply HR. lia.
      + destruct sep as [k0 v0]. discriminate HH.
    - destruct lefts as [[les lcs]|].
      + destruct (nth_error es (i - 1)) as [[k0 v0]|] eqn:Es; [discriminate HH|]. apply nth_error_None in Es. lia.
      + injection HH as <- _. reflexivity. }
  destruct (1 <=? i)%nat eqn:E1.
  - apply Nat.leb_le in E1.
    destruct (nth_error cs (i - 1)) as [[les lcs]|] eqn:El; [|apply nth_error_None in El; lia].
    destruct (minEntries m <? length les)%nat eqn:Ebl.
    + apply Nat.ltb_lt in Ebl.
      destruct (nth_error es (i - 1)) as [sep|] eqn:Es; [|apply nth_error_None in Es; lia].
      destruct (last_opt_cons_some _ les) as [le Ele]; [intros ->; cbn in Ebl; lia|]. rewrite Ele in H.
      destruct (bl_pair lcs ccs). injection H as <- _. cbn [entries]. apply HR. lia.
    + apply (Hright (Some (N les lcs)) E1). exact H.
  - apply (Hright None I). exact H.
Qed.

(* ---------- del_c / delmax_c compute the tree of del / delmax ---------- *)
Lemma delmax_c_delmax : forall f hh lo t t' e k ok, bal hh t -> BTreeInv.cnt m lo t -> (hh <= f)%nat ->
  delmax_c m cmp f t = Some (t', e, k, ok) ->
  delmax m f t = Some (t', e) /\ (ok = None -> length (entries t') = length (entries t)).
Proof.
  induction f as [|f IH]; intros hh lo [es cs] t' e k ok Hbal Hcnt Hf H; [discriminate|].
  cbn [delmax_c delmax] in *. apply BTreeInv.cnt_inv in Hcnt. destruct Hcnt as [Hlen Hcf].
  destruct cs as [|c0 cs0].
  - destruct (last_opt es) as [le|]; [|discriminate]. injection H as <- <- _ <-. split; [reflexivity|discriminate].
  - set (cs := c0 :: cs0) in *.
    destruct (bal_kids hh es cs Hbal ltac:(discriminate)) as (hh' & -> & Hlcs & Hbf). clearbody cs.
    destruct (nth_error cs (length cs - 1)) as [c|] eqn:Ec; [|discriminate].
    assert (Hi : (length cs - 1 < length cs)%nat) by (apply nth_error_Some; congruence).
    destruct (delmax_c m cmp f c) as [[[[c' e'] k'] ok']|] eqn:Ed; [|discriminate].
    assert (Hinc : In c cs) by (eapply nth_error_In; exact Ec).
    rewrite Forall_forall in Hbf, Hcf.
    destruct (IH (S hh') (minEntries m) c c' e' k' ok' (Hbf _ Hinc) (Hcf _ Hinc) ltac:(lia) Ed) as [Hdm Hlen'].
    rewrite Hdm. destruct ok' as [rk|].
    + destruct (rebalance_child_c m cmp es (replace_at (length cs - 1) c' cs) (length cs - 1) rk false) as [[[n' k2] ok2]|] eqn:Er; [|discriminate].
      injection H as <- <- _ <-. rewrite (rcc_rc _ _ _ _ _ _ _ _ Er). split; [reflexivity|].
      intros ->. cbn [entries]. eapply rcc_none_len; [|exact Er]. rewrite replace_at_length by exact Hi. exact Hlcs.
    + injection H as <- <- _ <-. destruct c' as [ces' ccs'].
      rewrite (rc_enough es _ (length cs - 1) ces' ccs'); [split; reflexivity|apply nth_replace_at; exact Hi|].
      specialize (Hlen' eq_refl). cbn [entries] in Hlen'. rewrite Hlen'.
      pose proof (Hcf _ Hinc) as Hcc. destruct c as [ces ccs]. apply BTreeInv.cnt_inv in Hcc. cbn [entries]. lia.
Qed.

Lemma del_c_del : forall f hh lo key t t' b k ok, bal hh t -> BTreeInv.cnt m lo t -> (hh <= f)%nat ->
  del_c m cmp f key t = Some (t', b, k, ok) ->
  del m cmp f key t = Some (t', b) /\ (ok = None -> length (entries t') = length (entries t)).
Proof.
  induction f as [|f IH]; intros hh lo key [es cs] t' b k ok Hbal Hcnt Hf H; [discriminate|].
  cbn [del_c del] in *. apply BTreeInv.cnt_inv in Hcnt. destruct Hcnt as [Hlen Hcf].
  destruct (search cmp key es) as [pos found] eqn:Es.
  destruct (search_bound _ _ _ _ _ Es) as [Hp1 Hp2].
  destruct cs as [|c0 cs0].
  - destruct found; injection H as <- <- _ <-; (split; [reflexivity|]); [discriminate|reflexivity].
  - set (cs := c0 :: cs0) in *.
    destruct (bal_kids hh es cs Hbal ltac:(discriminate)) as (hh' & -> & Hlcs & Hbf). clearbody cs.
    destruct (nth_error cs pos) as [c|] eqn:Ec; [|discriminate].
    assert (Hi : (pos < length cs)%nat) by (apply nth_error_Some; congruence).
    assert (Hinc : In c cs) by (eapply nth_error_In; exact Ec).
    rewrite Forall_forall in Hbf, Hcf.
    destruct found.
    + specialize (Hp2 eq_refl).
      destruct (delmax_c m cmp f c) as [[[[c' pred] k'] ok']|] eqn:Ed; [|discriminate].
      destruct (delmax_c_delmax f (S hh') (minEntries m) c c' pred k' ok' (Hbf _ Hinc) (Hcf _ Hinc) ltac:(lia) Ed) as [Hdm Hlen'].
      rewrite Hdm. destruct ok' as [rk|].
      * destruct (rebalance_child_c m cmp (replace_at pos pred es) (replace_at pos c' cs) pos rk false) as [[[n' k2] ok2]|] eqn:Er; [|discriminate].
        injection H as <- <- _ <-. rewrite (rcc_rc _ _ _ _ _ _ _ _ Er). split; [reflexivity|].
        intros ->. cbn [entries]. erewrite rcc_none_len; [|shelve|exact Er]. apply replace_at_length. exact Hp2.
        Unshelve. rewrite !replace_at_length by assumption. exact Hlcs.
      * injection H as <- <- _ <-. destruct c' as [ces' ccs'].
        rewrite (rc_enough _ _ pos ces' ccs'); [split; [reflexivity|intros _; cbn [entries]; apply replace_at_length; exact Hp2]|apply nth_replace_at; exact Hi|].
        specialize (Hlen' eq_refl). cbn [entries] in Hlen'. rewrite Hlen'.
        pose proof (Hcf _ Hinc) as Hcc. destruct c as [ces ccs]. apply BTreeInv.cnt_inv in Hcc. cbn [entries]. lia.
    + destruct (del_c m cmp f key c) as [[[[c' b'] k'] ok']|] eqn:Ed; [|discriminate].
      destruct (IH (S hh') (minEntries m) key c c' b' k' ok' (Hbf _ Hinc) (Hcf _ Hinc) ltac:(lia) Ed) as [Hdm Hlen'].
      rewrite Hdm. destruct b'.
      * destruct ok' as [rk|].
        -- destruct (rebalance_child_c m cmp es (replace_at pos c' cs) pos rk false) as [[[n' k2] ok2]|] eqn:Er; [|discriminate].
           injection H as <- <- _ <-. rewrite (rcc_rc _ _ _ _ _ _ _ _ Er). split; [reflexivity|].
           intros ->. cbn [entries]. eapply rcc_none_len; [|exact Er]. rewrite replace_at_length by exact Hi. exact Hlcs.
        -- injection H as <- <- _ <-. destruct c' as [ces' ccs'].
           rewrite (rc_enough es _ pos ces' ccs'); [split; reflexivity|apply nth_replace_at; exact Hi|].
           specialize (Hlen' eq_refl). cbn [entries] in Hlen'. rewrite Hlen'.
           pose proof (Hcf _ Hinc) as Hcc. destruct c as [ces ccs]. apply BTreeInv.cnt_inv in Hcc. cbn [entries]. lia.
      * injection H as <- <- _ <-. split; reflexivity.
Qed.

(* ... and they fail nowhere del / delmax succeed *)
Lemma rcc_some : forall es cs i key b n', rebalance_child m es cs i = Some n' ->
  exists k ok, rebalance_child_c m cmp es cs i key b = Some (n', k, ok).
Proof.
  intros es cs i key b n' H. unfold rebalance_child_c.
  destruct (nth_error cs i) as [[ces ccs]|] eqn:Ec; [|rewrite rebalance_child_eq, Ec in H; discriminate].
  destruct (minEntries m <=? length ces)%nat eqn:Emin.
  - apply Nat.leb_le in Emin. rewrite (rc_enough es cs i ces ccs Ec Emin) in H. injection H as <-. eauto.
  - cbv zeta. rewrite H. repeat match goal with |- context [if ?c then _ else _] => destruct c end; eauto.
Qed.

Lemma delmax_c_some : forall f hh lo t t0 e0, bal hh t -> BTreeInv.cnt m lo t -> (hh <= f)%nat ->
  delmax m f t = Some (t0, e0) -> exists r, delmax_c m cmp f t = Some r.
Proof.
  induction f as [|f IH]; intros hh lo [es cs] t0 e0 Hbal Hcnt Hf H; [discriminate|].
  cbn [delmax_c delmax] in *. pose proof Hcnt as Hcnt0. apply BTreeInv.cnt_inv in Hcnt. destruct Hcnt as [Hlen Hcf].
  destruct cs as [|c0 cs0].
  - destruct (last_opt es) as [le|]; [eauto|discriminate].
  - set (cs := c0 :: cs0) in *.
    destruct (bal_kids hh es cs Hbal ltac:(discriminate)) as (hh' & -> & Hlcs & Hbf). clearbody cs.
    destruct (nth_error cs (length cs - 1)) as [c|] eqn:Ec; [|discriminate].
    assert (Hinc : In c cs) by (eapply nth_error_In; exact Ec). rewrite Forall_forall in Hbf, Hcf.
    destruct (delmax m f c) as [[c1 e1]|] eqn:Ed; [|discriminate].
    destruct (IH (S hh') (minEntries m) c c1 e1 (Hbf _ Hinc) (Hcf _ Hinc) ltac:(lia) Ed) as ([[[c' e'] k'] ok'] & Edc).
    destruct (delmax_c_delmax f (S hh') (minEntries m) c c' e' k' ok' (Hbf _ Hinc) (Hcf _ Hinc) ltac:(lia) Edc) as [Hdm _].
    rewrite Hdm in Ed. injection Ed as <- <-. rewrite Edc. destruct ok' as [rk|]; [|eauto].
    destruct (rebalance_child m es (replace_at (length cs - 1) c' cs) (length cs - 1)) as [n'|] eqn:Er; [|discriminate].
    destruct (rcc_some _ _ _ rk false _ Er) as (k2 & ok2 & ->). eauto.
Qed.

Lemma del_c_some : forall f hh lo key t t0 b0, bal hh t -> BTreeInv.cnt m lo t -> (hh <= f)%nat ->
  del m cmp f key t = Some (t0, b0) -> exists r, del_c m cmp f key t = Some r.
Proof.
  induction f as [|f IH]; intros hh lo key [es cs] t0 b0 Hbal Hcnt Hf H; [discriminate|].
  cbn [del_c del] in *. apply BTreeInv.cnt_inv in Hcnt. destruct Hcnt as [Hlen Hcf].
  destruct (search cmp key es) as [pos found] eqn:Es.
  destruct cs as [|c0 cs0].
  - destruct found; eauto.
  - set (cs := c0 :: cs0) in *.
    destruct (bal_kids hh es cs Hbal ltac:(discriminate)) as (hh' & -> & Hlcs & Hbf). clearbody cs.
    destruct (nth_error cs pos) as [c|] eqn:Ec; [|discriminate].
    assert (Hinc : In c cs) by (eapply nth_error_In; exact Ec). rewrite Forall_forall in Hbf, Hcf.
    destruct found.
    + destruct (delmax m f c) as [[c1 e1]|] eqn:Ed; [|discriminate].
      destruct (delmax_c_some f (S hh') (minEntries m) c c1 e1 (Hbf _ Hinc) (Hcf _ Hinc) ltac:(lia) Ed) as ([[[c' e'] k'] ok'] & Edc).
      destruct (delmax_c_delmax f (S hh') (minEntries m) c c' e' k' ok' (Hbf _ Hinc) (Hcf _ Hinc) ltac:(lia) Edc) as [Hdm _].
      rewrite Hdm in Ed. injection Ed as <- <-. rewrite Edc. destruct ok' as [rk|]; [|eauto].
      destruct (rebalance_child m (replace_at pos e' es) (replace_at pos c' cs) pos) as [n'|] eqn:Er; [|discriminate].
      destruct (rcc_some _ _ _ rk false _ Er) as (k2 & ok2 & ->). eauto.
    + destruct (del m cmp f key c) as [[c1 b1]|] eqn:Ed; [|discriminate].
      destruct (IH (S hh') (minEntries m) key c c1 b1 (Hbf _ Hinc) (Hcf _ Hinc) ltac:(lia) Ed) as ([[[c' b'] k'] ok'] & Edc).
      destruct (del_c_del f (S hh') (minEntries m) key c c' b' k' ok' (Hbf _ Hinc) (Hcf _ Hinc) ltac:(lia) Edc) as [Hdm _].
      rewrite Hdm in Ed. injection Ed as <- <-. rewrite Edc. destruct b'; [|eauto]. destruct ok' as [rk|]; [|eauto].
      destruct (rebalance_child m es (replace_at pos c' cs) pos) as [n'|] eqn:Er; [|discriminate].
      destruct (rcc_some _ _ _ rk false _ Er) as (k2 & ok2 & ->). eauto.
Qed.

(* an absent key leaves the tree as it is *)
Lemma del_c_false : forall f key t t' k ok, del_c m cmp f key t = Some (t', false, k, ok) -> t' = t.
Proof.
  intros [|f] key [es cs] t' k ok H; [discriminate|]. cbn [del_c] in H.
  destruct (search cmp key es) as [pos found]. destruct cs as [|c0 cs0].
  - destruct found; [discriminate|]. now injection H as <- _ _.
  - destruct (nth_error (c0 :: cs0) pos) as [c|]; [|discriminate]. destruct found.
    + destruct (delmax_c m cmp f c) as [[[[c' pred] k'] [rk|]]|]; [|discriminate|discriminate].
      destruct (rebalance_child_c m cmp (replace_at pos pred es) (replace_at pos c' (c0 :: cs0)) pos rk false) as [[[n' k2] ok2]|]; discriminate.
    + destruct (del_c m cmp f key c) as [[[[c' [|]] k'] ok']|]; [| |discriminate].
      * destruct ok' as [rk|]; [|discriminate].
        destruct (rebalance_child_c m cmp es (replace_at pos c' (c0 :: cs0)) pos rk false) as [[[n' k2] ok2]|]; discriminate.
      * now injection H as <- _ _.
Qed.

(* ---------- where the reference keys come from ---------- *)
Lemma in_entries_inorder : forall es cs e, wf_shape (N es cs) -> In e es -> In e (inorder (N es cs)).
Proof.
  intros es cs e Hwf He. apply In_nth_error in He. destruct He as [i Hi].
  destruct (IterTreeBT.inorder_entry es cs i e Hwf Hi) as (A & B & -> & _). apply in_or_app. right. now left.
Qed.

Lemma in_child_inorder : forall es cs i c x, wf_shape (N es cs) -> nth_error cs i = Some c -> In x (inorder c) -> In x (inorder (N es cs)).
Proof.
  intros es cs i c x Hwf Hc Hx. destruct (IterTreeBT.inorder_child es cs i c Hwf Hc) as (A & B & -> & _).
  apply in_or_app. right. apply in_or_app. now left.
Qed.

Lemma delmax_c_key : forall f hh t t' e k ok, bal hh t -> (hh <= f)%nat -> delmax_c m cmp f t = Some (t', e, k, ok) ->
  In e (inorder t) /\ forall rk, ok = Some rk -> exists x, In x (inorder t) /\ fst x = rk.
Proof.
  induction f as [|f IH]; intros hh [es cs] t' e k ok Hbal Hf H; [discriminate|].
  pose proof (bal_wf _ _ Hbal) as Hwf.
  cbn [delmax_c] in H. destruct cs as [|c0 cs0].
  - destruct (last_opt es) as [le|] eqn:El; [|discriminate]. injection H as _ <- _ <-.
    apply last_opt_Some in El. cbn [inorder map interleave].
    assert (Hin : In le es) by (rewrite El; apply in_or_app; right; now left).
    split; [exact Hin|]. intros rk E. injection E as <-. exists le. split; [exact Hin|reflexivity].
  - set (cs := c0 :: cs0) in *.
    destruct (bal_kids hh es cs Hbal ltac:(discriminate)) as (hh' & -> & Hlcs & Hbf). clearbody cs.
    destruct (nth_error cs (length cs - 1)) as [c|] eqn:Ec; [|discriminate].
    destruct (delmax_c m cmp f c) as [[[[c' e'] k'] ok']|] eqn:Ed; [|discriminate].
    assert (Hinc : In c cs) by (eapply nth_error_In; exact Ec). rewrite Forall_forall in Hbf.
    destruct (IH (S hh') c c' e' k' ok' (Hbf _ Hinc) ltac:(lia) Ed) as [He' _].
    assert (Hine : In e' (inorder (N es cs))) by (eapply in_child_inorder; eauto).
    destruct ok' as [rk'|].
    + destruct (rebalance_child_c m cmp es (replace_at (length cs - 1) c' cs) (length cs - 1) rk' false) as [[[n' k2] ok2]|] eqn:Er; [|discriminate].
      injection H as _ <- _ <-. split; [exact Hine|]. intros rk ->.
      destruct (rcc_key _ _ _ _ _ _ _ _ Er) as (x & Hx & Hfx). exists x. split; [apply in_entries_inorder; assumption|exact Hfx].
    + injection H as _ <- _ <-. split; [exact Hine|discriminate].
Qed.

(* the reference key of a deletion is (equivalent to) a key of the subtree *)
Lemma del_c_key : forall f hh key t t' k rk, bal hh t -> bst cmp t -> (hh <= f)%nat ->
  del_c m cmp f key t = Some (t', true, k, Some rk) -> exists x, In x (inorder t) /\ cmp rk (fst x) = Eq.
Proof.
  intros [|f] hh key [es cs] t' k rk Hbal Hbst Hf H; [discriminate|].
  pose proof (bal_wf _ _ Hbal) as Hwf. pose proof (bst_entries cmp _ _ Hbst) as Hks.
  cbn [del_c] in H. destruct (search cmp key es) as [pos found] eqn:Es.
  destruct cs as [|c0 cs0].
  - destruct found; [|discriminate]. injection H as _ _ <-.
    destruct (search_found cmp Hswo key es pos Hks Es) as (es1 & e0 & es2 & -> & _ & Heq).
    exists e0. split; [|exact Heq]. cbn [inorder map interleave]. apply in_or_app. right. now left.
  - set (cs := c0 :: cs0) in *.
    destruct (bal_kids hh es cs Hbal ltac:(discriminate)) as (hh' & -> & Hlcs & Hbf). clearbody cs.
    destruct (nth_error cs pos) as [c|] eqn:Ec; [|discriminate].
    assert (Hinc : In c cs) by (eapply nth_error_In; exact Ec). rewrite Forall_forall in Hbf.
    destruct found.
    + destruct (delmax_c m cmp f c) as [[[[c' pred] k'] ok']|] eqn:Ed; [|discriminate].
      destruct (delmax_c_key f (S hh') c c' pred k' ok' (Hbf _ Hinc) ltac:(lia) Ed) as [Hpred _].
      destruct ok' as [rk'|]; [|discriminate].
      destruct (rebalance_child_c m cmp (replace_at pos pred es) (replace_at pos c' cs) pos rk' false) as [[[n' k2] ok2]|] eqn:Er; [|discriminate].
      injection H as _ _ ->. destruct (rcc_key _ _ _ _ _ _ _ _ Er) as (x & Hx & <-).
      exists x. split; [|apply (swo_refl cmp Hswo)].
      apply in_replace_at in Hx. destruct Hx as [->|Hx]; [eapply in_child_inorder; eauto|apply in_entries_inorder; assumption].
    + destruct (del_c m cmp f key c) as [[[[c' b'] k'] ok']|] eqn:Ed; [|discriminate].
      destruct b'; [|discriminate]. destruct ok' as [rk'|]; [|discriminate].
      destruct (rebalance_child_c m cmp es (replace_at pos c' cs) pos rk' false) as [[[n' k2] ok2]|] eqn:Er; [|discriminate].
      injection H as _ _ ->. destruct (rcc_key _ _ _ _ _ _ _ _ Er) as (x & Hx & <-).
      exists x. split; [apply in_entries_inorder; assumption|apply (swo_refl cmp Hswo)].
Qed.

(* ---------- the positions ---------- *)
(* the entry at position i replaced by an entry of the child i that is not smaller than x: x is still searched at i *)
Lemma search_replaced : forall es cs i c pred x, wf_shape (N es cs) -> bst cmp (N es cs) -> nth_error cs i = Some c ->
  (i < length es)%nat -> In pred (inorder c) -> In x (inorder c) -> cmp (fst x) (fst pred) <> Gt ->
  fst (search cmp (fst x) (replace_at i pred es)) = i.
Proof.
  intros es cs i c pred x Hwf Hb Hc Hi Hpred Hx Hle.
  assert (Hes : ksorted cmp es) by (eapply bst_entries; eassumption).
  destruct (IterTreeBT.inorder_child es cs i c Hwf Hc) as (A & B & E & _ & HA & HB).
  unfold bst in Hb. rewrite E in Hb.
  apply ksorted_app in Hb. destruct Hb as (_ & Hb2 & HAB).
  apply ksorted_app in Hb2. destruct Hb2 as (_ & _ & HcB).
  destruct (nth_error es i) as [e0|] eqn:E0; [|apply nth_error_None in E0; lia].
  destruct (split_nth _ _ _ _ E0) as (es1 & es2 & -> & Hl1). subst i. rewrite replace_at_mid.
  assert (H1 : forall a, In a es1 -> In a A).
  { intros a Ha. apply In_nth_error in Ha. destruct Ha as [j Hj]. apply (HA j a).
    - rewrite nth_error_app1; [exact Hj|]. apply nth_error_Some. congruence.
    - apply nth_error_Some. congruence. }
  assert (H2 : forall a, In a es2 -> In a B).
  { intros a Ha. apply In_nth_error in Ha. destruct Ha as [j Hj]. apply (HB (length es1 + S j)%nat a); [|lia].
    rewrite nth_error_app2 by lia. replace (length es1 + S j - length es1)%nat with (S j) by lia. exact Hj. }
  apply ksorted_app in Hes. destruct Hes as (Hs1 & Hs2 & _). apply ksorted_cons in Hs2. destruct Hs2 as [Hs2 _].
  assert (Hin : forall z, In z (inorder c) -> In z (inorder c ++ B)) by (intros; apply in_or_app; now left).
  apply (IterTreeBT.search_pos cmp Hswo).
  - apply ksorted_app. split; [exact Hs1|]. split.
    + apply ksorted_cons. split; [exact Hs2|]. intros b Hb. apply HcB; [exact Hpred|apply H2; exact Hb].
    + intros a b Ha [<-|Hb].
      * apply HAB; [apply H1; exact Ha|apply Hin; exact Hpred].
      * apply HAB; [apply H1; exact Ha|]. apply in_or_app. right. apply H2. exact Hb.
  - rewrite app_length. cbn [length]. lia.
  - intros j a Ha Hj. rewrite nth_error_app1 in Ha by exact Hj. apply nth_error_In in Ha.
    apply (cmp_gt_lt cmp Hswo). apply HAB; [apply H1; exact Ha|apply Hin; exact Hx].
  - intros j a Ha Hj. rewrite nth_error_app2 in Ha by exact Hj.
    destruct (j - length es1)%nat as [|j'] eqn:Ej; cbn [nth_error] in Ha.
    + injection Ha as <-. exact Hle.
    + apply nth_error_In in Ha. rewrite (HcB x a Hx (H2 _ Ha)). discriminate.
Qed.

Lemma dmax_pos_bst : forall f hh t, bal hh t -> bst cmp t -> (hh <= f)%nat -> dmax_pos m cmp f t.
Proof.
  induction f as [|f IH]; intros hh [es cs] Hbal Hbst Hf; [exact I|].
  pose proof (bal_wf _ _ Hbal) as Hwf.
  cbn [dmax_pos]. destruct cs as [|c0 cs0]; [exact I|].
  set (cs := c0 :: cs0) in *.
  destruct (bal_kids hh es cs Hbal ltac:(discriminate)) as (hh' & -> & Hlcs & Hbf). clearbody cs.
  destruct (nth_error cs (length cs - 1)) as [c|] eqn:Ec; [|exact I].
  assert (Hinc : In c cs) by (eapply nth_error_In; exact Ec). rewrite Forall_forall in Hbf.
  assert (Hbc : bst cmp c) by (eapply IterTreeBT.bst_child; eauto).
  split; [apply (IH (S hh')); [apply Hbf; exact Hinc|exact Hbc|lia]|].
  destruct (delmax_c m cmp f c) as [[[[c' e'] k'] [rk|]]|] eqn:Ed; try exact I. intros _.
  destruct (delmax_c_key f (S hh') c c' e' k' (Some rk) (Hbf _ Hinc) ltac:(lia) Ed) as [_ Hk].
  destruct (Hk rk eq_refl) as (x & Hx & <-).
  eapply IterTreeBT.search_child; eauto.
Qed.

Lemma dpos_bst : forall f hh lo key t, bal hh t -> BTreeInv.cnt m lo t -> bst cmp t -> (hh <= f)%nat -> dpos m cmp f key t.
Proof.
  induction f as [|f IH]; intros hh lo key [es cs] Hbal Hcnt Hbst Hf; [exact I|].
  pose proof (bal_wf _ _ Hbal) as Hwf. apply BTreeInv.cnt_inv in Hcnt. destruct Hcnt as [_ Hcf].
  cbn [dpos]. destruct cs as [|c0 cs0]; [exact I|].
  set (cs := c0 :: cs0) in *.
  destruct (bal_kids hh es cs Hbal ltac:(discriminate)) as (hh' & -> & Hlcs & Hbf). clearbody cs.
  destruct (search cmp key es) as [pos found] eqn:Es. cbn [fst snd].
  destruct (search_bound _ _ _ _ _ Es) as [_ Hp2].
  destruct (nth_error cs pos) as [c|] eqn:Ec; [|exact I].
  assert (Hinc : In c cs) by (eapply nth_error_In; exact Ec). rewrite Forall_forall in Hbf, Hcf.
  assert (Hbc : bst cmp c) by (eapply IterTreeBT.bst_child; eauto).
  destruct found.
  - split; [apply (dmax_pos_bst f (S hh')); [apply Hbf; exact Hinc|exact Hbc|lia]|].
    destruct (delmax_c m cmp f c) as [[[[c' pred] k'] [rk|]]|] eqn:Ed; try exact I. intros _.
    destruct (delmax_c_key f (S hh') c c' pred k' (Some rk) (Hbf _ Hinc) ltac:(lia) Ed) as [Hpred Hk].
    destruct (Hk rk eq_refl) as (x & Hx & <-).
    destruct (delmax_c_delmax f (S hh') (minEntries m) c c' pred k' (Some (fst x)) (Hbf _ Hinc) (Hcf _ Hinc) ltac:(lia) Ed) as [Hdm _].
    destruct (delmax_inorder m H3 f (S hh') c c' pred (Hbf _ Hinc) ltac:(lia) Hdm) as [Hio _].
    apply (search_replaced es cs pos c pred x Hwf Hbst Ec (Hp2 eq_refl) Hpred Hx).
    unfold bst in Hbc. rewrite Hio in Hbc, Hx. apply in_app_or in Hx. destruct Hx as [Hx|[<-|[]]].
    + apply ksorted_app in Hbc. destruct Hbc as (_ & _ & Hlt). rewrite (Hlt x pred Hx (or_introl eq_refl)). discriminate.
    + rewrite (swo_refl cmp Hswo). discriminate.
  - split; [apply (IH (S hh') (minEntries m)); [apply Hbf; exact Hinc|apply Hcf; exact Hinc|exact Hbc|lia]|].
    destruct (del_c m cmp f key c) as [[[[c' [|]] k'] [rk|]]|] eqn:Ed; try exact I. intros _.
    destruct (del_c_key f (S hh') key c c' k' rk (Hbf _ Hinc) Hbc ltac:(lia) Ed) as (x & Hx & Heq).
    rewrite (proj1 (search_congr cmp Hswo rk (fst x) es Heq)).
    eapply IterTreeBT.search_child; eauto.
Qed.

(* OBLIGATION *)
Theorem del_c_is_del : forall f hh lo key t t0 b0, bal hh t -> BTreeInv.cnt m lo t -> (hh <= f)%nat ->
  del m cmp f key t = Some (t0, b0) ->
  exists k ok, del_c m cmp f key t = Some (t0, b0, k, ok).
Proof.
  intros f hh lo key t t0 b0 Hbal Hcnt Hf H.
  destruct (del_c_some f hh lo key t t0 b0 Hbal Hcnt Hf H) as ([[[t' b] k] ok] & E).
  destruct (del_c_del f hh lo key t t' b k ok Hbal Hcnt Hf E) as [E' _]. rewrite E' in H. injection H as <- <-. eauto.
Qed.

(* OBLIGATION *)
Theorem remove_positions : forall f hh lo key t, bal hh t -> BTreeInv.cnt m lo t -> bst cmp t -> (hh <= f)%nat ->
  dpos m cmp f key t.
Proof. exact dpos_bst. Qed.
End M.
Print Assumptions del_c_is_del.
Print Assumptions remove_positions.
