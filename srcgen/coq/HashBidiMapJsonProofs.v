(* maps/hashbidimap/serialization.go (in GodsGen.HashBidiMapGen), encoding/json abstract: FromJSON decodes into a fresh map;
   on an error the receiver is unchanged; on success Clear, then the PUBLIC Put for every decoded entry (in the order
   `range` visits them) = Machine.put_entries (fold of hbidi_put) from init; ToJSON delegates to forwardMap.ToJSON(). *)
From Coq Require Import ZArith List Lia Bool Arith.
From Gods Require Import Common.Cmp Common.ListAux Spec.SeqSpec Model.Ops Model.Machine.
From GodsGen Require HashBidiMapGen.
From GodsGenProofs Require Import GenIterRun WrapCommon GoMap GoJson HashBidiMapGenProofs.
Import ListNotations.
Local Open Scope Z_scope.

Section Json.
Variable umm : bytes -> gmap -> gmap * bool.
Variable mo : gmap -> list (Z * Z).
Variable c : config.
Hypothesis Hk : ckind c = HashBidiMap.

Lemma fold_put : forall es g,
  st (fold_left (fun g (kv : Z * Z) => fst (B.Put IF II g (fst kv) (snd kv))) es g) = put_entries c es (st g).
Proof.
  induction es as [|e es IH]; intros g; cbn [fold_left]; [destruct g; reflexivity|].
  rewrite IH. pose proof (Put_equiv c g (fst e) (snd e)) as HP. unfold step in HP.
  unfold put_entries. cbn [fold_left].
  destruct (hbidi_put (fst e) (snd e) (B.forwardMap IF II g, B.inverseMap IF II g)) as [f' i'] eqn:E.
  injection HP as Hf Hi. rewrite <- Hf, <- Hi. reflexivity.
Qed.

(* OBLIGATION *)
Theorem FromJSON_equiv : forall g data,
  if snd (umm data gm_empty) then B.FromJSON umm mo IF II g data = (g, true)
  else st (fst (B.FromJSON umm mo IF II g data)) = put_entries c (mo (fst (umm data gm_empty))) (init c) /\
       snd (B.FromJSON umm mo IF II g data) = false.
Proof.
  intros g data. unfold B.FromJSON. destruct (umm data gm_empty) as [m' e]. destruct e; cbn [fst snd]; [reflexivity|].
  destruct (B.Clear IF II g) as [g1 u1] eqn:EC.
  assert (Hg1 : g1 = B.mkMap IF II [] []) by (destruct g; unfold B.Clear in EC; cbn in EC; now injection EC as <- _).
  subst g1. cbn [fst snd]. cbv zeta. split; [|reflexivity].
  match goal with |- context [fold_left ?Bd (mo m') ?R] =>
    rewrite (fold_left_ext_in _ _ Bd (fun g kv => fst (B.Put IF II g (fst kv) (snd kv))))
      by (intros a kv _; destruct (B.Put IF II a (fst kv) (snd kv)); reflexivity) end.
  rewrite fold_put. unfold init. rewrite Hk. reflexivity.
Qed.

(* OBLIGATION: ToJSON is the forward map's ToJSON (for ANY pair of interfaces); delegation *)
Theorem ToJSON_equiv : forall JF JI g,
  B.ToJSON JF JI g = B.forwardMap_ToJSON JF (B.forwardMap JF JI g) /\ B.MarshalJSON JF JI g = B.ToJSON JF JI g /\
  (forall data, B.UnmarshalJSON umm mo JF JI g data = B.FromJSON umm mo JF JI g data).
Proof.
  intros JF JI g. unfold B.ToJSON, B.MarshalJSON, B.UnmarshalJSON. repeat split.
  - now destruct (B.forwardMap_ToJSON JF (B.forwardMap JF JI g)).
  - unfold B.ToJSON. now destruct (B.forwardMap_ToJSON JF (B.forwardMap JF JI g)).
  - intros data. now destruct (B.FromJSON umm mo JF JI g data).
Qed.
End Json.

Print Assumptions FromJSON_equiv.
Print Assumptions ToJSON_equiv.
