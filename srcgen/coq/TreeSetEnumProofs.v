(* sets/treeset/enumerable.go (in GodsGen.TreeSetGen): Any / All / Find / Select / Map are loops over set.Iterator(),
   the abstract enumeration [enum g] = indexed keys.  Against Model/Machine.v: existsb / forallb / find_first over
   the enumeration, select_of, map_of (the result is built by Add on a fresh tree with the receiver's comparator:
   the struct literal &Set{tree: rbt.NewWith(set.tree.Comparator)} is translated field by field). *)
From Coq Require Import ZArith List Lia Bool Arith.
From Gods Require Import Common.Cmp Common.ListAux Spec.SeqSpec Model.Ops Model.Machine.
From Gods Require Model.RBTree.
From GodsGen Require TreeSetGen.
From GodsGenProofs Require Import GenIterRun WrapCommon GoCmp TreeSetGenProofs.
Import ListNotations.
Local Open Scope Z_scope.

Section Enum.
Variable same : comparator -> comparator -> bool.
Variable c : config.
Hypothesis Hk : ckind c = TreeSet.
Variables (t : RB.tree) (n : Z).
Notation g := (T.mkSet I (kc c, Some (t, n))).
Notation es := (enum g).

(* OBLIGATION *)
Theorem Any_All_equiv : forall f,
  T.Any I enum g f = existsb (fun e => f (fst e) (snd e)) es /\ T.All I enum g f = forallb (fun e => f (fst e) (snd e)) es.
Proof.
  intros f. unfold T.Any, T.All. cbv zeta. generalize es as l. split.
  - induction l as [|e l IH]; cbn [T.Any_loop1 existsb]; [reflexivity|]. destruct (f (fst e) (snd e)); cbn [orb]; auto.
  - induction l as [|e l IH]; cbn [T.All_loop1 forallb]; [reflexivity|]. destruct (f (fst e) (snd e)); cbn [negb andb]; auto.
Qed.

(* OBLIGATION *)
Theorem Find_equiv : forall p,
  T.Find I enum g (pred_eval p) = match find_first p es with Some (i, v) => (i, v) | None => (-1, 0) end.
Proof.
  intros p. unfold T.Find, find_first. cbv zeta. generalize es as l.
  induction l as [|[i v] l IH]; cbn [T.Find_loop1 find fst snd]; [reflexivity|]. destruct (pred_eval p i v); auto.
Qed.

Lemma fold_add_filter : forall (P : Z * Z -> bool) (F : Z * Z -> Z) (body : T.Set_ I -> Z * Z -> T.Set_ I) l r,
  (forall r kv, body r kv = if P kv then fst (T.Add I r [F kv]) else r) ->
  T.tree I (fold_left body l r) = fold_left put1 (map F (filter P l)) (T.tree I r).
Proof.
  intros P F body l r Hbody. revert r. induction l as [|kv l IH]; intros r; cbn [fold_left filter map]; [reflexivity|].
  rewrite IH, Hbody. destruct (P kv); cbn [map fold_left]; [now rewrite Add_one|reflexivity].
Qed.

(* OBLIGATION: Select(f) = a fresh set (same comparator) with the kept elements added in iteration order *)
Theorem Select_equiv : forall p, st (T.tree I (T.Select I enum g (pred_eval p))) = select_of c p es.
Proof.
  intros p. unfold T.Select, select_of. rewrite Hk. cbn [is_kv]. cbv zeta.
  cbn [T.tree T.tree_fld_Comparator T.tree_pkg_NewWith I fst].
  match goal with |- context [fold_left ?B es ?R] =>
    rewrite (fold_add_filter (fun e => pred_eval p (fst e) (snd e)) snd B es R)
      by (intros r kv; destruct (pred_eval p (fst kv) (snd kv)); reflexivity) end.
  cbn [T.tree]. apply (set_of_st c Hk).
Qed.

(* OBLIGATION: Map(f) = a fresh set with the images added in iteration order *)
Theorem Map_equiv : forall mf,
  st (T.tree I (T.Map I enum g (fun i v => snd (mapf_eval mf i v)))) = map_of c mf es.
Proof.
  intros mf. unfold T.Map, map_of. rewrite Hk. cbn [is_kv]. cbv zeta.
  cbn [T.tree T.tree_fld_Comparator T.tree_pkg_NewWith I fst].
  match goal with |- context [fold_left ?B es ?R] =>
    rewrite (fold_add_filter (fun _ => true) (fun e => snd (mapf_eval mf (fst e) (snd e))) B es R)
      by (intros r kv; reflexivity) end.
  rewrite filter_true_pairs, map_map. cbn [T.tree]. apply (set_of_st c Hk).
Qed.
End Enum.

Print Assumptions Any_All_equiv.
Print Assumptions Find_equiv.
Print Assumptions Select_equiv.
Print Assumptions Map_equiv.
