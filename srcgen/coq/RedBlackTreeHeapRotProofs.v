(* WRITE PRIMITIVES of trees/redblacktree/redblacktree.go in TREE POINTER MODE (GodsGen.RedBlackTreeHeapGen): the GENERATED
   rotateLeft / rotateRight (which call the generated replaceNode) transform a represented tree (RBTreeHeapRep.v:
   rep h None pt, distinct addresses, the node at path p with a non-empty right / left subtree) into the represented
   ROTATED tree: every Left / Right / Parent link of the result is right (that is what rep says), Tree.Root is updated
   exactly when the node was the root, size and comparator are untouched, nothing outside the tree's addresses is written,
   no allocation, the nodes keep their addresses, and the in-order sequence is unchanged.  Never None. *)
From Coq Require Import ZArith List Lia Bool Arith.
From Gods Require Import Common.Cmp Model.RBTree.
From GodsGenProofs Require Import GoCmp GoTreeHeap RBTreeHeapRep.
From GodsGen Require RedBlackTreeHeapGen.
Import ListNotations.
Local Open Scope Z_scope.

Ltac hstep := match goal with
  | |- context [deref ?h (Some ?a)] => change (deref h (Some a)) with (hread h a)
  | |- context [hread (hset ?h ?a ?n) ?x] => rewrite (hread_hset h a n x); eqb_simpl
  | |- context [store ?h (Some ?a) ?f] =>
      erewrite (store_hset h a _ f) by (repeat (rewrite hread_hset; eqb_simpl); first [eassumption | reflexivity])
  end.

Ltac hsim := repeat first
  [ progress cbv beta iota
  | hstep
  | match goal with H : hread ?h ?a = Some _ |- context [hread ?h ?a] => rewrite H end
  | match goal with H : ptr_eqb ?p ?q = _ |- context [ptr_eqb ?p ?q] => rewrite H end
  | progress cbn [G.Node_Parent G.Node_Left G.Node_Right G.Node_Key G.Node_Value G.Node_color
                  G.Node_with_Parent G.Node_with_Left G.Node_with_Right G.Node_with_color is_nil negb] ].

Definition set_child (a x : nat) (nb : G.Node) : G.Node :=
  if ptr_eqb (Some a) (G.Node_Left nb) then G.Node_with_Left (Some x) nb else G.Node_with_Right (Some x) nb.

(* ---------- what rotateLeft does to an arbitrary heap ---------- *)
Lemma rotateLeft_exec : forall h tr a na x nx,
  hread h a = Some na -> G.Node_Right na = Some x -> hread h x = Some nx -> a <> x ->
  match G.Node_Parent na with None => True | Some b => b <> a /\ b <> x /\ hread h b <> None end ->
  match G.Node_Left nx with None => True
  | Some y => y <> a /\ y <> x /\ G.Node_Parent na <> Some y /\ hread h y <> None end ->
  exists h', G.rotateLeft h tr (Some a) =
      Some (h', match G.Node_Parent na with None => G.Tree_set_Root tr (Some x) | Some _ => tr end) /\
    hnext h' = hnext h /\
    hread h' x = Some (G.mkNode (G.Node_Key nx) (G.Node_Value nx) (G.Node_color nx) (Some a) (G.Node_Right nx) (G.Node_Parent na)) /\
    hread h' a = Some (G.mkNode (G.Node_Key na) (G.Node_Value na) (G.Node_color na) (G.Node_Left na) (G.Node_Left nx) (Some x)) /\
    (forall y, G.Node_Left nx = Some y -> hread h' y = option_map (G.Node_with_Parent (Some a)) (hread h y)) /\
    (forall b nb, G.Node_Parent na = Some b -> hread h b = Some nb -> hread h' b = Some (set_child a x nb)) /\
    (forall z, z <> a -> z <> x -> G.Node_Left nx <> Some z -> G.Node_Parent na <> Some z -> hread h' z = hread h z).
Proof.
  intros h tr a na x nx Ha Hr Hx Hax Hpar Hrl.
  unfold G.rotateLeft, G.replaceNode.
  destruct na as [ka va ca la ra pa]. destruct nx as [kx vx cx lx rx px]. cbn [G.Node_Parent G.Node_Left G.Node_Right G.Node_Key G.Node_Value G.Node_color] in *.
  subst ra.
  destruct pa as [b|].
  - destruct Hpar as (Hba & Hbx & Hb). destruct (hread h b) as [nb|] eqn:Hnb; [clear Hb|congruence].
    destruct lx as [y|].
    + destruct Hrl as (Hya & Hyx & Hyb & Hy). destruct (hread h y) as [ny|] eqn:Hny; [clear Hy|congruence].
      assert (Hby : b <> y) by congruence.
      destruct (ptr_eqb (Some a) (G.Node_Left nb)) eqn:Ecmp; hsim.
      all: eexists; (split; [reflexivity|]); (split; [reflexivity|]).
      all: (split; [hsim; reflexivity|]); (split; [hsim; reflexivity|]).
      all: (split; [intros y' E; injection E as <-; hsim; reflexivity|]).
      all: (split; [intros b' nb' E Hb'; injection E as <-; rewrite Hnb in Hb'; injection Hb' as <-; unfold set_child; hsim; reflexivity|]).
      all: intros z Hza Hzx Hzy Hzb; assert (z <> y) by congruence; assert (z <> b) by congruence; hsim; reflexivity.
    + destruct (ptr_eqb (Some a) (G.Node_Left nb)) eqn:Ecmp; hsim.
      all: eexists; (split; [reflexivity|]); (split; [reflexivity|]).
      all: (split; [hsim; reflexivity|]); (split; [hsim; reflexivity|]).
      all: (split; [intros y' E; discriminate|]).
      all: (split; [intros b' nb' E Hb'; injection E as <-; rewrite Hnb in Hb'; injection Hb' as <-; unfold set_child; hsim; reflexivity|]).
      all: intros z Hza Hzx Hzy Hzb; assert (z <> b) by congruence; hsim; reflexivity.
  - destruct lx as [y|].
    + destruct Hrl as (Hya & Hyx & _ & Hy). destruct (hread h y) as [ny|] eqn:Hny; [clear Hy|congruence].
      hsim. eexists. split; [reflexivity|]. split; [reflexivity|].
      split; [hsim; reflexivity|]. split; [hsim; reflexivity|].
      split; [intros y' E; injection E as <-; hsim; reflexivity|].
      split; [intros b' nb' E; discriminate|].
      intros z Hza Hzx Hzy Hzb. assert (z <> y) by congruence. hsim. reflexivity.
    + hsim. eexists. split; [reflexivity|]. split; [reflexivity|].
      split; [hsim; reflexivity|]. split; [hsim; reflexivity|].
      split; [intros y' E; discriminate|].
      split; [intros b' nb' E; discriminate|].
      intros z Hza Hzx Hzy Hzb. hsim. reflexivity.
Qed.

Lemma rotateRight_exec : forall h tr a na x nx,
  hread h a = Some na -> G.Node_Left na = Some x -> hread h x = Some nx -> a <> x ->
  match G.Node_Parent na with None => True | Some b => b <> a /\ b <> x /\ hread h b <> None end ->
  match G.Node_Right nx with None => True
  | Some y => y <> a /\ y <> x /\ G.Node_Parent na <> Some y /\ hread h y <> None end ->
  exists h', G.rotateRight h tr (Some a) =
      Some (h', match G.Node_Parent na with None => G.Tree_set_Root tr (Some x) | Some _ => tr end) /\
    hnext h' = hnext h /\
    hread h' x = Some (G.mkNode (G.Node_Key nx) (G.Node_Value nx) (G.Node_color nx) (G.Node_Left nx) (Some a) (G.Node_Parent na)) /\
    hread h' a = Some (G.mkNode (G.Node_Key na) (G.Node_Value na) (G.Node_color na) (G.Node_Right nx) (G.Node_Right na) (Some x)) /\
    (forall y, G.Node_Right nx = Some y -> hread h' y = option_map (G.Node_with_Parent (Some a)) (hread h y)) /\
    (forall b nb, G.Node_Parent na = Some b -> hread h b = Some nb -> hread h' b = Some (set_child a x nb)) /\
    (forall z, z <> a -> z <> x -> G.Node_Right nx <> Some z -> G.Node_Parent na <> Some z -> hread h' z = hread h z).
Proof.
  intros h tr a na x nx Ha Hr Hx Hax Hpar Hrl.
  unfold G.rotateRight, G.replaceNode.
  destruct na as [ka va ca la ra pa]. destruct nx as [kx vx cx lx rx px]. cbn [G.Node_Parent G.Node_Left G.Node_Right G.Node_Key G.Node_Value G.Node_color] in *.
  subst la.
  destruct pa as [b|].
  - destruct Hpar as (Hba & Hbx & Hb). destruct (hread h b) as [nb|] eqn:Hnb; [clear Hb|congruence].
    destruct rx as [y|].
    + destruct Hrl as (Hya & Hyx & Hyb & Hy). destruct (hread h y) as [ny|] eqn:Hny; [clear Hy|congruence].
      assert (Hby : b <> y) by congruence.
      destruct (ptr_eqb (Some a) (G.Node_Left nb)) eqn:Ecmp; hsim.
      all: eexists; (split; [reflexivity|]); (split; [reflexivity|]).
      all: (split; [hsim; reflexivity|]); (split; [hsim; reflexivity|]).
      all: (split; [intros y' E; injection E as <-; hsim; reflexivity|]).
      all: (split; [intros b' nb' E Hb'; injection E as <-; rewrite Hnb in Hb'; injection Hb' as <-; unfold set_child; hsim; reflexivity|]).
      all: intros z Hza Hzx Hzy Hzb; assert (z <> y) by congruence; assert (z <> b) by congruence; hsim; reflexivity.
    + destruct (ptr_eqb (Some a) (G.Node_Left nb)) eqn:Ecmp; hsim.
      all: eexists; (split; [reflexivity|]); (split; [reflexivity|]).
      all: (split; [hsim; reflexivity|]); (split; [hsim; reflexivity|]).
      all: (split; [intros y' E; discriminate|]).
      all: (split; [intros b' nb' E Hb'; injection E as <-; rewrite Hnb in Hb'; injection Hb' as <-; unfold set_child; hsim; reflexivity|]).
      all: intros z Hza Hzx Hzy Hzb; assert (z <> b) by congruence; hsim; reflexivity.
  - destruct rx as [y|].
    + destruct Hrl as (Hya & Hyx & _ & Hy). destruct (hread h y) as [ny|] eqn:Hny; [clear Hy|congruence].
      hsim. eexists. split; [reflexivity|]. split; [reflexivity|].
      split; [hsim; reflexivity|]. split; [hsim; reflexivity|].
      split; [intros y' E; injection E as <-; hsim; reflexivity|].
      split; [intros b' nb' E; discriminate|].
      intros z Hza Hzx Hzy Hzb. assert (z <> y) by congruence. hsim. reflexivity.
    + hsim. eexists. split; [reflexivity|]. split; [reflexivity|].
      split; [hsim; reflexivity|]. split; [hsim; reflexivity|].
      split; [intros y' E; discriminate|].
      split; [intros b' nb' E; discriminate|].
      intros z Hza Hzx Hzy Hzb. hsim. reflexivity.
Qed.

(* ---------- the rotated subtree is represented ---------- *)
Lemma in_addrs_root : forall t y, root_ptr t = Some y -> In y (addrs t).
Proof. destruct t; intros y H; [discriminate|]. injection H as <-. now left. Qed.

Lemma rot_left_rep : forall h h' pps a c l k v x c' rl rk rv rr,
  rep h pps (PT a c l k v (PT x c' rl rk rv rr)) -> NoDup (addrs (PT a c l k v (PT x c' rl rk rv rr))) ->
  hread h' x = Some (node_of pps c' (PT a c l k v rl) rk rv rr) ->
  hread h' a = Some (node_of (Some x) c l k v rl) ->
  (forall y, root_ptr rl = Some y -> hread h' y = option_map (G.Node_with_Parent (Some a)) (hread h y)) ->
  (forall z, In z (addrs l ++ addrs rl ++ addrs rr) -> root_ptr rl <> Some z -> hread h' z = hread h z) ->
  rep h' pps (PT x c' (PT a c l k v rl) rk rv rr).
Proof.
  intros h h' pps a c l k v x c' rl rk rv rr Hrep Hnd Hx Ha Hy Hfr.
  simpl in Hrep. destruct Hrep as (_ & Hl & _ & Hrl & Hrr).
  cbn [addrs] in Hnd. inversion Hnd as [|? ? Hna Hnd1]; subst.
  pose proof (NoDup_app_r _ _ _ Hnd1) as Hnd2. inversion Hnd2 as [|? ? Hnx Hnd3]; subst.
  cbn [rep]. split; [exact Hx|]. split; [split; [exact Ha|split]|].
  - eapply rep_frame; [|exact Hl]. intros z Hz. apply Hfr; [apply in_or_app; now left|].
    intro E. apply in_addrs_root in E. eapply (NoDup_app_disj _ _ _ z Hnd1); [exact Hz|]. right. apply in_or_app. now left.
  - destruct rl as [|y cy ly ky vy ry]; [exact I|]. simpl in Hrl. destruct Hrl as (Hyr & Hly & Hry).
    cbn [addrs] in Hnd3. pose proof (NoDup_app_l _ _ _ Hnd3) as Hnd4. inversion Hnd4 as [|? ? Hny Hnd5]; subst.
    cbn [rep]. split; [rewrite (Hy y eq_refl), Hyr; reflexivity|]. split.
    + eapply rep_frame; [|exact Hly]. intros z Hz. apply Hfr.
      * apply in_or_app. right. apply in_or_app. left. cbn [addrs]. right. apply in_or_app. now left.
      * cbn [root_ptr]. intro E. injection E as ->. apply Hny. apply in_or_app. now left.
    + eapply rep_frame; [|exact Hry]. intros z Hz. apply Hfr.
      * apply in_or_app. right. apply in_or_app. left. cbn [addrs]. right. apply in_or_app. now right.
      * cbn [root_ptr]. intro E. injection E as ->. apply Hny. apply in_or_app. now right.
  - eapply rep_frame; [|exact Hrr]. intros z Hz. apply Hfr; [apply in_or_app; right; apply in_or_app; now right|].
    intro E. apply in_addrs_root in E. eapply (NoDup_app_disj _ _ _ z Hnd3); eauto.
Qed.

Lemma rot_right_rep : forall h h' pps a c k v r x c' ll lk lv lr,
  rep h pps (PT a c (PT x c' ll lk lv lr) k v r) -> NoDup (addrs (PT a c (PT x c' ll lk lv lr) k v r)) ->
  hread h' x = Some (node_of pps c' ll lk lv (PT a c lr k v r)) ->
  hread h' a = Some (node_of (Some x) c lr k v r) ->
  (forall y, root_ptr lr = Some y -> hread h' y = option_map (G.Node_with_Parent (Some a)) (hread h y)) ->
  (forall z, In z (addrs ll ++ addrs lr ++ addrs r) -> root_ptr lr <> Some z -> hread h' z = hread h z) ->
  rep h' pps (PT x c' ll lk lv (PT a c lr k v r)).
Proof.
  intros h h' pps a c k v r x c' ll lk lv lr Hrep Hnd Hx Ha Hy Hfr.
  simpl in Hrep. destruct Hrep as (_ & (_ & Hll & Hlr) & Hr).
  cbn [addrs] in Hnd. inversion Hnd as [|? ? Hna Hnd1]; subst.
  pose proof (NoDup_app_l _ (x :: addrs ll ++ addrs lr) (addrs r) Hnd1) as Hnd2. inversion Hnd2 as [|? ? Hnx Hnd3]; subst.
  cbn [rep]. split; [exact Hx|]. split; [|split; [exact Ha|split]].
  - eapply rep_frame; [|exact Hll]. intros z Hz. apply Hfr; [apply in_or_app; now left|].
    intro E. apply in_addrs_root in E. eapply (NoDup_app_disj _ _ _ z Hnd3); eauto.
  - destruct lr as [|y cy ly ky vy ry]; [exact I|]. simpl in Hlr. destruct Hlr as (Hyr & Hly & Hry).
    cbn [addrs] in Hnd3. pose proof (NoDup_app_r _ _ _ Hnd3) as Hnd4. inversion Hnd4 as [|? ? Hny Hnd5]; subst.
    cbn [rep]. split; [rewrite (Hy y eq_refl), Hyr; reflexivity|]. split.
    + eapply rep_frame; [|exact Hly]. intros z Hz. apply Hfr.
      * apply in_or_app. right. apply in_or_app. left. cbn [addrs]. right. apply in_or_app. now left.
      * cbn [root_ptr]. intro E. injection E as ->. apply Hny. apply in_or_app. now left.
    + eapply rep_frame; [|exact Hry]. intros z Hz. apply Hfr.
      * apply in_or_app. right. apply in_or_app. left. cbn [addrs]. right. apply in_or_app. now right.
      * cbn [root_ptr]. intro E. injection E as ->. apply Hny. apply in_or_app. now right.
  - eapply rep_frame; [|exact Hr]. intros z Hz. apply Hfr; [apply in_or_app; right; apply in_or_app; now right|].
    intro E. apply in_addrs_root in E. eapply (NoDup_app_disj _ (x :: addrs ll ++ addrs lr) (addrs r) z Hnd1); [|exact Hz]. right. apply in_or_app. now right.
Qed.

(* ---------- from the subtree to the whole tree ---------- *)
Lemma set_child_node : forall a x ppb cb lb kb vb rb d s',
  NoDup (addrs (PT ppb cb lb kb vb rb)) -> root_ptr (pchild d lb rb) = Some a -> root_ptr s' = Some x ->
  forall pp, set_child a x (node_of pp cb lb kb vb rb) =
    match d with RB.L => node_of pp cb s' kb vb rb | RB.R => node_of pp cb lb kb vb s' end.
Proof.
  intros a x b cb lb kb vb rb d s' Hnd Ha Hx pp. unfold set_child, node_of. cbn [G.Node_Left].
  destruct d; cbn [pchild] in Ha.
  - rewrite Ha, ptr_eqb_refl. cbn. now rewrite Hx.
  - assert (E : ptr_eqb (Some a) (root_ptr lb) = false).
    { apply ptr_eqb_neq. intro E. symmetry in E. revert E. eapply siblings_differ; eauto. }
    rewrite E. cbn. now rewrite Hx.
Qed.

Lemma lift_subtree : forall h h' pt p s s' a x,
  rep h None pt -> NoDup (addrs pt) -> psub pt p = Some s -> root_ptr s = Some a -> root_ptr s' = Some x ->
  (forall z, In z (addrs s') -> In z (addrs s)) -> NoDup (addrs s') ->
  (forall pps, rep h pps s -> rep h' pps s') ->
  (forall pps b nb, rep h pps s -> pps = Some b -> hread h b = Some nb -> hread h' b = Some (set_child a x nb)) ->
  (forall pps z, rep h pps s -> In z (addrs pt) -> ~ In z (addrs s) -> pps <> Some z -> hread h' z = hread h z) ->
  rep h' None (pupd pt p s') /\ NoDup (addrs (pupd pt p s')) /\
  (forall z, In z (addrs (pupd pt p s')) -> In z (addrs pt)) /\
  root_ptr (pupd pt p s') = match p with [] => Some x | _ => root_ptr pt end.
Proof.
  intros h h' pt p s s' a x Hrep Hnd Hs Ha Hx Hincl Hnd' Hsub Hpar Hfr.
  destruct (path_cases p) as [->|(q & d & ->)].
  - pose proof (rep_psub_root _ _ _ Hrep Hs) as Hrs. destruct pt; [discriminate|]. injection Hs as <-.
    cbn [pupd]. repeat split; auto.
  - destruct (psub_snoc _ _ _ _ Hs) as (b & cb & lb & kb & vb & rb & Hsp & -> & Hne).
    pose proof (psub_nodup _ _ _ Hnd Hsp) as Hndb.
    destruct (rep_psub _ _ _ _ _ Hrep Hsp) as (ppb0 & Hrb0).
    assert (Hrs : rep h (Some b) (pchild d lb rb)).
    { simpl in Hrb0. destruct d; cbn [pchild]; tauto. }
    assert (Hbs : ~ In b (addrs (pchild d lb rb))).
    { cbn [addrs] in Hndb. inversion Hndb; subst. intro Hb. apply H1. apply in_or_app. destruct d; cbn [pchild] in Hb; tauto. }
    set (sp' := match d with RB.L => PT b cb s' kb vb rb | RB.R => PT b cb lb kb vb s' end).
    assert (Hpupd : pupd pt (q ++ [d]) s' = pupd pt q sp').
    { rewrite (pupd_app q [d] pt _ s' Hsp). subst sp'. destruct d; reflexivity. }
    rewrite Hpupd.
    assert (Hsp' : forall pps, rep h pps (PT b cb lb kb vb rb) -> rep h' pps sp').
    { intros pps Hrb. pose proof (rep_root_deref _ _ _ _ _ _ _ _ Hrb) as Hdb. cbn [deref] in Hdb.
      pose proof (Hpar (Some b) b _ Hrs eq_refl Hdb) as Hb'.
      rewrite (set_child_node a x b cb lb kb vb rb d s' Hndb Ha Hx pps) in Hb'.
      simpl in Hrb. destruct Hrb as (_ & Hlb & Hrb). cbn [addrs] in Hndb. inversion Hndb as [|? ? Hnb Hnd2]; subst.
      subst sp'. destruct d; cbn [pchild] in *; cbn [rep]; (split; [exact Hb'|split]).
      - apply Hsub. exact Hlb.
      - eapply rep_frame; [|exact Hrb]. intros z Hz. apply (Hfr (Some b) z Hlb).
        + eapply psub_addrs; [exact Hsp|]. cbn [addrs]. right. apply in_or_app. now right.
        + intro Hzl. eapply (NoDup_app_disj _ _ _ z Hnd2); eauto.
        + intro E. injection E as ->. apply Hnb. apply in_or_app. now right.
      - eapply rep_frame; [|exact Hlb]. intros z Hz. apply (Hfr (Some b) z Hrb).
        + eapply psub_addrs; [exact Hsp|]. cbn [addrs]. right. apply in_or_app. now left.
        + intro Hzl. eapply (NoDup_app_disj _ _ _ z Hnd2); eauto.
        + intro E. injection E as ->. apply Hnb. apply in_or_app. now left.
      - apply Hsub. exact Hrb. }
    assert (Hincl' : forall z, In z (addrs sp') -> In z (addrs (PT b cb lb kb vb rb))).
    { subst sp'. intros z Hz. destruct d; cbn [pchild addrs] in *; (destruct Hz as [->|Hz]; [now left|]); right;
        apply in_app_or in Hz; apply in_or_app; destruct Hz as [Hz|Hz]; auto. }
    assert (Hndsp' : NoDup (addrs sp')).
    { cbn [addrs] in Hndb. inversion Hndb as [|? ? Hnb Hnd2]; subst. subst sp'. destruct d; cbn [pchild addrs] in *; constructor.
      - intro Hz. apply Hnb. apply in_app_or in Hz. apply in_or_app. destruct Hz as [Hz|Hz]; auto.
      - apply NoDup_app_intro; [exact Hnd'|eapply NoDup_app_r; eauto|]. intros z Hz1 Hz2. eapply (NoDup_app_disj _ _ _ z Hnd2); eauto.
      - intro Hz. apply Hnb. apply in_app_or in Hz. apply in_or_app. destruct Hz as [Hz|Hz]; auto.
      - apply NoDup_app_intro; [eapply NoDup_app_l; eauto|exact Hnd'|]. intros z Hz1 Hz2. eapply (NoDup_app_disj _ _ _ z Hnd2); eauto. }
    destruct (rep_pupd_same_root h h' _ sp' q pt None Hrep Hnd Hsp) as (R1 & R2 & R3 & R4); auto.
    { subst sp'. destruct d; reflexivity. }
    { intros z Hz Hnz. apply (Hfr (Some b) z Hrs Hz).
      - intro Hzs. apply Hnz. cbn [addrs]. right. apply in_or_app. destruct d; cbn [pchild] in Hzs; auto.
      - intro E. injection E as ->. apply Hnz. cbn [addrs]. now left. }
    repeat split; auto. rewrite R4. destruct q; reflexivity.
Qed.

Lemma nodup_root_children : forall a c l k v r, NoDup (addrs (PT a c l k v r)) ->
  (forall y, In y (addrs l) -> y <> a) /\ (forall y, In y (addrs r) -> y <> a).
Proof.
  intros a c l k v r H. cbn [addrs] in H. inversion H; subst. split; intros y Hy ->; apply H2; apply in_or_app; auto.
Qed.

(* OBLIGATION *)
Theorem rotateLeft_correct : forall h tr pt p a c l k v x c' rl rk rv rr,
  rep h None pt -> NoDup (addrs pt) -> G.Tree_Root tr = root_ptr pt ->
  psub pt p = Some (PT a c l k v (PT x c' rl rk rv rr)) ->
  let pt' := pupd pt p (PT x c' (PT a c l k v rl) rk rv rr) in
  exists h' tr', G.rotateLeft h tr (Some a) = Some (h', tr') /\
    rep h' None pt' /\ NoDup (addrs pt') /\ G.Tree_Root tr' = root_ptr pt' /\
    G.Tree_size tr' = G.Tree_size tr /\ G.Tree_Comparator tr' = G.Tree_Comparator tr /\
    (forall y, ~ In y (addrs pt) -> hread h' y = hread h y) /\ hnext h' = hnext h /\
    (forall y, In y (addrs pt') -> In y (addrs pt)) /\
    RB.inorder (erase pt') = RB.inorder (erase pt).
Proof.
  intros h tr pt p a c l k v x c' rl rk rv rr Hrep Hnd Hroot Hs pt'.
  pose (s := PT a c l k v (PT x c' rl rk rv rr)).
  pose proof (psub_nodup _ _ _ Hnd Hs) as Hnds.
  destruct (rep_psub _ _ _ _ _ Hrep Hs) as (pps & Hrs).
  pose proof (rep_root_deref _ _ _ _ _ _ _ _ Hrs) as Ha. cbn [deref] in Ha.
  assert (Hrx : rep h (Some a) (PT x c' rl rk rv rr)) by (simpl in Hrs; destruct Hrs as (_ & _ & Hrs); exact Hrs).
  pose proof (rep_root_deref _ _ _ _ _ _ _ _ Hrx) as Hx. cbn [deref] in Hx.
  assert (Hax : a <> x).
  { intros ->. subst s. cbn [addrs] in Hnds. inversion Hnds; subst. apply H1. apply in_or_app. right. now left. }
  (* the parent, when there is one *)
  assert (Hpp : match pps with None => p = [] | Some b => b <> a /\ b <> x /\ hread h b <> None /\ In b (addrs pt) /\ ~ In b (addrs s) /\ root_ptr rl <> Some b end).
  { destruct (path_cases p) as [->|(q & d & ->)].
    - pose proof (rep_psub_root _ _ _ Hrep Hs) as Hr0. simpl in Hr0. destruct Hr0 as (Ha0 & _). rewrite Ha in Ha0. injection Ha0 as ->. reflexivity.
    - destruct (psub_snoc _ _ _ _ Hs) as (b & cb & lb & kb & vb & rb & Hsp & Hsd & _).
      destruct (rep_psub _ _ _ _ _ Hrep Hsp) as (ppb & Hrb). pose proof (psub_nodup _ _ _ Hnd Hsp) as Hndb.
      assert (Hrs' : rep h (Some b) s) by (unfold s; rewrite Hsd; simpl in Hrb; destruct d; cbn [pchild]; tauto).
      pose proof (rep_root_deref _ _ _ _ _ _ _ _ Hrs') as Ha'. cbn [deref] in Ha'. rewrite Ha in Ha'. injection Ha' as ->.
      assert (Hbs : ~ In b (addrs s)).
      { cbn [addrs] in Hndb. inversion Hndb; subst. intro Hb. apply H1. apply in_or_app. unfold s in Hb. rewrite Hsd in Hb. destruct d; cbn [pchild] in Hb; tauto. }
      repeat split.
      + intros ->. apply Hbs. now left.
      + intros ->. apply Hbs. cbn [addrs]. right. apply in_or_app. right. now left.
      + simpl in Hrb. destruct Hrb as (Hb & _). congruence.
      + eapply psub_addrs; [exact Hsp|now left].
      + exact Hbs.
      + intro E. apply in_addrs_root in E. apply Hbs. cbn [addrs]. right. apply in_or_app. right. right. apply in_or_app. now left. }
  destruct (rotateLeft_exec h tr a _ x _ Ha eq_refl Hx Hax) as (h' & Hrun & Hnext & Hx' & Ha' & Hy' & Hb' & Hfr').
  { cbn [node_of G.Node_Parent]. destruct pps as [b|]; [|exact I]. tauto. }
  { cbn [node_of G.Node_Left G.Node_Parent]. destruct rl as [|y cy ly ky vy ry]; [exact I|]. cbn [root_ptr].
    subst s. cbn [addrs] in Hnds. inversion Hnds as [|? ? Hna Hnd1]; subst. pose proof (NoDup_app_r _ _ _ Hnd1) as Hnd2. inversion Hnd2 as [|? ? Hnx Hnd3]; subst.
    repeat split.
    - intros ->. apply Hna. apply in_or_app. right. right. now left.
    - intros ->. apply Hnx. now left.
    - destruct pps as [b|]; [|discriminate]. intro E. injection E as ->. destruct Hpp as (_ & _ & _ & _ & _ & Hb). now apply Hb.
    - simpl in Hrx. destruct Hrx as (_ & (Hy & _) & _). congruence. }
  cbn [node_of G.Node_Parent G.Node_Left G.Node_Right G.Node_Key G.Node_Value G.Node_color] in *.
  assert (Hsub : forall pps0, rep h pps0 s -> rep h' pps0 (PT x c' (PT a c l k v rl) rk rv rr)).
  { intros pps0 Hrs0. pose proof (rep_root_deref _ _ _ _ _ _ _ _ Hrs0) as Ha0. cbn [deref] in Ha0. rewrite Ha in Ha0. injection Ha0 as <-.
    apply (rot_left_rep h h' pps a c l k v x c' rl rk rv rr Hrs Hnds Hx' Ha' Hy').
    intros z Hz Hzy. subst s. cbn [addrs] in Hnds. inversion Hnds as [|? ? Hna Hnd1]; subst.
    pose proof (NoDup_app_r _ _ _ Hnd1) as Hnd2. inversion Hnd2 as [|? ? Hnx Hnd3]; subst. apply Hfr'.
    - intros ->. apply Hna. apply in_app_or in Hz. apply in_or_app. destruct Hz as [Hz|Hz]; [now left|right; now right].
    - intros ->. apply in_app_or in Hz. destruct Hz as [Hz|Hz]; [|contradiction].
      eapply (NoDup_app_disj _ _ _ x Hnd1); [exact Hz|now left].
    - exact Hzy.
    - destruct pps as [b|]; [|discriminate]. intro E. injection E as ->. destruct Hpp as (_ & _ & _ & _ & Hb & _). apply Hb.
      cbn [addrs]. right. apply in_app_or in Hz. apply in_or_app. destruct Hz as [Hz|Hz]; [now left|right; now right]. }
  destruct (lift_subtree h h' pt p s (PT x c' (PT a c l k v rl) rk rv rr) a x Hrep Hnd Hs eq_refl eq_refl) as (R1 & R2 & R3 & R4).
  { subst s. intros z Hz. cbn [addrs] in *. destruct Hz as [->|[->|Hz]]; [right; apply in_or_app; right; now left|now left|].
    right. rewrite <- app_assoc in Hz. apply in_app_or in Hz. apply in_or_app. destruct Hz as [Hz|Hz]; [now left|right; now right]. }
  { subst s. cbn [addrs] in *. inversion Hnds as [|? ? Hna Hnd1]; subst.
    pose proof (NoDup_app_r _ _ _ Hnd1) as Hnd2. inversion Hnd2 as [|? ? Hnx Hnd3]; subst.
    constructor.
    - intros [E|Hz]; [congruence|]. rewrite <- app_assoc in Hz. apply in_app_or in Hz. destruct Hz as [Hz|Hz]; [|contradiction].
      eapply (NoDup_app_disj _ _ _ x Hnd1); [exact Hz|now left].
    - constructor.
      + intro Hz. apply Hna. rewrite !in_app_iff in *. cbn [In]. rewrite in_app_iff. tauto.
      + change (NoDup ((addrs l ++ addrs rl) ++ addrs rr)). rewrite <- app_assoc. apply NoDup_app_intro; [eapply NoDup_app_l; eauto|exact Hnd3|].
        intros z Hz1 Hz2. eapply (NoDup_app_disj _ _ _ z Hnd1); [exact Hz1|now right]. }
  { exact Hsub. }
  { intros pps0 b nb Hrs0 -> Hnb. pose proof (rep_root_deref _ _ _ _ _ _ _ _ Hrs0) as Ha0. cbn [deref] in Ha0. rewrite Ha in Ha0. injection Ha0 as ->.
    eapply Hb'; eauto. }
  { intros pps0 z Hrs0 Hz Hnz Hpz. pose proof (rep_root_deref _ _ _ _ _ _ _ _ Hrs0) as Ha0. cbn [deref] in Ha0. rewrite Ha in Ha0. injection Ha0 as ->.
    apply Hfr'.
    - intros ->. apply Hnz. now left.
    - intros ->. apply Hnz. cbn [addrs]. right. apply in_or_app. right. now left.
    - intro E. apply in_addrs_root in E. apply Hnz. cbn [addrs]. right. apply in_or_app. right. right. apply in_or_app. now left.
    - exact Hpz. }
  eexists _, _. split; [exact Hrun|]. fold pt'. split; [exact R1|]. split; [exact R2|]. split.
  { subst pt'. rewrite R4. destruct pps as [b|].
    - destruct p; [|exact Hroot]. exfalso. pose proof (rep_psub_root _ _ _ Hrep Hs) as Hr0. simpl in Hr0. destruct Hr0 as (Ha0 & _). unfold node_of in *. congruence.
    - subst p. reflexivity. }
  split; [destruct pps; reflexivity|]. split; [destruct pps; reflexivity|]. split.
  { intros y Hy. apply Hfr'.
    - intros ->. apply Hy. eapply psub_addrs; [exact Hs|now left].
    - intros ->. apply Hy. eapply psub_addrs; [exact Hs|]. cbn [addrs]. right. apply in_or_app. right. now left.
    - intro E. apply in_addrs_root in E. apply Hy. eapply psub_addrs; [exact Hs|]. cbn [addrs]. right. apply in_or_app. right. right. apply in_or_app. now left.
    - destruct pps as [b|]; [|discriminate]. intro E. injection E as ->. destruct Hpp as (_ & _ & _ & Hb & _). contradiction. }
  split; [exact Hnext|]. split; [exact R3|].
  apply (inorder_pupd p pt s _ Hs). subst s. cbn [erase RB.inorder]. rewrite <- !app_assoc. reflexivity.
Qed.
Print Assumptions rotateLeft_correct.

From Coq Require Import Permutation.

Ltac insolve := cbn [addrs In app] in *; rewrite ?in_app_iff in *; cbn [In] in *; intuition (auto; congruence).

Lemma rot_right_perm : forall (a x : nat) (ll lr r : list nat),
  Permutation (a :: (x :: ll ++ lr) ++ r) (x :: ll ++ a :: lr ++ r).
Proof.
  intros. cbn [app]. rewrite <- app_assoc. etransitivity; [apply perm_swap|]. apply perm_skip. apply Permutation_middle.
Qed.

(* OBLIGATION *)
Theorem rotateRight_correct : forall h tr pt p a c k v r x c' ll lk lv lr,
  rep h None pt -> NoDup (addrs pt) -> G.Tree_Root tr = root_ptr pt ->
  psub pt p = Some (PT a c (PT x c' ll lk lv lr) k v r) ->
  let pt' := pupd pt p (PT x c' ll lk lv (PT a c lr k v r)) in
  exists h' tr', G.rotateRight h tr (Some a) = Some (h', tr') /\
    rep h' None pt' /\ NoDup (addrs pt') /\ G.Tree_Root tr' = root_ptr pt' /\
    G.Tree_size tr' = G.Tree_size tr /\ G.Tree_Comparator tr' = G.Tree_Comparator tr /\
    (forall y, ~ In y (addrs pt) -> hread h' y = hread h y) /\ hnext h' = hnext h /\
    (forall y, In y (addrs pt') -> In y (addrs pt)) /\
    RB.inorder (erase pt') = RB.inorder (erase pt).
Proof.
  intros h tr pt p a c k v r x c' ll lk lv lr Hrep Hnd Hroot Hs pt'.
  pose (s := PT a c (PT x c' ll lk lv lr) k v r).
  pose proof (psub_nodup _ _ _ Hnd Hs) as Hnds.
  destruct (rep_psub _ _ _ _ _ Hrep Hs) as (pps & Hrs).
  pose proof (rep_root_deref _ _ _ _ _ _ _ _ Hrs) as Ha. cbn [deref] in Ha.
  assert (Hrx : rep h (Some a) (PT x c' ll lk lv lr)) by (simpl in Hrs; destruct Hrs as (_ & Hrs & _); exact Hrs).
  pose proof (rep_root_deref _ _ _ _ _ _ _ _ Hrx) as Hx. cbn [deref] in Hx.
  assert (Hperm := rot_right_perm a x (addrs ll) (addrs lr) (addrs r)).
  assert (Hnds' : NoDup (addrs (PT x c' ll lk lv (PT a c lr k v r)))) by (cbn [addrs] in *; eapply Permutation_NoDup; eauto).
  assert (Hax : a <> x).
  { intros ->. cbn [addrs] in Hnds. inversion Hnds; subst. apply H1. now left. }
  assert (Hdis : forall z, In z (addrs ll ++ addrs lr ++ addrs r) -> z <> a /\ z <> x).
  { intros z Hz. cbn [addrs] in Hnds. inversion Hnds as [|? ? Hna Hnd1]; subst.
    pose proof (NoDup_app_l _ (x :: addrs ll ++ addrs lr) (addrs r) Hnd1) as Hnd2. inversion Hnd2 as [|? ? Hnx Hnd3]; subst.
    split; intros ->.
    - apply Hna. insolve.
    - rewrite !in_app_iff in Hz. destruct Hz as [Hz|[Hz|Hz]]; [apply Hnx; insolve|apply Hnx; insolve|].
      eapply (NoDup_app_disj _ (x :: addrs ll ++ addrs lr) (addrs r) x Hnd1); [now left|exact Hz]. }
  (* the parent, when there is one *)
  assert (Hpp : match pps with None => p = [] | Some b => b <> a /\ b <> x /\ hread h b <> None /\ In b (addrs pt) /\ ~ In b (addrs s) /\ root_ptr lr <> Some b end).
  { destruct (path_cases p) as [->|(q & d & ->)].
    - pose proof (rep_psub_root _ _ _ Hrep Hs) as Hr0. simpl in Hr0. destruct Hr0 as (Ha0 & _). rewrite Ha in Ha0. injection Ha0 as ->. reflexivity.
    - destruct (psub_snoc _ _ _ _ Hs) as (b & cb & lb & kb & vb & rb & Hsp & Hsd & _).
      destruct (rep_psub _ _ _ _ _ Hrep Hsp) as (ppb & Hrb). pose proof (psub_nodup _ _ _ Hnd Hsp) as Hndb.
      assert (Hrs' : rep h (Some b) s) by (unfold s; rewrite Hsd; simpl in Hrb; destruct d; cbn [pchild]; tauto).
      pose proof (rep_root_deref _ _ _ _ _ _ _ _ Hrs') as Ha'. cbn [deref] in Ha'. rewrite Ha in Ha'. injection Ha' as ->.
      assert (Hbs : ~ In b (addrs s)).
      { cbn [addrs] in Hndb. inversion Hndb; subst. intro Hb. apply H1. apply in_or_app. unfold s in Hb. rewrite Hsd in Hb. destruct d; cbn [pchild] in Hb; tauto. }
      repeat split.
      + intros ->. apply Hbs. now left.
      + intros ->. apply Hbs. unfold s. insolve.
      + simpl in Hrb. destruct Hrb as (Hb & _). congruence.
      + eapply psub_addrs; [exact Hsp|now left].
      + exact Hbs.
      + intro E. apply in_addrs_root in E. apply Hbs. unfold s. insolve. }
  destruct (rotateRight_exec h tr a _ x _ Ha eq_refl Hx Hax) as (h' & Hrun & Hnext & Hx' & Ha' & Hy' & Hb' & Hfr').
  { cbn [node_of G.Node_Parent]. destruct pps as [b|]; [|exact I]. tauto. }
  { cbn [node_of G.Node_Right G.Node_Parent]. destruct lr as [|y cy ly ky vy ry]; [exact I|]. cbn [root_ptr].
    destruct (Hdis y ltac:(insolve)) as (Hya & Hyx).
    repeat split; auto.
    - destruct pps as [b|]; [|discriminate]. intro E. injection E as ->. destruct Hpp as (_ & _ & _ & _ & _ & Hb). now apply Hb.
    - simpl in Hrx. destruct Hrx as (_ & _ & (Hy & _)). congruence. }
  cbn [node_of G.Node_Parent G.Node_Left G.Node_Right G.Node_Key G.Node_Value G.Node_color] in *.
  assert (Hsub : forall pps0, rep h pps0 s -> rep h' pps0 (PT x c' ll lk lv (PT a c lr k v r))).
  { intros pps0 Hrs0. pose proof (rep_root_deref _ _ _ _ _ _ _ _ Hrs0) as Ha0. cbn [deref] in Ha0. rewrite Ha in Ha0. injection Ha0 as <-.
    apply (rot_right_rep h h' pps a c k v r x c' ll lk lv lr Hrs Hnds Hx' Ha' Hy').
    intros z Hz Hzy. destruct (Hdis z Hz) as (Hza & Hzx). apply Hfr'; auto.
    destruct pps as [b|]; [|discriminate]. intro E. injection E as ->. destruct Hpp as (_ & _ & _ & _ & Hb & _). apply Hb. unfold s. insolve. }
  destruct (lift_subtree h h' pt p s (PT x c' ll lk lv (PT a c lr k v r)) a x Hrep Hnd Hs eq_refl eq_refl) as (R1 & R2 & R3 & R4).
  { intros z Hz. unfold s. cbn [addrs] in *. eapply Permutation_in; [symmetry; exact Hperm|exact Hz]. }
  { exact Hnds'. }
  { exact Hsub. }
  { intros pps0 b nb Hrs0 -> Hnb. pose proof (rep_root_deref _ _ _ _ _ _ _ _ Hrs0) as Ha0. cbn [deref] in Ha0. rewrite Ha in Ha0. injection Ha0 as ->.
    eapply Hb'; eauto. }
  { intros pps0 z Hrs0 Hz Hnz Hpz. pose proof (rep_root_deref _ _ _ _ _ _ _ _ Hrs0) as Ha0. cbn [deref] in Ha0. rewrite Ha in Ha0. injection Ha0 as ->.
    apply Hfr'.
    - intros ->. apply Hnz. now left.
    - intros ->. apply Hnz. unfold s. insolve.
    - intro E. apply in_addrs_root in E. apply Hnz. unfold s. insolve.
    - exact Hpz. }
  eexists _, _. split; [exact Hrun|]. fold pt'. split; [exact R1|]. split; [exact R2|]. split.
  { subst pt'. rewrite R4. destruct pps as [b|].
    - destruct p; [|exact Hroot]. exfalso. pose proof (rep_psub_root _ _ _ Hrep Hs) as Hr0. simpl in Hr0. destruct Hr0 as (Ha0 & _). unfold node_of in *. congruence.
    - subst p. reflexivity. }
  split; [destruct pps; reflexivity|]. split; [destruct pps; reflexivity|]. split.
  { intros y Hy. apply Hfr'.
    - intros ->. apply Hy. eapply psub_addrs; [exact Hs|now left].
    - intros ->. apply Hy. eapply psub_addrs; [exact Hs|]. insolve.
    - intro E. apply in_addrs_root in E. apply Hy. eapply psub_addrs; [exact Hs|]. insolve.
    - destruct pps as [b|]; [|discriminate]. intro E. injection E as ->. destruct Hpp as (_ & _ & _ & Hb & _). contradiction. }
  split; [exact Hnext|]. split; [exact R3|].
  apply (inorder_pupd p pt s _ Hs). unfold s. cbn [erase RB.inorder]. rewrite <- !app_assoc. reflexivity.
Qed.
Print Assumptions rotateRight_correct.

(* ---------- replaceNode on an arbitrary heap: exactly one child link (or Tree.Root) and one Parent link are written ---------- *)
(* OBLIGATION *)
Theorem replaceNode_exec : forall h tr a na new,
  hread h a = Some na ->
  match G.Node_Parent na with None => True | Some b => b <> a /\ hread h b <> None /\ new <> Some b end ->
  match new with None => True | Some x => hread h x <> None end ->
  exists h', G.replaceNode h tr (Some a) new =
      Some (h', match G.Node_Parent na with None => G.Tree_set_Root tr new | Some _ => tr end) /\
    hnext h' = hnext h /\
    (forall b nb, G.Node_Parent na = Some b -> hread h b = Some nb ->
       hread h' b = Some (if ptr_eqb (Some a) (G.Node_Left nb) then G.Node_with_Left new nb else G.Node_with_Right new nb)) /\
    (forall x nx, new = Some x -> hread h x = Some nx -> hread h' x = Some (G.Node_with_Parent (G.Node_Parent na) nx)) /\
    (forall z, new <> Some z -> G.Node_Parent na <> Some z -> hread h' z = hread h z).
Proof.
  intros h tr a na new Ha Hpar Hnew. unfold G.replaceNode.
  destruct na as [ka va ca la ra pa]. cbn [G.Node_Parent] in *.
  destruct pa as [b|].
  - destruct Hpar as (Hba & Hb & Hnb'). destruct (hread h b) as [nb|] eqn:Hnb; [clear Hb|congruence].
    destruct new as [x|].
    + destruct (hread h x) as [nx|] eqn:Hnx; [clear Hnew|congruence]. assert (Hbx : b <> x) by congruence.
      destruct (ptr_eqb (Some a) (G.Node_Left nb)) eqn:Ecmp; hsim.
      all: eexists; (split; [reflexivity|]); (split; [reflexivity|]).
      all: (split; [intros b' nb' E Hb'; injection E as <-; rewrite Hnb in Hb'; injection Hb' as <-; hsim; reflexivity|]).
      all: (split; [intros x' nx' E Hx'; injection E as <-; rewrite Hnx in Hx'; injection Hx' as <-; hsim; reflexivity|]).
      all: intros z Hzx Hzb; assert (z <> x) by congruence; assert (z <> b) by congruence; hsim; reflexivity.
    + destruct (ptr_eqb (Some a) (G.Node_Left nb)) eqn:Ecmp; hsim.
      all: eexists; (split; [reflexivity|]); (split; [reflexivity|]).
      all: (split; [intros b' nb' E Hb'; injection E as <-; rewrite Hnb in Hb'; injection Hb' as <-; hsim; reflexivity|]).
      all: (split; [intros x' nx' E; discriminate|]).
      all: intros z Hzx Hzb; assert (z <> b) by congruence; hsim; reflexivity.
  - destruct new as [x|].
    + destruct (hread h x) as [nx|] eqn:Hnx; [clear Hnew|congruence].
      hsim. eexists. split; [reflexivity|]. split; [reflexivity|].
      split; [intros b' nb' E; discriminate|].
      split; [intros x' nx' E Hx'; injection E as <-; rewrite Hnx in Hx'; injection Hx' as <-; hsim; reflexivity|].
      intros z Hzx Hzb. assert (z <> x) by congruence. hsim. reflexivity.
    + hsim. eexists. split; [reflexivity|]. split; [reflexivity|].
      split; [intros b' nb' E; discriminate|]. split; [intros x' nx' E; discriminate|].
      intros z Hzx Hzb. reflexivity.
Qed.
Print Assumptions replaceNode_exec.
