(* DELETION path of trees/btree/btree.go: the GENERATED Remove (GodsGen.BTreeHeapGen: Remove, searchRecursively, delete, right,
   deleteEntry, deleteChild, rebalance, leftSibling, rightSibling, appendChildren, prependChildren, setParent) against the
   functional model BT.remove (Model/BTree.v) and the cost model BTreeCost.remove_c, for EVERY heap with heap_ok, every
   represented tree with the B-tree invariant and the order (btree_inv, sorted_root of Proofs/BTreeInv.v: what every
   reachable tree satisfies), every key, every order m >= 3, every strict weak order (needed because leftSibling /
   rightSibling search the deleted key in the parent again), every magnitude function: [Remove_correct]; and runs of
   generated Puts and Removes from the generated constructor: [gen_ops_ok]. *)
From Coq Require Import ZArith List Lia Bool Arith ZifyBool ZifyNat.
From Gods Require Import Common.Cmp Spec.MapSpec Model.BTree Model.BTreeCost Proofs.BTreeInd Proofs.BTreeMap.
From Gods Require Proofs.BTreeInv Proofs.IterTreeBT Proofs.BTreeCostProofs Proofs.MapSpecProofs.
From GodsGenProofs Require Import GoCmp GoTreeHeap GoBTreeHeap BTreeHeapRep BTreeHeapReadProofs BTreeHeapInsertModel BTreeHeapRemoveModel
  BTreeHeapRemoveOrder BTreeHeapWriteLemmas BTreeHeapRebalanceProofs BTreeHeapDeleteProofs BTreeHeapPutProofs.
From GodsGen Require BTreeHeapGen.
Import ListNotations.
Local Open Scope Z_scope.

Lemma remove_mfin : forall m cmp f key t ot' b, BT.remove m cmp f key (Some t) = Some (ot', b) ->
  exists t0, BT.del m cmp f key t = Some (t0, b) /\ ot' = mfin t0.
Proof.
  intros m cmp f key t ot' b H. cbn [BT.remove] in H. destruct (BT.del m cmp f key t) as [[t0 b0]|]; [|discriminate].
  exists t0. destruct t0 as [[|e es] [|c cs]]; injection H as <- <-; split; reflexivity.
Qed.

(* what a deletion does to the invariants, the number of entries and the height *)
Lemma remove_facts : forall (m : nat) cmp f key ot ot' b, (3 <= m)%nat -> SWO cmp ->
  BTreeInv.btree_inv m ot -> BTreeInv.sorted_root cmp ot -> (bmaxheight ot <= f)%nat ->
  BT.remove m cmp f key ot = Some (ot', b) ->
  BTreeInv.btree_inv m ot' /\ BTreeInv.sorted_root cmp ot' /\
  bcount ot = (bcount ot' + if b then 1 else 0)%nat /\ (bmaxheight ot' <= bmaxheight ot)%nat.
Proof.
  intros m cmp f key ot ot' b H3 Hswo Hinv Hsort Hf Hrem.
  destruct (BTreeMap.remove_inorder cmp Hswo m H3 f key ot ot' b) as (Hin & Hwf' & Hb & _); [| |exact Hrem|].
  { destruct ot as [t|]; [|exact I]. split; [|exact Hf]. destruct Hinv as (hh & Hbal & _). eauto. }
  { destruct ot as [t|]; [|exact I]. split; [eapply BTreeInv.btree_inv_wf; exact Hinv|exact Hsort]. }
  assert (Hcount : bcount ot = (bcount ot' + if b then 1 else 0)%nat).
  { rewrite !bcount_inorder, Hin, (MapSpecProofs.del_list_length cmp Hswo).
    - rewrite <- Hb. destruct b; cbv iota; [|now rewrite Nat.add_0_r].
      assert (BTreeMap.inorder' ot <> []); [|destruct (BTreeMap.inorder' ot); [congruence|cbn [length pred]; now rewrite Nat.add_1_r]].
      intros E. rewrite E in Hb. discriminate Hb.
    - destruct ot as [t|]; [exact Hsort|apply BTreeMap.ksorted_nil]. }
  assert (Hs' : BTreeInv.sorted_root cmp ot') by (destruct ot' as [t'|]; [exact (proj2 Hwf')|exact I]).
  destruct ot as [t|].
  - destruct Hinv as (hh & Hbal & Hcnt). cbn [bmaxheight] in *. rewrite (BTreeMap.bal_maxheight _ _ Hbal) in *.
    destruct (remove_mfin _ _ _ _ _ _ _ Hrem) as (t0 & Edel & ->).
    destruct (BTreeInv.del_ok m H3 cmp f hh 1 key t Hbal Hcnt (Nat.le_refl _) Hf) as (n' & b' & Ed & Hcn & Hbn).
    rewrite Ed in Edel. injection Edel as -> ->.
    destruct t0 as [[|e1 es1] cs1].
    + destruct cs1 as [|c1 cs1]; cbn [mfin bmaxheight]; [repeat split; try assumption; lia|].
      destruct hh as [|[|h']]; [contradiction|apply BTreeMap.bal_1 in Hbn; discriminate|].
      apply BTreeMap.bal_SS in Hbn. destruct Hbn as [_ Hfb]. apply Forall_inv in Hfb.
      apply BTreeInv.cnt_inv in Hcn. destruct Hcn as [_ Hfc]. apply Forall_inv in Hfc.
      split; [|split; [exact Hs'|split; [exact Hcount|rewrite (BTreeMap.bal_maxheight _ _ Hfb); lia]]].
      exists (S h'). split; [exact Hfb|]. eapply BTreeInv.cnt_weaken; [exact Hfc|apply BTreeInv.minE_pos; exact H3].
    + cbn [mfin bmaxheight]. split; [|split; [exact Hs'|split; [exact Hcount|rewrite (BTreeMap.bal_maxheight _ _ Hbn); lia]]].
      exists hh. split; [exact Hbn|]. eapply BTreeInv.cnt_raise; [exact Hcn|cbn [length]; lia].
  - cbn [BT.remove] in Hrem. injection Hrem as <- <-. repeat split; try exact I; cbn; lia.
Qed.

Lemma root_repr_size : forall h tr ot z, root_repr h (G.Tree_set_size tr z) ot <-> root_repr h tr ot.
Proof. intros h [r c s mm] ot z. reflexivity. Qed.

(* OBLIGATION *)
Theorem Remove_correct : forall mag (m : nat) h tr ot key f fuel n ot' b,
  (3 <= m)%nat -> SWO (G.Tree_Comparator tr) -> heap_ok h -> tree_repr h tr ot -> G.Tree_m tr = Z.of_nat m ->
  BTreeInv.btree_inv m ot -> BTreeInv.sorted_root (G.Tree_Comparator tr) ot -> (bmaxheight ot <= f)%nat ->
  BT.remove m (G.Tree_Comparator tr) f key ot = Some (ot', b) ->
  (bmaxheight ot + bwid ot + 3 <= fuel)%nat ->
  exists h' tr',
    G.Remove mag fuel n h tr key = Some ((n + remove_c m (G.Tree_Comparator tr) f key ot)%nat, h', tr') /\
    tree_repr h' tr' ot' /\ heap_ok h' /\
    G.Tree_size tr' = G.Tree_size tr - (if b then 1 else 0) /\
    G.Tree_m tr' = G.Tree_m tr /\ G.Tree_Comparator tr' = G.Tree_Comparator tr.
Proof.
  intros mag m h tr ot key f fuel n ot' b H3 Hswo Hok [Hroot Hsize] Hm Hinv Hsort Hf Hrem Hfuel.
  destruct (remove_facts m _ f key ot ot' b H3 Hswo Hinv Hsort Hf Hrem) as (Hinv' & _ & Hcount & _).
  unfold G.Remove, G.searchRecursively, G.Empty. destruct ot as [t|].
  - destruct Hinv as (hh & Hbal & Hcnt). cbn [BTreeInv.sorted_root] in Hsort.
    destruct (remove_mfin _ _ _ _ _ _ _ Hrem) as (t0 & Edel & ->).
    destruct Hroot as (pt & <- & Hr & Hrep & Hnd). cbn [bmaxheight bwid remove_c bcount] in *.
    rewrite (BTreeMap.bal_maxheight _ _ Hbal) in *.
    destruct (del_c_is_del m _ H3 f hh 1 key _ t0 b Hbal Hcnt Hf Edel) as (k & ok & Edc). rewrite Edc.
    assert (Hc1 : (1 <= BT.count (erase pt))%nat).
    { destruct (erase pt) as [es cs]. apply BTreeInv.cnt_inv in Hcnt. cbn [BT.count]. lia. }
    assert (Hsz : G.Tree_size tr <> 0) by lia.
    replace (G.Tree_size tr =? 0) with false by lia.
    assert (Hz : zrep h tr [] pt).
    { unfold zrep. cbn [cparent crep caddrs croot]. rewrite app_nil_r. repeat split; assumption. }
    destruct (BTreeInv.del_ok m H3 (G.Tree_Comparator tr) f hh 1 key _ Hbal Hcnt (Nat.le_refl _) Hf) as (n' & b' & Ed & Hcn & Hbn).
    rewrite Ed in Edel. injection Edel as -> ->.
    destruct (remove_descent mag m H3 f [] pt hh 1%nat fuel fuel n h tr key t0 b k ok (G.Tree_Root tr) 0 false (wid (erase pt)) t0 (n + k)%nat
                Hz (Forall_nil _) Hswo Hsort Hbal Hcnt (Nat.le_refl _) Hf Hm Hsz Edc
                (remove_positions m _ H3 Hswo f hh 1%nat key _ Hbal Hcnt Hsort Hf))
      as (p & i & kd & rest & Hrun & Hkd & Hdel).
    { intros _. cbn [map rpos_ok upz fst snd]. split; [exact I|reflexivity]. }
    { intros [Hx|Hx]; [congruence|]. destruct (erase pt) as [es cs]. cbn [BT.children] in Hx.
      destruct (BTreeHeapRemoveOrder.bal_kids hh es cs Hbal Hx) as (hh' & -> & _ & _).
      destruct t0 as [es0 cs0]. apply BTreeMap.bal_SS in Hbn. cbn [BT.children]. destruct cs0; [destruct Hbn as [Hx' _]; discriminate Hx'|discriminate]. }
    { intros Hx. destruct t0 as [[|e0 es0] [|c0 cs0]]; cbn [collapse BT.entries BT.children] in *; try congruence.
      apply BTreeInv.cnt_inv in Hcn. destruct Hcn as [_ Hfc]. apply Forall_inv in Hfc. destruct c0 as [ces ccs].
      apply BTreeInv.cnt_inv in Hfc. pose proof (BTreeInv.minE_pos m H3). cbn [BT.entries]. destruct ces; [|discriminate]. destruct Hfc as [[Hlo' _] _]. cbn [length] in Hlo'. lia. }
    { cbn [cwid]. lia. }
    { lia. }
    { lia. }
    { cbn [length]. lia. }
    rewrite Hr in *. rewrite Hrun. destruct rest as [[[r1 r2] r3] r4]. cbv beta iota. destruct b.
    + destruct (Hdel eq_refl) as (h' & tr' & Hd & Hrr & Hok' & Hs' & Hm' & Hc').
      rewrite Hd. eexists. eexists. split; [reflexivity|].
      split; [split; [apply root_repr_size; exact Hrr|]|split; [exact Hok'|]].
      * destruct tr' as [r' c' s' m']. cbn [G.Tree_set_size G.Tree_size] in *. lia.
      * destruct tr' as [r' c' s' m']. cbn [G.Tree_set_size G.Tree_size G.Tree_m G.Tree_Comparator] in *. repeat split; try assumption; lia.
    + rewrite (Hkd eq_refl). apply del_c_false in Edc. subst t0.
      assert (E : mfin (erase pt) = Some (erase pt)).
      { clear - Hcnt. destruct (erase pt) as [[|e es] cs]; [|destruct cs; reflexivity]. apply BTreeInv.cnt_inv in Hcnt. cbn [length] in Hcnt. lia. }
      rewrite E in *. cbn [bcount] in Hcount.
      exists h, tr. split; [reflexivity|]. split; [split; [exists pt; repeat split; assumption|exact Hsize]|].
      split; [exact Hok|]. repeat split; lia.
  - cbn [BT.remove remove_c] in *. injection Hrem as <- <-. cbn [root_repr bcount] in *.
    replace (G.Tree_size tr =? 0) with true by lia.
    exists h, tr. rewrite Nat.add_0_r. split; [reflexivity|]. split; [split; assumption|]. split; [exact Hok|]. repeat split; lia.
Qed.
Print Assumptions Remove_correct.

(* ---------- runs of Puts and Removes from the constructor ---------- *)
Inductive bop : Type := BPut (k v : Z) | BRemove (k : Z).

Definition gen_op (mag : Z -> Z -> positive) (fuel n : nat) (h : heap G.Node) (tr : G.Tree) (o : bop) : option (nat * heap G.Node * G.Tree) :=
  match o with
  | BPut k v => G.Put mag fuel n h tr k v
  | BRemove k => G.Remove mag fuel n h tr k
  end.

Fixpoint gen_ops (mag : Z -> Z -> positive) (fuel n : nat) (h : heap G.Node) (tr : G.Tree) (ops : list bop)
  : option (nat * heap G.Node * G.Tree) :=
  match ops with
  | [] => Some (n, h, tr)
  | o :: rest => match gen_op mag fuel n h tr o with Some (n', h', tr') => gen_ops mag fuel n' h' tr' rest | None => None end
  end.

(* the model's step with the fuel the machine uses, and its comparator-call count *)
Definition model_op (m : nat) (cmp : cmpf) (ot : option BT.node) (o : bop) : option (option BT.node * nat) :=
  let f := S (BTreeInv.hroot ot) in
  match o with
  | BPut k v => match BT.put m cmp f (k, v) ot with Some (ot', _) => Some (ot', put_c m cmp f (k, v) ot) | None => None end
  | BRemove k => match BT.remove m cmp f k ot with Some (ot', _) => Some (ot', remove_c m cmp f k ot) | None => None end
  end.

Fixpoint model_ops (m : nat) (cmp : cmpf) (ot : option BT.node) (cost : nat) (ops : list bop) : option (option BT.node * nat) :=
  match ops with
  | [] => Some (ot, cost)
  | o :: rest => match model_op m cmp ot o with Some (ot', c) => model_ops m cmp ot' (cost + c)%nat rest | None => None end
  end.

Lemma gen_ops_from : forall mag (m : nat) cmp, (3 <= m)%nat -> SWO cmp -> forall ops fuel n h tr ot k,
  tree_repr h tr ot -> heap_ok h -> BTreeInv.btree_inv m ot -> BTreeInv.sorted_root cmp ot ->
  G.Tree_m tr = Z.of_nat m -> G.Tree_Comparator tr = cmp -> (bmaxheight ot <= k)%nat ->
  (4 * (k + length ops) + m + 3 <= fuel)%nat ->
  exists n' h' tr' ot',
    gen_ops mag fuel n h tr ops = Some (n', h', tr') /\ model_ops m cmp ot n ops = Some (ot', n') /\
    tree_repr h' tr' ot' /\ heap_ok h' /\ BTreeInv.btree_inv m ot' /\ BTreeInv.sorted_root cmp ot' /\
    G.Tree_m tr' = Z.of_nat m /\ G.Tree_Comparator tr' = cmp.
Proof.
  intros mag m cmp H3 Hswo. induction ops as [|o rest IH]; intros fuel n h tr ot k Hrepr Hok Hinv Hsort Hm Hc Hk Hfuel.
  - exists n, h, tr, ot. split; [reflexivity|]. split; [reflexivity|]. split; [exact Hrepr|]. split; [exact Hok|].
    split; [exact Hinv|]. split; [exact Hsort|]. split; assumption.
  - cbn [gen_ops model_ops length] in *.
    assert (Hf : (bmaxheight ot <= S (BTreeInv.hroot ot))%nat).
    { destruct ot as [t|]; [|cbn; lia]. cbn [bmaxheight BTreeInv.hroot]. rewrite (BTreeInv.btree_inv_height _ _ Hinv). lia. }
    pose proof (inv_wid m ot H3 Hinv) as Hw.
    destruct o as [key value|key]; cbn [gen_op model_op].
    + destruct (BTreeInv.put_correct m cmp (key, value) ot H3 Hswo Hinv Hsort) as (ot' & b & Hput & Hinv' & Hsort' & _).
      rewrite Hput. subst cmp.
      destruct (Put_correct mag m h tr ot key value (S (BTreeInv.hroot ot)) fuel n ot' b H3 Hswo Hok Hrepr Hm
                  (inv_owf _ _ _ Hinv Hsort) Hf Hput ltac:(lia)) as (h' & tr' & Hrun & Hrepr' & Hok' & _ & Hm' & Hc').
      rewrite Hrun.
      pose proof (put_height m _ _ _ ot ot' b H3 Hinv Hf Hput) as Hh.
      destruct (IH fuel (n + put_c m (G.Tree_Comparator tr) (S (BTreeInv.hroot ot)) (key, value) ot)%nat h' tr' ot' (S k)
                  Hrepr' Hok' Hinv' Hsort' ltac:(rewrite Hm'; exact Hm) Hc' ltac:(lia) ltac:(lia))
        as (n2 & h2 & tr2 & ot2 & R1 & R2 & R).
      exists n2, h2, tr2, ot2. split; [exact R1|]. split; [exact R2|]. exact R.
    + destruct (BTreeInv.remove_correct m cmp key ot H3 Hswo Hinv Hsort) as (ot' & b & Hrem & _).
      rewrite Hrem. subst cmp.
      destruct (remove_facts m _ _ key ot ot' b H3 Hswo Hinv Hsort Hf Hrem) as (Hinv' & Hsort' & _ & Hh).
      destruct (Remove_correct mag m h tr ot key (S (BTreeInv.hroot ot)) fuel n ot' b H3 Hswo Hok Hrepr Hm Hinv Hsort Hf Hrem ltac:(lia))
        as (h' & tr' & Hrun & Hrepr' & Hok' & _ & Hm' & Hc').
      rewrite Hrun.
      destruct (IH fuel (n + remove_c m (G.Tree_Comparator tr) (S (BTreeInv.hroot ot)) key ot)%nat h' tr' ot' (S k)
                  Hrepr' Hok' Hinv' Hsort' ltac:(rewrite Hm'; exact Hm) Hc' ltac:(lia) ltac:(lia))
        as (n2 & h2 & tr2 & ot2 & R1 & R2 & R).
      exists n2, h2, tr2, ot2. split; [exact R1|]. split; [exact R2|]. exact R.
Qed.

(* OBLIGATION *)
Theorem gen_ops_ok : forall mag (m : nat) cmp ops fuel, (3 <= m)%nat -> SWO cmp -> (4 * length ops + m + 3 <= fuel)%nat ->
  exists tr0 n h tr ot,
    G.NewWith (@empty_heap G.Node) (Z.of_nat m) cmp = Some tr0 /\
    gen_ops mag fuel 0 (@empty_heap G.Node) tr0 ops = Some (n, h, tr) /\
    model_ops m cmp None 0 ops = Some (ot, n) /\
    tree_repr h tr ot /\ heap_ok h /\ BTreeInv.btree_inv m ot /\ BTreeInv.sorted_root cmp ot.
Proof.
  intros mag m cmp ops fuel H3 Hswo Hfuel.
  exists (G.mkTree None cmp 0 (Z.of_nat m)).
  assert (Hrepr : tree_repr (@empty_heap G.Node) (G.mkTree None cmp 0 (Z.of_nat m)) None) by (split; reflexivity).
  destruct (gen_ops_from mag m cmp H3 Hswo ops fuel 0%nat (@empty_heap G.Node) (G.mkTree None cmp 0 (Z.of_nat m)) None 0%nat
              Hrepr (@heap_ok_empty G.Node) I I eq_refl eq_refl (Nat.le_refl _) ltac:(cbn [Nat.add]; lia))
    as (n & h & tr & ot & R1 & R2 & R3 & R4 & R5 & R6 & _).
  exists n, h, tr, ot. split; [|split; [exact R1|split; [exact R2|split; [exact R3|split; [exact R4|split; assumption]]]]].
    unfold G.NewWith. assert (E : (Z.of_nat m <? 3) = false) by lia. rewrite E. reflexivity.
Qed.
Print Assumptions gen_ops_ok.
