(* PURE part (no heap) of the proof of Remove: the bottom-up fix-up of trees/redblacktree/redblacktree.go (deleteCase1..6), written as
   a function [dfix] on address-carrying trees and paths, computes what the model's recursive RB.del / RB.remove (Model/RBTree.v)
   computes.  QUIRK of the Go code: the node D that is unlinked stays IN the tree while deleteCase1..6 run (it plays the
   deficient node) and is replaced by its child afterwards; the model removes it first.  The fix-up never looks INSIDE the
   deficient subtree, so it is written here as a BUILDER: a function of that subtree ([dres]).  One branch of deleteCase6
   (node is a left child, sibling.Right not red, sibling.Left red: rotateRight(parent) lifts the deficient node itself) does
   depend on it: there the Go code and the model DIFFER; that branch is unreachable on red-black trees (the sibling would have
   to be red after deleteCase2) and the builders refuse it (None); [erase_pdel] needs RBInv.rb for exactly this reason. *)
From Coq Require Import ZArith List Lia Bool Arith.
From Gods Require Import Common.Cmp Model.RBTree Proofs.RBInv.
From GodsGenProofs Require Import GoCmp GoTreeHeap RBTreeHeapRep RedBlackTreeHeapInsertModel.
Import ListNotations.
Local Open Scope Z_scope.

Definition opp (d : RB.side) : RB.side := match d with RB.L => RB.R | RB.R => RB.L end.

(* builder of the new subtree from the (opaque) deficient child, status, new relative position of that child *)
Definition dres := ((ptree -> ptree) * RB.dstat * list RB.side)%type.

(* deleteCase5, node = left child: rotateRight(sibling) when sibling black, sibling.Left red, sibling.Right black *)
Definition pcase5_L (s : nat) (sc : RB.color) (sl : ptree) (sk sv : Z) (sr : ptree) : option ptree :=
  match sc, pcol sl, pcol sr with
  | RB.Black, RB.Red, RB.Black =>
      match sl with PT x _ a xk xv b => Some (PT x RB.Black a xk xv (PT s RB.Red b sk sv sr)) | PE => None end
  | _, _, _ => Some (PT s sc sl sk sv sr)
  end.
Definition pcase5_R (s : nat) (sc : RB.color) (sl : ptree) (sk sv : Z) (sr : ptree) : option ptree :=
  match sc, pcol sr, pcol sl with
  | RB.Black, RB.Red, RB.Black =>
      match sr with PT x _ a xk xv b => Some (PT x RB.Black (PT s RB.Red sl sk sv a) xk xv b) | PE => None end
  | _, _, _ => Some (PT s sc sl sk sv sr)
  end.

(* deleteCase3..6 at the parent p whose LEFT child is deficient; r = the sibling *)
Definition pd3456_L (p : nat) (pc : RB.color) (k v : Z) (r : ptree) : option dres :=
  match r with
  | PE => None
  | PT s sc sl sk sv sr =>
    match pc, sc, pcol sl, pcol sr with
    | RB.Black, RB.Black, RB.Black, RB.Black => Some (fun l => PT p pc l k v (PT s RB.Red sl sk sv sr), RB.DDeficit, [RB.L])
    | RB.Red, RB.Black, RB.Black, RB.Black => Some (fun l => PT p RB.Black l k v (PT s RB.Red sl sk sv sr), RB.DDone, [RB.L])
    | _, _, _, _ =>
      match pcase5_L s sc sl sk sv sr with
      | Some (PT s' _ sl' sk' sv' sr') =>
          if pis_red sr' then Some (fun l => PT s' pc (PT p RB.Black l k v sl') sk' sv' (psetcol RB.Black sr'), RB.DDone, [RB.L; RB.L])
          else if pis_red sl' then None          (* the Go code would rotate the deficient node itself up *)
          else Some (fun l => PT p RB.Black l k v (PT s' pc sl' sk' sv' sr'), RB.DDone, [RB.L])
      | _ => None
      end
    end
  end.
(* ... whose RIGHT child is deficient; l = the sibling *)
Definition pd3456_R (p : nat) (pc : RB.color) (k v : Z) (l : ptree) : option dres :=
  match l with
  | PE => None
  | PT s sc sl sk sv sr =>
    match pc, sc, pcol sl, pcol sr with
    | RB.Black, RB.Black, RB.Black, RB.Black => Some (fun r => PT p pc (PT s RB.Red sl sk sv sr) k v r, RB.DDeficit, [RB.R])
    | RB.Red, RB.Black, RB.Black, RB.Black => Some (fun r => PT p RB.Black (PT s RB.Red sl sk sv sr) k v r, RB.DDone, [RB.R])
    | _, _, _, _ =>
      match pcase5_R s sc sl sk sv sr with
      | Some (PT s' _ sl' sk' sv' sr') =>
          if pis_red sl' then Some (fun r => PT s' pc (psetcol RB.Black sl') sk' sv' (PT p RB.Black sr' k v r), RB.DDone, [RB.R; RB.R])
          else Some (fun r => PT p RB.Black (PT s' pc sl' sk' sv' sr') k v r, RB.DDone, [RB.R])
      | _ => None
      end
    end
  end.

(* deleteCase2 (red sibling: recolour, rotate the parent towards the node), then 3..6; sib = the sibling subtree *)
Definition pdfix (d : RB.side) (p : nat) (pc : RB.color) (k v : Z) (sib : ptree) : option dres :=
  match d with
  | RB.L =>
    match sib with
    | PT s RB.Red sl sk sv sr =>
        match pd3456_L p RB.Red k v sl with
        | Some (F, st, pos) => Some (fun l => PT s RB.Black (F l) sk sv sr, st, RB.L :: pos)
        | None => None
        end
    | _ => pd3456_L p pc k v sib
    end
  | RB.R =>
    match sib with
    | PT s RB.Red sl sk sv sr =>
        match pd3456_R p RB.Red k v sr with
        | Some (F, st, pos) => Some (fun r => PT s RB.Black sl sk sv (F r), st, RB.R :: pos)
        | None => None
        end
    | _ => pd3456_R p pc k v sib
    end
  end.

(* the builder puts its argument at [pos] and nowhere else *)
Definition builder_ok (F : ptree -> ptree) (pos : list RB.side) : Prop :=
  (forall l, pget (F l) pos = l) /\ (forall l l2, pupd (F l) pos l2 = F l2) /\ pos <> [] /\ (forall l, F l <> PE).

Lemma pd3456_L_ok : forall p pc k v r F st pos, pd3456_L p pc k v r = Some (F, st, pos) -> builder_ok F pos.
Proof.
  intros p pc k v r F st pos H. unfold pd3456_L in H. destruct r as [|s sc sl sk sv sr]; [discriminate|].
  destruct pc, sc, (pcol sl), (pcol sr);
    try (injection H as <- <- <-; repeat split; try reflexivity; discriminate);
    (destruct (pcase5_L _ _ _ _ _ _) as [[|s' c' sl' sk' sv' sr']|]; [discriminate| |discriminate];
     destruct (pis_red sr'); [|destruct (pis_red sl'); [discriminate|]];
     injection H as <- <- <-; repeat split; try reflexivity; discriminate).
Qed.
Lemma pd3456_R_ok : forall p pc k v l F st pos, pd3456_R p pc k v l = Some (F, st, pos) -> builder_ok F pos.
Proof.
  intros p pc k v l F st pos H. unfold pd3456_R in H. destruct l as [|s sc sl sk sv sr]; [discriminate|].
  destruct pc, sc, (pcol sl), (pcol sr);
    try (injection H as <- <- <-; repeat split; try reflexivity; discriminate);
    (destruct (pcase5_R _ _ _ _ _ _) as [[|s' c' sl' sk' sv' sr']|]; [discriminate| |discriminate];
     destruct (pis_red sl');
     injection H as <- <- <-; repeat split; try reflexivity; discriminate).
Qed.
Lemma pdfix_ok : forall d p pc k v sib F st pos, pdfix d p pc k v sib = Some (F, st, pos) -> builder_ok F pos.
Proof.
  intros d p pc k v sib F st pos H. unfold pdfix in H. destruct d.
  - destruct sib as [|s [|] sl sk sv sr]; try (eapply pd3456_L_ok; eassumption).
    destruct (pd3456_L p RB.Red k v sl) as [[[F0 st0] pos0]|] eqn:E; [|discriminate]. injection H as <- <- <-.
    destruct (pd3456_L_ok _ _ _ _ _ _ _ _ E) as (P1 & P2 & P3 & P4). split; [|split; [|split]].
    + intro l. cbn [pget pchild]. apply P1.
    + intros l l2. cbn [pupd]. now rewrite P2.
    + discriminate.
    + discriminate.
  - destruct sib as [|s [|] sl sk sv sr]; try (eapply pd3456_R_ok; eassumption).
    destruct (pd3456_R p RB.Red k v sr) as [[[F0 st0] pos0]|] eqn:E; [|discriminate]. injection H as <- <- <-.
    destruct (pd3456_R_ok _ _ _ _ _ _ _ _ E) as (P1 & P2 & P3 & P4). split; [|split; [|split]].
    + intro l. cbn [pget pchild]. apply P1.
    + intros l l2. cbn [pupd]. now rewrite P2.
    + discriminate.
    + discriminate.
Qed.

(* a deficit is passed upwards only by case 3: the parent keeps its place, the node its side *)
Lemma pdfix_deficit : forall d p pc k v sib F pos, pdfix d p pc k v sib = Some (F, RB.DDeficit, pos) ->
  pos = [d] /\ forall l, exists c l' r', F l = PT p c l' k v r'.
Proof.
  intros d p pc k v sib F pos H. unfold pdfix in H.
  assert (HL : forall pc0 r F0 pos0, pd3456_L p pc0 k v r = Some (F0, RB.DDeficit, pos0) -> pc0 = RB.Black /\ pos0 = [RB.L] /\ forall l, exists c l' r', F0 l = PT p c l' k v r').
  { intros pc0 r F0 pos0 H0. unfold pd3456_L in H0. destruct r as [|s sc sl sk sv sr]; [discriminate|].
    destruct pc0, sc, (pcol sl), (pcol sr); try discriminate;
      try (injection H0 as <- <-; split; [reflexivity|split; [reflexivity|intro l; eauto]]);
      (destruct (pcase5_L _ _ _ _ _ _) as [[|s' c' sl' sk' sv' sr']|]; [discriminate| |discriminate];
       destruct (pis_red sr'); [discriminate|destruct (pis_red sl'); discriminate]). }
  assert (HR : forall pc0 r F0 pos0, pd3456_R p pc0 k v r = Some (F0, RB.DDeficit, pos0) -> pc0 = RB.Black /\ pos0 = [RB.R] /\ forall l, exists c l' r', F0 l = PT p c l' k v r').
  { intros pc0 r F0 pos0 H0. unfold pd3456_R in H0. destruct r as [|s sc sl sk sv sr]; [discriminate|].
    destruct pc0, sc, (pcol sl), (pcol sr); try discriminate;
      try (injection H0 as <- <-; split; [reflexivity|split; [reflexivity|intro l; eauto]]);
      (destruct (pcase5_R _ _ _ _ _ _) as [[|s' c' sl' sk' sv' sr']|]; [discriminate| |discriminate];
       destruct (pis_red sl'); discriminate). }
  destruct d.
  - destruct sib as [|s [|] sl sk sv sr]; try (destruct (HL _ _ _ _ H) as (_ & -> & Hf); split; [reflexivity|exact Hf]).
    destruct (pd3456_L p RB.Red k v sl) as [[[F0 st0] pos0]|] eqn:E; [|discriminate]. injection H as <- -> <-.
    destruct (HL _ _ _ _ E) as (Hc & _). discriminate.
  - destruct sib as [|s [|] sl sk sv sr]; try (destruct (HR _ _ _ _ H) as (_ & -> & Hf); split; [reflexivity|exact Hf]).
    destruct (pd3456_R p RB.Red k v sr) as [[[F0 st0] pos0]|] eqn:E; [|discriminate]. injection H as <- -> <-.
    destruct (HR _ _ _ _ E) as (Hc & _). discriminate.
Qed.

(* ---------- the builders compute the model's del_fix ---------- *)
Definition dres_at (l : ptree) (x : option dres) : option (RB.tree * RB.dstat) :=
  match x with Some (F, st, _) => Some (erase (F l), st) | None => None end.

Lemma col_erase : forall t, RB.col (erase t) = pcol t.
Proof. destruct t; reflexivity. Qed.

Lemma erase_pd3456_L : forall p pc k v r l, pcol r = RB.Black ->
  dres_at l (pd3456_L p pc k v r) = RB.del_fix_3456 pc (erase l) k v (erase r) RB.L.
Proof.
  intros p pc k v r l Hc. destruct r as [|s sc sl sk sv sr]; [reflexivity|]. cbn [pcol] in Hc. subst sc.
  destruct pc; destruct sl as [|x [|] a xk xv b]; destruct sr as [|y [|] a2 yk yv b2]; reflexivity.
Qed.
Lemma erase_pd3456_R : forall p pc k v l r,
  dres_at r (pd3456_R p pc k v l) = RB.del_fix_3456 pc (erase l) k v (erase r) RB.R.
Proof.
  intros p pc k v l r. destruct l as [|s sc sl sk sv sr]; [reflexivity|].
  destruct pc; destruct sc; destruct sl as [|x [|] a xk xv b]; destruct sr as [|y [|] a2 yk yv b2]; reflexivity.
Qed.

Lemma erase_pdfix_L : forall p pc k v r l, RBInv.rb (erase r) ->
  dres_at l (pdfix RB.L p pc k v r) = RB.del_fix pc (erase l) k v (erase r) RB.L.
Proof.
  intros p pc k v r l Hrb. unfold pdfix, RB.del_fix. destruct r as [|s [|] sl sk sv sr].
  - reflexivity.
  - cbn [erase]. simpl in Hrb. destruct Hrb as (_ & _ & _ & Hc). destruct (Hc eq_refl) as (Hcl & _). rewrite col_erase in Hcl.
    rewrite <- (erase_pd3456_L p RB.Red k v sl l Hcl). destruct (pd3456_L p RB.Red k v sl) as [[[F st] pos]|]; reflexivity.
  - apply erase_pd3456_L. reflexivity.
Qed.
Lemma erase_pdfix_R : forall p pc k v l r,
  dres_at r (pdfix RB.R p pc k v l) = RB.del_fix pc (erase l) k v (erase r) RB.R.
Proof.
  intros p pc k v l r. unfold pdfix, RB.del_fix. destruct l as [|s [|] sl sk sv sr].
  - reflexivity.
  - cbn [erase]. rewrite <- (erase_pd3456_R p RB.Red k v sr r). destruct (pd3456_R p RB.Red k v sr) as [[[F st] pos]|]; reflexivity.
  - apply erase_pd3456_R.
Qed.

(* ---------- RB.del on address-carrying trees (the unlinked node disappears at once, as in the model) ---------- *)
Definition pdel_up (a : nat) (c : RB.color) (l : ptree) (k v : Z) (r : ptree) (s : RB.side) (st : RB.dstat) : option (ptree * RB.dstat) :=
  match st with
  | RB.DDone => Some (PT a c l k v r, RB.DDone)
  | RB.DDeficit =>
      match s with
      | RB.L => match pdfix RB.L a c k v r with Some (F, st', _) => Some (F l, st') | None => None end
      | RB.R => match pdfix RB.R a c k v l with Some (F, st', _) => Some (F r, st') | None => None end
      end
  end.
Definition dstat_of (c : RB.color) : RB.dstat := match c with RB.Black => RB.DDeficit | RB.Red => RB.DDone end.

Fixpoint pdelmax (t : ptree) : option (ptree * Z * Z * RB.dstat) :=
  match t with
  | PE => None
  | PT a c l k v PE => Some (l, k, v, dstat_of c)
  | PT a c l k v r =>
    match pdelmax r with
    | None => None
    | Some (r', mk, mv, st) =>
      match pdel_up a c l k v r' RB.R st with
      | None => None
      | Some (t', st') => Some (t', mk, mv, st')
      end
    end
  end.

Fixpoint pdel (cmp : cmpf) (key : Z) (t : ptree) : option (ptree * RB.dstat * bool) :=
  match t with
  | PE => Some (PE, RB.DDone, false)
  | PT a c l k v r =>
    match cmp key k with
    | Lt => match pdel cmp key l with
            | None => None
            | Some (l', st, b) => match pdel_up a c l' k v r RB.L st with
                                  | None => None | Some (t', st') => Some (t', st', b) end
            end
    | Gt => match pdel cmp key r with
            | None => None
            | Some (r', st, b) => match pdel_up a c l k v r' RB.R st with
                                  | None => None | Some (t', st') => Some (t', st', b) end
            end
    | Eq =>
      match l, r with
      | PT _ _ _ _ _ _, PT _ _ _ _ _ _ =>
        match pdelmax l with
        | None => None
        | Some (l', mk, mv, st) =>
          match pdel_up a c l' mk mv r RB.L st with
          | None => None | Some (t', st') => Some (t', st', true) end
        end
      | _, PE => Some (l, dstat_of c, true)
      | PE, _ => Some (r, dstat_of c, true)
      end
    end
  end.

Definition premove (cmp : cmpf) (key : Z) (t : ptree) : option (ptree * bool) :=
  match t with
  | PE => Some (PE, false)
  | PT a c l k v r =>
    match cmp key k, l, r with
    | Eq, _, PE => Some (psetcol RB.Black l, true)
    | Eq, PE, _ => Some (psetcol RB.Black r, true)
    | _, _, _ => match pdel cmp key t with
                 | None => None
                 | Some (t', _, b) => Some (t', b)
                 end
    end
  end.

Lemma erase_pdel_up_L : forall a c l k v r st, RBInv.rb (erase r) ->
  omap (fun x => (erase (fst x), snd x)) (pdel_up a c l k v r RB.L st) = RB.del_up c (erase l) k v (erase r) RB.L st.
Proof.
  intros a c l k v r st Hrb. destruct st; [reflexivity|]. cbn [pdel_up RB.del_up].
  rewrite <- (erase_pdfix_L a c k v r l Hrb). destruct (pdfix RB.L a c k v r) as [[[F st] pos]|]; reflexivity.
Qed.
Lemma erase_pdel_up_R : forall a c l k v r st,
  omap (fun x => (erase (fst x), snd x)) (pdel_up a c l k v r RB.R st) = RB.del_up c (erase l) k v (erase r) RB.R st.
Proof.
  intros a c l k v r st. destruct st; [reflexivity|]. cbn [pdel_up RB.del_up].
  rewrite <- (erase_pdfix_R a c k v l r). destruct (pdfix RB.R a c k v l) as [[[F st] pos]|]; reflexivity.
Qed.

Lemma erase_pdelmax : forall t,
  omap (fun x => (erase (fst (fst (fst x))), snd (fst (fst x)), snd (fst x), snd x)) (pdelmax t) = RB.delmax (erase t).
Proof.
  induction t as [|a c l _ k v r IHr]; [reflexivity|]. destruct r as [|ra rc rl rk rv rr].
  - cbn. destruct c; reflexivity.
  - change (erase (PT a c l k v (PT ra rc rl rk rv rr))) with (RB.T c (erase l) k v (erase (PT ra rc rl rk rv rr))).
    change (pdelmax (PT a c l k v (PT ra rc rl rk rv rr)))
      with (match pdelmax (PT ra rc rl rk rv rr) with
            | None => None
            | Some (r', mk, mv, st) => match pdel_up a c l k v r' RB.R st with None => None | Some (t', st') => Some (t', mk, mv, st') end
            end).
    change (RB.delmax (RB.T c (erase l) k v (erase (PT ra rc rl rk rv rr))))
      with (match RB.delmax (erase (PT ra rc rl rk rv rr)) with
            | None => None
            | Some (r', mk, mv, st) => match RB.del_up c (erase l) k v r' RB.R st with None => None | Some (t', st') => Some (t', mk, mv, st') end
            end).
    rewrite <- IHr. destruct (pdelmax (PT ra rc rl rk rv rr)) as [[[[r' mk] mv] st]|]; [|reflexivity]. cbn [omap fst snd].
    rewrite <- (erase_pdel_up_R a c l k v r' st). destruct (pdel_up a c l k v r' RB.R st) as [[t' st']|]; reflexivity.
Qed.

(* OBLIGATION *)
Lemma erase_pdel : forall cmp key t, RBInv.rb (erase t) ->
  omap (fun x => (erase (fst (fst x)), snd (fst x), snd x)) (pdel cmp key t) = RB.del cmp key (erase t).
Proof.
  intros cmp key. induction t as [|a c l IHl k v r IHr]; intros Hrb; [reflexivity|].
  pose proof Hrb as Hrb'. simpl in Hrb'. destruct Hrb' as (Hl & Hr & _).
  cbn [pdel RB.del erase]. destruct (cmp key k).
  - destruct l as [|la lc ll lk lv lr]; [destruct r; [destruct c; reflexivity|destruct c; reflexivity]|].
    destruct r as [|ra rc rl rk rv rr]; [destruct c; reflexivity|].
    change (erase (PT la lc ll lk lv lr)) with (RB.T lc (erase ll) lk lv (erase lr)) at 1.
    change (erase (PT ra rc rl rk rv rr)) with (RB.T rc (erase rl) rk rv (erase rr)) at 1.
    cbv iota. change (RB.T lc (erase ll) lk lv (erase lr)) with (erase (PT la lc ll lk lv lr)).
    rewrite <- erase_pdelmax. destruct (pdelmax (PT la lc ll lk lv lr)) as [[[[l' mk] mv] st]|]; [|reflexivity]. cbn [omap fst snd].
    change (RB.T rc (erase rl) rk rv (erase rr)) with (erase (PT ra rc rl rk rv rr)).
    rewrite <- (erase_pdel_up_L a c l' mk mv _ st Hr). destruct (pdel_up a c l' mk mv _ RB.L st) as [[t' st']|]; reflexivity.
  - rewrite <- (IHl Hl). destruct (pdel cmp key l) as [[[l' st] b]|]; [|reflexivity]. cbn [omap fst snd].
    rewrite <- (erase_pdel_up_L a c l' k v r st Hr). destruct (pdel_up a c l' k v r RB.L st) as [[t' st']|]; reflexivity.
  - rewrite <- (IHr Hr). destruct (pdel cmp key r) as [[[r' st] b]|]; [|reflexivity]. cbn [omap fst snd].
    rewrite <- (erase_pdel_up_R a c l k v r' st). destruct (pdel_up a c l k v r' RB.R st) as [[t' st']|]; reflexivity.
Qed.
Print Assumptions erase_pdel.

Lemma erase_premove : forall cmp key t, RBInv.rb (erase t) ->
  omap (fun x => (erase (fst x), snd x)) (premove cmp key t) = RB.remove cmp key (erase t).
Proof.
  intros cmp key t Hrb. destruct t as [|a c l k v r]; [reflexivity|].
  unfold premove, RB.remove. rewrite <- (erase_pdel cmp key _ Hrb). cbn [erase].
  destruct (cmp key k); destruct l as [|la lc ll lk lv lr]; destruct r as [|ra rc rl rk rv rr]; cbn [erase psetcol RB.setcol omap fst snd]; try reflexivity;
    match goal with |- context [pdel ?c ?k ?t] => destruct (pdel c k t) as [[[t' st] b]|]; reflexivity end.
Qed.

(* ---------- the bottom-up fix-up: deleteCase1 pending at the node at path [rev rp]; dpos = where the unlinked node D is ---------- *)
Definition repos (Q pos dpos : list RB.side) : list RB.side := Q ++ pos ++ skipn (S (length Q)) dpos.

Fixpoint dfix (T : ptree) (rp : list RB.side) (dpos : list RB.side) {struct rp} : option (ptree * list RB.side) :=
  match rp with
  | [] => Some (T, dpos)                                   (* deleteCase1: the root: nothing to do *)
  | d :: rq =>
    match pget T (rev rq) with                             (* the parent *)
    | PE => None
    | PT p pc pl pk pv pr =>
      match pdfix d p pc pk pv (pchild (opp d) pl pr) with (* deleteCase2..6 *)
      | None => None
      | Some (F, RB.DDone, pos) => Some (pupd T (rev rq) (F (pchild d pl pr)), repos (rev rq) pos dpos)
      | Some (F, RB.DDeficit, pos) => dfix (pupd T (rev rq) (F (pchild d pl pr))) rq (repos (rev rq) pos dpos)
      end
    end
  end.

(* what remains to be done above the subtree at q once the model has processed it with status st; the Go tree still
   contains D: sD = the model's subtree with D re-inserted at pD *)
Definition dcont (T : ptree) (q : list RB.side) (sD : ptree) (pD : list RB.side) (st : RB.dstat) : option (ptree * list RB.side) :=
  match st with
  | RB.DDone => Some (pupd T q sD, q ++ pD)
  | RB.DDeficit => dfix (pupd T q sD) (rev q) (q ++ pD)
  end.

Lemma repos_app : forall Q d rest pos, repos Q pos (Q ++ d :: rest) = Q ++ pos ++ rest.
Proof.
  intros. unfold repos. f_equal. f_equal. induction Q as [|x Q IH]; [reflexivity|]. cbn [app length]. exact IH.
Qed.

Lemma dcont_ext : forall T1 T2 q sD pD st, pupd T1 q sD = pupd T2 q sD -> dcont T1 q sD pD st = dcont T2 q sD pD st.
Proof. intros T1 T2 q sD pD st H. destruct st; cbn [dcont]; rewrite H; reflexivity. Qed.

(* one level up: the model's del_up at node a against one step of dfix *)
Lemma dcont_up : forall e T q a c l0 k v r0 xD pDx x x' stl s' st,
  pget T q = PT a c l0 k v r0 -> pvalid T q ->
  pupd xD pDx x = x' ->
  pdel_up a c (match e with RB.L => x' | RB.R => l0 end) k v (match e with RB.L => r0 | RB.R => x' end) e stl = Some (s', st) ->
  exists sD pD,
    dcont (pupd T q (match e with RB.L => PT a c xD k v r0 | RB.R => PT a c l0 k v xD end)) (q ++ [e]) xD pDx stl
      = dcont T q sD pD st /\
    pupd sD pD x = s' /\ pget sD pD = pget xD pDx /\ pD <> [].
Proof.
  intros e T q a c l0 k v r0 xD pDx x x' stl s' st Hg Hv Hx Hup.
  set (A := match e with RB.L => PT a c xD k v r0 | RB.R => PT a c l0 k v xD end).
  assert (HA : pupd (pupd T q A) (q ++ [e]) xD = pupd T q A).
  { rewrite pupd_app_get, pget_pupd_valid, pupd_pupd by exact Hv. f_equal. subst A. destruct e; reflexivity. }
  destruct stl; cbn [pdel_up] in Hup.
  - (* done below: the node is rebuilt *)
    injection Hup as <- <-. exists A, (e :: pDx). cbn [dcont]. rewrite HA, <- app_assoc. split; [reflexivity|].
    subst A x'. destruct e; cbn [pupd pget pchild]; (split; [reflexivity|split; [reflexivity|discriminate]]).
  - (* deficit below: deleteCase2..6 at this node *)
    cbn [dcont]. rewrite HA, rev_app_distr. cbn [rev app dfix]. rewrite rev_involutive, pget_pupd_valid by exact Hv.
    assert (Hsib : pchild (opp e) (match A with PT _ _ l _ _ _ => l | PE => PE end) (match A with PT _ _ _ _ _ r => r | PE => PE end)
                   = match e with RB.L => r0 | RB.R => l0 end) by (subst A; destruct e; reflexivity).
    assert (Hown : pchild e (match A with PT _ _ l _ _ _ => l | PE => PE end) (match A with PT _ _ _ _ _ r => r | PE => PE end) = xD)
      by (subst A; destruct e; reflexivity).
    assert (HAeq : A = PT a c (match A with PT _ _ l _ _ _ => l | PE => PE end) k v (match A with PT _ _ _ _ _ r => r | PE => PE end))
      by (subst A; destruct e; reflexivity).
    rewrite HAeq. rewrite Hsib, Hown.
    assert (Hfix : exists F pos, pdfix e a c k v (match e with RB.L => r0 | RB.R => l0 end) = Some (F, st, pos) /\ F x' = s').
    { destruct e; destruct (pdfix _ a c k v _) as [[[F st'] pos]|]; try discriminate; injection Hup as <- <-; eauto. }
    destruct Hfix as (F & pos & Efix & HF). rewrite Efix.
    destruct (pdfix_ok _ _ _ _ _ _ _ _ _ Efix) as (P1 & P2 & P3 & P4).
    rewrite pupd_pupd. rewrite <- app_assoc. cbn [app]. rewrite repos_app.
    exists (F xD), (pos ++ pDx). split; [destruct st; reflexivity|]. split.
    + rewrite pupd_app_get, P1, Hx, P2. exact HF.
    + split; [rewrite pget_app, P1; reflexivity|]. destruct pos; [congruence|discriminate].
Qed.

(* ---------- what Remove does before and after the fix-up ---------- *)
Definition dchild (dl dr : ptree) : ptree := match dr with PE => dl | _ => dr end.

(* D at path pd: if it is black it takes its child's colour and deleteCase1 runs on it *)
Definition grun (T : ptree) (pd : list RB.side) : option (ptree * list RB.side) :=
  match pget T pd with
  | PE => None
  | PT d dc dl dk dv dr =>
    match dc with
    | RB.Black => dfix (pupd T pd (PT d (pcol (dchild dl dr)) dl dk dv dr)) (rev pd) pd
    | RB.Red => Some (T, pd)
    end
  end.

Fixpoint prpath (t : ptree) : list RB.side :=
  match t with PT _ _ _ _ _ (PT _ _ _ _ _ _ as r) => RB.R :: prpath r | _ => [] end.
Lemma prpath_erase : forall t, prpath t = RB.rightmost_path (erase t).
Proof.
  induction t as [|a c l _ k v r IHr]; [reflexivity|]. destruct r as [|ra rc rl rk rv rr]; [reflexivity|].
  change (prpath (PT a c l k v (PT ra rc rl rk rv rr))) with (RB.R :: prpath (PT ra rc rl rk rv rr)). rewrite IHr. reflexivity.
Qed.

(* the path from s to the node that is unlinked, and s after the predecessor's key / value were copied *)
Fixpoint gpath (cmp : cmpf) (key : Z) (s : ptree) : list RB.side :=
  match s with
  | PE => []
  | PT _ _ l k _ r =>
    match cmp key k with
    | Lt => RB.L :: gpath cmp key l
    | Gt => RB.R :: gpath cmp key r
    | Eq => match l, r with PT _ _ _ _ _ _, PT _ _ _ _ _ _ => RB.L :: prpath l | _, _ => [] end
    end
  end.
Fixpoint gcopy (cmp : cmpf) (key : Z) (s : ptree) : ptree :=
  match s with
  | PE => PE
  | PT a c l k v r =>
    match cmp key k with
    | Lt => PT a c (gcopy cmp key l) k v r
    | Gt => PT a c l k v (gcopy cmp key r)
    | Eq => match l, r with
            | PT _ _ _ _ _ _, PT _ _ _ _ _ _ =>
                match pget l (prpath l) with PT _ _ _ mk mv _ => PT a c l mk mv r | PE => s end
            | _, _ => s
            end
    end
  end.

Lemma dfix_pdelmax_gen : forall s T q s' mk mv st,
  pget T q = s -> pvalid T q -> pdelmax s = Some (s', mk, mv, st) ->
  exists d dc dc' dl sD pD,
    pget s (prpath s) = PT d dc dl mk mv PE /\
    grun T (q ++ prpath s) = dcont T q sD pD st /\
    pupd sD pD dl = s' /\ pget sD pD = PT d dc' dl mk mv PE /\ (pD = [] -> prpath s = []).
Proof.
  induction s as [|a c l _ k v r IHr]; intros T q s' mk mv st Hg Hv Hp; [discriminate|].
  destruct r as [|ra rc rl rk rv rr].
  - cbn [pdelmax] in Hp. injection Hp as <- <- <- <-. cbn [prpath pget]. rewrite app_nil_r. unfold grun. rewrite Hg.
    destruct c; cbn [dstat_of dcont dchild].
    + exists a, RB.Red, RB.Red, l, (PT a RB.Red l k v PE), []. split; [reflexivity|]. rewrite app_nil_r, <- Hg, pupd_pget. repeat split.
    + exists a, RB.Black, (pcol l), l, (PT a (pcol l) l k v PE), []. rewrite app_nil_r. repeat split.
  - change (pdelmax (PT a c l k v (PT ra rc rl rk rv rr)))
      with (match pdelmax (PT ra rc rl rk rv rr) with
            | None => None
            | Some (r', mk, mv, st) => match pdel_up a c l k v r' RB.R st with None => None | Some (t', st') => Some (t', mk, mv, st') end
            end) in Hp.
    destruct (pdelmax (PT ra rc rl rk rv rr)) as [[[[r' mk'] mv'] str]|] eqn:Er; [|discriminate].
    destruct (pdel_up a c l k v r' RB.R str) as [[t' st']|] eqn:Eup; [|discriminate]. injection Hp as <- <- <- <-.
    assert (Hgr : pget T (q ++ [RB.R]) = PT ra rc rl rk rv rr) by (rewrite pget_app, Hg; reflexivity).
    assert (Hvr : pvalid T (q ++ [RB.R])) by (apply pvalid_snoc; [exact Hv|rewrite Hg; discriminate]).
    destruct (IHr T (q ++ [RB.R]) r' mk' mv' str Hgr Hvr eq_refl) as (d & dc & dc' & dl & rD & pDr & H1 & H2 & H3 & H4 & _).
    destruct (dcont_up RB.R T q a c l k v (PT ra rc rl rk rv rr) rD pDr dl r' str t' st' Hg Hv H3 Eup) as (sD & pD & H5 & H6 & H7 & H8).
    assert (HT : pupd T q (PT a c l k v rD) = pupd T (q ++ [RB.R]) rD) by (rewrite pupd_app_get, Hg; reflexivity).
    exists d, dc, dc', dl, sD, pD.
    change (prpath (PT a c l k v (PT ra rc rl rk rv rr))) with (RB.R :: prpath (PT ra rc rl rk rv rr)).
    split; [exact H1|]. split; [|split; [exact H6|split; [rewrite H7; exact H4|intro; contradiction]]].
    replace (q ++ RB.R :: prpath (PT ra rc rl rk rv rr)) with ((q ++ [RB.R]) ++ prpath (PT ra rc rl rk rv rr)) by (rewrite <- app_assoc; reflexivity).
    rewrite H2, <- H5. apply dcont_ext.
    rewrite (pupd_app_get q [RB.R] (pupd T q (PT a c l k v rD))), pget_pupd_valid, pupd_pupd by exact Hv. cbn [pupd]. symmetry. exact HT.
Qed.

Lemma dcont_child : forall e T q a c l0 k v r0 xD pDx stl,
  pget T q = PT a c l0 k v r0 -> pvalid T q ->
  dcont (pupd T q (match e with RB.L => PT a c xD k v r0 | RB.R => PT a c l0 k v xD end)) (q ++ [e]) xD pDx stl
  = dcont T (q ++ [e]) xD pDx stl.
Proof.
  intros e T q a c l0 k v r0 xD pDx stl Hg Hv. apply dcont_ext.
  rewrite (pupd_app_get q [e] (pupd T q _)), pget_pupd_valid, pupd_pupd by exact Hv.
  rewrite (pupd_app_get q [e] T), Hg. destruct e; reflexivity.
Qed.

Lemma dfix_pdel_gen : forall cmp key s T q s' st,
  pget T q = s -> pvalid T q -> pdel cmp key s = Some (s', st, true) ->
  exists d dc dc' dl dk dv dr sD pD,
    pget (gcopy cmp key s) (gpath cmp key s) = PT d dc dl dk dv dr /\
    grun (pupd T q (gcopy cmp key s)) (q ++ gpath cmp key s) = dcont T q sD pD st /\
    pupd sD pD (dchild dl dr) = s' /\ pget sD pD = PT d dc' dl dk dv dr /\ (pD = [] -> gpath cmp key s = []).
Proof.
  intros cmp key. induction s as [|a c l IHl k v r IHr]; intros T q s' st Hg Hv Hp; [discriminate|].
  cbn [pdel gpath gcopy] in *. destruct (cmp key k) eqn:Ecmp.
  - (* the key is here *)
    destruct l as [|la lc ll lk lv lr]; [|destruct r as [|ra rc rl rk rv rr]].
    + (* no left child *)
      assert (Hp' : s' = dchild PE r /\ st = dstat_of c) by (destruct r; injection Hp as <- <-; split; reflexivity). destruct Hp' as (-> & ->).
      replace (match r with PE => [] | PT _ _ _ _ _ _ => [] end) with (@nil RB.side) by (destruct r; reflexivity).
      replace (match r with PE => PT a c PE k v r | PT _ _ _ _ _ _ => PT a c PE k v r end) with (PT a c PE k v r) by (destruct r; reflexivity).
      cbn [pget]. rewrite app_nil_r. unfold grun. rewrite pget_pupd_valid by exact Hv. destruct c; cbn [dstat_of dcont].
      * exists a, RB.Red, RB.Red, PE, k, v, r, (PT a RB.Red PE k v r), []. rewrite app_nil_r. repeat split.
      * exists a, RB.Black, (pcol (dchild PE r)), PE, k, v, r, (PT a (pcol (dchild PE r)) PE k v r), []. rewrite app_nil_r, pupd_pupd. repeat split.
    + (* no right child *)
      injection Hp as <- <-. cbn [pget]. rewrite app_nil_r. unfold grun. rewrite pget_pupd_valid by exact Hv. destruct c; cbn [dstat_of dcont].
      * exists a, RB.Red, RB.Red, (PT la lc ll lk lv lr), k, v, PE, (PT a RB.Red (PT la lc ll lk lv lr) k v PE), []. rewrite app_nil_r. repeat split.
      * exists a, RB.Black, lc, (PT la lc ll lk lv lr), k, v, PE, (PT a lc (PT la lc ll lk lv lr) k v PE), []. rewrite app_nil_r, pupd_pupd. repeat split.
    + (* two children: the predecessor is unlinked *)
      set (l := PT la lc ll lk lv lr) in *. set (r := PT ra rc rl rk rv rr) in *.
      destruct (pdelmax l) as [[[[l' mk] mv] stl]|] eqn:El; [|discriminate].
      destruct (pdel_up a c l' mk mv r RB.L stl) as [[t' st']|] eqn:Eup; [|discriminate]. injection Hp as <- <-.
      set (T0 := pupd T q (PT a c l mk mv r)).
      assert (Hg0 : pget T0 q = PT a c l mk mv r) by (subst T0; apply pget_pupd_valid; exact Hv).
      assert (Hv0 : pvalid T0 q) by (subst T0; apply pvalid_pupd; exact Hv).
      assert (Hgl : pget T0 (q ++ [RB.L]) = l) by (rewrite pget_app, Hg0; reflexivity).
      assert (Hvl : pvalid T0 (q ++ [RB.L])) by (apply pvalid_snoc; [exact Hv0|rewrite Hg0; discriminate]).
      destruct (dfix_pdelmax_gen l T0 (q ++ [RB.L]) l' mk mv stl Hgl Hvl El) as (d & dc & dc' & dl & lD & pDl & H1 & H2 & H3 & H4 & _).
      destruct (dcont_up RB.L T0 q a c l mk mv r lD pDl dl l' stl t' st' Hg0 Hv0 H3 Eup) as (sD & pD & H5 & H6 & H7 & H8).
      rewrite (dcont_child RB.L T0 q a c l mk mv r lD pDl stl Hg0 Hv0) in H5.
      exists d, dc, dc', dl, mk, mv, PE, sD, pD. rewrite H1. cbn [pget pchild]. rewrite H1. split; [reflexivity|].
      split; [|split; [exact H6|split; [rewrite H7; exact H4|intro; contradiction]]].
      fold T0. replace (q ++ RB.L :: prpath l) with ((q ++ [RB.L]) ++ prpath l) by (rewrite <- app_assoc; reflexivity).
      rewrite H2, H5. apply dcont_ext. subst T0. apply pupd_pupd.
  - destruct (pdel cmp key l) as [[[l' stl] bl]|] eqn:El; [|discriminate].
    destruct (pdel_up a c l' k v r RB.L stl) as [[t' st']|] eqn:Eup; [|discriminate]. injection Hp as <- <- ->.
    assert (Hgl : pget T (q ++ [RB.L]) = l) by (rewrite pget_app, Hg; reflexivity).
    assert (Hvl : pvalid T (q ++ [RB.L])) by (apply pvalid_snoc; [exact Hv|rewrite Hg; discriminate]).
    destruct (IHl T (q ++ [RB.L]) l' stl Hgl Hvl eq_refl) as (d & dc & dc' & dl & dk & dv & dr & lD & pDl & H1 & H2 & H3 & H4 & _).
    destruct (dcont_up RB.L T q a c l k v r lD pDl (dchild dl dr) l' stl t' st' Hg Hv H3 Eup) as (sD & pD & H5 & H6 & H7 & H8).
    rewrite (dcont_child RB.L T q a c l k v r lD pDl stl Hg Hv) in H5.
    exists d, dc, dc', dl, dk, dv, dr, sD, pD. cbn [pget pchild]. split; [exact H1|]. split; [|split; [exact H6|split; [rewrite H7; exact H4|intro; contradiction]]].
    replace (q ++ RB.L :: gpath cmp key l) with ((q ++ [RB.L]) ++ gpath cmp key l) by (rewrite <- app_assoc; reflexivity).
    replace (pupd T q (PT a c (gcopy cmp key l) k v r)) with (pupd T (q ++ [RB.L]) (gcopy cmp key l)) by (rewrite pupd_app_get, Hg; reflexivity).
    rewrite H2. exact H5.
  - destruct (pdel cmp key r) as [[[r' str] br]|] eqn:Er; [|discriminate].
    destruct (pdel_up a c l k v r' RB.R str) as [[t' st']|] eqn:Eup; [|discriminate]. injection Hp as <- <- ->.
    assert (Hgr : pget T (q ++ [RB.R]) = r) by (rewrite pget_app, Hg; reflexivity).
    assert (Hvr : pvalid T (q ++ [RB.R])) by (apply pvalid_snoc; [exact Hv|rewrite Hg; discriminate]).
    destruct (IHr T (q ++ [RB.R]) r' str Hgr Hvr eq_refl) as (d & dc & dc' & dl & dk & dv & dr & rD & pDr & H1 & H2 & H3 & H4 & _).
    destruct (dcont_up RB.R T q a c l k v r rD pDr (dchild dl dr) r' str t' st' Hg Hv H3 Eup) as (sD & pD & H5 & H6 & H7 & H8).
    rewrite (dcont_child RB.R T q a c l k v r rD pDr str Hg Hv) in H5.
    exists d, dc, dc', dl, dk, dv, dr, sD, pD. cbn [pget pchild]. split; [exact H1|]. split; [|split; [exact H6|split; [rewrite H7; exact H4|intro; contradiction]]].
    replace (q ++ RB.R :: gpath cmp key r) with ((q ++ [RB.R]) ++ gpath cmp key r) by (rewrite <- app_assoc; reflexivity).
    replace (pupd T q (PT a c l k v (gcopy cmp key r))) with (pupd T (q ++ [RB.R]) (gcopy cmp key r)) by (rewrite pupd_app_get, Hg; reflexivity).
    rewrite H2. exact H5.
Qed.

(* ---------- the whole Remove on address-carrying trees, as the Go code does it ---------- *)
Definition goremove (cmp : cmpf) (key : Z) (T : ptree) : option (ptree * bool) :=
  match pget T (dpath cmp key T) with
  | PE => Some (T, false)                                       (* lookup returns nil *)
  | PT _ _ _ _ _ _ =>
    match grun (gcopy cmp key T) (gpath cmp key T) with         (* copy the predecessor, recolour D, deleteCase1(D) *)
    | None => None
    | Some (T2, pD) =>
      match pget T2 pD with
      | PE => None
      | PT d dc dl dk dv dr =>
        let x := dchild dl dr in
        let T3 := pupd T2 pD x in                               (* replaceNode(D, child) *)
        Some (match pD, x with [], PT _ _ _ _ _ _ => psetcol RB.Black T3 | _, _ => T3 end, true)
      end
    end
  end.

Lemma pdel_notfound : forall cmp key s s' st, pdel cmp key s = Some (s', st, false) ->
  s' = s /\ st = RB.DDone /\ pget s (dpath cmp key s) = PE.
Proof.
  intros cmp key. induction s as [|a c l IHl k v r IHr]; intros s' st H.
  - injection H as <- <-. repeat split.
  - cbn [pdel dpath] in *. destruct (cmp key k).
    + destruct l as [|la lc ll lk lv lr]; [destruct r; discriminate|]. destruct r as [|ra rc rl rk rv rr]; [discriminate|].
      destruct (pdelmax _) as [[[[l' mk] mv] stl]|]; [|discriminate]. destruct (pdel_up _ _ _ _ _ _ _ _) as [[t' st']|]; discriminate.
    + destruct (pdel cmp key l) as [[[l' stl] bl]|]; [|discriminate].
      destruct (pdel_up a c l' k v r RB.L stl) as [[t' st']|] eqn:E; [|discriminate]. injection H as <- <- ->.
      destruct (IHl _ _ eq_refl) as (-> & -> & Hg). cbn [pdel_up] in E. injection E as <- <-. repeat split. exact Hg.
    + destruct (pdel cmp key r) as [[[r' str] br]|]; [|discriminate].
      destruct (pdel_up a c l k v r' RB.R str) as [[t' st']|] eqn:E; [|discriminate]. injection H as <- <- ->.
      destruct (IHr _ _ eq_refl) as (-> & -> & Hg). cbn [pdel_up] in E. injection E as <- <-. repeat split. exact Hg.
Qed.
Lemma pdel_found : forall cmp key s s' st, pdel cmp key s = Some (s', st, true) -> pget s (dpath cmp key s) <> PE.
Proof.
  intros cmp key. induction s as [|a c l IHl k v r IHr]; intros s' st H; [discriminate|].
  cbn [pdel dpath] in *. destruct (cmp key k).
  - discriminate.
  - destruct (pdel cmp key l) as [[[l' stl] bl]|]; [|discriminate].
    destruct (pdel_up a c l' k v r RB.L stl) as [[t' st']|]; [|discriminate]. injection H as _ _ ->. cbn [pget pchild]. eapply IHl. reflexivity.
  - destruct (pdel cmp key r) as [[[r' str] br]|]; [|discriminate].
    destruct (pdel_up a c l k v r' RB.R str) as [[t' st']|]; [|discriminate]. injection H as _ _ ->. cbn [pget pchild]. eapply IHr. reflexivity.
Qed.

(* OBLIGATION *)
Theorem goremove_premove : forall cmp key T T' b, premove cmp key T = Some (T', b) -> goremove cmp key T = Some (T', b).
Proof.
  intros cmp key T T' b H. destruct T as [|a c l k v r]; [injection H as <- <-; reflexivity|].
  assert (Hdel : forall t' st b', pdel cmp key (PT a c l k v r) = Some (t', st, b') ->
                 (b' = true -> gpath cmp key (PT a c l k v r) <> []) -> goremove cmp key (PT a c l k v r) = Some (t', b')).
  { intros t' st b' Hd Hne. destruct b'.
    - pose proof (pdel_found _ _ _ _ _ Hd) as Hf. unfold goremove.
      destruct (pget (PT a c l k v r) (dpath cmp key (PT a c l k v r))) eqn:Eg; [congruence|].
      destruct (dfix_pdel_gen cmp key (PT a c l k v r) (PT a c l k v r) [] t' st eq_refl I Hd) as (d & dc & dc' & dl & dk & dv & dr & sD & pD & H1 & H2 & H3 & H4 & H5).
      cbn [pupd app] in H2. rewrite H2.
      assert (Hc : dcont (PT a c l k v r) [] sD pD st = Some (sD, pD)) by (destruct st; reflexivity). rewrite Hc, H4. cbv zeta. rewrite H3.
      destruct pD; [exfalso; apply Hne; auto|reflexivity].
    - destruct (pdel_notfound _ _ _ _ _ Hd) as (-> & _ & Hg). unfold goremove. rewrite Hg. reflexivity. }
  unfold premove in H. destruct (cmp key k) eqn:Ecmp.
  - destruct l as [|la lc ll lk lv lr]; destruct r as [|ra rc rl rk rv rr].
    + injection H as <- <-. unfold goremove. cbn [dpath gpath gcopy pget]. rewrite Ecmp.
      unfold grun. cbn [pget]. destruct c; cbn [rev dfix pupd pget dchild]; reflexivity.
    + injection H as <- <-. unfold goremove. cbn [dpath gpath gcopy pget]. rewrite Ecmp.
      unfold grun. cbn [pget]. destruct c; cbn [rev dfix pupd pget dchild]; reflexivity.
    + (* the root is unlinked, its left child becomes the black root *)
      injection H as <- <-. unfold goremove. cbn [dpath gpath gcopy pget]. rewrite Ecmp.
      unfold grun. cbn [pget]. destruct c; cbn [rev dfix pupd pget dchild]; reflexivity.
    + destruct (pdel cmp key _) as [[[t' st] b']|] eqn:Ed; [|discriminate]. injection H as <- <-.
      apply (Hdel _ _ _ eq_refl). intros _. cbn [gpath]. rewrite Ecmp. discriminate.
  - assert (H' : match pdel cmp key (PT a c l k v r) with Some (t', _, b0) => Some (t', b0) | None => None end = Some (T', b))
      by (destruct l, r; exact H).
    destruct (pdel cmp key _) as [[[t' st] b']|] eqn:Ed; [|discriminate]. injection H' as <- <-.
    apply (Hdel _ _ _ eq_refl). intros _. cbn [gpath]. rewrite Ecmp. discriminate.
  - assert (H' : match pdel cmp key (PT a c l k v r) with Some (t', _, b0) => Some (t', b0) | None => None end = Some (T', b))
      by (destruct l, r; exact H).
    destruct (pdel cmp key _) as [[[t' st] b']|] eqn:Ed; [|discriminate]. injection H' as <- <-.
    apply (Hdel _ _ _ eq_refl). intros _. cbn [gpath]. rewrite Ecmp. discriminate.
Qed.
Print Assumptions goremove_premove.

(* ---------- the fix-up moves the unlinked node around without touching it ---------- *)
Lemma dfix_keeps : forall rp T dpos rest T' dpos', dfix T rp dpos = Some (T', dpos') -> dpos = rev rp ++ rest ->
  pget T dpos <> PE -> pget T' dpos' = pget T dpos /\ (dpos' = [] <-> dpos = []).
Proof.
  induction rp as [|d rq IH]; intros T dpos rest T' dpos' H Hd Hne.
  - cbn [dfix] in H. injection H as <- <-. split; [reflexivity|tauto].
  - cbn [dfix rev] in *. set (Q := rev rq) in *.
    destruct (pget T Q) as [|p pc pl pk pv pr] eqn:Ep; [discriminate|].
    destruct (pdfix d p pc pk pv (pchild (opp d) pl pr)) as [[[F st] pos]|] eqn:EF; [|discriminate].
    destruct (pdfix_ok _ _ _ _ _ _ _ _ _ EF) as (P1 & P2 & P3 & P4).
    assert (Hv : pvalid T Q) by (apply pvalid_of_get; rewrite Ep; discriminate).
    rewrite <- app_assoc in Hd. cbn [app] in Hd.
    assert (Hrepos : repos Q pos dpos = Q ++ pos ++ rest) by (rewrite Hd; apply repos_app).
    assert (Hget : pget (pupd T Q (F (pchild d pl pr))) (repos Q pos dpos) = pget T dpos).
    { rewrite Hrepos, Hd. rewrite !pget_app, pget_pupd_valid by exact Hv. rewrite Ep. cbn [pget]. rewrite <- pget_app. rewrite pget_app, P1. reflexivity. }
    assert (Hnil : repos Q pos dpos = [] <-> dpos = []).
    { rewrite Hrepos, Hd. split; intro E; exfalso.
      - destruct Q; [destruct pos; [congruence|discriminate]|discriminate].
      - destruct Q; discriminate. }
    destruct st.
    + injection H as <- <-. split; [exact Hget|exact Hnil].
    + destruct (IH _ _ (pos ++ rest) _ _ H ltac:(fold Q; exact Hrepos) ltac:(rewrite Hget; exact Hne)) as (A & B).
      split; [rewrite A; exact Hget|rewrite B; exact Hnil].
Qed.

Lemma grun_keeps : forall T pd d dc dl dk dv dr T2 pD, pget T pd = PT d dc dl dk dv dr -> grun T pd = Some (T2, pD) ->
  (exists dc', pget T2 pD = PT d dc' dl dk dv dr) /\ (pD = [] <-> pd = []).
Proof.
  intros T pd d dc dl dk dv dr T2 pD Hg H. unfold grun in H. rewrite Hg in H.
  assert (Hv : pvalid T pd) by (apply pvalid_of_get; rewrite Hg; discriminate).
  destruct dc.
  - injection H as <- <-. split; [eauto|tauto].
  - destruct (dfix_keeps _ _ _ [] _ _ H) as (A & B).
    + rewrite rev_involutive, app_nil_r. reflexivity.
    + rewrite pget_pupd_valid by exact Hv. discriminate.
    + rewrite pget_pupd_valid in A by exact Hv. split; [eauto|exact B].
Qed.

Lemma gpath_length : forall cmp key T, (length (gpath cmp key T) <= RB.height (erase T))%nat.
Proof.
  intros cmp key. induction T as [|a c l IHl k v r IHr]; [apply Nat.le_refl|]. cbn [gpath erase RB.height].
  destruct (cmp key k); cbn [length]; try lia.
  destruct l as [|la lc ll lk lv lr]; [cbn; lia|]. destruct r as [|ra rc rl rk rv rr]; [cbn; lia|].
  cbn [length]. assert (H : (length (prpath (PT la lc ll lk lv lr)) <= RB.height (erase (PT la lc ll lk lv lr)))%nat).
  { clear. generalize (PT la lc ll lk lv lr). induction p as [|a c l _ k v r IHr]; [apply Nat.le_refl|]. destruct r as [|ra rc rl rk rv rr]; [cbn; lia|].
    change (prpath (PT a c l k v (PT ra rc rl rk rv rr))) with (RB.R :: prpath (PT ra rc rl rk rv rr)). cbn [length erase RB.height] in *. lia. }
  lia.
Qed.
