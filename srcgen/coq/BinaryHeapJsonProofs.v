(* trees/binaryheap/serialization.go (GodsGen.BinaryHeapJsonGen): the backing arraylist is an abstract interface, the heap's
   own bubbleDownIndex an external parameter instantiated with Model/Heap.v bubble_down.  FromJSON = list.FromJSON, and on
   success the RE-HEAPIFY loop i = size/2+1 .. 0 of bubbleDownIndex = Heap.heapify_from (Machine.load_array for heaps);
   on an error nothing but the list's own FromJSON has run; ToJSON is the list's ToJSON; delegation. *)
From Coq Require Import ZArith List Lia Bool Arith.
From Gods Require Import Common.Cmp Common.ListAux Spec.SeqSpec Model.Ops Model.Machine.
From Gods Require Model.Heap.
From GodsGen Require BinaryHeapJsonGen.
From GodsGenProofs Require Import GenIterRun WrapCommon GoJson.
Import ListNotations.
Local Open Scope Z_scope.

Module BH := BinaryHeapJsonGen.

Section Json.
Variable dec : bytes -> list Z -> list Z * bool.      (* the arraylist's FromJSON, as proved in ArrayListCoreJsonProofs: *)
Variable enc : list Z -> bytes * bool.                (*   on success the decoded slice becomes the list, else unchanged *)
Variable cmp : cmpf.

Definition I : BH.list_iface := BH.mk_list_iface (list Z)
  (fun l d => if snd (dec d []) then (l, true) else (fst (dec d []), false))   (* FromJSON(data) *)
  (fun l => zlen l)                                                            (* Size() *)
  (fun l => enc l).                                                            (* ToJSON() *)
Definition bubble (h : BH.Heap I) (i : Z) : BH.Heap I * unit :=
  (BH.mkHeap I (Heap.bubble_down cmp (length (BH.list_ I h)) (BH.list_ I h) (Z.to_nat i)), tt).

Lemma heapify_fold : forall k l,
  BH.list_ I (fold_left (fun h (i : Z) => fst (bubble h i)) (map (fun j : nat => Z.of_nat k - Z.of_nat j) (seq 0 (S k))) (BH.mkHeap I l))
  = Heap.heapify_from cmp l k.
Proof.
  induction k as [|k IH]; intros l.
  - reflexivity.
  - change (seq 0 (S (S k))) with (0%nat :: seq 1 (S k)). rewrite <- seq_shift. cbn [map fold_left]. rewrite map_map.
    replace (Z.of_nat (S k) - Z.of_nat 0) with (Z.of_nat (S k)) by lia. unfold bubble at 2. cbn [fst BH.list_]. rewrite Nat2Z.id.
    cbn [Heap.heapify_from]. rewrite <- IH. f_equal. f_equal. apply map_ext. intros j. lia.
Qed.

(* OBLIGATION *)
Theorem FromJSON_equiv : forall c h data, kc c = cmp -> (ckind c = BinaryHeap \/ ckind c = PriorityQueue) ->
  if snd (dec data []) then BH.FromJSON I bubble h data = (h, true)
  else StHeap (BH.list_ I (fst (BH.FromJSON I bubble h data))) = load_array c (fst (dec data [])) /\
       snd (BH.FromJSON I bubble h data) = false.
Proof.
  intros c h data Hc Hk. unfold BH.FromJSON. cbn [BH.list_FromJSON I]. destruct h as [l]. cbn [BH.list_].
  destruct (dec data []) as [vs e]. destruct e; cbn [fst snd negb BH.set_list]; [reflexivity|].
  split; [|reflexivity]. cbv zeta. cbn [BH.list_Size I BH.list_].
  assert (HL : load_array c vs = StHeap (Heap.heapify_from cmp vs (length vs / 2 + 1))).
  { unfold load_array. destruct Hk as [Hk|Hk]; rewrite Hk, Hc; reflexivity. }
  rewrite HL. f_equal. rewrite <- heapify_fold.
  assert (Hn : Z.quot (zlen vs) 2 + 1 = Z.of_nat (length vs / 2 + 1)).
  { unfold zlen. rewrite Z.quot_div_nonneg by lia. rewrite Nat2Z.inj_add, Nat2Z.inj_div. reflexivity. }
  cbn [BH.set_list BH.list_]. rewrite Hn. replace (Z.to_nat (Z.of_nat (length vs / 2 + 1) + 1 - 0)) with (S (length vs / 2 + 1)) by lia.
  first [reflexivity | f_equal; apply fold_left_ext_in; intros a i _; unfold bubble; reflexivity].
Qed.

(* OBLIGATION *)
Theorem ToJSON_equiv : forall J ext h,
  BH.ToJSON J h = BH.list_ToJSON J (BH.list_ J h) /\ BH.MarshalJSON J h = BH.ToJSON J h /\
  (forall data, BH.UnmarshalJSON J ext h data = BH.FromJSON J ext h data).
Proof.
  intros J ext h. unfold BH.ToJSON, BH.MarshalJSON, BH.UnmarshalJSON. repeat split.
  - now destruct (BH.list_ToJSON J (BH.list_ J h)).
  - unfold BH.ToJSON. now destruct (BH.list_ToJSON J (BH.list_ J h)).
  - intros data. now destruct (BH.FromJSON J ext h data).
Qed.
End Json.

Print Assumptions FromJSON_equiv.
Print Assumptions ToJSON_equiv.
