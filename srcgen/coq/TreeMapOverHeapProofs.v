(* COMPOSITION: maps/treemap/treemap.go regenerated over an abstract red-black tree (GodsGen.TreeMapGen, proved against the machine in
   TreeMapGenProofs.v with the interface instantiated by the MODEL of redblacktree.Tree) is here instantiated with the GENERATED
   POINTER CODE of trees/redblacktree/redblacktree.go (RBTreeHeapIface.v: state = comparator-call counter, heap of Node records,
   Tree header, or None after a panic / fuel exhaustion; fuel 3 * size + 6).  [treemap_over_heap_run]: a run of generated TreeMap
   operations (Put / Remove / Clear) over the generated red-black pointer code from NewWith(cmp) never crashes, its heap
   represents the tree of Machine.run for kind TreeMap (same size field, same comparator), and Get / Size / Empty / Keys / Values /
   Min / Max / Floor / Ceiling answer as the machine.  The two JSON fields of the interface are placeholders
   (redblacktree/serialization.go is translated over an opaque tree, not in pointer mode). *)
From Coq Require Import ZArith List Lia Bool Arith.
From Gods Require Import Common.Cmp Common.ListAux Spec.SeqSpec Model.Ops Model.Machine Model.RBTree Proofs.RBInv.
From GodsGen Require TreeMapGen RedBlackTreeHeapGen.
From GodsGenProofs Require Import GenIterRun WrapCommon GoCmp GoTreeHeap RBTreeHeapRep RBTreeHeapIface.
From GodsGenProofs Require GoJson TreeMapGenProofs.
Import ListNotations.
Local Open Scope Z_scope.

Module M := TreeMapGen.
Module TM := TreeMapGenProofs.

Definition Ip (mag : Z -> Z -> positive) : M.tree_iface := M.mk_tree_iface pstate
  (p_Ceiling mag) p_Clear p_Empty (p_Floor mag)
  (fun s d => (s, true))                      (* FromJSON: placeholder, as in TreeMapGenProofs.I *)
  (p_Get mag) p_Keys p_Left (p_Put mag) (p_Remove mag) p_Right p_Size
  (fun s => (GoJson.nil_bytes, true))         (* ToJSON: placeholder *)
  p_Values p_Comparator p_New p_NewWith.

Section Rel.
Variable mag : Z -> Z -> positive.
Notation I' := (Ip mag).
Variables (gp : M.Map I') (gm : M.Map TM.I).
Hypothesis HR : R (M.tree I' gp) (M.tree TM.I gm).

Lemma Put_rel' : forall k v, R (M.tree I' (fst (M.Put I' gp k v))) (M.tree TM.I (fst (M.Put TM.I gm k v))).
Proof. intros k v. destruct gp, gm. exact (Put_rel mag _ _ HR k v). Qed.
Lemma Remove_rel' : forall k, R (M.tree I' (fst (M.Remove I' gp k))) (M.tree TM.I (fst (M.Remove TM.I gm k))).
Proof. intros k. destruct gp, gm. exact (Remove_rel mag _ _ HR k). Qed.
Lemma Clear_rel' : R (M.tree I' (fst (M.Clear I' gp))) (M.tree TM.I (fst (M.Clear TM.I gm))).
Proof. destruct gp, gm. exact (Clear_rel _ _ HR). Qed.

(* the observers answer as the model instantiation *)
Lemma observers_rel' : forall k,
  M.Get I' gp k = M.Get TM.I gm k /\ M.Size I' gp = M.Size TM.I gm /\ M.Empty I' gp = M.Empty TM.I gm /\
  M.Keys I' gp = M.Keys TM.I gm /\ M.Values I' gp = M.Values TM.I gm /\
  M.Min I' gp = M.Min TM.I gm /\ M.Max I' gp = M.Max TM.I gm /\
  M.Floor I' gp k = M.Floor TM.I gm k /\ M.Ceiling I' gp k = M.Ceiling TM.I gm k.
Proof.
  intros k. destruct gp as [sp], gm as [sm]. cbn [M.tree] in HR. destruct (observers_rel mag sp sm HR) as (t & n & Hm & Hobs).
  destruct (Hobs k) as (O1 & O2 & O3 & O4 & O5 & O6 & O7 & O8 & O9). subst sm.
  unfold M.Get, M.Size, M.Empty, M.Keys, M.Values, M.Min, M.Max, M.Floor, M.Ceiling.
  cbn [M.tree M.tree_Get M.tree_Size M.tree_Empty M.tree_Keys M.tree_Values M.tree_Left M.tree_Right M.tree_Floor M.tree_Ceiling Ip TM.I TM.on_tree fst snd] in *.
  rewrite O1, O2, O3, O4, O5, O6, O7, O8, O9. repeat split.
Qed.
End Rel.

(* ---------- runs ---------- *)
Definition gen_step_p (mag : Z -> Z -> positive) (g : M.Map (Ip mag)) (o : TM.gop) : M.Map (Ip mag) :=
  match o with
  | TM.GPut k v => fst (M.Put (Ip mag) g k v)
  | TM.GRemove k => fst (M.Remove (Ip mag) g k)
  | TM.GClear => fst (M.Clear (Ip mag) g)
  end.
Definition gen_run_p (mag : Z -> Z -> positive) (cmp : cmpf) (ops : list TM.gop) : M.Map (Ip mag) :=
  fold_left (gen_step_p mag) ops (M.NewWith (Ip mag) cmp).

Lemma gen_run_rel : forall mag cmp ops, R (M.tree (Ip mag) (gen_run_p mag cmp ops)) (M.tree TM.I (TM.gen_run cmp ops)).
Proof.
  intros mag cmp ops. induction ops as [|o ops IH] using rev_ind; [exact (NewWith_rel cmp)|].
  unfold gen_run_p, TM.gen_run. rewrite !fold_left_app. cbn [fold_left]. fold (gen_run_p mag cmp ops) (TM.gen_run cmp ops).
  destruct o as [k v|k|]; cbn [gen_step_p TM.gen_step]; [apply Put_rel'|apply Remove_rel'|apply Clear_rel']; exact IH.
Qed.

(* OBLIGATION *)
Theorem treemap_over_heap_run : forall mag c, ckind c = TreeMap -> forall ops,
  let gp := gen_run_p mag (kc c) ops in let s := run c (map TM.to_op ops) in
  exists n h tr t, M.tree (Ip mag) gp = Some (n, h, tr) /\ s = StRB t (G.Tree_size tr) /\
    tree_repr h tr t /\ heap_ok h /\ RBInv.rbt t /\ G.Tree_size tr = Z.of_nat (RB.count t) /\ G.Tree_Comparator tr = kc c /\
    M.Size (Ip mag) gp = size_of c s /\ M.Empty (Ip mag) gp = (size_of c s =? 0) /\
    M.Keys (Ip mag) gp = keys_of c s /\ M.Values (Ip mag) gp = values_of c s /\
    (forall k, obs_pair (M.Get (Ip mag) gp k) = get_of c s k) /\
    M.Min (Ip mag) gp = TM.triple (RB.leftmost t) /\ M.Max (Ip mag) gp = TM.triple (RB.rightmost t) /\
    (forall k, M.Floor (Ip mag) gp k = TM.triple (RB.floor (kc c) k t) /\ M.Ceiling (Ip mag) gp k = TM.triple (RB.ceiling (kc c) k t)).
Proof.
  intros mag c Hk ops gp s. pose proof (gen_run_rel mag (kc c) ops) as HR. fold gp in HR.
  destruct (TM.gen_run_simulates c Hk ops) as (Hrun & Hcmp). fold s in Hrun.
  pose proof HR as (n & h & tr & t & Hp & Hm & Hrepr & Hok & Hrbt & Hsz).
  assert (Hc : G.Tree_Comparator tr = kc c) by (rewrite Hm in Hcmp; exact Hcmp).
  assert (Hs : s = StRB t (G.Tree_size tr)) by (rewrite Hrun; unfold TM.st; rewrite Hm; reflexivity).
  assert (Hst : snd (M.tree TM.I (TM.gen_run (kc c) ops)) = Some (t, G.Tree_size tr)) by (rewrite Hm; reflexivity).
  exists n, h, tr, t. split; [exact Hp|]. split; [exact Hs|]. split; [exact Hrepr|]. split; [exact Hok|]. split; [exact Hrbt|]. split; [exact Hsz|]. split; [exact Hc|].
  destruct (TM.Size_equiv c _ Hcmp t (G.Tree_size tr) Hst) as (E1 & E2).
  destruct (TM.Keys_Values_equiv c Hk _ Hcmp t (G.Tree_size tr) Hst) as (E3 & E4).
  rewrite Hs.
  destruct (observers_rel' mag gp _ HR 0) as (_ & O2 & O3 & O4 & O5 & O6 & O7 & _).
  rewrite O2, O3, O4, O5, O6, O7, E1, E2, E3, E4.
  destruct (TM.Order_equiv c _ Hcmp t (G.Tree_size tr) Hst 0) as (M1 & M2 & _). rewrite M1, M2.
  repeat split; try reflexivity.
  - intro k. destruct (observers_rel' mag gp _ HR k) as (O1 & _). rewrite O1. symmetry. apply (TM.Get_equiv c _ Hcmp t (G.Tree_size tr) Hst).
  - destruct (observers_rel' mag gp _ HR k) as (_ & _ & _ & _ & _ & _ & _ & O8 & _). rewrite O8.
    apply (TM.Order_equiv c _ Hcmp t (G.Tree_size tr) Hst k).
  - destruct (observers_rel' mag gp _ HR k) as (_ & _ & _ & _ & _ & _ & _ & _ & O9). rewrite O9.
    apply (TM.Order_equiv c _ Hcmp t (G.Tree_size tr) Hst k).
Qed.
Print Assumptions treemap_over_heap_run.
