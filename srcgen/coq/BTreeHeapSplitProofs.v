(* WRITE PATH of trees/btree/btree.go, bottom-up pass: the GENERATED split / splitNonRoot / splitRoot / setParent
   (GodsGen.BTreeHeapGen) on a focus node inside a zipper context (BTreeHeapWriteLemmas.v) compute the model's
   [finish] (BTreeHeapInsertModel.v) -- see the statements below. *)
From Coq Require Import ZArith List Lia Bool Arith ZifyBool ZifyNat.
From Gods Require Import Common.Cmp Model.BTree Model.BTreeCost Proofs.BTreeInd Proofs.BTreeMap.
From GodsGenProofs Require Import GoCmp GoTreeHeap GoBTreeHeap BTreeHeapRep BTreeHeapReadProofs BTreeHeapInsertModel BTreeHeapWriteLemmas.
From GodsGen Require BTreeHeapGen.
Import ListNotations.
Local Open Scope Z_scope.

Ltac eqbs := repeat match goal with
  | |- context [Nat.eqb ?a ?a] => rewrite (Nat.eqb_refl a)
  | |- context [Nat.eqb ?a ?b] => rewrite (proj2 (Nat.eqb_neq a b)) by lia
  end.
Ltac hsimp := repeat first [rewrite hread_hset | rewrite hread_halloc | rewrite hnext_hset | rewrite hnext_halloc | rewrite hnext_setpar]; eqbs.

Ltac lnorm := repeat (progress (cbn [app]; rewrite <- ?app_assoc)).
Ltac nsimp := cbn [G.Node_with_Entries G.Node_with_Children G.Node_with_Parent G.Node_Entries G.Node_Children G.Node_Parent].
Ltac hs := hsimp; nsimp.

Lemma middle_Z : forall (m : nat), (1 <= m)%nat -> Z.quot (Z.of_nat m - 1) 2 = Z.of_nat (BT.middle m).
Proof.
  intros m H. unfold BT.middle. rewrite quot2 by lia. rewrite Nat2Z.inj_div. f_equal. lia.
Qed.

(* the end of splitRoot, on the heap hX that holds the two halves: a new root above them *)
Lemma root_tail : forall h hX (tr : G.Tree) a e1 e2 c1 c2 emid,
  is_halves h hX None e1 e2 c1 c2 -> heap_ok h ->
  Forall (rep h (Some a)) (c1 ++ c2) -> NoDup (flat_map addrs (c1 ++ c2)) ->
  (forall x, In x (flat_map addrs (c1 ++ c2)) -> (x < hnext h)%nat) ->
  zrep (hset (hset (halloc hX (G.mkNode None [Some emid] [Some (hnext h); Some (S (hnext h))]))
                   (hnext h) (G.mkNode (Some (S (S (hnext h)))) (eptrs e1) (cptrs c1)))
             (S (hnext h)) (G.mkNode (Some (S (S (hnext h)))) (eptrs e2) (cptrs c2)))
       (G.Tree_set_Root tr (Some (S (S (hnext h))))) []
       (PN (S (S (hnext h))) [emid] [PN (hnext h) e1 c1; PN (S (hnext h)) e2 c2]).
Proof.
  intros h hX tr a e1 e2 c1 c2 emid Hh Hok Hrep Hnd Hlt.
  destruct (is_halves_children _ _ _ _ _ _ _ a Hh Hrep Hnd Hlt) as [Hc1 Hc2].
  pose proof Hh as (Hnx & HokX & Ha1 & Ha2 & _).
  set (h9 := hset (hset (halloc hX _) _ _) _ _).
  assert (Hfr : forall x, (x < hnext h)%nat -> hread h9 x = hread hX x).
  { intros x Hx. unfold h9. rewrite !hread_hset, hread_halloc, Hnx. now rewrite !(proj2 (Nat.eqb_neq _ _)) by lia. }
  assert (Hfrc : forall cs, (forall x, In x (flat_map addrs cs) -> (x < hnext h)%nat) -> forall pp, Forall (rep hX pp) cs -> Forall (rep h9 pp) cs).
  { intros cs Hl pp H. eapply Forall_rep_frame; [|exact H]. intros x Hx. apply Hfr. now apply Hl. }
  unfold zrep. cbn [cparent crep caddrs croot paddr]. split; [|split; [exact I|split; [|split]]].
  - apply rep_unfold. split.
    + unfold h9. rewrite !hread_hset, hread_halloc, Hnx. rewrite !(proj2 (Nat.eqb_neq _ _)) by lia. now rewrite Nat.eqb_refl.
    + constructor; [|constructor; [|constructor]].
      * apply rep_unfold. split.
        -- unfold h9. rewrite !hread_hset. rewrite (proj2 (Nat.eqb_neq _ _)) by lia. now rewrite Nat.eqb_refl.
        -- apply Hfrc; [|exact Hc1]. intros x Hx. apply Hlt. rewrite flat_map_app. apply in_or_app. now left.
      * apply rep_unfold. split.
        -- unfold h9. rewrite !hread_hset. now rewrite Nat.eqb_refl.
        -- apply Hfrc; [|exact Hc2]. intros x Hx. apply Hlt. rewrite flat_map_app. apply in_or_app. now right.
  - rewrite app_nil_r. cbn [addrs flat_map]. rewrite app_nil_r. cbn [app]. rewrite flat_map_app in Hnd, Hlt.
    assert (Hl1 : forall x, In x (flat_map addrs c1) -> (x < hnext h)%nat) by (intros; apply Hlt; apply in_or_app; now left).
    assert (Hl2 : forall x, In x (flat_map addrs c2) -> (x < hnext h)%nat) by (intros; apply Hlt; apply in_or_app; now right).
    apply NoDup_app_iff in Hnd. destruct Hnd as (Hn1 & Hn2 & Hd).
    constructor.
    { intro H. cbn [In] in H. rewrite in_app_iff in H. cbn [In] in H. destruct H as [E|[H|[E|H]]]; try lia; [apply Hl1 in H|apply Hl2 in H]; lia. }
    constructor.
    { intro H. rewrite in_app_iff in H. cbn [In] in H. destruct H as [H|[E|H]]; try lia; [apply Hl1 in H|apply Hl2 in H]; lia. }
    apply NoDup_app_iff. split; [exact Hn1|]. split.
    { constructor; [|exact Hn2]. intro H. apply Hl2 in H. lia. }
    intros x H1 [E|H2]; [apply Hl1 in H1; lia|exact (Hd x H1 H2)].
  - unfold h9. apply heap_ok_hset; [apply heap_ok_hset; [now apply heap_ok_halloc|]|].
    + rewrite hread_halloc, Hnx. rewrite (proj2 (Nat.eqb_neq _ _)) by lia. congruence.
    + rewrite hread_hset, hread_halloc, Hnx. rewrite !(proj2 (Nat.eqb_neq _ _)) by lia. congruence.
  - reflexivity.
Qed.

Lemma splitRoot_spec : forall h tr a es cs (m : nat) emid,
  zrep h tr [] (PN a es cs) -> G.Tree_m tr = Z.of_nat m -> (3 <= m)%nat ->
  nth_error es (BT.middle m) = Some emid -> (cs = [] \/ length cs = S (length es)) ->
  exists h',
    G.splitRoot h tr = Some (h', G.Tree_set_Root tr (Some (S (S (hnext h))))) /\
    zrep h' (G.Tree_set_Root tr (Some (S (S (hnext h))))) []
         (PN (S (S (hnext h))) [emid]
             [PN (hnext h) (firstn (BT.middle m) es) (firstn (S (BT.middle m)) cs);
              PN (S (hnext h)) (skipn (S (BT.middle m)) es) (skipn (S (BT.middle m)) cs)]).
Proof.
  intros h tr a es cs m emid (Hrep & _ & Hnd & Hok & Hroot) Hm H3 Hmid Hcs.
  cbn [croot paddr caddrs cparent] in *. rewrite app_nil_r in Hnd.
  set (mid := BT.middle m) in *.
  assert (Hmidlt : (mid < length es)%nat) by (apply nth_error_Some; congruence).
  pose proof (rep_deref _ _ _ _ _ Hrep) as Hd. unfold deref in Hd.
  pose proof (rep_children _ _ _ _ _ Hrep) as Hch.
  assert (Ha : (a < hnext h)%nat) by (apply Hok; congruence).
  cbn [addrs] in Hnd. inversion Hnd as [|? ? Hna Hndc]; subst.
  assert (Hltc : forall x, In x (flat_map addrs cs) -> (x < hnext h)%nat).
  { intros x Hx. apply Hok. exact (Forall_rep_alloc _ _ _ _ Hch Hx). }
  assert (Hsplit : firstn (S mid) cs ++ skipn (S mid) cs = cs) by apply firstn_skipn.
  unfold G.splitRoot, G.middle. rewrite Hm, (middle_Z m) by lia. fold mid. rewrite Hroot. unfold deref.
  rewrite Hd. cbn [node_of G.Node_Entries G.Node_Children].
  rewrite sl_slice_to by (rewrite len_eptrs; lia). rewrite alloc_halloc. cbv beta iota.
  hsimp. rewrite Hd. cbn [node_of G.Node_Entries G.Node_Children].
  replace (Z.of_nat mid + 1) with (Z.of_nat (S mid)) by lia.
  rewrite sl_slice_from by (rewrite len_eptrs; lia). rewrite alloc_halloc. cbv beta iota.
  rewrite isLeaf_unfold. unfold deref. hsimp. rewrite Hd. cbn [node_of G.Node_Entries G.Node_Children]. rewrite sl_len_cptrs.
  cbn [app]. rewrite firstn_eptrs, skipn_eptrs.
  destruct Hcs as [->|Hlen].
  - (* the root is a leaf *)
    cbn [length Z.of_nat Z.eqb negb]. cbv iota.
    pose proof (halves_leaf h None (firstn mid es) (skipn (S mid) es) Hok) as Hh.
    set (hX := halloc (halloc h _) _) in *.
    pose proof Hh as (Hnx & HokX & Ha1 & Ha2 & Hold).
    rewrite (is_halves_old _ _ _ _ _ _ _ a Hh Ha) by (intros []). rewrite Hd. cbn [node_of G.Node_Entries].
    rewrite sl_get_nat, nth_eptrs, Hmid. cbn [option_map]. rewrite alloc_halloc. cbv beta iota. rewrite Hnx.
    erewrite store_hset by (rewrite hread_halloc, Hnx; rewrite (proj2 (Nat.eqb_neq _ _)) by lia; exact Ha1).
    erewrite store_hset by (rewrite hread_hset, hread_halloc, Hnx; rewrite !(proj2 (Nat.eqb_neq _ _)) by lia; exact Ha2).
    cbn [G.Node_with_Parent G.Node_Parent G.Node_Entries G.Node_Children].
    eexists. split; [reflexivity|]. rewrite !firstn_nil, !skipn_nil.
    apply (root_tail h hX tr a _ _ [] [] emid Hh Hok); [constructor|constructor|intros x []].
  - (* the root is an internal node: the halves adopt its children *)
    assert (Hz : (Z.of_nat (length cs) =? 0) = false) by lia. rewrite Hz. cbn [negb]. cbv iota.
    rewrite sl_slice_to by (rewrite len_cptrs; lia).
    erewrite store_hset by (hsimp; reflexivity). hsimp. rewrite Hd. cbn [node_of G.Node_Entries G.Node_Children].
    rewrite sl_slice_from by (rewrite len_cptrs; lia).
    erewrite store_hset by (hsimp; reflexivity). hsimp.
    cbn [G.Node_with_Children G.Node_Parent G.Node_Entries G.Node_Children app].
    rewrite firstn_cptrs, skipn_cptrs, !cptrs_roots.
    assert (Hal : forall q, In q (roots (firstn (S mid) cs) ++ roots (skipn (S mid) cs)) -> alloced h q).
    { intros q Hq. rewrite <- roots_app, Hsplit in Hq. apply roots_in in Hq. exact (Forall_rep_alloc _ _ _ _ Hch Hq). }
    rewrite setParent_setpar.
    2:{ intros q Hq. apply alloced_hset, alloced_hset, alloced_halloc, alloced_halloc, Hal. apply in_or_app. now left. }
    rewrite hread_setpar.
    2:{ intros q Hq. apply alloced_hset, alloced_hset, alloced_halloc, alloced_halloc, Hal. apply in_or_app. now left. }
    rewrite existsb_eqb_notIn.
    2:{ intro Hq. assert (Hx : alloced h (S (hnext h))) by (apply Hal; apply in_or_app; now left). apply Hok in Hx. lia. }
    hsimp. cbn [G.Node_with_Children G.Node_Children G.Node_Parent G.Node_Entries].
    rewrite setParent_setpar.
    2:{ intros q Hq. apply alloced_setpar, alloced_hset, alloced_hset, alloced_halloc, alloced_halloc, Hal. apply in_or_app. now right. }
    rewrite <- !cptrs_roots.
    pose proof (halves_internal h None (firstn mid es) (skipn (S mid) es) (firstn (S mid) cs) (skipn (S mid) cs) Hok Hal) as Hh.
    set (hX := setpar (setpar _ _ _) _ _) in *.
    pose proof Hh as (Hnx & HokX & Ha1 & Ha2 & Hold).
    assert (Hna1 : ~ In a (roots (firstn (S mid) cs))) by (intro Hq; apply Hna; apply roots_in in Hq; eapply in_flat_firstn; eauto).
    assert (Hna2 : ~ In a (roots (skipn (S mid) cs))) by (intro Hq; apply Hna; apply roots_in in Hq; eapply in_flat_skipn; eauto).
    rewrite (is_halves_old _ _ _ _ _ _ _ a Hh Ha Hna1 Hna2). rewrite Hd. cbn [node_of G.Node_Entries].
    rewrite sl_get_nat, nth_eptrs, Hmid. cbn [option_map]. rewrite alloc_halloc. cbv beta iota. rewrite Hnx.
    erewrite store_hset by (rewrite hread_halloc, Hnx; rewrite (proj2 (Nat.eqb_neq _ _)) by lia; exact Ha1).
    erewrite store_hset by (rewrite hread_hset, hread_halloc, Hnx; rewrite !(proj2 (Nat.eqb_neq _ _)) by lia; exact Ha2).
    cbn [G.Node_with_Parent G.Node_Parent G.Node_Entries G.Node_Children].
    eexists. split; [reflexivity|].
    apply (root_tail h hX tr a _ _ _ _ emid Hh Hok); rewrite Hsplit; assumption.
Qed.

(* ---------- splitNonRoot: one level ---------- *)
Lemma splitNonRoot_step : forall mag (m : nat) h tr a es cs b pes ls rs c emid f n,
  (3 <= m)%nat -> zrep h tr (PF b pes ls rs :: c) (PN a es cs) -> G.Tree_m tr = Z.of_nat m ->
  nth_error es (BT.middle m) = Some emid -> (cs = [] \/ length cs = S (length es)) ->
  (length ls + length rs = length pes)%nat ->
  fst (BT.search (G.Tree_Comparator tr) (fst emid) pes) = length ls ->
  (search_c (G.Tree_Comparator tr) (fst emid) pes <= S f)%nat ->
  exists h',
    G.splitNonRoot mag (S f) n h tr (Some a) =
      (do (ncmp, h2, tr2) <- G.split mag f (n + search_c (G.Tree_Comparator tr) (fst emid) pes)%nat h' tr (Some b); Some (ncmp, h2, tr2)) /\
    zrep h' tr c (PN b (insert_at (length ls) emid pes)
                     (ls ++ PN (hnext h) (firstn (BT.middle m) es) (firstn (S (BT.middle m)) cs)
                         :: PN (S (hnext h)) (skipn (S (BT.middle m)) es) (skipn (S (BT.middle m)) cs) :: rs)).
Proof.
  intros mag m h tr a es cs b pes ls rs c emid f n H3 (Hrep & Hcr & Hnd & Hok & Hroot) Hm Hmid Hcs Hwf Hpos Hfuel.
  cbn [croot paddr caddrs cparent crep] in *. destruct Hcr as (Hb & Hl & Hr & Hc).
  set (mid := BT.middle m) in *. set (pos := length ls) in *.
  assert (Hmidlt : (mid < length es)%nat) by (apply nth_error_Some; congruence).
  pose proof (rep_deref _ _ _ _ _ Hrep) as Hd. unfold deref in Hd.
  pose proof (rep_children _ _ _ _ _ Hrep) as Hch.
  assert (Ha : (a < hnext h)%nat) by (apply Hok; congruence).
  assert (Hbl : (b < hnext h)%nat) by (apply Hok; congruence).
  cbn [addrs app] in Hnd. inversion Hnd as [|? ? Hna Hnd']; subst.
  apply NoDup_app_iff in Hnd'. destruct Hnd' as (Hndc & Hndb & Hdisj).
  assert (Hab : a <> b) by (intro E; apply Hna; apply in_or_app; right; subst; now left).
  assert (Hltc : forall x, In x (flat_map addrs cs) -> (x < hnext h)%nat).
  { intros x Hx. apply Hok. exact (Forall_rep_alloc _ _ _ _ Hch Hx). }
  assert (Hltb : forall x, In x (b :: flat_map addrs ls ++ flat_map addrs rs ++ caddrs c) -> (x < hnext h)%nat).
  { intros x [<-|Hx]; [exact Hbl|]. apply Hok. apply in_app_or in Hx. destruct Hx as [Hx|Hx]; [exact (Forall_rep_alloc _ _ _ _ Hl Hx)|].
    apply in_app_or in Hx. destruct Hx as [Hx|Hx]; [exact (Forall_rep_alloc _ _ _ _ Hr Hx)|exact (crep_alloc _ _ _ _ Hc Hx)]. }
  assert (Hsplit : firstn (S mid) cs ++ skipn (S mid) cs = cs) by apply firstn_skipn.
  assert (Hbnr : forall k, ~ In b (roots (firstn k cs)) /\ ~ In b (roots (skipn k cs))).
  { intros k. split; intro Hq; apply roots_in in Hq; [apply in_flat_firstn in Hq|apply in_flat_skipn in Hq]; apply (Hdisj b Hq); now left. }
  assert (Hanr : forall k, ~ In a (roots (firstn k cs)) /\ ~ In a (roots (skipn k cs))).
  { intros k. split; intro Hq; apply roots_in in Hq; [apply in_flat_firstn in Hq|apply in_flat_skipn in Hq]; apply Hna; apply in_or_app; now left. }
  cbn [G.splitNonRoot]. fold (G.split mag).
  unfold G.middle. rewrite Hm, (middle_Z m) by lia. fold mid. unfold deref.
  rewrite Hd. cbn [node_of G.Node_Parent G.Node_Entries G.Node_Children].
  rewrite sl_slice_to by (rewrite len_eptrs; lia). rewrite alloc_halloc. cbv beta iota.
  hsimp. rewrite Hd. cbn [node_of G.Node_Entries G.Node_Children].
  replace (Z.of_nat mid + 1) with (Z.of_nat (S mid)) by lia.
  rewrite sl_slice_from by (rewrite len_eptrs; lia). rewrite alloc_halloc. cbv beta iota.
  rewrite isLeaf_unfold. unfold deref. hsimp. rewrite Hd. cbn [node_of G.Node_Entries G.Node_Children]. rewrite sl_len_cptrs.
  cbn [app]. rewrite firstn_eptrs, skipn_eptrs.
  (* the heap hX with the two halves *)
  match goal with |- context [if negb (Z.of_nat (length cs) =? 0) then ?T else ?E] =>
    assert (HX : exists hX, is_halves h hX (Some b) (firstn mid es) (skipn (S mid) es) (firstn (S mid) cs) (skipn (S mid) cs) /\
                            (if negb (Z.of_nat (length cs) =? 0) then T else E) = Some hX)
  end.
  { destruct Hcs as [->|Hlen].
    - cbn [length Z.of_nat Z.eqb negb]. cbv iota. eexists. split; [|reflexivity].
      rewrite !firstn_nil, !skipn_nil. now apply halves_leaf.
    - assert (Hz : (Z.of_nat (length cs) =? 0) = false) by lia. rewrite Hz. cbn [negb]. cbv iota.
      rewrite sl_slice_to by (rewrite len_cptrs; lia).
      erewrite store_hset by (hsimp; reflexivity). hsimp. rewrite Hd. cbn [node_of G.Node_Entries G.Node_Children].
      rewrite sl_slice_from by (rewrite len_cptrs; lia).
      erewrite store_hset by (hsimp; reflexivity). hsimp.
      cbn [G.Node_with_Children G.Node_Parent G.Node_Entries G.Node_Children app].
      rewrite firstn_cptrs, skipn_cptrs, !cptrs_roots.
      assert (Hal : forall q, In q (roots (firstn (S mid) cs) ++ roots (skipn (S mid) cs)) -> alloced h q).
      { intros q Hq. rewrite <- roots_app, Hsplit in Hq. apply roots_in in Hq. exact (Forall_rep_alloc _ _ _ _ Hch Hq). }
      rewrite setParent_setpar.
      2:{ intros q Hq. apply alloced_hset, alloced_hset, alloced_halloc, alloced_halloc, Hal. apply in_or_app. now left. }
      rewrite hread_setpar.
      2:{ intros q Hq. apply alloced_hset, alloced_hset, alloced_halloc, alloced_halloc, Hal. apply in_or_app. now left. }
      rewrite existsb_eqb_notIn.
      2:{ intro Hq. assert (Hx : alloced h (S (hnext h))) by (apply Hal; apply in_or_app; now left). apply Hok in Hx. lia. }
      hsimp. cbn [G.Node_with_Children G.Node_Children G.Node_Parent G.Node_Entries].
      rewrite setParent_setpar.
      2:{ intros q Hq. apply alloced_setpar, alloced_hset, alloced_hset, alloced_halloc, alloced_halloc, Hal. apply in_or_app. now right. }
      rewrite <- !cptrs_roots. eexists. split; [|reflexivity].
      exact (halves_internal h (Some b) (firstn mid es) (skipn (S mid) es) (firstn (S mid) cs) (skipn (S mid) cs) Hok Hal). }
  destruct HX as (hX & Hh & ->).
  pose proof Hh as (Hnx & HokX & Ha1 & Ha2 & Hold).
  assert (HXa : hread hX a = hread h a) by (apply (is_halves_old _ _ _ _ _ _ _ a Hh Ha); apply Hanr).
  assert (HXb : hread hX b = hread h b) by (apply (is_halves_old _ _ _ _ _ _ _ b Hh Hbl); apply Hbnr).
  rewrite HXa, Hd. cbn [node_of G.Node_Entries].
  rewrite sl_get_nat, nth_eptrs, Hmid. cbn [option_map]. unfold Entry_Key.
  rewrite (search_correct mag hX tr (Some b) _ pes (fst emid) (S f) n) by (first [unfold deref; rewrite HXb; exact Hb | reflexivity | exact Hfuel]).
  rewrite Hpos. fold pos.
  assert (Hposle : (pos <= length pes)%nat) by (unfold pos; lia).
  (* the seven stores to the parent *)
  rewrite HXb, Hb. nsimp.
  erewrite store_hset by (rewrite HXb; exact Hb). hs.
  change (@None (Z * Z) :: []) with [@None (Z * Z)].
  rewrite shift_slice by (rewrite len_eptrs; exact Hposle).
  rewrite shift_copy by (rewrite len_eptrs; exact Hposle).
  erewrite store_hset by (hsimp; reflexivity). hs.
  rewrite HXa, Hd. cbn [node_of G.Node_Entries]. rewrite sl_get_nat, nth_eptrs, Hmid. cbn [option_map].
  rewrite shift_set by (rewrite len_eptrs; exact Hposle).
  erewrite store_hset by (hsimp; reflexivity). hs.
  rewrite sl_set_nat by (rewrite app_length, len_cptrs; cbn [length]; unfold pos; lia).
  assert (Erep : replace_at pos (Some (hnext h)) (cptrs ls ++ Some a :: cptrs rs) = cptrs ls ++ Some (hnext h) :: cptrs rs)
    by (unfold pos; rewrite <- (len_cptrs ls); apply replace_at_app).
  rewrite Erep.
  erewrite store_hset by (hsimp; reflexivity). hs.
  erewrite store_hset by (hsimp; reflexivity). hs.
  change (@None nat :: []) with [@None nat].
  replace (Z.of_nat pos + 1) with (Z.of_nat (S pos)) by lia. replace (Z.of_nat pos + 2) with (Z.of_nat (S pos) + 1) by lia.
  assert (HSpos : (S pos <= length (cptrs ls ++ Some (hnext h) :: cptrs rs))%nat) by (rewrite app_length, len_cptrs; cbn [length]; unfold pos; lia).
  rewrite shift_slice by exact HSpos. rewrite shift_copy by exact HSpos.
  erewrite store_hset by (hsimp; reflexivity). hs.
  rewrite shift_set by exact HSpos.
  erewrite store_hset by (hsimp; reflexivity). hs.
  assert (Eins : insert_at (S pos) (Some (S (hnext h))) (cptrs ls ++ Some (hnext h) :: cptrs rs) =
                 cptrs ls ++ Some (hnext h) :: Some (S (hnext h)) :: cptrs rs)
    by (unfold pos; rewrite <- (len_cptrs ls); apply insert_at_S_app).
  rewrite Eins. rewrite eptrs_insert_at.
  eexists. split; [reflexivity|].
  match goal with |- zrep ?H _ _ _ => set (hF := H) end.
  assert (Hfb : hread hF b = Some (G.mkNode (cparent c) (eptrs (insert_at pos emid pes))
                                            (cptrs ls ++ Some (hnext h) :: Some (S (hnext h)) :: cptrs rs))).
  { unfold hF. rewrite hread_hset, Nat.eqb_refl. reflexivity. }
  assert (Hfo : forall x, x <> b -> hread hF x = hread hX x).
  { intros x Hx. unfold hF. rewrite !hread_hset. now rewrite (proj2 (Nat.eqb_neq x b) Hx). }
  assert (HokF : heap_ok hF).
  { unfold hF. repeat (apply heap_ok_hset; [|rewrite ?hread_hset, ?Nat.eqb_refl; try discriminate]); [exact HokX|rewrite HXb, Hb; discriminate]. }
  clearbody hF.
  assert (Hroots12 : forall x, In x (b :: flat_map addrs ls ++ flat_map addrs rs ++ caddrs c) ->
            ~ In x (roots (firstn (S mid) cs)) /\ ~ In x (roots (skipn (S mid) cs))).
  { intros x Hx. split; intro Hq; apply roots_in in Hq; [apply in_flat_firstn in Hq|apply in_flat_skipn in Hq]; exact (Hdisj x Hq Hx). }
  assert (Hold' : forall x, In x (flat_map addrs ls ++ flat_map addrs rs ++ caddrs c) -> hread hF x = hread h x).
  { intros x Hx. assert (Hxb : x <> b) by (intro E; subst x; inversion Hndb; contradiction).
    rewrite (Hfo x Hxb). apply (is_halves_old _ _ _ _ _ _ _ x Hh); [apply Hltb; now right|apply Hroots12; now right|apply Hroots12; now right]. }
  destruct (is_halves_children _ _ _ _ _ _ _ a Hh ltac:(rewrite Hsplit; exact Hch) ltac:(rewrite Hsplit; exact Hndc)
              ltac:(rewrite Hsplit; exact Hltc)) as [Hc1 Hc2].
  assert (HfrC : forall k pp, Forall (rep hX pp) k -> (forall x, In x (flat_map addrs k) -> In x (flat_map addrs cs)) -> Forall (rep hF pp) k).
  { intros k pp Hk Hsub. eapply Forall_rep_frame; [|exact Hk]. intros x Hx. apply Hfo. intro E; subst x.
    apply (Hdisj b (Hsub b Hx)). now left. }
  unfold zrep. cbn [paddr]. split; [|split; [|split; [|split]]].
  - apply rep_unfold. split; [unfold node_of; rewrite cptrs_app; exact Hfb|].
    apply Forall_app. split.
    + eapply Forall_rep_frame; [|exact Hl]. intros x Hx. apply Hold'. apply in_or_app. now left.
    + constructor; [|constructor].
      * apply rep_unfold. split; [rewrite Hfo by lia; exact Ha1|]. apply HfrC; [exact Hc1|intros x Hx; eapply in_flat_firstn; eauto].
      * apply rep_unfold. split; [rewrite Hfo by lia; exact Ha2|]. apply HfrC; [exact Hc2|intros x Hx; eapply in_flat_skipn; eauto].
      * eapply Forall_rep_frame; [|exact Hr]. intros x Hx. apply Hold'. apply in_or_app. right. apply in_or_app. now left.
  - eapply crep_frame; [|exact Hc]. intros x Hx. apply Hold'. apply in_or_app. right. apply in_or_app. now right.
  - cbn [addrs]. rewrite flat_map_app. cbn [flat_map addrs].
    match goal with |- NoDup ?L =>
      replace L with ((b :: flat_map addrs ls) ++ (hnext h :: flat_map addrs (firstn (S mid) cs) ++ S (hnext h) :: flat_map addrs (skipn (S mid) cs)) ++ (flat_map addrs rs ++ caddrs c))
        by (repeat (progress (cbn [app]; rewrite <- ?app_assoc)); reflexivity)
    end.
    rewrite <- flat_firstn_skipn with (k := S mid) in Hndc, Hltc, Hdisj.
    apply NoDup_insert_mid.
    + exact Hndb.
    + apply NoDup_app_iff in Hndc. destruct Hndc as (Hn1 & Hn2 & Hd12).
      constructor.
      { intro H. apply in_app_or in H. destruct H as [H|[E|H]]; [| lia |]; [assert (Hx := Hltc _ (in_or_app _ _ _ (or_introl H)))|assert (Hx := Hltc _ (in_or_app _ _ _ (or_intror H)))]; lia. }
      apply NoDup_app_iff. split; [exact Hn1|]. split.
      { constructor; [|exact Hn2]. intro H. assert (Hx := Hltc _ (in_or_app _ _ _ (or_intror H))). lia. }
      intros x H1 [E|H2]; [assert (Hx := Hltc _ (in_or_app _ _ _ (or_introl H1))); lia|exact (Hd12 x H1 H2)].
    + intros x Hx Hy. assert (Hlx : (x < hnext h)%nat) by (apply Hltb; exact Hy).
      destruct Hx as [E|Hx]; [lia|]. apply in_app_or in Hx. destruct Hx as [Hx|[E|Hx]]; [|lia|].
      * apply (Hdisj x); [apply in_or_app; now left|exact Hy].
      * apply (Hdisj x); [apply in_or_app; now right|exact Hy].
  - exact HokF.
  - exact Hroot.
Qed.

(* ---------- split: the whole bottom-up pass ---------- *)
Lemma cwid_head : forall b es ls rs c, (length es <= cwid (PF b es ls rs :: c))%nat /\ (cwid c <= cwid (PF b es ls rs :: c))%nat.
Proof. intros. cbn [cwid]. lia. Qed.

Lemma erase_half1 : forall a es cs k j, erase (PN a (firstn k es) (firstn j cs)) = BT.N (firstn k es) (firstn j (map erase cs)).
Proof. intros. cbn [erase]. now rewrite firstn_map. Qed.
Lemma erase_half2 : forall a es cs k j, erase (PN a (skipn k es) (skipn j cs)) = BT.N (skipn k es) (skipn j (map erase cs)).
Proof. intros. cbn [erase]. now rewrite skipn_map. Qed.

(* OBLIGATION *)
Theorem split_correct : forall mag (m : nat), (3 <= m)%nat -> forall ctx s fuel n h tr,
  zrep h tr ctx s -> cwf ctx -> (pchildren s = [] \/ length (pchildren s) = S (length (pentries s))) ->
  G.Tree_m tr = Z.of_nat m ->
  climb_ok m (G.Tree_Comparator tr) (map eframe ctx) (BT.maybe_split m (erase s)) ->
  (2 * length ctx + cwid ctx + 1 <= fuel)%nat ->
  exists h' tr',
    G.split mag fuel n h tr (Some (paddr s)) =
      Some ((n + climb_cost m (G.Tree_Comparator tr) (map eframe ctx) (BT.maybe_split m (erase s)))%nat, h', tr') /\
    brepr h' (G.Tree_Root tr') None (finish m (map eframe ctx) (BT.maybe_split m (erase s))) /\ heap_ok h' /\
    G.Tree_size tr' = G.Tree_size tr /\ G.Tree_m tr' = G.Tree_m tr /\ G.Tree_Comparator tr' = G.Tree_Comparator tr.
Proof.
  intros mag m H3. induction ctx as [|[b pes ls rs] c IH]; intros [a es cs] fuel n h tr Hz Hcwf Hwf Hm Hclimb Hfuel;
    cbn [pchildren pentries paddr] in *.
  - (* the focus is the root *)
    destruct fuel as [|fuel]; [lia|]. pose proof Hz as (Hrep & _ & Hnd & Hok & Hroot). cbn [croot paddr cparent] in *.
    cbn [G.split].
    destruct (node_tests_correct h tr (Some a) _ es (cptrs cs) m (rep_deref _ _ _ _ _ Hrep) eq_refl eq_refl Hm ltac:(lia)) as (_ & -> & _).
    cbn [erase BT.maybe_split map]. destruct (BT.maxEntries m <? length es)%nat eqn:Elt.
    + cbn [negb]. rewrite Hroot, ptr_eqb_refl.
      assert (Hmidlt : (BT.middle m < length es)%nat) by (unfold BT.middle, BT.maxEntries in *; pose proof (Nat.div_le_upper_bound (m - 1) 2 (m - 1)); lia).
      destruct (nth_error es (BT.middle m)) as [emid|] eqn:Emid; [|apply nth_error_None in Emid; lia].
      destruct (splitRoot_spec h tr a es cs m emid Hz Hm H3 Emid Hwf) as (h' & -> & Hz').
      exists h', (G.Tree_set_Root tr (Some (S (S (hnext h))))). cbn [climb_cost finish map]. rewrite Nat.add_0_r.
      split; [reflexivity|]. destruct Hz' as (Hrep' & _ & Hnd' & Hok' & Hroot'). cbn [caddrs] in Hnd'. rewrite app_nil_r in Hnd'.
      split; [|split; [exact Hok'|repeat split]].
      eexists. split; [|split; [exact Hroot'|split; [exact Hrep'|exact Hnd']]].
      cbn [erase map]. now rewrite !firstn_map, !skipn_map.
    + cbn [negb climb_cost finish map]. rewrite Nat.add_0_r. exists h, tr. split; [reflexivity|].
      cbn [caddrs] in Hnd. rewrite app_nil_r in Hnd. split; [|split; [exact Hok|repeat split]].
      exists (PN a es cs). split; [reflexivity|split; [exact Hroot|split; [exact Hrep|exact Hnd]]].
  - (* the focus has a parent *)
    cbn [length] in Hfuel. destruct fuel as [|fuel]; [lia|]. pose proof Hz as (Hrep & Hcr & Hnd & Hok & Hroot). cbn [croot paddr cparent] in *.
    cbn [G.split]. fold (G.splitNonRoot mag).
    destruct (node_tests_correct h tr (Some a) _ es (cptrs cs) m (rep_deref _ _ _ _ _ Hrep) eq_refl eq_refl Hm ltac:(lia)) as (_ & -> & _).
    cbn [erase BT.maybe_split map eframe] in *. destruct (BT.maxEntries m <? length es)%nat eqn:Elt.
    + cbn [negb]. rewrite Hroot.
      assert (Hne : ptr_eqb (Some a) (Some (croot c b)) = false).
      { apply ptr_eqb_neq. intro E0. assert (E : a = croot c b) by congruence. cbn [addrs app caddrs] in Hnd. apply NoDup_cons_iff in Hnd. destruct Hnd as [Hna _].
        apply Hna. apply in_or_app. right. pose proof (croot_in c b) as Hin. rewrite <- E in Hin. cbn [In] in Hin |- *.
        destruct Hin as [Hin|Hin]; [left; exact Hin|right]. apply in_or_app. right. apply in_or_app. now right. }
      rewrite Hne.
      assert (Hmidlt : (BT.middle m < length es)%nat) by (unfold BT.middle, BT.maxEntries in *; pose proof (Nat.div_le_upper_bound (m - 1) 2 (m - 1)); lia).
      destruct (nth_error es (BT.middle m)) as [emid|] eqn:Emid; [|apply nth_error_None in Emid; lia].
      cbn [climb_ok climb_cost finish] in *. destruct Hclimb as [Hpos Hclimb]. rewrite map_length in Hpos.
      inversion Hcwf as [|? ? Hwfh Hcwf']; subst.
      destruct (cwid_head b pes ls rs c) as [Hw1 Hw2].
      destruct fuel as [|fuel]; [lia|].
      destruct (splitNonRoot_step mag m h tr a es cs b pes ls rs c emid fuel n H3 Hz Hm Emid Hwf Hwfh Hpos) as (h1 & -> & Hz1).
      { pose proof (search_c_le_len (G.Tree_Comparator tr) (fst emid) pes). lia. }
      cbn [up] in *. rewrite map_length in *.
      set (s1 := PN b (insert_at (length ls) emid pes) _) in Hz1.
      assert (Es1 : erase s1 = BT.N (insert_at (length ls) emid pes)
                 (map erase ls ++ BT.N (firstn (BT.middle m) es) (firstn (S (BT.middle m)) (map erase cs))
                             :: BT.N (skipn (S (BT.middle m)) es) (skipn (S (BT.middle m)) (map erase cs)) :: map erase rs)).
      { unfold s1. cbn [erase]. rewrite map_app. cbn [map erase]. now rewrite !firstn_map, !skipn_map. }
      destruct (IH s1 fuel (n + search_c (G.Tree_Comparator tr) (fst emid) pes)%nat h1 tr Hz1 Hcwf') as (h' & tr' & Hrun & Hres).
      { right. unfold s1. cbn [pchildren pentries]. rewrite app_length. cbn [length]. unfold BT.insert_at.
        rewrite app_length. cbn [length]. rewrite firstn_length, skipn_length. lia. }
      { exact Hm. }
      { rewrite Es1. exact Hclimb. }
      { cbn [length] in Hfuel. lia. }
      rewrite Es1 in Hrun, Hres. unfold s1 in Hrun. cbn [paddr] in Hrun. rewrite Hrun.
      exists h', tr'. rewrite Nat.add_assoc. split; [reflexivity|exact Hres].
    + cbn [negb]. exists h, tr. rewrite climb_cost_IOk, finish_IOk, Nat.add_0_r. split; [reflexivity|].
      split; [|split; [exact Hok|repeat split]].
      destruct (zrep_close _ _ _ _ Hz) as (pt & He & Hr & Hrp & Hn & _). exists pt. rewrite He. cbn [map eframe erase].
      split; [reflexivity|split; [exact Hr|split; [exact Hrp|exact Hn]]].
Qed.
Print Assumptions split_correct.
