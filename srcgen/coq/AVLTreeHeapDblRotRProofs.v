(* doublerot(-1, s) of the AVL tree in tree pointer mode (no obligations; see AVLTreeHeapDblRotProofs.v) *)
From Coq Require Import ZArith List Lia Bool Arith ZifyBool ZifyNat.
From Gods Require Import Common.Cmp Model.AVLTree Proofs.AVLInv.
From GodsGenProofs Require Import GoCmp GoTreeHeap GoTreeLink AVLTreeHeapRep AVLTreeHeapWriteLemmas AVLTreeHeapRotProofs.
From GodsGen Require AVLTreeHeapGen.
Import ListNotations.
Local Open Scope Z_scope.

Lemma doublerot_R : forall h pp sa sb sr sk sv ra rb pa pb pl pk pv pr rk rv rl,
  let S0 := PT sa sb (PT ra rb rl rk rv (PT pa pb pl pk pv pr)) sk sv sr in
  rep h pp S0 -> NoDup (addrs S0) ->
  exists h', G.doublerot h (-1) (Some sa) = Some (h', Some pa) /\
    rep h' pp (PT pa 0 (PT ra (snd (dbl_bs (-1) pb)) rl rk rv pl) pk pv (PT sa (fst (dbl_bs (-1) pb)) pr sk sv sr)) /\
    hnext h' = hnext h /\ (forall z, ~ In z (addrs S0) -> hread h' z = hread h z).
Proof.
  intros h pp sa sb sr sk sv ra rb pa pb pl pk pv pr rk rv rl S0 Hrep Hnd. subst S0.
  pose proof Hrep as Hrep0. simpl in Hrep. destruct Hrep as (Hs & HR & Hsr). pose proof Hnd as Hnd0. nd_facts Hnd.
  assert (HndR : NoDup (addrs (PT ra rb rl rk rv (PT pa pb pl pk pv pr)))) by (autorewrite with nd; repeat split; nd_auto).
  destruct (rotate_L h (Some sa) ra rb rl rk rv pa pb pl pk pv pr HR HndR) as (h1 & E1 & Hrep1 & Hn1 & Hfr1).
  assert (Hs1 : hread h1 sa = hread h sa) by (apply Hfr1; autorewrite with nd; repeat split; nd_auto).
  rewrite Hs in Hs1.
  assert (Hsr1 : rep h1 (Some sa) sr).
  { eapply rep_frame; [|exact Hsr]. intros x Hx. apply Hfr1. autorewrite with nd. repeat split; nd_auto. }
  unfold G.doublerot. csim. rewrite E1. csim.
  set (h2 := hset h1 sa _).
  assert (Hn2 : hnext h2 = hnext h1) by reflexivity.
  assert (Hrep2 : rep h2 pp (PT sa sb (PT pa pb (PT ra rb rl rk rv pl) pk pv pr) sk sv sr)).
  { subst h2. apply rep_PT_intro; [csim; reflexivity| |rep_tac].
    eapply rep_frame; [|exact Hrep1]. intros x Hx. rewrite hread_hset.
    assert (x <> sa) by (intros ->; in_cases Hx). eqb_simpl. reflexivity. }
  assert (Hnd2 : NoDup (addrs (PT sa sb (PT pa pb (PT ra rb rl rk rv pl) pk pv pr) sk sv sr))) by (autorewrite with nd; repeat split; nd_auto).
  destruct (rotate_R h2 pp sa sb sr sk sv pa pb (PT ra rb rl rk rv pl) pk pv pr Hrep2 Hnd2) as (h3 & E3 & Hrep3 & Hn3 & Hfr3).
  rewrite E3. simpl in Hrep3. destruct Hrep3 as (Hp3 & (Hr3 & Hrl3 & Hpl3) & (Hs3 & Hpr3 & Hsr3)).
  unfold dbl_bs. csim. destruct (pb =? -1) eqn:Epb; [|destruct (pb =? 1) eqn:Epb2]; csim.
  all: eexists; (split; [reflexivity|]); (split; [rep_tac|]); (split; [cbn [hnext hset]; congruence|]).
  all: intros z Hz; nd_facts Hz; repeat (rewrite hread_hset; eqb_simpl); rewrite Hfr3 by (autorewrite with nd; repeat split; nd_auto);
       subst h2; rewrite hread_hset; eqb_simpl; apply Hfr1; autorewrite with nd; repeat split; nd_auto.
Qed.
