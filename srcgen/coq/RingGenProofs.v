(* The Gallina regenerated from queues/circularbuffer/circularbuffer.go (GodsGen.RingGen, written by
   /verif/srcgen on every run) equals the hand-written model Model/Ring.v under the representation
   relation [ring_rel] -- one equivalence theorem per translated function -- and therefore every
   theorem of Proofs/RingProofs.v / Properties/C05.v about the model holds of runs of the GENERATED
   functions from the generated constructor (corollaries at the end).
   Theorems marked OBLIGATION are counted by /verif/srcgen/run.sh. *)
From Coq Require Import ZArith List Lia Bool Arith.
From Gods Require Import Common.Cmp Common.ListAux Spec.SeqSpec Spec.FifoSpec Model.Ops Model.Ring Model.Iter Model.Machine.
From Gods Require Import Proofs.RingProofs Proofs.C05Proofs.
From GodsGen Require RingGen.
From GodsGenProofs Require GenIterRun.
Import ListNotations.

Module G := RingGen.

(* ---------- the representation relation ---------- *)
Definition ring_rel (g : G.Queue) (r : ring) : Prop :=
  G.values g = rvals r /\ G.start g = Z.of_nat (rstart r) /\ G.end_ g = Z.of_nat (rend r) /\
  G.full g = rfull r /\ G.maxSize g = Z.of_nat (rmax r) /\ G.size g = Z.of_nat (rsize r).

(* Go results (value, ok) against the model's option *)
Notation opt_pair := GenIterRun.opt_pair.

(* the abstraction function: every generated state with non-negative ints represents a model state *)
Definition to_ring (g : G.Queue) : ring :=
  {| rvals := G.values g; rstart := Z.to_nat (G.start g); rend := Z.to_nat (G.end_ g); rfull := G.full g;
     rmax := Z.to_nat (G.maxSize g); rsize := Z.to_nat (G.size g) |}.

Lemma ring_rel_to_ring : forall g,
  (0 <= G.start g)%Z -> (0 <= G.end_ g)%Z -> (0 <= G.maxSize g)%Z -> (0 <= G.size g)%Z -> ring_rel g (to_ring g).
Proof.
  intros g H1 H2 H3 H4. unfold ring_rel, to_ring. cbn. rewrite !Z2Nat.id by assumption. repeat split.
Qed.

Lemma ring_rel_unique : forall g r r', ring_rel g r -> ring_rel g r' -> r = r'.
Proof.
  intros g [a b c d e f] [a' b' c' d' e' f'] H H'. unfold ring_rel in *. cbn in *.
  destruct H as (H1 & H2 & H3 & H4 & H5 & H6). destruct H' as (H1' & H2' & H3' & H4' & H5' & H6').
  f_equal; try congruence; apply Nat2Z.inj; congruence.
Qed.

(* ---------- tactics ---------- *)
Ltac zbrk :=
  repeat match goal with
  | |- context [(?a <? ?b)%Z] => destruct (Z.ltb_spec a b)
  | |- context [(?a <=? ?b)%Z] => destruct (Z.leb_spec a b)
  | |- context [(?a =? ?b)%Z] => destruct (Z.eqb_spec a b)
  | |- context [(?a <? ?b)%nat] => destruct (Nat.ltb_spec a b)
  | |- context [(?a <=? ?b)%nat] => destruct (Nat.leb_spec a b)
  | |- context [(?a =? ?b)%nat] => destruct (Nat.eqb_spec a b)
  end.

Ltac gprj := cbn [G.values G.start G.end_ G.full G.maxSize G.size
                  G.set_values G.set_start G.set_end G.set_full G.set_maxSize G.set_size
                  rvals rstart rend rfull rmax rsize fst snd] in *.

(* open a relation between a generated record and a model record, and substitute the fields *)
Ltac open_rel g r H :=
  destruct g as [gv gs ge gf gm gn]; destruct r as [vals s e f m n];
  unfold ring_rel in H; gprj; destruct H as (-> & -> & -> & -> & -> & ->).

(* ---------- the set of translated functions is the expected one ---------- *)
Module Names.
Import Coq.Strings.String.
(* OBLIGATION *)
Theorem translated_functions :
  G.translated = ["Clear"; "Dequeue"; "Empty"; "Enqueue"; "FromJSON"; "Full"; "MarshalJSON"; "New"; "Peek"; "Size"; "ToJSON"; "UnmarshalJSON"; "Values"; "calculateSize"; "withinRange"]%string
  /\ G.skipped = ["String"]%string /\ G.not_selected = [].
Proof. repeat split. Qed.
Print Assumptions translated_functions.
End Names.

(* ---------- one equivalence per function ---------- *)
(* OBLIGATION *)
Theorem Size_equiv : forall g r, ring_rel g r -> G.Size g = Z.of_nat (rsize r).
Proof. intros g r H. open_rel g r H. reflexivity. Qed.
Print Assumptions Size_equiv.

(* OBLIGATION *)
Theorem Full_equiv : forall g r, ring_rel g r -> G.Full g = rfullb r.
Proof.
  intros g r H. open_rel g r H. unfold G.Full, G.Size, rfullb. gprj. zbrk; try reflexivity; lia.
Qed.
Print Assumptions Full_equiv.

(* OBLIGATION *)
Theorem Empty_equiv : forall g r, ring_rel g r -> G.Empty g = (rsize r =? 0).
Proof.
  intros g r H. open_rel g r H. unfold G.Empty, G.Size. gprj. zbrk; try reflexivity; lia.
Qed.
Print Assumptions Empty_equiv.

(* OBLIGATION *)
Theorem withinRange_equiv : forall g r i, ring_rel g r -> G.withinRange g i = inrange (Z.of_nat (rsize r)) i.
Proof. intros g r i H. open_rel g r H. reflexivity. Qed.
Print Assumptions withinRange_equiv.

(* OBLIGATION *)
Theorem calculateSize_equiv : forall g r, ring_rel g r -> rstart r <= rmax r -> G.calculateSize g = Z.of_nat (calc r).
Proof.
  intros g r H Hs. open_rel g r H. unfold G.calculateSize, calc. gprj.
  destruct f; zbrk; try lia; reflexivity.
Qed.
Print Assumptions calculateSize_equiv.

(* OBLIGATION *)
Theorem Dequeue_equiv : forall g r, ring_rel g r ->
  ring_rel (fst (G.Dequeue g)) (fst (rdeq r)) /\ snd (G.Dequeue g) = opt_pair (snd (rdeq r)).
Proof.
  intros g r H. open_rel g r H. unfold G.Dequeue, G.Empty, G.Size, rdeq, ring_rel, opt_pair. gprj.
  destruct (Z.eqb_spec (Z.of_nat n) 0) as [E|E]; destruct (Nat.eqb_spec n 0) as [E'|E']; try lia; gprj.
  - repeat split.
  - rewrite Nat2Z.id.
    destruct (Z.leb_spec (Z.of_nat m) (Z.of_nat s + 1)) as [L|L]; destruct (Nat.leb_spec m (s + 1)) as [L'|L']; try lia;
      gprj; repeat split; lia.
Qed.
Print Assumptions Dequeue_equiv.

(* OBLIGATION *)
Theorem Peek_equiv : forall g r, ring_rel g r -> G.Peek g = opt_pair (rpeek r).
Proof.
  intros g r H. open_rel g r H. unfold G.Peek, G.Empty, G.Size, rpeek, opt_pair. gprj.
  destruct (Z.eqb_spec (Z.of_nat n) 0) as [E|E]; destruct (Nat.eqb_spec n 0) as [E'|E']; try lia; try reflexivity.
  now rewrite Nat2Z.id.
Qed.
Print Assumptions Peek_equiv.

(* OBLIGATION *)
Theorem Clear_equiv : forall g r, ring_rel g r -> ring_rel (fst (G.Clear g)) (rclear r).
Proof.
  intros g r H. open_rel g r H. unfold G.Clear, rclear, rinit, ring_rel. gprj.
  rewrite Nat2Z.id. repeat split.
Qed.
Print Assumptions Clear_equiv.

(* OBLIGATION *)
Theorem Enqueue_equiv : forall g r v, ring_rel g r -> ring_inv r -> ring_rel (fst (G.Enqueue g v)) (renq v r).
Proof.
  intros g r v H Hinv.
  assert (HF := Full_equiv g r H).
  destruct (Dequeue_equiv g r H) as [HD _].
  unfold G.Enqueue. rewrite HF. unfold renq, rfullb in *.
  (* the state after the optional Dequeue *)
  set (g1 := if rsize r =? rmax r then let '(q, (_, _)) := G.Dequeue g in q else g).
  set (r1 := if rsize r =? rmax r then fst (rdeq r) else r).
  assert (H1 : ring_rel g1 r1).
  { subst g1 r1. destruct (rsize r =? rmax r); [|exact H].
    destruct (G.Dequeue g) as [q [x b]]. exact HD. }
  assert (Hinv1 : ring_inv r1).
  { subst r1. destruct (rsize r =? rmax r); [now apply rdeq_inv|exact Hinv]. }
  clearbody g1 r1. clear H HF HD Hinv g r.
  destruct Hinv1 as (Hs & He & Hl & _).
  open_rel g1 r1 H1. unfold ring_rel, G.calculateSize, calc. gprj.
  rewrite Nat2Z.id.
  destruct (Z.leb_spec (Z.of_nat m) (Z.of_nat e + 1)) as [L|L]; destruct (Nat.leb_spec m (e + 1)) as [L'|L']; try lia; gprj.
  - destruct (Z.eqb_spec 0 (Z.of_nat s)) as [E|E]; destruct (Nat.eqb_spec 0 s) as [E'|E']; try lia; gprj;
      repeat split; try lia; destruct f; zbrk; try lia; reflexivity.
  - destruct (Z.eqb_spec (Z.of_nat e + 1) (Z.of_nat s)) as [E|E]; destruct (Nat.eqb_spec (e + 1) s) as [E'|E']; try lia; gprj;
      repeat split; try lia; destruct f; zbrk; try lia; reflexivity.
Qed.
Print Assumptions Enqueue_equiv.

(* Values(): the counted loop is a fold of positional stores into a fresh slice *)
Lemma set_at_length : forall (a : list Z) x b v, set (a ++ x :: b) (length a) v = a ++ v :: b.
Proof.
  induction a as [|y a IH]; intros x b v; cbn [app length set]; [reflexivity|]. now rewrite IH.
Qed.

Lemma fill_fold : forall (f : nat -> Z) k (l : list Z), k <= length l ->
  fold_left (fun vs i => set vs i (f i)) (seq 0 k) l = map f (seq 0 k) ++ skipn k l.
Proof.
  intros f k. induction k as [|k IH]; intros l Hk; [reflexivity|].
  rewrite seq_S, fold_left_app, map_app. cbn [fold_left map Nat.add].
  rewrite IH by lia.
  assert (Hs : exists x rest, skipn k l = x :: rest /\ skipn (S k) l = rest).
  { clear IH. revert l Hk. induction k as [|k IH]; intros [|x l] Hk; cbn [length] in Hk; try lia.
    - exists x, l. split; reflexivity.
    - cbn [skipn]. apply IH. lia. }
  destruct Hs as (x & rest & -> & ->).
  replace k with (length (map f (seq 0 k))) at 2 by now rewrite map_length, seq_length.
  rewrite set_at_length, <- app_assoc. reflexivity.
Qed.

(* OBLIGATION *)
Theorem Values_equiv : forall g r, ring_rel g r -> G.Values g = rvalues r.
Proof.
  intros g r H. open_rel g r H. unfold G.Values, G.Size, rvalues. gprj.
  rewrite Nat2Z.id.
  set (F := fun i : nat => get vals ((s + i) mod m)).
  transitivity (fold_left (fun vs i => set vs i (F i)) (seq 0 n) (repeat 0%Z n)).
  - generalize (repeat 0%Z n) as acc. generalize (seq 0 n) as l.
    induction l as [|i l IH]; intros acc; cbn [map fold_left]; [reflexivity|].
    rewrite IH. f_equal. rewrite Nat2Z.id. f_equal. subst F. cbn beta. f_equal.
    rewrite <- Nat2Z.inj_add.
    destruct m as [|m'].
    + cbn [Z.of_nat]. rewrite Z.rem_0_r_ext by reflexivity. cbn [Nat.modulo]. now rewrite Nat2Z.id.
    + rewrite Z.rem_mod_nonneg by lia.
      rewrite <- Nat2Z.inj_mod. now rewrite Nat2Z.id.
  - rewrite fill_fold by (rewrite repeat_length; lia).
    rewrite skipn_all2 by (rewrite repeat_length; lia). now rewrite app_nil_r.
Qed.
Print Assumptions Values_equiv.

(* OBLIGATION *)
Theorem New_equiv : forall c,
  ((1 <= c)%Z -> exists g, G.New c = Some g /\ ring_rel g (rinit (Z.to_nat c))) /\
  ((c < 1)%Z -> G.New c = None).                         (* the documented panic = the model's StCrash *)
Proof.
  intros c. unfold G.New. destruct (Z.ltb_spec c 1) as [L|L]; split; intros Hc; try lia; try reflexivity.
  eexists. split; [reflexivity|].
  unfold G.Clear, rinit, ring_rel. gprj. rewrite Z2Nat.id by lia. repeat split.
Qed.
Print Assumptions New_equiv.

(* ====================== corollaries: the model's theorems, for the generated code ====================== *)

(* the ring invariant, on the Go fields *)
Definition gen_inv (g : G.Queue) : Prop :=
  (0 <= G.start g < G.maxSize g)%Z /\ (0 <= G.end_ g < G.maxSize g)%Z /\
  Z.of_nat (length (G.values g)) = G.maxSize g /\ G.size g = G.calculateSize g /\
  (0 <= G.size g <= G.maxSize g)%Z /\ (G.full g = true <-> G.size g = G.maxSize g) /\
  (G.full g = true -> G.end_ g = G.start g) /\ (0 < G.maxSize g)%Z.

Lemma gen_inv_of_rel : forall g r, ring_rel g r -> ring_inv r -> gen_inv g.
Proof.
  intros g r H Hinv.
  assert (Hc := calculateSize_equiv g r H).
  destruct Hinv as (Hs & He & Hl & Hn & Hle & Hf & Hfe & Hm).
  unfold gen_inv. rewrite Hc by lia. clear Hc.
  open_rel g r H. gprj.
  repeat split; try lia.
  - intros Hx. apply Hf in Hx. lia.
  - intros Hx. apply Hf. lia.
  - intros Hx. apply Hfe in Hx. lia.
Qed.

(* runs of the generated functions *)
Inductive gop := GEnqueue (v : Z) | GDequeue | GClear.
Definition gen_step (g : G.Queue) (o : gop) : G.Queue :=
  match o with
  | GEnqueue v => fst (G.Enqueue g v)
  | GDequeue => fst (G.Dequeue g)
  | GClear => fst (G.Clear g)
  end.
Definition gen_run (g : G.Queue) (ops : list gop) : G.Queue := fold_left gen_step ops g.
Definition to_op (o : gop) : op := match o with GEnqueue v => Enqueue v | GDequeue => Dequeue | GClear => Clear end.

Lemma step_ring : forall c r o, ckind c = CircularBuffer ->
  fst (fst (step c (StRing r) (to_op o))) =
  StRing (match o with GEnqueue v => renq v r | GDequeue => fst (rdeq r) | GClear => rclear r end).
Proof.
  intros c r [v| |] Hk; unfold step, to_op; rewrite ?Hk; try reflexivity.
  destruct (rdeq r) as [r' x]. reflexivity.
Qed.

Lemma gen_step_rel : forall g r o, ring_rel g r -> ring_inv r ->
  let r' := match o with GEnqueue v => renq v r | GDequeue => fst (rdeq r) | GClear => rclear r end in
  ring_rel (gen_step g o) r' /\ ring_inv r'.
Proof.
  intros g r [v| |] H Hinv; cbn [gen_step]; split.
  - now apply Enqueue_equiv.
  - now apply renq_inv.
  - now apply Dequeue_equiv.
  - now apply rdeq_inv.
  - now apply Clear_equiv.
  - now apply rclear_inv.
Qed.

(* the simulation: a run of the generated functions from New(cap) is, step by step, the run of the
   model machine on the same operations *)
(* OBLIGATION *)
Theorem gen_run_simulates : forall c g0, ckind c = CircularBuffer -> (1 <= ccap c)%Z -> G.New (ccap c) = Some g0 ->
  forall ops, exists r,
    run c (map to_op ops) = StRing r /\ ring_rel (gen_run g0 ops) r /\
    ring_inv r /\ rmax r = cap_of c /\ rvalues r = abs_run c (map to_op ops).
Proof.
  intros c g0 Hk Hcap HN ops.
  destruct (ring_run c Hk Hcap (map to_op ops)) as (r & Hr & Hi & Hm & Hq).
  exists r. split; [exact Hr|]. split; [|split; [exact Hi|split; [exact Hm|exact Hq]]].
  clear Hq Hm Hi. revert r Hr.
  induction ops as [|o ops IH] using rev_ind; intros r Hr.
  - cbn in Hr. unfold run, run_from in Hr. cbn [fold_left] in Hr.
    rewrite (init_ring c Hk (ring_config c Hk Hcap)) in Hr. injection Hr as <-.
    destruct (New_equiv (ccap c)) as [HN1 _]. destruct (HN1 Hcap) as (g & Hg & Hrel).
    rewrite HN in Hg. injection Hg as ->. exact Hrel.
  - rewrite map_app in Hr. cbn [map] in Hr. rewrite run_snoc in Hr.
    destruct (ring_run c Hk Hcap (map to_op ops)) as (r0 & Hr0 & Hi0 & _ & _).
    rewrite Hr0, (step_ring c r0 o Hk) in Hr. injection Hr as <-.
    unfold gen_run. rewrite fold_left_app. cbn [fold_left].
    apply (gen_step_rel _ r0 o (IH r0 Hr0) Hi0).
Qed.
Print Assumptions gen_run_simulates.

(* the ring invariant holds of every state the generated functions reach *)
(* OBLIGATION *)
Theorem gen_invariant : forall cap g0, (1 <= cap)%Z -> G.New cap = Some g0 ->
  forall ops, gen_inv (gen_run g0 ops).
Proof.
  intros cap g0 Hcap HN ops.
  set (c := {| ckind := CircularBuffer; kcmp := CNat; vcmp := CNat; ccap := cap; corder := 3%Z; cuni := 3%Z |}).
  destruct (gen_run_simulates c g0 eq_refl Hcap HN ops) as (r & _ & Hrel & Hi & _).
  exact (gen_inv_of_rel _ r Hrel Hi).
Qed.
Print Assumptions gen_invariant.

(* C05: Values() of the generated code is the bounded FIFO content (abs_run: enqueue = keep the last
   cap of q ++ [x], dequeue = drop the head), Size() is its length, Full() iff Size() = capacity,
   Dequeue / Peek return its head *)
(* OBLIGATION *)
Theorem gen_C05_refines : forall c g0, ckind c = CircularBuffer -> (1 <= ccap c)%Z -> G.New (ccap c) = Some g0 ->
  forall ops,
    let g := gen_run g0 ops in
    let q := abs_run c (map to_op ops) in
    G.Values g = q /\
    G.Size g = Z.of_nat (length q) /\
    length q <= cap_of c /\
    snd (G.Dequeue g) = opt_pair (hd_error q) /\
    G.Values (fst (G.Dequeue g)) = tl q /\
    G.Peek g = opt_pair (hd_error q) /\
    (forall v, G.Values (fst (G.Enqueue g v)) = lastn (cap_of c) (q ++ [v])) /\
    G.Values (fst (G.Clear g)) = [].
Proof.
  intros c g0 Hk Hcap HN ops g q. subst g q.
  destruct (gen_run_simulates c g0 Hk Hcap HN ops) as (r & _ & Hrel & Hi & Hm & Hq).
  rewrite <- Hq, <- Hm.
  destruct (Dequeue_equiv _ r Hrel) as [HD1 HD2].
  pose proof (rdeq_abs r Hi) as HDA.
  refine (conj _ (conj _ (conj _ (conj _ (conj _ (conj _ (conj _ _))))))).
  - now apply Values_equiv.
  - rewrite (Size_equiv _ r Hrel). now rewrite rvalues_length.
  - now apply rvalues_bounded.
  - rewrite HD2. destruct (rvalues r) as [|y q'].
    + now rewrite HDA.
    + destruct HDA as (r' & -> & _). reflexivity.
  - rewrite (Values_equiv _ _ HD1). destruct (rvalues r) as [|y q'] eqn:E.
    + rewrite HDA. cbn [fst tl]. exact E.
    + destruct HDA as (r' & -> & Hq'). exact Hq'.
  - rewrite (Peek_equiv _ r Hrel). now rewrite rpeek_abs.
  - intros v. rewrite (Values_equiv _ _ (Enqueue_equiv _ r v Hrel Hi)). now apply renq_abs.
  - rewrite (Values_equiv _ _ (Clear_equiv _ r Hrel)). reflexivity.
Qed.
Print Assumptions gen_C05_refines.

(* C05_full: Full() holds exactly when Size() == capacity, i.e. when the content has cap elements *)
(* OBLIGATION *)
Theorem gen_C05_full : forall c g0, ckind c = CircularBuffer -> (1 <= ccap c)%Z -> G.New (ccap c) = Some g0 ->
  forall ops,
    let g := gen_run g0 ops in
    G.Full g = (length (abs_run c (map to_op ops)) =? cap_of c) /\
    G.Full g = (G.Size g =? ccap c)%Z /\
    G.Full g = G.full g /\
    G.maxSize g = ccap c.
Proof.
  intros c g0 Hk Hcap HN ops g. subst g.
  destruct (gen_run_simulates c g0 Hk Hcap HN ops) as (r & Hrun & Hrel & Hi & Hm & Hq).
  destruct (C05_full c Hk Hcap (map to_op ops)) as (r' & Hrun' & HF1 & HF2 & _).
  rewrite Hrun in Hrun'. injection Hrun' as <-.
  rewrite (Full_equiv _ r Hrel).
  assert (HM : G.maxSize (gen_run g0 ops) = ccap c).
  { destruct Hrel as (_ & _ & _ & _ & -> & _). rewrite Hm. unfold cap_of. lia. }
  refine (conj _ (conj _ (conj _ _))).
  - exact HF1.
  - rewrite HF2. rewrite Hrun. unfold size_of. now rewrite (Size_equiv _ r Hrel).
  - rewrite <- (rfull_flag r Hi). symmetry. apply Hrel.
  - exact HM.
Qed.
Print Assumptions gen_C05_full.
