(* END-TO-END COROLLARY, property C15 (Properties/C15.v) on the GENERATED pointer code of trees/redblacktree: after ANY generated
   run (EndToEndRB.rb_gen_run), Size() is not negative, Empty() holds exactly when Size() = 0, len(Keys()) = len(Values()) = Size();
   the generated Clear() leaves a header that represents the machine's [init c] (the state after the machine's Clear step,
   C15_clear_is_init) with the comparator kept, and ANY further generated run from the cleared state makes exactly the comparator
   calls of, and represents the same tree as, the same run from the generated constructor, which is the machine's
   run (ops ++ Clear :: more) = run more (C15_clear_then). *)
From Coq Require Import ZArith List Lia Bool Arith.
From Gods Require Import Common.Cmp Model.Ops Model.Machine Model.RBTree.
From Gods Require Proofs.RBInv Proofs.MachineInv Proofs.IterTreeRB.
From GodsGen Require RedBlackTreeHeapGen.
From GodsGenProofs Require Import GoCmp GoTreeHeap RBTreeHeapRep.
From GodsGenProofs Require Import RedBlackTreeHeapReadProofs RedBlackTreeHeapKeysProofs RedBlackTreeHeapInsertProofs RedBlackTreeHeapRemoveProofs EndToEndRB.
Import ListNotations.
Local Open Scope Z_scope.

Lemma rb_config_ok : forall c, ckind c = RedBlackTree -> MachineInv.config_ok c.
Proof. intros c K. split; intros Q; rewrite K in Q; discriminate Q. Qed.

(* OBLIGATION *)
Theorem gen_rb_size_empty_clear : forall mag c ops more fuel, ckind c = RedBlackTree ->
  (3 * (length ops + length more) + 6 <= fuel)%nat ->
  exists ncmp h tr n, rb_gen_run mag (kc c) fuel ops = Some (ncmp, h, tr) /\
    G.Tree_Size h tr = Some n /\ 0 <= n /\ n = size_of c (run c (map to_op ops)) /\ G.Empty h tr = Some (n =? 0) /\
    (exists ks vs, G.Keys fuel h tr = Some ks /\ G.Values fuel h tr = Some vs /\ Z.of_nat (length ks) = n /\ Z.of_nat (length vs) = n) /\
    exists tr', G.Clear h tr = Some tr' /\ tree_repr h tr' RB.E /\ G.Tree_Size h tr' = Some 0 /\ G.Empty h tr' = Some true /\
      G.Tree_Comparator tr' = kc c /\
      fst (fst (step c (run c (map to_op ops)) Clear)) = StRB RB.E (G.Tree_size tr') /\ init c = StRB RB.E (G.Tree_size tr') /\
      exists h2 tr2 h3 tr3 t2 q,
        gen_ops mag fuel more (ncmp, h, tr') = Some ((ncmp + q)%nat, h2, tr2) /\
        rb_gen_run mag (kc c) fuel more = Some (q, h3, tr3) /\
        tree_repr h2 tr2 t2 /\ tree_repr h3 tr3 t2 /\ G.Tree_size tr2 = G.Tree_size tr3 /\
        run c (map to_op ops ++ Clear :: map to_op more) = StRB t2 (G.Tree_size tr2) /\
        run c (map to_op more) = StRB t2 (G.Tree_size tr2).
Proof.
  intros mag c ops more fuel K Hf.
  destruct (gen_rb_reach mag c ops fuel K ltac:(lia)) as (ncmp & h & tr & t & Hrun & Hm & Hrepr & Hok & Hcmp & Hrbt & Hsz & Hle).
  pose proof (height_le_count t) as Hh. pose proof (rb_config_ok c K) as Hc.
  exists ncmp, h, tr, (Z.of_nat (RB.count t)). split; [exact Hrun|].
  destruct (Size_Empty_correct h tr t Hsz) as (S1 & S2). split; [exact S1|]. split; [lia|]. split; [rewrite Hm; exact (eq_sym Hsz)|].
  split; [rewrite S2; destruct t; reflexivity|].
  split.
  { destruct (Keys_Values_correct h tr t fuel Hrepr Hsz ltac:(lia)) as (K1 & K2). exists (RB.keys t), (RB.values t).
    split; [exact K1|]. split; [exact K2|]. unfold RB.keys, RB.values. rewrite !map_length, IterTreeRB.RBIter.length_inorder. split; reflexivity. }
  exists (G.Tree_set_size (G.Tree_set_Root tr None) 0). split; [reflexivity|].
  assert (Hrepr' : tree_repr h (G.Tree_set_size (G.Tree_set_Root tr None) 0) RB.E) by (exists PE; split; [reflexivity|]; split; [reflexivity|]; split; [exact I|constructor]).
  split; [exact Hrepr'|]. split; [reflexivity|]. split; [reflexivity|]. split; [exact Hcmp|].
  assert (Hinit : init c = StRB RB.E 0) by (unfold init; rewrite K; reflexivity).
  split; [rewrite (MachineInv.C15_clear_is_init c _ Hc); exact Hinit|]. split; [exact Hinit|].
  destruct (gen_ops_from mag more fuel ncmp h (G.Tree_set_size (G.Tree_set_Root tr None) 0) RB.E Hrepr' Hok RBInv.rbt_E eq_refl ltac:(cbn [RB.count]; lia))
    as (h2 & tr2 & Hrun2 & R1 & R2 & R3 & R4 & R5).
  destruct (gen_ops_from mag more fuel O empty_heap (G.mkTree None 0 (kc c)) RB.E
              ltac:(exists PE; split; [reflexivity|]; split; [reflexivity|]; split; [exact I|constructor]) (@heap_ok_empty G.Node) RBInv.rbt_E eq_refl ltac:(cbn [RB.count]; lia))
    as (h3 & tr3 & Hrun3 & Q1 & Q2 & Q3 & Q4 & Q5).
  cbn [G.Tree_Comparator G.Tree_set_size G.Tree_set_Root] in *. rewrite Hcmp in *.
  exists h2, tr2, h3, tr3, (model_ops (kc c) more RB.E), (model_ops_cost (kc c) more RB.E).
  split; [exact Hrun2|]. split; [exact Hrun3|]. split; [exact R1|]. split; [exact Q1|]. split; [rewrite R4, Q4; reflexivity|].
  destruct (model_ops_machine c K more RB.E RBInv.rbt_E) as (E & _).
  assert (Em : run c (map to_op more) = StRB (model_ops (kc c) more RB.E) (G.Tree_size tr2)) by (unfold run; rewrite Hinit, R4; exact E).
  split; [rewrite (MachineInv.C15_clear_then c _ _ Hc); exact Em|exact Em].
Qed.
Print Assumptions gen_rb_size_empty_clear.

(* a concrete run (an Example; keyword Lemma so that run.py can isolate it) *)
Lemma ex_rb_c15_generated_run :
  match rb_gen_run ex_mag (kc ex_cfg) 40 ex_ops with
  | Some (ncmp, h, tr) =>
    match G.Clear h tr with
    | Some tr' =>
      Some (G.Tree_Size h tr, G.Empty h tr, option_map (@length Z) (G.Keys 40 h tr), option_map (@length Z) (G.Values 40 h tr),
            G.Tree_Size h tr', G.Empty h tr',
            match gen_ops ex_mag 40 [RPut 2 20; RPut 7 70; RPut 2 21] (ncmp, h, tr'), rb_gen_run ex_mag (kc ex_cfg) 40 [RPut 2 20; RPut 7 70; RPut 2 21] with
            | Some (n2, h2, tr2), Some (n3, h3, tr3) => Some ((n2 - ncmp)%nat, n3, G.Keys 40 h2 tr2, G.Keys 40 h3 tr3, G.Values 40 h2 tr2)
            | _, _ => None
            end)
    | None => None
    end
  | None => None
  end = Some (Some 4, Some false, Some 4%nat, Some 4%nat, Some 0, Some true, Some (3%nat, 3%nat, Some [7; 2], Some [7; 2], Some [70; 21])).
Proof. vm_compute. reflexivity. Qed.
