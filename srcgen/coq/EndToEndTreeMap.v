(* END-TO-END COROLLARIES for maps/treemap (treemap.go) COMPOSED with the generated red-black pointer code
   (TreeMapOverHeapProofs.v: GodsGen.TreeMapGen instantiated with GodsGen.RedBlackTreeHeapGen): the properties C01, C02 and C07
   of /verif/coq/theories/Properties stated directly about a run of generated TreeMap operations (Put / Remove / Clear, any
   list) from the generated NewWith(cmp), for every configuration of kind TreeMap (kc c ranges over the comparator family).
   The iterator of the TreeMap (C08) is translated over an abstract enumeration only, so it is not connected here. *)
From Coq Require Import ZArith List Lia Bool Arith Sorted SetoidList.
From Gods Require Import Common.Cmp Common.ListAux Spec.MapSpec Spec.SeqSpec Model.Ops Model.Machine Model.RBTree.
From Gods Require Proofs.RBInv Proofs.MapSpecProofs Proofs.MachineMaps Proofs.MachineTrees.
From GodsGen Require TreeMapGen RedBlackTreeHeapGen.
From GodsGenProofs Require Import GenIterRun WrapCommon GoCmp GoTreeHeap RBTreeHeapRep RBTreeHeapIface.
From GodsGenProofs Require Import RedBlackTreeHeapReadProofs RedBlackTreeHeapInsertProofs RedBlackTreeHeapRemoveProofs.
From GodsGenProofs Require TreeMapGenProofs TreeMapOverHeapProofs.
Import ListNotations.
Local Open Scope Z_scope.

Module M := TreeMapGen.
Module TM := TreeMapGenProofs.
Module TO := TreeMapOverHeapProofs.
Module MM := MachineMaps.
Module MT := MachineTrees.

Definition to_mop (o : TM.gop) : mop := match o with TM.GPut k v => MPut k v | TM.GRemove k => MRemove k | TM.GClear => MClear end.

Lemma hist_to_op : forall c ops, MM.hist c (map TM.to_op ops) = map to_mop ops.
Proof. intros c ops. unfold MM.hist. induction ops as [|[k v|k|] ops IH]; cbn [map flat_map MM.hist1 TM.to_op to_mop app]; congruence. Qed.

Lemma tm_valid : forall c, ckind c = TreeMap -> MM.valid c /\ MM.ordered_kind (ckind c) = true /\ MM.cmp_for c = kc c /\
  ckind c <> LinkedHashMap /\ ckind c <> BTree.
Proof. intros c K. unfold MM.valid, MM.cmp_for. rewrite K. repeat split; try reflexivity; discriminate. Qed.

(* the state of the composed run: never crashed; its tree's entries are the abstract map of the history *)
Lemma gen_treemap_entries : forall mag c ops, ckind c = TreeMap ->
  exists n h tr t, M.tree (TO.Ip mag) (TO.gen_run_p mag (kc c) ops) = Some (n, h, tr) /\
    run c (map TM.to_op ops) = StRB t (G.Tree_size tr) /\ tree_repr h tr t /\ heap_ok h /\ RBInv.rbt t /\
    G.Tree_size tr = Z.of_nat (RB.count t) /\ G.Tree_Comparator tr = kc c /\
    RB.inorder t = mrun (kc c) (map to_mop ops).
Proof.
  intros mag c ops K. destruct (TO.treemap_over_heap_run mag c K ops) as (n & h & tr & t & Hp & Hs & Hrepr & Hok & Hrbt & Hsz & Hc & _).
  exists n, h, tr, t. repeat (split; [assumption|]).
  destruct (tm_valid c K) as (Hv & _ & Hcf & Hl & _).
  pose proof (MM.refines_tree c (map TM.to_op ops) Hv Hl) as E. rewrite Hs, Hcf, hist_to_op in E. exact E.
Qed.

(* OBLIGATION (C01 for TreeMap over the generated pointer code) *)
Theorem gen_treemap_get_last_live : forall mag c ops, ckind c = TreeMap ->
  let hs := map to_mop ops in let es := mrun (kc c) hs in let gp := TO.gen_run_p mag (kc c) ops in
  M.tree (TO.Ip mag) gp <> None /\
  (forall k, M.Get (TO.Ip mag) gp k = match last_live (kc c) (rev hs) k with Some e => (snd e, true) | None => (0, false) end) /\
  M.Size (TO.Ip mag) gp = Z.of_nat (length es) /\ M.Empty (TO.Ip mag) gp = (Z.of_nat (length es) =? 0) /\
  M.Keys (TO.Ip mag) gp = map fst es /\ M.Values (TO.Ip mag) gp = map snd es /\
  (forall e, In e es <-> last_live (kc c) (rev hs) (fst e) = Some e) /\
  NoDupA (fun a b => kc c a b = Eq) (map fst es).
Proof.
  intros mag c ops K hs es gp.
  destruct (TO.treemap_over_heap_run mag c K ops) as (n & h & tr & t & Hp & Hs & Hrepr & Hok & Hrbt & Hsz & Hc & O1 & O2 & O3 & O4 & O5 & _).
  fold gp in Hp, O1, O2, O3, O4, O5. destruct (tm_valid c K) as (Hv & _ & Hcf & Hl & _).
  pose proof (MM.C01_size c (map TM.to_op ops) Hv) as Es. rewrite Hcf, hist_to_op in Es. fold hs in Es. fold es in Es.
  destruct (MM.C01_keys_values c (map TM.to_op ops) Hv Hl) as (Ek & Ev). rewrite Hcf, hist_to_op in Ek, Ev. fold hs in Ek, Ev. fold es in Ek, Ev.
  split; [rewrite Hp; discriminate|]. split; [|split; [rewrite O1; exact Es|split; [rewrite O2, Es; reflexivity|split; [rewrite O3; exact Ek|split; [rewrite O4; exact Ev|split]]]]].
  - intro k. pose proof (MM.C01_get c (map TM.to_op ops) k Hv) as E. rewrite Hcf, hist_to_op in E. fold hs in E.
    destruct (TO.observers_rel' mag gp _ (TO.gen_run_rel mag (kc c) ops) k) as (G1 & _). rewrite G1.
    destruct (TM.gen_run_simulates c K ops) as (Hrun & Hcmp). rewrite Hrun in E.
    destruct (TM.gen_run (kc c) ops) as [[cmp o]]. cbn [TM.M.tree fst] in Hcmp. subst cmp.
    unfold M.Get. cbn [M.tree M.tree_Get TM.I TM.on_tree fst snd]. unfold TM.st in E. cbn [M.tree snd TM.M.tree] in E.
    destruct o as [[t0 n0]|]; [|exfalso; cbn in E; destruct (last_live (kc c) (rev hs) k); discriminate].
    cbn [get_of] in E. unfold rbs_get in *. cbn -[RB.lookup last_live] in E |- *.
    destruct (RB.lookup (kc c) k t0) as [[k' v']|], (last_live (kc c) (rev hs) k) as [[k'' v'']|]; cbn in E |- *; try discriminate; [|reflexivity].
    injection E as ->. reflexivity.
  - intro e. pose proof (MM.C01_entry_iff c (map TM.to_op ops) e Hv) as E. rewrite Hcf, hist_to_op, (MM.refines_tree c _ Hv Hl), Hcf, hist_to_op in E. exact E.
  - pose proof (MM.C01_nodup c (map TM.to_op ops) Hv) as E. rewrite Hcf, Ek in E. exact E.
Qed.
Print Assumptions gen_treemap_get_last_live.

(* OBLIGATION (C02 for TreeMap over the generated pointer code): Keys() strictly ascending; Min / Max the least / greatest entry;
   Floor / Ceiling the greatest entry not above / the least entry not below the key, found exactly when there is one *)
Theorem gen_treemap_ordered : forall mag c ops, ckind c = TreeMap ->
  let es := mrun (kc c) (map to_mop ops) in let gp := TO.gen_run_p mag (kc c) ops in
  M.Keys (TO.Ip mag) gp = map fst es /\ StronglySorted (fun a b => kc c a b = Lt) (map fst es) /\
  M.Min (TO.Ip mag) gp = TM.triple (hd_error es) /\ M.Max (TO.Ip mag) gp = TM.triple (last_opt es) /\
  (forall k, M.Floor (TO.Ip mag) gp k = TM.triple (floor_list (kc c) k es) /\
     match floor_list (kc c) k es with
     | Some e => In e es /\ kc c k (fst e) <> Lt /\
                 (forall e', In e' es -> kc c k (fst e') <> Lt -> e' = e \/ kc c (fst e') (fst e) = Lt) /\
                 (forall e', In e' es -> kc c (fst e) (fst e') = Lt -> kc c k (fst e') = Lt)
     | None => forall e', In e' es -> kc c k (fst e') = Lt
     end) /\
  (forall k, M.Ceiling (TO.Ip mag) gp k = TM.triple (ceiling_list (kc c) k es) /\
     match ceiling_list (kc c) k es with
     | Some e => In e es /\ kc c k (fst e) <> Gt /\
                 (forall e', In e' es -> kc c k (fst e') <> Gt -> e' = e \/ kc c (fst e) (fst e') = Lt) /\
                 (forall e', In e' es -> kc c (fst e') (fst e) = Lt -> kc c k (fst e') = Gt)
     | None => forall e', In e' es -> kc c k (fst e') = Gt
     end).
Proof.
  intros mag c ops K es gp.
  destruct (TO.treemap_over_heap_run mag c K ops) as (n & h & tr & t & Hp & Hs & Hrepr & Hok & Hrbt & Hsz & Hc & O1 & O2 & O3 & O4 & O5 & O6 & O7 & O8).
  fold gp in Hp, O3, O6, O7, O8. destruct (tm_valid c K) as (Hv & Ho & Hcf & Hl & Hb).
  destruct (MM.C01_keys_values c (map TM.to_op ops) Hv Hl) as (Ek & _). rewrite Hcf, hist_to_op in Ek. fold es in Ek.
  pose proof (MM.refines_tree c (map TM.to_op ops) Hv Hl) as Ee. rewrite Hs, Hcf, hist_to_op in Ee. cbn [entries_of] in Ee. fold es in Ee.
  split; [rewrite O3; exact Ek|].
  split; [pose proof (MM.C02_keys_sorted c (map TM.to_op ops) Hv Ho) as E; rewrite Ek in E; exact E|].
  split; [rewrite O6; f_equal; pose proof (MM.C02_left c (map TM.to_op ops) Hv Ho) as E; rewrite Hs in E; cbn [MM.left_of entries_of] in E; rewrite Ee in E; exact E|].
  split; [rewrite O7; f_equal; pose proof (MM.C02_right c (map TM.to_op ops) Hv Ho) as E; rewrite Hs in E; cbn [MM.right_of entries_of] in E; rewrite Ee in E; exact E|].
  split; intro k; destruct (O8 k) as (F & C).
  - pose proof (MM.C02_floor c (map TM.to_op ops) k Hv Ho Hb) as E. rewrite Hs in E. cbn [MM.floor_of entries_of] in E. rewrite Ee in E.
    pose proof (MM.C02_floor_char c (map TM.to_op ops) k Hv Ho Hb) as Ch. rewrite Hs in Ch. cbn [MM.floor_of entries_of] in Ch. rewrite Ee, E in Ch.
    split; [rewrite F, E; reflexivity|exact Ch].
  - pose proof (MM.C02_ceiling c (map TM.to_op ops) k Hv Ho Hb) as E. rewrite Hs in E. cbn [MM.ceiling_of entries_of] in E. rewrite Ee in E.
    pose proof (MM.C02_ceiling_char c (map TM.to_op ops) k Hv Ho Hb) as Ch. rewrite Hs in Ch. cbn [MM.ceiling_of entries_of] in Ch. rewrite Ee, E in Ch.
    split; [rewrite C, E; reflexivity|exact Ch].
Qed.
Print Assumptions gen_treemap_ordered.

(* OBLIGATION (C07 for TreeMap over the generated pointer code; Properties/C07.v, C07_rb_inherit): the tree under the map is a
   red-black tree with the documented shape, and one more generated TreeMap.Put / Remove advances the ghost counter of
   comparator calls kept in the composed state by at most 2 log2 (n+1) + 1 / 2 log2 (n+1), n = Size().  (Get does not expose the
   counter through the wrapper's interface; its count is bounded in gen_rb_cost_bound for the tree itself.) *)
Theorem gen_treemap_cost_bound : forall mag c ops k v, ckind c = TreeMap ->
  let gp := TO.gen_run_p mag (kc c) ops in
  exists ncmp h tr t (n : nat), M.tree (TO.Ip mag) gp = Some (ncmp, h, tr) /\ tree_repr h tr t /\ RBInv.rbt t /\
    M.Size (TO.Ip mag) gp = Z.of_nat n /\ n = RB.count t /\
    (RB.height t <= 2 * Nat.log2 (n + 1))%nat /\ (RB.height t <= 2 * RB.minheight t)%nat /\ RB.col t = RB.Black /\
    (exists q h' tr', M.tree (TO.Ip mag) (fst (M.Put (TO.Ip mag) gp k v)) = Some ((ncmp + q)%nat, h', tr') /\ (q <= 2 * Nat.log2 (n + 1) + 1)%nat) /\
    (exists q h' tr', M.tree (TO.Ip mag) (fst (M.Remove (TO.Ip mag) gp k)) = Some ((ncmp + q)%nat, h', tr') /\ (q <= 2 * Nat.log2 (n + 1))%nat).
Proof.
  intros mag c ops k v K gp.
  destruct (TO.treemap_over_heap_run mag c K ops) as (n & h & tr & t & Hp & Hs & Hrepr & Hok & Hrbt & Hsz & Hc & O1 & _).
  fold gp in Hp, O1. exists n, h, tr, t, (RB.count t). split; [exact Hp|]. split; [exact Hrepr|]. split; [exact Hrbt|].
  split; [rewrite O1, Hs; cbn [size_of]; exact Hsz|]. split; [reflexivity|].
  destruct (MT.rbt_documented t Hrbt) as (D1 & D2 & D3). split; [exact D1|]. split; [exact D2|]. split; [exact D3|].
  destruct (MT.rb_cost_bounds (kc c) k t Hrbt) as (Bp & Br & _). destruct (fuel_ok tr t Hsz) as (F1 & _).
  destruct gp as [sp]. cbn [M.tree] in Hp. subst sp. split.
  - destruct (RBInv.put_rbt (kc c) k v t Hrbt) as (t' & b & Hput & _). rewrite <- Hc in Hput.
    destruct (Put_correct mag h tr t k v (fuel_of tr) n t' b Hrepr Hok Hput F1) as (h' & tr' & Hrun & _). rewrite Hc in Hrun.
    eexists _, h', tr'. split; [|exact Bp]. unfold M.Put. cbn -[G.Put fuel_of RB.put_cost]. exact Hrun.
  - destruct (RBInv.remove_rbt (kc c) k t Hrbt) as (t' & b & Hrem & _). rewrite <- Hc in Hrem.
    destruct (Remove_correct mag h tr t k (fuel_of tr) n t' b Hrepr Hok (proj1 Hrbt) Hrem F1) as (h' & tr' & Hrun & _). rewrite Hc in Hrun.
    eexists _, h', tr'. split; [|exact Br]. unfold M.Remove. cbn -[G.Remove fuel_of RB.remove_cost]. exact Hrun.
Qed.
Print Assumptions gen_treemap_cost_bound.

(* ---------- a concrete run (non-vacuity; evaluated, not proved) ---------- *)
Definition ex_mag : Z -> Z -> positive := fun _ _ => 1%positive.
Definition ex_cfg : config := {| ckind := TreeMap; kcmp := CNat; vcmp := CNat; ccap := 0; corder := 3; cuni := 6 |}.
Definition ex_ops : list TM.gop :=
  [TM.GPut 5 50; TM.GPut 3 30; TM.GPut 8 80; TM.GClear; TM.GPut 3 31; TM.GPut 9 90; TM.GPut 7 70; TM.GRemove 9; TM.GPut 1 10; TM.GRemove 4].
(* an Example (stated with the keyword Lemma so that run.py can isolate it when it fails) *)
Lemma ex_treemap_generated_run :
  let gp := TO.gen_run_p ex_mag (kc ex_cfg) ex_ops in
  (M.Size (TO.Ip ex_mag) gp, M.Keys (TO.Ip ex_mag) gp, M.Values (TO.Ip ex_mag) gp, M.Get (TO.Ip ex_mag) gp 3, M.Get (TO.Ip ex_mag) gp 5,
   M.Min (TO.Ip ex_mag) gp, M.Max (TO.Ip ex_mag) gp, M.Floor (TO.Ip ex_mag) gp 6, M.Ceiling (TO.Ip ex_mag) gp 8,
   option_map (fun s => fst (fst s)) (M.tree (TO.Ip ex_mag) gp),
   option_map (fun s => fst (fst s)) (M.tree (TO.Ip ex_mag) (fst (M.Put (TO.Ip ex_mag) gp 6 60)))) =
  (3, [1; 3; 7], [10; 31; 70], (31, true), (0, false), (1, 10, true), (7, 70, true), (3, 31, true), (0, 0, false), Some 13%nat, Some 15%nat) /\
  mrun (kc ex_cfg) (map to_mop ex_ops) = [(1, 10); (3, 31); (7, 70)] /\
  last_live (kc ex_cfg) (rev (map to_mop ex_ops)) 5 = None.
Proof. vm_compute. repeat split; reflexivity. Qed.
