(* END-TO-END COROLLARIES for trees/btree, property C07 (see EndToEndBT.v) *)
From Coq Require Import ZArith List Lia Bool Arith Sorted SetoidList.
From Gods Require Import Common.Cmp Common.ListAux Spec.MapSpec Spec.SeqSpec Model.Ops Model.Machine Model.BTree Model.BTreeCost Model.BTreeIter Model.Iter.
From Gods Require Proofs.BTreeInv Proofs.BTreeMap Proofs.BTreeBounds Proofs.BTreeCostProofs Proofs.MapSpecProofs Proofs.MachineMaps Proofs.MachineTrees
  Proofs.IterLinear Proofs.IterTreeMachine Proofs.IterTreeRB Proofs.IterTreeBT.
From GodsGen Require BTreeHeapGen.
From GodsGenProofs Require Import GoCmp GoTreeHeap GoBTreeHeap BTreeHeapRep BTreeHeapReadProofs BTreeHeapIterProofs BTreeHeapIterToProofs.
From GodsGenProofs Require Import BTreeHeapPutProofs BTreeHeapRemoveProofs EndToEndBT.
Import ListNotations.
Local Open Scope Z_scope.


(* ====================== C07 ====================== *)
(* OBLIGATION: one more generated Get / Put / Remove after ANY generated run makes q comparator calls with
   MachineTrees.bt_log_bound m n q  =  (forall L, n + 1 < ceil(m/2)^(L+1) -> q <= 4 (log2 m + 1) (L + 1))  /\  q <= 4 (log2 m + 1) log2 (n+1)
   (Properties/C07.v: C07_cost_put_remove_bt, C07_get_any_key), n = the generated Size() *)
Theorem gen_bt_cost_bound : forall mag c ops fuel k v, ckind c = BTree -> 3 <= corder c -> (4 * length ops + bt_m c + 4 <= fuel)%nat ->
  exists ncmp h tr (n : nat), bt_gen_run mag (corder c) (kc c) fuel ops = Some (ncmp, h, tr) /\
    G.Tree_Size h tr = Some (Z.of_nat n) /\ n = MT.nsize c (run c (map to_op ops)) /\
    (exists q val found, G.Get mag fuel ncmp h tr k = Some ((ncmp + q)%nat, val, found) /\
       q = MT.get_cost_of c (run c (map to_op ops)) k /\ MT.bt_log_bound (bt_m c) n q) /\
    (exists q h' tr', G.Put mag fuel ncmp h tr k v = Some ((ncmp + q)%nat, h', tr') /\
       snd (step c (run c (map to_op ops)) (Put k v)) = cost q /\ MT.bt_log_bound (bt_m c) n q) /\
    (exists q h' tr', G.Remove mag fuel ncmp h tr k = Some ((ncmp + q)%nat, h', tr') /\
       snd (step c (run c (map to_op ops)) (Remove k)) = cost q /\ MT.bt_log_bound (bt_m c) n q).
Proof.
  intros mag c ops fuel k v K Ho Hf. pose proof (MT.bt_valid_m c Ho) as H3. pose proof (MM.kc_SWO c) as Hswo.
  destruct (gen_bt_reach mag c ops fuel K Ho ltac:(lia)) as (ncmp & h & tr & ot & Hrun & Hm & Hrepr & Hok & Hcmp & Htm & Hinv & Hsort & Hmh & Hcnt).
  destruct (fuel_eq _ _ Hinv) as (Hfe & Hfl). pose proof (inv_wid _ ot H3 Hinv) as Hw. destruct (inv_size_ok _ _ _ _ Hrepr Hinv) as (Hso & Hwf).
  assert (Htm' : G.Tree_m tr = Z.of_nat (bt_m c)) by (rewrite Htm; unfold bt_m; lia).
  exists ncmp, h, tr, (bcount ot). split; [exact Hrun|].
  split; [exact (proj1 (header_correct h tr ot (bt_m c) (proj2 Hrepr) Htm' ltac:(lia)))|].
  rewrite Hm. unfold MT.nsize. cbn [size_of MT.get_cost_of]. split; [rewrite (proj2 Hrepr), Nat2Z.id; reflexivity|].
  destruct (MT.bt_cost_bounds (bt_m c) (kc c) (bt_fuel ot) k (k, v) ot H3 Hinv) as (Bp & Br & Bg).
  change (MT.bt_count ot) with (bcount ot) in *.
  split; [|split].
  - rewrite (Get_correct mag h tr ot k (bt_fuel ot) fuel ncmp (proj1 Hrepr) Hso Hwf ltac:(rewrite <- Hfe; exact Hfl) ltac:(lia)), Hcmp.
    eexists _, _, _. split; [reflexivity|]. split; [destruct ot; reflexivity|destruct ot; exact Bg].
  - destruct (BTreeInv.put_correct (bt_m c) (kc c) (k, v) ot H3 Hswo Hinv Hsort) as (ot1 & b & Hput & _). rewrite Hfe in Hput.
    rewrite <- Hcmp in Hput, Hswo, Hsort.
    destruct (Put_correct mag (bt_m c) h tr ot k v (bt_fuel ot) fuel ncmp ot1 b H3 Hswo Hok Hrepr Htm' (inv_owf _ _ _ Hinv Hsort)
                ltac:(rewrite <- Hfe; exact Hfl) Hput ltac:(lia)) as (h' & tr' & Hp & _).
    rewrite Hcmp in Hp, Hput. eexists _, h', tr'. split; [exact Hp|]. split; [|exact Bp].
    unfold step. unfold bt_put. rewrite Hput. reflexivity.
  - destruct (BTreeInv.remove_correct (bt_m c) (kc c) k ot H3 Hswo Hinv Hsort) as (ot1 & b & Hrem & _). rewrite Hfe in Hrem.
    rewrite <- Hcmp in Hrem, Hswo, Hsort.
    destruct (Remove_correct mag (bt_m c) h tr ot k (bt_fuel ot) fuel ncmp ot1 b H3 Hswo Hok Hrepr Htm' Hinv Hsort
                ltac:(rewrite <- Hfe; exact Hfl) Hrem ltac:(lia)) as (h' & tr' & Hp & _).
    rewrite Hcmp in Hp, Hrem. eexists _, h', tr'. split; [exact Hp|]. split; [|exact Br].
    unfold step. unfold bt_remove. rewrite Hrem. reflexivity.
Qed.
Print Assumptions gen_bt_cost_bound.

(* OBLIGATION: the heap after ANY generated run represents a B-tree of order m with the documented shape (Properties/C07.v,
   C07_bt_documented: at most m children and m-1 entries per node, k children => k-1 entries, at least ceil(m/2)-1 entries in
   every non-root node, all leaves at depth Height()), Size() is the number of entries, Height() the number of levels, the tree is
   empty exactly when Size() = 0, and every child's Parent pointer is the address of its parent *)
Theorem gen_bt_shape : forall mag c ops fuel, ckind c = BTree -> 3 <= corder c -> (4 * length ops + bt_m c + 3 <= fuel)%nat ->
  let m := bt_m c in
  exists ncmp h tr ot, bt_gen_run mag (corder c) (kc c) fuel ops = Some (ncmp, h, tr) /\ tree_repr h tr ot /\
    run c (map to_op ops) = StBT ot (Z.of_nat (bcount ot)) /\
    BTreeInv.btree_inv m ot /\ G.Tree_Size h tr = Some (Z.of_nat (bcount ot)) /\
    G.Height fuel h tr = Some (Z.of_nat (bmaxheight ot)) /\ (ot = None <-> bcount ot = 0%nat) /\
    match ot with
    | None => G.Tree_Root tr = None
    | Some root =>
      (forall x, In x (MT.subnodes root) ->
         (length (BT.children x) <= m)%nat /\ (length (BT.entries x) <= m - 1)%nat /\
         (BT.children x <> [] -> length (BT.entries x) = (length (BT.children x) - 1)%nat)) /\
      (forall x, In x (MT.proper_subnodes root) -> ((m + 1) / 2 - 1 <= length (BT.entries x))%nat) /\
      (1 <= length (BT.entries root))%nat /\
      (forall d, In d (MT.leaf_depths root) -> d = BT.height root) /\
      BT.height root = BT.maxheight root /\
      (2 * ((m + 1) / 2) ^ (BT.height root - 1) <= BT.count root + 1)%nat /\
      exists pt, erase pt = root /\ G.Tree_Root tr = Some (paddr pt) /\ rep h None pt /\ NoDup (addrs pt)
    end.
Proof.
  intros mag c ops fuel K Ho Hf m. pose proof (MT.bt_valid_m c Ho) as H3.
  destruct (gen_bt_reach mag c ops fuel K Ho Hf) as (ncmp & h & tr & ot & Hrun & Hm & Hrepr & Hok & Hcmp & Htm & Hinv & Hsort & Hmh & Hcnt).
  assert (Htm' : G.Tree_m tr = Z.of_nat (bt_m c)) by (rewrite Htm; unfold bt_m; lia).
  exists ncmp, h, tr, ot. split; [exact Hrun|]. split; [exact Hrepr|]. split; [rewrite Hm, (proj2 Hrepr); reflexivity|]. split; [exact Hinv|].
  split; [exact (proj1 (header_correct h tr ot (bt_m c) (proj2 Hrepr) Htm' ltac:(lia)))|].
  assert (Hhe : bheight ot = bmaxheight ot) by (destruct ot as [t|]; [exact (BTreeInv.btree_inv_height _ _ Hinv)|reflexivity]).
  split; [rewrite <- Hhe; apply Height_correct; [exact (proj1 Hrepr)|lia]|].
  split.
  { destruct ot as [[es cs]|]; cbn [bcount]; [|tauto]. split; [discriminate|]. destruct Hinv as (hh & _ & Hc). apply BTreeInv.cnt_inv in Hc. cbn [BT.count]. lia. }
  destruct ot as [root|]; [|exact (proj1 Hrepr)].
  destruct (MT.bt_documented (bt_m c) H3 root Hinv) as (D1 & D2 & D3 & D4 & D5 & D6).
  repeat (split; [assumption|]). destruct (proj1 Hrepr) as (pt & He & Hp & Hrep & Hnd). exists pt. repeat split; assumption.
Qed.
Print Assumptions gen_bt_shape.

