(* maps/treebidimap/enumerable.go (in GodsGen.TreeBidiMapGen): loops over m.Iterator(), the abstract enumeration of the
   forward tree's in-order entries, against Model/Machine.v existsb / forallb / find_first / select_of / map_of
   (results built by Put on NewWith(forward comparator, inverse comparator)). *)
From Coq Require Import ZArith List Lia Bool Arith.
From Gods Require Import Common.Cmp Common.ListAux Spec.SeqSpec Model.Ops Model.Machine.
From Gods Require Model.RBTree.
From GodsGen Require TreeBidiMapGen.
From GodsGenProofs Require Import GenIterRun WrapCommon GoCmp TreeBidiMapGenProofs.
Import ListNotations.
Local Open Scope Z_scope.

Definition enum (g : B.Map IF II) : list (Z * Z) := on_tree (B.forwardMap IF II g) [] (fun _ r => RB.inorder (fst r)).
Definition put1 (r : B.Map IF II) (e : Z * Z) : B.Map IF II := fst (B.Put IF II r (fst e) (snd e)).

Lemma fold_put : forall (P : Z * Z -> bool) (F : Z * Z -> Z * Z) (body : B.Map IF II -> Z * Z -> B.Map IF II) l r,
  (forall r kv, body r kv = if P kv then put1 r (F kv) else r) ->
  fold_left body l r = fold_left put1 (map F (filter P l)) r.
Proof.
  intros P F body l r Hbody. revert r. induction l as [|kv l IH]; intros r; cbn [fold_left filter map]; [reflexivity|].
  rewrite IH, Hbody. destruct (P kv); reflexivity.
Qed.

Section Enum.
Variable c : config.
Hypothesis Hk : ckind c = TreeBidiMap.
Variables (f : RB.tree) (fn : Z) (i : RB.tree) (inn : Z).
Notation g := (B.mkMap IF II (kc c, Some (f, fn)) (vc c, Some (i, inn))).
Notation es := (enum g).

Lemma step_crash : forall l, fold_left (fun s e => fst (fst (step c s (Put (fst e) (snd e))))) l StCrash = StCrash.
Proof. induction l as [|e l IH]; cbn [fold_left]; [reflexivity|exact IH]. Qed.

Lemma steps_puts : forall l f fn i inn,
  fold_left (fun s e => fst (fst (step c s (Put (fst e) (snd e))))) l (StTBidi f fn i inn) = put_entries c l (StTBidi f fn i inn).
Proof.
  induction l as [|[k v] l IH]; intros f0 fn0 i0 inn0; unfold put_entries; cbn [fold_left tbidi_puts fst snd]; [reflexivity|].
  unfold step at 2. destruct (tbidi_put (kc c) (vc c) k v (f0, fn0, (i0, inn0))) as [[[f' fn'] [i' inn']]|]; cbn [fst].
  - rewrite IH. reflexivity.
  - apply step_crash.
Qed.

Lemma puts_st : forall l r, cmps r = (kc c, vc c) ->
  st2 (fold_left put1 l r) = fold_left (fun s e => fst (fst (step c s (Put (fst e) (snd e))))) l (st2 r).
Proof.
  induction l as [|e l IH]; intros r Hc; cbn [fold_left]; [reflexivity|].
  destruct (Put_equiv c r (fst e) (snd e) Hc) as [H1 H2].
  change (put1 r e) with (fst (B.Put IF II r (fst e) (snd e))). rewrite (IH _ H2). now rewrite H1.
Qed.

Lemma entries_st : forall l, st2 (fold_left put1 l (B.NewWith IF II (kc c) (vc c))) = put_entries c l (init c).
Proof.
  intros l. rewrite puts_st by reflexivity. rewrite <- (proj2 (NewWith_equiv c Hk)).
  unfold init. rewrite Hk. apply steps_puts.
Qed.

(* OBLIGATION *)
Theorem Any_All_equiv : forall p,
  B.Any IF II enum g p = existsb (fun e => p (fst e) (snd e)) es /\ B.All IF II enum g p = forallb (fun e => p (fst e) (snd e)) es.
Proof.
  intros p. unfold B.Any, B.All. cbv zeta. generalize es as l. split.
  - induction l as [|e l IH]; cbn [B.Any_loop1 existsb]; [reflexivity|]. destruct (p (fst e) (snd e)); cbn [orb]; auto.
  - induction l as [|e l IH]; cbn [B.All_loop1 forallb]; [reflexivity|]. destruct (p (fst e) (snd e)); cbn [negb andb]; auto.
Qed.

(* OBLIGATION *)
Theorem Find_equiv : forall p,
  B.Find IF II enum g (pred_eval p) = match find_first p es with Some (i, v) => (i, v) | None => (0, 0) end.
Proof.
  intros p. unfold B.Find, find_first. cbv zeta. generalize es as l.
  induction l as [|[k v] l IH]; cbn [B.Find_loop1 find fst snd]; [reflexivity|]. destruct (pred_eval p k v); auto.
Qed.

(* OBLIGATION *)
Theorem Select_equiv : forall p, st2 (B.Select IF II enum g (pred_eval p)) = select_of c p es.
Proof.
  intros p. unfold B.Select, select_of. rewrite Hk. cbn [is_kv]. cbv zeta.
  cbn [B.forwardMap B.inverseMap B.forwardMap_fld_Comparator B.inverseMap_fld_Comparator IF II fst].
  match goal with |- context [fold_left ?Bd es ?R] =>
    rewrite (fold_put (fun e => pred_eval p (fst e) (snd e)) (fun e => e) Bd es R)
      by (intros r kv; unfold put1; destruct (pred_eval p (fst kv) (snd kv)); reflexivity) end.
  rewrite map_id. apply entries_st.
Qed.

(* OBLIGATION *)
Theorem Map_equiv : forall mf, st2 (B.Map_Map IF II enum g (mapf_eval mf)) = map_of c mf es.
Proof.
  intros mf. unfold B.Map_Map, map_of. rewrite Hk. cbn [is_kv]. cbv zeta.
  cbn [B.forwardMap B.inverseMap B.forwardMap_fld_Comparator B.inverseMap_fld_Comparator IF II fst].
  match goal with |- context [fold_left ?Bd es ?R] =>
    rewrite (fold_put (fun _ => true) (fun e => mapf_eval mf (fst e) (snd e)) Bd es R)
      by (intros r kv; unfold put1; destruct (mapf_eval mf (fst kv) (snd kv)); reflexivity) end.
  rewrite filter_true_pairs. apply entries_st.
Qed.
End Enum.

Print Assumptions Any_All_equiv.
Print Assumptions Find_equiv.
Print Assumptions Select_equiv.
Print Assumptions Map_equiv.
