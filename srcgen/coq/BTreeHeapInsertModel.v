(* PURE (no heap): the B-tree insertion of Model/BTree.v -- a RECURSIVE function [ins] that returns IOk / ISplit to its
   caller -- rephrased the way the Go code works: a descent along a ZIPPER of frames (entries of the node, children to
   the left / right of the one descended into), then a BOTTOM-UP pass [finish] that, as long as the node at hand has
   become too large, splits it and pushes the middle entry into the frame above ([up]), and makes a new root at the top.

     [ins_internal] / [ins_c_internal]: one level of [ins] / [ins_c] is [up] of the result for the child
     [put_is_finish]: BT.put = finish [] of the result of ins at the root, BTreeCost.put_c = the cost component
     [ins_split_key]: when a child splits, the search of the middle key in the parent (which the Go code performs
       again, splitNonRoot) finds the position of that child -- this needs the order (bst, strict weak order)

   The climb conditions [climb_ok] (the re-search finds the frame's position) and [climb_cost] (its comparator calls)
   are what the heap-level proof of split (BTreeHeapSplitProofs.v) consumes. *)
From Coq Require Import ZArith List Lia Bool Arith.
From Gods Require Import Common.Cmp Spec.MapSpec Model.BTree Model.BTreeCost Proofs.BTreeInd Proofs.BTreeMap.
From Gods Require Proofs.IterTreeBT.
Import ListNotations.

Definition mframe := (list entry * list node * list node)%type.

Fixpoint eplug (ctx : list mframe) (n : node) : node :=
  match ctx with
  | [] => n
  | (es, l, r) :: ctx' => eplug ctx' (N es (l ++ n :: r))
  end.

Section M.
Variable m : nat.
Variable cmp : cmpf.

Definition up (f : mframe) (r : ires) : ires :=
  let '(es, l, rr) := f in
  match r with
  | IOk c' => IOk (N es (l ++ c' :: rr))
  | ISplit a mid b => maybe_split m (N (insert_at (length l) mid es) (l ++ a :: b :: rr))
  end.

Fixpoint finish (ctx : list mframe) (r : ires) : node :=
  match ctx with
  | [] => match r with IOk n => n | ISplit l mid rr => N [mid] [l; rr] end
  | f :: ctx' => finish ctx' (up f r)
  end.

(* the re-search of the middle key in the frame above finds the frame's position *)
Fixpoint climb_ok (ctx : list mframe) (r : ires) : Prop :=
  match ctx with
  | [] => True
  | (es, l, rr) :: ctx' =>
    match r with
    | IOk _ => True
    | ISplit _ mid _ => fst (search cmp (fst mid) es) = length l /\ climb_ok ctx' (up (es, l, rr) r)
    end
  end.

Fixpoint climb_cost (ctx : list mframe) (r : ires) : nat :=
  match ctx with
  | [] => O
  | (es, l, rr) :: ctx' =>
    match r with
    | IOk _ => O
    | ISplit _ mid _ => search_c cmp (fst mid) es + climb_cost ctx' (up (es, l, rr) r)
    end
  end.

Lemma finish_IOk : forall ctx n, finish ctx (IOk n) = eplug ctx n.
Proof. induction ctx as [|[[es l] r] ctx IH]; intros n; [reflexivity|]. cbn [finish up eplug]. apply IH. Qed.
Lemma climb_ok_IOk : forall ctx n, climb_ok ctx (IOk n).
Proof. destruct ctx as [|[[es l] r] ctx]; intros; exact I. Qed.
Lemma climb_cost_IOk : forall ctx n, climb_cost ctx (IOk n) = O.
Proof. destruct ctx as [|[[es l] r] ctx]; intros; reflexivity. Qed.

Lemma insert_at_S_app : forall (A : Type) (l r : list A) a b, insert_at (S (length l)) b (l ++ a :: r) = l ++ a :: b :: r.
Proof.
  intros A l r a b. replace (l ++ a :: r) with ((l ++ [a]) ++ r) by (rewrite <- app_assoc; reflexivity).
  replace (S (length l)) with (length (l ++ [a])) by (rewrite app_length; cbn; lia).
  rewrite insert_at_app, <- app_assoc. reflexivity.
Qed.

(* OBLIGATION *)
Theorem ins_internal : forall f e es l c rr, search cmp (fst e) es = (length l, false) ->
  ins m cmp (S f) e (N es (l ++ c :: rr)) =
    match ins m cmp f e c with Some (rc, b) => Some (up (es, l, rr) rc, b) | None => None end /\
  ins_c m cmp (S f) e (N es (l ++ c :: rr)) =
    match ins_c m cmp f e c with
    | Some (rc, b, k) =>
      Some (up (es, l, rr) rc, b,
            (search_c cmp (fst e) es + k + match rc with ISplit _ mid _ => search_c cmp (fst mid) es | IOk _ => 0 end)%nat)
    | None => None
    end.
Proof.
  intros f e es l c rr Hs. cbn [ins ins_c]. rewrite Hs.
  assert (Hne : exists c0 cs0, l ++ c :: rr = c0 :: cs0) by (destruct l; cbn; eauto).
  destruct Hne as (c0 & cs0 & E). rewrite E. cbv beta iota. rewrite <- E. clear E c0 cs0.
  rewrite nth_error_app_mid. split.
  - destruct (ins m cmp f e c) as [[[c'|a mid b] bb]|]; [| |reflexivity]; cbn [up]; rewrite replace_at_app.
    + reflexivity.
    + now rewrite insert_at_S_app.
  - destruct (ins_c m cmp f e c) as [[[[c'|a mid b] bb] k]|]; [| |reflexivity]; cbn [up]; rewrite replace_at_app.
    + now rewrite Nat.add_0_r.
    + now rewrite insert_at_S_app.
Qed.

Lemma ins_c_ins : forall f e n, ins m cmp f e n = option_map (fun x => (fst (fst x), snd (fst x))) (ins_c m cmp f e n).
Proof.
  induction f as [|f IH]; intros e [es cs]; [reflexivity|]. cbn [ins ins_c].
  destruct (search cmp (fst e) es) as [pos found]. destruct found; [reflexivity|].
  destruct cs as [|c0 cs0]; [reflexivity|]. destruct (nth_error (c0 :: cs0) pos) as [c|]; [|reflexivity].
  rewrite IH. destruct (ins_c m cmp f e c) as [[[[c'|a mid b] bb] k]|]; reflexivity.
Qed.

(* OBLIGATION *)
Theorem put_is_finish : forall f e n,
  put m cmp f e (Some n) =
    match ins_c m cmp f e n with Some (r, b, _) => Some (Some (finish [] r), b) | None => None end /\
  put_c m cmp f e (Some n) = match ins_c m cmp f e n with Some (_, _, k) => k | None => O end.
Proof.
  intros f e n. split; [|reflexivity]. cbn [put]. rewrite ins_c_ins.
  destruct (ins_c m cmp f e n) as [[[[n'|a mid b] bb] k]|]; reflexivity.
Qed.

(* the key of the middle entry that comes up from a child is searched in the parent at the child's position *)
Lemma ins_split_key : SWO cmp -> (3 <= m)%nat -> forall f e es cs pos c a mid b bb,
  wf_shape (N es cs) -> bst cmp (N es cs) -> search cmp (fst e) es = (pos, false) -> nth_error cs pos = Some c ->
  (maxheight c <= f)%nat -> ins m cmp f e c = Some (ISplit a mid b, bb) ->
  fst (search cmp (fst mid) es) = pos.
Proof.
  intros Hswo Hm f e es cs pos c a mid b bb Hwf Hbst Hs Hc Hf Hi.
  assert (Hwc : wf_shape c) by (eapply IterTreeBT.wf_child; eauto).
  assert (Hbc : bst cmp c) by (eapply IterTreeBT.bst_child; eauto).
  destruct (ins_inorder cmp Hswo m Hm f e c _ _ Hf Hwc Hbc Hi) as [_ Hpost]. cbn [ins_post] in Hpost.
  destruct Hpost as (Hin & _ & _).
  assert (Hmid : In mid (ins_list cmp (fst e) (snd e) (inorder c))) by (rewrite <- Hin; apply in_or_app; right; now left).
  apply ins_list_in in Hmid. destruct Hmid as [->|Hmid].
  - cbn [fst]. now rewrite Hs.
  - eapply IterTreeBT.search_child; eauto.
Qed.
End M.
Print Assumptions ins_internal.
Print Assumptions put_is_finish.
