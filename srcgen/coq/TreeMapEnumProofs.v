(* maps/treemap/enumerable.go (in GodsGen.TreeMapGen): loops over m.Iterator(), the abstract enumeration of the
   in-order entries, against Model/Machine.v existsb / forallb / find_first / select_of / map_of (results built by
   Put on a fresh tree with the receiver's comparator; &Map{tree: rbt.NewWith(m.tree.Comparator)} field by field). *)
From Coq Require Import ZArith List Lia Bool Arith.
From Gods Require Import Common.Cmp Common.ListAux Spec.SeqSpec Model.Ops Model.Machine.
From Gods Require Model.RBTree.
From GodsGen Require TreeMapGen.
From GodsGenProofs Require Import GenIterRun WrapCommon GoCmp TreeMapGenProofs.
Import ListNotations.
Local Open Scope Z_scope.

(* m.Iterator(): the entries in key order *)
Definition enum (g : M.Map I) : list (Z * Z) := on_tree (M.tree I g) [] (fun _ r => RB.inorder (fst r)).

Definition putkv (s : rbtree) (e : Z * Z) : rbtree := fst (upd_tree s (fun cmp r => rbs_put cmp (fst e) (snd e) r)).

Lemma Put_one : forall r k v, M.tree I (fst (M.Put I r k v)) = putkv (M.tree I r) (k, v).
Proof. reflexivity. Qed.

Lemma fold_putkv : forall es cmp o,
  fold_left putkv es (cmp, o) = (cmp, match o with Some r => rbs_puts cmp es r | None => None end).
Proof.
  induction es as [|[k v] es IH]; intros cmp o; cbn [fold_left rbs_puts]; [now destruct o|].
  unfold putkv at 2, upd_tree. cbn [fst snd]. rewrite IH. destruct o as [r|]; [|reflexivity].
  destruct (rbs_put cmp k v r); reflexivity.
Qed.

Lemma fold_put_filter : forall (P : Z * Z -> bool) (F : Z * Z -> Z * Z) (body : M.Map I -> Z * Z -> M.Map I) l r,
  (forall r kv, body r kv = if P kv then fst (M.Put I r (fst (F kv)) (snd (F kv))) else r) ->
  M.tree I (fold_left body l r) = fold_left putkv (map F (filter P l)) (M.tree I r).
Proof.
  intros P F body l r Hbody. revert r. induction l as [|kv l IH]; intros r; cbn [fold_left filter map]; [reflexivity|].
  rewrite IH, Hbody. destruct (P kv); cbn [map fold_left]; [|reflexivity].
  rewrite Put_one. now destruct (F kv).
Qed.

Section Enum.
Variable c : config.
Hypothesis Hk : ckind c = TreeMap.
Variables (t : RB.tree) (n : Z).
Notation g := (M.mkMap I (kc c, Some (t, n))).
Notation es := (enum g).

Lemma entries_st : forall l, st (fold_left putkv l (kc c, Some rbs_empty)) = put_entries c l (init c).
Proof.
  intros l. rewrite fold_putkv. unfold st, put_entries, init. cbn [snd]. rewrite Hk. unfold rbs_empty.
  destruct (rbs_puts (kc c) l (RB.E, 0)) as [[t' n']|]; reflexivity.
Qed.

(* OBLIGATION *)
Theorem Any_All_equiv : forall f,
  M.Any I enum g f = existsb (fun e => f (fst e) (snd e)) es /\ M.All I enum g f = forallb (fun e => f (fst e) (snd e)) es.
Proof.
  intros f. unfold M.Any, M.All. cbv zeta. generalize es as l. split.
  - induction l as [|e l IH]; cbn [M.Any_loop1 existsb]; [reflexivity|]. destruct (f (fst e) (snd e)); cbn [orb]; auto.
  - induction l as [|e l IH]; cbn [M.All_loop1 forallb]; [reflexivity|]. destruct (f (fst e) (snd e)); cbn [negb andb]; auto.
Qed.

(* OBLIGATION *)
Theorem Find_equiv : forall p,
  M.Find I enum g (pred_eval p) = match find_first p es with Some (i, v) => (i, v) | None => (0, 0) end.
Proof.
  intros p. unfold M.Find, find_first. cbv zeta. generalize es as l.
  induction l as [|[i v] l IH]; cbn [M.Find_loop1 find fst snd]; [reflexivity|]. destruct (pred_eval p i v); auto.
Qed.

(* OBLIGATION *)
Theorem Select_equiv : forall p, st (M.tree I (M.Select I enum g (pred_eval p))) = select_of c p es.
Proof.
  intros p. unfold M.Select, select_of. rewrite Hk. cbn [is_kv]. cbv zeta.
  cbn [M.tree M.tree_fld_Comparator M.tree_pkg_NewWith I fst].
  match goal with |- context [fold_left ?B es ?R] =>
    rewrite (fold_put_filter (fun e => pred_eval p (fst e) (snd e)) (fun e => e) B es R)
      by (intros r kv; destruct (pred_eval p (fst kv) (snd kv)); reflexivity) end.
  rewrite map_id. cbn [M.tree]. apply entries_st.
Qed.

(* OBLIGATION *)
Theorem Map_equiv : forall mf, st (M.tree I (M.Map_Map I enum g (mapf_eval mf))) = map_of c mf es.
Proof.
  intros mf. unfold M.Map_Map, map_of. rewrite Hk. cbn [is_kv]. cbv zeta.
  cbn [M.tree M.tree_fld_Comparator M.tree_pkg_NewWith I fst].
  match goal with |- context [fold_left ?B es ?R] =>
    rewrite (fold_put_filter (fun _ => true) (fun e => mapf_eval mf (fst e) (snd e)) B es R)
      by (intros r kv; destruct (mapf_eval mf (fst kv) (snd kv)); reflexivity) end.
  rewrite filter_true_pairs. cbn [M.tree]. apply entries_st.
Qed.
End Enum.

Print Assumptions Any_All_equiv.
Print Assumptions Find_equiv.
Print Assumptions Select_equiv.
Print Assumptions Map_equiv.
