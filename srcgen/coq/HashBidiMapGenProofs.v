(* maps/hashbidimap/hashbidimap.go regenerated over two ABSTRACT hashmap.Map values (GodsGen.HashBidiMapGen), both
   instantiated with the framework's model of a Go map (Model/Machine.v hput / hdel / hget): Put = hbidi_put,
   Remove = hbidi_remove, Clear = init, Get / GetKey / Size / Keys / Values = the machine's observers on StHBidi. *)
From Coq Require Import ZArith List Lia Bool Arith.
From Gods Require Import Common.Cmp Common.ListAux Spec.SeqSpec Model.Ops Model.Machine.
From Gods Require Import Proofs.C05Proofs.
From GodsGen Require HashBidiMapGen.
From GodsGenProofs Require Import GenIterRun WrapCommon.
Import ListNotations.
Local Open Scope Z_scope.

Module B := HashBidiMapGen.

Definition IF : B.forwardMap_iface := B.mk_forwardMap_iface (list (Z * Z))
  (fun _ => ([], tt))                      (* Clear() *)
  (fun m => zlen m =? 0)                   (* Empty() *)
  (fun m k => opt_pair (hget k m))         (* Get(key) *)
  (fun m => map fst m)                     (* Keys() *)
  (fun m k v => (hput k v m, tt))          (* Put(key, value) *)
  (fun m k => (hdel k m, tt))              (* Remove(key) *)
  (fun m => zlen m)                        (* Size() *)
  (fun m => (map fst m, false))            (* ToJSON(): placeholder codec *)
  (fun m => map snd m)                     (* Values() *)
  [].                                      (* hashmap.New() *)
Definition II : B.inverseMap_iface := B.mk_inverseMap_iface (list (Z * Z))
  (fun _ => ([], tt)) (fun m => zlen m =? 0) (fun m k => opt_pair (hget k m)) (fun m => map fst m)
  (fun m k v => (hput k v m, tt)) (fun m k => (hdel k m, tt)) (fun m => zlen m) (fun m => (map fst m, false)) (fun m => map snd m) [].

Notation st g := (StHBidi (B.forwardMap IF II g) (B.inverseMap IF II g)).

Module Names.
Import Coq.Strings.String.
(* OBLIGATION *)
Theorem translated_functions :
  B.translated = ["Clear"; "Empty"; "FromJSON"; "Get"; "GetKey"; "Keys"; "MarshalJSON"; "New"; "Put"; "Remove"; "Size"; "ToJSON"; "UnmarshalJSON"; "Values"]%string
  /\ B.skipped = ["String"]%string /\ B.not_selected = [].
Proof. repeat split. Qed.
Print Assumptions translated_functions.
End Names.

Section Equiv.
Variable c : config.

(* OBLIGATION *)
Theorem New_equiv : ckind c = HashBidiMap -> init c = st (B.New IF II).
Proof. intros Hk. unfold init. now rewrite Hk. Qed.

(* OBLIGATION: Put removes the entries that would clash in either direction, then writes BOTH maps *)
Theorem Put_equiv : forall g k v, step c (st g) (Put k v) = (st (fst (B.Put IF II g k v)), ounit, onone).
Proof.
  intros [f i] k v. unfold step, hbidi_put, B.Put. cbn.
  destruct (hget k f) as [v0|]; cbn; destruct (hget v _) as [k0|]; reflexivity.
Qed.

(* OBLIGATION *)
Theorem Remove_equiv : forall g k, step c (st g) (Remove k) = (st (fst (B.Remove IF II g k)), ounit, onone).
Proof. intros [f i] k. unfold step, hbidi_remove, B.Remove. cbn. destruct (hget k f) as [v0|]; reflexivity. Qed.

(* OBLIGATION *)
Theorem Clear_equiv : ckind c = HashBidiMap -> forall g, step c (st g) Clear = (st (fst (B.Clear IF II g)), ounit, onone).
Proof. intros Hk [f i]. unfold step, init. now rewrite Hk. Qed.

(* OBLIGATION *)
Theorem observers_equiv : forall g k,
  get_of c (st g) k = obs_pair (B.Get IF II g k) /\
  B.GetKey IF II g k = opt_pair (hget k (B.inverseMap IF II g)) /\
  B.Size IF II g = size_of c (st g) /\ B.Empty IF II g = (size_of c (st g) =? 0) /\
  B.Keys IF II g = keys_of c (st g) /\ B.Values IF II g = values_of c (st g).
Proof.
  intros [f i] k. unfold get_of, B.Get, B.GetKey, keys_of, entries_of, values_of. cbn.
  destruct (hget k f), (hget k i); repeat split.
Qed.
End Equiv.

Print Assumptions New_equiv.
Print Assumptions Put_equiv.
Print Assumptions Remove_equiv.
Print Assumptions Clear_equiv.
Print Assumptions observers_equiv.

Inductive gop := GPut (k v : Z) | GRemove (k : Z) | GClear.
Definition gen_step (g : B.Map IF II) (o : gop) : B.Map IF II :=
  match o with GPut k v => fst (B.Put IF II g k v) | GRemove k => fst (B.Remove IF II g k) | GClear => fst (B.Clear IF II g) end.
Definition gen_run (ops : list gop) : B.Map IF II := fold_left gen_step ops (B.New IF II).
Definition to_op (o : gop) : op := match o with GPut k v => Put k v | GRemove k => Remove k | GClear => Clear end.

(* OBLIGATION *)
Theorem gen_run_simulates : forall c, ckind c = HashBidiMap -> forall ops, run c (map to_op ops) = st (gen_run ops).
Proof.
  intros c Hk ops. induction ops as [|o ops IH] using rev_ind.
  - unfold run, run_from. cbn [map fold_left]. exact (New_equiv c Hk).
  - rewrite map_app. cbn [map]. rewrite run_snoc, IH. unfold gen_run. rewrite fold_left_app. cbn [fold_left].
    fold (gen_run ops). destruct o as [k v|k|]; cbn [to_op gen_step].
    + now rewrite Put_equiv.
    + now rewrite Remove_equiv.
    + now rewrite (Clear_equiv c Hk).
Qed.
Print Assumptions gen_run_simulates.
