(* queues/arrayqueue/arrayqueue.go regenerated over an ABSTRACT list interface (GodsGen.ArrayQueueWrapGen),
   instantiated with the hand-written ArrayList model (Model/Lists.v: al_add, al_get, al_remove; zlen),
   equals what Model/Machine.v does for kind ArrayQueue: step (Enqueue, Dequeue, Clear), peek_of, size_of,
   values_of.  Corollary: runs of the generated Enqueue / Dequeue / Clear are the machine's runs, so C05
   (FIFO, Values() in removal order) holds of the generated wrapper. *)
From Coq Require Import ZArith List Lia Bool Arith.
From Gods Require Import Common.Cmp Common.ListAux Spec.SeqSpec Spec.FifoSpec Model.Ops Model.Lists Model.Machine.
From Gods Require Import Proofs.C05Proofs.
From GodsGen Require ArrayQueueWrapGen.
From GodsGenProofs Require Import GenIterRun WrapCommon.
Import ListNotations.
Local Open Scope Z_scope.

Module W := ArrayQueueWrapGen.

(* the wrapped list, as the model has it: a sequence *)
Definition I : W.list_iface := W.mk_list_iface (list Z)
  (fun l vs => (al_add vs l, tt))          (* Add(values...) *)
  (fun _ => ([], tt))                      (* Clear() *)
  (fun l => zlen l =? 0)                   (* Empty() *)
  (fun _ d => (d, false))                  (* FromJSON(data): placeholder codec (bytes = the element list); see *JsonProofs.v *)
  (fun l i => opt_pair (al_get i l))       (* Get(i) *)
  (fun l i => (al_remove i l, tt))         (* Remove(i) *)
  (fun l => zlen l)                        (* Size() *)
  (fun l => (l, false))                    (* ToJSON(): placeholder codec *)
  (fun l => l).                            (* Values() *)

Notation content s := (W.list_ I s).

Module Names.
Import Coq.Strings.String.
(* OBLIGATION *)
Theorem translated_functions :
  W.translated = ["Clear"; "Dequeue"; "Empty"; "Enqueue"; "FromJSON"; "MarshalJSON"; "Peek"; "Size"; "ToJSON"; "UnmarshalJSON"; "Values"; "withinRange"]%string
  /\ W.skipped = ["New"; "String"]%string /\ W.not_selected = [].
Proof. repeat split. Qed.
Print Assumptions translated_functions.
End Names.

(* Dequeue calls Remove(0) only after a successful Get(0); the model removes unconditionally *)
Lemma remove_after_failed_get : forall l, al_get 0 l = None -> al_remove 0 l = l.
Proof.
  intros l H. unfold al_get, al_remove in *. destruct (within 0 l) eqn:E; cbn [negb] in *; [|reflexivity].
  destruct l as [|x l]; [discriminate E|discriminate H].
Qed.

Section Equiv.
Variable c : config.
Hypothesis Hk : ckind c = ArrayQueue.

(* OBLIGATION *)
Theorem Enqueue_equiv : forall s v,
  step c (StSeq (content s)) (Enqueue v) = (StSeq (content (fst (W.Enqueue I s v))), ounit, onone).
Proof. intros [l] v. unfold step. rewrite Hk. reflexivity. Qed.

(* OBLIGATION *)
Theorem Dequeue_equiv : forall s,
  step c (StSeq (content s)) Dequeue = (StSeq (content (fst (W.Dequeue I s))), obs_pair (snd (W.Dequeue I s)), onone).
Proof.
  intros [l]. unfold step. rewrite Hk. unfold W.Dequeue. cbn [W.list_ W.list_Get W.list_Remove I W.set_list].
  destruct (al_get 0 l) as [v|] eqn:E; cbn [opt_pair fst snd W.list_ obs_pair oopt].
  - reflexivity.
  - now rewrite (remove_after_failed_get l E).
Qed.

(* OBLIGATION *)
Theorem Peek_equiv : forall s, peek_of c (StSeq (content s)) = obs_pair (W.Peek I s).
Proof.
  intros [l]. unfold peek_of. rewrite Hk. unfold W.Peek. cbn [W.list_ W.list_Get I].
  destruct (opt_pair (al_get 0 l)) as [v ok] eqn:E. rewrite <- E, obs_pair_opt. reflexivity.
Qed.

(* OBLIGATION *)
Theorem Size_equiv : forall s, W.Size I s = size_of c (StSeq (content s)).
Proof. intros [l]. reflexivity. Qed.

(* OBLIGATION *)
Theorem Empty_equiv : forall s, W.Empty I s = (size_of c (StSeq (content s)) =? 0).
Proof. intros [l]. reflexivity. Qed.

(* OBLIGATION *)
Theorem Clear_equiv : forall s,
  step c (StSeq (content s)) Clear = (StSeq (content (fst (W.Clear I s))), ounit, onone).
Proof. intros [l]. unfold step, init. rewrite Hk. reflexivity. Qed.

(* OBLIGATION *)
Theorem withinRange_equiv : forall s i, W.withinRange I s i = within i (content s).
Proof. intros [l] i. reflexivity. Qed.

(* OBLIGATION *)
Theorem Values_equiv : forall s, W.Values I s = values_of c (StSeq (content s)).
Proof. intros [l]. unfold values_of. rewrite Hk. reflexivity. Qed.
End Equiv.

Print Assumptions Enqueue_equiv.
Print Assumptions Dequeue_equiv.
Print Assumptions Peek_equiv.
Print Assumptions Size_equiv.
Print Assumptions Empty_equiv.
Print Assumptions Clear_equiv.
Print Assumptions withinRange_equiv.
Print Assumptions Values_equiv.

(* ---------- runs of the generated methods ---------- *)
Inductive gop := GEnqueue (v : Z) | GDequeue | GClear.
Definition gen_step (s : W.Queue I) (o : gop) : W.Queue I :=
  match o with
  | GEnqueue v => fst (W.Enqueue I s v)
  | GDequeue => fst (W.Dequeue I s)
  | GClear => fst (W.Clear I s)
  end.
Definition gen_run (s : W.Queue I) (ops : list gop) : W.Queue I := fold_left gen_step ops s.
Definition to_op (o : gop) : op := match o with GEnqueue v => Enqueue v | GDequeue => Dequeue | GClear => Clear end.

(* OBLIGATION: lock-step with the machine from the empty queue *)
Theorem gen_run_simulates : forall c s0, ckind c = ArrayQueue -> content s0 = [] ->
  forall ops, run c (map to_op ops) = StSeq (content (gen_run s0 ops)).
Proof.
  intros c s0 Hk H0 ops. induction ops as [|o ops IH] using rev_ind.
  - cbn. unfold run, run_from, init. cbn [fold_left]. rewrite Hk, H0. reflexivity.
  - rewrite map_app. cbn [map]. rewrite run_snoc, IH. unfold gen_run. rewrite fold_left_app. cbn [fold_left].
    fold (gen_run s0 ops).
    destruct o as [v| |]; cbn [to_op gen_step].
    + now rewrite (Enqueue_equiv c Hk).
    + now rewrite (Dequeue_equiv c Hk).
    + now rewrite (Clear_equiv c Hk).
Qed.
Print Assumptions gen_run_simulates.

(* OBLIGATION: C05 for the generated wrapper: Values() is the abstract FIFO content (oldest first), Size its
   length, Dequeue / Peek its head, Enqueue appends *)
Theorem gen_C05 : forall c s0, ckind c = ArrayQueue -> content s0 = [] -> forall ops,
  let s := gen_run s0 ops in
  let q := abs_run c (map to_op ops) in
  W.Values I s = q /\ W.Size I s = Z.of_nat (length q) /\
  obs_pair (snd (W.Dequeue I s)) = oopt (hd_error q) /\ obs_pair (W.Peek I s) = oopt (hd_error q) /\
  W.Values I (fst (W.Dequeue I s)) = tl q /\ (forall v, W.Values I (fst (W.Enqueue I s v)) = q ++ [v]).
Proof.
  intros c s0 Hk H0 ops s q. subst s q.
  assert (Hc : c05_config c) by (unfold c05_config; now rewrite Hk).
  assert (Hq : is_queue (ckind c) = true) by now rewrite Hk.
  pose proof (gen_run_simulates c s0 Hk H0 ops) as Hrun.
  pose proof (C05_refines c Hc (map to_op ops)) as HV. rewrite Hrun in HV.
  pose proof (C05_size c Hc (map to_op ops)) as HS. rewrite Hrun in HS.
  pose proof (C05_peek c Hc (map to_op ops)) as HP. rewrite Hrun in HP.
  pose proof (C05_dequeue c Hc Hq (map to_op ops)) as [HD1 HD2].
  rewrite run_snoc, Hrun in HD2. rewrite HV in HD2. rewrite Hrun in HD1. rewrite HV in HD1.
  rewrite (Dequeue_equiv c Hk) in HD1, HD2. cbn [fst snd] in HD1, HD2.
  refine (conj _ (conj _ (conj _ (conj _ (conj _ _))))).
  - rewrite (Values_equiv c Hk). exact HV.
  - rewrite (Size_equiv c). exact HS.
  - exact HD1.
  - rewrite <- (Peek_equiv c Hk). exact HP.
  - rewrite (Values_equiv c Hk). exact HD2.
  - intros v. rewrite (Values_equiv c Hk).
    pose proof (C05_enqueue c (or_introl Hk) (map to_op ops) v) as HE. rewrite run_snoc, Hrun, (Enqueue_equiv c Hk) in HE.
    cbn [fst] in HE. rewrite HE, HV. reflexivity.
Qed.
Print Assumptions gen_C05.
