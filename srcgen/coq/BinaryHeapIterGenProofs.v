(* trees/binaryheap/iterator.go regenerated from the source (in GodsGen.BinaryHeapGen, next to the heap itself, whose
   generated Push / Pop / NewWith the iterator's Value() calls): numOfBits (a `for n != 0` loop over an unsigned
   counter), evaluateRange (shifts by an unsigned count, unsigned subtraction), Value() -- build a temporary heap of
   the level of the index, pop (index - start) times, report the next pop --, Next / Prev / Begin / End / First / Last /
   Index and the NextTo / PrevTo loops (which call the partial Value()), against Model/Heap.v (nbits, level_start,
   iter_value, values) and the index iterator of Model/Iter.v that Machine.run_iter runs for a heap.
   For every backing list h shorter than 2^62 (unsigned arithmetic does not wrap), every comparator and every fuel
   >= size + 2: the generated functions equal the model's and do not return None.  Corollaries: every script run by
   the generated functions = run_iter = the C08 cursor over Heap.values; the enumeration that the generated Values()
   loops over (BinaryHeapGenProofs.enum) is what the generated iterator walks. *)
From Coq Require Import ZArith List Lia Bool Arith Permutation.
From Coq Require Import ZifyBool ZifyNat.
From Gods Require Import Common.Cmp Common.ListAux Spec.SeqSpec Model.Ops Model.Lists Model.Iter Model.Machine.
From Gods Require Model.Heap.
From Gods Require Import Proofs.HeapProofs Proofs.HeapValues Proofs.IterLinear.
From GodsGen Require BinaryHeapGen.
From GodsGenProofs Require GoCmp GoCmpCall GoUint.
From GodsGenProofs Require Import GenIterRun GenIterRunRel WrapCommon BinaryHeapGenProofs.
Import ListNotations.
Local Open Scope Z_scope.

Notation It := (W.Iterator).
Notation nbits := Heap.nbits.

(* ---------- unsigned arithmetic below the wrap-around ---------- *)
Lemma uadd_small : forall a b, 0 <= a -> 0 <= b -> a + b < 2 ^ 64 -> GoUint.add a b = a + b.
Proof. intros a b Ha Hb H. unfold GoUint.add, GoUint.modulus, GoUint.width. apply Z.mod_small. lia. Qed.
Lemma usub_small : forall a b, 0 <= b <= a -> a < 2 ^ 64 -> GoUint.sub a b = a - b.
Proof. intros a b Hb H. unfold GoUint.sub, GoUint.modulus, GoUint.width. apply Z.mod_small. lia. Qed.
Lemma ushl_small : forall k : nat, (k < 64)%nat -> GoUint.shl 1 (Z.of_nat k) = Z.of_nat (2 ^ k).
Proof.
  intros k H. unfold GoUint.shl, GoUint.width. replace (Z.of_nat k <? 64) with true by lia.
  rewrite Z.shiftl_mul_pow2 by lia. rewrite Nat2Z.inj_pow. change (Z.of_nat 2) with 2. lia.
Qed.

(* the level of an index: k = log2 (i + 1) *)
Lemma level_facts : forall i : nat, Z.of_nat i < 2 ^ 62 - 1 ->
  let k := Nat.log2 (i + 1) in
  (k < 62)%nat /\ nbits (S i) (i + 1) = S k /\ nbits (i + 1) (i + 1) = S k /\ Heap.level_start i = (2 ^ k - 1)%nat /\
  (2 ^ k - 1 <= i)%nat /\ (1 <= 2 ^ k)%nat.
Proof.
  intros i Hb k. pose proof (Nat.log2_spec (i + 1) ltac:(lia)) as Hk. fold k in Hk.
  assert (Hlin : (k < i + 1)%nat) by (apply Nat.log2_lt_lin; lia).
  assert (Hk62 : (k < 62)%nat).
  { apply Nat.log2_lt_pow2; [lia|]. apply Nat2Z.inj_lt. rewrite Nat2Z.inj_pow. change (Z.of_nat 2 ^ Z.of_nat 62) with (2 ^ 62). lia. }
  split; [exact Hk62|]. split; [apply nbits_pow; lia|]. split; [apply nbits_pow; lia|].
  split; [apply level_start_spec; lia|]. pose proof (Nat.pow_nonzero 2 k ltac:(lia)). lia.
Qed.

(* ---------- numOfBits, evaluateRange ---------- *)
Lemma numOfBits_loop_ok : forall f fuel (m : nat) count, (m < 2 ^ f)%nat -> (f < fuel)%nat -> 0 <= count -> count + Z.of_nat f < 2 ^ 64 ->
  W.numOfBits_loop1 fuel (Z.of_nat m) count = Some (count + Z.of_nat (nbits f m)).
Proof.
  induction f as [|f IH]; intros fuel m count Hm Hf Hc Hb; (destruct fuel as [|fuel]; [lia|]); cbn [W.numOfBits_loop1 nbits].
  - cbn in Hm. assert (m = 0%nat) by lia. subst m. cbn. f_equal. lia.
  - destruct (Nat.eqb_spec m 0) as [->|Hne].
    + cbn. f_equal. lia.
    + replace (Z.of_nat m =? 0) with false by lia. cbn [negb].
      replace (Z.shiftr (Z.of_nat m) 1) with (Z.of_nat (m / 2)) by (rewrite Z.shiftr_div_pow2 by lia; change (2 ^ 1) with 2; lia).
      rewrite uadd_small by lia. rewrite IH; [f_equal; lia| |lia|lia|lia].
      rewrite Nat.pow_succ_r' in Hm. apply Nat.div_lt_upper_bound; lia.
Qed.

(* OBLIGATION: the generated numOfBits is the model's nbits (the bit length), for every fuel above the bit length *)
Theorem numOfBits_equiv : forall fuel (m : nat), (S m < fuel)%nat -> Z.of_nat m < 2 ^ 62 ->
  W.numOfBits fuel (Z.of_nat m) = Some (Z.of_nat (nbits m m)).
Proof.
  intros fuel m Hf Hb. unfold W.numOfBits.
  rewrite (numOfBits_loop_ok m fuel m 0); [f_equal|apply Nat.pow_gt_lin_r; lia|lia|lia|].
  assert (2 ^ 62 < 2 ^ 64) by (apply Z.pow_lt_mono_r; lia). lia.
Qed.
Print Assumptions numOfBits_equiv.

(* OBLIGATION: evaluateRange(index) = [level_start, level_start + (level_start + 1)) of the model *)
Theorem evaluateRange_equiv : forall fuel (i : nat), (i + 2 < fuel)%nat -> Z.of_nat i < 2 ^ 62 - 1 ->
  W.evaluateRange fuel (Z.of_nat i) =
  Some (Z.of_nat (Heap.level_start i), Z.of_nat (Heap.level_start i + (Heap.level_start i + 1))).
Proof.
  intros fuel i Hf Hb. unfold W.evaluateRange. cbv zeta.
  destruct (level_facts i Hb) as (Hk & _ & Hn & Hl & _ & Hpos). set (k := Nat.log2 (i + 1)) in *.
  replace (Z.of_nat i + 1) with (Z.of_nat (i + 1)) by lia.
  rewrite numOfBits_equiv by lia. rewrite Hn.
  assert (H64 : 64 < 2 ^ 64) by (change 64 with (2 ^ 6); apply Z.pow_lt_mono_r; lia).
  rewrite usub_small by lia.
  replace (Z.of_nat (S k) - 1) with (Z.of_nat k) by lia.
  rewrite ushl_small by lia. rewrite Hl. f_equal. f_equal; lia.
Qed.
Print Assumptions evaluateRange_equiv.

(* ---------- Value() ---------- *)
Section WithHeap.
Variable cmp : cmpf.
Variable h : list Z.
Notation g := (mk h cmp).
Let n := zlen h.

Lemma push1_length : forall v acc, length (Heap.push cmp [v] acc) = S (length acc).
Proof. intros v acc. rewrite (Permutation_length (push_perm cmp [v] acc)), app_length. cbn [length]. lia. Qed.

Lemma tmp_length : forall ns acc, length (fold_left (fun acc k => Heap.push cmp [get h k] acc) ns acc) = (length acc + length ns)%nat.
Proof. induction ns as [|k ns IH]; intros acc; cbn [fold_left length]; [lia|]. rewrite IH, push1_length. lia. Qed.

Lemma popn_length : forall k t, (length (Heap.popn cmp k t) <= length t)%nat.
Proof.
  induction k as [|k IH]; intros t; cbn [Heap.popn]; [lia|].
  destruct (Heap.pop cmp t) as [t' r] eqn:E. cbn [fst]. specialize (IH t'). pose proof (pop_length cmp _ _ _ E). lia.
Qed.

(* the first loop: push h[n0 .. n0 + k) one by one *)
Lemma Value_loop1_ok : forall fuel it st k gas (n0 : nat) tmp,
  (k <= gas)%nat -> (length tmp + k + 2 <= fuel)%nat ->
  W.Value_loop1 LI fuel gas it g st (Z.of_nat (n0 + k)) (mk tmp cmp) (Z.of_nat n0) =
  Some (mk (fold_left (fun acc j => Heap.push cmp [get h j] acc) (seq n0 k) tmp) cmp).
Proof.
  intros fuel it st k. induction k as [|k IH]; intros gas n0 tmp Hg Hf.
  - cbn [seq fold_left]. replace (n0 + 0)%nat with n0 by lia. destruct gas; cbn [W.Value_loop1]; rewrite Z.ltb_irrefl; reflexivity.
  - destruct gas as [|gas]; [lia|]. cbn [W.Value_loop1 seq fold_left].
    replace (Z.of_nat n0 <? Z.of_nat (n0 + S k)) with true by lia.
    wsimpl. rewrite get_al_get. rewrite Push_equiv by (cbn [length]; lia).
    replace (Z.of_nat n0 + 1) with (Z.of_nat (S n0)) by lia. replace (n0 + S k)%nat with (S n0 + k)%nat by lia.
    apply IH; [lia|]. rewrite push1_length. lia.
Qed.

(* the second loop: pop k times *)
Lemma Value_loop2_ok : forall fuel idx st en k gas (j : nat) tmp,
  (k <= gas)%nat -> (length tmp <= fuel)%nat -> idx - st = Z.of_nat (j + k) ->
  W.Value_loop2 LI fuel gas (W.mkIterator idx) g st en (mk tmp cmp) (Z.of_nat j) = Some (mk (Heap.popn cmp k tmp) cmp).
Proof.
  intros fuel idx st en k. induction k as [|k IH]; intros gas j tmp Hg Hf Hk.
  - cbn [Heap.popn]. destruct gas; cbn [W.Value_loop2 W.index]; replace (Z.of_nat j <? idx - st) with false by lia; reflexivity.
  - destruct gas as [|gas]; [lia|]. cbn [W.Value_loop2 W.index Heap.popn].
    replace (Z.of_nat j <? idx - st) with true by lia.
    rewrite Pop_equiv by exact Hf. destruct (Heap.pop cmp tmp) as [t' r] eqn:E. cbn [fst snd].
    destruct (opt_pair r) as [t5 t6]. replace (Z.of_nat j + 1) with (Z.of_nat (S j)) by lia.
    apply IH; [lia| |lia]. pose proof (pop_length cmp _ _ _ E). lia.
Qed.

(* OBLIGATION: the generated Value() at an index within range is the model's iter_value = the element of Heap.values
   at that index, for every fuel >= size + 2; it does not fail *)
Theorem Value_equiv : forall fuel (i : nat), (i < length h)%nat -> (length h + 2 <= fuel)%nat -> n < 2 ^ 62 ->
  W.Value LI fuel (W.mkIterator (Z.of_nat i)) g = Some (Heap.iter_value cmp h i) /\
  Heap.iter_value cmp h i = nth i (Heap.values cmp h) 0.
Proof.
  intros fuel i Hi Hf Hn. unfold n, zlen in Hn. split.
  - unfold W.Value. cbn [W.index]. rewrite evaluateRange_equiv by lia. cbv zeta.
    change (W.Size LI g) with (zlen h). change (W.NewWith LI (W.Comparator LI g)) with (mk [] cmp).
    unfold Heap.iter_value. set (st := Heap.level_start i).
    assert (Hst : (st <= i)%nat) by (unfold st; destruct (level_facts i ltac:(lia)) as (_ & _ & _ & -> & H5 & _); exact H5).
    set (stop := Nat.min (st + (st + 1)) (length h)).
    replace (if zlen h <? Z.of_nat (st + (st + 1)) then zlen h else Z.of_nat (st + (st + 1))) with (Z.of_nat stop)
      by (unfold stop, zlen; destruct (Z.of_nat (length h) <? Z.of_nat (st + (st + 1))) eqn:E; lia).
    assert (Hstop : (st <= stop <= length h)%nat) by (unfold stop; lia).
    replace stop with (st + (stop - st))%nat at 1 by lia.
    rewrite Value_loop1_ok by (cbn [length]; lia).
    set (tmp := fold_left (fun acc j => Heap.push cmp [get h j] acc) (seq st (stop - st)) []).
    assert (Ht : (length tmp <= length h)%nat) by (unfold tmp; rewrite tmp_length, seq_length; cbn [length]; lia).
    change 0 with (Z.of_nat 0) at 1.
    rewrite (Value_loop2_ok fuel (Z.of_nat i) (Z.of_nat st) _ (i - st) fuel 0 tmp) by lia.
    rewrite Pop_equiv by (pose proof (popn_length (i - st) tmp); lia).
    destruct (snd (Heap.pop cmp (Heap.popn cmp (i - st) tmp))) as [v|]; reflexivity.
  - unfold Heap.values. rewrite (nth_indep _ 0 (Heap.iter_value cmp h 0)) by (rewrite map_length, seq_length; lia).
    rewrite map_nth, seq_nth by lia. reflexivity.
Qed.

(* ---------- the index part of the iterator ---------- *)
(* OBLIGATION *)
Theorem Iterator_equiv : W.index (W.Heap_Iterator LI g) = -1.
Proof. reflexivity. Qed.

(* OBLIGATION *)
Theorem Next_equiv : step_equiv It W.index (fun it => W.Next LI it g) (ix_next n).
Proof.
  intros [i]. unfold W.Next, ix_next, W.set_index. cbn [W.index]. change (W.Size LI g) with n.
  destruct (Z.ltb_spec i n); cbn [W.index fst snd]; reflexivity.
Qed.

(* OBLIGATION *)
Theorem Prev_equiv : step_equiv It W.index (fun it => W.Prev LI it g) (ix_prev n).
Proof.
  intros [i]. unfold W.Prev, ix_prev, W.set_index. cbn [W.index].
  destruct (Z.leb_spec 0 i); cbn [W.index fst snd]; reflexivity.
Qed.

(* OBLIGATION *)
Theorem jumps_equiv : jump_equiv It W.index W.Begin ix_begin /\ jump_equiv It W.index (fun it => W.End LI it g) (ix_end n) /\
  (forall it, W.Index it = W.index it).
Proof. repeat split; intros [i]; reflexivity. Qed.

(* OBLIGATION *)
Theorem First_Last_equiv : forall it,
  ix_next n (ix_begin (W.index it)) = Some (W.index (fst (W.First LI it g)), snd (W.First LI it g)) /\
  ix_prev n (ix_end n (W.index it)) = Some (W.index (fst (W.Last LI it g)), snd (W.Last LI it g)).
Proof.
  intros it. split.
  - unfold W.First. pose proof (proj1 jumps_equiv it) as HB. destruct (W.Begin it) as [it1 u]. cbn [fst] in HB. rewrite <- HB.
    pose proof (Next_equiv it1) as HN. cbn beta in HN. destruct (W.Next LI it1 g) as [it2 b]. exact HN.
  - unfold W.Last. pose proof (proj1 (proj2 jumps_equiv) it) as HE. cbn beta in HE. destruct (W.End LI it g) as [it1 u]. cbn [fst] in HE. rewrite <- HE.
    pose proof (Prev_equiv it1) as HP. cbn beta in HP. destruct (W.Prev LI it1 g) as [it2 b]. exact HP.
Qed.

Definition value_at (i : Z) : option Z := if inrange n i then Some (Heap.iter_value cmp h (Z.to_nat i)) else None.

Lemma Value_inrange : forall fuel it, (length h + 2 <= fuel)%nat -> n < 2 ^ 62 -> inrange n (W.index it) = true ->
  W.Value LI fuel it g = Some (Heap.iter_value cmp h (Z.to_nat (W.index it))).
Proof.
  intros fuel [i] Hf Hn Hin. cbn [W.index] in *. unfold inrange, n, zlen in Hin.
  replace i with (Z.of_nat (Z.to_nat i)) at 1 by lia. apply Value_equiv; unfold n, zlen in *; lia.
Qed.

(* the search loops: the structure of Model/Iter.move_to, with the loop's own counter (gas) and the fuel of Value() *)
Lemma search_loop_ok : forall (gloop : nat -> nat -> It -> W.Heap LI -> (Z -> Z -> bool) -> option (It * bool))
    (gstep : It -> It * bool) (step : Z -> option (Z * bool)) (fuel : nat),
  (forall gas it f, gloop fuel gas it g f =
     match gas with
     | O => None
     | S gas' => let '(it', b) := gstep it in
                 if b then match W.Value LI fuel it' g with
                           | Some v => if f (W.Index it') v then Some (it', true) else gloop fuel gas' it' g f
                           | None => None
                           end
                 else Some (it', false)
     end) ->
  step_equiv It W.index gstep step -> (forall i i' b, step i = Some (i', b) -> b = inrange n i') ->
  (length h + 2 <= fuel)%nat -> n < 2 ^ 62 ->
  forall p gas it,
    match gloop fuel gas it g (pred_eval p), move_to Z (ix_cur value_at) step p gas (W.index it) with
    | Some (it', b), Some (i', b') => W.index it' = i' /\ b = b'
    | None, None => True
    | _, _ => False
    end.
Proof.
  intros gloop gstep step fuel Hun Hstep Hin Hf Hn p gas. induction gas as [|gas IH]; intros it; rewrite Hun; cbn [move_to]; [exact I|].
  rewrite (Hstep it). pose proof (Hin _ _ _ (Hstep it)) as Hb. destruct (gstep it) as [it' b]. cbn [fst snd] in *.
  destruct b; [|split; reflexivity].
  rewrite (Value_inrange fuel it' Hf Hn (eq_sym Hb)). unfold ix_cur, value_at. rewrite <- Hb.
  change (W.Index it') with (W.index it'). destruct (pred_eval p (W.index it') _); [split; reflexivity|apply IH].
Qed.

(* OBLIGATION: NextTo / PrevTo (with fuel = the script fuel size + 2, which is also enough for Value()) are Iter.move_to *)
Theorem NextTo_PrevTo_equiv : forall fuel p it, (length h + 2 <= fuel)%nat -> n < 2 ^ 62 ->
  match W.NextTo LI fuel it g (pred_eval p), move_to Z (ix_cur value_at) (ix_next n) p fuel (W.index it) with
  | Some (it', b), Some (i', b') => W.index it' = i' /\ b = b'
  | None, None => True
  | _, _ => False
  end /\
  match W.PrevTo LI fuel it g (pred_eval p), move_to Z (ix_cur value_at) (ix_prev n) p fuel (W.index it) with
  | Some (it', b), Some (i', b') => W.index it' = i' /\ b = b'
  | None, None => True
  | _, _ => False
  end.
Proof.
  intros fuel p it Hf Hn. split.
  - unfold W.NextTo. apply (search_loop_ok (W.NextTo_loop1 LI) (fun it => W.Next LI it g) (ix_next n) fuel); try assumption.
    + intros gas it0 f. destruct gas; [reflexivity|]. cbn [W.NextTo_loop1]. destruct (W.Next LI it0 g) as [it' [|]]; [|reflexivity].
      destruct (W.Value LI fuel it' g); reflexivity.
    + exact Next_equiv.
    + apply ix_next_inrange.
  - unfold W.PrevTo. apply (search_loop_ok (W.PrevTo_loop1 LI) (fun it => W.Prev LI it g) (ix_prev n) fuel); try assumption.
    + intros gas it0 f. destruct gas; [reflexivity|]. cbn [W.PrevTo_loop1]. destruct (W.Prev LI it0 g) as [it' [|]]; [|reflexivity].
      destruct (W.Value LI fuel it' g); reflexivity.
    + exact Prev_equiv.
    + apply ix_prev_inrange.
Qed.

Definition gen_iter_script (fuel : nat) (it : It) (cs : list icall) : list obs :=
  GenIterRunRel.gen_script It (fun it => Some (W.Next LI it g)) (fun it => Some (W.Prev LI it g))
    (fun it => Some (W.First LI it g)) (fun it => Some (W.Last LI it g))
    (fun it => Some (W.Begin it)) (fun it => Some (W.End LI it g)) (fun it => Some (W.Index it)) (fun it => W.Value LI fuel it g)
    (fun it f => W.NextTo LI fuel it g f) (fun it f => W.PrevTo LI fuel it g f) true it cs.

(* OBLIGATION: every script, run by the generated functions on the generated Iterator() with the machine's script fuel
   (size + 2), is the machine's run_iter on the heap = the bidirectional C08 cursor over Heap.values -- the enumeration
   the generated Values() loops over (BinaryHeapGenProofs.enum / Values_equiv); Value() never fails *)
Theorem gen_iter_is_cursor : forall c cs, kc c = cmp -> n < 2 ^ 62 ->
  gen_iter_script (S (S (Z.to_nat (W.Size LI g)))) (W.Heap_Iterator LI g) cs = run_iter c (StHeap h) cs /\
  gen_iter_script (S (S (Z.to_nat (W.Size LI g)))) (W.Heap_Iterator LI g) cs = cursor_script (enum g) true cs.
Proof.
  intros c cs Hc Hn.
  assert (Hfuel : (length h + 2 <= S (S (Z.to_nat (W.Size LI g))))%nat) by (change (W.Size LI g) with (zlen h); unfold zlen; lia).
  assert (E : gen_iter_script (S (S (Z.to_nat (W.Size LI g)))) (W.Heap_Iterator LI g) cs = run_iter c (StHeap h) cs).
  { unfold run_iter, script_fuel. cbn [size_of]. rewrite Hc. change (W.Size LI g) with (zlen h) in *. fold n. unfold gen_iter_script.
    change (fun i : Z => if inrange n i then Some (Heap.iter_value cmp h (Z.to_nat i)) else None) with value_at.
    apply (GenIterRunRel.gen_script_is_run_script It Z (fun it s => W.index it = s) (fun s => inrange n s = true)).
    - intros it s <-. cbn [sim_res]. pose proof (Next_equiv it) as H. cbn beta in H. rewrite H.
      destruct (W.Next LI it g) as [it' b]. split; reflexivity.
    - intros s s' H. symmetry. exact (ix_next_inrange n _ _ _ H).
    - intros _ s s' H. symmetry. exact (ix_prev_inrange n _ _ _ H).
    - intros it s <-. exists (fst (W.Begin it)). split; [destruct (W.Begin it) as [it' []]; reflexivity|]. apply (proj1 jumps_equiv).
    - intros it s <-. cbn [sim_res]. rewrite (proj1 (First_Last_equiv it)). destruct (W.First LI it g) as [it' b]. split; reflexivity.
    - intros it s <- Hin. unfold ix_cur, value_at. rewrite Hin. split; [reflexivity|]. now apply Value_inrange.
    - intros p it s <-. pose proof (proj1 (NextTo_PrevTo_equiv (S (S (Z.to_nat n))) p it Hfuel Hn)) as H. unfold sim_res.
      destruct (W.NextTo LI _ it g _) as [[it' b]|]; destruct (move_to _ _ _ _ _ _) as [[i' b']|]; exact H.
    - intros _ it s <-. cbn [sim_res]. pose proof (Prev_equiv it) as H. cbn beta in H. rewrite H.
      destruct (W.Prev LI it g) as [it' b]. split; reflexivity.
    - intros _ it s <-. exists (fst (W.End LI it g)). split; [destruct (W.End LI it g) as [it' []]; reflexivity|]. apply (proj1 (proj2 jumps_equiv)).
    - intros _ it s <-. cbn [sim_res]. rewrite (proj2 (First_Last_equiv it)). destruct (W.Last LI it g) as [it' b]. split; reflexivity.
    - intros _ p it s <-. pose proof (proj2 (NextTo_PrevTo_equiv (S (S (Z.to_nat n))) p it Hfuel Hn)) as H. unfold sim_res.
      destruct (W.PrevTo LI _ it g _) as [[it' b]|]; destruct (move_to _ _ _ _ _ _) as [[i' b']|]; exact H.
    - reflexivity. }
  split; [exact E|]. rewrite E, (iter_Heap c h cs). unfold values_of, enum. cbn [W.Comparator W.list_]. now rewrite Hc.
Qed.
End WithHeap.

Print Assumptions Value_equiv.
Print Assumptions Iterator_equiv.
Print Assumptions Next_equiv.
Print Assumptions Prev_equiv.
Print Assumptions jumps_equiv.
Print Assumptions First_Last_equiv.
Print Assumptions NextTo_PrevTo_equiv.
Print Assumptions gen_iter_is_cursor.
