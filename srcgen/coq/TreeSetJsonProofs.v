(* sets/treeset/serialization.go (in GodsGen.TreeSetGen), encoding/json abstract: FromJSON is atomic on a decode error
   and otherwise Machine.load_array (Clear, then Add(elements...)); ToJSON marshals Values(); delegation. *)
From Coq Require Import ZArith List Lia Bool Arith.
From Gods Require Import Common.Cmp Common.ListAux Spec.SeqSpec Model.Ops Model.Machine.
From Gods Require Model.RBTree.
From GodsGen Require TreeSetGen.
From GodsGenProofs Require Import GenIterRun WrapCommon GoCmp GoJson TreeSetGenProofs.
Import ListNotations.
Local Open Scope Z_scope.

Section Json.
Variable um : bytes -> list Z -> list Z * bool.
Variable ms : list Z -> bytes * bool.
Variable c : config.
Hypothesis Hk : ckind c = TreeSet.
Variables (t : RB.tree) (n : Z).
Notation g := (T.mkSet I (kc c, Some (t, n))).

(* OBLIGATION *)
Theorem FromJSON_equiv : forall data,
  if snd (um data []) then T.FromJSON um I g data = (g, true)
  else st (T.tree I (fst (T.FromJSON um I g data))) = load_array c (fst (um data [])) /\ snd (T.FromJSON um I g data) = false.
Proof.
  intros data. unfold T.FromJSON. destruct (um data []) as [vs e]. destruct e; cbn [fst snd negb]; [reflexivity|].
  destruct (T.Clear I g) as [g1 u1] eqn:EC.
  assert (Hg1 : g1 = T.mkSet I (kc c, Some rbs_empty)) by (unfold T.Clear in EC; cbn in EC; now injection EC as <- _).
  subst g1. destruct (Add_equiv c Hk (T.mkSet I (kc c, Some rbs_empty)) eq_refl vs) as [HA _].
  destruct (T.Add I (T.mkSet I (kc c, Some rbs_empty)) vs) as [g2 u2]. cbn [fst snd] in *. split; [|reflexivity].
  rewrite HA. unfold st, load_array, step, init. cbn [T.tree snd rbs_empty]. now rewrite Hk.
Qed.

(* OBLIGATION *)
Theorem ToJSON_equiv :
  T.ToJSON ms I g = ms (T.Values I g) /\ T.MarshalJSON ms I g = T.ToJSON ms I g /\
  (forall data, T.UnmarshalJSON um I g data = T.FromJSON um I g data).
Proof.
  unfold T.ToJSON, T.MarshalJSON, T.UnmarshalJSON. repeat split.
  - now destruct (ms (T.Values I g)).
  - unfold T.ToJSON. now destruct (ms (T.Values I g)).
  - intros data. now destruct (T.FromJSON um I g data).
Qed.
End Json.

Print Assumptions FromJSON_equiv.
Print Assumptions ToJSON_equiv.
