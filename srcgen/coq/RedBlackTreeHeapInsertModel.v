(* PURE part (no heap) of the proof of Put: the bottom-up fix-up of trees/redblacktree/redblacktree.go (insertCase1..5), written as
   a function [pfix] on address-carrying trees and paths, computes what the model's recursive RB.ins / RB.put (Model/RBTree.v)
   computes.  [pins] is RB.ins on address-carrying trees (the rotations keep the node identities exactly as the pointer
   code does); [pfix T rp] is the pending call insertCase1(node at path rev rp). *)
From Coq Require Import ZArith List Lia Bool Arith.
From Gods Require Import Common.Cmp Model.RBTree.
From GodsGenProofs Require Import GoCmp GoTreeHeap RBTreeHeapRep.
Import ListNotations.
Local Open Scope Z_scope.

Definition pcol (t : ptree) : RB.color := match t with PE => RB.Black | PT _ c _ _ _ _ => c end.
Definition pis_red (t : ptree) : bool := match pcol t with RB.Red => true | RB.Black => false end.
Definition psetcol (c : RB.color) (t : ptree) : ptree := match t with PE => PE | PT a _ l k v r => PT a c l k v r end.

Lemma erase_psetcol : forall c t, erase (psetcol c t) = RB.setcol c (erase t).
Proof. destruct t; reflexivity. Qed.
Lemma is_red_erase : forall t, RB.is_red (erase t) = pis_red t.
Proof. destruct t; reflexivity. Qed.

(* RB.ins_fix_g with addresses: g = the grandparent's address *)
Definition pins_fix_g (g : nat) (gc : RB.color) (gl : ptree) (gk gv : Z) (gr : ptree) (s d : RB.side) : option (ptree * RB.istat) :=
  match s with
  | RB.L =>
    if pis_red gr then Some (PT g RB.Red (psetcol RB.Black gl) gk gv (psetcol RB.Black gr), RB.ICheck)
    else match gl with
      | PE => None
      | PT p _ pl pk pv pr =>
        match d with
        | RB.L => Some (PT p RB.Black pl pk pv (PT g RB.Red pr gk gv gr), RB.IDone)
        | RB.R =>
            match pr with
            | PE => None
            | PT n _ nl nk nv nr =>
              Some (PT n RB.Black (PT p RB.Red pl pk pv nl) nk nv (PT g RB.Red nr gk gv gr), RB.IDone)
            end
        end
      end
  | RB.R =>
    if pis_red gl then Some (PT g RB.Red (psetcol RB.Black gl) gk gv (psetcol RB.Black gr), RB.ICheck)
    else match gr with
      | PE => None
      | PT p _ pl pk pv pr =>
        match d with
        | RB.R => Some (PT p RB.Black (PT g RB.Red gl gk gv pl) pk pv pr, RB.IDone)
        | RB.L => match pl with
            | PE => None
            | PT n _ nl nk nv nr =>
              Some (PT n RB.Black (PT g RB.Red gl gk gv nl) nk nv (PT p RB.Red nr pk pv pr), RB.IDone)
            end
        end
      end
  end.

Definition pins_up (a : nat) (c : RB.color) (l : ptree) (k v : Z) (r : ptree) (s : RB.side) (st : RB.istat) : option (ptree * RB.istat) :=
  match st with
  | RB.IDone => Some (PT a c l k v r, RB.IDone)
  | RB.ICheck => match c with
                 | RB.Black => Some (PT a c l k v r, RB.IDone)
                 | RB.Red => Some (PT a c l k v r, RB.IRedRed s)
                 end
  | RB.IRedRed d => pins_fix_g a c l k v r s d
  end.

(* x = the address of the node Put allocates *)
Fixpoint pins (cmp : cmpf) (key val : Z) (x : nat) (t : ptree) : option (ptree * RB.istat * bool) :=
  match t with
  | PE => Some (PT x RB.Red PE key val PE, RB.ICheck, true)
  | PT a c l k v r =>
    match cmp key k with
    | Eq => Some (PT a c l key val r, RB.IDone, false)
    | Lt => match pins cmp key val x l with
            | None => None
            | Some (l', st, b) => match pins_up a c l' k v r RB.L st with
                                  | None => None | Some (t', st') => Some (t', st', b) end
            end
    | Gt => match pins cmp key val x r with
            | None => None
            | Some (r', st, b) => match pins_up a c l k v r' RB.R st with
                                  | None => None | Some (t', st') => Some (t', st', b) end
            end
    end
  end.

Definition omap {A B} (f : A -> B) (o : option A) : option B := match o with Some a => Some (f a) | None => None end.

Lemma erase_pins_fix_g : forall g gc gl gk gv gr s d,
  omap (fun r => (erase (fst r), snd r)) (pins_fix_g g gc gl gk gv gr s d) =
  RB.ins_fix_g gc (erase gl) gk gv (erase gr) s d.
Proof.
  intros g gc gl gk gv gr s d. unfold pins_fix_g, RB.ins_fix_g. destruct s.
  - rewrite is_red_erase. destruct (pis_red gr); [cbn; now rewrite !erase_psetcol|].
    destruct gl as [|p pc pl pk pv pr]; [reflexivity|]. destruct d; [reflexivity|].
    destruct pr; reflexivity.
  - rewrite is_red_erase. destruct (pis_red gl); [cbn; now rewrite !erase_psetcol|].
    destruct gr as [|p pc pl pk pv pr]; [reflexivity|]. destruct d; [|reflexivity].
    destruct pl; reflexivity.
Qed.

Lemma erase_pins_up : forall a c l k v r s st,
  omap (fun r => (erase (fst r), snd r)) (pins_up a c l k v r s st) = RB.ins_up c (erase l) k v (erase r) s st.
Proof.
  intros. destruct st; cbn [pins_up RB.ins_up]; [reflexivity|destruct c; reflexivity|apply (erase_pins_fix_g a)].
Qed.

(* OBLIGATION *)
Lemma erase_pins : forall cmp key val x t,
  omap (fun r => (erase (fst (fst r)), snd (fst r), snd r)) (pins cmp key val x t) = RB.ins cmp key val (erase t).
Proof.
  intros cmp key val x. induction t as [|a c l IHl k v r IHr]; [reflexivity|].
  cbn [pins RB.ins erase]. destruct (cmp key k); [reflexivity| |].
  - rewrite <- IHl. destruct (pins cmp key val x l) as [[[l' st] b]|]; [|reflexivity]. cbn [omap fst snd].
    rewrite <- (erase_pins_up a c l' k v r RB.L st). destruct (pins_up a c l' k v r RB.L st) as [[t' st']|]; reflexivity.
  - rewrite <- IHr. destruct (pins cmp key val x r) as [[[r' st] b]|]; [|reflexivity]. cbn [omap fst snd].
    rewrite <- (erase_pins_up a c l k v r' RB.R st). destruct (pins_up a c l k v r' RB.R st) as [[t' st']|]; reflexivity.
Qed.
Print Assumptions erase_pins.

(* ---------- total subtree access ---------- *)
Fixpoint pget (t : ptree) (p : list RB.side) {struct p} : ptree :=
  match p with
  | [] => t
  | d :: p' => match t with PE => PE | PT _ _ l _ _ r => pget (pchild d l r) p' end
  end.

Lemma pget_app : forall p q t, pget t (p ++ q) = pget (pget t p) q.
Proof.
  induction p as [|d p IH]; intros q t; [reflexivity|]. cbn [app pget]. destruct t; [|apply IH].
  destruct q; reflexivity.
Qed.
Lemma pget_PE : forall p, pget PE p = PE.
Proof. destruct p; reflexivity. Qed.
Lemma pget_psub : forall p t, pget t p <> PE -> psub t p = Some (pget t p).
Proof.
  induction p as [|d p IH]; intros t H; cbn [pget psub] in *.
  - destruct t; [congruence|reflexivity].
  - destruct t; [congruence|]. now apply IH.
Qed.
Lemma psub_pget : forall p t s, psub t p = Some s -> pget t p = s.
Proof.
  induction p as [|d p IH]; intros t s H; cbn [pget psub] in *.
  - destruct t; [discriminate|]. now injection H.
  - destruct t; [discriminate|]. now apply IH.
Qed.
Lemma pget_pupd : forall p t s, pget t p <> PE -> pget (pupd t p s) p = s.
Proof.
  induction p as [|d p IH]; intros t s H; [reflexivity|]. cbn [pget pupd] in *.
  destruct t as [|a c l k v r]; [congruence|]. destruct d; cbn [pget pchild] in *; now apply IH.
Qed.
Lemma pupd_pupd : forall p t s1 s2, pupd (pupd t p s1) p s2 = pupd t p s2.
Proof.
  induction p as [|d p IH]; intros t s1 s2; [reflexivity|]. cbn [pupd].
  destruct t as [|a c l k v r]; [reflexivity|]. destruct d; cbn [pupd]; now rewrite IH.
Qed.
Lemma pupd_pget : forall p t, pupd t p (pget t p) = t.
Proof.
  induction p as [|d p IH]; intros t; [reflexivity|]. cbn [pupd pget].
  destruct t as [|a c l k v r]; [reflexivity|]. destruct d; cbn [pchild]; now rewrite IH.
Qed.
Lemma pupd_app_get : forall p q t s, pupd t (p ++ q) s = pupd t p (pupd (pget t p) q s).
Proof.
  induction p as [|d p IH]; intros q t s; [reflexivity|]. cbn [app pupd pget].
  destruct t as [|a c l k v r].
  - reflexivity.
  - destruct d; cbn [pchild]; now rewrite IH.
Qed.
Lemma pget_snoc_PT : forall t q d a c l k v r, pget t q = PT a c l k v r -> pget t (q ++ [d]) = pchild d l r.
Proof. intros. rewrite pget_app, H. reflexivity. Qed.

(* ---------- the bottom-up fix-up: insertCase1 pending at the node at path [rev rp] ---------- *)
Fixpoint pfix (T : ptree) (rp : list RB.side) {struct rp} : option ptree :=
  match rp with
  | [] => Some (psetcol RB.Black T)                         (* insertCase1: the root becomes black *)
  | d :: rq =>
    match pget T (rev rq) with                              (* the parent *)
    | PE => None
    | PT _ RB.Black _ _ _ _ => Some T                       (* insertCase2 *)
    | PT _ RB.Red _ _ _ _ =>
      match rq with
      | [] => None                                          (* red root: the nil grandparent is dereferenced *)
      | e :: rg =>
        match pget T (rev rg) with                          (* the grandparent *)
        | PE => None
        | PT g gc gl gk gv gr =>
          match pins_fix_g g gc gl gk gv gr e d with        (* insertCase3 / 4 / 5 *)
          | None => None
          | Some (G', RB.ICheck) => pfix (pupd T (rev rg) G') rg
          | Some (G', _) => Some (pupd T (rev rg) G')
          end
        end
      end
    end
  end.

(* what remains to be done above the subtree at q once the model has processed it with status st *)
Definition cont (T : ptree) (q : list RB.side) (s' : ptree) (st : RB.istat) : option ptree :=
  match st with
  | RB.IDone => Some (pupd T q s')
  | RB.ICheck => pfix (pupd T q s') (rev q)
  | RB.IRedRed d => pfix (pupd T q s') (d :: rev q)
  end.

(* the path Put's loop descends, and the tree with the new red leaf linked in (no rebalancing yet) *)
Fixpoint dpath (cmp : cmpf) (key : Z) (t : ptree) : list RB.side :=
  match t with
  | PE => []
  | PT _ _ l k _ r => match cmp key k with Eq => [] | Lt => RB.L :: dpath cmp key l | Gt => RB.R :: dpath cmp key r end
  end.

Lemma pins_redred_red : forall cmp key val x t t' d b, pins cmp key val x t = Some (t', RB.IRedRed d, b) -> pcol t' = RB.Red.
Proof.
  intros cmp key val x. induction t as [|a c l IHl k v r IHr]; intros t' d b H; [discriminate|].
  cbn [pins] in H. destruct (cmp key k); [discriminate| |].
  - destruct (pins cmp key val x l) as [[[l' st] b']|]; [|discriminate].
    destruct st as [| |d']; cbn [pins_up] in H.
    + discriminate.
    + destruct c; [|discriminate]. injection H as <- _ _. reflexivity.
    + unfold pins_fix_g in H. destruct (pis_red r); [discriminate|]. destruct l' as [|? ? ? ? ? pr]; [discriminate|].
      destruct d'; [discriminate|]. destruct pr; discriminate.
  - destruct (pins cmp key val x r) as [[[r' st] b']|]; [|discriminate].
    destruct st as [| |d']; cbn [pins_up] in H.
    + discriminate.
    + destruct c; [|discriminate]. injection H as <- _ _. reflexivity.
    + unfold pins_fix_g in H. destruct (pis_red l); [discriminate|]. destruct r' as [|? ? pl ? ? ?]; [discriminate|].
      destruct d'; [|discriminate]. destruct pl; discriminate.
Qed.

(* every proper prefix of the path leads to a node *)
Fixpoint pvalid (t : ptree) (p : list RB.side) {struct p} : Prop :=
  match p with
  | [] => True
  | d :: p' => match t with PE => False | PT _ _ l _ _ r => pvalid (pchild d l r) p' end
  end.
Lemma pvalid_snoc : forall p t d, pvalid t p -> pget t p <> PE -> pvalid t (p ++ [d]).
Proof.
  induction p as [|e p IH]; intros t d Hv Hg; cbn [app pvalid pget] in *.
  - destruct t; [congruence|exact I].
  - destruct t; [contradiction|]. now apply IH.
Qed.
Lemma pget_pupd_valid : forall p t s, pvalid t p -> pget (pupd t p s) p = s.
Proof.
  induction p as [|d p IH]; intros t s H; [reflexivity|]. cbn [pget pupd pvalid] in *.
  destruct t as [|a c l k v r]; [contradiction|]. destruct d; cbn [pget pchild] in *; now apply IH.
Qed.
Lemma pvalid_pupd : forall p t s, pvalid t p -> pvalid (pupd t p s) p.
Proof.
  induction p as [|d p IH]; intros t s H; [exact I|]. cbn [pupd pvalid] in *.
  destruct t as [|a c l k v r]; [contradiction|]. destruct d; cbn [pvalid pchild] in *; now apply IH.
Qed.
Lemma pvalid_of_get : forall p t, pget t p <> PE -> pvalid t p.
Proof.
  induction p as [|d p IH]; intros t H; [exact I|]. cbn [pget pvalid] in *. destruct t; [congruence|]. now apply IH.
Qed.

Lemma pins_fix_g_status : forall g gc gl gk gv gr s d G' st,
  pins_fix_g g gc gl gk gv gr s d = Some (G', st) -> st = RB.ICheck \/ st = RB.IDone.
Proof.
  intros g gc gl gk gv gr s d G' st H. unfold pins_fix_g in H. destruct s.
  - destruct (pis_red gr); [injection H as _ <-; now left|]. destruct gl as [|? ? ? ? ? pr]; [discriminate|].
    destruct d; [injection H as _ <-; now right|]. destruct pr; [discriminate|]. injection H as _ <-. now right.
  - destruct (pis_red gl); [injection H as _ <-; now left|]. destruct gr as [|? ? pl ? ? ?]; [discriminate|].
    destruct d; [|injection H as _ <-; now right]. destruct pl; [discriminate|]. injection H as _ <-. now right.
Qed.

Definition leaf (x : nat) (key val : Z) : ptree := PT x RB.Red PE key val PE.

Lemma pfix_pins_gen : forall cmp key val x s T q s' st,
  pget T q = s -> pvalid T q ->
  pins cmp key val x s = Some (s', st, true) ->
  pfix (pupd T q (pupd s (dpath cmp key s) (leaf x key val))) (rev (q ++ dpath cmp key s)) = cont T q s' st.
Proof.
  intros cmp key val x. induction s as [|a c l IHl k v r IHr]; intros T q s' st Hg Hv Hp.
  - cbn [pins] in Hp. injection Hp as <- <-. cbn [dpath pupd cont]. now rewrite app_nil_r.
  - cbn [pins dpath] in *. destruct (cmp key k) eqn:Ecmp; [discriminate| |].
    + destruct (pins cmp key val x l) as [[[l' stl] bl]|] eqn:El; [|discriminate].
      destruct (pins_up a c l' k v r RB.L stl) as [[s'' st'']|] eqn:Eup; [|discriminate]. injection Hp as -> -> ->.
      assert (Hgl : pget T (q ++ [RB.L]) = l) by (rewrite (pget_snoc_PT _ _ RB.L _ _ _ _ _ _ Hg); reflexivity).
      assert (Hvl : pvalid T (q ++ [RB.L])) by (apply pvalid_snoc; [exact Hv|rewrite Hg; discriminate]).
      pose proof (IHl T (q ++ [RB.L]) l' stl Hgl Hvl eq_refl) as IH.
      rewrite pupd_app_get, Hg in IH. cbn [pupd] in IH. rewrite <- app_assoc in IH. cbn [app] in IH.
      cbn [pupd]. rewrite IH. clear IH.
      assert (Hup : forall X, pupd T (q ++ [RB.L]) X = pupd T q (PT a c X k v r)) by (intro X; rewrite pupd_app_get, Hg; reflexivity).
      destruct stl as [| |d]; cbn [pins_up] in Eup; cbn [cont].
      * injection Eup as <- <-. cbn [cont]. now rewrite Hup.
      * rewrite Hup, rev_app_distr. cbn [rev app].
        destruct c; injection Eup as <- <-; cbn [cont]; [reflexivity|].
        cbn [pfix]. rewrite rev_involutive, pget_pupd_valid by exact Hv. reflexivity.
      * rewrite Hup, rev_app_distr. cbn [rev app]. cbn [pfix].
        assert (Hpar : pget (pupd T q (PT a c l' k v r)) (rev (RB.L :: rev q)) = l').
        { cbn [rev]. rewrite rev_involutive, pget_app, pget_pupd_valid by exact Hv. reflexivity. }
        rewrite Hpar. pose proof (pins_redred_red _ _ _ _ _ _ _ _ El) as Hred.
        destruct l' as [|la lc ll lk lv lr]; [discriminate|]. cbn [pcol] in Hred. subst lc.
        rewrite rev_involutive, pget_pupd_valid by exact Hv. rewrite Eup.
        destruct (pins_fix_g_status _ _ _ _ _ _ _ _ _ _ Eup) as [->| ->]; cbn [cont]; now rewrite pupd_pupd.
    + destruct (pins cmp key val x r) as [[[r' str] br]|] eqn:Er; [|discriminate].
      destruct (pins_up a c l k v r' RB.R str) as [[s'' st'']|] eqn:Eup; [|discriminate]. injection Hp as -> -> ->.
      assert (Hgr : pget T (q ++ [RB.R]) = r) by (rewrite (pget_snoc_PT _ _ RB.R _ _ _ _ _ _ Hg); reflexivity).
      assert (Hvr : pvalid T (q ++ [RB.R])) by (apply pvalid_snoc; [exact Hv|rewrite Hg; discriminate]).
      pose proof (IHr T (q ++ [RB.R]) r' str Hgr Hvr eq_refl) as IH.
      rewrite pupd_app_get, Hg in IH. cbn [pupd] in IH. rewrite <- app_assoc in IH. cbn [app] in IH.
      cbn [pupd]. rewrite IH. clear IH.
      assert (Hup : forall X, pupd T (q ++ [RB.R]) X = pupd T q (PT a c l k v X)) by (intro X; rewrite pupd_app_get, Hg; reflexivity).
      destruct str as [| |d]; cbn [pins_up] in Eup; cbn [cont].
      * injection Eup as <- <-. cbn [cont]. now rewrite Hup.
      * rewrite Hup, rev_app_distr. cbn [rev app].
        destruct c; injection Eup as <- <-; cbn [cont]; [reflexivity|].
        cbn [pfix]. rewrite rev_involutive, pget_pupd_valid by exact Hv. reflexivity.
      * rewrite Hup, rev_app_distr. cbn [rev app]. cbn [pfix].
        assert (Hpar : pget (pupd T q (PT a c l k v r')) (rev (RB.R :: rev q)) = r').
        { cbn [rev]. rewrite rev_involutive, pget_app, pget_pupd_valid by exact Hv. reflexivity. }
        rewrite Hpar. pose proof (pins_redred_red _ _ _ _ _ _ _ _ Er) as Hred.
        destruct r' as [|ra rc rl rk rv rr]; [discriminate|]. cbn [pcol] in Hred. subst rc.
        rewrite rev_involutive, pget_pupd_valid by exact Hv. rewrite Eup.
        destruct (pins_fix_g_status _ _ _ _ _ _ _ _ _ _ Eup) as [->| ->]; cbn [cont]; now rewrite pupd_pupd.
Qed.

(* the fix-up started at the freshly linked red leaf computes the model's insertion *)
(* OBLIGATION *)
Theorem pfix_pins : forall cmp key val x t t' st,
  pins cmp key val x t = Some (t', st, true) ->
  pfix (pupd t (dpath cmp key t) (leaf x key val)) (rev (dpath cmp key t)) =
    match st with RB.IDone => Some t' | RB.ICheck => Some (psetcol RB.Black t') | RB.IRedRed _ => None end.
Proof.
  intros cmp key val x t t' st H. pose proof (pfix_pins_gen cmp key val x t t [] t' st eq_refl I H) as G.
  cbn [pupd app] in G. rewrite G. destruct st as [| |d]; cbn [cont pupd rev pfix app]; try reflexivity.
  pose proof (pins_redred_red _ _ _ _ _ _ _ _ H) as Hred. destruct t' as [|? c ? ? ? ?]; [discriminate|]. cbn [pcol] in Hred. subst c.
  reflexivity.
Qed.
Print Assumptions pfix_pins.

(* the overwrite case: nothing but the node at the end of the descent changes *)
Lemma pins_found : forall cmp key val x t t' st,
  pins cmp key val x t = Some (t', st, false) ->
  exists a c l k v r, pget t (dpath cmp key t) = PT a c l k v r /\ cmp key k = Eq /\
    t' = pupd t (dpath cmp key t) (PT a c l key val r) /\ st = RB.IDone.
Proof.
  intros cmp key val x. induction t as [|a c l IHl k v r IHr]; intros t' st H; [discriminate|].
  cbn [pins dpath] in *. destruct (cmp key k) eqn:Ecmp.
  - injection H as <- <-. exists a, c, l, k, v, r. repeat split; assumption.
  - destruct (pins cmp key val x l) as [[[l' stl] bl]|] eqn:El; [|discriminate].
    destruct (pins_up a c l' k v r RB.L stl) as [[s'' st'']|] eqn:Eup; [|discriminate]. injection H as <- <- ->.
    destruct (IHl l' stl eq_refl) as (a0 & c0 & l0 & k0 & v0 & r0 & Hg & Hc & -> & ->).
    cbn [pins_up] in Eup. injection Eup as <- <-. exists a0, c0, l0, k0, v0, r0. repeat split; assumption.
  - destruct (pins cmp key val x r) as [[[r' str] br]|] eqn:Er; [|discriminate].
    destruct (pins_up a c l k v r' RB.R str) as [[s'' st'']|] eqn:Eup; [|discriminate]. injection H as <- <- ->.
    destruct (IHr r' str eq_refl) as (a0 & c0 & l0 & k0 & v0 & r0 & Hg & Hc & -> & ->).
    cbn [pins_up] in Eup. injection Eup as <- <-. exists a0, c0, l0, k0, v0, r0. repeat split; assumption.
Qed.
