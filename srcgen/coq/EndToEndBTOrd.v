(* END-TO-END COROLLARIES for trees/btree, property C02 (see EndToEndBT.v) *)
From Coq Require Import ZArith List Lia Bool Arith Sorted SetoidList.
From Gods Require Import Common.Cmp Common.ListAux Spec.MapSpec Spec.SeqSpec Model.Ops Model.Machine Model.BTree Model.BTreeCost Model.BTreeIter Model.Iter.
From Gods Require Proofs.BTreeInv Proofs.BTreeMap Proofs.BTreeBounds Proofs.BTreeCostProofs Proofs.MapSpecProofs Proofs.MachineMaps Proofs.MachineTrees
  Proofs.IterLinear Proofs.IterTreeMachine Proofs.IterTreeRB Proofs.IterTreeBT.
From GodsGen Require BTreeHeapGen.
From GodsGenProofs Require Import GoCmp GoTreeHeap GoBTreeHeap BTreeHeapRep BTreeHeapReadProofs BTreeHeapIterProofs BTreeHeapIterToProofs.
From GodsGenProofs Require Import BTreeHeapPutProofs BTreeHeapRemoveProofs EndToEndBT.
Import ListNotations.
Local Open Scope Z_scope.

(* OBLIGATION (C02): after ANY generated run the entries are strictly ascending under the comparator and LeftKey() / LeftValue() /
   RightKey() / RightValue() are those of the least / greatest entry (nil exactly on the empty tree) -- Properties/C02.v:
   C02_Entries_sorted, C02_Left, C02_Right; the gods B-tree has no Floor / Ceiling *)
Theorem gen_bt_ordered : forall mag c ops fuel, ckind c = BTree -> 3 <= corder c -> (4 * length ops + bt_m c + 3 <= fuel)%nat ->
  let es := mrun (kc c) (map to_mop ops) in
  exists ncmp h tr ot, bt_gen_run mag (corder c) (kc c) fuel ops = Some (ncmp, h, tr) /\ tree_repr h tr ot /\ bt_inorder ot = es /\
    ksorted (kc c) es /\
    G.LeftKey fuel h tr = Some (option_map fst (hd_error es)) /\ G.LeftValue fuel h tr = Some (option_map snd (hd_error es)) /\
    G.RightKey fuel h tr = Some (option_map fst (last_opt es)) /\ G.RightValue fuel h tr = Some (option_map snd (last_opt es)).
Proof.
  intros mag c ops fuel K Ho Hf es.
  destruct (gen_bt_reach mag c ops fuel K Ho Hf) as (ncmp & h & tr & ot & Hrun & Hm & Hrepr & Hok & Hcmp & Htm & Hinv & Hsort & Hmh & Hcnt).
  destruct (bt_valid c K Ho) as (Hv & Hord & Hc & Hl). destruct (inv_size_ok _ _ _ _ Hrepr Hinv) as (Hso & Hwf).
  assert (Hes : bt_inorder ot = es).
  { pose proof (MM.refines_tree c (map to_op ops) Hv Hl) as E. rewrite Hm, Hc, hist_to_op in E. exact E. }
  exists ncmp, h, tr, ot. split; [exact Hrun|]. split; [exact Hrepr|]. split; [exact Hes|].
  split; [pose proof (MM.C02_sorted c (map to_op ops) Hv Hord) as E; rewrite Hm in E; cbn [entries_of] in E; rewrite Hes in E; exact E|].
  pose proof (MM.C02_left c (map to_op ops) Hv Hord) as EL. rewrite Hm in EL. cbn [MM.left_of entries_of] in EL. rewrite Hes in EL.
  pose proof (MM.C02_right c (map to_op ops) Hv Hord) as ER. rewrite Hm in ER. cbn [MM.right_of entries_of] in ER. rewrite Hes in ER.
  pose proof (LeftKey_RightKey_correct h tr ot fuel (proj1 Hrepr) Hso ltac:(lia)) as HL.
  assert (EL' : hd_error es = match ot with Some n => BT.left_entry n | None => None end) by (symmetry; exact EL).
  assert (ER' : last_opt es = match ot with Some n => BT.right_entry n | None => None end) by (symmetry; exact ER).
  assert (Hne : ot <> None -> es <> []).
  { intros Hn E. destruct ot as [[el cs]|]; [|congruence]. pose proof (MT.bt_count_inorder (Some (BT.N el cs))) as Hct. rewrite Hes, E in Hct.
    destruct Hinv as (hh & _ & Hcn). apply BTreeInv.cnt_inv in Hcn. cbn [MT.bt_count BT.count length] in Hct. lia. }
  destruct ot as [t|]; [|rewrite EL', ER'; exact HL]. specialize (Hne ltac:(discriminate)).
  destruct HL as (L1 & L2 & R1 & R2). rewrite L1, L2, R1, R2, <- EL', <- ER'.
  assert (Hlo : last_opt es <> None) by (unfold last_opt; intro E; apply nth_error_None in E; destruct es; [congruence|cbn [length] in E; lia]).
  destruct es as [|e0 es']; [congruence|]. cbn [hd_error option_map]. destruct (last_opt (e0 :: es')); [repeat split|congruence].
Qed.
Print Assumptions gen_bt_ordered.

