(* serialization.go of PriorityQueue (in GodsGen.PriorityQueueWrapGen): for ANY interface J of the wrapped container, ToJSON is the wrapped container's
   ToJSON, FromJSON its FromJSON (the new state stored back, the error passed on -- nothing else happens, no alternative
   path), MarshalJSON = ToJSON, UnmarshalJSON = FromJSON. *)
From Coq Require Import ZArith List Bool.
From GodsGen Require PriorityQueueWrapGen.
From GodsGenProofs Require Import GoJson.
Import ListNotations.

Module PQ := PriorityQueueWrapGen.

(* OBLIGATION *)
Theorem PriorityQueue_json_delegates : forall J s d,
  PQ.ToJSON J s = PQ.heap_ToJSON J (PQ.heap J s) /\
  PQ.FromJSON J s d = (PQ.set_heap J s (fst (PQ.heap_FromJSON J (PQ.heap J s) d)), snd (PQ.heap_FromJSON J (PQ.heap J s) d)) /\
  PQ.MarshalJSON J s = PQ.ToJSON J s /\ PQ.UnmarshalJSON J s d = PQ.FromJSON J s d.
Proof.
  intros J s d. unfold PQ.ToJSON, PQ.FromJSON, PQ.MarshalJSON, PQ.UnmarshalJSON, PQ.ToJSON, PQ.FromJSON.
  destruct (PQ.heap_ToJSON J (PQ.heap J s)), (PQ.heap_FromJSON J (PQ.heap J s) d). repeat split.
Qed.
Print Assumptions PriorityQueue_json_delegates.
