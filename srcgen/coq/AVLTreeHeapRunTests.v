(* NOT PROOFS FOR ALL INPUTS: concrete runs of the GENERATED Put / Remove of the AVL tree (put, putFix, remove, removeMin,
   removeFix, singlerot, doublerot, rotate on **Node links -- GodsGen.AVLTreeHeapGen) evaluated INSIDE Coq (vm_compute) and
   compared, after every operation, with the functional model AVL.put / AVL.remove (Model/AVLTree.v): the heap reachable
   from Tree.Root is read back (keys, values, BALANCE FACTORS, shape), every Parent pointer is checked against the node it
   was reached from, the addresses are checked to be distinct, Tree.size = AVL.count, and the number of comparator calls
   = AVL.put_cost / AVL.remove_cost (C07).  4 comparators x (48 insertions with repeated keys, then 64 removals incl.
   absent keys).  The general theorems about the insertion path are in AVLTreeHeapRotProofs.v / AVLTreeHeapPutProofs.v;
   for Remove see AVLTreeHeapRemoveProofs.v. *)
From Coq Require Import ZArith List Lia Bool Arith.
From Gods Require Import Common.Cmp Model.AVLTree.
From GodsGenProofs Require Import GoCmp GoTreeHeap GoTreeLink AVLTreeHeapRep.
From GodsGen Require AVLTreeHeapGen.
Import ListNotations.
Local Open Scope Z_scope.

(* read the tree back from the heap, checking the Parent pointers; also the list of addresses *)
Fixpoint readback (fuel : nat) (h : heap G.Node) (p pp : ptr) : option (AVL.tree * list nat) :=
  match fuel with
  | O => None
  | S f =>
    match p with
    | None => Some (AVL.E, [])
    | Some a =>
      match hread h a with
      | None => None
      | Some n =>
        if negb (ptr_eqb (G.Node_Parent n) pp) then None else
        match readback f h (fst (G.Node_Children n)) p, readback f h (snd (G.Node_Children n)) p with
        | Some (l, al), Some (r, ar) => Some (AVL.T (G.Node_b n) l (G.Node_Key n) (G.Node_Value n) r, a :: al ++ ar)
        | _, _ => None
        end
      end
    end
  end.

Fixpoint teq (a b : AVL.tree) : bool :=
  match a, b with
  | AVL.E, AVL.E => true
  | AVL.T c l k v r, AVL.T c' l' k' v' r' => (c =? c') && teq l l' && (k =? k') && (v =? v') && teq r r'
  | _, _ => false
  end.
Fixpoint nodupb (l : list nat) : bool :=
  match l with [] => true | x :: l' => negb (existsb (Nat.eqb x) l') && nodupb l' end.

Definition mag (a b : Z) : positive := Z.to_pos (1 + Z.abs (a - b)).   (* answers of varying magnitude *)

Inductive op := OPut (k v : Z) | ORemove (k : Z).

(* one operation on both sides; None = disagreement *)
Definition step (cmp : cmpf) (st : option (nat * heap G.Node * G.Tree * AVL.tree)) (o : op) : option (nat * heap G.Node * G.Tree * AVL.tree) :=
  match st with
  | None => None
  | Some (n, h, tr, t) =>
    let res := match o with
               | OPut k v => (G.Put mag 64 n h tr k v, option_map (fun x => fst (fst x)) (AVL.put cmp k v t), AVL.put_cost cmp k t)
               | ORemove k => (G.Remove mag 64 n h tr k, option_map (fun x => fst (fst x)) (AVL.remove cmp k t), AVL.remove_cost cmp k t)
               end in
    match res with
    | (Some (n', h', tr'), Some t', cost) =>
      match readback 64 h' (G.Tree_Root tr') None with
      | Some (t'', ads) =>
          if teq t'' t' && nodupb ads && (G.Tree_size tr' =? Z.of_nat (AVL.count t')) && Nat.eqb n' (n + cost)
          then Some (n', h', tr', t') else None
      | None => None
      end
    | _ => None
    end
  end.

Definition script : list op :=
  map (fun i => OPut ((i * 37) mod 41 - 20) i) (map Z.of_nat (seq 0 48)) ++
  map (fun i => ORemove ((i * 29) mod 47 - 23)) (map Z.of_nat (seq 0 64)).

Definition run_ok (c : cmp_id) : bool :=
  match fold_left (step (cmp_of c)) script (Some (O, @empty_heap G.Node, G.mkTree None (cmp_of c) 0, AVL.E)) with
  | Some _ => true
  | None => false
  end.

(* OBLIGATION *)
Theorem put_remove_runs_agree : forallb run_ok [CNat; CRev; CDiv3; CAbs] = true.
Proof. vm_compute. reflexivity. Qed.
Print Assumptions put_remove_runs_agree.
