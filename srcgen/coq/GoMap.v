(* Go's built-in map with Z keys and Z values, as the framework's model has it (Model/Machine.v, "Go's
   built-in map as a canonical association list": hput / hdel / hget); map[T]struct{} stores the value 0.
   Hand-written once; used by the generated units that contain Go maps.
   The ORDER in which `range` visits a map is not here: the generated functions that range over a map take
   an enumeration [map_order : gmap -> list (Z * Z)] as a parameter.  Not modelled: nil maps (writing
   panics), aliasing (maps are values here). *)
From Coq Require Import ZArith List Bool.
From Gods Require Import Spec.SeqSpec Model.Machine.
From GodsGenProofs Require Import GenIterRun.
Import ListNotations.

Definition gmap := list (Z * Z).
Definition gm_empty : gmap := [].                                              (* make(map[K]V), clear(m) *)
Definition gm_put (m : gmap) (k v : Z) : gmap := hput k v m.                   (* m[k] = v *)
Definition gm_del (m : gmap) (k : Z) : gmap := hdel k m.                       (* delete(m, k) *)
Definition gm_lookup (m : gmap) (k : Z) : Z * bool := opt_pair (hget k m).     (* v, ok := m[k] *)
Definition gm_read (m : gmap) (k : Z) : Z := fst (gm_lookup m k).              (* m[k] *)
Definition gm_len (m : gmap) : Z := zlen m.                                    (* len(m) *)
