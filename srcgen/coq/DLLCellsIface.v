(* The GENERATED POINTER CODE of lists/doublylinkedlist/doublylinkedlist.go (GodsGen.DoublyLinkedListCellsGen: heap of cells with next
   and prev links, option monad) packaged as the functions the two containers that keep their insertion order in a doubly linked list
   (linkedhashset, linkedhashmap) expect from their abstract `ordering` interface (Add, Append, Clear, Get, IndexOf, Prepend, Remove,
   Size, Values, doublylinkedlist.New: all of them are in the generated unit): the state is the generated llist, or None once a
   generated function has failed (nil dereference / out of fuel); every function runs the generated one.  [R] relates such a state to
   the sequence of the MODEL instantiation of LinkedHashSetGenProofs.v / LinkedHashMapGenProofs.v: the heap represents the sequence
   with correct backward links (Proofs/LinkedCellsProofs.repr_dll).  Every mutator preserves R (so it never fails) and every observer
   answers as Model/Lists.v.  No obligation here: the lemmas are used by LinkedHashSetOverCellsProofs.v / LinkedHashMapOverCellsProofs.v. *)
From Coq Require Import ZArith List Lia Bool.
From Gods Require Import Common.ListAux Spec.SeqSpec Model.Lists Model.LinkedCells Proofs.LinkedCellsProofs.
From GodsGen Require DoublyLinkedListCellsGen.
From GodsGenProofs Require Import GenIterRun.
From GodsGenProofs Require DoublyLinkedListCellsProofs.
Import ListNotations.
Local Open Scope Z_scope.

Module S := DoublyLinkedListCellsGen.
Module SP := DoublyLinkedListCellsProofs.

Definition pstate := option llist.
Definition p_mut (f : llist -> option (llist * unit)) (s : pstate) : pstate * unit :=
  (match s with Some d => match f d with Some (d', _) => Some d' | None => None end | None => None end, tt).
Definition p_obs {A} (f : llist -> option A) (dflt : A) (s : pstate) : A :=
  match s with Some d => match f d with Some a => a | None => dflt end | None => dflt end.

Definition p_Add (s : pstate) (vs : list Z) := p_mut (fun d => S.Add d vs) s.
Definition p_Append (s : pstate) (vs : list Z) := p_mut (fun d => S.Append d vs) s.
Definition p_Prepend (s : pstate) (vs : list Z) := p_mut (fun d => S.Prepend d vs) s.
Definition p_Remove (s : pstate) (i : Z) := p_mut (fun d => S.Remove d i) s.
Definition p_Clear (s : pstate) := p_mut S.Clear s.
Definition p_Get (s : pstate) (i : Z) : Z * bool := p_obs (fun d => S.Get d i) (0, false) s.
Definition p_Size (s : pstate) : Z := p_obs S.Size 0 s.
Definition p_Empty (s : pstate) : bool := p_obs S.Empty true s.
Definition p_Values (s : pstate) : list Z := p_obs S.Values [] s.
Definition p_IndexOf (s : pstate) (v : Z) : Z := p_obs (fun d => S.IndexOf d v) (-1) s.
Definition p_New (vs : list Z) : pstate := S.New vs.

Definition R (ps : pstate) (l : list Z) : Prop := exists d, ps = Some d /\ repr_dll d l.

Lemma mut_rel : forall (f : llist -> option (llist * unit)) (m : llist -> option llist) (g : list Z -> list Z),
  (forall d, f d = SP.lift (m d)) ->
  (forall d l, repr_dll d l -> exists d', m d = Some d' /\ repr_dll d' (g l)) ->
  forall ps l, R ps l -> R (fst (p_mut f ps)) (g l).
Proof.
  intros f m g Hf Hm ps l (d & -> & Hr). destruct (Hm d l Hr) as (d' & E & Hr'). unfold p_mut. cbn [fst].
  rewrite Hf, E. cbn [SP.lift]. exists d'. split; [reflexivity|exact Hr'].
Qed.

Lemma Add_rel : forall ps l vs, R ps l -> R (fst (p_Add ps vs)) (dll_add vs l).
Proof. intros ps l vs. apply (mut_rel _ (fun d => cdll_add d vs)); [intros d; apply (proj1 (SP.Add_equiv d vs))|intros d l0; apply cdll_add_ok]. Qed.
Lemma Append_rel : forall ps l vs, R ps l -> R (fst (p_Append ps vs)) (dll_add vs l).
Proof. intros ps l vs. apply (mut_rel _ (fun d => cdll_append d vs)); [intros d; apply (proj2 (SP.Add_equiv d vs))|intros d l0; apply cdll_add_ok]. Qed.
Lemma Prepend_rel : forall ps l vs, R ps l -> R (fst (p_Prepend ps vs)) (dll_prepend vs l).
Proof. intros ps l vs. apply (mut_rel _ (fun d => cdll_prepend d vs)); [intros d; apply SP.Prepend_equiv|intros d l0; apply cdll_prepend_ok]. Qed.
Lemma Remove_rel : forall ps l i, R ps l -> R (fst (p_Remove ps i)) (dll_remove i l).
Proof. intros ps l i. apply (mut_rel _ (fun d => cdll_remove d i)); [intros d; apply SP.Remove_equiv|intros d l0; apply cdll_remove_ok]. Qed.
Lemma Clear_rel : forall ps l, R ps l -> R (fst (p_Clear ps)) [].
Proof.
  intros ps l. apply (mut_rel _ cdll_clear (fun _ => [])); [intros d; apply (SP.header_equiv d 0)|].
  intros d l0 _. exists (c_clear d). split; [reflexivity|apply repr_clear].
Qed.
Lemma New_rel : R (p_New []) [].
Proof. exists empty_llist. split; [reflexivity|apply repr_empty]. Qed.

Lemma observers_rel : forall ps l, R ps l -> forall i,
  p_Get ps i = opt_pair (dll_get i l) /\ p_Size ps = zlen l /\ p_Empty ps = (zlen l =? 0) /\ p_Values ps = l /\
  p_IndexOf ps i = dll_index_of i l.
Proof.
  intros ps l (d & -> & Hr) i. pose proof Hr as (al & _ & _ & _ & _ & _ & Hs).
  unfold p_Get, p_Size, p_Empty, p_Values, p_IndexOf, p_obs.
  rewrite SP.Get_equiv, (cdll_get_ok d l i Hr).
  destruct (SP.header_equiv d 0) as (_ & -> & -> & _). rewrite Hs.
  rewrite (SP.Values_equiv d (SP.repr_size_le_cells _ _ _ Hr)), (c_values_ok _ _ _ Hr).
  rewrite (SP.IndexOf_equiv d i (SP.repr_size_le_cells _ _ _ Hr)), (c_index_of_ok _ _ _ i Hr).
  repeat split. destruct (dll_get i l); reflexivity.
Qed.
