(* The iterator regenerated from queues/circularbuffer/iterator.go (GodsGen.RingIterGen) equals,
   function by function, the index-iterator model Model/Iter.v (ix_next, ix_prev, ix_begin, ix_end,
   ix_cur) that Machine.run_iter runs over a StRing state; corollary: every script executed by the
   GENERATED functions is the cursor of property C08. *)
From Coq Require Import ZArith List Lia Bool Arith.
From Gods Require Import Common.Cmp Common.ListAux Spec.SeqSpec Model.Ops Model.Ring Model.Iter Model.Machine.
From Gods Require Import Proofs.RingProofs Proofs.IterLinear.
From GodsGen Require RingGen RingIterGen.
From GodsGenProofs Require Import GenIterRun RingGenProofs.
Import ListNotations.
Local Open Scope Z_scope.

Module I := RingIterGen.

(* the value function Machine.run_iter uses for a ring *)
Definition ring_value_at (r : ring) (i : Z) : option Z :=
  if inrange (Z.of_nat (rsize r)) i
  then Some (get (rvals r) (Z.to_nat ((i + Z.of_nat (rstart r)) mod Z.of_nat (rmax r))))
  else None.

Lemma run_iter_ring : forall c r cs,
  run_iter c (StRing r) cs =
  run_script Z (ix_next (Z.of_nat (rsize r))) (ix_prev (Z.of_nat (rsize r))) ix_begin (ix_end (Z.of_nat (rsize r)))
    (ix_cur (ring_value_at r)) true (S (S (Z.to_nat (Z.of_nat (rsize r))))) (-1) cs.
Proof. reflexivity. Qed.

Module Names.
Import Coq.Strings.String.
(* OBLIGATION *)
Theorem translated_functions :
  I.translated = ["Begin"; "End"; "First"; "Index"; "Last"; "Next"; "NextTo"; "Prev"; "PrevTo"; "Queue_Iterator"; "Value"]%string
  /\ I.skipped = [] /\ I.not_selected = [].
Proof. repeat split. Qed.
Print Assumptions translated_functions.
End Names.

Ltac zb :=
  repeat match goal with
  | |- context [(?a <? ?b)%Z] => destruct (Z.ltb_spec a b)
  | |- context [(?a <=? ?b)%Z] => destruct (Z.leb_spec a b)
  | |- context [(?a =? ?b)%Z] => destruct (Z.eqb_spec a b)
  end.

Section WithRing.
Variables (g : G.Queue) (r : ring).
Hypothesis Hrel : ring_rel g r.
Let n := Z.of_nat (rsize r).

Lemma size_n : G.size g = n.
Proof. apply Hrel. Qed.

(* OBLIGATION *)
Theorem Iterator_equiv : I.index (I.Queue_Iterator g) = -1.
Proof. reflexivity. Qed.

(* OBLIGATION *)
Theorem Next_equiv : step_equiv I.Iterator I.index (fun it => I.Next it g) (ix_next n).
Proof.
  intros [i]. unfold I.Next, ix_next. rewrite size_n. cbn [I.index I.set_index].
  destruct (Z.ltb_spec i n); cbn [I.index fst snd]; now rewrite (withinRange_equiv g r _ Hrel).
Qed.

(* OBLIGATION *)
Theorem Prev_equiv : step_equiv I.Iterator I.index (fun it => I.Prev it g) (ix_prev n).
Proof.
  intros [i]. unfold I.Prev, ix_prev. cbn [I.index I.set_index].
  destruct (Z.leb_spec 0 i); cbn [I.index fst snd]; now rewrite (withinRange_equiv g r _ Hrel).
Qed.

(* OBLIGATION *)
Theorem Begin_equiv : jump_equiv I.Iterator I.index I.Begin ix_begin.
Proof. intros [i]. reflexivity. Qed.

(* OBLIGATION *)
Theorem End_equiv : jump_equiv I.Iterator I.index (fun it => I.End it g) (ix_end n).
Proof. intros [i]. unfold I.End, ix_end. cbn [I.index I.set_index fst]. apply size_n. Qed.

(* OBLIGATION *)
Theorem First_equiv : forall it,
  ix_next n (ix_begin (I.index it)) = Some (I.index (fst (I.First it g)), snd (I.First it g)).
Proof.
  intros it. unfold I.First.
  pose proof (Begin_equiv it) as HB. destruct (I.Begin it) as [it1 u]. cbn [fst] in HB. rewrite <- HB.
  pose proof (Next_equiv it1) as HN. cbn beta in HN. destruct (I.Next it1 g) as [it2 b]. exact HN.
Qed.

(* OBLIGATION *)
Theorem Last_equiv : forall it,
  ix_prev n (ix_end n (I.index it)) = Some (I.index (fst (I.Last it g)), snd (I.Last it g)).
Proof.
  intros it. unfold I.Last.
  pose proof (End_equiv it) as HE. cbn beta in HE. destruct (I.End it g) as [it1 u]. cbn [fst] in HE. rewrite <- HE.
  pose proof (Prev_equiv it1) as HP. cbn beta in HP. destruct (I.Prev it1 g) as [it2 b]. exact HP.
Qed.

(* OBLIGATION *)
Theorem Index_equiv : forall it, I.Index it = I.index it.
Proof. reflexivity. Qed.

(* OBLIGATION: Index() / Value() on an element = the model's ix_cur; needs 0 < capacity (ring invariant) *)
Theorem Value_equiv : (0 < rmax r)%nat ->
  cur_equiv I.Iterator I.index I.Index (fun it => I.Value it g) n (ring_value_at r).
Proof.
  intros Hm [i] Hin. unfold ix_cur, ring_value_at. fold n. cbn [I.index] in *. rewrite Hin.
  unfold I.Index, I.Value. cbn [I.index].
  destruct Hrel as (-> & -> & _ & _ & -> & _).
  unfold inrange in Hin. apply andb_true_iff in Hin. destruct Hin as [H0 _]. apply Z.leb_le in H0.
  rewrite Z.rem_mod_nonneg by lia. reflexivity.
Qed.

Lemma NextTo_unfolds : loop_unfolds I.Iterator I.Index (fun it => I.Value it g)
  (fun fuel it f => I.NextTo fuel it g f) (fun it => I.Next it g).
Proof.
  split; [reflexivity|]. intros fuel it f. unfold I.NextTo. cbn [I.NextTo_loop1].
  destruct (I.Next it g) as [it' [|]]; reflexivity.
Qed.

Lemma PrevTo_unfolds : loop_unfolds I.Iterator I.Index (fun it => I.Value it g)
  (fun fuel it f => I.PrevTo fuel it g f) (fun it => I.Prev it g).
Proof.
  split; [reflexivity|]. intros fuel it f. unfold I.PrevTo. cbn [I.PrevTo_loop1].
  destruct (I.Prev it g) as [it' [|]]; reflexivity.
Qed.

(* OBLIGATION *)
Theorem NextTo_equiv : (0 < rmax r)%nat ->
  loop_equiv I.Iterator I.index (ring_value_at r) (fun fuel it f => I.NextTo fuel it g f) (ix_next n).
Proof.
  intros Hm. eapply loop_equiv_of_unfolds.
  - apply ix_next_inrange.
  - exact Next_equiv.
  - exact (Value_equiv Hm).
  - exact NextTo_unfolds.
Qed.

(* OBLIGATION *)
Theorem PrevTo_equiv : (0 < rmax r)%nat ->
  loop_equiv I.Iterator I.index (ring_value_at r) (fun fuel it f => I.PrevTo fuel it g f) (ix_prev n).
Proof.
  intros Hm. eapply loop_equiv_of_unfolds.
  - apply ix_prev_inrange.
  - exact Prev_equiv.
  - exact (Value_equiv Hm).
  - exact PrevTo_unfolds.
Qed.

(* scripts run by the generated functions *)
Definition gen_iter_script (fuel : nat) (it : I.Iterator) (cs : list icall) : list obs :=
  gen_script I.Iterator (fun it => I.Next it g) (fun it => I.Prev it g) (fun it => I.First it g) (fun it => I.Last it g)
    I.Begin (fun it => I.End it g) I.Index (fun it => I.Value it g)
    (fun fuel it f => I.NextTo fuel it g f) (fun fuel it f => I.PrevTo fuel it g f) fuel it cs.

(* OBLIGATION: a fresh generated iterator runs every script exactly as the model machine, which is the
   cursor of C08 over Values() *)
Theorem gen_iter_is_cursor : (0 < rmax r)%nat -> forall c cs,
  gen_iter_script (S (S (Z.to_nat (G.Size g)))) (I.Queue_Iterator g) cs = run_iter c (StRing r) cs /\
  gen_iter_script (S (S (Z.to_nat (G.Size g)))) (I.Queue_Iterator g) cs = cursor_script (indexed (G.Values g)) true cs.
Proof.
  intros Hm c cs.
  assert (E : gen_iter_script (S (S (Z.to_nat (G.Size g)))) (I.Queue_Iterator g) cs = run_iter c (StRing r) cs).
  { rewrite run_iter_ring. unfold gen_iter_script.
    rewrite (gen_script_is_run_script I.Iterator I.index _ _ _ _ _ _ _ _ _ _ n (ring_value_at r)
               Next_equiv Prev_equiv Begin_equiv End_equiv First_equiv Last_equiv (Value_equiv Hm)
               (NextTo_equiv Hm) (PrevTo_equiv Hm)).
    rewrite (Size_equiv g r Hrel). reflexivity. }
  split; [exact E|].
  rewrite E, (iter_CircularBuffer c r cs). unfold values_of. now rewrite (Values_equiv g r Hrel).
Qed.
End WithRing.

Print Assumptions Iterator_equiv.
Print Assumptions Next_equiv.
Print Assumptions Prev_equiv.
Print Assumptions Begin_equiv.
Print Assumptions End_equiv.
Print Assumptions First_equiv.
Print Assumptions Last_equiv.
Print Assumptions Index_equiv.
Print Assumptions Value_equiv.
Print Assumptions NextTo_equiv.
Print Assumptions PrevTo_equiv.
Print Assumptions gen_iter_is_cursor.

(* for every buffer reached by the generated Enqueue / Dequeue / Clear from New(cap): the generated
   iterator is the C08 cursor over the generated Values() *)
(* OBLIGATION *)
Theorem gen_iter_reachable : forall cap g0, (1 <= cap) -> G.New cap = Some g0 -> forall ops cs,
  let g := gen_run g0 ops in
  gen_iter_script g (S (S (Z.to_nat (G.Size g)))) (I.Queue_Iterator g) cs = cursor_script (indexed (G.Values g)) true cs.
Proof.
  intros cap g0 Hcap HN ops cs g.
  set (c := {| ckind := CircularBuffer; kcmp := CNat; vcmp := CNat; ccap := cap; corder := 3; cuni := 3 |}).
  destruct (gen_run_simulates c g0 eq_refl Hcap HN ops) as (r & _ & Hrel & Hi & _).
  assert (Hm : (0 < rmax r)%nat) by apply Hi.
  exact (proj2 (gen_iter_is_cursor g r Hrel Hm c cs)).
Qed.
Print Assumptions gen_iter_reachable.
