(* trees/avltree/serialization.go (GodsGen.AVLTreeJsonGen; the tree is an opaque receiver instantiated with the MACHINE's model of
   it: Put / Clear = Machine.step, Iterator() = Machine.each_of), encoding/json abstract: FromJSON decodes into a fresh
   map; on an error the receiver is unchanged; on success Clear, then Put of every decoded entry (in the order `range`
   visits them) = Machine.put_entries of that enumeration from init; ToJSON marshals the map of the iterator's
   entries (= sort_entries of them: encoding/json sorts map keys). *)
From Coq Require Import ZArith List Lia Bool Arith.
From Gods Require Import Common.Cmp Common.ListAux Spec.SeqSpec Model.Ops Model.Machine.
From GodsGen Require AVLTreeJsonGen.
From GodsGenProofs Require Import GenIterRun WrapCommon GoMap GoJson.
Import ListNotations.
Local Open Scope Z_scope.

Module R := AVLTreeJsonGen.

Section Json.
Variable umm : bytes -> gmap -> gmap * bool.
Variable mm : gmap -> bytes * bool.
Variable mo : gmap -> list (Z * Z).
Variable c : config.
Hypothesis Hk : ckind c = AVLTree.

Definition I : R.Tree_iface := R.mk_Tree_iface state
  (fun s => (fst (fst (step c s Clear)), tt))                                   (* Clear() *)
  (fun s k v => (fst (fst (step c s (Put k v))), tt))                           (* Put(key, value) *)
  (fun s => match each_of c s with Some es => es | None => [] end).             (* Iterator() *)

Lemma steps_crash : forall es, fold_left (fun s e => fst (fst (step c s (Put (fst e) (snd e))))) es StCrash = StCrash.
Proof. induction es as [|e es IH]; cbn [fold_left]; [reflexivity|exact IH]. Qed.

Lemma steps_puts : forall es s, (match s with StAVL _ _ => True | StCrash => True | _ => False end) ->
  fold_left (fun s e => fst (fst (step c s (Put (fst e) (snd e))))) es s = put_entries c es s.
Proof.
  induction es as [|[k v] es IH]; intros s Hs; [destruct s; reflexivity|].
  destruct s; try contradiction; cbn [fold_left fst snd].
  - unfold step at 2. unfold put_entries. cbn [avl_puts]. destruct (avl_put (kc c) k v t n) as [[t' n']|]; cbn [fst]; [exact (IH (StAVL t' n') Logic.I)|apply steps_crash].
  - rewrite steps_crash. reflexivity.
Qed.

(* OBLIGATION *)
Theorem FromJSON_equiv : forall s data, s <> StCrash -> (match s with StAVL _ _ => True | _ => False end) ->
  if snd (umm data gm_empty) then R.FromJSON umm mo I s data = (s, true)
  else fst (R.FromJSON umm mo I s data) = put_entries c (mo (fst (umm data gm_empty))) (init c) /\ snd (R.FromJSON umm mo I s data) = false.
Proof.
  intros s data Hnc Hs. unfold R.FromJSON. destruct (umm data gm_empty) as [m' e]. destruct e; cbn [fst snd negb]; [reflexivity|].
  cbn [R.Tree_Clear R.Tree_Put I fst snd]. cbv zeta. split; [|reflexivity].
  assert (HC : fst (fst (step c s Clear)) = init c) by (destruct s; try contradiction; reflexivity).
  rewrite HC.
  try (match goal with |- context [fold_left ?B (mo m') (init c)] =>
    rewrite (fold_left_ext_in _ _ B (fun s e => fst (fst (step c s (Put (fst e) (snd e)))))) by (intros; reflexivity) end).
  apply steps_puts. unfold init. rewrite Hk. exact Logic.I.
Qed.

(* OBLIGATION *)
Theorem ToJSON_equiv : forall s es, each_of c s = Some es ->
  R.ToJSON mm I s = mm (sort_entries es) /\ R.MarshalJSON mm I s = R.ToJSON mm I s /\
  (forall data, R.UnmarshalJSON umm mo I s data = R.FromJSON umm mo I s data).
Proof.
  intros s es He.
  assert (HT : R.ToJSON mm I s = mm (sort_entries es)).
  { unfold R.ToJSON. cbn [R.Tree_Iterator_enum I]. rewrite He. cbv zeta. unfold sort_entries, gm_put, gm_empty.
    match goal with |- (let '(a, b) := mm ?X in (a, b)) = mm ?Y => replace X with Y; [now destruct (mm Y)|] end.
    reflexivity. }
  unfold R.MarshalJSON, R.UnmarshalJSON. repeat split; [exact HT|now destruct (R.ToJSON mm I s)|].
  intros data. now destruct (R.FromJSON umm mo I s data).
Qed.
End Json.

Print Assumptions FromJSON_equiv.
Print Assumptions ToJSON_equiv.
