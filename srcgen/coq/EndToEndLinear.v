(* END-TO-END COROLLARIES (property C05 of /verif/coq/theories/Properties/C05.v) stated directly about runs of GENERATED code:
   - the generated ArrayStack / ArrayQueue code over the generated capacity-aware ArrayList core (ArrayStackOverArrayListProofs.v,
     ArrayQueueOverArrayListProofs.v: for every allocation policy and json codec),
   - the generated LinkedListStack / LinkedListQueue code over the generated pointer code of the singly linked list
     (LinkedListStackOverCellsProofs.v, LinkedListQueueOverCellsProofs.v),
   - the generated CircularBuffer (RingGenProofs.v),
   for ALL operation lists from the generated constructors; the only hypotheses are the kind of the configuration (and 1 <= ccap c
   for the ring, whose New panics below 1).  The specification is a three-line function of the operation list: [lifo] (Pop returns
   the most recently pushed element not yet popped), [fifo], [ring cap] (a full buffer loses exactly its oldest element); results
   are compared as the harness observes them (obs_pair: [v] when ok, [] when not ok). *)
From Coq Require Import ZArith List Lia Bool Arith.
From Gods Require Import Common.Cmp Common.ListAux Spec.SeqSpec Spec.FifoSpec Model.Ops Model.Lists Model.Machine Model.Ring.
From Gods Require Import Proofs.C05Proofs Proofs.LinkedCellsProofs.
From GodsGen Require RingGen.
From GodsGenProofs Require Import GoSlice GenIterRun WrapCommon.
From GodsGenProofs Require GoJson RingGenProofs ArrayStackOverArrayListProofs ArrayQueueOverArrayListProofs LinkedListStackOverCellsProofs LinkedListQueueOverCellsProofs.
Import ListNotations.
Local Open Scope Z_scope.

Module ASO := ArrayStackOverArrayListProofs.
Module AQO := ArrayQueueOverArrayListProofs.
Module LSO := LinkedListStackOverCellsProofs.
Module LQO := LinkedListQueueOverCellsProofs.
Module RP := RingGenProofs.

(* ---------- the specification: a function of the history ---------- *)
Inductive lop := LIn (v : Z) | LOut | LClear.                 (* Push / Enqueue, Pop / Dequeue, Clear *)
Definition lifo_step (q : list Z) (o : lop) : list Z := match o with LIn v => v :: q | LOut => tl q | LClear => [] end.
Definition fifo_step (q : list Z) (o : lop) : list Z := match o with LIn v => q ++ [v] | LOut => tl q | LClear => [] end.
Definition ring_step (cap : nat) (q : list Z) (o : lop) : list Z := match o with LIn v => lastn cap (q ++ [v]) | LOut => tl q | LClear => [] end.
Definition lifo (ops : list lop) : list Z := fold_left lifo_step ops [].          (* the next element to leave first *)
Definition fifo (ops : list lop) : list Z := fold_left fifo_step ops [].
Definition ring (cap : nat) (ops : list lop) : list Z := fold_left (ring_step cap) ops [].
(* insertions since the last Clear minus the SUCCESSFUL removals (a removal from the empty container removes nothing) *)
Definition count (ops : list lop) : nat := fold_left (fun n o => match o with LIn _ => S n | LOut => Nat.pred n | LClear => O end) ops O.

Lemma count_length : forall (step : list Z -> lop -> list Z), (forall q o, length (step q o) = match o with LIn _ => S (length q) | LOut => Nat.pred (length q) | LClear => O end) ->
  forall ops, length (fold_left step ops []) = count ops.
Proof.
  intros step H ops. unfold count. change O with (length (@nil Z)) at 2. generalize (@nil Z) as q.
  induction ops as [|o ops IH]; intros q; cbn [fold_left]; [reflexivity|]. rewrite IH, H. destruct o; reflexivity.
Qed.
Lemma lifo_count : forall ops, length (lifo ops) = count ops.
Proof. apply count_length. intros q [v| |]; cbn; [reflexivity|destruct q; reflexivity|reflexivity]. Qed.
Lemma fifo_count : forall ops, length (fifo ops) = count ops.
Proof. apply count_length. intros q [v| |]; cbn; [rewrite app_length; cbn; lia|destruct q; reflexivity|reflexivity]. Qed.

Definition st_op (o : lop) : op := match o with LIn v => Push v | LOut => Pop | LClear => Clear end.
Definition qu_op (o : lop) : op := match o with LIn v => Enqueue v | LOut => Dequeue | LClear => Clear end.

Lemma abs_lifo : forall c ops, is_stack (ckind c) = true -> abs_run c (map st_op ops) = lifo ops.
Proof.
  intros c ops H. unfold abs_run, abs_run_from, lifo. generalize (@nil Z) as q.
  induction ops as [|o ops IH]; intros q; cbn [map fold_left]; [reflexivity|]. rewrite <- IH. f_equal.
  destruct o; cbn [st_op abs_step]; rewrite ?H; reflexivity.
Qed.
Lemma abs_fifo : forall c ops, ckind c = ArrayQueue \/ ckind c = LinkedListQueue -> abs_run c (map qu_op ops) = fifo ops.
Proof.
  intros c ops H. unfold abs_run, abs_run_from, fifo. generalize (@nil Z) as q.
  induction ops as [|o ops IH]; intros q; cbn [map fold_left]; [reflexivity|]. rewrite <- IH. f_equal.
  destruct o; cbn [qu_op abs_step]; unfold abs_enqueue; destruct H as [H|H]; rewrite ?H; reflexivity.
Qed.
Lemma abs_ring : forall c ops, ckind c = CircularBuffer -> abs_run c (map qu_op ops) = ring (cap_of c) ops.
Proof.
  intros c ops H. unfold abs_run, abs_run_from, ring. generalize (@nil Z) as q.
  induction ops as [|o ops IH]; intros q; cbn [map fold_left]; [reflexivity|]. rewrite <- IH. f_equal.
  destruct o; cbn [qu_op abs_step]; unfold abs_enqueue; rewrite ?H; reflexivity.
Qed.

(* what C05 says of the machine, in terms of the history function *)
Lemma machine_view : forall c mops q (rem : op), c05_config c -> abs_run c mops = q -> rem = remove_op c ->
  let s := run c mops in
  values_of c s = q /\ size_of c s = Z.of_nat (length q) /\ peek_of c s = oopt (hd_error q) /\
  snd (fst (step c s rem)) = oopt (hd_error q).
Proof.
  intros c mops q rem Hc Hq -> s. subst s q.
  split; [apply C05_refines, Hc|]. split; [apply C05_size, Hc|]. split; [apply C05_peek, Hc|].
  destruct (C05_step c Hc mops (remove_op c)) as [_ H2]. rewrite H2 by (unfold remove_op; destruct (is_stack (ckind c)); reflexivity).
  unfold c05_config in Hc. unfold remove_op, abs_step. destruct (ckind c) eqn:K; try contradiction; cbn [is_stack is_queue]; reflexivity.
Qed.

Definition to_as (o : lop) : ASO.WP.gop := match o with LIn v => ASO.WP.GPush v | LOut => ASO.WP.GPop | LClear => ASO.WP.GClear end.
Definition to_ls (o : lop) : LSO.WP.gop := match o with LIn v => LSO.WP.GPush v | LOut => LSO.WP.GPop | LClear => LSO.WP.GClear end.
Definition to_aq (o : lop) : AQO.WP.gop := match o with LIn v => AQO.WP.GEnqueue v | LOut => AQO.WP.GDequeue | LClear => AQO.WP.GClear end.
Definition to_lq (o : lop) : LQO.WP.gop := match o with LIn v => LQO.WP.GEnqueue v | LOut => LQO.WP.GDequeue | LClear => LQO.WP.GClear end.
Definition to_rg (o : lop) : RP.gop := match o with LIn v => RP.GEnqueue v | LOut => RP.GDequeue | LClear => RP.GClear end.

Lemma map_ops : forall (A : Type) (f : lop -> A) (g : A -> op) (h : lop -> op) ops, (forall o, g (f o) = h o) -> map g (map f ops) = map h ops.
Proof. intros A f g h ops H. rewrite map_map. apply map_ext, H. Qed.

(* OBLIGATION (C05, stacks): LIFO for the generated stack code over the generated list code *)
Theorem gen_stack_lifo : forall ops, let q := lifo ops in
  (forall alloc marshal_slice unmarshal_cslice slice_is_nil c, ckind c = ArrayStack ->
     let J := ASO.Ip alloc marshal_slice unmarshal_cslice slice_is_nil in
     let gp := ASO.gen_run_p alloc marshal_slice unmarshal_cslice slice_is_nil (map to_as ops) in
     ASO.W.Values J gp = q /\ ASO.W.Size J gp = Z.of_nat (count ops) /\ ASO.W.Empty J gp = (Z.of_nat (count ops) =? 0) /\
     obs_pair (ASO.W.Peek J gp) = oopt (hd_error q) /\ obs_pair (snd (ASO.W.Pop J gp)) = oopt (hd_error q)) /\
  (forall c, ckind c = LinkedListStack ->
     let gp := LSO.gen_run_p (map to_ls ops) in
     LSO.W.list_ LSO.Ip gp <> None /\
     LSO.W.Values LSO.Ip gp = q /\ LSO.W.Size LSO.Ip gp = Z.of_nat (count ops) /\ LSO.W.Empty LSO.Ip gp = (Z.of_nat (count ops) =? 0) /\
     obs_pair (LSO.W.Peek LSO.Ip gp) = oopt (hd_error q) /\ obs_pair (snd (LSO.W.Pop LSO.Ip gp)) = oopt (hd_error q)).
Proof.
  intros ops q. split.
  - intros alloc ms us isn c K J gp.
    destruct (ASO.arraystack_over_arraylist_run alloc ms us isn c K (map to_as ops)) as (l & _ & _ & OS & OE & OV & OP & OO).
    assert (Hc : c05_config c) by (unfold c05_config; now rewrite K).
    assert (Hm : map ASO.WP.to_op (map to_as ops) = map st_op ops) by (apply map_ops; intros [v| |]; reflexivity).
    rewrite Hm in *. destruct (machine_view c (map st_op ops) q Pop Hc (abs_lifo c ops ltac:(now rewrite K)) ltac:(unfold remove_op; now rewrite K)) as (M1 & M2 & M3 & M4).
    fold J gp in OS, OE, OV, OP, OO. rewrite OS, OE, OV, OP, OO, M1, M2, M3, M4. unfold q. rewrite lifo_count. repeat split.
  - intros c K gp.
    destruct (LSO.linkedliststack_over_cells_run c K (map to_ls ops)) as (d & l & Hd & _ & _ & OS & OE & OV & OP & OO).
    assert (Hc : c05_config c) by (unfold c05_config; now rewrite K).
    assert (Hm : map LSO.WP.to_op (map to_ls ops) = map st_op ops) by (apply map_ops; intros [v| |]; reflexivity).
    rewrite Hm in *. destruct (machine_view c (map st_op ops) q Pop Hc (abs_lifo c ops ltac:(now rewrite K)) ltac:(unfold remove_op; now rewrite K)) as (M1 & M2 & M3 & M4).
    fold gp in Hd, OS, OE, OV, OP, OO. split; [rewrite Hd; discriminate|].
    rewrite OS, OE, OV, OP, OO, M1, M2, M3, M4. unfold q. rewrite lifo_count. repeat split.
Qed.
Print Assumptions gen_stack_lifo.

(* OBLIGATION (C05, queues): FIFO for the generated queue code over the generated list code *)
Theorem gen_queue_fifo : forall ops, let q := fifo ops in
  (forall alloc marshal_slice unmarshal_cslice slice_is_nil c, ckind c = ArrayQueue ->
     let J := AQO.Ip alloc marshal_slice unmarshal_cslice slice_is_nil in
     let gp := AQO.gen_run_p alloc marshal_slice unmarshal_cslice slice_is_nil (map to_aq ops) in
     AQO.W.Values J gp = q /\ AQO.W.Size J gp = Z.of_nat (count ops) /\ AQO.W.Empty J gp = (Z.of_nat (count ops) =? 0) /\
     obs_pair (AQO.W.Peek J gp) = oopt (hd_error q) /\ obs_pair (snd (AQO.W.Dequeue J gp)) = oopt (hd_error q)) /\
  (forall c, ckind c = LinkedListQueue ->
     let gp := LQO.gen_run_p (map to_lq ops) in
     LQO.W.list_ LQO.Ip gp <> None /\
     LQO.W.Values LQO.Ip gp = q /\ LQO.W.Size LQO.Ip gp = Z.of_nat (count ops) /\ LQO.W.Empty LQO.Ip gp = (Z.of_nat (count ops) =? 0) /\
     obs_pair (LQO.W.Peek LQO.Ip gp) = oopt (hd_error q) /\ obs_pair (snd (LQO.W.Dequeue LQO.Ip gp)) = oopt (hd_error q)).
Proof.
  intros ops q. split.
  - intros alloc ms us isn c K J gp.
    destruct (AQO.arrayqueue_over_arraylist_run alloc ms us isn c K (map to_aq ops)) as (l & _ & _ & OS & OE & OV & OP & OO).
    assert (Hc : c05_config c) by (unfold c05_config; now rewrite K).
    assert (Hm : map AQO.WP.to_op (map to_aq ops) = map qu_op ops) by (apply map_ops; intros [v| |]; reflexivity).
    rewrite Hm in *. destruct (machine_view c (map qu_op ops) q Dequeue Hc (abs_fifo c ops (or_introl K)) ltac:(unfold remove_op; now rewrite K)) as (M1 & M2 & M3 & M4).
    fold J gp in OS, OE, OV, OP, OO. rewrite OS, OE, OV, OP, OO, M1, M2, M3, M4. unfold q. rewrite fifo_count. repeat split.
  - intros c K gp.
    destruct (LQO.linkedlistqueue_over_cells_run c K (map to_lq ops)) as (d & l & Hd & _ & _ & OS & OE & OV & OP & OO).
    assert (Hc : c05_config c) by (unfold c05_config; now rewrite K).
    assert (Hm : map LQO.WP.to_op (map to_lq ops) = map qu_op ops) by (apply map_ops; intros [v| |]; reflexivity).
    rewrite Hm in *. destruct (machine_view c (map qu_op ops) q Dequeue Hc (abs_fifo c ops (or_intror K)) ltac:(unfold remove_op; now rewrite K)) as (M1 & M2 & M3 & M4).
    fold gp in Hd, OS, OE, OV, OP, OO. split; [rewrite Hd; discriminate|].
    rewrite OS, OE, OV, OP, OO, M1, M2, M3, M4. unfold q. rewrite fifo_count. repeat split.
Qed.
Print Assumptions gen_queue_fifo.

(* OBLIGATION (C05, ring): the generated CircularBuffer is a bounded FIFO that evicts its oldest element; Full() <-> Size() = cap *)
Theorem gen_ring_bounded_fifo : forall c, ckind c = CircularBuffer -> 1 <= ccap c -> exists g0, RingGen.New (ccap c) = Some g0 /\
  forall ops, let g := RP.gen_run g0 (map to_rg ops) in let q := ring (cap_of c) ops in
    RingGen.Values g = q /\ RingGen.Size g = Z.of_nat (length q) /\ (length q <= cap_of c)%nat /\
    RingGen.Peek g = opt_pair (hd_error q) /\ snd (RingGen.Dequeue g) = opt_pair (hd_error q) /\
    RingGen.Empty g = (RingGen.Size g =? 0) /\
    RingGen.Full g = (RingGen.Size g =? ccap c) /\ RingGen.Full g = (length q =? cap_of c)%nat.
Proof.
  intros c K Hcap. destruct (proj1 (RP.New_equiv (ccap c)) Hcap) as (g0 & HN & _). exists g0. split; [exact HN|]. intros ops g q.
  assert (Hm : map RP.to_op (map to_rg ops) = map qu_op ops) by (apply map_ops; intros [v| |]; reflexivity).
  destruct (RP.gen_C05_refines c g0 K Hcap HN (map to_rg ops)) as (H1 & H2 & H3 & H4 & _ & H6 & _).
  destruct (RP.gen_C05_full c g0 K Hcap HN (map to_rg ops)) as (F1 & F2 & _).
  rewrite Hm, (abs_ring c ops K) in *. fold g q in H1, H2, H3, H4, H6, F1, F2.
  repeat (split; [assumption|]). split; [|split; assumption]. reflexivity.
Qed.
Print Assumptions gen_ring_bounded_fifo.

(* non-vacuity: the generated code, run by the kernel *)
Lemma linear_nonvacuous :
  let ops := [LIn 1; LIn 2; LOut; LIn 3] in
  lifo ops = [3; 1] /\ fifo ops = [2; 3] /\ ring 2 [LIn 1; LIn 2; LIn 3] = [2; 3] /\ count ops = 2%nat /\
  LSO.W.Values LSO.Ip (LSO.gen_run_p (map to_ls ops)) = [3; 1] /\
  ASO.W.Values (ASO.Ip (fun n => n) (fun _ => (GoJson.nil_bytes, false)) (fun _ s => (s, false)) (fun _ => false))
    (ASO.gen_run_p (fun n => n) (fun _ => (GoJson.nil_bytes, false)) (fun _ s => (s, false)) (fun _ => false) (map to_as ops)) = [3; 1].
Proof. vm_compute. repeat split. Qed.
