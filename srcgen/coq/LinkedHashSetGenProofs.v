(* sets/linkedhashset/linkedhashset.go regenerated (GodsGen.LinkedHashSetGen): the table is a Go map (GoMap.v),
   the ordering list an ABSTRACT doubly linked list instantiated with Model/Lists.v (dll_add, dll_index_of,
   dll_remove), Iterator() the abstract enumeration [indexed ordering] (what C08 proves the iterator walks).
   Against Model/Machine.v on StLSet tbl ord: Add / Remove = the folds of lset_add1 / lset_remove1 that step
   runs, Clear = init, Contains = contains_of, Size = size_of, Values = values_of; the set algebra has the
   membership of hs_inter / hs_union / hs_diff for every iteration order of the tables. *)
From Coq Require Import ZArith List Lia Bool Arith Permutation.
From Gods Require Import Common.Cmp Common.ListAux Spec.SeqSpec Spec.MapSpec Model.Ops Model.Lists Model.Machine.
From Gods Require Import Proofs.C05Proofs Proofs.IterLinear.
From GodsGen Require LinkedHashSetGen.
From GodsGenProofs Require Import GenIterRun WrapCommon GoMap HashSetGenProofs.
From GodsGenProofs Require GoSlice.
Import ListNotations.
Local Open Scope Z_scope.

Module L := LinkedHashSetGen.

(* the wrapped doublylinkedlist.List, as the model has it *)
Definition I : L.ordering_iface := L.mk_ordering_iface (list Z)
  (fun l vs => (dll_add vs l, tt))       (* Add(values...) *)
  (fun l vs => (dll_add vs l, tt))       (* Append(values...) = Add *)
  (fun _ => ([], tt))                    (* Clear() *)
  (fun l i => opt_pair (dll_get i l))    (* Get(index) *)
  (fun l v => dll_index_of v l)          (* IndexOf(value) *)
  (fun l vs => (dll_prepend vs l, tt))   (* Prepend(values...) *)
  (fun l i => (dll_remove i l, tt))      (* Remove(index) *)
  (fun l => zlen l)                      (* Size() *)
  (fun l => l)                           (* Values() *)
  (fun vs => dll_add vs []).             (* doublylinkedlist.New(values...) *)

(* set.Iterator(): index and value of the ordering list's elements *)
Definition enum (g : L.Set_ I) : list (Z * Z) := indexed (L.ordering I g).

Definition lset_rel (g : L.Set_ I) (tbl ord : list Z) : Prop := L.table I g = zp tbl /\ L.ordering I g = ord.

Module Names.
Import Coq.Strings.String.
(* OBLIGATION *)
Theorem translated_functions :
  L.translated = ["Add"; "All"; "Any"; "Clear"; "Contains"; "Difference"; "Empty"; "Find"; "FromJSON"; "Intersection"; "Map"; "MarshalJSON"; "New"; "Remove"; "Select"; "Size"; "ToJSON"; "Union"; "UnmarshalJSON"; "Values"]%string
  /\ L.skipped = ["Each"; "String"]%string /\ L.not_selected = [].
Proof. repeat split. Qed.
Print Assumptions translated_functions.
End Names.

Lemma lookup_hmem : forall m k, snd (gm_lookup m k) = hmem k m.
Proof.
  intros m k. unfold gm_lookup, hget, hmem. induction m as [|[k' v'] m IH]; cbn [find existsb fst]; [reflexivity|].
  destruct (k' =? k); [reflexivity|exact IH].
Qed.

(* one element of Add / Remove, as generated, is lset_add1 / lset_remove1 *)
Definition add1 (g : L.Set_ I) (x : Z) : L.Set_ I :=
  if negb (snd (gm_lookup (L.table I g) x))
  then L.set_ordering I (L.set_table I g (gm_put (L.table I g) x 0)) (dll_add [x] (L.ordering I g)) else g.
Definition remove1 (g : L.Set_ I) (x : Z) : L.Set_ I :=
  if snd (gm_lookup (L.table I g) x)
  then L.set_ordering I (L.set_table I g (gm_del (L.table I g) x)) (dll_remove (dll_index_of x (L.ordering I g)) (L.ordering I g)) else g.

Lemma add1_rel : forall g tbl ord x, lset_rel g tbl ord ->
  lset_rel (add1 g x) (fst (lset_add1 x (tbl, ord))) (snd (lset_add1 x (tbl, ord))).
Proof.
  intros [t o] tbl ord x [Ht Ho]. cbn [L.table L.ordering] in *. subst t o. unfold add1, lset_add1, lset_rel.
  cbn [L.table L.ordering L.set_table L.set_ordering]. rewrite lookup_zp. cbn [snd].
  destruct (smem x tbl); cbn [negb fst snd L.table L.ordering]; [auto|]. unfold gm_put. now rewrite zp_sadd.
Qed.
Lemma remove1_rel : forall g tbl ord x, lset_rel g tbl ord ->
  lset_rel (remove1 g x) (fst (lset_remove1 x (tbl, ord))) (snd (lset_remove1 x (tbl, ord))).
Proof.
  intros [t o] tbl ord x [Ht Ho]. cbn [L.table L.ordering] in *. subst t o. unfold remove1, lset_remove1, lset_rel.
  cbn [L.table L.ordering L.set_table L.set_ordering]. rewrite lookup_zp. cbn [snd].
  destruct (smem x tbl); cbn [fst snd L.table L.ordering]; [|auto]. unfold gm_del. now rewrite zp_sdel.
Qed.

Lemma Add_fold : forall g vs, fst (L.Add I g vs) = fold_left add1 vs g.
Proof.
  intros g vs. unfold L.Add. cbn [fst]. rewrite <- (range_fold (L.Set_ I) add1 vs g).
  apply fold_left_ext_in. intros a i _. unfold add1. cbn [L.ordering_Append I].
  destruct (gm_lookup (L.table I a) (get vs (Z.to_nat i))) as [v b]. cbn [snd]. destruct b; reflexivity.
Qed.
Lemma Remove_fold : forall g vs, fst (L.Remove I g vs) = fold_left remove1 vs g.
Proof.
  intros g vs. unfold L.Remove. cbn [fst]. rewrite <- (range_fold (L.Set_ I) remove1 vs g).
  apply fold_left_ext_in. intros a i _. unfold remove1. cbn [L.ordering_IndexOf L.ordering_Remove I].
  destruct (gm_lookup (L.table I a) (get vs (Z.to_nat i))) as [v b]. cbn [snd]. destruct b; reflexivity.
Qed.

Lemma fold_rel : forall (gf : L.Set_ I -> Z -> L.Set_ I) (mf : Z -> list Z * list Z -> list Z * list Z),
  (forall g tbl ord x, lset_rel g tbl ord -> lset_rel (gf g x) (fst (mf x (tbl, ord))) (snd (mf x (tbl, ord)))) ->
  forall vs g tbl ord, lset_rel g tbl ord ->
  lset_rel (fold_left gf vs g) (fst (fold_left (fun acc x => mf x acc) vs (tbl, ord))) (snd (fold_left (fun acc x => mf x acc) vs (tbl, ord))).
Proof.
  intros gf mf H vs. induction vs as [|x vs IH]; intros g tbl ord Hrel; cbn [fold_left]; [exact Hrel|].
  specialize (H g tbl ord x Hrel). destruct (mf x (tbl, ord)) as [t o]. now apply IH.
Qed.

Section Equiv.
Variable c : config.
Hypothesis Hk : ckind c = LinkedHashSet.

(* OBLIGATION *)
Theorem New_equiv : lset_rel (L.New I []) [] [] /\ init c = StLSet [] [].
Proof. split; [split; reflexivity|]. unfold init. now rewrite Hk. Qed.

(* OBLIGATION *)
Theorem Add_equiv : forall g tbl ord vs, lset_rel g tbl ord ->
  exists t o, step c (StLSet tbl ord) (Add vs) = (StLSet t o, ounit, onone) /\ lset_rel (fst (L.Add I g vs)) t o.
Proof.
  intros g tbl ord vs Hrel. unfold step, add_values. rewrite Hk. rewrite Add_fold.
  pose proof (fold_rel add1 lset_add1 add1_rel vs g tbl ord Hrel) as H.
  destruct (fold_left (fun acc x => lset_add1 x acc) vs (tbl, ord)) as [t o]. exists t, o. split; [reflexivity|exact H].
Qed.

(* OBLIGATION *)
Theorem Remove_equiv : forall g tbl ord vs, lset_rel g tbl ord ->
  exists t o, step c (StLSet tbl ord) (RemoveVals vs) = (StLSet t o, ounit, onone) /\ lset_rel (fst (L.Remove I g vs)) t o.
Proof.
  intros g tbl ord vs Hrel. unfold step. rewrite Hk. rewrite Remove_fold.
  pose proof (fold_rel remove1 lset_remove1 remove1_rel vs g tbl ord Hrel) as H.
  destruct (fold_left (fun acc x => lset_remove1 x acc) vs (tbl, ord)) as [t o]. exists t, o. split; [reflexivity|exact H].
Qed.

(* OBLIGATION: Clear() empties BOTH the table and the ordering list *)
Theorem Clear_equiv : forall g tbl ord,
  step c (StLSet tbl ord) Clear = (StLSet [] [], ounit, onone) /\ lset_rel (fst (L.Clear I g)) [] [].
Proof. intros g tbl ord. split; [unfold step, init; now rewrite Hk|split; reflexivity]. Qed.

(* OBLIGATION *)
Theorem Contains_equiv : forall g tbl ord vs, lset_rel g tbl ord -> contains_of c (StLSet tbl ord) vs = obool (L.Contains I g vs).
Proof.
  intros g tbl ord vs [Ht Ho]. unfold contains_of. f_equal. unfold L.Contains. rewrite Nat2Z.id.
  rewrite <- (map_nth_seq_ vs) at 1. rewrite forallb_forall_map.
  generalize (seq 0 (length vs)) as idx. induction idx as [|i idx IH]; cbn [map L.Contains_loop1 forallb]; [reflexivity|].
  rewrite Ht, lookup_zp, Nat2Z.id. unfold get. destruct (smem (nth i vs 0) tbl); cbn [negb andb]; [exact IH|reflexivity].
Qed.

(* OBLIGATION *)
Theorem Size_equiv : forall g tbl ord, lset_rel g tbl ord -> L.Size I g = size_of c (StLSet tbl ord).
Proof. intros g tbl ord [Ht Ho]. unfold L.Size. cbn [L.ordering_Size I size_of]. now rewrite Ho. Qed.

(* OBLIGATION *)
Theorem Empty_equiv : forall g tbl ord, lset_rel g tbl ord -> L.Empty I g = (size_of c (StLSet tbl ord) =? 0).
Proof. intros g tbl ord Hrel. unfold L.Empty. now rewrite (Size_equiv g tbl ord Hrel). Qed.
End Equiv.

(* Values(): values[it.Index()] = it.Value() over the enumeration *)
Lemma indexed_fill : forall (l2 pre rest : list Z), (length l2 <= length rest)%nat ->
  fold_left (fun a (kv : Z * Z) => set a (Z.to_nat (fst kv)) (snd kv)) (combine (zrange (Z.of_nat (length pre)) (length l2)) l2) (pre ++ rest)
  = pre ++ l2 ++ skipn (length l2) rest.
Proof.
  induction l2 as [|x l2 IH]; intros pre rest H; cbn [length zrange combine fold_left fst snd app skipn]; [reflexivity|].
  destruct rest as [|r rest]; cbn [length] in H; [lia|].
  rewrite Nat2Z.id. rewrite <- (Nat.add_0_r (length pre)) at 2. rewrite GoSlice.set_app_r. cbn [set].
  replace (pre ++ x :: rest) with ((pre ++ [x]) ++ rest) by (now rewrite <- app_assoc).
  replace (Z.of_nat (length pre) + 1) with (Z.of_nat (length (pre ++ [x]))) by (rewrite app_length; cbn [length]; lia).
  rewrite IH by lia. rewrite <- app_assoc. reflexivity.
Qed.

(* OBLIGATION *)
Theorem Values_equiv : forall c g tbl ord, lset_rel g tbl ord -> L.Values I enum g = values_of c (StLSet tbl ord).
Proof.
  intros c g tbl ord [Ht Ho]. unfold L.Values, L.Size, enum, indexed, values_of. cbn [L.ordering_Size I]. rewrite Ho.
  unfold zlen. rewrite Nat2Z.id. cbv zeta.
  pose proof (indexed_fill ord [] (repeat 0 (length ord))) as H. cbn [app length Z.of_nat] in H.
  rewrite H by (rewrite repeat_length; lia). rewrite skipn_all2 by (rewrite repeat_length; lia). apply app_nil_r.
Qed.

Print Assumptions New_equiv.
Print Assumptions Add_equiv.
Print Assumptions Remove_equiv.
Print Assumptions Clear_equiv.
Print Assumptions Contains_equiv.
Print Assumptions Size_equiv.
Print Assumptions Empty_equiv.
Print Assumptions Values_equiv.

(* ====================== set algebra: membership, for any iteration order of the tables ====================== *)
Lemma Add_one : forall r x, fst (L.Add I r [x]) = add1 r x.
Proof. intros r x. now rewrite Add_fold. Qed.

Lemma add1_members : forall r x y, hmem y (L.table I (add1 r x)) = (x =? y) || hmem y (L.table I r).
Proof.
  intros [t o] x y. unfold add1. cbn [L.table L.ordering L.set_table L.set_ordering]. rewrite lookup_hmem.
  destruct (hmem x t) eqn:E; cbn [negb L.table].
  - destruct (Z.eqb_spec x y) as [->|N]; [now rewrite E|reflexivity].
  - unfold gm_put. apply hmem_hput.
Qed.

Lemma cond_add_fold : forall (P : Z -> bool) x (es : list (Z * Z)) r,
  let r' := fold_left (fun r (kv : Z * Z) => if P (fst kv) then fst (L.Add I r [fst kv]) else r) es r in
  hmem x (L.table I r') = hmem x (L.table I r) || existsb (fun kv => (fst kv =? x) && P (fst kv)) es.
Proof.
  intros P x es. induction es as [|[k v] es IH]; intros r; cbn [fold_left existsb fst].
  - now rewrite orb_false_r.
  - cbn zeta in *. rewrite IH. destruct (P k); [|now rewrite andb_false_r].
    rewrite Add_one, add1_members, andb_true_r. destruct (k =? x), (hmem x (L.table I r)); reflexivity.
Qed.

Section Algebra.
Variable mo : gmap -> list (Z * Z).
Hypothesis mo_perm : forall m, Permutation (mo m) m.

Lemma algebra_loop : forall (P : Z -> bool) (body : L.Set_ I -> Z * Z -> L.Set_ I) l r x,
  (forall r kv, body r kv = if P (fst kv) then fst (L.Add I r [fst kv]) else r) ->
  hmem x (L.table I (fold_left body (mo (zp l)) r)) = hmem x (L.table I r) || (smem x l && P x).
Proof.
  intros P body l r x Hbody.
  rewrite (fold_left_ext_in _ _ body (fun r kv => if P (fst kv) then fst (L.Add I r [fst kv]) else r))
    by (intros; apply Hbody).
  pose proof (cond_add_fold P x (mo (zp l)) r) as H1. cbn zeta in H1.
  rewrite H1, (existsb_perm _ _ _ _ (mo_perm (zp l))), existsb_zp. reflexivity.
Qed.

Lemma new_empty : L.New I [] = L.mkSet I gm_empty [].
Proof. reflexivity. Qed.

Ltac open_sets :=
  intros [ta oa] [tb ob] la lb ord_a ord_b [Ha Ha'] [Hb Hb'] x; cbn [L.table L.ordering] in *; subst ta tb oa ob.

(* OBLIGATION *)
Theorem Intersection_members : forall ga gb la lb oa ob, lset_rel ga la oa -> lset_rel gb lb ob -> forall x,
  hmem x (L.table I (L.Intersection mo I ga gb)) = smem x (hs_inter la lb).
Proof.
  open_sets. unfold hs_inter. rewrite smem_filter. unfold L.Intersection. rewrite new_empty. cbn [L.table].
  try (match goal with |- context [if (L.Size I ?a <=? L.Size I ?b) then _ else _] => destruct (L.Size I a <=? L.Size I b) end);
    cbv zeta;
    first
    [ match goal with |- context [fold_left ?B (mo (zp la)) ?R] =>
        rewrite (algebra_loop (fun y => smem y lb) B la R x)
          by (intros r kv; cbn [L.table]; rewrite lookup_zp; destruct (smem (fst kv) lb); reflexivity) end;
      reflexivity
    | match goal with |- context [fold_left ?B (mo (zp lb)) ?R] =>
        rewrite (algebra_loop (fun y => smem y la) B lb R x)
          by (intros r kv; cbn [L.table]; rewrite lookup_zp; destruct (smem (fst kv) la); reflexivity) end;
      cbn [L.table gm_empty hmem existsb orb]; apply andb_comm ].
Qed.

(* OBLIGATION *)
Theorem Difference_members : forall ga gb la lb oa ob, lset_rel ga la oa -> lset_rel gb lb ob -> forall x,
  hmem x (L.table I (L.Difference mo I ga gb)) = smem x (hs_diff la lb).
Proof.
  open_sets. unfold hs_diff. rewrite smem_filter. unfold L.Difference. rewrite new_empty. cbn [L.table]. cbv zeta.
  match goal with |- context [fold_left ?B (mo (zp la)) ?R] =>
    rewrite (algebra_loop (fun y => negb (smem y lb)) B la R x)
      by (intros r kv; cbn [L.table]; rewrite lookup_zp; destruct (smem (fst kv) lb); reflexivity) end.
  reflexivity.
Qed.

(* OBLIGATION *)
Theorem Union_members : forall ga gb la lb oa ob, lset_rel ga la oa -> lset_rel gb lb ob -> forall x,
  hmem x (L.table I (L.Union mo I ga gb)) = smem x (hs_union la lb).
Proof.
  open_sets. unfold hs_union. rewrite smem_fold_sadd. unfold L.Union. rewrite new_empty. cbn [L.table]. cbv zeta.
  match goal with |- context [fold_left ?B2 (mo (zp lb)) (fold_left ?B1 (mo (zp la)) ?R)] =>
    rewrite (algebra_loop (fun _ => true) B2 lb (fold_left B1 (mo (zp la)) R) x) by (intros r kv; reflexivity);
    rewrite (algebra_loop (fun _ => true) B1 la R x) by (intros r kv; reflexivity) end.
  cbn [L.table gm_empty hmem existsb orb]. rewrite !andb_true_r. unfold smem. rewrite existsb_app. reflexivity.
Qed.
End Algebra.

Print Assumptions Intersection_members.
Print Assumptions Difference_members.
Print Assumptions Union_members.

(* ---------- runs ---------- *)
Inductive gop := GAdd (vs : list Z) | GRemove (vs : list Z) | GClear.
Definition gen_step (g : L.Set_ I) (o : gop) : L.Set_ I :=
  match o with GAdd vs => fst (L.Add I g vs) | GRemove vs => fst (L.Remove I g vs) | GClear => fst (L.Clear I g) end.
Definition gen_run (ops : list gop) : L.Set_ I := fold_left gen_step ops (L.New I []).
Definition to_op (o : gop) : op := match o with GAdd vs => Add vs | GRemove vs => RemoveVals vs | GClear => Clear end.

(* OBLIGATION *)
Theorem gen_run_simulates : forall c, ckind c = LinkedHashSet -> forall ops,
  exists tbl ord, run c (map to_op ops) = StLSet tbl ord /\ lset_rel (gen_run ops) tbl ord.
Proof.
  intros c Hk ops. induction ops as [|o ops IH] using rev_ind.
  - exists [], []. destruct (New_equiv c Hk) as [H1 H2]. split; [|exact H1].
    unfold run, run_from. cbn [map fold_left]. exact H2.
  - destruct IH as (tbl & ord & Hrun & Hrel). rewrite map_app. cbn [map]. rewrite run_snoc, Hrun.
    unfold gen_run. rewrite fold_left_app. cbn [fold_left]. fold (gen_run ops).
    destruct o as [vs|vs|]; cbn [to_op gen_step].
    + destruct (Add_equiv c Hk _ tbl ord vs Hrel) as (t & o & Hs & Hr). exists t, o. now rewrite Hs.
    + destruct (Remove_equiv c Hk _ tbl ord vs Hrel) as (t & o & Hs & Hr). exists t, o. now rewrite Hs.
    + destruct (Clear_equiv c Hk (gen_run ops) tbl ord) as [Hs Hr]. exists [], []. now rewrite Hs.
Qed.
Print Assumptions gen_run_simulates.
