(* READ PATHS of trees/redblacktree/redblacktree.go in TREE POINTER MODE (GodsGen.RedBlackTreeHeapGen: heap of Node records,
   comparator CALLS counted in ncmp, loops on explicit fuel -- see README.md) against the functional model
   Model/RBTree.v, for EVERY heap h, tree header tr, model tree t with [tree_repr h tr t] (RBTreeHeapRep.v), every key,
   every comparator (no order hypothesis: the descent is the model's), every magnitude function of the comparator's
   answers and every fuel above the height of t:

     lookup / GetNode / Get   = RB.lookup          Floor / Ceiling = RB.floor / RB.ceiling
     Left / Right             = RB.leftmost / RB.rightmost        maximumNode = RB.rightmost, Node.Size = RB.count
     number of comparator calls (ncmp) of lookup / Get / GetNode / Floor / Ceiling = RB.lookup_cost (property C07)

   never None (no nil dereference, fuel S (RB.height t) suffices).  The readers cannot change the heap: they do not
   return one ([readers_signature] pins their types; a reader that started writing would change its type). *)
From Coq Require Import ZArith List Lia Bool Arith ZifyBool ZifyNat.
From Gods Require Import Common.Cmp Model.RBTree.
From GodsGenProofs Require Import GoCmp GoTreeHeap RBTreeHeapRep.
From GodsGen Require RedBlackTreeHeapGen.
Import ListNotations.
Local Open Scope Z_scope.

Module Names.
Import Coq.Strings.String.
(* OBLIGATION *)
Theorem translated_functions :
  G.translated = ["Begin"; "Ceiling"; "Clear"; "Empty"; "End"; "First"; "Floor"; "Get"; "GetNode"; "IteratorAt"; "Iterator_Node"; "Key"; "Keys"; "Last"; "Left"; "New"; "NewWith"; "Next"; "NextTo"; "Node_Size"; "Prev"; "PrevTo"; "Put"; "Remove"; "Right"; "Tree_Iterator"; "Tree_Size"; "Value"; "Values"; "deleteCase1"; "deleteCase2"; "deleteCase3"; "deleteCase4"; "deleteCase5"; "deleteCase6"; "grandparent"; "insertCase1"; "insertCase2"; "insertCase3"; "insertCase4"; "insertCase5"; "lookup"; "maximumNode"; "nodeColor"; "replaceNode"; "rotateLeft"; "rotateRight"; "sibling"; "uncle"]%string
  /\ G.skipped = ["String"; "output"]%string.
Proof. repeat split. Qed.
Print Assumptions translated_functions.
End Names.

Definition is_some {A} (o : option A) : bool := match o with Some _ => true | None => false end.

(* OBLIGATION *)
Theorem readers_signature : forall mag : Z -> Z -> positive,
  (G.lookup mag : nat -> nat -> heap G.Node -> G.Tree -> Z -> option (nat * ptr)) = G.lookup mag /\
  (G.GetNode mag : nat -> nat -> heap G.Node -> G.Tree -> Z -> option (nat * ptr)) = G.GetNode mag /\
  (G.Get mag : nat -> nat -> heap G.Node -> G.Tree -> Z -> option (nat * Z * bool)) = G.Get mag /\
  (G.Floor mag : nat -> nat -> heap G.Node -> G.Tree -> Z -> option (nat * ptr * bool)) = G.Floor mag /\
  (G.Ceiling mag : nat -> nat -> heap G.Node -> G.Tree -> Z -> option (nat * ptr * bool)) = G.Ceiling mag /\
  (G.Left : nat -> heap G.Node -> G.Tree -> option ptr) = G.Left /\
  (G.Right : nat -> heap G.Node -> G.Tree -> option ptr) = G.Right /\
  (G.maximumNode : nat -> heap G.Node -> ptr -> option ptr) = G.maximumNode /\
  (G.Node_Size : nat -> heap G.Node -> ptr -> option Z) = G.Node_Size /\
  (G.Tree_Size : heap G.Node -> G.Tree -> option Z) = G.Tree_Size /\
  (G.Empty : heap G.Node -> G.Tree -> option bool) = G.Empty.
Proof. intros. repeat split. Qed.
Print Assumptions readers_signature.


(* ---------- lookup ---------- *)
Lemma lookup_loop_spec : forall mag (tr : G.Tree) key h pt pp fuel n,
  rep h pp pt -> (RB.height (erase pt) < fuel)%nat ->
  exists p, node_is h p (RB.lookup (G.Tree_Comparator tr) key (erase pt)) /\
  G.lookup_loop1 mag fuel n h tr key (root_ptr pt) =
    Some (match RB.lookup (G.Tree_Comparator tr) key (erase pt) with
          | Some _ => Some ((n + RB.lookup_cost (G.Tree_Comparator tr) key (erase pt))%nat, p)
          | None => None end,
          ((n + RB.lookup_cost (G.Tree_Comparator tr) key (erase pt))%nat, p)).
Proof.
  intros mag tr key h. induction pt as [|a c l IHl k v r IHr]; intros pp fuel n Hrep Hf.
  - exists None. split; [reflexivity|]. destruct fuel; cbn [G.lookup_loop1 root_ptr is_nil negb erase RB.lookup RB.lookup_cost]; now rewrite Nat.add_0_r.
  - destruct fuel as [|fuel]; [simpl in Hf; lia|].
    pose proof (rep_root_deref _ _ _ _ _ _ _ _ Hrep) as Hd. simpl in Hrep. destruct Hrep as (_ & Hl & Hr).
    cbn [G.lookup_loop1 root_ptr is_nil negb erase RB.lookup RB.lookup_cost RB.height] in *.
    rewrite Hd. cbn [node_of G.Node_Key G.Node_Left G.Node_Right].
    destruct (G.Tree_Comparator tr key k) eqn:E.
    + rewrite (call_cmp_Eq mag _ _ _ E). exists (Some a). split.
      * cbn [node_is]. eexists. split; [exact Hd|]. split; reflexivity.
      * now rewrite Nat.add_1_r.
    + destruct (call_cmp_Lt mag _ _ _ E) as (E0 & E1 & E2). rewrite E0, E1.
      destruct (IHl (Some a) fuel (S n) Hl ltac:(lia)) as (p & Hp & Hrun). exists p. split; [exact Hp|].
      rewrite Hrun. rewrite <- Nat.add_succ_comm. reflexivity.
    + destruct (call_cmp_Gt mag _ _ _ E) as (E0 & E1 & E2). rewrite E0, E1, E2.
      destruct (IHr (Some a) fuel (S n) Hr ltac:(lia)) as (p & Hp & Hrun). exists p. split; [exact Hp|].
      rewrite Hrun. rewrite <- Nat.add_succ_comm. reflexivity.
Qed.

(* OBLIGATION *)
Theorem lookup_correct : forall mag h tr t key fuel n,
  tree_repr h tr t -> (RB.height t < fuel)%nat ->
  exists p, G.lookup mag fuel n h tr key = Some ((n + RB.lookup_cost (G.Tree_Comparator tr) key t)%nat, p) /\
            node_is h p (RB.lookup (G.Tree_Comparator tr) key t).
Proof.
  intros mag h tr t key fuel n (pt & <- & Hroot & Hrep & _) Hf. unfold G.lookup. rewrite <- Hroot.
  destruct (lookup_loop_spec mag tr key h pt None fuel n Hrep Hf) as (p & Hp & ->).
  destruct (RB.lookup (G.Tree_Comparator tr) key (erase pt)) as [[k v]|] eqn:E.
  - exists p. split; [reflexivity|exact Hp].
  - exists None. split; reflexivity.
Qed.
Print Assumptions lookup_correct.

(* OBLIGATION *)
Theorem GetNode_correct : forall mag h tr t key fuel n,
  tree_repr h tr t -> (RB.height t < fuel)%nat ->
  exists p, G.GetNode mag fuel n h tr key = Some ((n + RB.lookup_cost (G.Tree_Comparator tr) key t)%nat, p) /\
            node_is h p (RB.lookup (G.Tree_Comparator tr) key t).
Proof.
  intros mag h tr t key fuel n Hr Hf. destruct (lookup_correct mag h tr t key fuel n Hr Hf) as (p & Hrun & Hp).
  exists p. split; [|exact Hp]. unfold G.GetNode. now rewrite Hrun.
Qed.
Print Assumptions GetNode_correct.

(* OBLIGATION *)
Theorem Get_correct : forall mag h tr t key fuel n,
  tree_repr h tr t -> (RB.height t < fuel)%nat ->
  G.Get mag fuel n h tr key =
    Some ((n + RB.lookup_cost (G.Tree_Comparator tr) key t)%nat,
          match RB.lookup (G.Tree_Comparator tr) key t with Some (_, v) => v | None => 0 end,
          is_some (RB.lookup (G.Tree_Comparator tr) key t)).
Proof.
  intros mag h tr t key fuel n Hr Hf. destruct (lookup_correct mag h tr t key fuel n Hr Hf) as (p & Hrun & Hp).
  unfold G.Get. rewrite Hrun. destruct (RB.lookup (G.Tree_Comparator tr) key t) as [[k v]|].
  - destruct Hp as (nd & Hd & Hk & Hv). destruct p as [a|]; [|discriminate]. cbn [is_nil negb]. rewrite Hd. now rewrite Hv.
  - cbn [node_is] in Hp. subst p. reflexivity.
Qed.
Print Assumptions Get_correct.

(* ---------- Floor / Ceiling ---------- *)
Definition cand_is (h : heap G.Node) (p : ptr) (found : bool) (o : option (Z * Z)) : Prop :=
  found = is_some o /\ (found = true -> node_is h p o).

Lemma Floor_loop_spec : forall mag (tr : G.Tree) key h pt pp fuel n fl fd cand,
  rep h pp pt -> (RB.height (erase pt) < fuel)%nat -> cand_is h fl fd cand ->
  exists er fl' fd' p',
    G.Floor_loop1 mag fuel n h tr key fl fd (root_ptr pt) =
      Some (er, ((n + RB.lookup_cost (G.Tree_Comparator tr) key (erase pt))%nat, fl', fd', p')) /\
    match er with
    | Some (n', p, b) => n' = (n + RB.lookup_cost (G.Tree_Comparator tr) key (erase pt))%nat /\ b = true /\
        is_some (RB.floor_from (G.Tree_Comparator tr) key (erase pt) cand) = true /\
        node_is h p (RB.floor_from (G.Tree_Comparator tr) key (erase pt) cand)
    | None => cand_is h fl' fd' (RB.floor_from (G.Tree_Comparator tr) key (erase pt) cand)
    end.
Proof.
  intros mag tr key h. induction pt as [|a c l IHl k v r IHr]; intros pp fuel n fl fd cand Hrep Hf Hc.
  - exists None, fl, fd, None. split; [|exact Hc].
    destruct fuel; cbn [G.Floor_loop1 root_ptr is_nil negb erase RB.lookup_cost]; now rewrite Nat.add_0_r.
  - destruct fuel as [|fuel]; [simpl in Hf; lia|].
    pose proof (rep_root_deref _ _ _ _ _ _ _ _ Hrep) as Hd. simpl in Hrep. destruct Hrep as (_ & Hl & Hr).
    cbn [G.Floor_loop1 root_ptr is_nil negb erase RB.floor_from RB.lookup_cost RB.height] in *.
    rewrite Hd. cbn [node_of G.Node_Key G.Node_Left G.Node_Right].
    destruct (G.Tree_Comparator tr key k) eqn:E.
    + rewrite (call_cmp_Eq mag _ _ _ E). exists (Some ((n + 1)%nat, Some a, true)), fl, fd, (Some a).
      split; [now rewrite Nat.add_1_r|]. repeat split. cbn [node_is]. eexists. split; [exact Hd|]. split; reflexivity.
    + destruct (call_cmp_Lt mag _ _ _ E) as (E0 & E1 & E2). rewrite E0, E1.
      destruct (IHl (Some a) fuel (S n) fl fd cand Hl ltac:(lia) Hc) as (er & fl' & fd' & p' & Hrun & Hres).
      exists er, fl', fd', p'. rewrite Hrun, <- Nat.add_succ_comm. split; [reflexivity|].
      exact Hres.
    + destruct (call_cmp_Gt mag _ _ _ E) as (E0 & E1 & E2). rewrite E0, E1, E2.
      assert (Hc' : cand_is h (Some a) true (Some (k, v))).
      { split; [reflexivity|]. intros _. cbn [node_is]. eexists. split; [exact Hd|]. split; reflexivity. }
      destruct (IHr (Some a) fuel (S n) (Some a) true (Some (k, v)) Hr ltac:(lia) Hc') as (er & fl' & fd' & p' & Hrun & Hres).
      exists er, fl', fd', p'. rewrite Hrun, <- Nat.add_succ_comm. split; [reflexivity|].
      exact Hres.
Qed.

Lemma Ceiling_loop_spec : forall mag (tr : G.Tree) key h pt pp fuel n fl fd cand,
  rep h pp pt -> (RB.height (erase pt) < fuel)%nat -> cand_is h fl fd cand ->
  exists er fl' fd' p',
    G.Ceiling_loop1 mag fuel n h tr key fl fd (root_ptr pt) =
      Some (er, ((n + RB.lookup_cost (G.Tree_Comparator tr) key (erase pt))%nat, fl', fd', p')) /\
    match er with
    | Some (n', p, b) => n' = (n + RB.lookup_cost (G.Tree_Comparator tr) key (erase pt))%nat /\ b = true /\
        is_some (RB.ceiling_from (G.Tree_Comparator tr) key (erase pt) cand) = true /\
        node_is h p (RB.ceiling_from (G.Tree_Comparator tr) key (erase pt) cand)
    | None => cand_is h fl' fd' (RB.ceiling_from (G.Tree_Comparator tr) key (erase pt) cand)
    end.
Proof.
  intros mag tr key h. induction pt as [|a c l IHl k v r IHr]; intros pp fuel n fl fd cand Hrep Hf Hc.
  - exists None, fl, fd, None. split; [|exact Hc].
    destruct fuel; cbn [G.Ceiling_loop1 root_ptr is_nil negb erase RB.lookup_cost]; now rewrite Nat.add_0_r.
  - destruct fuel as [|fuel]; [simpl in Hf; lia|].
    pose proof (rep_root_deref _ _ _ _ _ _ _ _ Hrep) as Hd. simpl in Hrep. destruct Hrep as (_ & Hl & Hr).
    cbn [G.Ceiling_loop1 root_ptr is_nil negb erase RB.ceiling_from RB.lookup_cost RB.height] in *.
    rewrite Hd. cbn [node_of G.Node_Key G.Node_Left G.Node_Right].
    destruct (G.Tree_Comparator tr key k) eqn:E.
    + rewrite (call_cmp_Eq mag _ _ _ E). exists (Some ((n + 1)%nat, Some a, true)), fl, fd, (Some a).
      split; [now rewrite Nat.add_1_r|]. repeat split. cbn [node_is]. eexists. split; [exact Hd|]. split; reflexivity.
    + destruct (call_cmp_Lt mag _ _ _ E) as (E0 & E1 & E2). rewrite E0, E1.
      assert (Hc' : cand_is h (Some a) true (Some (k, v))).
      { split; [reflexivity|]. intros _. cbn [node_is]. eexists. split; [exact Hd|]. split; reflexivity. }
      destruct (IHl (Some a) fuel (S n) (Some a) true (Some (k, v)) Hl ltac:(lia) Hc') as (er & fl' & fd' & p' & Hrun & Hres).
      exists er, fl', fd', p'. rewrite Hrun, <- Nat.add_succ_comm. split; [reflexivity|].
      exact Hres.
    + destruct (call_cmp_Gt mag _ _ _ E) as (E0 & E1 & E2). rewrite E0, E1, E2.
      destruct (IHr (Some a) fuel (S n) fl fd cand Hr ltac:(lia) Hc) as (er & fl' & fd' & p' & Hrun & Hres).
      exists er, fl', fd', p'. rewrite Hrun, <- Nat.add_succ_comm. split; [reflexivity|].
      exact Hres.
Qed.

Lemma cand_none : forall h, cand_is h None false None.
Proof. intros h. split; [reflexivity|discriminate]. Qed.

(* OBLIGATION *)
Theorem Floor_correct : forall mag h tr t key fuel n,
  tree_repr h tr t -> (RB.height t < fuel)%nat ->
  exists p, G.Floor mag fuel n h tr key =
              Some ((n + RB.lookup_cost (G.Tree_Comparator tr) key t)%nat, p, is_some (RB.floor (G.Tree_Comparator tr) key t)) /\
            node_is h p (RB.floor (G.Tree_Comparator tr) key t).
Proof.
  intros mag h tr t key fuel n (pt & <- & Hroot & Hrep & _) Hf. unfold G.Floor, RB.floor. rewrite <- Hroot.
  destruct (Floor_loop_spec mag tr key h pt None fuel n None false None Hrep Hf (cand_none h)) as (er & fl' & fd' & p' & -> & Hres).
  destruct er as [[[n' p] b]|].
  - destruct Hres as (-> & -> & Hs & Hp). exists p. rewrite Hs. split; [reflexivity|exact Hp].
  - destruct Hres as (Hfd & Hp). destruct fd'.
    + exists fl'. rewrite <- Hfd. split; [reflexivity|]. now apply Hp.
    + exists None. rewrite <- Hfd. split; [reflexivity|].
      destruct (RB.floor_from (G.Tree_Comparator tr) key (erase pt) None); [discriminate|reflexivity].
Qed.
Print Assumptions Floor_correct.

(* OBLIGATION *)
Theorem Ceiling_correct : forall mag h tr t key fuel n,
  tree_repr h tr t -> (RB.height t < fuel)%nat ->
  exists p, G.Ceiling mag fuel n h tr key =
              Some ((n + RB.lookup_cost (G.Tree_Comparator tr) key t)%nat, p, is_some (RB.ceiling (G.Tree_Comparator tr) key t)) /\
            node_is h p (RB.ceiling (G.Tree_Comparator tr) key t).
Proof.
  intros mag h tr t key fuel n (pt & <- & Hroot & Hrep & _) Hf. unfold G.Ceiling, RB.ceiling. rewrite <- Hroot.
  destruct (Ceiling_loop_spec mag tr key h pt None fuel n None false None Hrep Hf (cand_none h)) as (er & fl' & fd' & p' & -> & Hres).
  destruct er as [[[n' p] b]|].
  - destruct Hres as (-> & -> & Hs & Hp). exists p. rewrite Hs. split; [reflexivity|exact Hp].
  - destruct Hres as (Hfd & Hp). destruct fd'.
    + exists fl'. rewrite <- Hfd. split; [reflexivity|]. now apply Hp.
    + exists None. rewrite <- Hfd. split; [reflexivity|].
      destruct (RB.ceiling_from (G.Tree_Comparator tr) key (erase pt) None); [discriminate|reflexivity].
Qed.
Print Assumptions Ceiling_correct.

(* ---------- Left / Right / maximumNode ---------- *)
Lemma leftmost_T : forall c l k v r, exists kv, RB.leftmost (RB.T c l k v r) = Some kv.
Proof.
  intros c l. revert c. induction l as [|c' l' IH k' v' r' _]; intros c k v r; [now eexists|].
  destruct (IH c' k' v' r') as (kv & E). exists kv. cbn [RB.leftmost] in *. exact E.
Qed.
Lemma rightmost_T : forall c l k v r, exists kv, RB.rightmost (RB.T c l k v r) = Some kv.
Proof.
  intros c l k v r. revert c l k v. induction r as [|c' l' _ k' v' r' IH]; intros c l k v; [now eexists|].
  destruct (IH c' l' k' v') as (kv & E). exists kv. cbn [RB.rightmost] in *. exact E.
Qed.
Lemma Left_loop_spec : forall (tr : G.Tree) h pt pp fuel par,
  rep h pp pt -> (RB.height (erase pt) < fuel)%nat ->
  exists p, G.Left_loop1 fuel h tr par (root_ptr pt) = Some (p, None) /\
            match RB.leftmost (erase pt) with None => p = par | Some kv => node_is h p (Some kv) end.
Proof.
  intros tr h. induction pt as [|a c l IHl k v r IHr]; intros pp fuel par Hrep Hf.
  - exists par. split; [|reflexivity]. destruct fuel; reflexivity.
  - destruct fuel as [|fuel]; [simpl in Hf; lia|].
    pose proof (rep_root_deref _ _ _ _ _ _ _ _ Hrep) as Hd. simpl in Hrep. destruct Hrep as (_ & Hl & Hr).
    cbn [G.Left_loop1 root_ptr is_nil negb erase RB.height] in *. rewrite Hd. cbn [node_of G.Node_Left].
    destruct (IHl (Some a) fuel (Some a) Hl ltac:(lia)) as (p & Hrun & Hp). exists p. split; [exact Hrun|].
    cbn [RB.leftmost]. destruct (erase l) eqn:El.
    + cbn [RB.leftmost] in Hp. subst p. eexists. split; [exact Hd|]. split; reflexivity.
    + destruct (leftmost_T c0 t1 k0 v0 t2) as (kv & E). rewrite E in *. exact Hp.
Qed.

Lemma Right_loop_spec : forall (tr : G.Tree) h pt pp fuel par,
  rep h pp pt -> (RB.height (erase pt) < fuel)%nat ->
  exists p, G.Right_loop1 fuel h tr par (root_ptr pt) = Some (p, None) /\
            match RB.rightmost (erase pt) with None => p = par | Some kv => node_is h p (Some kv) end.
Proof.
  intros tr h. induction pt as [|a c l IHl k v r IHr]; intros pp fuel par Hrep Hf.
  - exists par. split; [|reflexivity]. destruct fuel; reflexivity.
  - destruct fuel as [|fuel]; [simpl in Hf; lia|].
    pose proof (rep_root_deref _ _ _ _ _ _ _ _ Hrep) as Hd. simpl in Hrep. destruct Hrep as (_ & Hl & Hr).
    cbn [G.Right_loop1 root_ptr is_nil negb erase RB.height] in *. rewrite Hd. cbn [node_of G.Node_Right].
    destruct (IHr (Some a) fuel (Some a) Hr ltac:(lia)) as (p & Hrun & Hp). exists p. split; [exact Hrun|].
    cbn [RB.rightmost]. destruct (erase r) eqn:Er.
    + cbn [RB.rightmost] in Hp. subst p. eexists. split; [exact Hd|]. split; reflexivity.
    + destruct (rightmost_T c0 t1 k0 v0 t2) as (kv & E). rewrite E in *. exact Hp.
Qed.

(* OBLIGATION *)
Theorem Left_Right_correct : forall h tr t fuel,
  tree_repr h tr t -> (RB.height t < fuel)%nat ->
  (exists p, G.Left fuel h tr = Some p /\ node_is h p (RB.leftmost t)) /\
  (exists p, G.Right fuel h tr = Some p /\ node_is h p (RB.rightmost t)).
Proof.
  intros h tr t fuel (pt & <- & Hroot & Hrep & _) Hf. split.
  - unfold G.Left. rewrite <- Hroot. destruct (Left_loop_spec tr h pt None fuel None Hrep Hf) as (p & -> & Hp).
    exists p. split; [reflexivity|]. destruct (RB.leftmost (erase pt)); assumption.
  - unfold G.Right. rewrite <- Hroot. destruct (Right_loop_spec tr h pt None fuel None Hrep Hf) as (p & -> & Hp).
    exists p. split; [reflexivity|]. destruct (RB.rightmost (erase pt)); assumption.
Qed.
Print Assumptions Left_Right_correct.

Lemma maximumNode_loop_spec : forall h r a c l k v pp fuel,
  rep h pp (PT a c l k v r) -> (RB.height (erase r) < fuel)%nat ->
  exists p, G.maximumNode_loop1 fuel h (Some a) = Some p /\ node_is h p (RB.rightmost (erase (PT a c l k v r))).
Proof.
  intros h. induction r as [|a' c' l' _ k' v' r' IHr]; intros a c l k v pp fuel Hrep Hf.
  - pose proof (rep_root_deref _ _ _ _ _ _ _ _ Hrep) as Hd. exists (Some a). split.
    + destruct fuel; cbn [G.maximumNode_loop1]; rewrite Hd; reflexivity.
    + cbn [erase RB.rightmost node_is]. eexists. split; [exact Hd|]. split; reflexivity.
  - destruct fuel as [|fuel]; [simpl in Hf; lia|].
    pose proof (rep_root_deref _ _ _ _ _ _ _ _ Hrep) as Hd. simpl in Hrep. destruct Hrep as (_ & _ & Hr).
    cbn [G.maximumNode_loop1]. rewrite Hd. cbn [node_of G.Node_Right root_ptr is_nil negb].
    cbn [erase RB.height] in Hf.
    destruct (IHr a' c' l' k' v' (Some a) fuel Hr ltac:(cbn [erase]; lia)) as (p & Hrun & Hp). exists p. split; [exact Hrun|].
    exact Hp.
Qed.

(* OBLIGATION *)
Theorem maximumNode_correct : forall h p pp t fuel,
  repr h p pp t -> (RB.height t < fuel)%nat ->
  exists q, G.maximumNode fuel h p = Some q /\ node_is h q (RB.rightmost t).
Proof.
  intros h p pp t fuel (pt & <- & <- & Hrep & _) Hf. unfold G.maximumNode. destruct pt as [|a c l k v r].
  - exists None. split; reflexivity.
  - cbn [root_ptr is_nil]. destruct (maximumNode_loop_spec h r a c l k v pp fuel Hrep ltac:(cbn [erase RB.height] in Hf; lia)) as (q & -> & Hq).
    exists q. split; [reflexivity|exact Hq].
Qed.
Print Assumptions maximumNode_correct.

(* ---------- sizes ---------- *)
(* OBLIGATION *)
Theorem Node_Size_correct : forall h p pp t fuel,
  repr h p pp t -> (RB.height t < fuel)%nat ->
  G.Node_Size fuel h p = Some (Z.of_nat (RB.count t)).
Proof.
  intros h p pp t fuel (pt & <- & <- & Hrep & _). revert pp fuel Hrep.
  induction pt as [|a c l IHl k v r IHr]; intros pp fuel Hrep Hf.
  - destruct fuel; [simpl in Hf; lia|]. reflexivity.
  - destruct fuel as [|fuel]; [simpl in Hf; lia|].
    pose proof (rep_root_deref _ _ _ _ _ _ _ _ Hrep) as Hd. simpl in Hrep. destruct Hrep as (_ & Hl & Hr).
    cbn [erase RB.height] in Hf. cbn [G.Node_Size root_ptr is_nil]. rewrite Hd. cbn [node_of G.Node_Left G.Node_Right].
    assert (HL : (if negb (is_nil (root_ptr l)) then
                    match G.Node_Size fuel h (root_ptr l) with Some r3 => Some (1 + r3) | None => None end
                  else Some 1) = Some (1 + Z.of_nat (RB.count (erase l)))).
    { destruct l as [|la lc ll lk lv lr]; [reflexivity|]. cbn [root_ptr is_nil negb]. cbn [root_ptr] in IHl. rewrite (IHl (Some a) fuel Hl ltac:(lia)). reflexivity. }
    rewrite HL.
    assert (HR : (if negb (is_nil (root_ptr r)) then
                    match G.Node_Size fuel h (root_ptr r) with Some r7 => Some (1 + Z.of_nat (RB.count (erase l)) + r7) | None => None end
                  else Some (1 + Z.of_nat (RB.count (erase l)))) = Some (1 + Z.of_nat (RB.count (erase l)) + Z.of_nat (RB.count (erase r)))).
    { destruct r as [|ra rc rl rk rv rr]; [cbn; f_equal; lia|]. cbn [root_ptr is_nil negb]. cbn [root_ptr] in IHr. rewrite (IHr (Some a) fuel Hr ltac:(lia)). reflexivity. }
    rewrite HR. cbn [erase RB.count]. f_equal. lia.
Qed.
Print Assumptions Node_Size_correct.

(* the header's size field counts the nodes: an invariant of the writers (not of the heap representation) *)
(* OBLIGATION *)
Theorem Size_Empty_correct : forall h tr t,
  G.Tree_size tr = Z.of_nat (RB.count t) ->
  G.Tree_Size h tr = Some (Z.of_nat (RB.count t)) /\
  G.Empty h tr = Some (match t with RB.E => true | _ => false end).
Proof.
  intros h tr t Hs. unfold G.Tree_Size, G.Empty. rewrite Hs. split; [reflexivity|].
  destruct t; reflexivity.
Qed.
Print Assumptions Size_Empty_correct.
