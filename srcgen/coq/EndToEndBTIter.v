(* END-TO-END COROLLARIES for trees/btree, property C08, and a concrete run (see EndToEndBT.v) *)
From Coq Require Import ZArith List Lia Bool Arith Sorted SetoidList.
From Gods Require Import Common.Cmp Common.ListAux Spec.MapSpec Spec.SeqSpec Model.Ops Model.Machine Model.BTree Model.BTreeCost Model.BTreeIter Model.Iter.
From Gods Require Proofs.BTreeInv Proofs.BTreeMap Proofs.BTreeBounds Proofs.BTreeCostProofs Proofs.MapSpecProofs Proofs.MachineMaps Proofs.MachineTrees
  Proofs.IterLinear Proofs.IterTreeMachine Proofs.IterTreeRB Proofs.IterTreeBT.
From GodsGen Require BTreeHeapGen.
From GodsGenProofs Require Import GoCmp GoTreeHeap GoBTreeHeap BTreeHeapRep BTreeHeapReadProofs BTreeHeapIterProofs BTreeHeapIterToProofs.
From GodsGenProofs Require Import BTreeHeapPutProofs BTreeHeapRemoveProofs EndToEndBT.
Import ListNotations.
Local Open Scope Z_scope.


(* ====================== C08: the generated iterator is the cursor over the entries ====================== *)
(* the B-tree iterator re-finds its entry by key in every node, so Next / Prev call the comparator: the ghost counter is threaded *)
Definition gen_moved (h : heap G.Node) (r : option (nat * G.Iterator * bool)) : option (nat * G.Iterator * obs) :=
  match r with
  | Some (n, it', true) => match G.Key h it', G.Value h it' with
                           | Some k, Some v => Some (n, it', OL [OZ 1; OZ k; OZ v])
                           | _, _ => None
                           end
  | Some (n, it', false) => Some (n, it', OL [OZ 0])
  | None => None
  end.
Definition gen_call (mag : Z -> Z -> positive) (fuel n : nat) (h : heap G.Node) (tr : G.Tree) (it : G.Iterator) (c : icall)
  : option (nat * G.Iterator * obs) :=
  match c with
  | CNext => gen_moved h (G.Next mag fuel n h tr it)
  | CPrev => gen_moved h (G.Prev mag fuel n h tr it)
  | CBegin => match G.Begin h it with Some it' => Some (n, it', ounit) | None => None end
  | CEnd => match G.End h it with Some it' => Some (n, it', ounit) | None => None end
  | CFirst => gen_moved h (G.First mag fuel n h tr it)
  | CLast => gen_moved h (G.Last mag fuel n h tr it)
  | CNextTo p => gen_moved h (G.NextTo mag fuel n h tr it (pred_eval p))
  | CPrevTo p => gen_moved h (G.PrevTo mag fuel n h tr it (pred_eval p))
  end.
Fixpoint gen_script (mag : Z -> Z -> positive) (fuel n : nat) (h : heap G.Node) (tr : G.Tree) (it : G.Iterator) (cs : list icall) : list obs :=
  match cs with
  | [] => []
  | c :: cs' => match gen_call mag fuel n h tr it c with
                | None => [ocrash]
                | Some (n', it', o) => o :: gen_script mag fuel n' h tr it' cs'
                end
  end.

Section Script.
Variables (mag : Z -> Z -> positive) (h : heap G.Node) (tr : G.Tree) (opt : option pnode).
Notation cmp := (G.Tree_Comparator tr).
Notation r := (oerase opt).
Hypothesis Hswo : SWO cmp.
Hypothesis Hgood : IterTreeBT.bt_good cmp r.
Hypothesis Hrep : orep h tr opt.
Hypothesis Hsz : osize_ok tr opt.
Notation mcall m := (run_call ipos (bt_next cmp r) (bt_prev cmp r) (fun _ => IBegin) (fun _ => IEnd) (ientry r) true m).

Lemma Hne : opne opt.
Proof. destruct opt as [pt|]; [|exact I]. cbn [oerase option_map IterTreeBT.bt_good] in Hgood. destruct Hgood as (_ & Hn & _). now apply pne_erase. Qed.

Lemma moved_transfer : forall n it ip b ip' o, irep opt it ip ->
  moved ipos (ientry r) ip b = Some (ip', o) -> gen_moved h (Some (n, it, b)) = Some (n, it, o) /\ ip' = ip.
Proof.
  intros n it ip b ip' o Hir Hm. unfold moved in Hm. destruct b; cbn [gen_moved]; [|injection Hm as <- <-; split; reflexivity].
  destruct ip as [| |path key]; [destruct r; discriminate|destruct r; discriminate|].
  destruct (irep_ientry cmp Hswo h opt it path key Hgood Hir) as (v & Hie & Hk & Hv). rewrite Hie in Hm.
  injection Hm as <- <-. rewrite Hk, Hv. split; reflexivity.
Qed.

Lemma gen_call_model : forall n it ip m fuel c ip' o, irep opt it ip -> (m + omaxheight opt + owid opt <= fuel)%nat ->
  mcall m ip c = Some (ip', o) -> exists n' it', gen_call mag fuel n h tr it c = Some (n', it', o) /\ irep opt it' ip'.
Proof.
  intros n it ip m fuel c ip' o Hir Hf Hc. assert (Hf' : (omaxheight opt + owid opt <= fuel)%nat) by lia. pose proof Hne as Hne.
  destruct c as [| | | | | |pr|pr]; cbn [run_call gen_call] in *.
  - destruct (Next_correct mag h tr opt it ip fuel n Hrep Hsz Hne Hir Hf') as (n' & it' & Hrun & Hir' & _). unfold bt_next in Hc.
    destruct (moved_transfer n' it' _ _ _ _ Hir' Hc) as (Hg & ->). fold (is_between (inext cmp r ip)) in Hg. rewrite Hrun. exists n', it'. split; [exact Hg|exact Hir'].
  - destruct (Prev_correct mag h tr opt it ip fuel n Hrep Hsz Hne Hir Hf') as (n' & it' & Hrun & Hir' & _). unfold bt_prev in Hc.
    destruct (moved_transfer n' it' _ _ _ _ Hir' Hc) as (Hg & ->). fold (is_between (iprev cmp r ip)) in Hg. rewrite Hrun. exists n', it'. split; [exact Hg|exact Hir'].
  - injection Hc as <- <-. destruct (Begin_End_correct h tr opt it) as ((it' & Hb & Hir' & _) & _). rewrite Hb. exists n, it'. split; [reflexivity|exact Hir'].
  - injection Hc as <- <-. destruct (Begin_End_correct h tr opt it) as (_ & (it' & Hb & Hir' & _) & _). rewrite Hb. exists n, it'. split; [reflexivity|exact Hir'].
  - destruct (First_Last_correct mag h tr opt it fuel n Hrep Hsz Hne Hf') as ((n' & it' & Hrun & Hir') & _). unfold bt_next in Hc.
    destruct (moved_transfer n' it' _ _ _ _ Hir' Hc) as (Hg & ->). rewrite Hrun. exists n', it'. split; [exact Hg|exact Hir'].
  - destruct (First_Last_correct mag h tr opt it fuel n Hrep Hsz Hne Hf') as (_ & (n' & it' & Hrun & Hir')). unfold bt_prev in Hc.
    destruct (moved_transfer n' it' _ _ _ _ Hir' Hc) as (Hg & ->). rewrite Hrun. exists n', it'. split; [exact Hg|exact Hir'].
  - destruct (move_to ipos (ientry r) (bt_next cmp r) pr m ip) as [[ip1 b]|] eqn:Hm; [|discriminate].
    destruct (proj1 (NextTo_PrevTo_correct mag h tr opt pr it ip m fuel n ip1 b Hswo Hgood Hrep Hsz Hir Hf) Hm) as (n' & it' & Hrun & Hir' & _).
    destruct (moved_transfer n' it' _ _ _ _ Hir' Hc) as (Hg & ->). rewrite Hrun. exists n', it'. split; [exact Hg|exact Hir'].
  - destruct (move_to ipos (ientry r) (bt_prev cmp r) pr m ip) as [[ip1 b]|] eqn:Hm; [|discriminate].
    destruct (proj2 (NextTo_PrevTo_correct mag h tr opt pr it ip m fuel n ip1 b Hswo Hgood Hrep Hsz Hir Hf) Hm) as (n' & it' & Hrun & Hir' & _).
    destruct (moved_transfer n' it' _ _ _ _ Hir' Hc) as (Hg & ->). rewrite Hrun. exists n', it'. split; [exact Hg|exact Hir'].
Qed.

Lemma gen_script_cursor : forall cs n it ip fuel, irep opt it ip -> (length (bt_inorder r) + 2 + omaxheight opt + owid opt <= fuel)%nat ->
  gen_script mag fuel n h tr it cs = IterTreeRB.cursor_run (bt_inorder r) true (IterTreeBT.bt_pos cmp r ip) cs.
Proof.
  induction cs as [|c cs IH]; intros n it ip fuel Hir Hf; [reflexivity|]. cbn [gen_script IterTreeRB.cursor_run].
  destruct (IterTreeRB.run_call_ok ipos (bt_next cmp r) (bt_prev cmp r) (fun _ => IBegin) (fun _ => IEnd) (ientry r) true
              (bt_inorder r) (IterTreeBT.bt_valid r) (IterTreeBT.bt_pos cmp r) (IterTreeBT.bt_pos_range cmp Hswo r Hgood)
              (IterTreeBT.bt_next_ok cmp Hswo r Hgood) (IterTreeBT.bt_prev_ok cmp Hswo r Hgood)
              (fun s _ => conj I eq_refl) (fun s _ => conj I eq_refl) (IterTreeBT.bt_cur_ok cmp Hswo r Hgood)
              (length (bt_inorder r) + 2)%nat ip c (Nat.le_refl _) (irep_valid _ _ _ Hir)) as (ip' & Hc & Hv' & Hp').
  destruct (gen_call_model n it ip (length (bt_inorder r) + 2)%nat fuel c ip' _ Hir ltac:(lia) Hc) as (n' & it' & Hg & Hir').
  rewrite Hg, <- Hp'. f_equal. apply IH; assumption.
Qed.
End Script.

(* OBLIGATION (C08): after ANY generated run, EVERY script of Next / Prev / Begin / End / First / Last / NextTo / PrevTo calls run by
   the generated iterator functions from the generated tree.Iterator() answers exactly as the cursor over the entries
   (Properties/C08_tree.v, C08_tree_cursor), which is also what the machine's model of the iterator answers *)
Theorem gen_bt_iterator_cursor : forall mag c ops fuel cs, ckind c = BTree -> 3 <= corder c -> (5 * length ops + bt_m c + 5 <= fuel)%nat ->
  let es := mrun (kc c) (map to_mop ops) in
  exists ncmp h tr it0, bt_gen_run mag (corder c) (kc c) fuel ops = Some (ncmp, h, tr) /\ G.Tree_Iterator h tr = Some it0 /\
    gen_script mag fuel ncmp h tr it0 cs = IterLinear.cursor_script es true cs /\
    IterLinear.cursor_script es true cs = run_iter c (run c (map to_op ops)) cs.
Proof.
  intros mag c ops fuel cs K Ho Hf es. pose proof (MT.bt_valid_m c Ho) as H3. pose proof (MM.kc_SWO c) as Hswo.
  destruct (gen_bt_reach mag c ops fuel K Ho ltac:(lia)) as (ncmp & h & tr & ot & Hrun & Hm & Hrepr & Hok & Hcmp & Htm & Hinv & Hsort & Hmh & Hcnt).
  destruct (bt_valid c K Ho) as (Hv & Hord & Hc & Hl). destruct (inv_size_ok _ _ _ _ Hrepr Hinv) as (Hso & Hwf).
  pose proof (inv_wid _ ot H3 Hinv) as Hw.
  assert (Hes : bt_inorder ot = es).
  { pose proof (MM.refines_tree c (map to_op ops) Hv Hl) as E. rewrite Hm, Hc, hist_to_op in E. exact E. }
  assert (Hlen : (length es <= length ops)%nat) by (rewrite <- Hes, <- MT.bt_count_inorder; exact Hcnt).
  assert (Hopt : exists opt, oerase opt = ot /\ orep h tr opt /\ osize_ok tr opt /\ omaxheight opt = bmaxheight ot /\ owid opt = bwid ot).
  { destruct ot as [t|].
    - destruct (proj1 Hrepr) as (pt & He & Hp & Hr & _). exists (Some pt). cbn [oerase option_map orep omaxheight owid bmaxheight bwid]. rewrite He.
      repeat split; try assumption; try exact Hso; try reflexivity.
    - exists None. repeat split; try exact (proj1 Hrepr); try exact Hso. }
  destruct Hopt as (opt & Hoe & Horep & Hosz & Homh & Howid). rewrite <- Hcmp in Hswo.
  assert (Hgood : IterTreeBT.bt_good (G.Tree_Comparator tr) (oerase opt)) by (rewrite Hoe, Hcmp; exact (IterTreeBT.bt_good_of_inv _ _ _ H3 Hinv Hsort)).
  destruct (Begin_End_correct h tr opt (G.mkIterator None None G.begin)) as (_ & _ & (it0 & Hit & Hir & _) & _).
  exists ncmp, h, tr, it0. split; [exact Hrun|]. split; [exact Hit|]. split.
  - assert (Hfu : (length (bt_inorder (oerase opt)) + 2 + omaxheight opt + owid opt <= fuel)%nat).
    { rewrite Hoe, Homh, Howid, <- MT.bt_count_inorder. change (MT.bt_count ot) with (bcount ot). lia. }
    rewrite (gen_script_cursor mag h tr opt Hswo Hgood Horep Hosz cs ncmp it0 IBegin fuel Hir Hfu), Hoe, Hes.
    exact (IterTreeMachine.cursor_script_eq es true cs).
  - pose proof (IterTreeMachine.tree_iter_reachable c (map to_op ops) cs) as E. rewrite Hm in E. unfold IterTreeMachine.tree_iter_seq in E.
    rewrite K in E. cbn [entries_of] in E. rewrite Hes in E. rewrite Hm. symmetry. apply E; [reflexivity|unfold IterTreeMachine.btree_ok; rewrite K; apply Z.leb_le; exact Ho].
Qed.
Print Assumptions gen_bt_iterator_cursor.

(* ---------- a concrete run (non-vacuity; evaluated, not proved): order 3, keys compared by floor division by 3 ---------- *)
Definition ex_mag : Z -> Z -> positive := fun _ _ => 1%positive.
Definition ex_cfg : config := {| ckind := BTree; kcmp := CDiv3; vcmp := CNat; ccap := 0; corder := 3; cuni := 6 |}.
Definition ex_ops : list bop :=
  [BPut 15 1; BPut 3 2; BPut 24 3; BPut 4 4; BPut 9 5; BPut 30 6; BRemove 16; BPut 0 7; BPut 12 8; BRemove 100; BPut 21 9].
(* an Example (stated with the keyword Lemma so that run.py can isolate it when it fails) *)
Lemma ex_bt_generated_run :
  match bt_gen_run ex_mag (corder ex_cfg) (kc ex_cfg) 60 ex_ops with
  | Some (ncmp, h, tr) =>
    Some (ncmp, G.Tree_Size h tr, G.Height 60 h tr, G.LeftKey 60 h tr, G.RightValue 60 h tr,
          option_map (fun r => (fst (fst r) - ncmp, snd (fst r), snd r)%nat) (G.Get ex_mag 60 ncmp h tr 5),
          option_map (fun r => (fst (fst r) - ncmp, snd (fst r), snd r)%nat) (G.Get ex_mag 60 ncmp h tr 15),
          option_map (fun r => (fst (fst r) - ncmp)%nat) (G.Put ex_mag 60 ncmp h tr 6 40),
          option_map (fun r => (fst (fst r) - ncmp)%nat) (G.Remove ex_mag 60 ncmp h tr 9),
          match G.Tree_Iterator h tr with
          | Some it => gen_script ex_mag 60 ncmp h tr it
                         [CNext; CNext; CNext; CNext; CNext; CNext; CNext; CNext; CNext; CPrev; CFirst; CLast; CEnd; CPrev; CBegin; CPrev; CNextTo (PValLt 4)]
          | None => []
          end)
  | None => None
  end =
  Some (21%nat, Some 7, Some 2, Some (Some 0), Some (Some 6), Some (3%nat, 4, true), Some (4%nat, 0, false), Some 4%nat, Some 1%nat,
        [OL [OZ 1; OZ 0; OZ 7]; OL [OZ 1; OZ 4; OZ 4]; OL [OZ 1; OZ 9; OZ 5]; OL [OZ 1; OZ 12; OZ 8]; OL [OZ 1; OZ 21; OZ 9]; OL [OZ 1; OZ 24; OZ 3];
         OL [OZ 1; OZ 30; OZ 6]; OL [OZ 0]; OL [OZ 0]; OL [OZ 1; OZ 30; OZ 6]; OL [OZ 1; OZ 0; OZ 7]; OL [OZ 1; OZ 30; OZ 6]; OL [];
         OL [OZ 1; OZ 30; OZ 6]; OL []; OL [OZ 0]; OL [OZ 1; OZ 24; OZ 3]]) /\
  mrun (kc ex_cfg) (map to_mop ex_ops) = [(0, 7); (4, 4); (9, 5); (12, 8); (21, 9); (24, 3); (30, 6)] /\
  last_live (kc ex_cfg) (rev (map to_mop ex_ops)) 5 = Some (4, 4) /\ last_live (kc ex_cfg) (rev (map to_mop ex_ops)) 15 = None /\
  (4 * (Nat.log2 3 + 1) * Nat.log2 (7 + 1))%nat = 24%nat.
Proof. vm_compute. repeat split; reflexivity. Qed.
